// Harness for C15: only correctly signed, fresh transactions take effect.
//
// A REAL sdk.BaseApp (InitChain / BeginBlock / DeliverTx / EndBlock / Commit)
// over memdb, with the REAL auth.NewAnteHandler (wrapped the way gno.land's app
// wraps it), the REAL auth and bank keepers, the REAL auth message handler
// (sessions) and one test message (`MsgNote`: arbitrary signer list, bumps a
// counter in the main store, optionally fails after writing).  Transactions are
// built from the op line with REAL keys (ed25519, secp256k1, threshold
// multisigs incl. a nested one and a threshold-0 one, crypto/mock nested in a
// multisig), amino-encoded, and delivered as bytes.
//
// op lines (addresses: 0..11 = address of ring key i, 90 = fee collector,
// 91..93 = addresses nobody has a key for; naturals have at most 18 digits):
//
//	cfg <verifyGenesis 0|1> <maxGas>     new world (maxGas = -1 | 0..499 | >= 10^12)
//	fund <addr> <amt>                    bank.AddCoins(amt ugnot) on the deliver state
//	block <dt>                           (EndBlock+Commit of the open block, then) BeginBlock height+1, time+dt
//	tx <gas> <fee> <memo> <msgs> <sigs>  DeliverTx
//	    gas   gasWanted: < 500 (runs out of gas at the tx-size charge) or >= 10^10 (always enough)
//	    fee   `-` (empty coin) | u<amt> (ugnot) | o<amt> ("foocoin", a denom nobody holds)
//	    memo  <id>:<pad>  = "m<id>" followed by pad 'x'
//	    msgs  `-` | m;m;...   n:<signers|->:<tag 0..7>:<fail 0|1>
//	                          c:<creator>:<key>:<expiresAt | t<k> = now+k>:<limit|->:<period>
//	                          r:<creator>:<key>     R:<creator>
//	    sigs  `-` | s;s;...   <pubkey idx|->/<session key idx|->/<sigspec>
//	          sigspec (Polish notation, `,`-separated):
//	            J                                      3 junk bytes
//	            L<key>.<chain 0|1>.<accnum>.<seq>.<body>.<intact>   real signature by ring key over the REAL sign bytes of
//	                                                   (chain, accnum, seq, body); accnum/seq: literal | @ | @+k | @-k where
//	                                                   @ = the signing account's (session's) current value (0 at height 0);
//	                                                   body: `=` this tx | v<id> this tx with memo id replaced; intact 0 = one bit flipped
//	            M<bits>:<n> followed by n sigspecs     amino-encoded Multisignature
//	replay <k>                           DeliverTx of the very bytes of the k-th `tx` op of this case
//	raw <k> <pos> <xor>                  the bytes of the k-th tx with byte pos%len XOR-ed, delivered on a FORK of the
//	                                     world (the case's history is re-executed); output is the constant `raw`
//
// output:  <ok | err:<class>> | h=<height> t=<time> n=<next account number> A<addr>=<accnum>.<seq>.<pubkey idx|->.<ugnot> ...
//
//	S<master>.<key>=<accnum>.<seq>.<pubkey>.<expiresAt>.<limit|->.<period>.<used>.<reset> ... N<tag>=<count> ...
//
// The dump is read from the real deliver-state store (every key of both mounted
// stores is visited; anything unexpected is printed as X<hex>).
//
// oracle (independent Go code; real VerifyBytes, real GetSignaturePayload, a
// byte-level diff of the full store before/after; nothing from the Lean model):
//
//	unsigned-effect      the store changed although some required signer has no valid signature over
//	                     (chain id, its account number, its current sequence)
//	fee-reject-effect    the store changed although the payer cannot pay the fee
//	seq-advance          an accepted tx did not advance each signer's sequence by exactly one / touched another sequence
//	replay               the same tx bytes took effect twice (at heights > 0)
//	replay-k0-multisig   same, and a signer's key is a multisig with threshold 0
//	signbytes-collision  two sign docs differing in chain id / account number / sequence have equal sign bytes
//	signbytes-fields     chain id / account number / sequence cannot be read back from the sign bytes
//	undecodable-effect   (raw) bytes that do not decode changed the store
package main

import (
	"bytes"
	"crypto/sha256"
	"encoding/json"
	"fmt"
	"sort"
	"strconv"
	"strings"
	"time"

	"github.com/gnolang/gno/tm2/pkg/amino"
	abci "github.com/gnolang/gno/tm2/pkg/bft/abci/types"
	bft "github.com/gnolang/gno/tm2/pkg/bft/types"
	"github.com/gnolang/gno/tm2/pkg/crypto"
	"github.com/gnolang/gno/tm2/pkg/crypto/ed25519"
	"github.com/gnolang/gno/tm2/pkg/crypto/mock"
	"github.com/gnolang/gno/tm2/pkg/crypto/multisig"
	"github.com/gnolang/gno/tm2/pkg/crypto/multisig/bitarray"
	"github.com/gnolang/gno/tm2/pkg/crypto/secp256k1"
	"github.com/gnolang/gno/tm2/pkg/db/memdb"
	"github.com/gnolang/gno/tm2/pkg/log"
	"github.com/gnolang/gno/tm2/pkg/sdk"
	"github.com/gnolang/gno/tm2/pkg/sdk/auth"
	"github.com/gnolang/gno/tm2/pkg/sdk/bank"
	"github.com/gnolang/gno/tm2/pkg/sdk/params"
	"github.com/gnolang/gno/tm2/pkg/std"
	"github.com/gnolang/gno/tm2/pkg/store"
	"github.com/gnolang/gno/tm2/pkg/store/dbadapter"
	"github.com/gnolang/gno/tm2/pkg/store/iavl"
	"gnoverif/kit"
)

// ---------------------------------------------------------------- test message

type MsgNote struct {
	Signers []crypto.Address
	Tag     string
	Fail    bool
}

func (m MsgNote) Route() string                { return "c15" }
func (m MsgNote) Type() string                 { return "note" }
func (m MsgNote) ValidateBasic() error         { return nil }
func (m MsgNote) GetSignBytes() []byte         { return std.MustSortJSON(amino.MustMarshalJSON(m)) }
func (m MsgNote) GetSigners() []crypto.Address { return m.Signers }

var Package = amino.RegisterPackage(amino.NewPackage(
	"main", "c15", amino.GetCallersDirname(),
).WithDependencies(std.Package).WithTypes(MsgNote{}, "MsgNote"))

type noteHandler struct{ key store.StoreKey }

func (h noteHandler) Process(ctx sdk.Context, msg std.Msg) sdk.Result {
	m, ok := msg.(MsgNote)
	if !ok {
		return sdk.ABCIResultFromError(std.ErrUnknownRequest("not a note"))
	}
	st := ctx.Store(h.key)
	k := []byte("/note/" + m.Tag)
	n := 0
	if v := st.Get(ctx.GasContext(), k); v != nil {
		n, _ = strconv.Atoi(string(v))
	}
	st.Set(ctx.GasContext(), k, []byte(strconv.Itoa(n+1)))
	if m.Fail {
		return sdk.ABCIResultFromError(std.ErrInternal("note fails after writing"))
	}
	return sdk.Result{}
}

func (h noteHandler) Query(ctx sdk.Context, req abci.RequestQuery) abci.ResponseQuery {
	return abci.ResponseQuery{}
}

// ---------------------------------------------------------------- key ring

const (
	chainID    = "c15-chain"
	otherChain = "c15-other"
	ringSize   = 12
	t0         = int64(1_700_000_000)
	gasDenom   = "ugnot"
	otherDenom = "foocoin"
)

type ringKey struct {
	priv crypto.PrivKey // nil for multisig keys
	pub  crypto.PubKey
	k    int   // multisig threshold
	subs []int // multisig sub keys
}

var (
	ring      [ringSize]ringKey
	addrIndex = map[crypto.Address]int{}
	addrOf    = map[int]crypto.Address{}
	pubIndex  = map[string]int{}
	collector crypto.Address
)

func initRing() {
	leaf := func(i int, priv crypto.PrivKey) { ring[i] = ringKey{priv: priv, pub: priv.PubKey()} }
	leaf(0, ed25519.GenPrivKeyFromSecret([]byte("c15-key-0")))
	leaf(1, secp256k1.GenPrivKeySecp256k1([]byte("c15-key-1")))
	leaf(2, ed25519.GenPrivKeyFromSecret([]byte("c15-key-2")))
	leaf(3, secp256k1.GenPrivKeySecp256k1([]byte("c15-key-3")))
	leaf(6, ed25519.GenPrivKeyFromSecret([]byte("c15-key-6")))
	leaf(7, secp256k1.GenPrivKeySecp256k1([]byte("c15-key-7")))
	leaf(9, ed25519.GenPrivKeyFromSecret([]byte("c15-key-9")))
	leaf(10, mock.PrivKeyMock([]byte("c15-mock")))
	multi := func(i, k int, subs ...int) {
		pks := make([]crypto.PubKey, len(subs))
		for j, s := range subs {
			pks[j] = ring[s].pub
		}
		// struct literal: the constructor refuses k <= 0, the wire format does not
		ring[i] = ringKey{pub: multisig.PubKeyMultisigThreshold{K: uint(k), PubKeys: pks}, k: k, subs: subs}
	}
	multi(4, 2, 0, 1, 2)
	multi(5, 0, 0)
	multi(8, 1, 4, 3)
	multi(11, 1, 10)
	for i := 0; i < ringSize; i++ {
		a := ring[i].pub.Address()
		addrIndex[a] = i
		addrOf[i] = a
		pubIndex[string(ring[i].pub.Bytes())] = i
	}
	collector = auth.DefaultParams().FeeCollector
	addrIndex[collector] = 90
	addrOf[90] = collector
	for i := 91; i <= 93; i++ {
		a := crypto.AddressFromPreimage([]byte(fmt.Sprintf("c15-nokey-%d", i)))
		addrIndex[a] = i
		addrOf[i] = a
	}
}

func isLeafKey(i int) bool { return ring[i].priv != nil }

// ---------------------------------------------------------------- world

type config struct {
	verifyGenesis bool
	maxGas        int64
}

var defaultConfig = config{verifyGenesis: true, maxGas: 1_000_000_000_000_000}

type world struct {
	c       config
	app     *sdk.BaseApp
	acck    auth.AccountKeeper
	bankk   bank.BankKeeper
	mainKey store.StoreKey
	baseKey store.StoreKey
	height  int64
	now     int64
	open    bool     // a block is open (after the first `block`)
	txs     [][]byte // bytes of the `tx` ops of this case
	history []string // op lines executed since the last cfg (for forks)
	// oracle bookkeeping
	effected map[[32]byte]bool // tx bytes that took effect at height > 0
	docs     map[string]string // sign bytes -> "chain/accnum/seq"
	quiet    bool              // fork: no oracle
	pending  string            // a violation found while building (sign-bytes collision)
}

func newWorld(c config) *world {
	db := memdb.NewMemDB()
	mainKey := store.NewStoreKey("main")
	baseKey := store.NewStoreKey("base")
	app := sdk.NewBaseApp("c15", log.NewNoopLogger(), db, baseKey, mainKey)
	app.MountStoreWithDB(mainKey, iavl.StoreConstructor, db)
	app.MountStoreWithDB(baseKey, dbadapter.StoreConstructor, db)
	prmk := params.NewParamsKeeper(mainKey)
	acck := auth.NewAccountKeeper(mainKey, prmk.ForModule(auth.ModuleName), std.ProtoBaseAccount, std.ProtoBaseSessionAccount)
	bankk := bank.NewBankKeeper(acck, prmk.ForModule(bank.ModuleName), mainKey, []string{gasDenom})
	gpk := auth.NewGasPriceKeeper(mainKey)
	prmk.Register(auth.ModuleName, acck)
	prmk.Register(bank.ModuleName, bankk)
	app.SetInitChainer(func(ctx sdk.Context, req abci.RequestInitChain) abci.ResponseInitChain {
		if err := acck.SetParams(ctx, auth.DefaultParams()); err != nil {
			panic(err)
		}
		return abci.ResponseInitChain{}
	})
	ante := auth.NewAnteHandler(acck, bankk, auth.DefaultSigVerificationGasConsumer,
		auth.AnteOptions{VerifyGenesisSignatures: c.verifyGenesis})
	// the wrapper of gno.land/pkg/gnoland/app.go, minus the VM parts
	app.SetAnteHandler(func(ctx sdk.Context, tx std.Tx, simulate bool) (sdk.Context, sdk.Result, bool) {
		ctx = ctx.WithValue(auth.GasPriceContextKey{}, gpk.LastGasPrice(ctx))
		ctx = ctx.WithValue(auth.AuthParamsContextKey{}, acck.GetParams(ctx))
		return ante(ctx, tx, simulate)
	})
	app.Router().AddRoute("auth", auth.NewHandler(acck, gpk))
	app.Router().AddRoute("bank", bank.NewHandler(bankk))
	app.Router().AddRoute("c15", noteHandler{mainKey})
	if err := app.LoadLatestVersion(); err != nil {
		panic(err)
	}
	w := &world{c: c, app: app, acck: acck, bankk: bankk, mainKey: mainKey, baseKey: baseKey, now: t0,
		effected: map[[32]byte]bool{}, docs: map[string]string{}}
	app.InitChain(abci.RequestInitChain{
		ChainID: chainID, Time: time.Unix(t0, 0).UTC(),
		ConsensusParams: &abci.ConsensusParams{
			Block:     &abci.BlockParams{MaxTxBytes: 1 << 20, MaxDataBytes: 1 << 21, MaxBlockBytes: 1 << 22, MaxGas: c.maxGas, TimeIotaMS: 10},
			Validator: &abci.ValidatorParams{PubKeyTypeURLs: []string{}},
		},
	})
	return w
}

func (w *world) header() *bft.Header {
	return &bft.Header{ChainID: chainID, Height: w.height, Time: time.Unix(w.now, 0).UTC()}
}

// ctx reads/writes the REAL deliver state.
func (w *world) ctx() sdk.Context { return w.app.NewContext(sdk.RunTxModeDeliver, w.header()) }

func (w *world) block(dt int64) {
	if w.open {
		w.app.EndBlock(abci.RequestEndBlock{Height: w.height})
		w.app.Commit()
	}
	w.height++
	w.now += dt
	w.app.BeginBlock(abci.RequestBeginBlock{Header: w.header()})
	w.open = true
}

// snapshot is every key/value of both mounted stores of the deliver state.
func (w *world) snapshot() map[string]string {
	out := map[string]string{}
	ctx := w.ctx()
	for _, sk := range []store.StoreKey{w.mainKey, w.baseKey} {
		st := ctx.Store(sk)
		it := st.Iterator(nil, nil, nil)
		for ; it.Valid(); it.Next() {
			out[sk.Name()+"|"+string(it.Key())] = string(it.Value())
		}
		it.Close()
	}
	return out
}

func diffKeys(a, b map[string]string) []string {
	var d []string
	for k, v := range a {
		if bv, ok := b[k]; !ok || bv != v {
			d = append(d, k)
		}
	}
	for k := range b {
		if _, ok := a[k]; !ok {
			d = append(d, k)
		}
	}
	sort.Strings(d)
	return d
}

// ---------------------------------------------------------------- dump (read from the real store)

func pubIdx(pk crypto.PubKey) string {
	if pk == nil {
		return "-"
	}
	if i, ok := pubIndex[string(pk.Bytes())]; ok {
		return strconv.Itoa(i)
	}
	return "?"
}

func ugnotOnly(c std.Coins) (int64, bool) {
	switch len(c) {
	case 0:
		return 0, true
	case 1:
		if c[0].Denom == gasDenom {
			return c[0].Amount, true
		}
	}
	return 0, false
}

func (w *world) dump() string {
	ctx := w.ctx()
	st := ctx.Store(w.mainKey)
	accs := map[int]string{}
	sess := map[[2]int]string{}
	notes := map[int]string{}
	next := uint64(0)
	var extra []string
	it := st.Iterator(nil, nil, nil)
	for ; it.Valid(); it.Next() {
		k, v := it.Key(), it.Value()
		ks := string(k)
		switch {
		case strings.HasPrefix(ks, "/a/") && len(k) == auth.AccountStoreKeyLen:
			var a crypto.Address
			copy(a[:], k[3:])
			idx, known := addrIndex[a]
			var acc std.Account
			if err := amino.Unmarshal(v, &acc); err != nil || !known || acc.GetAddress() != a {
				extra = append(extra, fmt.Sprintf("X%x", k))
				continue
			}
			coins, ok := ugnotOnly(acc.GetCoins())
			if _, isBase := acc.(*std.BaseAccount); !ok || !isBase {
				extra = append(extra, fmt.Sprintf("X%x", k))
				continue
			}
			accs[idx] = fmt.Sprintf("A%d=%d.%d.%s.%d", idx, acc.GetAccountNumber(), acc.GetSequence(), pubIdx(acc.GetPubKey()), coins)
		case strings.HasPrefix(ks, "/a/") && len(k) == auth.AccountStoreKeyLen+3+crypto.AddressSize && string(k[23:26]) == "/s/":
			var m, s crypto.Address
			copy(m[:], k[3:23])
			copy(s[:], k[26:])
			mi, ok1 := addrIndex[m]
			si, ok2 := addrIndex[s]
			var acc std.Account
			err := amino.UnmarshalAny(v, &acc)
			var da std.DelegatedAccount
			if err == nil {
				da, _ = acc.(std.DelegatedAccount)
			}
			if da == nil || !ok1 || !ok2 || si >= ringSize || da.GetAddress() != s || da.GetMasterAddress() != m {
				extra = append(extra, fmt.Sprintf("X%x", k))
				continue
			}
			lim, okL := ugnotOnly(da.GetSpendLimit())
			used, okU := ugnotOnly(da.GetSpendUsed())
			if !okL || !okU {
				extra = append(extra, fmt.Sprintf("X%x", k))
				continue
			}
			limS := "-"
			if len(da.GetSpendLimit()) > 0 {
				limS = strconv.FormatInt(lim, 10)
			}
			sess[[2]int{mi, si}] = fmt.Sprintf("S%d.%d=%d.%d.%s.%d.%s.%d.%d.%d", mi, si, da.GetAccountNumber(), da.GetSequence(),
				pubIdx(da.GetPubKey()), da.GetExpiresAt(), limS, da.GetSpendPeriod(), used, da.GetSpendReset())
		case strings.HasPrefix(ks, "/note/t"):
			t, err := strconv.Atoi(ks[len("/note/t"):])
			if err != nil || t < 0 || t > 7 {
				extra = append(extra, fmt.Sprintf("X%x", k))
				continue
			}
			notes[t] = fmt.Sprintf("N%d=%s", t, v)
		case ks == auth.GlobalAccountNumberKey:
			amino.MustUnmarshal(v, &next)
		case strings.HasPrefix(ks, "/pv/"), ks == "consensus_params":
			// module parameters / consensus params: constant after InitChain (the oracle's diff covers them)
		default:
			extra = append(extra, fmt.Sprintf("X%x", k))
		}
	}
	it.Close()
	parts := []string{fmt.Sprintf("h=%d t=%d n=%d", w.height, w.now, next)}
	univ := append(seq(0, ringSize-1), 90, 91, 92, 93)
	for _, a := range univ {
		if s, ok := accs[a]; ok {
			parts = append(parts, s)
		}
	}
	for _, a := range univ {
		for k := 0; k < ringSize; k++ {
			if s, ok := sess[[2]int{a, k}]; ok {
				parts = append(parts, s)
			}
		}
	}
	for t := 0; t < 8; t++ {
		if s, ok := notes[t]; ok {
			parts = append(parts, s)
		}
	}
	sort.Strings(extra)
	parts = append(parts, extra...)
	return strings.Join(parts, " ")
}

func seq(a, b int) []int {
	var out []int
	for i := a; i <= b; i++ {
		out = append(out, i)
	}
	return out
}

// ---------------------------------------------------------------- strict parsing (mirrored by the Lean driver)

func pNat(s string) (int64, bool) {
	if len(s) == 0 || len(s) > 18 {
		return 0, false
	}
	var v int64
	for _, c := range s {
		if c < '0' || c > '9' {
			return 0, false
		}
		v = v*10 + int64(c-'0')
	}
	return v, true
}

func pInt(s string) (int64, bool) {
	if strings.HasPrefix(s, "-") {
		v, ok := pNat(s[1:])
		return -v, ok
	}
	return pNat(s)
}

func pBool(s string) (bool, bool) {
	switch s {
	case "1":
		return true, true
	case "0":
		return false, true
	}
	return false, false
}

func pAddr(s string) (int, bool) {
	v, ok := pNat(s)
	if !ok || !(v < ringSize || (v >= 90 && v <= 93)) {
		return 0, false
	}
	return int(v), true
}

func pKey(s string) (int, bool) {
	v, ok := pNat(s)
	if !ok || v >= ringSize {
		return 0, false
	}
	return int(v), true
}

type ref struct {
	rel bool
	n   int64 // literal, or signed offset
}

func (r ref) at(cur uint64) uint64 {
	if !r.rel {
		return uint64(r.n)
	}
	if r.n >= 0 {
		return cur + uint64(r.n)
	}
	if cur < uint64(-r.n) {
		return 0
	}
	return cur - uint64(-r.n)
}

func pRef(s string) (ref, bool) {
	switch {
	case s == "@":
		return ref{rel: true}, true
	case strings.HasPrefix(s, "@+"):
		v, ok := pNat(s[2:])
		return ref{rel: true, n: v}, ok
	case strings.HasPrefix(s, "@-"):
		v, ok := pNat(s[2:])
		return ref{rel: true, n: -v}, ok
	}
	v, ok := pNat(s)
	return ref{n: v}, ok
}

// ---- parsed (unresolved) transaction

type msgSpec struct {
	kind    byte // n c r R
	signers []int
	tag     int
	fail    bool
	creator int
	key     int
	exp     int64
	limit   int64 // -1 = none
	period  int64
}

type feeSpec struct {
	empty bool
	gas   bool
	amt   int64
}

type sigSpec struct {
	kind   byte // J L M
	key    int
	chain  int
	an, sq ref
	bodyEq bool
	bodyID int64
	intact bool
	bits   []bool
	subs   []*sigSpec
}

type sigEntry struct {
	pk   int // -1 none
	sess int // -1 none
	spec *sigSpec
}

type txSpec struct {
	gas     int64
	fee     feeSpec
	memoID  int64
	memoPad int64
	msgs    []msgSpec
	sigs    []sigEntry
}

func pTime(now int64, s string) (int64, bool) {
	if strings.HasPrefix(s, "t") {
		v, ok := pInt(s[1:])
		return now + v, ok
	}
	return pInt(s)
}

func pMsg(now int64, s string) (msgSpec, bool) {
	f := strings.Split(s, ":")
	var m msgSpec
	switch {
	case len(f) == 4 && f[0] == "n":
		m.kind = 'n'
		if f[1] != "-" {
			for _, a := range strings.Split(f[1], ",") {
				v, ok := pAddr(a)
				if !ok {
					return m, false
				}
				m.signers = append(m.signers, v)
			}
		}
		t, ok1 := pNat(f[2])
		fl, ok2 := pBool(f[3])
		if !ok1 || !ok2 || t > 7 {
			return m, false
		}
		m.tag, m.fail = int(t), fl
		return m, true
	case len(f) == 6 && f[0] == "c":
		m.kind = 'c'
		var ok1, ok2, ok3, ok4, ok5 bool
		m.creator, ok1 = pAddr(f[1])
		m.key, ok2 = pKey(f[2])
		m.exp, ok3 = pTime(now, f[3])
		if f[4] == "-" {
			m.limit, ok4 = -1, true
		} else {
			m.limit, ok4 = pNat(f[4])
			if m.limit == 0 {
				ok4 = false
			}
		}
		m.period, ok5 = pInt(f[5])
		return m, ok1 && ok2 && ok3 && ok4 && ok5
	case len(f) == 3 && f[0] == "r":
		m.kind = 'r'
		var ok1, ok2 bool
		m.creator, ok1 = pAddr(f[1])
		m.key, ok2 = pKey(f[2])
		return m, ok1 && ok2
	case len(f) == 2 && f[0] == "R":
		m.kind = 'R'
		var ok bool
		m.creator, ok = pAddr(f[1])
		return m, ok
	}
	return m, false
}

func pFee(s string) (feeSpec, bool) {
	switch {
	case s == "-":
		return feeSpec{empty: true}, true
	case strings.HasPrefix(s, "u"):
		v, ok := pNat(s[1:])
		return feeSpec{gas: true, amt: v}, ok
	case strings.HasPrefix(s, "o"):
		v, ok := pNat(s[1:])
		return feeSpec{amt: v}, ok
	}
	return feeSpec{}, false
}

func pSigSpec(fuel int, toks []string) (*sigSpec, []string, bool) {
	if fuel == 0 || len(toks) == 0 {
		return nil, nil, false
	}
	t, rest := toks[0], toks[1:]
	switch {
	case t == "J":
		return &sigSpec{kind: 'J'}, rest, true
	case strings.HasPrefix(t, "L"):
		f := strings.Split(t[1:], ".")
		if len(f) != 6 {
			return nil, nil, false
		}
		s := &sigSpec{kind: 'L'}
		var ok1, ok2, ok3, ok4, ok6 bool
		s.key, ok1 = pKey(f[0])
		ch, ok2 := pNat(f[1])
		s.an, ok3 = pRef(f[2])
		s.sq, ok4 = pRef(f[3])
		ok5 := true
		switch {
		case f[4] == "=":
			s.bodyEq = true
		case strings.HasPrefix(f[4], "v"):
			s.bodyID, ok5 = pNat(f[4][1:])
		default:
			ok5 = false
		}
		s.intact, ok6 = pBool(f[5])
		if !(ok1 && ok2 && ok3 && ok4 && ok5 && ok6) || !isLeafKey(s.key) || ch > 1 {
			return nil, nil, false
		}
		s.chain = int(ch)
		return s, rest, true
	case strings.HasPrefix(t, "M"):
		f := strings.Split(t[1:], ":")
		if len(f) != 2 {
			return nil, nil, false
		}
		s := &sigSpec{kind: 'M'}
		for _, c := range f[0] {
			switch c {
			case '1':
				s.bits = append(s.bits, true)
			case '0':
				s.bits = append(s.bits, false)
			default:
				return nil, nil, false
			}
		}
		n, ok := pNat(f[1])
		if !ok || n > 8 || len(s.bits) > 8 {
			return nil, nil, false
		}
		for i := int64(0); i < n; i++ {
			sub, r, ok := pSigSpec(fuel-1, rest)
			if !ok {
				return nil, nil, false
			}
			s.subs = append(s.subs, sub)
			rest = r
		}
		return s, rest, true
	}
	return nil, nil, false
}

func pTx(now int64, g, f, m, ms, ss string) (*txSpec, bool) {
	tx := &txSpec{}
	var ok bool
	if tx.gas, ok = pInt(g); !ok || !(tx.gas < 500 || tx.gas >= 10_000_000_000) {
		return nil, false
	}
	if tx.fee, ok = pFee(f); !ok {
		return nil, false
	}
	mf := strings.Split(m, ":")
	if len(mf) != 2 {
		return nil, false
	}
	var ok1, ok2 bool
	tx.memoID, ok1 = pNat(mf[0])
	tx.memoPad, ok2 = pNat(mf[1])
	if !ok1 || !ok2 || tx.memoPad > 70000 {
		return nil, false
	}
	if ms != "-" {
		for _, p := range strings.Split(ms, ";") {
			mm, ok := pMsg(now, p)
			if !ok {
				return nil, false
			}
			tx.msgs = append(tx.msgs, mm)
		}
	}
	if len(tx.msgs) > 8 {
		return nil, false
	}
	if ss != "-" {
		parts := strings.Split(ss, ";")
		if len(parts) > 10 {
			return nil, false
		}
		for _, p := range parts {
			f := strings.Split(p, "/")
			if len(f) != 3 {
				return nil, false
			}
			e := sigEntry{pk: -1, sess: -1}
			if f[0] != "-" {
				if e.pk, ok = pKey(f[0]); !ok {
					return nil, false
				}
			}
			if f[1] != "-" {
				if e.sess, ok = pKey(f[1]); !ok {
					return nil, false
				}
			}
			spec, rest, ok := pSigSpec(4, strings.Split(f[2], ","))
			if !ok || len(rest) != 0 {
				return nil, false
			}
			e.spec = spec
			tx.sigs = append(tx.sigs, e)
		}
	}
	return tx, true
}

// ---------------------------------------------------------------- building the real transaction

func memoStr(id, pad int64) string { return "m" + strconv.FormatInt(id, 10) + strings.Repeat("x", int(pad)) }

func (m msgSpec) real() std.Msg {
	switch m.kind {
	case 'n':
		ss := make([]crypto.Address, len(m.signers))
		for i, a := range m.signers {
			ss[i] = addrOf[a]
		}
		return MsgNote{Signers: ss, Tag: "t" + strconv.Itoa(m.tag), Fail: m.fail}
	case 'c':
		var lim std.Coins
		if m.limit >= 0 {
			lim = std.Coins{std.Coin{Denom: gasDenom, Amount: m.limit}}
		}
		return auth.MsgCreateSession{Creator: addrOf[m.creator], SessionKey: ring[m.key].pub, ExpiresAt: m.exp, SpendLimit: lim, SpendPeriod: m.period}
	case 'r':
		return auth.MsgRevokeSession{Creator: addrOf[m.creator], SessionKey: ring[m.key].pub}
	default:
		return auth.MsgRevokeAllSessions{Creator: addrOf[m.creator]}
	}
}

func (f feeSpec) coin() std.Coin {
	if f.empty {
		return std.Coin{}
	}
	d := otherDenom
	if f.gas {
		d = gasDenom
	}
	return std.Coin{Denom: d, Amount: f.amt}
}

// cur returns the numbers `@` stands for: the signing account's (session's)
// account number and sequence in the REAL deliver state (0,0 at height 0).
func (w *world) cur(signer int, sess int) (uint64, uint64) {
	if w.height == 0 || signer < 0 {
		return 0, 0
	}
	ctx := w.ctx()
	var acc std.Account
	if sess >= 0 {
		acc = w.acck.GetSessionAccount(ctx, addrOf[signer], addrOf[sess])
	} else {
		acc = w.acck.GetAccount(ctx, addrOf[signer])
	}
	if acc == nil {
		return 0, 0
	}
	return acc.GetAccountNumber(), acc.GetSequence()
}

func dedupFirst(msgs []msgSpec) []int {
	seen := map[int]bool{}
	var out []int
	for _, m := range msgs {
		ss := m.signers
		if m.kind != 'n' {
			ss = []int{m.creator}
		}
		for _, a := range ss {
			if !seen[a] {
				seen[a] = true
				out = append(out, a)
			}
		}
	}
	return out
}

func (w *world) sigBytes(s *sigSpec, base std.Tx, memoPad int64, an, sq uint64) []byte {
	switch s.kind {
	case 'J':
		return []byte{0xff, 0xff, 0xff}
	case 'L':
		t := base
		if !s.bodyEq {
			t.Memo = memoStr(s.bodyID, memoPad)
		}
		ch := chainID
		if s.chain == 1 {
			ch = otherChain
		}
		sb, err := t.GetSignBytes(ch, s.an.at(an), s.sq.at(sq))
		if err != nil {
			panic(err)
		}
		if v := w.noteDoc(sb, ch, s.an.at(an), s.sq.at(sq)); v != "" && !w.quiet {
			w.pending = v
		}
		sig, err := ring[s.key].priv.Sign(sb)
		if err != nil {
			panic(err)
		}
		if !s.intact {
			sig = append([]byte{}, sig...)
			sig[len(sig)/2] ^= 0x04
		}
		return sig
	default:
		ms := &multisig.Multisignature{BitArray: bitarray.NewCompactBitArray(len(s.bits))}
		for i, b := range s.bits {
			if b {
				ms.BitArray.SetIndex(i, true)
			}
		}
		for _, sub := range s.subs {
			ms.Sigs = append(ms.Sigs, w.sigBytes(sub, base, memoPad, an, sq))
		}
		return amino.MustMarshal(ms)
	}
}

// build resolves the spec against the current real state and amino-encodes it.
func (w *world) build(ts *txSpec) []byte {
	tx := std.Tx{Fee: std.Fee{GasWanted: ts.gas, GasFee: ts.fee.coin()}, Memo: memoStr(ts.memoID, ts.memoPad)}
	for _, m := range ts.msgs {
		tx.Msgs = append(tx.Msgs, m.real())
	}
	signers := dedupFirst(ts.msgs)
	for i, e := range ts.sigs {
		signer := -1
		if i < len(signers) {
			signer = signers[i]
		}
		an, sq := w.cur(signer, e.sess)
		sg := std.Signature{Signature: w.sigBytes(e.spec, tx, ts.memoPad, an, sq)}
		if e.pk >= 0 {
			sg.PubKey = ring[e.pk].pub
		}
		if e.sess >= 0 {
			sg.SessionAddr = addrOf[e.sess]
		}
		tx.Signatures = append(tx.Signatures, sg)
	}
	zeroFee := !ts.fee.empty && ts.fee.amt == 0
	if zeroFee {
		// a zero coin marshals to "" (= the empty coin); "0ugnot" only exists on the wire
		tx.Fee.GasFee.Amount = 9
	}
	bz := amino.MustMarshal(tx)
	if zeroFee {
		pat := []byte("9" + tx.Fee.GasFee.Denom)
		i := bytes.Index(bz, pat)
		if i < 0 || bytes.Count(bz, pat) != 1 {
			panic("zero-fee patch: pattern not unique")
		}
		bz[i] = '0'
	}
	return bz
}

// ---------------------------------------------------------------- executing

func errClass(e abci.Error) string {
	switch e.(type) {
	case nil:
		return "ok"
	case std.InternalError:
		return "err:internal"
	case std.TxDecodeError:
		return "err:txdecode"
	case std.InvalidSequenceError:
		return "err:invalidsequence"
	case std.UnauthorizedError:
		return "err:unauthorized"
	case std.InsufficientFundsError:
		return "err:insufficientfunds"
	case std.UnknownRequestError:
		return "err:unknownrequest"
	case std.InvalidAddressError:
		return "err:invalidaddress"
	case std.UnknownAddressError:
		return "err:unknownaddress"
	case std.InvalidPubKeyError:
		return "err:invalidpubkey"
	case std.InsufficientCoinsError:
		return "err:insufficientcoins"
	case std.InvalidCoinsError:
		return "err:invalidcoins"
	case std.InvalidGasWantedError:
		return "err:invalidgaswanted"
	case std.OutOfGasError:
		return "err:outofgas"
	case std.MemoTooLargeError:
		return "err:memotoolarge"
	case std.InsufficientFeeError:
		return "err:insufficientfee"
	case std.TooManySignaturesError:
		return "err:toomanysigs"
	case std.NoSignaturesError:
		return "err:nosignatures"
	case std.GasOverflowError:
		return "err:gasoverflow"
	case std.SessionExpiredError:
		return "err:sessionexpired"
	case std.SessionNotFoundError:
		return "err:sessionnotfound"
	case std.SessionLimitError:
		return "err:sessionlimit"
	case std.SessionNotAllowedError:
		return "err:sessionnotallowed"
	}
	return "err:other"
}

// deliver runs DeliverTx on the real app and judges it.
func (w *world) deliver(bz []byte) (string, string) {
	var pre map[string]string
	if !w.quiet {
		pre = w.snapshot()
	}
	res := w.app.DeliverTx(abci.RequestDeliverTx{Tx: bz})
	cls := errClass(res.Error)
	verdict := "-"
	if !w.quiet {
		verdict = w.judge(bz, pre, w.snapshot())
		if w.pending != "" {
			verdict, w.pending = w.pending, ""
		}
	}
	return cls, verdict
}

func (w *world) exec(toks []string) (string, string) {
	bad := func() (string, string) { return "err:badop", "-" }
	fin := func(r, o string) (string, string) { return clip(r + " | " + w.dump()), o }
	if len(toks) == 0 {
		return bad()
	}
	switch {
	case toks[0] == "fund" && len(toks) == 3:
		a, ok1 := pAddr(toks[1])
		amt, ok2 := pNat(toks[2])
		if !ok1 || !ok2 || amt == 0 {
			return bad()
		}
		if err := w.bankk.AddCoins(w.ctx(), addrOf[a], std.Coins{std.Coin{Denom: gasDenom, Amount: amt}}); err != nil {
			panic(err)
		}
		return fin("ok", "-")
	case toks[0] == "block" && len(toks) == 2:
		dt, ok := pNat(toks[1])
		if !ok || dt > 1_000_000_000 {
			return bad()
		}
		w.block(dt)
		return fin("ok", "-")
	case toks[0] == "tx" && len(toks) == 6:
		ts, ok := pTx(w.now, toks[1], toks[2], toks[3], toks[4], toks[5])
		if !ok {
			return bad()
		}
		bz := w.build(ts)
		w.txs = append(w.txs, bz)
		r, o := w.deliver(bz)
		return fin(r, o)
	case toks[0] == "replay" && len(toks) == 2:
		k, ok := pNat(toks[1])
		if !ok || k >= int64(len(w.txs)) {
			return bad()
		}
		r, o := w.deliver(w.txs[k])
		return fin(r, o)
	}
	return bad()
}

// clip: the kit cuts output lines at 300 characters, so long lines keep their
// first 200 characters and end in an FNV-1a checksum of the whole line.
func clip(s string) string {
	if len(s) <= 250 {
		return s
	}
	h := uint64(14695981039346656037)
	for i := 0; i < len(s); i++ {
		h = (h ^ uint64(s[i])) * 1099511628211
	}
	return fmt.Sprintf("%s #%016x", s[:200], h)
}

// ---------------------------------------------------------------- oracle

type preAcc struct {
	accNum, seq uint64
	pub         crypto.PubKey
	coins       int64
}

// accountsOf decodes every account and session of a snapshot: key = "a|<addr>" or "s|<master>|<session>".
func accountsOf(snap map[string]string) map[string]preAcc {
	out := map[string]preAcc{}
	for k, v := range snap {
		if !strings.HasPrefix(k, "main|/a/") {
			continue
		}
		raw := []byte(k[len("main|"):])
		var acc std.Account
		if err := amino.Unmarshal([]byte(v), &acc); err != nil || acc == nil {
			continue
		}
		p := preAcc{accNum: acc.GetAccountNumber(), seq: acc.GetSequence(), pub: acc.GetPubKey(), coins: acc.GetCoins().AmountOf(gasDenom)}
		if len(raw) == 23 {
			out["a|"+string(raw[3:23])] = p
		} else if len(raw) == 46 {
			out["s|"+string(raw[3:23])+"|"+string(raw[26:46])] = p
		}
	}
	return out
}

func isK0(pk crypto.PubKey) bool {
	m, ok := pk.(multisig.PubKeyMultisigThreshold)
	if !ok {
		return false
	}
	if m.K == 0 {
		return true
	}
	for _, s := range m.PubKeys {
		if isK0(s) {
			// a threshold-0 key nested in a multisig verifies vacuously as well
			return true
		}
	}
	return false
}

// judge evaluates the property statement on one delivery (independent of the model).
func (w *world) judge(bz []byte, pre, post map[string]string) string {
	changedKeys := diffKeys(pre, post)
	changed := len(changedKeys) > 0
	var tx std.Tx
	if err := amino.Unmarshal(bz, &tx); err != nil {
		if changed {
			return "VIOL:undecodable-effect " + strings.Join(changedKeys, ",")
		}
		return "ok"
	}
	if w.height == 0 {
		// genesis: signatures are over (0,0) or not checked at all, by design; not judged
		return "-"
	}
	accs := accountsOf(pre)
	signers := tx.GetSigners()
	allValid := len(signers) > 0 && len(signers) == len(tx.Signatures)
	type ident struct {
		key string
		seq uint64
	}
	var ids []ident
	k0 := false
	if allValid {
		for i, a := range signers {
			sg := tx.Signatures[i]
			key := "a|" + string(a[:])
			if !sg.SessionAddr.IsZero() {
				key = "s|" + string(a[:]) + "|" + string(sg.SessionAddr[:])
			}
			acc, ok := accs[key]
			if _, okM := accs["a|"+string(a[:])]; !ok || !okM {
				allValid = false
				break
			}
			pk := acc.pub
			if pk == nil {
				pk = sg.PubKey
				if pk != nil && sg.SessionAddr.IsZero() && pk.Address() != a {
					pk = nil // a key that is not the signer's
				}
			}
			if pk == nil {
				allValid = false
				break
			}
			sb, err := std.GetSignaturePayload(std.SignDoc{ChainID: chainID, AccountNumber: acc.accNum, Sequence: acc.seq, Fee: tx.Fee, Msgs: tx.Msgs, Memo: tx.Memo})
			if err != nil {
				allValid = false
				break
			}
			if v := w.noteDoc(sb, chainID, acc.accNum, acc.seq); v != "" {
				return v
			}
			if !safeVerify(pk, sb, sg.Signature) {
				allValid = false
				break
			}
			if isK0(pk) {
				k0 = true
			}
			ids = append(ids, ident{key, acc.seq})
		}
	}
	if changed && !allValid {
		return "VIOL:unsigned-effect changed " + hexKeys(changedKeys)
	}
	// fee: the first signer pays
	if changed && len(signers) > 0 && tx.Fee.GasFee.Amount > 0 {
		payer := accs["a|"+string(signers[0][:])]
		bal := int64(0)
		if tx.Fee.GasFee.Denom == gasDenom {
			bal = payer.coins
		}
		if bal < tx.Fee.GasFee.Amount {
			return fmt.Sprintf("VIOL:fee-reject-effect balance %d < fee %d, changed %s", bal, tx.Fee.GasFee.Amount, hexKeys(changedKeys))
		}
	}
	if changed {
		after := accountsOf(post)
		mine := map[string]bool{}
		for _, id := range ids {
			mine[id.key] = true
			if a, ok := after[id.key]; ok && a.accNum == accs[id.key].accNum && a.seq != id.seq+1 {
				return fmt.Sprintf("VIOL:seq-advance signer sequence %d -> %d", id.seq, a.seq)
			}
		}
		for k, b := range accs {
			if a, ok := after[k]; ok && !mine[k] && a.accNum == b.accNum && a.seq != b.seq {
				return fmt.Sprintf("VIOL:seq-advance non-signer sequence %d -> %d", b.seq, a.seq)
			}
		}
		h := sha256.Sum256(bz)
		if w.effected[h] {
			if k0 {
				return "VIOL:replay-k0-multisig the same tx bytes took effect again (threshold-0 multisig signer)"
			}
			return "VIOL:replay the same tx bytes took effect again"
		}
		w.effected[h] = true
	}
	return "ok"
}

func safeVerify(pk crypto.PubKey, msg, sig []byte) (ok bool) {
	defer func() {
		if recover() != nil {
			ok = false
		}
	}()
	return pk.VerifyBytes(msg, sig)
}

func hexKeys(ks []string) string {
	out := make([]string, len(ks))
	for i, k := range ks {
		out[i] = fmt.Sprintf("%x", k)
	}
	return strings.Join(out, ",")
}

// noteDoc records sign bytes and reports two docs that differ in chain id,
// account number or sequence but have the same sign bytes.
func (w *world) noteDoc(sb []byte, chain string, an, sq uint64) string {
	id := fmt.Sprintf("%s/%d/%d", chain, an, sq)
	// the sign bytes must carry chain id, account number and sequence recoverably
	// (a left inverse on these components = injectivity in them)
	var doc struct {
		ChainID       string `json:"chain_id"`
		AccountNumber string `json:"account_number"`
		Sequence      string `json:"sequence"`
	}
	if err := json.Unmarshal(sb, &doc); err != nil || doc.ChainID != chain ||
		doc.AccountNumber != strconv.FormatUint(an, 10) || doc.Sequence != strconv.FormatUint(sq, 10) {
		return fmt.Sprintf("VIOL:signbytes-fields %s not recoverable from the sign bytes", id)
	}
	if old, ok := w.docs[string(sb)]; ok && old != id {
		return fmt.Sprintf("VIOL:signbytes-collision %s vs %s", old, id)
	}
	w.docs[string(sb)] = id
	return ""
}

// ---------------------------------------------------------------- kit glue

var cur *world

func reset() { cur = newWorld(defaultConfig) }

func validMaxGas(g int64) bool { return g == -1 || (g >= 0 && g < 500) || g >= 1_000_000_000_000 }

func execTop(toks []string) (string, string) {
	if len(toks) == 3 && toks[0] == "cfg" {
		v, ok1 := pBool(toks[1])
		g, ok2 := pInt(toks[2])
		if !ok1 || !ok2 || !validMaxGas(g) {
			return "err:badop", "-"
		}
		cur = newWorld(config{verifyGenesis: v, maxGas: g})
		return clip("ok | " + cur.dump()), "-"
	}
	if len(toks) == 4 && toks[0] == "raw" {
		k, ok1 := pNat(toks[1])
		pos, ok2 := pNat(toks[2])
		x, ok3 := pNat(toks[3])
		if !ok1 || !ok2 || !ok3 || k >= int64(len(cur.txs)) || x < 1 || x > 255 {
			return "err:badop", "-"
		}
		// fork: a fresh world with the same configuration re-executes the history
		f := newWorld(cur.c)
		f.quiet = true
		for _, line := range cur.history {
			f.exec(strings.Fields(line))
		}
		f.quiet = false
		f.effected = map[[32]byte]bool{}
		for h := range cur.effected {
			f.effected[h] = true
		}
		bz := append([]byte{}, cur.txs[k]...)
		bz[pos%int64(len(bz))] ^= byte(x)
		_, verdict := f.deliver(bz)
		return "raw", verdict
	}
	r, o := cur.exec(toks)
	if r != "err:badop" {
		cur.history = append(cur.history, strings.Join(toks, " "))
	}
	return r, o
}

func main() {
	initRing()
	kit.Main(&kit.Harness{Gen: gen, Reset: reset, Exec: execTop})
}
