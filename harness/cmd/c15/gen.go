package main

import (
	"fmt"
	"strings"

	"gnoverif/kit"
)

// ---------------------------------------------------------------- generator
//
// The generator is stateless with respect to the chain (account numbers and
// sequences are written as `@` references resolved at exec time); it only keeps
// a rough picture of what it funded / which sessions it created so that most
// transactions are valid.

const bigGas = "10000000000"

// okSig returns a correct sigspec for ring key k (multisigs: the cheapest valid one).
func okSig(k int) string {
	switch k {
	case 4:
		return "M110:2," + okSig(0) + "," + okSig(1)
	case 5:
		return "M0:0"
	case 8:
		return "M01:1," + okSig(3)
	case 11:
		return "M1:1," + okSig(10)
	}
	return fmt.Sprintf("L%d.0.@.@.=.1", k)
}

// leafWith: a leaf sigspec with explicit fields.
func leafWith(k int, chain int, an, sq, body string, intact int) string {
	return fmt.Sprintf("L%d.%d.%s.%s.%s.%d", k, chain, an, sq, body, intact)
}

type gsig struct {
	pk, sess string
	spec     string
}

func (g gsig) String() string { return g.pk + "/" + g.sess + "/" + g.spec }

func joinSigs(gs []gsig) string {
	if len(gs) == 0 {
		return "-"
	}
	p := make([]string, len(gs))
	for i, g := range gs {
		p[i] = g.String()
	}
	return strings.Join(p, ";")
}

func note(signers []int, tag int, fail bool) string {
	s := "-"
	if len(signers) > 0 {
		p := make([]string, len(signers))
		for i, a := range signers {
			p[i] = fmt.Sprint(a)
		}
		s = strings.Join(p, ",")
	}
	f := 0
	if fail {
		f = 1
	}
	return fmt.Sprintf("n:%s:%d:%d", s, tag, f)
}

type gstate struct {
	r        *kit.Rand
	w        *kit.Out
	memo     int
	funded   map[int]bool
	sessions map[[2]int]bool // (master, key) believed to exist
	ntx      int
	height   int
}

func (g *gstate) nextMemo() string {
	g.memo++
	return fmt.Sprintf("%d:%d", g.memo, g.r.Intn(4))
}

func (g *gstate) tx(gas, fee, memo, msgs, sigs string) {
	g.w.Op("tx %s %s %s %s %s", gas, fee, memo, msgs, sigs)
	g.ntx++
}

var signerKeys = []int{0, 1, 2, 3, 4, 8, 11, 5}

// validSigFor: a correct signature entry for signer address a (master key or a known session).
func (g *gstate) validSigFor(a int, withPk bool) gsig {
	for k := 6; k <= 7; k++ {
		if g.sessions[[2]int{a, k}] && g.r.Chance(40) {
			pk := "-"
			if g.r.Chance(30) {
				pk = fmt.Sprint(k)
			}
			return gsig{pk, fmt.Sprint(k), okSig(k)}
		}
	}
	pk := "-"
	if withPk {
		pk = fmt.Sprint(a)
	}
	return gsig{pk, "-", okSig(a)}
}

func (g *gstate) pickSigners(n int) []int {
	var pool []int
	for _, k := range signerKeys {
		if g.funded[k] {
			pool = append(pool, k)
		}
	}
	if len(pool) == 0 {
		pool = []int{0}
	}
	seen := map[int]bool{}
	var out []int
	for len(out) < n && len(out) < len(pool) {
		k := kit.Pick(g.r, pool)
		if !seen[k] {
			seen[k] = true
			out = append(out, k)
		}
	}
	return out
}

// validTx emits a (believed) valid tx; returns its pieces for mutation.
func (g *gstate) validParts() (fee string, msgs []string, signers []int, sigs []gsig) {
	n := 1
	if g.r.Chance(35) {
		n = 2 + g.r.Intn(2)
	}
	signers = g.pickSigners(n)
	// messages: spread the signers over 1..3 notes, with duplicates now and then
	var ms []string
	rest := append([]int{}, signers...)
	for len(rest) > 0 {
		k := 1 + g.r.Intn(len(rest))
		part := append([]int{}, rest[:k]...)
		rest = rest[k:]
		if g.r.Chance(25) {
			part = append(part, part[g.r.Intn(len(part))]) // duplicated signer inside a message
		}
		if g.r.Chance(20) && len(ms) > 0 {
			part = append(part, signers[0]) // repeated across messages
		}
		ms = append(ms, note(part, g.r.Intn(8), false))
	}
	if g.r.Chance(15) {
		ms = append(ms, note([]int{signers[g.r.Intn(len(signers))]}, g.r.Intn(8), g.r.Chance(50)))
	}
	fee = fmt.Sprintf("u%d", 1+g.r.Intn(20))
	if g.r.Chance(8) {
		fee = "u0"
	}
	for _, a := range signers {
		sigs = append(sigs, g.validSigFor(a, true))
	}
	return fee, ms, signers, sigs
}

func (g *gstate) emitValid() {
	fee, ms, _, sigs := g.validParts()
	g.tx(bigGas, fee, g.nextMemo(), strings.Join(ms, ";"), joinSigs(sigs))
}

func (g *gstate) emitSession() {
	masters := g.pickSigners(1)
	m := masters[0]
	k := 6 + g.r.Intn(2)
	switch g.r.Intn(10) {
	case 0: // revoke
		g.tx(bigGas, "u1", g.nextMemo(), fmt.Sprintf("r:%d:%d", m, k), joinSigs([]gsig{g.validSigFor(m, true)}))
		delete(g.sessions, [2]int{m, k})
	case 1: // revoke all
		g.tx(bigGas, "u1", g.nextMemo(), fmt.Sprintf("R:%d", m), joinSigs([]gsig{g.validSigFor(m, true)}))
		for kk := 0; kk < ringSize; kk++ {
			delete(g.sessions, [2]int{m, kk})
		}
	default:
		exp := kit.Pick(g.r, []string{"0", "0", "t1", "t5", "t20", "t100000", "t0", "t-1", "t126144000", "t126144001", "-3"})
		lim := kit.Pick(g.r, []string{"-", "5", "30", "30", "1000", "1000"})
		per := kit.Pick(g.r, []string{"0", "0", "10", "60", "2592000", "2592001", "-1"})
		g.tx(bigGas, "u1", g.nextMemo(), fmt.Sprintf("c:%d:%d:%s:%s:%s", m, k, exp, lim, per), joinSigs([]gsig{g.validSigFor(m, true)}))
		if (exp == "0" || exp == "t5" || exp == "t20" || exp == "t100000" || exp == "t1" || exp == "t126144000") && per != "2592001" && per != "-1" {
			g.sessions[[2]int{m, k}] = true
		}
	}
}

// emitMutant: a valid tx with exactly one thing wrong (or unusual).
func (g *gstate) emitMutant() {
	fee, ms, signers, sigs := g.validParts()
	gas := bigGas
	memo := g.nextMemo()
	i := g.r.Intn(len(sigs))
	a := signers[i]
	leaf := a < 4 || a == 6 || a == 7 || a == 9
	switch g.r.Intn(30) {
	case 0: // wrong chain id
		if leaf {
			sigs[i].spec = leafWith(a, 1, "@", "@", "=", 1)
		} else {
			sigs[i].spec = strings.ReplaceAll(sigs[i].spec, ".0.@.@", ".1.@.@")
		}
	case 1: // wrong account number
		sigs[i].spec = strings.ReplaceAll(sigs[i].spec, ".0.@.@", ".0."+kit.Pick(g.r, []string{"@+1", "@-1", "0", "7", "9007199254740993"})+".@")
	case 2: // wrong sequence
		sigs[i].spec = strings.ReplaceAll(sigs[i].spec, ".0.@.@", ".0.@."+kit.Pick(g.r, []string{"@+1", "@-1", "0", "1", "@+2", "9007199254740993"}))
	case 3: // signature over another body
		sigs[i].spec = strings.ReplaceAll(sigs[i].spec, ".=.", fmt.Sprintf(".v%d.", 900+g.r.Intn(5)))
	case 4: // mutated signature bytes
		sigs[i].spec = strings.ReplaceAll(sigs[i].spec, ".=.1", ".=.0")
	case 5: // swapped signatures
		if len(sigs) >= 2 {
			j := (i + 1) % len(sigs)
			sigs[i], sigs[j] = sigs[j], sigs[i]
		} else {
			sigs[i].spec = okSig((a + 1) % 4)
		}
	case 6: // missing signer
		sigs = append(sigs[:i], sigs[i+1:]...)
	case 7: // extra signature
		sigs = append(sigs, gsig{"9", "-", okSig(9)})
	case 8: // another key's pubkey attached
		sigs[i].pk = fmt.Sprint(kit.Pick(g.r, []int{0, 1, 2, 3, 4, 5, 8, 9, 10, 11}))
	case 9: // no pubkey attached (fails only if none is stored yet)
		sigs[i].pk = "-"
	case 10: // unknown session
		sigs[i].sess = kit.Pick(g.r, []string{"6", "7", "9", "0"})
	case 11: // fee the payer cannot afford
		fee = kit.Pick(g.r, []string{"u100000000", "u999999999999", "o1", "o5"})
	case 12: // empty fee coin
		fee = "-"
	case 13: // out of gas at the first charge
		gas = kit.Pick(g.r, []string{"0", "1", "499", "-1", "-5"})
	case 14: // more gas than the block allows
		gas = kit.Pick(g.r, []string{"1000000000000001", "2000000000000000000"[:16], "1152921504606846975", "1152921504606846976"})
	case 15: // memo too large
		memo = fmt.Sprintf("%d:%d", g.memo, kit.Pick(g.r, []int{65536, 65534, 65533, 65530, 70000}))
	case 16: // junk signature
		sigs[i].spec = "J"
	case 17: // multisig shapes
		sigs[i] = gsig{"4", "-", kit.Pick(g.r, []string{
			"M110:1," + okSig(0), "M111:2," + okSig(0) + "," + okSig(1), "M11:2," + okSig(0) + "," + okSig(1),
			"M100:2," + okSig(0) + "," + okSig(1), "M101:2," + okSig(0) + "," + okSig(1), "M011:2," + okSig(1) + "," + okSig(2),
			"M111:3," + okSig(0) + "," + okSig(1) + "," + okSig(2), "M1100:2," + okSig(0) + "," + okSig(1), "M:0", "M000:0",
			"M110:2," + okSig(1) + "," + okSig(0), "J", okSig(0),
		})}
	case 18: // unknown signer address
		ms = append(ms, note([]int{kit.Pick(g.r, []int{91, 92, 9, 6})}, 1, false))
		sigs = append(sigs, gsig{"9", "-", okSig(9)})
	case 19: // too many signatures (sub keys count)
		sigs[i].pk = "8"
		sigs = append(sigs, gsig{"8", "-", okSig(9)})
	case 20: // no messages
		ms = nil
	case 21: // no signatures
		sigs = nil
	case 22: // the degenerate multisig signs with nothing / with a marked bit
		ms = []string{note([]int{5}, 2, false)}
		sigs = []gsig{{"5", "-", kit.Pick(g.r, []string{"M0:0", "M1:1," + okSig(0), "M:0", "M1:0", "J"})}}
	case 23: // mock key at top level / nested
		ms = []string{note([]int{kit.Pick(g.r, []int{10, 11})}, 3, false)}
		sigs = []gsig{{kit.Pick(g.r, []string{"10", "11"}), "-", kit.Pick(g.r, []string{okSig(10), okSig(11)})}}
	case 24: // session signs with the master's numbers
		if g.sessions[[2]int{a, 6}] {
			sigs[i] = gsig{"-", "6", okSig(a)}
		} else {
			sigs[i].spec = "J"
		}
	case 25: // nested multisig variants
		ms = []string{note([]int{8}, 4, false)}
		sigs = []gsig{{"8", "-", kit.Pick(g.r, []string{"M10:1," + okSig(4), "M01:1," + okSig(3), "M11:2," + okSig(4) + "," + okSig(3), "M10:1," + okSig(3), "M10:1,J"})}}
	case 26: // a failing message after a good one
		ms = append(ms, note([]int{signers[0]}, 7, true))
	default: // fine after all
	}
	msgs := "-"
	if len(ms) > 0 {
		msgs = strings.Join(ms, ";")
	}
	g.tx(gas, fee, memo, msgs, joinSigs(sigs))
}

func (g *gstate) emitReplay() {
	if g.ntx == 0 {
		g.emitValid()
		return
	}
	k := g.ntx - 1 - g.r.Intn(min(g.ntx, 4))
	g.w.Op("replay %d", k)
}

func (g *gstate) fundSome() {
	for _, k := range signerKeys {
		if g.r.Chance(70) {
			g.w.Op("fund %d %d", k, 100+g.r.Intn(2000))
			g.funded[k] = true
		}
	}
	if g.r.Chance(20) {
		g.w.Op("fund %d %d", kit.Pick(g.r, []int{6, 7, 9, 90, 91}), 50)
	}
}

func genCase(w *kit.Out, r *kit.Rand, id string, ops int) {
	w.Case(id)
	g := &gstate{r: r, w: w, funded: map[int]bool{}, sessions: map[[2]int]bool{}}
	if r.Chance(25) {
		w.Op("cfg %d %s", r.Intn(2), kit.Pick(r, []string{"1000000000000000", "-1", "1000000000000", "499", "0"}))
	}
	g.fundSome()
	if r.Chance(30) { // genesis-height transactions
		for i := 0; i < 1+r.Intn(3); i++ {
			if r.Chance(70) {
				g.emitValid()
			} else {
				g.emitMutant()
			}
		}
		if r.Chance(50) {
			g.emitReplay()
		}
	}
	w.Op("block %d", 1+r.Intn(10))
	g.height = 1
	for i := 0; i < ops; i++ {
		switch p := r.Intn(100); {
		case p < 34:
			g.emitValid()
		case p < 46:
			g.emitSession()
		case p < 62:
			g.emitReplay()
		case p < 86:
			g.emitMutant()
		case p < 93:
			w.Op("block %d", kit.Pick(r, []int{0, 1, 1, 4, 5, 9, 10, 11, 59, 60, 61, 100000}))
		case p < 96:
			w.Op("fund %d %d", kit.Pick(r, signerKeys), 1+r.Intn(500))
		default:
			if g.ntx > 0 {
				w.Op("raw %d %d %d", r.Intn(g.ntx), r.Intn(400), 1+r.Intn(255))
			}
		}
	}
}

// boundary table: pinned scenarios first.
func genBoundary(w *kit.Out) {
	s0 := "0/-/" + okSig(0)
	w.Case("b-single-and-replay")
	w.Op("fund 0 1000")
	w.Op("block 5")
	w.Op("tx %s u10 1:0 n:0:1:0 %s", bigGas, s0)
	w.Op("replay 0")
	w.Op("block 1")
	w.Op("replay 0")
	w.Op("tx %s u10 1:0 n:0:1:0 -/-/%s", bigGas, okSig(0))
	w.Op("replay 0")
	w.Op("replay 1")

	w.Case("b-bad-sig-no-fee")
	w.Op("fund 0 1000")
	w.Op("fund 1 1000")
	w.Op("block 5")
	w.Op("tx %s u10 1:0 n:0:1:0 0/-/%s", bigGas, leafWith(0, 0, "@", "@", "=", 0))
	w.Op("tx %s u10 2:0 n:0:1:0 0/-/%s", bigGas, leafWith(0, 1, "@", "@", "=", 1))
	w.Op("tx %s u10 3:0 n:0:1:0 0/-/%s", bigGas, leafWith(0, 0, "@+1", "@", "=", 1))
	w.Op("tx %s u10 4:0 n:0:1:0 0/-/%s", bigGas, leafWith(0, 0, "@", "@+1", "=", 1))
	w.Op("tx %s u10 5:0 n:0:1:0 0/-/%s", bigGas, leafWith(0, 0, "@", "@", "v9", 1))
	w.Op("tx %s u10 6:0 n:0:1:0 0/-/%s", bigGas, leafWith(1, 0, "@", "@", "=", 1))
	w.Op("tx %s u10 7:0 n:0:1:0 1/-/%s", bigGas, okSig(1))
	w.Op("tx %s u10 8:0 n:0,1:1:0 0/-/%s;1/-/%s", bigGas, okSig(0), leafWith(1, 0, "@", "@", "=", 0))
	w.Op("tx %s u10 9:0 n:0,1:1:0 1/-/%s;0/-/%s", bigGas, okSig(1), okSig(0))
	w.Op("tx %s u10 10:0 n:0,1:1:0 0/-/%s;1/-/%s", bigGas, okSig(0), okSig(1))
	w.Op("replay 9")

	w.Case("b-fees")
	w.Op("fund 0 100")
	w.Op("block 5")
	w.Op("tx %s u101 1:0 n:0:1:0 %s", bigGas, s0)
	w.Op("tx %s o1 2:0 n:0:1:0 %s", bigGas, s0)
	w.Op("tx %s - 3:0 n:0:1:0 %s", bigGas, s0)
	w.Op("tx %s u0 4:0 n:0:1:0 %s", bigGas, s0)
	w.Op("tx %s u100 5:0 n:0:1:0 %s", bigGas, s0)
	w.Op("tx %s u1 6:0 n:0:1:0 %s", bigGas, s0)
	w.Op("tx 499 u1 7:0 n:0:1:0 %s", s0)
	w.Op("tx 1000000000000001 u1 8:0 n:0:1:0 %s", s0)

	w.Case("b-multisig")
	w.Op("fund 4 1000")
	w.Op("fund 8 1000")
	w.Op("fund 11 1000")
	w.Op("block 5")
	w.Op("tx %s u10 1:0 n:4:1:0 4/-/%s", bigGas, okSig(4))
	w.Op("replay 0")
	w.Op("tx %s u10 2:0 n:4:1:0 -/-/M110:1,%s", bigGas, okSig(0))
	w.Op("tx %s u10 3:0 n:4:1:0 -/-/M111:2,%s,%s", bigGas, okSig(0), okSig(1))
	w.Op("tx %s u10 4:0 n:4:1:0 -/-/M011:2,%s,%s", bigGas, okSig(1), okSig(2))
	w.Op("tx %s u10 5:0 n:4:1:0 -/-/J", bigGas)
	w.Op("tx %s u10 6:0 n:8:1:0 8/-/%s", bigGas, okSig(8))
	w.Op("tx %s u10 7:0 n:8:1:0 -/-/M10:1,%s", bigGas, okSig(4))
	w.Op("tx %s u10 8:0 n:11:1:0 11/-/%s", bigGas, okSig(11))
	w.Op("tx %s u10 9:0 n:10:1:0 10/-/%s", bigGas, okSig(10))

	w.Case("b-k0-multisig-replay")
	w.Op("fund 5 1000")
	w.Op("block 5")
	w.Op("tx %s u10 1:0 n:5:2:0 5/-/M0:0", bigGas)
	w.Op("replay 0")
	w.Op("replay 0")

	w.Case("b-sessions")
	w.Op("fund 0 1000")
	w.Op("fund 1 1000")
	w.Op("block 5")
	w.Op("tx %s u1 1:0 c:0:6:t100:30:10 %s", bigGas, s0)
	w.Op("tx %s u10 2:0 n:0:1:0 -/6/%s", bigGas, okSig(6))
	w.Op("replay 1")
	w.Op("tx %s u10 3:0 n:0:1:0 6/6/%s", bigGas, okSig(6))
	w.Op("tx %s u10 4:0 n:0:1:0 -/6/%s", bigGas, okSig(6))
	w.Op("tx %s u11 5:0 n:0:1:0 -/6/%s", bigGas, okSig(6))
	w.Op("block 9")
	w.Op("tx %s u11 6:0 n:0:1:0 -/6/%s", bigGas, okSig(6))
	w.Op("block 1")
	w.Op("tx %s u11 7:0 n:0:1:0 -/6/%s", bigGas, okSig(6))
	w.Op("tx %s u10 8:0 n:0:1:0 -/6/%s", bigGas, okSig(0))
	w.Op("tx %s u1 9:0 r:0:6 %s", bigGas, "-/-/"+okSig(0))
	w.Op("tx %s u1 10:0 n:0:1:0 -/6/%s", bigGas, okSig(6))
	w.Op("tx %s u1 11:0 c:0:6:0:30:0 %s", bigGas, "-/-/"+okSig(0))
	w.Op("replay 1")
	w.Op("tx %s u1 12:0 n:0:1:0 -/6/%s", bigGas, okSig(6))
	w.Op("block 100")
	w.Op("tx %s u1 13:0 c:1:7:t5:-:0 1/-/%s", bigGas, okSig(1))
	w.Op("tx %s u1 14:0 n:1:1:0 -/7/%s", bigGas, okSig(7))
	w.Op("tx %s u1 15:0 n:0,1:1:0 -/6/%s;-/7/%s", bigGas, okSig(6), okSig(7))
	w.Op("block 5")
	w.Op("tx %s u1 16:0 n:0,1:1:0 -/6/%s;-/7/%s", bigGas, okSig(6), okSig(7))

	w.Case("b-genesis-verify")
	w.Op("fund 0 1000")
	w.Op("tx %s u10 1:0 n:0:1:0 %s", bigGas, s0)
	w.Op("replay 0")
	w.Op("tx %s u10 2:0 n:0:1:0 0/-/%s", bigGas, leafWith(0, 0, "0", "2", "=", 1))
	w.Op("tx 0 u10 3:0 n:0:1:0 %s", s0)
	w.Op("block 5")
	w.Op("replay 0")
	w.Op("tx %s u10 4:0 n:0:1:0 %s", bigGas, s0)

	w.Case("b-genesis-noverify")
	w.Op("cfg 0 1000000000000000")
	w.Op("fund 0 1000")
	w.Op("tx %s u10 1:0 n:0:1:0 0/-/J", bigGas)
	w.Op("tx %s u10 2:0 n:0:1:0 %s", bigGas, s0)
	w.Op("block 5")
	w.Op("replay 1")
	w.Op("replay 1")
	w.Op("replay 0")

	w.Case("b-collector-and-stale")
	w.Op("fund 0 1000")
	w.Op("fund 1 1000")
	w.Op("block 5")
	w.Op("tx %s u10 1:0 n:0,1,0:1:0;n:1,0:2:0 0/-/%s;1/-/%s", bigGas, okSig(0), okSig(1))
	w.Op("tx %s u10 2:0 n:1:1:0;n:0:2:1 1/-/%s;0/-/%s", bigGas, okSig(1), okSig(0))
	w.Op("tx %s u10 3:0 n:90:1:0 -/-/J", bigGas)
	w.Op("tx %s u10 4:0 n:91:1:0 -/-/J", bigGas)
	w.Op("tx %s u10 5:0 - %s", bigGas, s0)
	w.Op("tx %s u10 6:0 n:0:1:0 -", bigGas)
	w.Op("tx %s u10 7:65536 n:0:1:0 %s", bigGas, s0)
	w.Op("tx %s u10 8:65530 n:0:1:0 %s", bigGas, s0)
	w.Op("tx %s u10 9:0 n:0:1:0 8/-/%s;8/-/%s", bigGas, okSig(0), okSig(0))
	w.Op("raw 0 3 255")
	w.Op("raw 0 120 1")
}

func gen(w *kit.Out, r *kit.Rand, tier string) {
	genBoundary(w)
	cases, ops := 220, 22
	if tier == "thorough" {
		cases, ops = 1500, 30
	}
	for i := 0; i < cases; i++ {
		genCase(w, r.Fork(), fmt.Sprintf("r%d", i), ops/2+r.Intn(ops))
	}
	// malformed stream: byte-level mutations of accepted and rejected transactions
	for i := 0; i < cases/4; i++ {
		rr := r.Fork()
		w.Case(fmt.Sprintf("m%d", i))
		g := &gstate{r: rr, w: w, funded: map[int]bool{}, sessions: map[[2]int]bool{}}
		g.fundSome()
		w.Op("block 3")
		for j := 0; j < 3; j++ {
			if rr.Chance(60) {
				g.emitValid()
			} else {
				g.emitMutant()
			}
		}
		for j := 0; j < 12; j++ {
			w.Op("raw %d %d %d", rr.Intn(g.ntx), rr.Intn(600), 1+rr.Intn(255))
		}
		w.Op("bogus %d", rr.Intn(9))
		w.Op("tx 600 u1 1:0 n:0:1:0 -")
	}
}
