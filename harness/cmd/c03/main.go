// Harness for C03 — realm behaviour is independent of persistence boundaries.
//
// The realm of src.go (pointers and recursive structs, slices sharing backing
// arrays, maps, arrays and struct copies, closures capturing variables,
// interfaces with value and pointer receivers, declared types) is driven by a
// generated CALL SEQUENCE (`#case` = one history, one op line = one call) in
// three worlds at once:
//
//	A  one transaction per call through the real vm.VMKeeper (MsgCall): every
//	   call finalises the realm, writes its objects as amino bytes and the next
//	   call re-reads them into a cold object cache;
//	B  the whole history inside ONE transaction (one gno transaction store, one
//	   object cache, nothing reloaded; never committed);
//	C  the same source as a plain `package main` in a bare GnoVM with no realm
//	   and no store persistence at all (harness/gnorun).
//
// impl column  : the string returned in world A.
// oracle column: the property statement — A, B and C must return the same
// string for every call (`render` compares the complete state, alias structure
// included).  The Lean driver runs an independent heap semantics of the same
// operations and must print the same string.
package main

import (
	"fmt"
	"os"
	"strconv"
	"strings"

	"gnoverif/c07kit"
	"gnoverif/gnorun"
	"gnoverif/kit"

	"github.com/gnolang/gno/gno.land/pkg/sdk/vm"
	"github.com/gnolang/gno/tm2/pkg/sdk"
)

const heapPath = "gno.land/r/c03/heap"

// arg kinds per function: i = int, s = short key string
var sigs = map[string]string{
	"NewNode": "i", "SetV": "ii", "GetV": "i", "Link": "ii", "Unlink": "i", "Walk": "ii", "Drop": "i",
	"AddKid": "ii", "KidSum": "i", "Tag": "isi", "Untag": "is", "TagGet": "is",
	"RegPut": "si", "RegDel": "s", "RegGet": "s", "CopyNode": "i", "SetArr": "iii", "GetArr": "i",
	"MkSlice": "i", "Sub": "iii", "SetElem": "iii", "App": "ii", "GetSlice": "i",
	"PtrV": "i", "PtrArr": "ii", "PtrElem": "ii", "SetPtr": "ii", "GetPtr": "i",
	"MkCounter": "i", "MkPair": "i", "MkAdder": "i", "CallFn": "ii",
	"MkSq": "i", "MkRc": "ii", "DupShape": "i", "Area": "i", "Grow": "ii", "SetAny": "ii", "AnyStr": "i",
	"MkPairs": "i", "ClonePairs": "i", "DupPairs": "i", "AppPair": "iii", "SetPair": "iiii", "GetPairs": "i",
	"Render": "i",
}

var (
	copied bool // a struct value copy happened in this case
	E      *c07kit.Env
	ctxB   sdk.Context
	R      *gnorun.Runner
	P      *gnorun.Pkg
)

func setup() {
	if E != nil {
		return
	}
	E = c07kit.NewEnv("c03caller")
	if err := E.DeployBase(heapPath, []c07kit.File{{Name: "heap.gno", Body: renderSrc(true)}}); err != nil {
		panic("deploy: " + c07kit.ErrMsg(err))
	}
	R = gnorun.New(c07kit.RepoDir())
	var perr *gnorun.Panic
	P, perr = R.Load("main", "main", map[string]string{"main.gno": renderSrc(false) + resetSrc})
	if perr != nil {
		panic("load: " + perr.String())
	}
	newCase()
}

const resetSrc = `
func Reset() string {
	nodes, slices, iptrs, fns, shapes, reg, pairs = nil, nil, nil, nil, nil, nil, nil
	return "ok"
}
`

func newCase() {
	copied = false
	E.NewCase()
	txMS := E.MS.MultiCacheWrap()
	ctxB = E.VMK.MakeGnoTransactionStore(E.BaseCtx.WithMultiStore(txMS))
	if r := P.Call("Reset"); r.Panic != nil {
		panic("reset: " + r.Panic.String())
	}
}

func okKey(s string) bool {
	if len(s) == 0 || len(s) > 4 {
		return false
	}
	for _, c := range s {
		if c < 'a' || c > 'z' {
			return false
		}
	}
	return true
}

// unwrap `("xyz" string)` as returned by MsgCall
func unwrap(res string) string {
	res = strings.TrimSpace(res)
	if strings.HasPrefix(res, "(\"") {
		if j := strings.LastIndex(res, "\" string)"); j >= 2 {
			return res[2:j]
		}
	}
	return "?" + res
}

func callB(fn string, args []string) (out string) {
	defer func() {
		if r := recover(); r != nil {
			out = "go-panic:" + fmt.Sprint(r)
		}
	}()
	res, err := E.VMK.Call(ctxB, vm.NewMsgCall(E.Caller, nil, heapPath, fn, args))
	if err != nil {
		return "error:" + c07kit.ErrMsg(err)
	}
	return unwrap(res)
}

func exec(t []string) (string, string) {
	if len(t) == 0 {
		return "err:badop", "-"
	}
	sig, ok := sigs[t[0]]
	if !ok || len(t) != 1+len(sig) {
		return "err:badop", "-"
	}
	var cargs []any
	for i, k := range sig {
		a := t[1+i]
		if k == 'i' {
			n, err := strconv.Atoi(a)
			if err != nil || n < -100000 || n > 100000 {
				return "err:badop", "-"
			}
			cargs = append(cargs, n)
		} else {
			if !okKey(a) {
				return "err:badop", "-"
			}
			cargs = append(cargs, a)
		}
	}
	setup()
	args := t[1:]
	// world A: its own transaction
	resA, errA := E.Call(heapPath, t[0], args...)
	a := unwrap(resA)
	if errA != nil {
		a = "error:" + c07kit.ErrMsg(errA)
		if c07kit.Trace() {
			fmt.Fprintln(os.Stderr, a)
		}
	}
	b := callB(t[0], args)
	var c string
	rc := P.Call(t[0], cargs...)
	if rc.Panic != nil {
		c = "panic:" + rc.Panic.String()
	} else {
		c = rc.Str(0)
	}
	impl := shorten(a)
	if strings.HasPrefix(a, "error:") {
		impl = "panic:tx"
	}
	// After a struct value copy (CopyNode) of a reloaded node the transaction-per-call
	// world is known to alias the array field (known_findings/C03.json); divergences
	// from then on get their own class.  The Lean model implements exactly that one
	// quirk, so any OTHER divergence in such a history still surfaces as
	// model != implementation.
	cls := "persist-divergence"
	if copied {
		cls = "persist-divergence-structcopy"
	}
	if t[0] == "CopyNode" && a != "bad" {
		copied = true
	}
	switch {
	case a != c:
		return impl, "VIOL:" + cls + " " + t[0] + " tx-per-call=" + shorten(a) + " in-memory=" + shorten(c)
	case a != b:
		return impl, "VIOL:" + cls + "-onetx " + t[0] + " tx-per-call=" + shorten(a) + " one-tx=" + shorten(b)
	}
	return impl, "ok"
}

// shorten keeps the canonical output under the kit's 300-character line limit:
// long results (Render) are printed as an FNV-1a digest plus length.
func shorten(s string) string {
	if len(s) <= 100 {
		return s
	}
	h := uint32(2166136261)
	for i := 0; i < len(s); i++ {
		h ^= uint32(s[i])
		h *= 16777619
	}
	return fmt.Sprintf("h:%08x:%d", h, len(s))
}

func reset() {
	if E != nil {
		newCase()
	}
}

func main() {
	kit.Main(&kit.Harness{Gen: gen, Reset: reset, Exec: exec})
}
