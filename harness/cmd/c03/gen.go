package main

import (
	"fmt"
	"sort"

	"gnoverif/kit"
)

// pinned aliasing scenarios (boundary table)
var table = [][]string{
	{ // slices sharing a backing array; append in place vs. reallocation
		"MkSlice 3", "Sub 0 0 2", "SetElem 1 0 99", "GetSlice 0", "App 1 7", "GetSlice 0", "GetSlice 1",
		"Sub 0 1 6", "App 0 8", "App 0 9", "App 0 10", "App 0 11", "GetSlice 0", "GetSlice 2", "SetElem 0 1 55", "GetSlice 1", "GetSlice 2",
		"PtrElem 1 0", "SetPtr 0 41", "GetSlice 0", "GetSlice 1", "App 1 1", "App 1 2", "App 1 3", "App 1 4", "App 1 5", "SetPtr 0 42", "GetSlice 1", "GetPtr 0", "Render 0",
	},
	{ // pointers and cycles, drop while still reachable
		"NewNode 1", "NewNode 2", "NewNode 3", "Link 0 1", "Link 1 2", "Link 2 0", "Walk 0 7", "PtrV 1", "SetPtr 0 20", "Walk 0 3",
		"Drop 1", "Walk 0 4", "GetV 1", "RegPut a 2", "Drop 2", "RegGet a", "Walk 0 4", "SetPtr 0 21", "Walk 0 2", "Unlink 0", "Walk 0 3", "GetPtr 0", "Render 0",
	},
	{ // struct copy: shared map / kids backing / next pointer, copied array
		"NewNode 5", "NewNode 6", "Tag 0 a 1", "AddKid 0 1", "SetArr 0 1 7", "Link 0 1", "CopyNode 0", "Tag 2 b 2", "TagGet 0 b", "SetArr 2 1 8", "GetArr 0", "GetArr 2",
		"SetV 1 60", "KidSum 2", "Walk 2 2", "AddKid 2 0", "KidSum 0", "KidSum 2", "Untag 0 a", "TagGet 2 a", "PtrArr 0 1", "SetPtr 0 70", "GetArr 0", "GetArr 2", "Render 0",
	},
	{ // closures: private cell, shared cell, captured pointer
		"MkCounter 10", "CallFn 0 1", "CallFn 0 1", "MkPair 3", "CallFn 1 2", "CallFn 2 10", "CallFn 1 1", "CallFn 2 10", "NewNode 7", "MkAdder 0",
		"CallFn 3 5", "GetV 0", "SetV 0 100", "CallFn 3 1", "Drop 0", "CallFn 3 1", "MkCounter -4", "CallFn 4 4", "CallFn 0 0", "Render 0",
	},
	{ // interfaces: value vs pointer receiver, aliasing through interface values, declared types
		"MkSq 3", "MkRc 2 5", "Area 0", "Area 1", "Grow 0 1", "Grow 1 1", "Area 0", "Area 1", "DupShape 1", "Grow 2 1", "Area 1", "Area 2",
		"NewNode 9", "SetAny 0 0", "AnyStr 0", "SetAny 0 1", "AnyStr 0", "SetAny 0 2", "AnyStr 0", "SetAny 0 3", "AnyStr 0", "SetAny 0 4", "AnyStr 0",
		"SetAny 0 5", "SetV 0 10", "AnyStr 0", "SetAny 0 9", "AnyStr 0", "Render 0",
	},
	{ // an ESCAPED object (2 refs) gains a reference from a NEW object attached at finalize
		// (fresh Kids backing array), the older references go away in later txs, then it is read
		"NewNode 1", "NewNode 2", "NewNode 3", "Link 1 0", "GetV 0", "AddKid 2 0", "Unlink 1", "Drop 0", "KidSum 2", "Render 0",
		"NewNode 4", "Link 1 3", "Link 2 3", "AddKid 1 3", "Unlink 1", "Unlink 2", "Drop 3", "KidSum 1", "Render 0",
	},
	{ // the same through a closure capture and through an interface slot
		"NewNode 7", "NewNode 8", "Link 1 0", "RegPut a 0", "MkAdder 0", "Unlink 1", "RegDel a", "Drop 0", "CallFn 0 1", "CallFn 0 1", "Render 0",
		"NewNode 9", "NewNode 10", "Link 3 2", "AddKid 3 2", "AddKid 3 2", "Unlink 3", "Drop 2", "KidSum 3", "Render 0",
	},
	{ // slices whose elements are arrays: clone / growth must copy the element arrays
		"MkPairs 2", "GetPairs 0", "ClonePairs 0", "SetPair 1 0 0 99", "GetPairs 0", "GetPairs 1", "SetPair 0 1 1 77", "GetPairs 1",
		"DupPairs 0", "AppPair 0 5 6", "SetPair 0 0 1 55", "GetPairs 2", "GetPairs 0", "SetPair 2 1 0 44", "GetPairs 0", "GetPairs 2",
		"ClonePairs 2", "AppPair 4 1 2", "SetPair 4 2 0 3", "GetPairs 2", "GetPairs 4", "Render 0",
	},
	{ // registry map of nodes
		"NewNode 1", "NewNode 2", "RegPut x 0", "RegPut y 1", "RegPut z 0", "RegGet z", "SetV 0 5", "RegGet x", "RegDel x", "RegGet x", "RegGet z", "RegDel q", "Render 0",
	},
}

type shadow struct{ nodes, slices, iptrs, fns, shapes, pairs int }

func pickH(r *kit.Rand, n int) int {
	if n == 0 || r.Chance(4) {
		return r.Range(-1, n+1) // occasionally invalid
	}
	return r.Intn(n)
}

var keys = []string{"a", "b", "c", "zz"}

func randOp(r *kit.Rand, sh *shadow) string {
	v := func() int { return r.Range(-9, 30) }
	switch r.Intn(46) {
	case 40:
		sh.pairs++
		return fmt.Sprintf("MkPairs %d", r.Range(0, 4))
	case 41:
		sh.pairs++
		return fmt.Sprintf("ClonePairs %d", pickH(r, sh.pairs-1))
	case 42:
		if r.Bool() {
			sh.pairs++
			return fmt.Sprintf("DupPairs %d", pickH(r, sh.pairs-1))
		}
		return fmt.Sprintf("GetPairs %d", pickH(r, sh.pairs))
	case 43:
		return fmt.Sprintf("AppPair %d %d %d", pickH(r, sh.pairs), v(), v())
	case 44, 45:
		return fmt.Sprintf("SetPair %d %d %d %d", pickH(r, sh.pairs), r.Range(0, 3), r.Range(0, 1), v())
	case 0, 1, 2:
		sh.nodes++
		return fmt.Sprintf("NewNode %d", v())
	case 3:
		return fmt.Sprintf("SetV %d %d", pickH(r, sh.nodes), v())
	case 4:
		return fmt.Sprintf("GetV %d", pickH(r, sh.nodes))
	case 5, 6:
		return fmt.Sprintf("Link %d %d", pickH(r, sh.nodes), pickH(r, sh.nodes))
	case 7:
		return fmt.Sprintf("Unlink %d", pickH(r, sh.nodes))
	case 8:
		return fmt.Sprintf("Walk %d %d", pickH(r, sh.nodes), r.Range(0, 6))
	case 9:
		if r.Chance(30) {
			return fmt.Sprintf("Drop %d", pickH(r, sh.nodes))
		}
		return fmt.Sprintf("KidSum %d", pickH(r, sh.nodes))
	case 10:
		return fmt.Sprintf("AddKid %d %d", pickH(r, sh.nodes), pickH(r, sh.nodes))
	case 11:
		return fmt.Sprintf("Tag %d %s %d", pickH(r, sh.nodes), kit.Pick(r, keys), v())
	case 12:
		return fmt.Sprintf("Untag %d %s", pickH(r, sh.nodes), kit.Pick(r, keys))
	case 13:
		return fmt.Sprintf("TagGet %d %s", pickH(r, sh.nodes), kit.Pick(r, keys))
	case 14:
		return fmt.Sprintf("RegPut %s %d", kit.Pick(r, keys), pickH(r, sh.nodes))
	case 15:
		return fmt.Sprintf("RegDel %s", kit.Pick(r, keys))
	case 16:
		return fmt.Sprintf("RegGet %s", kit.Pick(r, keys))
	case 17:
		h := pickH(r, sh.nodes)
		if h >= 0 && h < sh.nodes {
			sh.nodes++ // may be wrong if dropped; handles are validated anyway
		}
		return fmt.Sprintf("CopyNode %d", h)
	case 18:
		return fmt.Sprintf("SetArr %d %d %d", pickH(r, sh.nodes), r.Range(-1, 3), v())
	case 19:
		return fmt.Sprintf("GetArr %d", pickH(r, sh.nodes))
	case 20, 21:
		sh.slices++
		return fmt.Sprintf("MkSlice %d", r.Range(0, 5))
	case 22, 23:
		h := pickH(r, sh.slices)
		i := r.Range(0, 4)
		return fmt.Sprintf("Sub %d %d %d", h, i, i+r.Range(0, 4))
	case 24:
		return fmt.Sprintf("SetElem %d %d %d", pickH(r, sh.slices), r.Range(0, 5), v())
	case 25, 26:
		return fmt.Sprintf("App %d %d", pickH(r, sh.slices), v())
	case 27:
		return fmt.Sprintf("GetSlice %d", pickH(r, sh.slices))
	// (the counters below may run ahead of the realm's tables when a handle was
	// invalid; every handle is validated by the realm, so that only yields "bad")
	case 28:
		sh.iptrs++
		return fmt.Sprintf("PtrV %d", pickH(r, sh.nodes))
	case 29:
		sh.iptrs++
		return fmt.Sprintf("PtrArr %d %d", pickH(r, sh.nodes), r.Range(0, 2))
	case 30:
		sh.iptrs++
		return fmt.Sprintf("PtrElem %d %d", pickH(r, sh.slices), r.Range(0, 4))
	case 31:
		return fmt.Sprintf("SetPtr %d %d", pickH(r, sh.iptrs), v())
	case 32:
		return fmt.Sprintf("GetPtr %d", pickH(r, sh.iptrs))
	case 33:
		if r.Bool() {
			sh.fns++
			return fmt.Sprintf("MkCounter %d", v())
		}
		sh.fns += 2
		return fmt.Sprintf("MkPair %d", v())
	case 34:
		sh.fns++
		return fmt.Sprintf("MkAdder %d", pickH(r, sh.nodes))
	case 35:
		return fmt.Sprintf("CallFn %d %d", pickH(r, sh.fns), v())
	case 36:
		sh.shapes++
		if r.Bool() {
			return fmt.Sprintf("MkSq %d", v())
		}
		return fmt.Sprintf("MkRc %d %d", v(), v())
	case 37:
		switch r.Intn(3) {
		case 0:
			sh.shapes++
			return fmt.Sprintf("DupShape %d", pickH(r, sh.shapes-1))
		case 1:
			return fmt.Sprintf("Grow %d %d", pickH(r, sh.shapes), v())
		}
		return fmt.Sprintf("Area %d", pickH(r, sh.shapes))
	case 38:
		return fmt.Sprintf("SetAny %d %d", pickH(r, sh.nodes), r.Range(0, 6))
	default:
		return fmt.Sprintf("AnyStr %d", pickH(r, sh.nodes))
	}
}

func gen(w *kit.Out, r *kit.Rand, tier string) {
	for i, c := range table {
		w.Case(fmt.Sprintf("table-%d", i))
		for _, l := range c {
			w.Op("%s", l)
		}
	}
	nCases, nOps := 2, 30
	if tier == "thorough" {
		nCases, nOps = 40, 60
	}
	for c := 0; c < nCases; c++ {
		w.Case(fmt.Sprintf("rand-%d", c))
		sh := &shadow{}
		// the counters of iptrs/fns/shapes are tracked loosely: handles are validated by the realm
		for i := 0; i < nOps; i++ {
			op := randOp(r, sh)
			w.Op("%s", op)
			if i%15 == 14 {
				w.Op("Render 0")
			}
		}
		w.Op("Render 0")
	}
	// malformed stream
	w.Case("malformed")
	var names []string
	for k := range sigs {
		names = append(names, k)
	}
	sort.Strings(names)
	bad := []string{"NewNode", "NewNode x", "Nope 1", "Tag 0 A 1", "Tag 0 toolong 1", "SetV 1", "SetV 1 2 3", "GetV 999999999", "Render", ""}
	for _, b := range bad {
		if b != "" {
			w.Op("%s", b)
		}
	}
	for i := 0; i < 8; i++ {
		w.Op("%s %s", kit.Pick(r, names), kit.Pick(r, []string{"", "q", "1 2 3 4 5", "--1"}))
	}
}
