package main

import "strings"

// heapSrc is the realm under test, written once and rendered twice:
//   - as the realm gno.land/r/c03/heap (every exported function is a crossing
//     function, state persists between transactions), and
//   - as a plain package `main` (no `cur realm` parameter, no realm, nothing is
//     ever persisted) for the in-memory reference execution.
//
// "CUR" is replaced by "cur realm, " / "" and "PKG" by the package name.
// Every function validates its handles and returns "bad" instead of panicking,
// so a call never aborts.
const heapSrc = `package PKG

import "strconv"

type Node struct {
	V    int
	Next *Node
	Kids []*Node
	Tags map[string]int
	Any  any
	Arr  [3]int
}

type Celsius int

type Shape interface{ Area() int }

type Sq struct{ S int }

func (s Sq) Area() int { return s.S * s.S }

type Rc struct{ W, H int }

func (r *Rc) Area() int { return r.W * r.H }

var (
	nodes  []*Node
	slices [][]int
	iptrs  []*int
	fns    []func(int) int
	shapes []Shape
	reg    map[string]*Node
	pairs  [][][2]int // slices whose ELEMENTS are arrays (value-typed elements)
)

func itoa(i int) string { return strconv.Itoa(i) }

func okN(n int) bool { return n >= 0 && n < len(nodes) && nodes[n] != nil }
func okS(s int) bool { return s >= 0 && s < len(slices) }

func idx(p *Node) string {
	if p == nil {
		return "nil"
	}
	for i, q := range nodes {
		if q == p {
			return itoa(i)
		}
	}
	return "x"
}

// ---- nodes, pointers, recursive structs
func NewNode(CURv int) string {
	nodes = append(nodes, &Node{V: v})
	return itoa(len(nodes) - 1)
}

func SetV(CURn, v int) string {
	if !okN(n) {
		return "bad"
	}
	nodes[n].V = v
	return "ok"
}

func GetV(CURn int) string {
	if !okN(n) {
		return "bad"
	}
	return itoa(nodes[n].V)
}

func Link(CURa, b int) string {
	if !okN(a) || !okN(b) {
		return "bad"
	}
	nodes[a].Next = nodes[b]
	return "ok"
}

func Unlink(CURa int) string {
	if !okN(a) {
		return "bad"
	}
	nodes[a].Next = nil
	return "ok"
}

// walks at most k Next links and reports the values seen (cycles are fine)
func Walk(CURa, k int) string {
	if !okN(a) || k < 0 || k > 8 {
		return "bad"
	}
	s := ""
	p := nodes[a]
	for i := 0; i <= k && p != nil; i++ {
		s += itoa(p.V) + ">"
		p = p.Next
	}
	return s
}

func Drop(CURa int) string {
	if !okN(a) {
		return "bad"
	}
	nodes[a] = nil
	return "ok"
}

func AddKid(CURa, b int) string {
	if !okN(a) || !okN(b) {
		return "bad"
	}
	nodes[a].Kids = append(nodes[a].Kids, nodes[b])
	return itoa(len(nodes[a].Kids))
}

func KidSum(CURa int) string {
	if !okN(a) {
		return "bad"
	}
	t := 0
	for _, k := range nodes[a].Kids {
		t += k.V
	}
	return itoa(t)
}

// ---- maps
func Tag(CURa int, k string, v int) string {
	if !okN(a) {
		return "bad"
	}
	if nodes[a].Tags == nil {
		nodes[a].Tags = map[string]int{}
	}
	nodes[a].Tags[k] = v
	return itoa(len(nodes[a].Tags))
}

func Untag(CURa int, k string) string {
	if !okN(a) {
		return "bad"
	}
	delete(nodes[a].Tags, k)
	return itoa(len(nodes[a].Tags))
}

func TagGet(CURa int, k string) string {
	if !okN(a) {
		return "bad"
	}
	v, ok := nodes[a].Tags[k]
	if !ok {
		return "none"
	}
	return itoa(v)
}

func RegPut(CURk string, n int) string {
	if !okN(n) {
		return "bad"
	}
	if reg == nil {
		reg = map[string]*Node{}
	}
	reg[k] = nodes[n]
	return itoa(len(reg))
}

func RegDel(CURk string) string {
	delete(reg, k)
	return itoa(len(reg))
}

func RegGet(CURk string) string {
	p, ok := reg[k]
	if !ok {
		return "none"
	}
	return idx(p) + ":" + itoa(p.V)
}

// ---- struct value copy, arrays (value semantics)
func CopyNode(CURa int) string {
	if !okN(a) {
		return "bad"
	}
	c := *nodes[a] // shallow: shares Next, Kids' backing array and the Tags map; Arr is copied
	nodes = append(nodes, &c)
	return itoa(len(nodes) - 1)
}

func SetArr(CURa, i, v int) string {
	if !okN(a) || i < 0 || i > 2 {
		return "bad"
	}
	nodes[a].Arr[i] = v
	return "ok"
}

func GetArr(CURa int) string {
	if !okN(a) {
		return "bad"
	}
	x := nodes[a].Arr
	return itoa(x[0]) + "," + itoa(x[1]) + "," + itoa(x[2])
}

// ---- slices with shared backing arrays
func showSlice(s []int) string {
	r := itoa(len(s)) + "/" + itoa(cap(s)) + ":"
	for _, v := range s {
		r += itoa(v) + ","
	}
	return r
}

func MkSlice(CURn int) string {
	if n < 0 || n > 6 {
		return "bad"
	}
	s := make([]int, n, 2*n)
	for i := range s {
		s[i] = i
	}
	slices = append(slices, s)
	return itoa(len(slices) - 1)
}

func Sub(CURs, i, j int) string {
	if !okS(s) || i < 0 || j < i || j > cap(slices[s]) {
		return "bad"
	}
	slices = append(slices, slices[s][i:j])
	return itoa(len(slices) - 1)
}

func SetElem(CURs, i, v int) string {
	if !okS(s) || i < 0 || i >= len(slices[s]) {
		return "bad"
	}
	slices[s][i] = v
	return "ok"
}

func App(CURs, v int) string {
	if !okS(s) {
		return "bad"
	}
	slices[s] = append(slices[s], v)
	return showSlice(slices[s])
}

func GetSlice(CURs int) string {
	if !okS(s) {
		return "bad"
	}
	return showSlice(slices[s])
}

// ---- slices of arrays: elements are values, a new backing array must copy them
func okP(s int) bool { return s >= 0 && s < len(pairs) }

func showPairs(s [][2]int) string {
	r := itoa(len(s)) + ":"
	for _, e := range s {
		r += itoa(e[0]) + "." + itoa(e[1]) + ","
	}
	return r
}

func MkPairs(CURn int) string {
	if n < 0 || n > 4 {
		return "bad"
	}
	s := make([][2]int, n)
	for i := range s {
		s[i] = [2]int{i, i * 10}
	}
	pairs = append(pairs, s)
	return itoa(len(pairs) - 1)
}

// the clone idiom: a fresh backing array, every element array copied
func ClonePairs(CURs int) string {
	if !okP(s) {
		return "bad"
	}
	c := append([][2]int(nil), pairs[s]...)
	pairs = append(pairs, c)
	return itoa(len(pairs) - 1)
}

// the same slice header under a second handle: shares the backing array
func DupPairs(CURs int) string {
	if !okP(s) {
		return "bad"
	}
	pairs = append(pairs, pairs[s])
	return itoa(len(pairs) - 1)
}

// growth past cap (cap == len always): reallocates and copies the elements
func AppPair(CURs, a, b int) string {
	if !okP(s) {
		return "bad"
	}
	pairs[s] = append(pairs[s], [2]int{a, b})
	return showPairs(pairs[s])
}

func SetPair(CURs, i, j, v int) string {
	if !okP(s) || i < 0 || i >= len(pairs[s]) || j < 0 || j > 1 {
		return "bad"
	}
	pairs[s][i][j] = v
	return "ok"
}

func GetPairs(CURs int) string {
	if !okP(s) {
		return "bad"
	}
	return showPairs(pairs[s])
}

// ---- pointers into structs, arrays and slices
func PtrV(CURn int) string {
	if !okN(n) {
		return "bad"
	}
	iptrs = append(iptrs, &nodes[n].V)
	return itoa(len(iptrs) - 1)
}

func PtrArr(CURn, i int) string {
	if !okN(n) || i < 0 || i > 2 {
		return "bad"
	}
	iptrs = append(iptrs, &nodes[n].Arr[i])
	return itoa(len(iptrs) - 1)
}

func PtrElem(CURs, i int) string {
	if !okS(s) || i < 0 || i >= len(slices[s]) {
		return "bad"
	}
	iptrs = append(iptrs, &slices[s][i])
	return itoa(len(iptrs) - 1)
}

func SetPtr(CURp, v int) string {
	if p < 0 || p >= len(iptrs) {
		return "bad"
	}
	*iptrs[p] = v
	return "ok"
}

func GetPtr(CURp int) string {
	if p < 0 || p >= len(iptrs) {
		return "bad"
	}
	return itoa(*iptrs[p])
}

// ---- closures capturing variables
func MkCounter(CURstart int) string {
	c := start
	fns = append(fns, func(d int) int { c += d; return c })
	return itoa(len(fns) - 1)
}

// two closures over ONE captured variable
func MkPair(CURstart int) string {
	c := start
	fns = append(fns, func(d int) int { c += d; return c }, func(d int) int { return c * d })
	return itoa(len(fns) - 2)
}

// a closure capturing a pointer to a node
func MkAdder(CURn int) string {
	if !okN(n) {
		return "bad"
	}
	p := nodes[n]
	fns = append(fns, func(d int) int { p.V += d; return p.V })
	return itoa(len(fns) - 1)
}

func CallFn(CURf, d int) string {
	if f < 0 || f >= len(fns) {
		return "bad"
	}
	return itoa(fns[f](d))
}

// ---- interfaces, declared types
func MkSq(CURs int) string {
	shapes = append(shapes, Sq{S: s})
	return itoa(len(shapes) - 1)
}

func MkRc(CURw, h int) string {
	shapes = append(shapes, &Rc{W: w, H: h})
	return itoa(len(shapes) - 1)
}

// the same *Rc under a second handle
func DupShape(CURi int) string {
	if i < 0 || i >= len(shapes) {
		return "bad"
	}
	shapes = append(shapes, shapes[i])
	return itoa(len(shapes) - 1)
}

func Area(CURi int) string {
	if i < 0 || i >= len(shapes) {
		return "bad"
	}
	return itoa(shapes[i].Area())
}

func Grow(CURi, d int) string {
	if i < 0 || i >= len(shapes) {
		return "bad"
	}
	switch x := shapes[i].(type) {
	case *Rc:
		x.W += d
		return "rc"
	case Sq:
		x.S += d // a copy: no effect on the stored value
		return "sq"
	}
	return "?"
}

func SetAny(CURn, kind int) string {
	if !okN(n) {
		return "bad"
	}
	p := nodes[n]
	switch kind {
	case 0:
		p.Any = p.V
	case 1:
		p.Any = "s" + itoa(p.V)
	case 2:
		p.Any = Celsius(p.V)
	case 3:
		p.Any = p // self reference through an interface
	case 4:
		p.Any = Sq{S: p.V}
	case 5:
		p.Any = &p.V // pointer into the node itself
	default:
		p.Any = nil
	}
	return "ok"
}

func anyStr(a any) string {
	switch x := a.(type) {
	case nil:
		return "nil"
	case int:
		return "int:" + itoa(x)
	case string:
		return "str:" + x
	case Celsius:
		return "cel:" + itoa(int(x))
	case *Node:
		return "node:" + idx(x)
	case Sq:
		return "sq:" + itoa(x.S)
	case *int:
		return "ptr:" + itoa(*x)
	}
	return "?"
}

func AnyStr(CURn int) string {
	if !okN(n) {
		return "bad"
	}
	return anyStr(nodes[n].Any)
}

// ---- full state, with the alias structure made observable
func Render(CUR_ int) string {
	s := "N["
	for _, p := range nodes {
		if p == nil {
			s += "-;"
			continue
		}
		s += itoa(p.V) + "," + idx(p.Next) + ",k"
		for _, k := range p.Kids {
			s += idx(k) + "."
		}
		s += ",t" + itoa(len(p.Tags)) + ",a" + itoa(p.Arr[0]) + "." + itoa(p.Arr[1]) + "." + itoa(p.Arr[2]) + "," + anyStr(p.Any) + ";"
	}
	s += "]S["
	for _, x := range slices {
		s += showSlice(x) + ";"
	}
	s += "]P["
	for _, p := range iptrs {
		s += itoa(*p) + ";"
	}
	s += "]F" + itoa(len(fns)) + "H["
	for _, h := range shapes {
		s += itoa(h.Area()) + ";"
	}
	s += "]R" + itoa(len(reg)) + "Q["
	for _, q := range pairs {
		s += showPairs(q) + ";"
	}
	s += "]"
	return s
}
`

func renderSrc(realm bool) string {
	s := heapSrc
	if realm {
		s = strings.ReplaceAll(s, "CUR", "cur realm, ")
		s = strings.ReplaceAll(s, "PKG", "heap")
	} else {
		s = strings.ReplaceAll(s, "CUR", "")
		s = strings.ReplaceAll(s, "PKG", "main")
	}
	return s
}
