//go:build cgo

package main

import (
	"github.com/bmatsuo/lmdb-go/lmdb"
	"github.com/erigontech/mdbx-go/mdbx"

	dbm "github.com/gnolang/gno/tm2/pkg/db"
	"github.com/gnolang/gno/tm2/pkg/db/lmdbdb"
	"github.com/gnolang/gno/tm2/pkg/db/mdbxdb"
)

func init() {
	backends = append(backends,
		&backendDef{"lmdb", lmdbdb.LMDBBackend, func(name, dir string) (dbm.DB, error) {
			return lmdbdb.NewLMDBWithOptions(name, dir, 1<<30, lmdb.NoSync)
		}},
		&backendDef{"mdbx", mdbxdb.MDBXBackend, func(name, dir string) (dbm.DB, error) {
			return mdbxdb.NewMDBXWithOptions(name, dir, 1<<30, mdbx.UtterlyNoSync)
		}},
	)
}
