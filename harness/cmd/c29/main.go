// Harness for C29: every tm2/pkg/db backend behaves like an in-memory ordered
// map (memdb, goleveldb, pebbledb, boltdb and — when cgo is available — lmdbdb,
// mdbxdb; wrappers PrefixDB, SnapshotDB, ImmutableDB, CollectingDB).
//
// A case runs ONE backend; the generator emits every script once per available
// backend, so identical per-op outputs across backends are checked against one
// expectation (the oracle's plain sorted map) and against the Lean model.
//
// Line protocol (same table in lean/GnoVerif/Drive/C29.lean).  Bytes are hex,
// `e` = empty non-nil, `-` = nil.  Handles: d<i> databases (d0 = the backend),
// b<i> batches, s<i> snapshots, c<i> collectors.
//
//	open <backend> [reg]            first op of a case; backend ∈ mem ldb peb blt lmdb mdbx;
//	                                `reg` opens through db.NewDB (default options) in a fresh dir
//	wrap d<i> prefix <p> d<j>       d<i> := db.NewPrefixDB(d<j>, p)
//	wrap d<i> immut d<j>            d<i> := db.NewImmutableDB(d<j>)
//	wrap d<i> snapdb s<j>           d<i> := db.NewSnapshotDB(s<j>)
//	wrap d<i> collect c<k> d<j>     d<i> := db.NewCollectingDB(d<j>, c<k>)   (c<k> created on first use)
//	drain c<k> d<j>                 b := d<j>.NewBatch(); c<k>.Drain(b); b.WriteSync(); b.Close()
//	set|sets d<i> <k> <v>           Set / SetSync
//	del|dels d<i> <k>               Delete / DeleteSync
//	get|has <r> <k>                 r = d<i> or s<i>
//	it <r> asc|desc <start> <end>   full listing [k=v,…] (iterator opened, drained, closed)
//	setmut d<i> <k> <v>             Set, then flip every byte of the two buffers passed in
//	getmut <r> <k>                  v := Get(k); flip v in place; answer a second Get(k)
//	itmut <r> asc|desc <s> <e>      iterate flipping every Key()/Value() in place; answer a second listing
//	bnew d<i> b<j> | bnews d<i> b<j> <n>     NewBatch / NewBatchWithSize(n)
//	bset b<j> <k> <v> | bdel b<j> <k> | bsetmut b<j> <k> <v>
//	bwrite|bwrites b<j>             Write / WriteSync (handle stays: later use = "reuse after Write")
//	bclose b<j>                     Close twice (idempotence); the handle is gone afterwards
//	snap d<i> s<j> | sclose s<j>    NewSnapshot / Snapshot.Close
//	fill d<i> <n> <a> <c>           n Sets of key u16be((i*a+c) mod 65536) ++ [i mod 7 times 0xaa], value = key
//
// Outputs: ok | <hex> | true/false | [listing] | err:<class> | panic:<class>;
// listings longer than 250 characters are cut to 200 + length + FNV-1a digest.
// A listing carries `!inv:<what>` when an Iterator invariant of types.go fails
// (Domain, Valid stays false, Key/Value/Next panic when invalid, Error/Close nil,
// argument buffers untouched).
//
// Oracle (independent of the Lean model): a plain map[string][]byte, batches as
// op lists applied on Write and dropped on Close, snapshots as map copies,
// prefix handles as key translation, listings = filter + sort.  After an op
// that is outside the statement's contract (buffers mutated after Set, batch
// used after Write, writes through read-only wrappers, CollectingDB reads
// before drain) the oracle abstains (`-`) for the rest of the case.
package main

import (
	"bytes"
	"fmt"
	"os"
	"path/filepath"
	"sort"
	"strconv"
	"strings"
	"time"

	dbm "github.com/gnolang/gno/tm2/pkg/db"
	"gnoverif/kit"
)

// ---------------------------------------------------------------- canonical output

func hexk(b []byte) string {
	if len(b) == 0 {
		return "e"
	}
	return kit.Hex(b)
}

func compact(s string) string {
	if len(s) <= 250 {
		return s
	}
	h := uint64(14695981039346656037)
	for i := 0; i < len(s); i++ {
		h ^= uint64(s[i])
		h *= 1099511628211
	}
	return fmt.Sprintf("%s~%d~%016x", s[:200], len(s), h)
}

func errClass(err error) string {
	m := err.Error()
	switch {
	case strings.Contains(m, "key too large"):
		return "keysize"
	case strings.Contains(m, "BAD_VALSIZE"):
		return "valsize"
	case strings.Contains(m, "batch already written or closed"):
		return "batchdone"
	case strings.Contains(m, "snapshots not supported"):
		return "nosnap"
	case strings.Contains(m, "database is closed"):
		return "closed"
	}
	if os.Getenv("VERIF_TRACE") != "" {
		fmt.Fprintln(os.Stderr, "err:other:", m)
	}
	return "other"
}

func panicClass(v any) string {
	m := fmt.Sprint(v)
	switch {
	case strings.Contains(m, "batch already committing"), strings.Contains(m, "batch already applied"):
		return "batchdone"
	case strings.Contains(m, "cpIncr expects"):
		return "cpincr"
	case strings.Contains(m, "read-only"), strings.Contains(m, "Cannot mutate"):
		return "readonly"
	}
	if os.Getenv("VERIF_TRACE") != "" {
		fmt.Fprintln(os.Stderr, "panic:other:", m)
	}
	return "other"
}

// call runs f, mapping error / panic to a canonical token ("" = success).
func call(f func() error) (tok string) {
	defer func() {
		if v := recover(); v != nil {
			tok = "panic:" + panicClass(v)
		}
	}()
	if err := f(); err != nil {
		return "err:" + errClass(err)
	}
	return ""
}

func okOr(tok string) string {
	if tok == "" {
		return "ok"
	}
	return tok
}

func panics(f func()) (p bool) {
	defer func() {
		if recover() != nil {
			p = true
		}
	}()
	f()
	return false
}

func clone(b []byte) []byte {
	if b == nil {
		return nil
	}
	return append([]byte{}, b...)
}

func same(a, b []byte) bool { return (a == nil) == (b == nil) && bytes.Equal(a, b) }

func flip(b []byte) {
	for i := range b {
		b[i] ^= 0xff
	}
}

// ---------------------------------------------------------------- case state

type dbdef struct {
	kind   string // root | prefix | immut | snapdb | collect
	prefix []byte
	parent *dbdef
	snap   *snapH
	coll   *collH
}

// chain prefix of a handle in root key space, and the map it reads from.
func (d *dbdef) full() string {
	if d == nil {
		return ""
	}
	switch d.kind {
	case "prefix":
		return d.parent.full() + string(d.prefix)
	case "immut", "collect":
		return d.parent.full()
	}
	return ""
}

type oop struct {
	del bool
	k   string
	v   []byte
}

type batchH struct {
	b       dbm.Batch
	def     *dbdef
	ops     []oop
	written bool
}

type snapH struct {
	s dbm.Snapshot
	m map[string][]byte
}

type collH struct {
	c *dbm.BatchCollector
}

type caseState struct {
	be      *backendDef
	root    dbm.DB
	regDir  string
	dbs     map[string]dbm.DB
	defs    map[string]*dbdef
	batches map[string]*batchH
	snaps   map[string]*snapH
	colls   map[string]*collH
	// oracle
	m                     map[string][]byte
	abstain               bool
	tEmpty, tProbe        bool
}

var (
	cs      *caseState
	tmpRoot string
	pool    = map[string]*pooled{}
	dirSeq  int
)

type pooled struct {
	d    dbm.DB
	dir  string
	uses int
}

func tmpDir() string {
	if tmpRoot == "" {
		tmpRoot = fmt.Sprintf("/tmp/c29-%d", os.Getpid())
		os.MkdirAll(tmpRoot, 0o755)
	}
	return tmpRoot
}

func freshDir(tag string) string {
	dirSeq++
	d := filepath.Join(tmpDir(), fmt.Sprintf("%s-%d", tag, dirSeq))
	os.MkdirAll(d, 0o755)
	return d
}

func quiet(f func()) {
	defer func() { recover() }()
	f()
}

func reset() {
	if cs != nil {
		for _, b := range cs.batches {
			quiet(func() { b.b.Close() })
		}
		for _, s := range cs.snaps {
			if s.s != nil {
				quiet(func() { s.s.Close() })
			}
		}
		if cs.regDir != "" && cs.root != nil {
			quiet(func() { cs.root.Close() })
			os.RemoveAll(cs.regDir)
		}
	}
	cs = &caseState{
		dbs: map[string]dbm.DB{}, defs: map[string]*dbdef{}, batches: map[string]*batchH{},
		snaps: map[string]*snapH{}, colls: map[string]*collH{}, m: map[string][]byte{},
	}
}

// wipe deletes every key of a pooled database; false when that is not worth it
// (many keys) or the database is not empty afterwards — the caller reopens.
func wipe(d dbm.DB) (ok bool) {
	defer func() {
		if recover() != nil {
			ok = false
		}
	}()
	var keys [][]byte
	it, err := d.Iterator(nil, nil)
	if err != nil {
		return false
	}
	for ; it.Valid() && len(keys) <= 1500; it.Next() {
		keys = append(keys, it.Key())
	}
	it.Close()
	if len(keys) > 1500 {
		return false
	}
	for _, k := range keys {
		if err := d.Delete(k); err != nil {
			return false
		}
	}
	it, err = d.Iterator(nil, nil)
	if err != nil {
		return false
	}
	empty := !it.Valid()
	it.Close()
	return empty
}

func openBackend(be *backendDef, reg bool) (dbm.DB, string, error) {
	if reg {
		dir := freshDir("reg-" + be.name)
		d, err := dbm.NewDB("c29", be.typ, dir)
		return d, dir, err
	}
	if be.name == "mem" {
		d, err := be.fast("c29", "")
		return d, "", err
	}
	if p, ok := pool[be.name]; ok {
		// LSM engines accumulate tombstones: recycle the pooled instance now and then
		p.uses++
		if p.uses < 16 && wipe(p.d) {
			return p.d, "", nil
		}
		quiet(func() { p.d.Close() })
		os.RemoveAll(p.dir)
		delete(pool, be.name)
	}
	dir := freshDir("pool-" + be.name)
	d, err := be.fast("c29", dir)
	if err == nil {
		pool[be.name] = &pooled{d, dir, 0}
	}
	return d, "", err
}

func cleanup() {
	reset()
	for _, p := range pool {
		quiet(func() { p.d.Close() })
	}
	if tmpRoot != "" {
		os.RemoveAll(tmpRoot)
	}
}

// stale temp dirs of killed runs
func sweepStale() {
	ds, _ := filepath.Glob("/tmp/c29-*")
	for _, d := range ds {
		pid := strings.TrimPrefix(filepath.Base(d), "c29-")
		if _, err := strconv.Atoi(pid); err != nil {
			continue
		}
		if _, err := os.Stat("/proc/" + pid); err != nil {
			os.RemoveAll(d)
		}
	}
}

// ---------------------------------------------------------------- oracle helpers

func nn(b []byte) []byte {
	if b == nil {
		return []byte{}
	}
	return b
}

func hexv(b []byte) string { return kit.Hex(b) }

// oracle view of a reader: the keys of `m` under prefix `p`, stripped.
func oget(m map[string][]byte, p string, k []byte) string {
	v, ok := m[p+string(k)]
	if !ok {
		return "-"
	}
	return hexv(nn(v))
}

func inDomain(k string, s, e []byte) bool {
	if s != nil && k < string(s) {
		return false
	}
	if e != nil && k >= string(e) {
		return false
	}
	return true
}

func olist(m map[string][]byte, p string, asc bool, s, e []byte) string {
	var ks []string
	for k := range m {
		if strings.HasPrefix(k, p) && inDomain(k[len(p):], s, e) {
			ks = append(ks, k[len(p):])
		}
	}
	sort.Strings(ks)
	if !asc {
		for i, j := 0, len(ks)-1; i < j; i, j = i+1, j-1 {
			ks[i], ks[j] = ks[j], ks[i]
		}
	}
	var sb strings.Builder
	sb.WriteByte('[')
	for i, k := range ks {
		if i > 0 {
			sb.WriteByte(',')
		}
		sb.WriteString(hexk([]byte(k)))
		sb.WriteByte('=')
		sb.WriteString(hexv(nn(m[p+k])))
	}
	sb.WriteByte(']')
	return compact(sb.String())
}

func (c *caseState) touchKey(full string) {
	if len(full) == 0 {
		c.tEmpty = true
	}
}

// verdict compares the implementation's answer with the ordered-map answer.
func (c *caseState) verdict(op string, toks []string, impl, want string) string {
	if c.abstain {
		return "-"
	}
	if impl == want {
		return "ok"
	}
	cls := "mismatch"
	isIt := op == "it" || op == "itmut"
	emptyBound := isIt && len(toks) == 5 && (toks[3] == "e" || toks[4] == "e")
	carry := false
	if isIt && len(toks) == 5 && toks[2] == "desc" && toks[4] == "-" {
		for d := c.defs[toks[1]]; d != nil; d = d.parent {
			if d.kind == "prefix" && len(d.prefix) > 0 && d.prefix[len(d.prefix)-1] == 0xff {
				carry = true
			}
		}
	}
	switch {
	case emptyBound && strings.HasPrefix(impl, "err:"):
		cls = "emptybound"
	case c.tEmpty:
		cls = "emptykey"
	case op == "getmut" || op == "itmut" || c.tProbe:
		cls = "alias"
	case carry:
		cls = "prefixcarry" // fixed in /repo 94ec431b9d; named so that a regression is recognisable
	}
	return "VIOL:" + cls + "-" + c.be.name + " want=" + want
}

// ---------------------------------------------------------------- readers

type reader struct {
	r    dbm.Snapshot // DB and Snapshot share Get/Has/Iterator/ReverseIterator
	m    map[string][]byte
	p    string
	def  *dbdef
	live bool // oracle has an opinion (false for CollectingDB / wrappers whose view is not a plain map)
}

func (c *caseState) reader(h string) (reader, bool) {
	if d, ok := c.dbs[h]; ok {
		def := c.defs[h]
		m, live := c.viewMap(def)
		return reader{d, m, def.full(), def, live}, true
	}
	if s, ok := c.snaps[h]; ok && s.s != nil {
		return reader{s.s, s.m, "", nil, true}, true
	}
	return reader{}, false
}

// viewMap: which oracle map a handle reads, and whether it is a plain view.
func (c *caseState) viewMap(d *dbdef) (map[string][]byte, bool) {
	switch d.kind {
	case "root":
		return c.m, true
	case "prefix", "immut":
		return c.viewMap(d.parent)
	case "snapdb":
		return d.snap.m, true
	case "collect":
		m, _ := c.viewMap(d.parent)
		return m, false
	}
	return c.m, false
}

func dirOf(s string) (asc, ok bool) {
	switch s {
	case "asc":
		return true, true
	case "desc":
		return false, true
	}
	return false, false
}

// scan opens, drains and closes one iterator, checking the Iterator contract.
func scan(r dbm.Snapshot, asc bool, s, e []byte, mut bool) string {
	s0, e0 := clone(s), clone(e)
	var it dbm.Iterator
	tok := call(func() (err error) {
		if asc {
			it, err = r.Iterator(s, e)
		} else {
			it, err = r.ReverseIterator(s, e)
		}
		return err
	})
	if tok != "" {
		return tok
	}
	inv := ""
	note := func(w string) {
		if inv == "" {
			inv = "!inv:" + w
		}
	}
	var sb strings.Builder
	sb.WriteByte('[')
	func() {
		defer func() {
			if v := recover(); v != nil {
				note("panic:" + panicClass(v))
			}
			quiet(func() {
				if err := it.Close(); err != nil {
					note("close")
				}
			})
		}()
		ds, de := it.Domain()
		if !same(ds, s0) || !same(de, e0) {
			note("domain")
		}
		n := 0
		for ; it.Valid(); it.Next() {
			k, v := it.Key(), it.Value()
			if n > 0 {
				sb.WriteByte(',')
			}
			sb.WriteString(hexk(k))
			sb.WriteByte('=')
			sb.WriteString(hexk(v)) // nil and empty values print alike (pebble's reverse iterator yields nil)
			if mut {
				flip(k)
				flip(v)
			}
			n++
			if n > 200000 {
				note("runaway")
				break
			}
		}
		if inv == "" {
			if it.Valid() {
				note("revalid")
			}
			if !panics(func() { it.Key() }) {
				note("key-nopanic")
			}
			if !panics(func() { it.Value() }) {
				note("value-nopanic")
			}
			if !panics(func() { it.Next() }) {
				note("next-nopanic")
			}
			if it.Error() != nil {
				note("error")
			}
		}
	}()
	if !same(s, s0) || !same(e, e0) {
		note("argmod")
	}
	sb.WriteByte(']')
	return compact(sb.String() + inv)
}

// ---------------------------------------------------------------- exec

func hx(s string) ([]byte, bool) {
	switch s {
	case "-":
		return nil, true
	case "e":
		return []byte{}, true
	}
	if len(s) == 0 || len(s)%2 != 0 {
		return nil, false
	}
	out := make([]byte, len(s)/2)
	for i := 0; i < len(s); i++ {
		var d byte
		switch c := s[i]; {
		case c >= '0' && c <= '9':
			d = c - '0'
		case c >= 'a' && c <= 'f':
			d = c - 'a' + 10
		default:
			return nil, false
		}
		if i%2 == 0 {
			out[i/2] = d << 4
		} else {
			out[i/2] |= d
		}
	}
	return out, true
}

func isHandle(s string, pfx byte) bool {
	if len(s) < 2 || len(s) > 7 || s[0] != pfx || (len(s) > 2 && s[1] == '0') {
		return false
	}
	for i := 1; i < len(s); i++ {
		if s[i] < '0' || s[i] > '9' {
			return false
		}
	}
	return true
}

func natTok(s string) (int, bool) {
	if len(s) < 1 || len(s) > 6 {
		return 0, false
	}
	for i := 0; i < len(s); i++ {
		if s[i] < '0' || s[i] > '9' {
			return 0, false
		}
	}
	n, _ := strconv.Atoi(s)
	return n, true
}

const badop = "err:badop"

func exec(t []string) (string, string) {
	c := cs
	if len(t) == 0 {
		return badop, "-"
	}
	op := t[0]
	if op == "open" {
		return c.doOpen(t)
	}
	if c.be == nil {
		return "err:noopen", "-"
	}
	switch op {
	case "wrap":
		return c.doWrap(t)
	case "drain":
		return c.doDrain(t)
	case "set", "sets", "setmut":
		if len(t) != 4 || !isHandle(t[1], 'd') {
			return badop, "-"
		}
		k, ok1 := hx(t[2])
		v, ok2 := hx(t[3])
		if !ok1 || !ok2 {
			return badop, "-"
		}
		return c.doSet(op, t, k, v)
	case "del", "dels":
		if len(t) != 3 || !isHandle(t[1], 'd') {
			return badop, "-"
		}
		k, ok := hx(t[2])
		if !ok {
			return badop, "-"
		}
		return c.doDel(op, t, k)
	case "get", "has", "getmut":
		if len(t) != 3 || !(isHandle(t[1], 'd') || isHandle(t[1], 's')) {
			return badop, "-"
		}
		k, ok := hx(t[2])
		if !ok {
			return badop, "-"
		}
		return c.doRead(op, t, k)
	case "it", "itmut":
		if len(t) != 5 || !(isHandle(t[1], 'd') || isHandle(t[1], 's')) {
			return badop, "-"
		}
		asc, ok0 := dirOf(t[2])
		s, ok1 := hx(t[3])
		e, ok2 := hx(t[4])
		if !ok0 || !ok1 || !ok2 {
			return badop, "-"
		}
		return c.doIt(op, t, asc, s, e)
	case "bnew", "bnews":
		return c.doBnew(t)
	case "bset", "bsetmut":
		if len(t) != 4 || !isHandle(t[1], 'b') {
			return badop, "-"
		}
		k, ok1 := hx(t[2])
		v, ok2 := hx(t[3])
		if !ok1 || !ok2 {
			return badop, "-"
		}
		return c.doBset(op, t, k, v)
	case "bdel":
		if len(t) != 3 || !isHandle(t[1], 'b') {
			return badop, "-"
		}
		k, ok := hx(t[2])
		if !ok {
			return badop, "-"
		}
		return c.doBdel(t, k)
	case "bwrite", "bwrites", "bclose":
		if len(t) != 2 || !isHandle(t[1], 'b') {
			return badop, "-"
		}
		return c.doBfin(op, t)
	case "snap":
		return c.doSnap(t)
	case "sclose":
		if len(t) != 2 || !isHandle(t[1], 's') {
			return badop, "-"
		}
		s, ok := c.snaps[t[1]]
		if !ok || s.s == nil {
			return "err:nohandle", "-"
		}
		for _, d := range c.defs {
			if d.kind == "snapdb" && d.snap == s {
				return "err:inuse", "-"
			}
		}
		tok := call(func() error { return s.s.Close() })
		delete(c.snaps, t[1])
		return okOr(tok), c.verdict(op, t, okOr(tok), "ok")
	case "fill":
		return c.doFill(t)
	}
	return badop, "-"
}

func (c *caseState) doOpen(t []string) (string, string) {
	if len(t) != 2 && !(len(t) == 3 && t[2] == "reg") {
		return badop, "-"
	}
	if c.be != nil {
		return "err:dupopen", "-"
	}
	be := backendByName(t[1])
	if be == nil {
		return "err:nobackend", "-"
	}
	d, dir, err := openBackend(be, len(t) == 3)
	if err != nil {
		if os.Getenv("VERIF_TRACE") != "" {
			fmt.Fprintln(os.Stderr, "open:", err)
		}
		return "err:open", "VIOL:open-" + be.name + " " + errClass(err)
	}
	c.be, c.root, c.regDir = be, d, dir
	c.dbs["d0"] = d
	c.defs["d0"] = &dbdef{kind: "root"}
	return "ok", "ok"
}

func (c *caseState) doWrap(t []string) (string, string) {
	if len(t) < 4 || !isHandle(t[1], 'd') {
		return badop, "-"
	}
	name := t[1]
	var nd dbm.DB
	var def *dbdef
	switch {
	case t[2] == "prefix" && len(t) == 5 && isHandle(t[4], 'd'):
		p, ok := hx(t[3])
		if !ok {
			return badop, "-"
		}
		par, ok := c.dbs[t[4]]
		if !ok {
			return "err:nohandle", "-"
		}
		if _, dup := c.dbs[name]; dup {
			return "err:dup", "-"
		}
		pp := p
		if len(p) > 0 {
			// hand PrefixDB a prefix slice with spare capacity (callers slice prefixes out of larger buffers):
			// code that appends to the caller's slice instead of a copy then aliases keys between batch ops
			pp = make([]byte, len(p), len(p)+64)
			copy(pp, p)
		}
		nd, def = dbm.NewPrefixDB(par, pp), &dbdef{kind: "prefix", prefix: p, parent: c.defs[t[4]]}
		if len(p) == 0 {
			// an empty prefix is outside PrefixDB's use (cpIncr panics on it): correspondence only
			c.abstain = true
		}
	case t[2] == "immut" && len(t) == 4 && isHandle(t[3], 'd'):
		par, ok := c.dbs[t[3]]
		if !ok {
			return "err:nohandle", "-"
		}
		if _, dup := c.dbs[name]; dup {
			return "err:dup", "-"
		}
		nd, def = dbm.NewImmutableDB(par), &dbdef{kind: "immut", parent: c.defs[t[3]]}
	case t[2] == "snapdb" && len(t) == 4 && isHandle(t[3], 's'):
		s, ok := c.snaps[t[3]]
		if !ok || s.s == nil {
			return "err:nohandle", "-"
		}
		if _, dup := c.dbs[name]; dup {
			return "err:dup", "-"
		}
		nd, def = dbm.NewSnapshotDB(s.s), &dbdef{kind: "snapdb", snap: s}
	case t[2] == "collect" && len(t) == 5 && isHandle(t[3], 'c') && isHandle(t[4], 'd'):
		par, ok := c.dbs[t[4]]
		if !ok {
			return "err:nohandle", "-"
		}
		if _, dup := c.dbs[name]; dup {
			return "err:dup", "-"
		}
		co, ok := c.colls[t[3]]
		if !ok {
			co = &collH{c: dbm.NewBatchCollector()}
			c.colls[t[3]] = co
		}
		nd, def = dbm.NewCollectingDB(par, co.c), &dbdef{kind: "collect", parent: c.defs[t[4]], coll: co}
	default:
		return badop, "-"
	}
	c.dbs[name], c.defs[name] = nd, def
	return "ok", "-"
}

// writable: the oracle treats writes through this handle as ordered-map writes.
func writable(d *dbdef) bool {
	switch d.kind {
	case "root":
		return true
	case "prefix":
		return writable(d.parent)
	}
	return false
}

func (c *caseState) doSet(op string, t []string, k, v []byte) (string, string) {
	d, ok := c.dbs[t[1]]
	if !ok {
		return "err:nohandle", "-"
	}
	def := c.defs[t[1]]
	kb, vb := clone(k), clone(v)
	tok := call(func() error {
		if op == "sets" {
			return d.SetSync(kb, vb)
		}
		return d.Set(kb, vb)
	})
	out := okOr(tok)
	if op != "setmut" && (!same(kb, k) || !same(vb, v)) {
		out += "!inv:argmod"
	}
	if op == "setmut" {
		flip(kb)
		flip(vb)
		c.abstain = true
	}
	if !writable(def) {
		c.abstain = true
		return out, "-"
	}
	full := def.full() + string(k)
	c.touchKey(full)
	c.m[full] = nn(clone(v))
	return out, c.verdict(op, t, out, "ok")
}

func (c *caseState) doDel(op string, t []string, k []byte) (string, string) {
	d, ok := c.dbs[t[1]]
	if !ok {
		return "err:nohandle", "-"
	}
	def := c.defs[t[1]]
	kb := clone(k)
	tok := call(func() error {
		if op == "dels" {
			return d.DeleteSync(kb)
		}
		return d.Delete(kb)
	})
	out := okOr(tok)
	if !same(kb, k) {
		out += "!inv:argmod"
	}
	if !writable(def) {
		c.abstain = true
		return out, "-"
	}
	full := def.full() + string(k)
	c.touchKey(full)
	delete(c.m, full)
	return out, c.verdict(op, t, out, "ok")
}

func (c *caseState) doRead(op string, t []string, k []byte) (string, string) {
	r, ok := c.reader(t[1])
	if !ok {
		return "err:nohandle", "-"
	}
	kb := clone(k)
	var out string
	switch op {
	case "get", "getmut":
		var v []byte
		tok := call(func() (err error) { v, err = r.r.Get(kb); return })
		if tok != "" {
			out = tok
			break
		}
		if op == "getmut" {
			flip(v)
			tok = call(func() (err error) { v, err = r.r.Get(kb); return })
			if tok != "" {
				out = tok
				break
			}
		}
		out = hexv(v)
	case "has":
		var b bool
		tok := call(func() (err error) { b, err = r.r.Has(kb); return })
		if tok != "" {
			out = tok
		} else {
			out = strconv.FormatBool(b)
		}
	}
	if !same(kb, k) {
		out += "!inv:argmod"
	}
	c.touchKey(r.p + string(k))
	if !r.live {
		return out, "-"
	}
	want := oget(r.m, r.p, k)
	if op == "has" {
		want = strconv.FormatBool(want != "-")
	}
	vd := c.verdict(op, t, out, want)
	if op == "getmut" {
		c.tProbe = true
	}
	return out, vd
}

func (c *caseState) doIt(op string, t []string, asc bool, s, e []byte) (string, string) {
	r, ok := c.reader(t[1])
	if !ok {
		return "err:nohandle", "-"
	}
	out := scan(r.r, asc, clone(s), clone(e), false)
	if op == "itmut" && !strings.HasPrefix(out, "err:") && !strings.HasPrefix(out, "panic:") {
		scan(r.r, asc, clone(s), clone(e), true)
		out = scan(r.r, asc, clone(s), clone(e), false)
	}
	if !r.live {
		return out, "-"
	}
	vd := c.verdict(op, t, out, olist(r.m, r.p, asc, s, e))
	if op == "itmut" {
		c.tProbe = true
	}
	return out, vd
}

func (c *caseState) doBnew(t []string) (string, string) {
	if !((t[0] == "bnew" && len(t) == 3) || (t[0] == "bnews" && len(t) == 4)) || !isHandle(t[1], 'd') || !isHandle(t[2], 'b') {
		return badop, "-"
	}
	n := 0
	if t[0] == "bnews" {
		var ok bool
		if n, ok = natTok(t[3]); !ok {
			return badop, "-"
		}
	}
	d, ok := c.dbs[t[1]]
	if !ok {
		return "err:nohandle", "-"
	}
	if _, dup := c.batches[t[2]]; dup {
		return "err:dup", "-"
	}
	var b dbm.Batch
	tok := call(func() error {
		if t[0] == "bnews" {
			b = d.NewBatchWithSize(n)
		} else {
			b = d.NewBatch()
		}
		return nil
	})
	if tok != "" {
		return tok, "-"
	}
	c.batches[t[2]] = &batchH{b: b, def: c.defs[t[1]]}
	return "ok", "-"
}

func (c *caseState) doBset(op string, t []string, k, v []byte) (string, string) {
	b, ok := c.batches[t[1]]
	if !ok {
		return "err:nohandle", "-"
	}
	kb, vb := clone(k), clone(v)
	out := okOr(call(func() error { return b.b.Set(kb, vb) }))
	if op == "bsetmut" {
		flip(kb)
		flip(vb)
		c.abstain = true
	} else if !same(kb, k) || !same(vb, v) {
		out += "!inv:argmod"
	}
	if b.written || !writable(b.def) {
		c.abstain = true
		return out, "-"
	}
	full := b.def.full() + string(k)
	c.touchKey(full)
	b.ops = append(b.ops, oop{k: full, v: nn(clone(v))})
	return out, c.verdict(op, t, out, "ok")
}

func (c *caseState) doBdel(t []string, k []byte) (string, string) {
	b, ok := c.batches[t[1]]
	if !ok {
		return "err:nohandle", "-"
	}
	kb := clone(k)
	out := okOr(call(func() error { return b.b.Delete(kb) }))
	if !same(kb, k) {
		out += "!inv:argmod"
	}
	if b.written || !writable(b.def) {
		c.abstain = true
		return out, "-"
	}
	full := b.def.full() + string(k)
	c.touchKey(full)
	b.ops = append(b.ops, oop{del: true, k: full})
	return out, c.verdict("bdel", t, out, "ok")
}

func (c *caseState) doBfin(op string, t []string) (string, string) {
	b, ok := c.batches[t[1]]
	if !ok {
		return "err:nohandle", "-"
	}
	switch op {
	case "bclose":
		tok := call(func() error { return b.b.Close() })
		if tok == "" {
			tok = call(func() error { return b.b.Close() }) // idempotent per types.go
		}
		delete(c.batches, t[1])
		return okOr(tok), c.verdict(op, t, okOr(tok), "ok")
	default:
		tok := call(func() error {
			if op == "bwrites" {
				return b.b.WriteSync()
			}
			return b.b.Write()
		})
		out := okOr(tok)
		if b.written || !writable(b.def) {
			c.abstain = true
			return out, "-"
		}
		b.written = true
		for _, o := range b.ops {
			if o.del {
				delete(c.m, o.k)
			} else {
				c.m[o.k] = o.v
			}
		}
		return out, c.verdict(op, t, out, "ok")
	}
}

func (c *caseState) doSnap(t []string) (string, string) {
	if len(t) != 3 || !isHandle(t[1], 'd') || !isHandle(t[2], 's') {
		return badop, "-"
	}
	d, ok := c.dbs[t[1]]
	if !ok {
		return "err:nohandle", "-"
	}
	if _, dup := c.snaps[t[2]]; dup {
		return "err:dup", "-"
	}
	def := c.defs[t[1]]
	var s dbm.Snapshot
	tok := call(func() (err error) { s, err = d.NewSnapshot(); return })
	if tok != "" {
		// a backend without snapshots: the snapshot clause is vacuous there
		return tok, "-"
	}
	m, live := c.viewMap(def)
	if !live || def.full() != "" {
		c.abstain = true
	}
	cp := make(map[string][]byte, len(m))
	for k, v := range m {
		cp[k] = v
	}
	c.snaps[t[2]] = &snapH{s: s, m: cp}
	return "ok", c.verdict("snap", t, "ok", "ok")
}

func (c *caseState) doDrain(t []string) (string, string) {
	if len(t) != 3 || !isHandle(t[1], 'c') || !isHandle(t[2], 'd') {
		return badop, "-"
	}
	co, ok := c.colls[t[1]]
	d, ok2 := c.dbs[t[2]]
	if !ok || !ok2 {
		return "err:nohandle", "-"
	}
	c.abstain = true
	var b dbm.Batch
	tok := call(func() error { b = d.NewBatch(); return nil })
	if tok != "" {
		return tok, "-"
	}
	tok = call(func() error { return co.c.Drain(b) })
	if tok == "" {
		tok = call(func() error { return b.WriteSync() })
	}
	quiet(func() { b.Close() })
	return okOr(tok), "-"
}

func fillKey(i, a, cc int) []byte {
	x := (i*a + cc) % 65536
	k := []byte{byte(x >> 8), byte(x)}
	for j := 0; j < i%7; j++ {
		k = append(k, 0xaa)
	}
	return k
}

func (c *caseState) doFill(t []string) (string, string) {
	if len(t) != 5 || !isHandle(t[1], 'd') {
		return badop, "-"
	}
	n, ok1 := natTok(t[2])
	a, ok2 := natTok(t[3])
	cc, ok3 := natTok(t[4])
	if !ok1 || !ok2 || !ok3 || n > 20000 {
		return badop, "-"
	}
	d, ok := c.dbs[t[1]]
	if !ok {
		return "err:nohandle", "-"
	}
	def := c.defs[t[1]]
	out := "ok"
	for i := 0; i < n; i++ {
		k := fillKey(i, a, cc)
		if tok := call(func() error { return d.Set(k, clone(k)) }); tok != "" {
			out = tok
			break
		}
		if writable(def) {
			c.m[def.full()+string(k)] = clone(k)
		}
	}
	if !writable(def) {
		c.abstain = true
		return out, "-"
	}
	return out, c.verdict("fill", t, out, "ok")
}

var profT = map[string]time.Duration{}
var profN = map[string]int{}

func execProf(t []string) (string, string) {
	t0 := time.Now()
	a, b := exec(t)
	k := "?"
	if len(t) > 0 {
		k = t[0]
		if k == "open" && len(t) == 3 {
			k = "openreg"
		}
	}
	profT[k] += time.Since(t0)
	profN[k]++
	return a, b
}

func main() {
	sweepStale()
	defer cleanup()
	h := &kit.Harness{Gen: gen, Reset: reset, Exec: exec}
	if os.Getenv("C29_PROF") != "" {
		h.Exec = execProf
		t0 := time.Now()
		h.Reset = func() { t := time.Now(); reset(); profT["#reset"] += time.Since(t); profN["#reset"]++ }
		defer func() {
			for k, v := range profT {
				fmt.Fprintf(os.Stderr, "prof %-8s n=%-6d %v\n", k, profN[k], v)
			}
			fmt.Fprintf(os.Stderr, "prof total %v\n", time.Since(t0))
		}()
	}
	kit.Main(h)
}
