package main

import (
	"fmt"
	"strings"

	"gnoverif/kit"
)

// ---------------------------------------------------------------- generator
//
// Every script is a list of op lines without the `open` line; emit() writes it
// once per available backend (`#case <id>/<backend>`, `open <backend>`, ops).

type script struct {
	id  string
	ops []string
	reg bool
}

func emit(w *kit.Out, s script) {
	for _, be := range backends {
		w.Case(s.id + "/" + be.name)
		if s.reg {
			w.Op("open %s reg", be.name)
		} else {
			w.Op("open %s", be.name)
		}
		for _, l := range s.ops {
			w.Op("%s", l)
		}
	}
}

func sc(id string, reg bool, lines string) script {
	var ops []string
	for _, l := range strings.Split(lines, "\n") {
		l = strings.TrimSpace(l)
		if l != "" {
			ops = append(ops, l)
		}
	}
	return script{id: id, ops: ops, reg: reg}
}

func rep(b string, n int) string { return strings.Repeat(b, n) }

// boundary table: the corner cases named by the statement, one scenario each.
func boundary() []script {
	dump := "it d0 asc - -\nit d0 desc - -"
	return []script{
		sc("b-empty-db", false, `
			get d0 61
			has d0 61
			get d0 -
			has d0 e
			it d0 asc - -
			it d0 desc - -
			it d0 asc e e
			it d0 desc 61 62
			del d0 61
			del d0 -
			`+dump),
		sc("b-set-get-del", true, `
			set d0 61 01
			get d0 61
			has d0 61
			sets d0 62 02
			set d0 61 03
			get d0 61
			del d0 61
			get d0 61
			has d0 61
			dels d0 62
			del d0 62
			`+dump),
		sc("b-empty-values", false, `
			set d0 61 e
			set d0 62 -
			set d0 63 00
			get d0 61
			has d0 61
			get d0 62
			has d0 62
			it d0 asc - -
			it d0 desc - -
			it d0 desc 62 -
			it d0 asc 61 62
			`),
		sc("b-empty-key", false, `
			set d0 e 01
			get d0 -
			get d0 e
			has d0 -
			it d0 asc - -
			it d0 desc - -
			set d0 - 02
			get d0 e
			set d0 61 03
			it d0 asc - 61
			it d0 desc - 61
			del d0 -
			has d0 e
			`+dump),
		sc("b-empty-key-vs-sentinels", false, `
			set d0 e 01
			set d0 6e696c 02
			set d0 00 03
			get d0 -
			get d0 6e696c
			get d0 00
			it d0 asc - -
			del d0 e
			get d0 6e696c
			get d0 00
			`+dump),
		sc("b-sentinel-keys-only", false, `
			set d0 6e696c 02
			set d0 00 03
			get d0 6e696c
			get d0 00
			get d0 -
			has d0 e
			`+dump),
		sc("b-bounds", false, `
			set d0 61 01
			set d0 6100 02
			set d0 61ff 03
			set d0 62 04
			set d0 ff 05
			set d0 ffff 06
			set d0 00 07
			it d0 asc 61 62
			it d0 desc 61 62
			it d0 asc 61 6100
			it d0 desc 61 6100
			it d0 asc 6100 61ff
			it d0 desc 6100 61ff
			it d0 asc 62 61
			it d0 desc 62 61
			it d0 asc 61 61
			it d0 desc 61 61
			it d0 asc - 61
			it d0 desc - 61
			it d0 asc 62 -
			it d0 desc 62 -
			it d0 asc 6000 6300
			it d0 desc 6000 6300
			it d0 asc ffff -
			it d0 desc ffff -
			it d0 asc ffff00 -
			it d0 desc - 00
			it d0 desc - 0000
			it d0 desc 00 ffff00
			it d0 asc 00 ffff00
			`),
		sc("b-empty-bounds", false, `
			set d0 61 01
			set d0 00 02
			it d0 asc e -
			it d0 desc e -
			it d0 asc - e
			it d0 desc - e
			it d0 asc e e
			it d0 desc e e
			it d0 asc e 61
			it d0 desc 00 e
			`),
		sc("b-batch-write", true, `
			set d0 61 01
			set d0 62 02
			bnew d0 b0
			bset b0 63 03
			bdel b0 61
			bset b0 62 22
			bset b0 64 04
			bdel b0 64
			get d0 63
			get d0 61
			it d0 asc - -
			bwrite b0
			it d0 asc - -
			bclose b0
			it d0 desc - -
			`),
		sc("b-batch-order", false, `
			bnews d0 b0 64
			bset b0 61 01
			bdel b0 61
			bset b0 61 02
			bset b0 62 e
			bset b0 62 -
			bdel b0 63
			bwrites b0
			bclose b0
			get d0 61
			get d0 62
			`+dump),
		sc("b-batch-discard", false, `
			set d0 61 01
			bnew d0 b0
			bset b0 61 02
			bset b0 62 02
			bdel b0 61
			bclose b0
			get d0 61
			get d0 62
			bset b0 63 03
			bwrite b0
			`+dump),
		sc("b-batch-empty", false, `
			bnew d0 b0
			bwrite b0
			bclose b0
			bnew d0 b1
			bclose b1
			bnew d0 b2
			bnew d0 b2
			`+dump),
		sc("b-batch-two-interleaved", false, `
			bnew d0 b0
			bnew d0 b1
			bset b0 61 01
			bset b1 61 02
			bset b1 62 02
			bwrite b1
			get d0 61
			bwrite b0
			get d0 61
			bclose b0
			bclose b1
			`+dump),
		sc("b-batch-reuse-after-write", false, `
			bnew d0 b0
			bset b0 61 01
			bwrite b0
			del d0 61
			bset b0 62 02
			bdel b0 63
			bwrite b0
			get d0 61
			get d0 62
			bwrites b0
			bclose b0
			`+dump),
		sc("b-batch-empty-key", false, `
			bnew d0 b0
			bset b0 e 01
			bset b0 6e696c 02
			bset b0 00 03
			bwrite b0
			bclose b0
			get d0 -
			`+dump+`
			bnew d0 b1
			bdel b1 -
			bwrite b1
			bclose b1
			`+dump),
		sc("b-snapshot", true, `
			set d0 61 01
			set d0 62 02
			snap d0 s0
			set d0 61 11
			del d0 62
			set d0 63 03
			get s0 61
			get s0 62
			has s0 63
			has s0 62
			it s0 asc - -
			it s0 desc - -
			it s0 desc 61 62
			it d0 asc - -
			bnew d0 b0
			bset b0 64 04
			bdel b0 61
			bwrite b0
			bclose b0
			it s0 asc - -
			snap d0 s1
			it s1 asc - -
			sclose s0
			get s0 61
			it s1 desc - -
			sclose s1
			`),
		sc("b-snapshot-empty-values", false, `
			set d0 61 e
			set d0 e 01
			snap d0 s0
			del d0 61
			it s0 asc - -
			it s0 desc - -
			get s0 61
			has s0 61
			get s0 -
			has s0 e
			`),
		sc("b-alias-get", false, `
			set d0 61 0102
			getmut d0 61
			get d0 61
			it d0 asc - -
			`),
		sc("b-alias-iter", false, `
			set d0 61 0102
			set d0 62 03
			itmut d0 asc - -
			get d0 61
			itmut d0 desc 62 -
			get d0 62
			it d0 asc - -
			`),
		sc("b-alias-set-args", false, `
			setmut d0 61 0102
			get d0 61
			get d0 9e
			it d0 asc - -
			`),
		sc("b-alias-batch-args", false, `
			bnew d0 b0
			bsetmut b0 61 0102
			bwrite b0
			bclose b0
			it d0 asc - -
			`),
		sc("b-alias-snapshot", false, `
			set d0 61 0102
			snap d0 s0
			getmut d0 61
			get s0 61
			getmut s0 61
			get d0 61
			itmut s0 asc - -
			get d0 61
			`),
		sc("b-long-keys", false, `
			set d0 `+rep("6b", 255)+` 01
			set d0 `+rep("6b", 256)+` 02
			get d0 `+rep("6b", 256)+`
			it d0 desc - -
			it d0 asc `+rep("6b", 256)+` -
			`),
		sc("b-prefix", false, `
			set d0 61 01
			set d0 6100 02
			set d0 6161 03
			set d0 61ff 04
			set d0 62 05
			set d0 60 06
			wrap d1 prefix 61 d0
			get d1 e
			get d1 -
			get d1 61
			has d1 00
			it d1 asc - -
			it d1 desc - -
			it d1 asc 00 ff
			it d1 desc 00 ff
			it d1 asc e 61
			it d1 desc 61 -
			set d1 7a 07
			set d1 - 08
			del d1 ff
			it d0 asc - -
			bnew d1 b0
			bset b0 01 09
			bdel b0 00
			bwrite b0
			bclose b0
			it d1 asc - -
			it d0 desc - -
			snap d1 s0
			`),
		sc("b-prefix-carry", false, `
			set d0 61ff01 01
			set d0 61ff 02
			set d0 62 03
			set d0 6200 04
			wrap d1 prefix 61ff d0
			it d1 asc - -
			it d1 desc - -
			it d1 desc - 02
			it d1 desc 01 -
			del d0 62
			it d1 desc - -
			del d0 6200
			it d1 desc - -
			`),
		sc("b-prefix-ff-and-empty", false, `
			set d0 ff 01
			set d0 ffff 02
			set d0 ffff00 03
			set d0 fe 04
			wrap d1 prefix ffff d0
			it d1 asc - -
			it d1 desc - -
			wrap d2 prefix e d0
			it d2 asc - 00
			it d2 asc - -
			it d2 desc - -
			get d2 ff
			wrap d3 prefix 00 d1
			set d3 01 05
			it d0 asc - -
			`),
		sc("b-nested-prefix", false, `
			wrap d1 prefix 61 d0
			wrap d2 prefix 62 d1
			set d2 63 01
			set d2 e 02
			set d1 63 03
			get d0 616263
			get d0 6162
			it d2 asc - -
			it d2 desc - -
			it d1 asc - -
			it d1 desc 62 63
			`),
		sc("b-immut", false, `
			set d0 61 01
			wrap d1 immut d0
			get d1 61
			it d1 asc - -
			set d1 62 02
			del d1 61
			bnew d1 b0
			bset b0 63 03
			bdel b0 61
			bclose b0
			bnew d1 b1
			bwrite b1
			get d0 62
			snap d1 s0
			`),
		sc("b-snapdb", false, `
			set d0 61 01
			set d0 62 e
			snap d0 s0
			wrap d1 snapdb s0
			set d0 61 02
			get d1 61
			has d1 62
			it d1 asc - -
			it d1 desc - -
			set d1 63 03
			dels d1 61
			bnew d1 b0
			bset b0 63 03
			bwrite b0
			bclose b0
			snap d1 s1
			get s1 61
			sclose s0
			wrap d2 prefix 6 d1
			wrap d2 prefix 61 d1
			get d2 e
			it d2 asc - -
			`),
		sc("b-collecting", false, `
			set d0 61 01
			set d0 62 02
			wrap d1 collect c0 d0
			set d1 63 03
			del d1 61
			get d1 63
			get d1 61
			has d1 61
			has d1 62
			get d0 63
			it d1 asc - -
			bnew d1 b0
			bset b0 64 04
			get d1 64
			bwrite b0
			get d1 64
			bset b0 65 05
			bclose b0
			get d1 65
			drain c0 d0
			it d0 asc - -
			get d1 61
			drain c0 d0
			drain c1 d0
			`),
		sc("b-fill-pages", false, `
			fill d0 600 40503 7
			it d0 asc - -
			it d0 desc - -
			it d0 asc 40 80
			it d0 desc 40 80
			it d0 desc - 0001
			it d0 desc ffff -
			get d0 0007
			`),
	}
}

// ---------------------------------------------------------------- random scripts

type profile struct {
	emptyKey, probes, wrappers, snaps, reuse, emptyBound, setargs bool
}

var keyAtoms = []string{"00", "61", "62", "ff"}

func rndBytes(r *kit.Rand, minLen, maxLen int) string {
	n := r.Range(minLen, maxLen)
	var sb strings.Builder
	for i := 0; i < n; i++ {
		if r.Chance(85) {
			sb.WriteString(kit.Pick(r, keyAtoms))
		} else {
			sb.WriteString(fmt.Sprintf("%02x", r.Intn(256)))
		}
	}
	return sb.String()
}

// keyPool: most keys of a script come from a small per-script pool so that
// reads, deletes and bounds hit what was written.
var keyPool []string

func rndKey(r *kit.Rand, p profile) string {
	if len(keyPool) > 0 && r.Chance(70) {
		k := kit.Pick(r, keyPool)
		if (k != "e" && k != "-") || p.emptyKey {
			return k
		}
	}
	return freshKey(r, p)
}

func freshKey(r *kit.Rand, p profile) string {
	x := r.Intn(100)
	switch {
	case x < 6 && p.emptyKey:
		return kit.Pick(r, []string{"e", "-"})
	case x < 12:
		return kit.Pick(r, []string{"6e696c", "00", "6e696d", "6e69", "0000"})
	case x < 16:
		return kit.Pick(r, []string{"61ff", "61ff01", "6200", "ffff", "ffff00"})
	}
	return rndBytes(r, 1, 3)
}

func rndVal(r *kit.Rand) string {
	x := r.Intn(100)
	switch {
	case x < 10:
		return "e"
	case x < 15:
		return "-"
	case x < 20:
		return rndBytes(r, 20, 40)
	}
	return rndBytes(r, 1, 3)
}

func rndBound(r *kit.Rand, p profile) string {
	x := r.Intn(100)
	switch {
	case x < 25:
		return "-"
	case x < 31 && p.emptyBound:
		return "e"
	}
	return rndKey(r, profile{})
}

func rndDir(r *kit.Rand) string {
	if r.Bool() {
		return "asc"
	}
	return "desc"
}

type genState struct {
	dbs      []string // handles that accept writes the oracle understands (root / prefix chains)
	ro       []string // read-only or collecting wrappers
	batches  []string
	written  map[string]bool
	snaps    []string
	nd, nb   int
	ns       int
	collUsed bool
}

func randomScript(r *kit.Rand, id string, p profile, n int) script {
	g := &genState{dbs: []string{"d0"}, written: map[string]bool{}, nd: 1}
	keyPool = nil
	for i := r.Range(4, 9); i > 0; i-- {
		keyPool = append(keyPool, freshKey(r, p))
	}
	var ops []string
	add := func(f string, a ...any) { ops = append(ops, fmt.Sprintf(f, a...)) }
	anyDB := func() string {
		if len(g.ro) > 0 && r.Chance(25) {
			return kit.Pick(r, g.ro)
		}
		return kit.Pick(r, g.dbs)
	}
	rdr := func() string {
		if len(g.snaps) > 0 && r.Chance(30) {
			return kit.Pick(r, g.snaps)
		}
		return anyDB()
	}
	for i := 0; i < n; i++ {
		x := r.Intn(100)
		switch {
		case x < 22:
			op := "set"
			if r.Chance(3) {
				op = "sets"
			}
			if p.setargs && r.Chance(10) {
				op = "setmut"
			}
			add("%s %s %s %s", op, anyDB(), rndKey(r, p), rndVal(r))
		case x < 30:
			op := "del"
			if r.Chance(3) {
				op = "dels"
			}
			add("%s %s %s", op, anyDB(), rndKey(r, p))
		case x < 40:
			op := "get"
			if p.probes && r.Chance(20) {
				op = "getmut"
			}
			add("%s %s %s", op, rdr(), rndKey(r, p))
		case x < 45:
			add("has %s %s", rdr(), rndKey(r, p))
		case x < 62:
			op := "it"
			if p.probes && r.Chance(12) {
				op = "itmut"
			}
			add("%s %s %s %s %s", op, rdr(), rndDir(r), rndBound(r, p), rndBound(r, p))
		case x < 67:
			b := fmt.Sprintf("b%d", g.nb)
			g.nb++
			if r.Chance(20) {
				add("bnews %s %s %d", anyDB(), b, r.Intn(200))
			} else {
				add("bnew %s %s", anyDB(), b)
			}
			g.batches = append(g.batches, b)
		case x < 82:
			if len(g.batches) == 0 {
				continue
			}
			b := kit.Pick(r, g.batches)
			if g.written[b] && !p.reuse {
				continue
			}
			if r.Chance(70) {
				op := "bset"
				if p.setargs && r.Chance(10) {
					op = "bsetmut"
				}
				add("%s %s %s %s", op, b, rndKey(r, p), rndVal(r))
			} else {
				add("bdel %s %s", b, rndKey(r, p))
			}
		case x < 88:
			if len(g.batches) == 0 {
				continue
			}
			b := kit.Pick(r, g.batches)
			if g.written[b] && !p.reuse {
				continue
			}
			if r.Chance(90) {
				add("bwrite %s", b)
			} else {
				add("bwrites %s", b)
			}
			g.written[b] = true
		case x < 92:
			if len(g.batches) == 0 {
				continue
			}
			j := r.Intn(len(g.batches))
			add("bclose %s", g.batches[j])
			g.batches = append(g.batches[:j], g.batches[j+1:]...)
		case x < 95:
			if !p.snaps {
				continue
			}
			if len(g.snaps) > 0 && r.Chance(30) {
				j := r.Intn(len(g.snaps))
				add("sclose %s", g.snaps[j])
				g.snaps = append(g.snaps[:j], g.snaps[j+1:]...)
				continue
			}
			s := fmt.Sprintf("s%d", g.ns)
			g.ns++
			add("snap d0 %s", s)
			g.snaps = append(g.snaps, s)
		default:
			if !p.wrappers || g.nd > 4 {
				continue
			}
			d := fmt.Sprintf("d%d", g.nd)
			g.nd++
			y := r.Intn(100)
			switch {
			case y < 60:
				pf := kit.Pick(r, []string{"61", "61ff", "ff", "ffff", "00", "6162", "e", "6e", "62"})
				add("wrap %s prefix %s %s", d, pf, kit.Pick(r, g.dbs))
				g.dbs = append(g.dbs, d)
			case y < 72:
				add("wrap %s immut %s", d, kit.Pick(r, g.dbs))
				g.ro = append(g.ro, d)
			case y < 85:
				add("wrap %s collect c0 %s", d, kit.Pick(r, g.dbs))
				g.ro = append(g.ro, d)
				g.collUsed = true
			default:
				if len(g.snaps) == 0 {
					g.nd--
					continue
				}
				// the snapshot stays open for the rest of the case
				j := r.Intn(len(g.snaps))
				add("wrap %s snapdb %s", d, g.snaps[j])
				g.ro = append(g.ro, d)
				g.snaps = append(g.snaps[:j], g.snaps[j+1:]...)
			}
		}
		if g.collUsed && r.Chance(6) {
			if r.Chance(70) {
				add("drain c0 d0")
			} else {
				add("drain c0 %s", anyDB())
			}
		}
	}
	add("it d0 asc - -")
	add("it d0 desc - -")
	return script{id: id, ops: ops}
}

// malformed stream: wrong arity, bad tokens, unknown / duplicate handles, ops
// before open; every backend must answer the same protocol-level errors.
func malformed(r *kit.Rand, id string) script {
	pool := []string{
		"set d0 61", "set d0 61 01 02", "set d0 6 01", "set d0 6G 01", "set d0 61 0", "set d0 AB 01",
		"set d1 61 01", "set x0 61 01", "set d 61 01", "set d0000000 61 01", "get", "get d0", "get d0 zz",
		"get s0 61", "get s9 61", "has b0 61", "it d0 up - -", "it d0 asc -", "it d0 asc - - -", "it d0 asc -- -",
		"it s1 asc - -", "bnew d0 d1", "bnew d0 b0 3", "bnews d0 b9 x", "bnews d0 b9 1234567", "bnew d7 b0",
		"bset b7 61 01", "bdel b7 61", "bwrite b7", "bclose b7", "bwrite", "bclose d0", "snap d0", "snap d9 s0",
		"snap d0 b0", "sclose s7", "sclose", "wrap d1 prefix 61", "wrap d1 prefix 61 d9", "wrap d1 prefix 6 d0",
		"wrap d0 prefix 61 d0", "wrap d1 immut d9", "wrap d1 snapdb s9", "wrap d1 collect d0 d0", "wrap d1 bogus d0",
		"wrap s1 prefix 61 d0", "drain c9 d0", "drain c0", "fill d0 5", "fill d0 99999 1 1", "fill d9 5 1 1",
		"open mem", "open", "open zzz", "frob d0", "", "e", "-", "SET d0 61 01", "set  d0  61  01",
	}
	var ops []string
	n := r.Range(8, 20)
	for i := 0; i < n; i++ {
		if r.Chance(25) {
			ops = append(ops, kit.Pick(r, []string{"set d0 61 01", "bnew d0 b0", "snap d0 s0", "get d0 61", "it d0 asc - -"}))
		} else {
			l := kit.Pick(r, pool)
			if l == "" {
				l = "?"
			}
			ops = append(ops, l)
		}
	}
	return script{id: id, ops: ops}
}

// emptyBoundsFirst: forward and reverse iterators whose bounds are empty NON-nil
// slices, combined with nil, empty and real keys, on the live database and on a
// snapshot, over keys on both sides of the other bound.  It is the FIRST script
// of the stream, and its nil/empty-only listings come before any listing with a
// real key: pebble copies the bounds into a per-iterator buffer that is pooled
// and, while that buffer has never been allocated, a zero-length bound becomes
// a nil bound inside pebble ("no bound") — only then does the wrapper's own
// end check in Valid() decide the outcome.
func emptyBoundsFirst() script {
	var b strings.Builder
	b.WriteString("set d0 00 02\nset d0 61 01\nset d0 6100 05\nset d0 62 03\nset d0 ff 04\nsnap d0 s0\nset d0 63 06\ndel d0 62\n")
	first := [][2]string{{"-", "e"}, {"e", "e"}, {"e", "-"}}
	second := [][2]string{{"61", "e"}, {"e", "61"}, {"00", "e"}, {"e", "00"}, {"ff", "e"}, {"e", "ff"}, {"e", "6100"}, {"6100", "e"},
		{"-", "61"}, {"61", "-"}, {"-", "e"}, {"e", "e"}, {"e", "-"}}
	for _, grp := range [][][2]string{first, second} {
		for _, h := range []string{"d0", "s0"} {
			for _, se := range grp {
				for _, dir := range []string{"asc", "desc"} {
					fmt.Fprintf(&b, "it %s %s %s %s\n", h, dir, se[0], se[1])
				}
			}
		}
	}
	return sc("a-empty-bounds-first", false, b.String())
}

func gen(w *kit.Out, r *kit.Rand, tier string) {
	emit(w, emptyBoundsFirst())

	// ops before any open, unknown backend
	w.Case("m-noopen")
	w.Op("set d0 61 01")
	w.Op("get d0 61")
	w.Op("open zzz")
	w.Op("open mem x")
	w.Op("it d0 asc - -")

	for _, s := range boundary() {
		emit(w, s)
	}
	nClean, nFull, nMal, length := 45, 45, 8, 30
	if tier == "thorough" {
		nClean, nFull, nMal, length = 350, 350, 30, 45
	}
	rc := r.Fork()
	for i := 0; i < nClean; i++ {
		// inside the statement's contract and away from every recorded finding
		p := profile{snaps: i%3 == 0}
		emit(w, randomScript(rc, fmt.Sprintf("c%d", i), p, length))
	}
	rf := r.Fork()
	for i := 0; i < nFull; i++ {
		p := profile{
			emptyKey: rf.Chance(40), probes: rf.Chance(40), wrappers: rf.Chance(60), snaps: rf.Chance(60),
			reuse: rf.Chance(30), emptyBound: rf.Chance(50), setargs: rf.Chance(25),
		}
		if p.emptyKey {
			p.probes = false // one finding trigger per script keeps the oracle's classes narrow
		}
		emit(w, randomScript(rf, fmt.Sprintf("f%d", i), p, length))
	}
	rm := r.Fork()
	for i := 0; i < nMal; i++ {
		emit(w, malformed(rm, fmt.Sprintf("m%d", i)))
	}
	if tier == "thorough" {
		rb := r.Fork()
		for i := 0; i < 6; i++ {
			a := 2*rb.Intn(30000) + 1
			emit(w, sc(fmt.Sprintf("big%d", i), false, fmt.Sprintf(`
				fill d0 %d %d %d
				it d0 asc - -
				it d0 desc - -
				it d0 asc %s %s
				it d0 desc %s %s
				bnew d0 b0
				bdel b0 %04x
				bset b0 %04x 01
				bwrite b0
				bclose b0
				it d0 desc - -
				`, 1500+rb.Intn(3000), a, rb.Intn(65536), rndBytes(rb, 1, 2), rndBytes(rb, 1, 2), rndBytes(rb, 1, 2),
				rndBytes(rb, 1, 2), rb.Intn(65536), rb.Intn(65536))))
		}
	}
}
