package main

import (
	"github.com/cockroachdb/pebble"
	"github.com/syndtr/goleveldb/leveldb/opt"
	"go.etcd.io/bbolt"

	dbm "github.com/gnolang/gno/tm2/pkg/db"
	"github.com/gnolang/gno/tm2/pkg/db/boltdb"
	"github.com/gnolang/gno/tm2/pkg/db/goleveldb"
	"github.com/gnolang/gno/tm2/pkg/db/memdb"
	"github.com/gnolang/gno/tm2/pkg/db/pebbledb"
)

// backendDef: one database backend of tm2/pkg/db.  `typ` is the name it
// registers under (db.NewDB); `fast` opens the same gno wrapper through its
// public *WithOpts constructor with the engine's fsync switched off (the
// durability knob only — key/value semantics are untouched), which keeps the
// quick tier inside its budget on a disk-backed /tmp.
type backendDef struct {
	name string // protocol name: mem ldb peb blt lmdb mdbx
	typ  dbm.BackendType
	fast func(name, dir string) (dbm.DB, error)
}

var backends = []*backendDef{
	{"mem", dbm.MemDBBackend, func(name, dir string) (dbm.DB, error) { return memdb.NewMemDB(), nil }},
	{"ldb", dbm.GoLevelDBBackend, func(name, dir string) (dbm.DB, error) {
		return goleveldb.NewGoLevelDBWithOpts(name, dir, &opt.Options{NoSync: true})
	}},
	{"peb", dbm.PebbleDBBackend, func(name, dir string) (dbm.DB, error) {
		return pebbledb.NewPebbleDBWithOpts(name, dir, &pebble.Options{})
	}},
	{"blt", dbm.BoltDBBackend, func(name, dir string) (dbm.DB, error) {
		o := *bbolt.DefaultOptions
		o.NoSync = true
		o.NoFreelistSync = true
		return boltdb.NewWithOptions(name, dir, &o)
	}},
}

func backendByName(n string) *backendDef {
	for _, b := range backends {
		if b.name == n {
			return b
		}
	}
	return nil
}
