// Harness for C17: the block gas price adjustment rule
// (tm2/pkg/sdk/auth: GasPriceKeeper.UpdateGasPrice → calcBlockGasPrice).
//
// The real keeper is driven through its exported API only:
// NewGasPriceKeeper + SetGasPrice + UpdateGasPrice + LastGasPrice on an
// sdk.Context that carries the auth params (AuthParamsContextKey), consensus
// params with Block.MaxGas, and a block gas meter built the way
// BaseApp.BeginBlock builds it (basic meter when MaxGas > 0, infinite
// otherwise) with the given amount consumed.
//
//	price token:  `-` = std.GasPrice{} | `<amount>` = {Gas 1, "ugnot", amount} | `<amount>:<gas>:<denom>`
//	upd    <last> <used> <maxGas> <ratio> <compressor> <initial>   fresh store, SetGasPrice(last), Params.Validate, UpdateGasPrice, LastGasPrice
//	updraw <last> <used> <maxGas> <ratio> <compressor> <initial>   same, skipping Params.Validate (no oracle verdict)
//	set    <price>                                                 SetGasPrice on the current store, LastGasPrice
//	blk    <used> <maxGas> <ratio> <compressor> <initial>          Params.Validate, UpdateGasPrice on the current store, LastGasPrice
//	output: price token | panic:range | panic:divzero | panic:decode | panic:store | err:params | err:badop
//
// Oracle (independent of the model; math/big rationals): the property
// STATEMENT on (price before, price after):
//
//	dynamic pricing disabled (price 0, ratio 0, or no positive target) or
//	usage == target                          → price unchanged
//	usage > target                           → after ≥ before + 1
//	usage < target, before ≥ initial         → initial ≤ after, and after ≤ before − 1 unless before == initial (then after == before)
//	usage < target, before < initial         → only the floor clause is judged: after ≥ initial
//	any panic                                → violation ("never overflows or panics")
//
// target = ⌊maxGas·ratio/100⌋ gas units (the code comment's definition), computed
// here with big.Rat.
package main

import (
	"fmt"
	"math/big"
	"regexp"
	"strings"

	abci "github.com/gnolang/gno/tm2/pkg/bft/abci/types"
	bft "github.com/gnolang/gno/tm2/pkg/bft/types"
	"github.com/gnolang/gno/tm2/pkg/db/memdb"
	"github.com/gnolang/gno/tm2/pkg/log"
	"github.com/gnolang/gno/tm2/pkg/sdk"
	"github.com/gnolang/gno/tm2/pkg/sdk/auth"
	"github.com/gnolang/gno/tm2/pkg/std"
	"github.com/gnolang/gno/tm2/pkg/store"
	"github.com/gnolang/gno/tm2/pkg/store/iavl"
	"gnoverif/kit"
)

// ---------------------------------------------------------------- environment

var (
	baseCtx sdk.Context // over an EMPTY committed store; never written
	cur     sdk.Context // cache-wrapped working context of the current case
	gk      auth.GasPriceKeeper
)

func setup() {
	db := memdb.NewMemDB()
	key := store.NewStoreKey("authCapKey")
	ms := store.NewCommitMultiStore(db)
	ms.MountStoreWithDB(key, iavl.StoreConstructor, db)
	if err := ms.LoadLatestVersion(); err != nil {
		panic(err)
	}
	gk = auth.NewGasPriceKeeper(key)
	baseCtx = sdk.NewContext(sdk.RunTxModeDeliver, ms, &bft.Header{Height: 1, ChainID: "c17-chain"}, log.NewNoopLogger())
	reset()
}

func reset() { cur, _ = baseCtx.CacheContext() }

// ---------------------------------------------------------------- tokens

var denomRe = regexp.MustCompile(`^[a-z]{3,16}$`) // a subset of std.ValidateDenom

var intRe = regexp.MustCompile(`^(0|-?[1-9][0-9]*)$`)

func parseI64(s string) (int64, bool) {
	if !intRe.MatchString(s) {
		return 0, false
	}
	v, ok := new(big.Int).SetString(s, 10)
	if !ok || !v.IsInt64() {
		return 0, false
	}
	return v.Int64(), true
}

func parseGP(s string) (std.GasPrice, bool) {
	if s == "-" {
		return std.GasPrice{}, true
	}
	parts := strings.Split(s, ":")
	switch len(parts) {
	case 1:
		a, ok := parseI64(parts[0])
		return std.GasPrice{Gas: 1, Price: std.Coin{Denom: "ugnot", Amount: a}}, ok
	case 3:
		a, ok1 := parseI64(parts[0])
		g, ok2 := parseI64(parts[1])
		return std.GasPrice{Gas: g, Price: std.Coin{Denom: parts[2], Amount: a}}, ok1 && ok2 && denomRe.MatchString(parts[2])
	}
	return std.GasPrice{}, false
}

func showGP(g std.GasPrice) string {
	if (g == std.GasPrice{}) {
		return "-"
	}
	if g.Gas == 1 && g.Price.Denom == "ugnot" {
		return fmt.Sprint(g.Price.Amount)
	}
	return fmt.Sprintf("%d:%d:%s", g.Price.Amount, g.Gas, g.Price.Denom)
}

// ---------------------------------------------------------------- running the real keeper

type blockIn struct {
	used, maxGas, ratio, c int64
	initial               std.GasPrice
}

func parseBlock(t []string) (b blockIn, ok bool) {
	var o [4]bool
	b.used, o[0] = parseI64(t[0])
	b.maxGas, o[1] = parseI64(t[1])
	b.ratio, o[2] = parseI64(t[2])
	b.c, o[3] = parseI64(t[3])
	var o4 bool
	b.initial, o4 = parseGP(t[4])
	return b, o[0] && o[1] && o[2] && o[3] && o4
}

func (b blockIn) params() auth.Params {
	p := auth.DefaultParams()
	p.GasPricesChangeCompressor = b.c
	p.TargetGasRatio = b.ratio
	p.InitialGasPrice = b.initial
	return p
}

// blockMeter mirrors BaseApp.BeginBlock: a basic meter limited to MaxGas when
// MaxGas > 0, else the infinite meter; then `used` is consumed (a block may
// overshoot its limit by the last tx — the out-of-gas panic is swallowed, the
// meter keeps the amount, exactly as in DeliverTx).
func blockMeter(maxGas, used int64) store.GasMeter {
	var m store.GasMeter
	if maxGas > 0 && used >= 0 {
		m = store.NewGasMeter(maxGas)
	} else {
		m = store.NewInfiniteGasMeter() // also the only real meter that can report a negative reading
	}
	func() {
		defer func() { recover() }()
		m.ConsumeGas(used, "c17")
	}()
	if m.GasConsumed() != used {
		panic("harness: gas meter did not record the requested consumption")
	}
	return m
}

// classify maps a recovered panic value to the canonical class.
func classify(v any) string {
	msg := fmt.Sprint(v)
	switch {
	case strings.Contains(msg, "out of int64 range"):
		return "range"
	case strings.Contains(msg, "division by zero"):
		return "divzero"
	case strings.Contains(msg, "invalid coin expression"):
		return "decode" // LastGasPrice: amino.Unmarshal of a negative coin amount
	case strings.Contains(msg, "value is nil"):
		return "store" // SetGasPrice: empty amino encoding refused by Store.Set
	}
	return "other " + msg
}

// readLast reads LastGasPrice; a panic is returned as its class.
func readLast(ctx sdk.Context) (g std.GasPrice, panicked string) {
	defer func() {
		if v := recover(); v != nil {
			panicked = classify(v)
		}
	}()
	return gk.LastGasPrice(ctx), ""
}

// trySet calls SetGasPrice on the current store; a panic is returned as its class.
func trySet(g std.GasPrice) (panicked string) {
	defer func() {
		if v := recover(); v != nil {
			panicked = classify(v)
		}
	}()
	gk.SetGasPrice(cur, g)
	return ""
}

func showLast(ctx sdk.Context) string {
	g, p := readLast(ctx)
	if p != "" {
		return "panic:" + p
	}
	return showGP(g)
}

// runUpdate calls the real UpdateGasPrice; returns the canonical output and
// (before, after, panicked) for the oracle; readable=false when the price
// before or after the block cannot be read (then there is no verdict).
func runUpdate(b blockIn) (out string, before, after std.GasPrice, panicked string, readable bool) {
	ctx := cur.WithValue(auth.AuthParamsContextKey{}, b.params()).
		WithConsensusParams(&abci.ConsensusParams{Block: &abci.BlockParams{MaxGas: b.maxGas}}).
		WithBlockGasMeter(blockMeter(b.maxGas, b.used))
	before, bp := readLast(ctx)
	func() {
		defer func() {
			if v := recover(); v != nil {
				panicked = classify(v)
			}
		}()
		gk.UpdateGasPrice(ctx)
	}()
	if panicked != "" {
		return "panic:" + panicked, before, before, panicked, bp == ""
	}
	after, ap := readLast(ctx)
	if ap != "" {
		return "panic:" + ap, before, after, "", false
	}
	return showGP(after), before, after, "", bp == ""
}

// ---------------------------------------------------------------- oracle

var ratHundred = big.NewRat(100, 1)

// floorRat is ⌊r⌋ without using big.Int.Div (Quo truncates; adjust for negatives).
func floorRat(r *big.Rat) *big.Int {
	q := new(big.Int).Quo(r.Num(), r.Denom()) // truncated toward zero
	if r.Sign() < 0 && !r.IsInt() {
		q.Sub(q, big.NewInt(1))
	}
	return q
}

func oracle(b blockIn, before, after std.GasPrice, panicked string) string {
	detail := fmt.Sprintf("before=%d used=%d maxGas=%d ratio=%d c=%d initial=%d", before.Price.Amount, b.used, b.maxGas, b.ratio, b.c, b.initial.Price.Amount)
	if b.used < 0 {
		return "-" // not a gas-used value; the keeper ignores the block
	}
	if (before != std.GasPrice{}) && before.Gas <= 0 {
		return "-" // "amount per 0 gas" is not a gas price (ParseGasPrice and IsGTE reject Gas <= 0)
	}
	if panicked != "" {
		if panicked == "range" {
			return "VIOL:price-overflow-panic " + detail
		}
		return "VIOL:panic-" + panicked + " " + detail
	}
	last := big.NewInt(before.Price.Amount)
	next := big.NewInt(after.Price.Amount)
	init := big.NewInt(b.initial.Price.Amount)
	one := big.NewInt(1)
	target := floorRat(new(big.Rat).Quo(new(big.Rat).Mul(new(big.Rat).SetInt64(b.maxGas), new(big.Rat).SetInt64(b.ratio)), ratHundred))
	used := big.NewInt(b.used)
	disabled := last.Sign() == 0 || b.ratio == 0 || target.Sign() <= 0
	switch {
	case disabled || used.Cmp(target) == 0:
		if next.Cmp(last) != 0 {
			return "VIOL:moved-when-disabled-or-on-target after=" + next.String() + " " + detail
		}
	case used.Cmp(target) > 0:
		if next.Cmp(new(big.Int).Add(last, one)) < 0 {
			return "VIOL:no-increase after=" + next.String() + " " + detail
		}
	default: // used < target
		if next.Cmp(init) < 0 {
			return "VIOL:below-floor after=" + next.String() + " " + detail
		}
		if last.Cmp(init) > 0 && next.Cmp(new(big.Int).Sub(last, one)) > 0 {
			return "VIOL:no-decrease after=" + next.String() + " " + detail
		}
		if last.Cmp(init) == 0 && next.Cmp(last) != 0 {
			return "VIOL:left-floor after=" + next.String() + " " + detail
		}
	}
	return "ok"
}

// ---------------------------------------------------------------- exec

func exec(t []string) (string, string) {
	switch {
	case len(t) == 7 && (t[0] == "upd" || t[0] == "updraw"):
		last, ok1 := parseGP(t[1])
		b, ok2 := parseBlock(t[2:])
		if !ok1 || !ok2 {
			return "err:badop", "-"
		}
		reset()
		if p := trySet(last); p != "" {
			return "panic:" + p, "-"
		}
		if t[0] == "upd" && b.params().Validate() != nil {
			return "err:params", "-"
		}
		out, before, after, p, readable := runUpdate(b)
		if t[0] == "updraw" || !readable {
			return out, "-"
		}
		return out, oracle(b, before, after, p)
	case len(t) == 2 && t[0] == "set":
		g, ok := parseGP(t[1])
		if !ok {
			return "err:badop", "-"
		}
		if p := trySet(g); p != "" {
			return "panic:" + p, "-"
		}
		return showLast(cur), "-"
	case len(t) == 6 && t[0] == "blk":
		b, ok := parseBlock(t[1:])
		if !ok {
			return "err:badop", "-"
		}
		if b.params().Validate() != nil {
			return "err:params", "-"
		}
		out, before, after, p, readable := runUpdate(b)
		if !readable {
			return out, "-"
		}
		return out, oracle(b, before, after, p)
	}
	return "err:badop", "-"
}

func main() {
	setup()
	kit.Main(&kit.Harness{Gen: gen, Exec: exec, Reset: reset})
}

// ---------------------------------------------------------------- generators

const (
	maxI64 = int64(^uint64(0) >> 1)
	minI64 = -maxI64 - 1
)

type emitter struct {
	o    *kit.Out
	name string
	n    int
	per  int
}

func (e *emitter) op(format string, a ...any) {
	if e.n%e.per == 0 {
		e.o.Case(fmt.Sprintf("%s-%d", e.name, e.n/e.per))
	}
	e.n++
	e.o.Op(format, a...)
}

func uniq(xs []int64) []int64 {
	seen := map[int64]bool{}
	var out []int64
	for _, x := range xs {
		if !seen[x] {
			seen[x] = true
			out = append(out, x)
		}
	}
	return out
}

// clampAdd returns a+d saturated to int64.
func clampAdd(a, d int64) int64 {
	s := new(big.Int).Add(big.NewInt(a), big.NewInt(d))
	if !s.IsInt64() {
		if s.Sign() > 0 {
			return maxI64
		}
		return minI64
	}
	return s.Int64()
}

// target as the generator understands it (only used to aim gas-used values at
// the interesting neighbourhood; the oracle computes its own).
func genTarget(maxGas, ratio int64) int64 {
	t := new(big.Int).Mul(big.NewInt(maxGas), big.NewInt(ratio))
	t.Quo(t, big.NewInt(100))
	if !t.IsInt64() {
		return maxI64
	}
	return t.Int64()
}

func usedAround(maxGas, ratio int64) []int64 {
	t := genTarget(maxGas, ratio)
	return uniq([]int64{0, 1, clampAdd(t, -1), t, clampAdd(t, 1), clampAdd(t, t), clampAdd(t/2, 0), maxGas, clampAdd(maxGas, 1), maxI64})
}

func gen(o *kit.Out, r *kit.Rand, tier string) {
	thorough := tier == "thorough"

	// (i-a) int64 boundary lattice for last / used / maxGas
	ratios := []int64{0, 1, 50, 70, 100}
	lat := []int64{minI64, -1, 0, 1, 2, 100, 1<<31 - 1, 3000000000, 1 << 62, maxI64/100 + 1, maxI64/2 + 1, maxI64 - 1, maxI64}
	lr := r.Fork()
	extra := 2
	if thorough {
		lat = append(lat, minI64+1, -3, 3, 10, 99, 101, 1<<32, 1<<53, 1<<62-1, maxI64/100, maxI64/2, maxI64-2)
		extra = 4
	}
	for i := 0; i < extra; i++ { // seed-dependent points next to the boundaries
		switch lr.Intn(3) {
		case 0:
			lat = append(lat, maxI64-int64(lr.Intn(1000000)))
		case 1:
			lat = append(lat, (int64(1)<<uint(lr.Range(3, 62)))+int64(lr.Range(-2, 2)))
		default:
			lat = append(lat, maxI64/int64(lr.Range(2, 200))+int64(lr.Range(-1, 1)))
		}
	}
	lat = uniq(lat)
	// quick: ratios 0/70/100 (1 and 50 are covered by the overflow-edge and small tables);
	// thorough: the derived seeds run the same fixed lattice, so each takes 70 plus two seed-chosen ratios
	latRatios := []int64{0, 70, 100}
	if thorough {
		latRatios = uniq([]int64{70, kit.Pick(lr, ratios), int64(lr.Range(1, 100))})
	}
	e := &emitter{o: o, name: "lattice", per: 64}
	for _, last := range lat {
		for _, maxGas := range lat {
			for _, used := range lat {
				for _, ratio := range latRatios {
					for _, c := range []int64{1, 10} {
						for _, init := range []int64{0, 1, maxI64} {
							if !thorough && c == 10 && init != 1 {
								continue
							}
							e.op("upd %d %d %d %d %d %d", last, used, maxGas, ratio, c, init)
						}
					}
				}
			}
		}
	}
	// (i-b) near-overflow rows: last close to MaxInt64, usage a little / far above target
	e = &emitter{o: o, name: "overflow-edge", per: 64}
	for _, maxGas := range []int64{2, 100, 1000, 3000000000, maxI64} {
		for _, ratio := range []int64{1, 50, 70, 100} {
			t := genTarget(maxGas, ratio)
			for _, c := range []int64{1, 2, 10, 12, maxI64} {
				for _, dl := range []int64{0, 1, 2, 3, 10, 1000} {
					for _, used := range uniq([]int64{clampAdd(t, 1), clampAdd(t, 2), clampAdd(t, t), maxGas, maxI64}) {
						e.op("upd %d %d %d %d %d %d", maxI64-dl, used, maxGas, ratio, c, 1)
						e.op("upd %d %d %d %d %d %d", maxI64/2-dl+1, used, maxGas, ratio, c, 1)
					}
				}
			}
		}
	}
	// (i-c) small values where the integer rounding bites
	e = &emitter{o: o, name: "small", per: 64}
	prices := []int64{1, 2, 3, 4, 5, 6, 7, 8, 9, 10, 11, 12, 13, 14, 15, 16, 17, 18, 19, 20}
	comps := []int64{1, 2, 3, 4, 5, 6, 7, 8, 9, 10, 11, 12}
	if !thorough {
		prices = []int64{1, 2, 3, 5, 9, 10, 11, 12, 19, 20}
		comps = []int64{1, 2, 3, 7, 10, 11, 12}
	}
	for _, maxGas := range []int64{-1, 0, 1, 2, 100, 143, maxI64} {
		for _, ratio := range ratios {
			ps, cs := prices, comps
			if genTarget(maxGas, ratio) <= 0 { // no positive target: one early return covers all of these
				ps, cs = []int64{1, 10}, []int64{1, 10}
			}
			for _, used := range usedAround(maxGas, ratio) {
				for _, last := range ps {
					for _, c := range cs {
						for _, init := range uniq([]int64{0, 1, 5, last, last + 1}) {
							if !thorough && init == 5 && c%2 == 0 {
								continue
							}
							e.op("upd %d %d %d %d %d %d", last, used, maxGas, ratio, c, init)
						}
					}
				}
			}
		}
	}
	// (i-d) struct-level quirks: unset price, other gas units / denoms, the whole InitialGasPrice being returned
	e = &emitter{o: o, name: "struct", per: 32}
	gps := []string{"-", "0", "5", "5:7:atom", "5:0:atom", "1:0:abc", "-3", "-3:2:foo", "0:9:atom", "0:0:atom", "100:1000:ugnot", "5:0:", "5:1:x"}
	inits := []string{"-", "0", "9", "9:2:foo", "0:0:xyz", "5:7:atom", "6:0:atom", "0:3:abc"}
	for _, l := range gps {
		for _, in := range inits {
			for _, used := range []int64{0, 69, 70, 71, 100} {
				e.op("upd %s %d 100 70 10 %s", l, used, in)
			}
		}
	}

	// (ii) structured random, mostly valid
	rr := r.Fork()
	mag := func(rr *kit.Rand, maxBits int) int64 { // magnitude-stratified non-negative value
		bits := rr.Intn(maxBits + 1)
		if bits == 0 {
			return 0
		}
		v := int64(rr.U64() >> 1)
		if bits < 63 {
			v &= (int64(1) << uint(bits)) - 1
		}
		return v
	}
	n := 20000
	if thorough {
		n = 150000
	}
	e = &emitter{o: o, name: "random", per: 64}
	for i := 0; i < n; i++ {
		var maxGas int64
		switch rr.Intn(10) {
		case 0:
			maxGas = kit.Pick(rr, []int64{-1, 0, 1, 2, maxI64})
		case 1:
			maxGas = mag(rr, 63)
		default:
			maxGas = int64(rr.Range(1, 3000)) * 1000000 / int64(rr.Range(1, 1000))
		}
		ratio := kit.Pick(rr, []int64{0, 1, 30, 50, 70, 70, 70, 99, 100, int64(rr.Intn(101))})
		t := genTarget(maxGas, ratio)
		var used int64
		switch rr.Intn(8) {
		case 0:
			used = 0
		case 1:
			used = t
		case 2:
			used = clampAdd(t, int64(rr.Range(-3, 3)))
		case 3:
			used = mag(rr, 63)
		default:
			if maxGas > 0 {
				used = int64(rr.U64() % uint64(maxGas))
				if rr.Chance(10) {
					used = clampAdd(maxGas, int64(rr.Intn(1000)))
				}
			}
		}
		if used < 0 {
			used = 0
		}
		last := mag(rr, 40)
		if rr.Chance(8) {
			last = maxI64 - mag(rr, 40)
		}
		if rr.Chance(3) {
			last = -mag(rr, 20)
		}
		c := kit.Pick(rr, []int64{1, 2, 3, 5, 10, 10, 10, 12, 100, int64(rr.Range(1, 1000))})
		init := kit.Pick(rr, []int64{0, 1, 1, 10, 1000, last, clampAdd(last, -1), clampAdd(last, 1), mag(rr, 40)})
		if init < 0 {
			init = 0
		}
		e.op("upd %d %d %d %d %d %d", last, used, maxGas, ratio, c, init)
	}
	// (ii-b) block histories on one store: the price trajectory over consecutive blocks
	nh := 150
	if thorough {
		nh = 1500
	}
	hr := r.Fork()
	for h := 0; h < nh; h++ {
		o.Case(fmt.Sprintf("history-%d", h))
		maxGas := kit.Pick(hr, []int64{100, 1000, 10000000, 3000000000})
		ratio := kit.Pick(hr, []int64{50, 70, 70, 100})
		c := kit.Pick(hr, []int64{1, 2, 10, 10, 12})
		init := kit.Pick(hr, []int64{0, 1, 10, 1000})
		start := init
		if hr.Chance(30) {
			start = init + int64(hr.Intn(50))
		}
		if hr.Chance(10) {
			start = maxI64 - int64(hr.Intn(1000))
		}
		o.Op("set %d", start)
		mode := hr.Intn(4) // 0 idle decay, 1 congested, 2 mixed, 3 mixed with a params change
		steps := hr.Range(5, 40)
		for s := 0; s < steps; s++ {
			t := genTarget(maxGas, ratio)
			var used int64
			switch {
			case mode == 0:
				used = int64(hr.Intn(3)) * t / 4
			case mode == 1:
				used = clampAdd(t, int64(hr.Intn(int(maxGas-t)+1)))
			default:
				used = int64(hr.U64() % uint64(maxGas+1))
				if hr.Chance(10) {
					used = t
				}
			}
			if mode == 3 && hr.Chance(15) {
				init = kit.Pick(hr, []int64{0, 1, 10, 1000, 5000})
				ratio = kit.Pick(hr, []int64{0, 50, 70, 100})
			}
			if hr.Chance(2) {
				used = -1 // a negative meter reading: the keeper ignores the block
			}
			o.Op("blk %d %d %d %d %d", used, maxGas, ratio, c, init)
		}
	}

	// (iii-a) invalid params: Validate must reject them (`upd`/`blk` → err:params); `updraw` shows what the
	// unguarded function would do (compared with the model, no oracle verdict)
	e = &emitter{o: o, name: "invalid-params", per: 64}
	type bad struct {
		ratio, c int64
		init     string
	}
	bads := []bad{{70, 0, "1"}, {70, -1, "1"}, {70, -10, "1"}, {70, minI64, "1"}, {-1, 10, "1"}, {101, 10, "1"}, {maxI64, 10, "1"}, {minI64, 10, "1"},
		{70, 10, "-1"}, {70, 10, minI64S}, {70, 10, "1:-1:ugnot"}, {0, 0, "1"}, {-70, -10, "-5"}, {200, 3, "4"}, {70, 0, "7"}}
	for _, b := range bads {
		for _, last := range []int64{-5, 0, 1, 5, 10, 1000, maxI64} {
			for _, maxGas := range []int64{-1, 0, 1, 100, 1000, maxI64} {
				for _, used := range []int64{0, 1, 69, 70, 71, 700, 1000, maxI64} {
					e.op("upd %d %d %d %d %d %s", last, used, maxGas, b.ratio, b.c, b.init)
					e.op("updraw %d %d %d %d %d %s", last, used, maxGas, b.ratio, b.c, b.init)
				}
			}
		}
	}
	o.Case("invalid-params-blk")
	o.Op("set 10")
	o.Op("blk 0 1000 70 0 1")
	o.Op("blk 0 1000 101 10 1")
	o.Op("blk 0 1000 70 10 -1")
	o.Op("blk 0 1000 70 10 1")

	// (iii-b) malformed lines
	mr := r.Fork()
	o.Case("malformed")
	junk := []string{"", "x", "+5", "007", "-0", "1e3", "9223372036854775808", "-9223372036854775809", "1:2", "1:2:3:4", "a:1:ugnot", "1:b:ugnot", "0x10", "१", "1_000"}
	fixed := []string{"upd", "upd 1 2 3", "upd 1 2 3 4 5 6 7", "blk 1 2 3 4", "set", "set 1 2", "get", "UPD 1 2 3 4 5 6", "upd 1 2 3 70 10", "nop 1 2 3 70 10 1"}
	for _, f := range fixed {
		o.Op("%s", f)
	}
	nm := 300
	if thorough {
		nm = 3000
	}
	for i := 0; i < nm; i++ {
		toks := []string{kit.Pick(mr, []string{"upd", "updraw"}), "10", "900", "1000", "70", "10", "1"}
		k := 1 + mr.Intn(6)
		toks[k] = kit.Pick(mr, junk)
		if toks[k] == "" {
			toks = append(toks[:k], toks[k+1:]...)
		}
		o.Op("%s", strings.Join(toks, " "))
		if mr.Chance(20) {
			o.Op("set %s", kit.Pick(mr, junk))
			o.Op("blk %s 1000 70 10 1", kit.Pick(mr, junk))
		}
	}
}

var minI64S = fmt.Sprint(minI64)
