package main

import (
	"bytes"
	"encoding/binary"
	"fmt"
	"strconv"
	"strings"
	"time"

	"github.com/gnolang/gno/tm2/pkg/amino"
	"github.com/gnolang/gno/tm2/pkg/bft/wal"
	"gnoverif/kit"
)

// ---------------------------------------------------------------- payload construction (real amino)

func payloadOf(sec int64, nsec int, withMsg bool, data []byte) []byte {
	twm := wal.TimedWALMessage{Time: time.Unix(sec, int64(nsec)).UTC()}
	if withMsg {
		twm.Msg = Msg{Data: data}
	}
	return amino.MustMarshalSized(twm)
}

func randPayload(r *kit.Rand, maxData int) []byte {
	sec := int64(1_600_000_000 + r.Intn(200_000_000))
	nsec := r.Intn(1_000_000_000)
	switch r.Intn(12) {
	case 0:
		return payloadOf(0, 0, false, nil) // smallest possible payload
	case 1:
		return payloadOf(sec, 0, false, nil)
	case 2:
		return payloadOf(0, 0, true, nil)
	}
	n := r.Intn(maxData + 1)
	if r.Chance(30) {
		n = r.Intn(12)
	}
	return payloadOf(sec, nsec, true, r.Bytes(n))
}

// payloadLen returns a payload of exactly L bytes (L ≥ 40), by sizing Data.
func payloadLen(r *kit.Rand, L int) []byte {
	for n := L; n >= 0; n-- {
		p := payloadOf(1_700_000_000, 5, true, r.Bytes(n))
		if len(p) == L {
			return p
		}
		if len(p) < L {
			break
		}
	}
	// vary the nanos width to close a one-byte gap
	for n := L; n >= 0; n-- {
		p := payloadOf(1_700_000_000, 500_000_000, true, r.Bytes(n))
		if len(p) == L {
			return p
		}
	}
	panic("payloadLen: cannot hit length " + strconv.Itoa(L))
}

// hx is kit.Hex for a byte string that is never "nil" (an empty log prints as `e`).
func hx(b []byte) string { return kit.Hex(append([]byte{}, b...)) }

func mItem(p []byte) string { return "m:" + hx(p) }
func hItem(h int64) string  { return "h:" + strconv.FormatInt(h, 10) }

func itemsStr(its []string) string { return strings.Join(its, " ") }

// realLog writes items with the real writer (for explicit `read <hex>` lines).
func realLog(its []string, max int64) []byte {
	items, ok := parseItems(its)
	if !ok {
		panic("realLog: bad items")
	}
	log, _, _, ok := writeBuf(items, max)
	if !ok {
		panic("realLog: bad payload")
	}
	return log
}

func lineEnds(log []byte) []int {
	var out []int
	for i, b := range log {
		if b == '\n' {
			out = append(out, i+1)
		}
	}
	return out
}

var specialBytes = []int{'\n', '\r', '#', '=', 'A', '/', '+', '0', '9', 'z', ' ', '"', '{', '}', ':', '\\', 0x00, 0x7f, 0x80, 0xff, '-', '_', '\t', ','}

// ---------------------------------------------------------------- library ops

func genLib(o *kit.Out, r *kit.Rand, thorough bool) {
	o.Case("lib")
	o.Op("crc e")
	o.Op("crc 313233343536373839")
	for b := 0; b < 256; b++ {
		o.Op("crc %02x", b)
	}
	n := 60
	if thorough {
		n = 600
	}
	for i := 0; i < n; i++ {
		o.Op("crc %s", hx(r.Bytes(r.Intn(70))))
	}
	o.Op("crc %s", hx(r.Bytes(1000+r.Intn(3000))))
	o.Op("crc %s", hx(make([]byte, 64)))
	o.Op("crc %s", hx(bytes.Repeat([]byte{0xff}, 64)))

	for l := 0; l <= 12; l++ {
		o.Op("b64 %s", hx(make([]byte, l)))
		o.Op("b64 %s", hx(bytes.Repeat([]byte{0xff}, l)))
		o.Op("b64 %s", hx(r.Bytes(l)))
	}
	for i := 0; i < n; i++ {
		o.Op("b64 %s", hx(r.Bytes(r.Intn(100))))
	}
	// decoding: valid, then systematically damaged
	o.Op("unb64 e")
	for i := 0; i < n; i++ {
		s := []byte(b64np.EncodeToString(r.Bytes(r.Intn(40))))
		o.Op("unb64 %s", hx(s))
		if len(s) == 0 {
			continue
		}
		p := r.Intn(len(s))
		for _, v := range []int{'\r', '\n', '=', '-', '_', ' ', 0, 0xff, '#', 'A'} {
			t := append([]byte{}, s...)
			t[p] = byte(v)
			o.Op("unb64 %s", hx(t))
		}
		ins := append(append(append([]byte{}, s[:p]...), '\r'), s[p:]...)
		o.Op("unb64 %s", hx(ins))
		ins2 := append(append(append([]byte{}, s[:p]...), '\n', '\r', '\n'), s[p:]...)
		o.Op("unb64 %s", hx(ins2))
		o.Op("unb64 %s", hx(s[:len(s)-1]))
		o.Op("unb64 %s", hx(append(s, '=')))
		o.Op("unb64 %s", hx(append(s, '\r')))
	}
	// trailing bits: every last character for 2- and 3-character tails
	for _, pre := range []string{"", "QUJD"} {
		for _, c := range []byte(refAlpha) {
			o.Op("unb64 %s", hx([]byte(pre+"Q"+string(c))))
			o.Op("unb64 %s", hx([]byte(pre+"QU"+string(c))))
		}
		o.Op("unb64 %s", hx([]byte(pre+"Q")))
	}
	for v := 0; v < 256; v++ { // every byte value as a lone third character
		o.Op("unb64 %s", hx([]byte{'Q', 'U', byte(v), 'D'}))
	}
}

// ---------------------------------------------------------------- boundary table

var metaVariants = []string{
	"#null", "#", "# ", "#{}", "#{\"h\":\"5\"}xyz", "# {\"h\" : \"5\" }", "#{\"h\":5}", "#{\"h\":\" 5 \"}",
	"#{\"h\":\"null\"}", "#{\"h\":null}", "#{\"\\u0068\":\"7\"}", "#{\"h\":\"7\",\"h\":\"8\"}", "#{\"h\":\"7\",\"x\":\"8\"}",
	"#{\"h\":\"-0\"}", "#{\"h\":\"1e2\"}", "#{\"h\":\"9223372036854775808\"}", "#{\"h\":\"9223372036854775807\"}",
	"#{\"h\":\"07\"}", "#{\"h\":\"7\"", "#{\"h\":\"7\"} }", "# null", "#{\"h\":\"7\\u0020\"}", "#{\"h\":\"\"}", "#{\"H\":\"7\"}",
	"#{\"h\":\"7\",}", "#{\"h\"\r:\"7\"}", "#{\"h\":\"\t7\"}", "#{\"h\":\"7\"]", "#[\"h\"]", "#{\"h\":\"7\"}{", "#{\"h\":\"+7\"}",
	"#{\"h\":\"7.0\"}", "#{\"h\":\"-\"}", "#{\"h\":\"true\"}", "#{\"h\":\"[1]\"}", "#{\"h\":\"7\" \"x\"}", "#{\"h\":\"7\"\x00}",
	"#{\"h\":\"7\xff\"}", "#{\"h\xff\":\"7\"}", "#{,}", "#{\"h\":\"7\"},", "#{\"h\":{\"a\":[1,2,{}]}}",
	"#{\"h\":\"-9223372036854775808\"}", "#{\"h\":\"-9223372036854775809\"}", "#{\"h\":\"0\"}", "#{\"h\":\"00\"}", "#{\"h\":\"-07\"}",
	"#{", "#{ ", "#{\"h\"", "#{\"h\" ", "#{\"h\":", "#{\"h\": ", "#{\"h\":\"7\",", "#{\"h\":\"7\", ", "#{\"h\":\"7", "#{\"h", "#{\"x\":1", "#{\"x\":1 ",
	"#{\"x\":1,", "#{\"x\":1,\"x\"", "#{\"x\":1,\"y\"", "#{\"x\":tru", "#{\"x\":true", "#{\"x\":[1,2", "#{\"x\":[1,2]", "#{\"x\":{\"a\":{}}", "#{\"x\":\"a\\\"b\"",
	"#{\"x\":-", "#{\"x\":1.", "#{\"x\":1.5e", "#{\"x\":1.5e+3", "#{\"x\":0x1}", "#{\"x\":.5}", "#{\"x\":\"\\q\"}", "#{\"x\":\"\\u12g4\"}", "#{\"x\":\"\\u1234\"",
	"#}", "#]", "#[", "#\"h\"", "#12", "#true", "#nul", "#nulll", "#\r{\"h\":\"3\"}", "#\t{\"h\":\"3\"}\t", "#{\"h\":\"3\"}\r",
	"#{\"h\":\"3\" ,\"h\":\"4\"}", "#{\"h\":\"-1\"}", "#{\"h\":\" -1\"}", "#{\"h\":\"1 2\"}", "#{\"h\":\"1\",\"\":\"\"}", "#{\"\":\"1\"}",
	"#{\"h\":\"12\"} #{\"h\":\"13\"}", "#{\"h\":true}", "#{\"h\":[]}", "#{\"h\":\"\\\"5\\\"\"}", "#{\"h\":\"5\\\"\"}", "#{\"h\":\"nul\"}", "#{\"h\":\"null \"}",
	"#{\"h\":\"1E2\"}", "#{\"h\":\"0.0\"}", "#{\"h\":\"1e\"}", "#{\"h\":\"--1\"}", "#{\"\\u0068\\u0000\":\"1\"}", "#{\"\\U0068\":\"1\"}", "#{\"h\\\\\":\"1\"}",
}

func genBoundary(o *kit.Out, r *kit.Rand, thorough bool) {
	o.Case("boundary-read")
	o.Op("read 1000 e")
	o.Op("read 1000 0a")
	o.Op("read 1000 0a0a")
	o.Op("read 1000 41")
	o.Op("reads 1000 0a0a41")
	for _, mv := range metaVariants {
		o.Op("read 1000 %s", hx([]byte(mv+"\n")))
	}
	p5 := payloadOf(1_700_000_000, 123, true, []byte("hello"))
	line := realLog([]string{mItem(p5)}, 1000)
	// a meta variant between two good lines, skip mode
	for _, mv := range metaVariants {
		b := append(append(append([]byte{}, line...), []byte(mv+"\n")...), line...)
		o.Op("reads 1000 %s", hx(b))
	}

	o.Case("boundary-small-logs")
	p0 := payloadOf(0, 0, false, nil)
	logs := [][]string{
		{},
		{hItem(1)},
		{mItem(p0)},
		{mItem(p5)},
		{hItem(1), mItem(p5), hItem(2)},
		{mItem(p5), mItem(p0), hItem(-7)},
		{hItem(9223372036854775807), hItem(-9223372036854775808), hItem(0)},
		{mItem(payloadOf(1_700_000_000, 0, true, []byte("a"))), mItem(payloadOf(1_700_000_000, 0, true, []byte("ab"))), mItem(payloadOf(1_700_000_000, 0, true, []byte("abc")))},
	}
	for _, its := range logs {
		s := itemsStr(its)
		o.Op("write 1000 0 0 0 %s", s)
		o.Op("write 1000 0 0 1 %s", s)
		o.Op("write 1000 1 0 1 %s", s)
		o.Op("write 1000 60 0 0 %s", s)
		log := realLog(its, 1000)
		o.Op("read 1000 %s", hx(log))
		for k := 0; k <= len(log); k++ {
			o.Op("trunc 1000 %d %s", k, s)
		}
		for pos := 0; pos < len(log); pos++ {
			vals := append([]int{}, specialBytes...)
			vals = append(vals, int(log[pos])^1, int(log[pos])^0x20, int(log[pos])^0x80, r.Intn(256))
			if thorough {
				vals = vals[:0]
				for v := 0; v < 256; v++ {
					vals = append(vals, v)
				}
			}
			for _, v := range vals {
				if v != int(log[pos]) {
					o.Op("flip 1000 %d %d %s", pos, v, s)
				}
			}
		}
	}

	o.Case("boundary-positions")
	// every byte value at the positions that matter: first char (→ '#'), the
	// char straddling crc/payload (5), the last char (ignored trailing bits),
	// the newline, for payload lengths ≡ 0,1,2 (mod 3)
	for extra := 0; extra < 3; extra++ {
		p := payloadOf(1_700_000_000, 7, true, r.Bytes(3+extra))
		its := []string{hItem(3), mItem(p), hItem(4)}
		log := realLog(its, 1000)
		ends := lineEnds(log)
		first, last := ends[0], ends[1]-2
		for _, pos := range []int{first, first + 1, first + 4, first + 5, first + 6, first + 7, last - 1, last, last + 1} {
			for v := 0; v < 256; v++ {
				if v != int(log[pos]) {
					o.Op("flip 1000 %d %d %s", pos, v, itemsStr(its))
				}
			}
		}
	}

	o.Case("boundary-maxsize")
	for _, L := range []int{40, 41, 42, 64, 100} {
		p := payloadLen(r, L)
		for _, max := range []int{L - 1, L, L + 1, 1, 0, -1} {
			its := []string{hItem(1), mItem(p), mItem(p5), hItem(2)}
			o.Op("write %d 0 0 1 %s", max, itemsStr(its))
			o.Op("trunc %d 100000 %s", max, itemsStr(its))
			o.Op("read %d %s", max, hx(realLog(its, 0)))
			o.Op("reads %d %s", max, hx(realLog(its, 0)))
		}
	}
	if thorough {
		for _, L := range []int{1024, 2048, 65536} {
			p := payloadLen(r, L)
			for _, max := range []int{L - 1, L, L + 1} {
				its := []string{mItem(p), hItem(2)}
				o.Op("write %d 0 0 0 %s", max, itemsStr(its))
				o.Op("trunc %d 10000000 %s", max, itemsStr(its))
				o.Op("reads %d %s", max, hx(realLog(its, 0)))
			}
		}
	}
}

// ---------------------------------------------------------------- structured random logs

func randItems(r *kit.Rand, maxItems, maxData int) []string {
	n := r.Intn(maxItems + 1)
	var its []string
	h := int64(r.Intn(5))
	for i := 0; i < n; i++ {
		if r.Chance(30) {
			switch r.Intn(10) {
			case 0:
				h = r.I64()
			case 1:
				h -= int64(r.Intn(3))
			default:
				h += int64(1 + r.Intn(3))
			}
			its = append(its, hItem(h))
		} else {
			its = append(its, mItem(randPayload(r, maxData)))
		}
	}
	return its
}

func genRandomLogs(o *kit.Out, r *kit.Rand, thorough bool) {
	cases, maxData := 45, 200
	if thorough {
		cases = 200
	}
	for c := 0; c < cases; c++ {
		o.Case(fmt.Sprintf("log-%d", c))
		md := maxData
		if thorough && r.Chance(10) {
			md = 2048
		}
		its := randItems(r, 8, md)
		s := itemsStr(its)
		max := int64(1000)
		if md > 200 {
			max = 4000
		}
		if r.Chance(15) {
			max = int64(30 + r.Intn(200)) // some messages get refused
		}
		limit := kit.Pick(r, []int{0, 0, 1, 50, 200, 1000})
		total := kit.Pick(r, []int{0, 0, 0, 300, 1000})
		o.Op("write %d %d %d %d %s", max, limit, total, r.Intn(2), s)
		log := realLog(its, max)
		o.Op("read %d %s", max, hx(log))
		// truncation: every cut of a small log; line boundaries ±1 and samples otherwise
		if len(log) <= 260 || (thorough && len(log) <= 1200) {
			for k := 0; k <= len(log); k++ {
				o.Op("trunc %d %d %s", max, k, s)
			}
		} else {
			cuts := map[int]bool{0: true, len(log): true}
			for _, e := range lineEnds(log) {
				cuts[e-1], cuts[e], cuts[min(e+1, len(log))] = true, true, true
			}
			for i := 0; i < 16; i++ {
				cuts[r.Intn(len(log)+1)] = true
			}
			for k := 0; k <= len(log); k++ {
				if cuts[k] {
					o.Op("trunc %d %d %s", max, k, s)
				}
			}
		}
		if len(log) == 0 {
			continue
		}
		// single-byte corruption
		if thorough && len(log) <= 700 {
			for pos := 0; pos < len(log); pos++ {
				for i := 0; i < 4; i++ {
					v := r.Intn(256)
					if i == 0 {
						v = kit.Pick(r, specialBytes)
					}
					if v != int(log[pos]) {
						o.Op("flip %d %d %d %s", max, pos, v, s)
					}
				}
			}
		} else {
			for i := 0; i < 40; i++ {
				pos := r.Intn(len(log))
				if i%8 == 0 { // line starts and ends
					es := lineEnds(log)
					e := kit.Pick(r, es)
					pos = kit.Pick(r, []int{e - 1, e - 2, e % len(log), (e + 5) % len(log)})
					if pos < 0 {
						pos = 0
					}
				}
				for _, v := range []int{r.Intn(256), r.Intn(256), kit.Pick(r, specialBytes), int(refAlpha[r.Intn(64)]), int(log[pos]) ^ (1 << r.Intn(8))} {
					if v != int(log[pos]) {
						o.Op("flip %d %d %d %s", max, pos, v, s)
					}
				}
			}
		}
	}
}

// ---------------------------------------------------------------- search over rotation layouts

func genSearch(o *kit.Out, r *kit.Rand, thorough bool) {
	pm := payloadOf(0, 0, false, nil)
	pm2 := payloadOf(1_700_000_000, 1, true, []byte("x"))
	depth := 4
	if thorough {
		depth = 7
	}
	// exhaustive small layouts: every sequence over {message, next marker, rotate}
	var seqs [][]byte
	var rec func(cur []byte)
	rec = func(cur []byte) {
		seqs = append(seqs, append([]byte{}, cur...))
		if len(cur) == depth {
			return
		}
		for _, c := range []byte("mhr") {
			rec(append(cur, c))
		}
	}
	rec(nil)
	o.Case("search-exhaustive")
	for _, sq := range seqs {
		var its []string
		h := int64(0)
		var hs []int64
		for _, c := range sq {
			switch c {
			case 'm':
				its = append(its, mItem(pm))
			case 'h':
				h += 2
				hs = append(hs, h)
				its = append(its, hItem(h))
			case 'r':
				its = append(its, "r")
			}
		}
		targets := append([]int64{}, hs...)
		targets = append(targets, 1, h+1)
		if len(hs) >= 2 {
			targets = append(targets, 3)
		}
		for _, start := range []int{0, 1} {
			if start == 1 && !thorough && len(sq) > 3 {
				continue
			}
			for _, mode := range []int{0, 2} {
				for _, t := range targets {
					o.Op("search 1000 0 0 %d %d 0 %d %s", start, mode, t, itemsStr(its))
				}
			}
			if start == 1 {
				o.Op("search 1000 0 0 1 0 0 0 %s", itemsStr(its)) // the start marker itself
			}
		}
	}
	// random larger layouts: automatic rotation by head size, pruning by total size, explicit rotations
	n := 120
	if thorough {
		n = 1500
	}
	o.Case("search-random")
	for i := 0; i < n; i++ {
		var its []string
		cnt := r.Intn(40)
		h := int64(r.Intn(3))
		var hs []int64
		raw := false
		for j := 0; j < cnt; j++ {
			switch x := r.Intn(20); {
			case x < 9:
				its = append(its, mItem(kit.Pick(r, [][]byte{pm, pm2, randPayload(r, 40)})))
			case x < 15:
				if r.Chance(4) {
					h -= int64(r.Intn(3)) // occasionally unsorted (no oracle verdict)
				} else {
					h += int64(1 + r.Intn(3))
				}
				hs = append(hs, h)
				its = append(its, hItem(h))
			case x < 19:
				its = append(its, "r")
			default:
				if r.Chance(50) {
					raw = true
					its = append(its, "x:"+hx(kit.Pick(r, [][]byte{[]byte("\n"), []byte("AAAA\n"), []byte("#{\"h\":\"x\"}\n"), []byte("torn"), []byte("#{\"h\":\"1\"\n"), []byte("!!\n")})))
				}
			}
		}
		limit := kit.Pick(r, []int{0, 0, 1, 30, 100, 400})
		total := kit.Pick(r, []int{0, 0, 0, 100, 400, 2000})
		start := r.Intn(2)
		var t int64
		switch {
		case len(hs) > 0 && r.Chance(75):
			t = kit.Pick(r, hs)
		default:
			t = h + int64(r.Intn(4)) - 1
		}
		ign := 0
		if raw && r.Bool() {
			ign = 1
		}
		o.Op("search 1000 %d %d %d %d %d %d %s", limit, total, start, r.Intn(3), ign, t, itemsStr(its))
		if r.Chance(30) {
			o.Op("write 1000 %d %d %d %s", limit, total, start, itemsStr(its))
		}
	}
}

// ---------------------------------------------------------------- malformed stream

func crcLine(p []byte) []byte {
	raw := make([]byte, 4, 4+len(p))
	binary.BigEndian.PutUint32(raw, refCRC(p))
	raw = append(raw, p...)
	return append([]byte(b64np.EncodeToString(raw)), '\n')
}

func genMalformed(o *kit.Out, r *kit.Rand, thorough bool) {
	o.Case("malformed")
	n := 400
	if thorough {
		n = 4000
	}
	good := realLog([]string{mItem(payloadOf(1_700_000_000, 9, true, []byte("ok")))}, 1000)
	for i := 0; i < n; i++ {
		var b []byte
		switch r.Intn(8) {
		case 0: // random bytes with newlines sprinkled in
			b = r.Bytes(r.Intn(80))
			for j := range b {
				if r.Chance(8) {
					b[j] = '\n'
				}
			}
		case 1: // base64 text of random bytes (bad CRC)
			b = append([]byte(b64np.EncodeToString(r.Bytes(r.Intn(40)))), '\n')
		case 2: // valid CRC, bad amino length prefix
			body := r.Bytes(1 + r.Intn(20))
			pre := kit.Pick(r, [][]byte{{byte(len(body) + 1)}, {byte(len(body) - 1)}, {0x80}, {0x80 | byte(len(body)), 0x00, 0x01}, {0xff, 0xff, 0xff, 0xff, 0xff, 0xff, 0xff, 0xff, 0xff, 0x7f}, {0xff, 0xff, 0xff, 0xff, 0xff, 0xff, 0xff, 0xff, 0xff, 0xff, 0x01}, {0xff}})
			b = crcLine(append(append([]byte{}, pre...), body...))
		case 3: // valid CRC over nothing / short decodes
			b = kit.Pick(r, [][]byte{crcLine(nil), []byte("AAAA\n"), []byte("AAAAA\n"), []byte("AAAAAA\n"), []byte("AA\n"), []byte("A\n"), []byte("\r\n"), []byte("\r\r\n")})
		case 4: // a meta line with one edit
			m := []byte(`#{"h":"` + strconv.Itoa(r.Intn(2000)-50) + `"}`)
			p := r.Intn(len(m))
			switch r.Intn(3) {
			case 0:
				m[p] = byte(kit.Pick(r, specialBytes))
			case 1:
				m = append(m[:p], m[p+1:]...)
			default:
				m = append(append(append([]byte{}, m[:p]...), byte(kit.Pick(r, specialBytes))), m[p:]...)
			}
			b = append(m, '\n')
		case 5: // a meta line with a random byte
			m := []byte(`#{"h":"` + strconv.Itoa(r.Intn(2000)) + `"}`)
			m[r.Intn(len(m))] = byte(r.Intn(256))
			b = append(m, '\n')
		case 6: // good line with CRs inserted (base64 decoder skips them)
			g := append([]byte{}, good[:len(good)-1]...)
			p := r.Intn(len(g) + 1)
			g = append(append(append([]byte{}, g[:p]...), '\r'), g[p:]...)
			b = append(g, '\n')
		default: // a real payload read with a tiny limit
			b = realLog([]string{mItem(randPayload(r, 30))}, 0)
		}
		pre, post := []byte{}, []byte{}
		if r.Bool() {
			pre = good
		}
		if r.Bool() {
			post = good
		}
		all := append(append(append([]byte{}, pre...), b...), post...)
		max := kit.Pick(r, []int{1000, 1000, 1000, 20, 0})
		o.Op("%s %d %s", kit.Pick(r, []string{"read", "reads"}), max, hx(all))
	}
	o.Op("bogus")
	o.Op("read x y")
	o.Op("trunc 1000 3 q:00")
}

// ---------------------------------------------------------------- entry

func gen(o *kit.Out, r *kit.Rand, tier string) {
	thorough := tier == "thorough"
	genLib(o, r.Fork(), thorough)
	genBoundary(o, r.Fork(), thorough)
	genRandomLogs(o, r.Fork(), thorough)
	genSearch(o, r.Fork(), thorough)
	genMalformed(o, r.Fork(), thorough)
}
