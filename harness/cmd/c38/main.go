// Harness for C38: the consensus write-ahead log (tm2/pkg/bft/wal over
// tm2/pkg/autofile) preserves what was written.
//
// REAL code exercised in-process: wal.NewWAL / baseWAL.{Start,WriteMetaSync,
// FlushAndSync,SearchForHeight,Stop}, wal.NewWALWriter(...).{Write,WriteMeta},
// wal.NewWALReader(...).ReadMessage, autofile.Group (rotation, total-size
// pruning, GroupReader), plus hash/crc32 (Castagnoli) and encoding/base64
// (StdEncoding, NoPadding) for the two library ops.
//
// Payloads are opaque on the Lean side: a message item `m:<hex>` carries the
// amino "sized" encoding of a wal.TimedWALMessage, produced by THIS binary's
// generator with the real amino codec.  Exec decodes it back with
// amino.UnmarshalSized and hands the value to the real WALWriter, which
// re-marshals it; an item that does not re-marshal to the same bytes answers
// err:badpayload (the generator never emits one).
//
// op lines (items: m:<payload-hex> | h:<int64> | x:<raw-hex> | r):
//
//	crc <hex>                                   -> %08x of crc32c
//	b64 <hex>                                   -> base64 (std, no padding) text
//	unb64 <hex-of-text>                         -> decoded hex | err:b64
//	read  <max> <hex>                           -> items… <end>      (stops at the first error)
//	reads <max> <hex>                           -> events… <end>     (skips DataCorruptionError lines, `c`)
//	trunc <max> <k> items…                      -> read of the first k bytes of the written log
//	flip  <max> <pos> <byte> items…             -> reads of the written log with byte pos replaced
//	write <max> <limit> <total> <start> items…  -> file layout after writing through a real WAL/group
//	search <max> <limit> <total> <start> <mode> <ign> <h> items…
//	                                            -> found <rest-hex> | notfound | err:<class> | panic:should-not-happen
//
// <end> ∈ eof | corrupt | metaerr;   m:<hex> accepted payload, h:<n> height marker.
// Outputs longer than 280 characters are capped: first 200 chars + "~<len>~<fnv64>".
//
// Oracle (independent of the Lean model; evaluates the property statement):
//
//	write  – re-reading all files with the real reader returns exactly the items
//	         written, in order, then EOF; and the bytes on disk equal an
//	         independent re-encoding (own bitwise CRC-32C, own base64).
//	trunc  – the result is a prefix of the written items, the end is eof or corrupt.
//	flip   – a corrupted MESSAGE line (line structure unchanged) is reported as
//	         corruption, or the original message is returned unchanged; never a
//	         different message.  Lines before the flip are intact.
//	search – with strictly increasing markers and no raw items: marker present ⇒
//	         found, positioned right after the first such marker; absent ⇒ not found.
package main

import (
	"bytes"
	"encoding/base64"
	"errors"
	"fmt"
	"hash/crc32"
	"io"
	"os"
	"path/filepath"
	"strconv"
	"strings"

	"github.com/gnolang/gno/tm2/pkg/amino"
	auto "github.com/gnolang/gno/tm2/pkg/autofile"
	"github.com/gnolang/gno/tm2/pkg/bft/wal"
	"gnoverif/kit"
)

// Msg is the harness' WAL message type (the wal package registers none itself).
type Msg struct {
	Data []byte
}

func (Msg) AssertWALMessage() {}

var _ = amino.RegisterPackage(amino.NewPackage("main", "c38", amino.GetCallersDirname()).WithTypes(Msg{}))

var (
	crcTab = crc32.MakeTable(crc32.Castagnoli)
	b64np  = base64.StdEncoding.WithPadding(base64.NoPadding)
)

// ---------------------------------------------------------------- canonical text

func fnv64(s string) uint64 {
	h := uint64(0xcbf29ce484222325)
	for i := 0; i < len(s); i++ {
		h ^= uint64(s[i])
		h *= 0x100000001b3
	}
	return h
}

func capOut(s string) string {
	if len(s) <= 280 {
		return s
	}
	return fmt.Sprintf("%s~%d~%016x", s[:200], len(s), fnv64(s))
}

// ---------------------------------------------------------------- items

type item struct {
	kind byte // 'm' 'h' 'x' 'r'
	data []byte
	h    int64
}

func parseItems(toks []string) ([]item, bool) {
	var out []item
	for _, t := range toks {
		switch {
		case t == "r":
			out = append(out, item{kind: 'r'})
		case strings.HasPrefix(t, "m:"), strings.HasPrefix(t, "x:"):
			b, err := kit.UnHex(t[2:])
			if err != nil || b == nil {
				return nil, false
			}
			out = append(out, item{kind: t[0], data: b})
		case strings.HasPrefix(t, "h:"):
			n, err := strconv.ParseInt(t[2:], 10, 64)
			if err != nil {
				return nil, false
			}
			out = append(out, item{kind: 'h', h: n})
		default:
			return nil, false
		}
	}
	return out, true
}

func (it item) String() string {
	switch it.kind {
	case 'm':
		return "m:" + kit.Hex(it.data)
	case 'h':
		return "h:" + strconv.FormatInt(it.h, 10)
	case 'c':
		return "c"
	}
	return "?"
}

func showRead(evs []item, end string) string {
	var sb strings.Builder
	for _, e := range evs {
		sb.WriteString(e.String())
		sb.WriteByte(' ')
	}
	sb.WriteString(end)
	return sb.String()
}

func sameItem(a, b item) bool {
	return a.kind == b.kind && a.h == b.h && bytes.Equal(a.data, b.data)
}

// decodePayload turns payload bytes back into the value the real writer wants.
func decodePayload(p []byte) (wal.TimedWALMessage, bool) {
	var twm wal.TimedWALMessage
	if err := amino.UnmarshalSized(p, &twm); err != nil {
		return twm, false
	}
	if !bytes.Equal(amino.MustMarshalSized(twm), p) {
		return twm, false
	}
	return twm, true
}

// ---------------------------------------------------------------- real reader

// readLoop drives the real WALReader. skip=false: stop at the first error.
// skip=true: continue past DataCorruptionError lines (as SearchForHeight does
// with IgnoreDataCorruptionErrors), recording `c`.
func readLoop(rd io.Reader, max int64, skip bool) ([]item, string) {
	dec := wal.NewWALReader(rd, max)
	var evs []item
	for {
		msg, meta, err := dec.ReadMessage()
		if err != nil {
			switch {
			case errors.Is(err, io.EOF):
				return evs, "eof"
			case wal.IsDataCorruptionError(err):
				if skip {
					evs = append(evs, item{kind: 'c'})
					continue
				}
				return evs, "corrupt"
			default:
				return evs, "metaerr"
			}
		}
		if meta != nil {
			evs = append(evs, item{kind: 'h', h: meta.Height})
		} else {
			evs = append(evs, item{kind: 'm', data: amino.MustMarshalSized(*msg)})
		}
	}
}

// writeBuf writes m/h items with the real WALWriter into a buffer. It returns
// the log, the end offset of every written line, and the items actually
// written (a too-big message is refused by the writer and skipped).
func writeBuf(items []item, max int64) (log []byte, ends []int, written []item, ok bool) {
	var buf bytes.Buffer
	enc := wal.NewWALWriter(&buf, max)
	for _, it := range items {
		switch it.kind {
		case 'm':
			twm, good := decodePayload(it.data)
			if !good {
				return nil, nil, nil, false
			}
			if err := enc.Write(twm); err != nil {
				continue
			}
		case 'h':
			if err := enc.WriteMeta(wal.MetaMessage{Height: it.h}); err != nil {
				return nil, nil, nil, false
			}
		default:
			return nil, nil, nil, false
		}
		written = append(written, it)
		ends = append(ends, buf.Len())
	}
	return buf.Bytes(), ends, written, true
}

// ---------------------------------------------------------------- independent reference encoders (oracle side)

func refCRC(p []byte) uint32 {
	crc := ^uint32(0)
	for _, b := range p {
		crc ^= uint32(b)
		for k := 0; k < 8; k++ {
			if crc&1 == 1 {
				crc = crc>>1 ^ 0x82F63B78
			} else {
				crc >>= 1
			}
		}
	}
	return ^crc
}

const refAlpha = "ABCDEFGHIJKLMNOPQRSTUVWXYZabcdefghijklmnopqrstuvwxyz0123456789+/"

func refB64(p []byte) []byte {
	var out []byte
	var acc, nb uint
	for _, b := range p {
		acc = acc<<8 | uint(b)
		nb += 8
		for nb >= 6 {
			nb -= 6
			out = append(out, refAlpha[(acc>>nb)&63])
		}
	}
	if nb > 0 {
		out = append(out, refAlpha[(acc<<(6-nb))&63])
	}
	return out
}

func refLine(it item) []byte {
	switch it.kind {
	case 'm':
		c := refCRC(it.data)
		raw := append([]byte{byte(c >> 24), byte(c >> 16), byte(c >> 8), byte(c)}, it.data...)
		return append(refB64(raw), '\n')
	case 'h':
		return []byte(`#{"h":"` + strconv.FormatInt(it.h, 10) + `"}` + "\n")
	}
	return nil
}

// ---------------------------------------------------------------- ops on buffers

func opRead(t []string, skip bool) (string, string) {
	if len(t) != 3 {
		return "err:badop", "-"
	}
	max, err1 := strconv.ParseInt(t[1], 10, 64)
	b, err2 := kit.UnHex(t[2])
	if err1 != nil || err2 != nil {
		return "err:badop", "-"
	}
	evs, end := readLoop(bytes.NewReader(b), max, skip)
	return capOut(showRead(evs, end)), "-"
}

func opTrunc(t []string) (string, string) {
	if len(t) < 3 {
		return "err:badop", "-"
	}
	max, err1 := strconv.ParseInt(t[1], 10, 64)
	k, err2 := strconv.Atoi(t[2])
	items, ok := parseItems(t[3:])
	if err1 != nil || err2 != nil || !ok || k < 0 {
		return "err:badop", "-"
	}
	log, _, written, ok := writeBuf(items, max)
	if !ok {
		return "err:badpayload", "-"
	}
	if k > len(log) {
		k = len(log)
	}
	evs, end := readLoop(bytes.NewReader(log[:k]), max, false)
	// ---- oracle: prefix of what was written, then eof or corruption; whole log ⇒ everything
	oracle := "ok"
	if max > 0 { // with max ≤ 0 the writer enforces no limit but the reader rejects everything: outside the statement's domain
		if len(evs) > len(written) {
			oracle = fmt.Sprintf("VIOL:trunc-not-prefix read %d items, wrote %d", len(evs), len(written))
		} else {
			for i := range evs {
				if !sameItem(evs[i], written[i]) {
					oracle = fmt.Sprintf("VIOL:trunc-not-prefix item %d differs", i)
					break
				}
			}
		}
		if oracle == "ok" && end != "eof" && end != "corrupt" {
			oracle = "VIOL:trunc-bad-end " + end
		}
		if oracle == "ok" && k == len(log) && (len(evs) != len(written) || end != "eof") {
			oracle = fmt.Sprintf("VIOL:roundtrip read %d of %d items, end %s", len(evs), len(written), end)
		}
	} else {
		oracle = "-"
	}
	return capOut(showRead(evs, end)), oracle
}

func opFlip(t []string) (string, string) {
	if len(t) < 4 {
		return "err:badop", "-"
	}
	max, err1 := strconv.ParseInt(t[1], 10, 64)
	pos, err2 := strconv.Atoi(t[2])
	val, err3 := strconv.Atoi(t[3])
	items, ok := parseItems(t[4:])
	if err1 != nil || err2 != nil || err3 != nil || !ok || val < 0 || val > 255 {
		return "err:badop", "-"
	}
	log, ends, written, ok := writeBuf(items, max)
	if !ok {
		return "err:badpayload", "-"
	}
	if pos < 0 || pos >= len(log) {
		return "err:badop", "-"
	}
	mut := append([]byte{}, log...)
	old := mut[pos]
	mut[pos] = byte(val)
	evs, end := readLoop(bytes.NewReader(mut), max, true)
	out := capOut(showRead(evs, end))
	if max <= 0 || old == byte(val) {
		return out, "-"
	}
	// ---- oracle
	j := 0 // index of the line containing pos
	for j < len(ends) && ends[j] <= pos {
		j++
	}
	for i := 0; i < j; i++ { // lines before the flip are untouched
		if i >= len(evs) || !sameItem(evs[i], written[i]) {
			return out, fmt.Sprintf("VIOL:flip-earlier-line line %d changed by a flip in line %d", i, j)
		}
	}
	structural := old == '\n' || val == '\n'
	if structural {
		// line structure changed: every accepted message must still be one of the
		// original messages, in order (never an altered message).
		w := j
		for _, e := range evs[j:] {
			if e.kind != 'm' {
				continue
			}
			for w < len(written) && !(written[w].kind == 'm' && bytes.Equal(written[w].data, e.data)) {
				w++
			}
			if w == len(written) {
				return out, "VIOL:altered-message accepted " + e.String()[:min(40, len(e.String()))]
			}
			w++
		}
		return out, "ok"
	}
	if written[j].kind == 'm' {
		lineStart := 0
		if j > 0 {
			lineStart = ends[j-1]
		}
		if j >= len(evs) {
			cls := "msgline-not-corruption"
			if pos == lineStart && val == '#' && end == "metaerr" {
				cls = "msgline-hash-not-corruption" // first byte → '#': parsed as a marker line, plain error
			}
			return out, fmt.Sprintf("VIOL:%s corrupted message line %d reported as %s", cls, j, end)
		}
		e := evs[j]
		switch {
		case e.kind == 'c':
		case sameItem(e, written[j]): // unchanged accept of the ORIGINAL message (bits base64 ignores)
		case e.kind == 'm':
			return out, fmt.Sprintf("VIOL:altered-message line %d accepted as a different message", j)
		default:
			return out, fmt.Sprintf("VIOL:msgline-not-corruption corrupted message line %d read as %s", j, e.String())
		}
	} else {
		// a corrupted height-marker line: the statement makes no claim about how it
		// is reported, but it must not turn into an accepted message.
		if j < len(evs) && evs[j].kind == 'm' {
			return out, fmt.Sprintf("VIOL:altered-message marker line %d accepted as a message", j)
		}
		if j >= len(evs) {
			return out, "ok" // reading stopped at the marker line
		}
	}
	for i := j + 1; i < len(evs); i++ { // later lines are untouched
		if i >= len(written) || !sameItem(evs[i], written[i]) {
			return out, fmt.Sprintf("VIOL:flip-later-line line %d changed by a flip in line %d", i, j)
		}
	}
	return out, "ok"
}

// ---------------------------------------------------------------- ops on a real WAL over an autofile group

// Scratch directory of this process. The WAL fsyncs on every marker, so a
// memory-backed file system (/dev/shm) is preferred when there is one; the
// file contents and every result are the same either way.
var (
	baseDir = scratchDir()
	opSeq   int
)

func scratchDir() string {
	root := "/tmp"
	if st, err := os.Stat("/dev/shm"); err == nil && st.IsDir() {
		if f, err := os.CreateTemp("/dev/shm", "c38probe"); err == nil {
			f.Close()
			os.Remove(f.Name())
			root = "/dev/shm"
		}
	}
	return fmt.Sprintf("%s/c38-%d", root, os.Getpid())
}

type realWAL struct {
	dir string
	w   interface {
		Start() error
		Stop() error
		Wait()
		WriteMetaSync(wal.MetaMessage) error
		FlushAndSync() error
		Group() *auto.Group
		SearchForHeight(int64, *wal.WALSearchOptions) (io.ReadCloser, bool, error)
	}
	enc     *wal.WALWriter
	written []item // m/h items that reached the log (incl. the start marker)
	raw     bool   // a raw x: item was written
}

func openWAL(max, limit, total int64, start bool) *realWAL {
	opSeq++
	dir := filepath.Join(baseDir, strconv.Itoa(opSeq))
	w, err := wal.NewWAL(filepath.Join(dir, "wal"), max, auto.GroupHeadSizeLimit(limit), auto.GroupTotalSizeLimit(total))
	if err != nil {
		panic(err)
	}
	rw := &realWAL{dir: dir, w: w}
	if start {
		if err := w.Start(); err != nil { // writes #{"h":"0"} into an empty log
			panic(err)
		}
		rw.written = append(rw.written, item{kind: 'h', h: 0})
	}
	rw.enc = wal.NewWALWriter(w.Group(), max) // same writer type baseWAL uses, but with a caller-chosen timestamp
	return rw
}

func (rw *realWAL) close(started bool) {
	if started {
		rw.w.Stop()
		rw.w.Wait()
	} else {
		rw.w.Group().Close()
	}
	os.RemoveAll(rw.dir)
	os.Remove(baseDir)
}

func (rw *realWAL) apply(items []item) bool {
	for _, it := range items {
		switch it.kind {
		case 'm':
			twm, good := decodePayload(it.data)
			if !good {
				return false
			}
			if err := rw.enc.Write(twm); err != nil {
				continue // refused: too big
			}
			rw.written = append(rw.written, it)
		case 'h':
			if err := rw.w.WriteMetaSync(wal.MetaMessage{Height: it.h}); err != nil {
				panic(err)
			}
			rw.written = append(rw.written, it)
		case 'x':
			if _, err := rw.w.Group().Write(it.data); err != nil {
				panic(err)
			}
			rw.raw = true
		case 'r':
			rw.w.Group().RotateFile()
		}
	}
	if err := rw.w.FlushAndSync(); err != nil {
		panic(err)
	}
	return true
}

// files returns (minIndex, maxIndex, contents by index) read straight from disk.
func (rw *realWAL) files() (int, int, [][]byte) {
	g := rw.w.Group()
	lo, hi := g.MinIndex(), g.MaxIndex()
	var out [][]byte
	for i := lo; i <= hi; i++ {
		p := filepath.Join(rw.dir, "wal")
		if i != hi {
			p = fmt.Sprintf("%s.%03d", p, i)
		}
		b, err := os.ReadFile(p)
		if err != nil && !os.IsNotExist(err) {
			panic(err)
		}
		out = append(out, b)
	}
	return lo, hi, out
}

func parseGroupArgs(t []string) (max, limit, total int64, start bool, ok bool) {
	var e1, e2, e3 error
	max, e1 = strconv.ParseInt(t[0], 10, 64)
	limit, e2 = strconv.ParseInt(t[1], 10, 64)
	total, e3 = strconv.ParseInt(t[2], 10, 64)
	start = t[3] == "1"
	ok = e1 == nil && e2 == nil && e3 == nil && (t[3] == "0" || t[3] == "1") && limit >= 0 && total >= 0
	return
}

func opWrite(t []string) (string, string) {
	if len(t) < 5 {
		return "err:badop", "-"
	}
	max, limit, total, start, ok := parseGroupArgs(t[1:5])
	items, ok2 := parseItems(t[5:])
	if !ok || !ok2 {
		return "err:badop", "-"
	}
	rw := openWAL(max, limit, total, start)
	defer rw.close(start)
	if !rw.apply(items) {
		return "err:badpayload", "-"
	}
	lo, hi, fs := rw.files()
	var sb strings.Builder
	fmt.Fprintf(&sb, "min=%d max=%d", lo, hi)
	for i, f := range fs {
		fmt.Fprintf(&sb, " f%d=%s", lo+i, kit.Hex(append([]byte{}, f...)))
	}
	out := capOut(sb.String())
	// ---- oracle (clause 1): everything still in the group reads back exactly, in order
	if rw.raw || max <= 0 || lo != 0 {
		// raw bytes / no writer limit / pruned files: outside "what was written reads back"
		return out, "-"
	}
	gr, err := rw.w.Group().NewReader(lo, 0)
	if err != nil {
		panic(err)
	}
	evs, end := readLoop(gr, max, false)
	gr.Close()
	if end != "eof" || len(evs) != len(rw.written) {
		return out, fmt.Sprintf("VIOL:roundtrip read %d of %d items, end %s", len(evs), len(rw.written), end)
	}
	for i := range evs {
		if !sameItem(evs[i], rw.written[i]) {
			return out, fmt.Sprintf("VIOL:roundtrip item %d differs", i)
		}
	}
	// and the bytes on disk are the documented format (independent re-encoding)
	var want []byte
	for _, it := range rw.written {
		want = append(want, refLine(it)...)
	}
	if !bytes.Equal(bytes.Join(fs, nil), want) {
		return out, "VIOL:format bytes on disk differ from base64(crc32c‖payload)\\n / #{\"h\":\"n\"}\\n"
	}
	return out, "ok"
}

func opSearch(t []string) (string, string) {
	if len(t) < 8 {
		return "err:badop", "-"
	}
	max, limit, total, start, ok := parseGroupArgs(t[1:5])
	mode, e1 := strconv.Atoi(t[5])
	ign := t[6] == "1"
	h, e2 := strconv.ParseInt(t[7], 10, 64)
	items, ok2 := parseItems(t[8:])
	if !ok || !ok2 || e1 != nil || e2 != nil || mode < 0 || mode > 2 || (t[6] != "0" && t[6] != "1") {
		return "err:badop", "-"
	}
	rw := openWAL(max, limit, total, start)
	defer rw.close(start)
	if !rw.apply(items) {
		return "err:badpayload", "-"
	}
	var opts *wal.WALSearchOptions
	if mode != 0 || ign {
		opts = &wal.WALSearchOptions{Mode: wal.WALSearchMode(mode), IgnoreDataCorruptionErrors: ign}
	}
	out, rest := func() (out string, rest []byte) {
		defer func() {
			if v := recover(); v != nil {
				if fmt.Sprint(v) == "should not happen" {
					out = "panic:should-not-happen"
					return
				}
				panic(v)
			}
		}()
		rd, found, err := rw.w.SearchForHeight(h, opts)
		switch {
		case err != nil && errors.Is(err, io.EOF):
			return "err:eof", nil
		case err != nil && wal.IsDataCorruptionError(err):
			return "err:corrupt", nil
		case err != nil:
			return "err:meta", nil
		case !found:
			return "notfound", nil
		}
		rest, err = io.ReadAll(rd)
		if err != nil {
			panic(err)
		}
		rd.Close()
		return "found " + kit.Hex(rest), rest
	}()
	out = capOut(out)
	// ---- oracle (clause 4)
	if rw.raw || max <= 0 {
		return out, "-"
	}
	sorted, first, last := true, true, int64(0)
	for _, it := range rw.written {
		if it.kind != 'h' {
			continue
		}
		if !first && it.h <= last {
			sorted = false
		}
		first, last = false, it.h
	}
	if !sorted {
		return out, "-" // the search presupposes strictly increasing markers
	}
	lo, _, fs := rw.files()
	marker := []byte(`#{"h":"` + strconv.FormatInt(h, 10) + `"}` + "\n")
	fi, off := -1, -1
	for i, f := range fs { // first occurrence at a line start, files in order
		p := 0
		for p < len(f) {
			nl := bytes.IndexByte(f[p:], '\n')
			if nl < 0 {
				break
			}
			if bytes.Equal(f[p:p+nl+1], marker) {
				fi, off = i, p+nl+1
				break
			}
			p += nl + 1
		}
		if fi >= 0 {
			break
		}
	}
	_ = lo
	switch {
	case out == "panic:should-not-happen":
		return out, fmt.Sprintf("VIOL:search-panic h=%d files=%d", h, len(fs))
	case strings.HasPrefix(out, "err:"):
		return out, fmt.Sprintf("VIOL:search-error %s on an uncorrupted log", out)
	case fi < 0 && out != "notfound":
		return out, fmt.Sprintf("VIOL:search-phantom marker %d absent but found", h)
	case fi < 0:
		return out, "ok"
	case out == "notfound":
		return out, fmt.Sprintf("VIOL:search-miss marker %d is in file %d of %d but not found", h, fi, len(fs))
	}
	// found: the reader must be positioned right after the first marker. The
	// returned reader covers (at least) the rest of that file.
	tail := append([]byte{}, fs[fi][off:]...)
	if bytes.Equal(rest, tail) {
		return out, "ok"
	}
	for _, f := range fs[fi+1:] {
		tail = append(tail, f...)
	}
	if bytes.Equal(rest, tail) {
		return out, "ok"
	}
	return out, fmt.Sprintf("VIOL:search-wrong-pos marker %d: reader is not right after the first marker", h)
}

// ---------------------------------------------------------------- exec

func exec(t []string) (string, string) {
	if len(t) == 0 {
		return "err:badop", "-"
	}
	switch t[0] {
	case "crc":
		if len(t) != 2 {
			return "err:badop", "-"
		}
		b, err := kit.UnHex(t[1])
		if err != nil {
			return "err:badop", "-"
		}
		c := crc32.Checksum(b, crcTab)
		if c != refCRC(b) {
			return fmt.Sprintf("%08x", c), "VIOL:crc-ref stdlib and bitwise reference disagree"
		}
		return fmt.Sprintf("%08x", c), "ok"
	case "b64":
		if len(t) != 2 {
			return "err:badop", "-"
		}
		b, err := kit.UnHex(t[1])
		if err != nil {
			return "err:badop", "-"
		}
		s := b64np.EncodeToString(b)
		if s != string(refB64(b)) {
			return capOut("s:" + s), "VIOL:b64-ref stdlib and reference disagree"
		}
		return capOut("s:" + s), "ok"
	case "unb64":
		if len(t) != 2 {
			return "err:badop", "-"
		}
		b, err := kit.UnHex(t[1])
		if err != nil {
			return "err:badop", "-"
		}
		d, err := b64np.DecodeString(string(b))
		if err != nil {
			return "err:b64", "-"
		}
		return capOut(kit.Hex(d)), "-"
	case "read":
		return opRead(t, false)
	case "reads":
		return opRead(t, true)
	case "trunc":
		return opTrunc(t)
	case "flip":
		return opFlip(t)
	case "write":
		return opWrite(t)
	case "search":
		return opSearch(t)
	}
	return "err:badop", "-"
}

func main() {
	kit.Main(&kit.Harness{Gen: gen, Exec: exec, Reset: func() {}})
}

