// Harness for C10: gas metering is sound and consistent.
//
// Three op families:
//
//	(a) the runTx protocol of gnoverif/runtxkit on a real sdk.BaseApp (two
//	    independent apps per case; differing outputs = non-determinism);
//	(b) `m …` ops straight on tm2/pkg/store/types gas meters;
//	(c) `gno <program> <gasLimit>` (thorough tier): a real Gno program doing
//	    unbounded work on a gnovm Machine with a basic gas meter.
//
// Oracle = the property statement in math/big, evaluated on what the real code
// shows (never the Lean model):
//
//	gas used ≤ gas wanted for a tx whose ante installed a meter of gasWanted
//	    (class gasused-exceeds-wanted-on-oog when the tx failed out-of-gas — the known finding);
//	out-of-gas (and any failed) tx ⇒ deliver' = deliver ⊕ ante-writes, compared on the whole state
//	    (classes oog-effects-kept / failed-effects-kept), side cache untouched;
//	block consumed' = block consumed + min(gas used, limit of the tx meter) unless that sum leaves int64;
//	a tx arriving at an exhausted block meter runs neither ante nor messages and changes nothing;
//	CheckTx / Simulate never charge the block;
//	meters: consumed ≥ 0, to-limit = min(consumed, limit), ConsumeGas returns normally ⇔ consumed' ≤ limit;
//	a Gno program of the catalogue ends with out-of-gas and GasConsumedToLimit ≤ limit.
package main

import (
	"fmt"
	"math"
	"math/big"
	"strings"

	"github.com/gnolang/gno/tm2/pkg/store"

	"gnoverif/kit"
	rk "gnoverif/runtxkit"
)

var wa, wb *rk.World

// ---------------------------------------------------------------- (b) meters

type level struct {
	kind byte // b i p
	m    store.GasMeter
}

var chain []level // chain[len-1] is the current meter

func reset() { wa, wb, chain = nil, nil, nil }

func safe[T any](f func() T) (v T, pan string) {
	defer func() {
		if r := recover(); r != nil {
			switch x := r.(type) {
			case store.OutOfGasError:
				pan = "oog"
			case store.GasOverflowError:
				pan = "overflow"
			case string:
				switch {
				case x == "gas must not be negative":
					pan = "negative"
				case x == "subtraction overflow":
					pan = "suboverflow"
				default:
					pan = "other:" + x
				}
			default:
				pan = fmt.Sprintf("other:%T", r)
			}
		}
	}()
	return f(), ""
}

func showLevel(l level) string {
	rem, p := safe(func() int64 { return l.m.Remaining() })
	rs := fmt.Sprint(rem)
	if p != "" {
		rs = "panic:" + p
	}
	flag := func(b bool, c string) string {
		if b {
			return c
		}
		return "-"
	}
	return fmt.Sprintf("%c[%d/%d t=%d r=%s %s%s]", l.kind, l.m.GasConsumed(), l.m.Limit(),
		l.m.GasConsumedToLimit(), rs, flag(l.m.IsPastLimit(), "P"), flag(l.m.IsOutOfGas(), "O"))
}

func showChain() string {
	var parts []string
	for i := len(chain) - 1; i >= 0; i-- {
		parts = append(parts, showLevel(chain[i]))
	}
	return strings.Join(parts, "<")
}

func bigI(n int64) *big.Int { return big.NewInt(n) }

// meterInvariants: the statement's meter clauses on every limited level.
func meterInvariants() string {
	for _, l := range chain {
		if l.kind == 'i' {
			continue
		}
		c, lim, tol := l.m.GasConsumed(), l.m.Limit(), l.m.GasConsumedToLimit()
		if c < 0 {
			return fmt.Sprintf("VIOL:meter-negative consumed=%d", c)
		}
		want := c
		if bigI(c).Cmp(bigI(lim)) > 0 {
			want = lim
		}
		if tol != want || tol > lim {
			return fmt.Sprintf("VIOL:meter-tolimit consumed=%d limit=%d tolimit=%d", c, lim, tol)
		}
		if l.m.IsPastLimit() != (c > lim) || l.m.IsOutOfGas() != (c >= lim) {
			return fmt.Sprintf("VIOL:meter-flags consumed=%d limit=%d", c, lim)
		}
	}
	return "ok"
}

func execMeter(t []string) (string, string) {
	switch {
	case len(t) == 2 && t[0] == "new" && t[1] == "i":
		chain = []level{{'i', store.NewInfiniteGasMeter()}}
		return "ok " + showChain(), meterInvariants()
	case len(t) == 3 && t[0] == "new" && t[1] == "b":
		lim, ok := rk.ParseI64(t[2])
		if !ok {
			return "err:badop", "-"
		}
		m, p := safe(func() store.GasMeter { return store.NewGasMeter(lim) })
		if p != "" {
			if (p == "negative") != (lim < 0) {
				return "panic:" + p, "VIOL:meter-new"
			}
			return "panic:" + p, "ok"
		}
		chain = []level{{'b', m}}
		return "ok " + showChain(), meterInvariants()
	case len(t) == 3 && t[0] == "new" && t[1] == "p":
		lim, ok := rk.ParseI64(t[2])
		if !ok {
			return "err:badop", "-"
		}
		if len(chain) == 0 {
			return "err:nometer", "-"
		}
		m, p := safe(func() store.GasMeter { return store.NewPassthroughGasMeter(chain[len(chain)-1].m, lim) })
		if p != "" {
			return "panic:" + p, "ok"
		}
		chain = append(chain, level{'p', m})
		return "ok " + showChain(), meterInvariants()
	case len(t) == 2 && (t[0] == "c" || t[0] == "r"):
		n, ok := rk.ParseI64(t[1])
		if !ok {
			return "err:badop", "-"
		}
		if len(chain) == 0 {
			return "err:nometer", "-"
		}
		top := chain[len(chain)-1]
		before := make([]int64, len(chain))
		for i, l := range chain {
			before[i] = l.m.GasConsumed()
		}
		_, p := safe(func() int {
			if t[0] == "c" {
				top.m.ConsumeGas(n, "m")
			} else {
				top.m.RefundGas(n, "m")
			}
			return 0
		})
		tag := "ok"
		if p != "" {
			tag = "panic:" + p
		}
		out := tag + " " + showChain()
		orc := meterInvariants()
		if orc != "ok" {
			return out, orc
		}
		if t[0] == "c" {
			// returns normally ⇔ every level can take the amount: consumed' ≤ limit on limited
			// levels (and the amount is not negative there), the sum fits int64 on all levels
			fits := true
			for i, l := range chain {
				sum := new(big.Int).Add(bigI(before[i]), bigI(n))
				if !sum.IsInt64() {
					fits = false
				}
				if l.kind != 'i' && (n < 0 || sum.Cmp(bigI(l.m.Limit())) > 0) {
					fits = false
				}
			}
			if fits != (p == "") {
				return out, fmt.Sprintf("VIOL:meter-consume-iff amount=%d returned=%q", n, p)
			}
			if p == "" {
				for i, l := range chain {
					if new(big.Int).Add(bigI(before[i]), bigI(n)).Cmp(bigI(l.m.GasConsumed())) != 0 {
						return out, fmt.Sprintf("VIOL:meter-consume-amount level=%d", i)
					}
				}
			}
		} else if p == "" {
			// refund: consumed' = max(0, consumed − amount) on limited levels
			for i, l := range chain {
				if l.kind == 'i' {
					continue
				}
				want := new(big.Int).Sub(bigI(before[i]), bigI(n))
				if want.Sign() < 0 {
					want = bigI(0)
				}
				if want.Cmp(bigI(l.m.GasConsumed())) != 0 {
					return out, fmt.Sprintf("VIOL:meter-refund level=%d", i)
				}
			}
		}
		return out, "ok"
	}
	return "err:badop", "-"
}

// ---------------------------------------------------------------- (a) tx-level oracle

func hasGasSteps(steps []rk.Step) bool {
	for _, s := range steps {
		if s.Op == 'c' || s.Op == 'r' {
			return true
		}
	}
	return false
}

func oracleTx(o *rk.Obs) string {
	b, a := o.Before, o.After
	tx := o.Tx
	kind := byte('b')
	preGas := false
	if tx.Raw == nil {
		kind = tx.Ante.Kind
		preGas = hasGasSteps(tx.Ante.Pre)
	}
	// (2) a failed tx — out of gas first of all — discards every message effect and keeps the fee:
	// deliver' = deliver ⊕ ante-writes (deliver itself if the ante did not complete). This compares the
	// WHOLE deliver state, so a message write to a key the ante read or wrote must be gone too.
	if o.Op == "tx" && o.Res != "ok" {
		exp := b.Deliver
		if o.AnteDone {
			exp = rk.Overlay(b.Deliver, tx.AnteWrites())
		}
		if !rk.SameMap(a.Deliver, exp) {
			cls := "failed-effects-kept"
			if o.Res == "err:oog" {
				cls = "oog-effects-kept"
			}
			return fmt.Sprintf("VIOL:%s res=%s expected=%s got=%s", cls, o.Res, rk.ShowMap(exp), rk.ShowMap(a.Deliver))
		}
		if !rk.SameMap(a.VM, b.VM) || o.Hook == "ok" {
			return fmt.Sprintf("VIOL:failed-cache-kept res=%s", o.Res)
		}
	}
	gasVerdict := func() string {
		// (1) gas used ≤ gas wanted, for a tx metered by a meter of gasWanted
		// (a completed ante of kind b/p; or, on DeliverTx, an ante of kind b that did not complete or
		// never ran: the reported pair is then (0, gas charged before the meter was installed).
		// CheckTx/Simulate without a completed ante report the shared check-state meter and are not judged.)
		applies := !preGas && ((o.AnteDone && (kind == 'b' || kind == 'p')) ||
			(!o.AnteDone && o.Op == "tx" && (kind == 'b' || !o.AnteRan)))
		if applies && o.GU > o.GW {
			if o.Res == "err:oog" {
				return fmt.Sprintf("VIOL:gasused-exceeds-wanted-on-oog used=%d wanted=%d", o.GU, o.GW)
			}
			if o.Res == "err:internal" && b.HasBlock && !new(big.Int).Add(bigI(b.BlkCons), bigI(o.GW)).IsInt64() {
				// the tx ran out of gas, then charging the block meter left int64: the gas-overflow panic
				// replaced the out-of-gas one (only reachable on an unlimited block meter)
				return fmt.Sprintf("VIOL:gasused-exceeds-wanted-on-oog-block-overflow used=%d wanted=%d block=%d", o.GU, o.GW, b.BlkCons)
			}
			return fmt.Sprintf("VIOL:gasused-exceeds-wanted res=%s used=%d wanted=%d", o.Res, o.GU, o.GW)
		}
		return ""
	}()
	// every other clause is evaluated first: the known finding of clause (1) must never mask them
	if v := oracleRest(o, kind); strings.HasPrefix(v, "VIOL:") || gasVerdict == "" {
		return v
	}
	return gasVerdict
}

func oracleRest(o *rk.Obs, kind byte) string {
	b, a := o.Before, o.After
	if o.Op != "tx" {
		// (5) off-chain modes never charge the block
		if b.HasBlock != a.HasBlock || b.BlkCons != a.BlkCons {
			return fmt.Sprintf("VIOL:block-charged-offchain before=%d after=%d", b.BlkCons, a.BlkCons)
		}
		return "ok"
	}
	limited := b.BlkLimit != 0
	exhausted := limited && b.BlkCons >= b.BlkLimit
	// (4) an exhausted block processes nothing
	if exhausted {
		if o.AnteRan || o.MsgsRan != 0 || o.Res == "ok" || !rk.SameMap(a.Deliver, b.Deliver) || a.BlkCons != b.BlkCons {
			return "VIOL:ran-on-exhausted-block res=" + o.Res
		}
		return "ok"
	}
	// (3) the block is charged what the tx used, capped at the tx meter's limit
	remaining := bigI(math.MaxInt64)
	if limited {
		remaining = new(big.Int).Sub(bigI(b.BlkLimit), bigI(b.BlkCons)) // not exhausted ⇒ consumed < limit
	}
	var lim *big.Int
	switch {
	case !o.AnteDone, kind == 'k':
		lim = remaining
	case kind == 'i':
		lim = nil
	default:
		lim = bigI(o.GW)
	}
	charge := bigI(o.GU)
	if lim != nil && charge.Cmp(lim) > 0 {
		charge = lim
	}
	if charge.Sign() < 0 {
		return "-" // a negative total (only reachable with an unlimited tx meter and negative amounts): no claim
	}
	sum := new(big.Int).Add(bigI(b.BlkCons), charge)
	want := sum
	if !sum.IsInt64() {
		want = bigI(b.BlkCons) // int64 overflow is rejected by the meter: nothing is added
	}
	if want.Cmp(bigI(a.BlkCons)) != 0 {
		return fmt.Sprintf("VIOL:block-charge before=%d used=%d wanted=%d expected=%s got=%d", b.BlkCons, o.GU, o.GW, want, a.BlkCons)
	}
	return "ok"
}

func exec(t []string) (string, string) {
	if len(t) > 0 && t[0] == "m" {
		return execMeter(t[1:])
	}
	if len(t) == 3 && t[0] == "gno" {
		return execGno(t[1], t[2])
	}
	if len(t) > 0 && t[0] == "init" {
		if len(t) != 2 {
			return "err:badop", "-"
		}
		mg, ok := rk.ParseI64(t[1])
		if !ok {
			return "err:badop", "-"
		}
		wa, wb = rk.NewWorld(mg), rk.NewWorld(mg)
		return "ok", "-"
	}
	outA, obs := wa.Exec(t)
	outB, _ := wb.Exec(t)
	if outA != outB {
		return outA, "VIOL:nondeterministic second run: " + outB
	}
	if obs == nil {
		return outA, "-"
	}
	return outA, oracleTx(obs)
}

func main() {
	kit.Main(&kit.Harness{Gen: gen, Reset: reset, Exec: exec})
}
