package main

import (
	"fmt"
	"io"
	"os"
	"strings"

	gno "github.com/gnolang/gno/gnovm/pkg/gnolang"
	"github.com/gnolang/gno/gnovm/pkg/test"
	tmerrors "github.com/gnolang/gno/tm2/pkg/errors"
	"github.com/gnolang/gno/tm2/pkg/store"

	rk "gnoverif/runtxkit"
)

// (c) real Gno programs that do unbounded work.  Each must end with an
// out-of-gas panic raised by the gas meter, whatever the limit.
var gnoPrograms = map[string]string{
	"loop": `package main
func main() { for { } }`,
	"recurse": `package main
func f(n int) int { return f(n+1) + 1 }
func main() { println(f(0)) }`,
	"alloc": `package main
func main() { var keep [][]int; for { keep = append(keep, make([]int, 1024)) } }`,
	"strcat": `package main
func main() { s := "x"; for { s = s + "yyyyyyyyyyyyyyyy" } }`,
	"mapgrow": `package main
func main() { m := map[int]int{}; i := 0; for { m[i] = i; i++ } }`,
	"closure": `package main
func main() { var fs []func() int; i := 0; for { j := i; fs = append(fs, func() int { return j }); i++ } }`,
	"strconv": `package main
import "strconv"
func main() { n := 0; for { n += len(strconv.Itoa(n)) } }`,
	"nested": `package main
func main() { x := 0; for i := 0; ; i++ { for j := 0; j < 1000; j++ { x += i * j } } }`,
	"append": `package main
func main() { var b []byte; for { b = append(b, 'x') } }`,
	"defer": `package main
func g() { defer func() { recover() }(); panic("x") }
func main() { for { g() } }`,
}

const gnoMaxAlloc = 500_000_000 // gno.land/pkg/sdk/vm: maxAllocTx

func repoRoot() string {
	if r := os.Getenv("VERIF_REPO"); r != "" {
		return r
	}
	return "/repo"
}

func execGno(prog, limTok string) (string, string) {
	lim, ok := rk.ParseI64(limTok)
	src, known := gnoPrograms[prog]
	if !ok || !known || lim < 0 {
		return "err:badop", "-"
	}
	meter := store.NewGasMeter(lim)
	stop := func() (stop string) {
		defer func() {
			if r := recover(); r != nil {
				stop = classifyGnoPanic(r)
			}
		}()
		output := test.OutputWithError(io.Discard, io.Discard)
		_, st := test.ProdStore(repoRoot(), output, nil)
		m := gno.NewMachineWithOptions(gno.MachineOptions{
			Output:        output,
			Store:         st,
			MaxAllocBytes: gnoMaxAlloc,
			Context:       test.Context("", "main", nil),
			GasMeter:      meter,
		})
		defer m.Release()
		pn := gno.NewPackageNode("main", "main", &gno.FileSet{})
		pv := pn.NewPackage(m.Alloc)
		m.Store.SetBlockNode(pn)
		m.Store.SetCachePackage(pv)
		m.SetActivePackage(pv)
		f := m.MustParseFile("main.gno", src)
		m.RunFiles(f)
		m.RunMain()
		return "returned"
	}()
	out := "stop=" + stop
	if stop != "oog" {
		return out, "VIOL:gno-program-not-stopped-by-gas " + stop
	}
	if meter.GasConsumedToLimit() > lim || !meter.IsPastLimit() {
		return out, fmt.Sprintf("VIOL:gno-gas-accounting tolimit=%d limit=%d consumed=%d", meter.GasConsumedToLimit(), lim, meter.GasConsumed())
	}
	return out, "ok"
}

func classifyGnoPanic(r any) string {
	switch x := r.(type) {
	case store.OutOfGasError:
		return "oog"
	case *gno.PreprocessError:
		return classifyGnoPanic(x.Unwrap())
	case error:
		// the store loader re-panics a recovered panic wrapped by tm2/pkg/errors
		if _, isOOG := tmerrors.Cause(x).(store.OutOfGasError); isOOG {
			return "oog"
		}
		if strings.Contains(x.Error(), "out of gas") {
			if os.Getenv("VERIF_TRACE") != "" {
				fmt.Fprintf(os.Stderr, "wrapped out-of-gas: %T %v\n", r, firstLine(x.Error()))
			}
			return "oog-wrapped"
		}
		return "error:" + firstLine(x.Error())
	case string:
		return "panic:" + firstLine(x)
	}
	return fmt.Sprintf("panic:%T", r)
}

func firstLine(s string) string {
	if i := strings.IndexByte(s, '\n'); i >= 0 {
		s = s[:i]
	}
	if len(s) > 80 {
		s = s[:80]
	}
	return strings.ReplaceAll(s, " ", "_")
}
