package main

import (
	"fmt"
	"math"
	"sort"

	"gnoverif/kit"
	rk "gnoverif/runtxkit"
)

type g struct {
	o *kit.Out
	r *kit.Rand
	n int
}

func (x *g) hdr(name string) {
	x.n++
	x.o.Case(fmt.Sprintf("%s-%d", name, x.n))
}

func (x *g) meterBoundary() {
	o := x.o
	for _, lim := range []int64{0, 1, 2, 10, math.MaxInt64 - 1, math.MaxInt64} {
		x.hdr("meter-basic")
		o.Op("m new b %d", lim)
		for _, a := range []int64{0, 1, lim - 1, 0, 1, 1, lim, math.MaxInt64, -1, math.MinInt64} {
			if a == -1 && lim == 0 {
				a = 0
			}
			o.Op("m c %d", a)
		}
		o.Op("m r 1")
		o.Op("m r -1")
		o.Op("m r %d", int64(math.MaxInt64))
		o.Op("m c %d", lim)
		o.Op("m c 1")
		o.Op("m r 1")
		o.Op("m c 0")
	}
	x.hdr("meter-new")
	o.Op("m c 1")
	o.Op("m r 1")
	o.Op("m new p 5")
	o.Op("m new b -1")
	o.Op("m new b %d", int64(math.MinInt64))
	o.Op("m new i")
	o.Op("m new p -1")
	o.Op("m new p 0")
	o.Op("m c 0")
	o.Op("m c 1")
	x.hdr("meter-inf")
	o.Op("m new i")
	for _, a := range []int64{0, 5, -3, -10, math.MaxInt64, 1, math.MinInt64, math.MinInt64} {
		o.Op("m c %d", a)
	}
	for _, a := range []int64{1, -1, math.MaxInt64, 0} {
		o.Op("m r %d", a)
	}
	o.Op("m c -7")
	o.Op("m r 3")
	o.Op("m c %d", int64(math.MinInt64)+7)
	o.Op("m r %d", int64(math.MaxInt64))
	// passthrough: head smaller / larger than base, nested, negative amounts through an infinite base
	for _, c := range [][3]int64{{10, 5, 0}, {5, 10, 0}, {10, 10, 3}, {0, 0, 0}, {-7, 10, 4}} {
		x.hdr("meter-pass")
		if c[0] < 0 {
			o.Op("m new i")
		} else {
			o.Op("m new b %d", c[0])
		}
		o.Op("m new p %d", c[1])
		if c[2] > 0 {
			o.Op("m new p %d", c[2])
		}
		for _, a := range []int64{0, 3, 2, 1, 1, -1, 5, math.MaxInt64} {
			o.Op("m c %d", a)
		}
		for _, a := range []int64{2, -1, 100} {
			o.Op("m r %d", a)
		}
		o.Op("m c 4")
	}
}

func (x *g) meterRandom(cases int) {
	r, o := x.r, x.o
	for c := 0; c < cases; c++ {
		x.hdr("meter-rand")
		lim := kit.Pick(r, []int64{0, 1, 7, 100, 1000, math.MaxInt64 - 5, math.MaxInt64})
		if r.Chance(20) {
			o.Op("m new i")
		} else {
			o.Op("m new b %d", lim)
		}
		depth := 0
		n := r.Range(3, 14)
		for i := 0; i < n; i++ {
			switch v := r.Intn(100); {
			case v < 10 && depth < 2:
				o.Op("m new p %d", kit.Pick(r, []int64{0, 3, 50, lim, math.MaxInt64}))
				depth++
			case v < 75:
				o.Op("m c %d", kit.Pick(r, []int64{0, 1, 1, 2, 5, 50, lim / 2, lim, math.MaxInt64 - 3, math.MaxInt64, -1}))
			default:
				o.Op("m r %d", kit.Pick(r, []int64{0, 1, 2, 5, 50, lim, math.MaxInt64, -1}))
			}
		}
	}
}

const fee = "w.x.66.01"

func msgC(key string, c int64, more ...string) string {
	st := []string{rk.W(key, "01"), rk.C(c)}
	st = append(st, more...)
	st = append(st, rk.W(key, "02"))
	return rk.MsgTok("M", rk.Steps(st...))
}

func (x *g) txBoundary() {
	o := x.o
	// gas wanted hit exactly / ±1, split between ante and 1–3 messages, every ante meter kind
	for _, kind := range []string{"b", "p", "k", "i", "bR", "pR"} {
		for _, gw := range []int64{0, 1, 10, 70} {
			for _, total := range []int64{gw - 1, gw, gw + 1} {
				if total < 0 {
					continue
				}
				for n := 1; n <= 3; n++ {
					x.hdr("txgas-" + kind)
					o.Op("init 1000")
					o.Op("begin")
					anteC := total / int64(n+1)
					rest := total - anteC
					var msgs []string
					for i := 0; i < n; i++ {
						c := rest / int64(n-i)
						rest -= c
						msgs = append(msgs, msgC(rk.GenKeys[i], c))
					}
					ante := rk.AnteTok(kind, "", rk.Steps(fee, rk.C(anteC)))
					o.Op(rk.TxLine("tx", gw, ante, msgs...))
					o.Op(rk.TxLine("sim", gw, ante, msgs...))
					o.Op(rk.TxLine("check", gw, ante, msgs...))
					o.Op("end")
				}
			}
		}
	}
	// the pinned finding and its neighbours: out of gas at 80 > 70, 71 > 70, all in the ante, with a refund before
	for _, c := range []struct {
		gw, ante int64
		steps    string
	}{
		{70, 10, "c.70"}, {70, 10, "c.61"}, {70, 10, "c.60"}, {70, 80, "c.0"}, {70, 71, "c.0"},
		{70, 10, "c.60,r.5,c.5"}, {70, 10, "c.60,r.5,c.6"}, {70, 10, "c.60,r.100,c.70"}, {70, 10, "c.60,r.100,c.71"},
		{70, 0, "c.9223372036854775807"}, {70, 1, "c.9223372036854775807"}, {70, 0, "c.71,e"},
		{10, 0, "o"}, {10, 10, "o"}, {10, 5, "c.5,p"}, {10, 5, "c.6"},
	} {
		x.hdr("finding")
		o.Op("init 1000")
		o.Op("begin")
		o.Op(rk.TxLine("tx", c.gw, rk.AnteTok("b", "", rk.Steps(fee, rk.C(c.ante))), rk.MsgTok("M", rk.Steps(rk.W("x.61", "01"), c.steps)), msgC("x.62", 0)))
		o.Op(rk.TxLine("tx", c.gw, rk.AnteTok("bR", "", rk.Steps(fee, rk.C(c.ante))), rk.MsgTok("M", rk.Steps(rk.W("x.61", "01"), c.steps)), msgC("x.62", 0)))
		o.Op("end")
	}
	// pre-steps on the incoming (passthrough) meter
	for _, pre := range []string{"c.5", "c.5,e", "c.5,p", "c.1001", "c.1000", "c.5,r.2", "c.-1"} {
		x.hdr("pre")
		o.Op("init 1000")
		o.Op("begin")
		o.Op(rk.TxLine("tx", 50, rk.AnteTok("b", pre, fee+",c.10"), msgC("x.61", 20)))
		o.Op(rk.TxLine("tx", 50, rk.AnteTok("k", pre, fee+",c.10"), msgC("x.61", 20)))
		o.Op(rk.TxLine("check", 50, rk.AnteTok("k", pre, fee+",c.10"), msgC("x.61", 20)))
		o.Op(rk.TxLine("check", 50, rk.AnteTok("b", "c.1", fee+",e"), msgC("x.61", 20)))
		o.Op(rk.TxLine("sim", 50, rk.AnteTok("k", pre, fee+",c.10"), msgC("x.61", 20)))
		o.Op("end")
		o.Op(rk.TxLine("sim", 50, rk.AnteTok("k", pre, fee+",c.10"), msgC("x.61", 20)))
		o.Op(rk.TxLine("check", 50, rk.AnteTok("k", pre, fee+",c.10"), msgC("x.61", 20)))
	}
}

// overlap: messages of a FAILING tx overwrite / delete keys the ante handler wrote or merely read
// (the fee payer's account in production): after the failure only the ante's value may remain.
func (x *g) overlap() {
	o := x.o
	fails := []struct{ name, steps string }{
		{"oog", "c.1000"}, {"oogexact", "c.61"}, {"oogpanic", "o"}, {"err", "e"}, {"panic", "p"},
		{"overflow", "c." + rk.MaxI64 + ",c." + rk.MaxI64}, {"negative", "c.-1"}, {"require", "q.x.7a7a.01"},
	}
	antes := []struct{ name, steps string }{
		{"wrote", "w.x.66.02,w.y.73.02,c.10"},               // ante writes the keys
		{"read", "q.x.66.01,q.y.73.01,c.10"},                // ante only reads them (present)
		{"readabsent", "q.x.63.-,q.y.62.-,c.10"},            // ante reads keys that do not exist
		{"readwrote", "q.x.66.01,w.x.66.02,q.y.73.01,c.10"}, // read one, read+write the other
		{"deleted", "d.x.66,q.y.73.01,c.10"},                // ante deletes a key
	}
	touches := []struct{ name, steps string }{
		{"overwrite", "w.x.66.04,w.y.73.04,w.x.63.04,w.y.62.04"},
		{"delete", "d.x.66,d.y.73,w.x.63.04"},
		{"twice", "w.x.66.03,w.x.66.04,d.y.73,w.y.73.04,w.y.62.03,d.y.62"},
	}
	for _, a := range antes {
		for _, t := range touches {
			for _, f := range fails {
				for _, kind := range []string{"b", "bR"} {
					x.hdr("overlap-" + a.name + "-" + t.name + "-" + f.name)
					o.Op("init 1000")
					o.Op("begin")
					o.Op(rk.TxLine("tx", 70, "A:b::w.x.66.01,w.y.73.01", rk.MsgTok("M", "w.x.61.01")))
					// message 1 touches the ante's keys and succeeds, message 2 touches them again and fails
					o.Op(rk.TxLine("tx", 70, rk.AnteTok(kind, "", a.steps),
						rk.MsgTok("M", t.steps+",c.5"), rk.MsgTok("M", rk.Steps(t.steps, f.steps, "w.x.66.05"))))
					// a follow-up that passes only on the exact ante-only state is not needed: the oracle
					// compares the whole deliver state; this one shows later txs see it too
					o.Op(rk.TxLine("tx", 70, "A:b::", rk.MsgTok("M", "w.x.61.02")))
					o.Op("end")
				}
			}
		}
		// the same tx failing because it crosses the BLOCK gas limit, and failing in the ante
		for _, t := range touches {
			x.hdr("overlap-block-" + a.name + "-" + t.name)
			o.Op("init 100")
			o.Op("begin")
			o.Op(rk.TxLine("tx", 200, "A:b::w.x.66.01,w.y.73.01", rk.MsgTok("M", "w.x.61.01,c.60")))
			o.Op(rk.TxLine("tx", 200, rk.AnteTok("b", "", a.steps), rk.MsgTok("M", t.steps+",c.51")))
			o.Op("end")
			x.hdr("overlap-check-" + a.name + "-" + t.name)
			o.Op("init 1000")
			o.Op("begin")
			o.Op(rk.TxLine("tx", 70, "A:b::w.x.66.01,w.y.73.01", rk.MsgTok("M", "w.x.61.01")))
			o.Op("end")
			o.Op(rk.TxLine("check", 70, rk.AnteTok("b", "", a.steps), rk.MsgTok("M", t.steps+",c.100")))
			o.Op(rk.TxLine("sim", 70, rk.AnteTok("b", "", a.steps), rk.MsgTok("M", t.steps+",c.100")))
			o.Op("begin")
			o.Op(rk.TxLine("tx", 70, rk.AnteTok("b", "", a.steps), rk.MsgTok("M", t.steps+",c.100")))
			o.Op("end")
		}
	}
}

func (x *g) blockBoundary() {
	o := x.o
	// fill a block step by step: exact fill, crossing, already exhausted; every max-gas flavour
	for _, mg := range []int64{100, 1, 30, 0, -1} {
		for _, per := range []int64{30, 25, 50, 100, 101, 0} {
			for _, kind := range []string{"b", "p", "k"} {
				x.hdr("blockfill")
				o.Op("init %d", mg)
				o.Op("begin")
				for i := 0; i < 6; i++ {
					o.Op(rk.TxLine("tx", 200, rk.AnteTok(kind, "", rk.Steps(rk.W("x.66", rk.GenVals[i%4]), rk.C(per/2))), msgC(rk.GenKeys[i%5], per-per/2)))
				}
				o.Op(rk.TxLine("check", 200, rk.AnteTok(kind, "", fee), msgC("x.61", 1)))
				o.Op(rk.TxLine("sim", 200, rk.AnteTok(kind, "", fee), msgC("x.61", 1)))
				o.Op("end")
				o.Op("begin")
				o.Op(rk.TxLine("tx", 200, rk.AnteTok(kind, "", fee), msgC("x.61", 1)))
				o.Op("end")
			}
		}
	}
	// the witness of the fixed C02 defect, a failing tx that also crosses the block limit, a panic replaced by the block OOG
	for _, tail := range []string{"", "e", "p", "o", "c.1000"} {
		x.hdr("blockcross")
		o.Op("init 100")
		o.Op("begin")
		o.Op(rk.TxLine("tx", 200, "A:b::"+fee, msgC("x.61", 60)))
		more := []string{}
		if tail != "" {
			more = append(more, tail)
		}
		o.Op(rk.TxLine("tx", 200, "A:b::"+fee, msgC("x.62", 61, more...)))
		o.Op(rk.TxLine("tx", 200, "A:b::"+fee, msgC("x.63", 1)))
		o.Op("end")
	}
	// the int64 corner of an unlimited block: the block charge itself overflows
	x.hdr("blockoverflow")
	o.Op("init 0")
	o.Op("begin")
	o.Op(rk.TxLine("tx", 10, "A:i::"+fee, rk.MsgTok("M", "c.9223372036854775800")))
	o.Op(rk.TxLine("tx", 10, "A:i::"+fee, rk.MsgTok("M", "c.7")))
	o.Op(rk.TxLine("tx", 10, "A:i::"+fee, rk.MsgTok("M", "c.1")))
	o.Op(rk.TxLine("tx", 70, "A:b::"+fee, msgC("x.61", 5)))
	o.Op(rk.TxLine("tx", 70, "A:b::"+fee, rk.MsgTok("M", "c.3,e")))
	o.Op(rk.TxLine("tx", 10, "A:i::"+fee, rk.MsgTok("M", "c.-100")))
	o.Op("end")
	x.hdr("blockoverflow-oog")
	o.Op("init 0")
	o.Op("begin")
	o.Op(rk.TxLine("tx", 10, "A:i::"+fee, rk.MsgTok("M", "c.9223372036854775800")))
	o.Op(rk.TxLine("tx", 70, "A:b::"+fee, msgC("x.61", 80)))
	o.Op("end")
}

func (x *g) randomTx(op string) string {
	r := x.r
	gw := kit.Pick(r, []int64{0, 1, 10, 20, 50, 70, 100, 100})
	kind := "b"
	switch v := r.Intn(100); {
	case v < 10:
		kind = "p"
	case v < 15:
		kind = "k"
	case v < 20:
		kind = "i"
	}
	if r.Chance(20) {
		kind += "R"
	}
	n := r.Range(1, 3)
	// aim the total at the limit: mostly within, sometimes exactly, sometimes one over
	total := gw
	switch v := r.Intn(100); {
	case v < 60:
		total = int64(r.Intn(int(gw) + 1))
	case v < 75:
		total = gw
	case v < 90:
		total = gw + 1
	default:
		total = gw + int64(r.Intn(50))
	}
	parts := make([]int64, n+1)
	cuts := make([]int, n)
	for i := range cuts {
		cuts[i] = r.Intn(int(total) + 1)
	}
	sort.Ints(cuts)
	prev := 0
	for i, c := range cuts {
		parts[i] = int64(c - prev)
		prev = c
	}
	parts[n] = total - int64(prev)
	anteKeys := append([]string{"x.66", "y.73"}, rk.GenKeys...)
	as := []string{rk.W("x.66", kit.Pick(r, rk.GenVals))}
	if r.Chance(40) {
		// the ante reads (value unknown to the generator: require "absent or anything" is not
		// expressible, so read via a write-after-read of the same value class) or writes message keys
		k := kit.Pick(r, anteKeys)
		if r.Bool() {
			as = append(as, rk.W(k, kit.Pick(r, rk.GenVals)))
		} else {
			as = append([]string{rk.Q(k, kit.Pick(r, append([]string{"-"}, rk.GenVals...)))}, as...)
		}
	}
	as = append(as, rk.C(parts[0]))
	if r.Chance(8) {
		as = append(as, kit.Pick(r, []string{"e", "p", "o", "z", "n"}))
	}
	pre := ""
	if r.Chance(6) {
		pre = kit.Pick(r, []string{"c.1", "c.3,r.1", "c.2000"})
	}
	var msgs []string
	for i := 0; i < n; i++ {
		st := []string{rk.W(kit.Pick(r, anteKeys), kit.Pick(r, rk.GenVals))}
		if r.Chance(20) {
			st = append(st, rk.D(kit.Pick(r, anteKeys)))
		}
		st = append(st, rk.C(parts[i+1]))
		if r.Chance(15) {
			k := int64(r.Intn(6))
			st = append(st, rk.R(k), rk.C(k))
		}
		if r.Chance(10) {
			st = append(st, kit.Pick(r, []string{"e", "p", "o", "c.-1", "r.-1"}))
		}
		st = append(st, rk.W(kit.Pick(r, rk.GenKeys), kit.Pick(r, rk.GenVals)))
		msgs = append(msgs, rk.MsgTok("M", rk.Steps(st...)))
	}
	return rk.TxLine(op, gw, rk.AnteTok(kind, pre, rk.Steps(as...)), msgs...)
}

func (x *g) random(cases int) {
	r, o := x.r, x.o
	for c := 0; c < cases; c++ {
		x.hdr("rand")
		o.Op("init %d", kit.Pick(r, []int64{0, -1, 1, 60, 100, 150, 300, 1000}))
		blocks := r.Range(1, 3)
		for b := 0; b < blocks; b++ {
			o.Op("begin")
			n := r.Range(1, 8)
			for i := 0; i < n; i++ {
				switch v := r.Intn(100); {
				case v < 76:
					o.Op(x.randomTx("tx"))
				case v < 88:
					o.Op(x.randomTx("check"))
				default:
					o.Op(x.randomTx("sim"))
				}
			}
			o.Op("end")
		}
	}
}

func (x *g) gnoPrograms(limits []int64) {
	names := make([]string, 0, len(gnoPrograms))
	for n := range gnoPrograms {
		names = append(names, n)
	}
	sort.Strings(names)
	x.hdr("gno")
	for _, n := range names {
		for _, l := range limits {
			x.o.Op("gno %s %d", n, l)
		}
	}
}

func (x *g) malformed() {
	x.hdr("malformed")
	x.o.Op("init 100")
	x.o.Op("begin")
	for _, l := range rk.Malformed {
		x.o.Op("%s", l)
	}
	for _, l := range []string{"m", "m new", "m new q 1", "m new b", "m new b x", "m c", "m c x", "m c 1 2", "m q 1", "m new i 1",
		"gno", "gno loop", "gno loop x", "gno nosuch 10", "gno loop -1", "gno loop 1 2"} {
		x.o.Op("%s", l)
	}
	x.o.Op("end")
}

func gen(o *kit.Out, r *kit.Rand, tier string) {
	x := &g{o: o, r: r}
	x.meterBoundary()
	x.txBoundary()
	x.overlap()
	x.blockBoundary()
	if tier == "thorough" {
		x.meterRandom(3000)
		x.random(2500)
		x.gnoPrograms([]int64{0, 1, 1000, 100000, 3000000, 20000000})
	} else {
		x.meterRandom(300)
		x.random(250)
		x.gnoPrograms([]int64{0, 50000})
	}
	x.malformed()
}
