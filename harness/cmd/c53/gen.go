package main

import (
	"fmt"
	"strings"

	"gnoverif/kit"
)

// A generated case = one genesis content under 2–3 textual representations
// (the oracle's rep-hash check compares them inside the case).

type gspec struct {
	prm, pc, val int
	top, app     int64
	grm          string
	bal, tx      string
	omit         string
}

func (g gspec) line(rep int) string {
	l := fmt.Sprintf("g rep=%d prm=%d ih=%d/%d grm=%s pc=%d val=%d bal=%s tx=%s", rep, g.prm, g.top, g.app, g.grm, g.pc, g.val, g.bal, g.tx)
	if g.omit != "" {
		l += " omit=" + g.omit
	}
	return l
}

func base() gspec { return gspec{grm: "-", val: 1, bal: "-", tx: "-"} }

// boundary table: every clause of the two application paths once, hand-picked.
func boundary() []gspec {
	var out []gspec
	add := func(f func(g *gspec)) {
		g := base()
		f(&g)
		out = append(out, g)
	}
	add(func(g *gspec) {}) // empty genesis
	add(func(g *gspec) { g.bal = "a0:5atom+7ugnot,a1:9ugnot,a2:-" })
	add(func(g *gspec) { g.bal = "a1:5atom,a0:3zed,a1:9ugnot,a1:1atom+1ugnot+1zed" }) // repeated address: last wins, number gap
	add(func(g *gspec) { g.bal = "a0:1ugnot"; g.tx = "add.p0,inc.p0,fail.p0,add.p0,inc.p1" })
	add(func(g *gspec) { g.tx = "add.p1@m,inc.p1@t12345,inc.p1@h7@t99,add.p2@F,inc.p2" })
	add(func(g *gspec) { g.top, g.app = 1, 1; g.bal = "a3:2zed"; g.tx = "add.p0" })
	add(func(g *gspec) { g.top, g.app = 0, 0; g.grm = "strict"; g.tx = "add.p0@h5,inc.p0@h6" })
	add(func(g *gspec) { g.grm = "source"; g.pc = 1; g.val = 0; g.tx = "add.p0@h5@c0,inc.p0@h6@c1,fail.p0@h7" })
	add(func(g *gspec) { g.grm = "bogus"; g.bal = "a0:1atom"; g.tx = "add.p0" }) // both paths refuse
	add(func(g *gspec) { g.pc = 2; g.val = 1; g.tx = "add.p0,inc.p0" })          // hardfork, v3 not deployed: assertion skipped
	add(func(g *gspec) { g.pc = 1; g.val = 1; g.tx = "v3ok,add.p3" })           // assertion passes
	add(func(g *gspec) { g.pc = 1; g.val = 0; g.tx = "v3bad" })                 // no validators: assertion not run
	add(func(g *gspec) { g.pc = 0; g.val = 1; g.tx = "v3bad,v3ok" })            // not a hardfork: assertion not run
	add(func(g *gspec) {                                                      // signer info that agrees with the balances
		g.bal = "a0:4atom,a1:6ugnot"
		g.tx = "add.p0@h3@sa0:1:5,inc.p0@h4@sa1:2:0@sa7:9:3,inc.p0@h5@F@sa0:1:6"
	})
	add(func(g *gspec) { g.bal = "a0:1ugnot"; g.tx = "add.p0@h3@sF:0:4,inc.p0@sa0:1:9,inc.p0@h4@sa5:3:1" })
	add(func(g *gspec) { g.prm = 1; g.bal = "a0:1zed" })
	add(func(g *gspec) { g.bal = "a0:5ugnot^c,a1:3atom+2zed^d,a0:7ugnot,a2:1ugnot^d,a2:2ugnot^c"; g.tx = "add.p0" }) // vesting accounts
	add(func(g *gspec) { g.prm = 2; g.bal = "a0:1zed,a1:1atom"; g.tx = "add.p0" })
	add(func(g *gspec) { g.prm = 3; g.tx = "add.p2,inc.p2" })
	return out
}

// findings: the recorded differences between the two paths (also pinned in corpus/C53).
func findings() []gspec {
	var out []gspec
	add := func(f func(g *gspec)) {
		g := base()
		f(&g)
		out = append(out, g)
	}
	add(func(g *gspec) { g.top, g.app = 100, 100; g.tx = "add.p0" })                         // consistent hardfork height: v100 vs v1
	add(func(g *gspec) { g.top, g.app = 100, 200; g.tx = "add.p0" })                         // refuse-initial-height
	add(func(g *gspec) { g.top, g.app = 0, 100 })                                            // refuse-initial-height
	add(func(g *gspec) { g.bal = "a0:5atom,a1:7ugnot"; g.tx = "add.p0,inc.p0@h7@sa2:2:3" }) // refuse-signer-info
	add(func(g *gspec) { g.pc = 1; g.tx = "add.p0,v3bad" })                                  // refuse-valoper
	return out
}

func randCoins(r *kit.Rand) string {
	var parts []string
	for _, d := range denoms {
		if r.Chance(45) {
			amt := int64(1 + r.Intn(9))
			if r.Chance(15) {
				amt = 1 << uint(10+r.Intn(45))
			}
			parts = append(parts, fmt.Sprintf("%d%s", amt, d))
		}
	}
	if len(parts) == 0 {
		return "-"
	}
	return strings.Join(parts, "+")
}

func randSpec(r *kit.Rand, allowFindings bool) gspec {
	g := base()
	g.prm = kit.Pick(r, []int{0, 0, 0, 1, 2, 3})
	g.val = kit.Pick(r, []int{1, 1, 1, 0})
	g.pc = kit.Pick(r, []int{0, 0, 0, 1, 2})
	g.grm = kit.Pick(r, []string{"-", "-", "-", "strict", "source"})
	switch r.Intn(8) {
	case 0:
		g.top, g.app = 1, 0
	case 1:
		g.top, g.app = 1, 1
	}
	// balances
	nb := kit.Pick(r, []int{0, 1, 2, 3, 5, 8})
	var bs []string
	naddr := 1 + r.Intn(6)
	for i := 0; i < nb; i++ {
		c := randCoins(r)
		if c != "-" && r.Chance(15) {
			c += kit.Pick(r, []string{"^c", "^d"})
		}
		bs = append(bs, fmt.Sprintf("a%d:%s", r.Intn(naddr), c))
	}
	if len(bs) > 0 {
		g.bal = strings.Join(bs, ",")
	}
	// txs: mostly sensible orders (add before use), some not
	nt := kit.Pick(r, []int{0, 1, 2, 3, 4, 6})
	var ts []string
	hist := g.pc > 0 || r.Chance(25)
	reserved := map[int]int{} // account number -> address it belongs to (balance order; F is 0)
	{
		k := 1
		for _, b := range bs {
			var a int
			fmt.Sscanf(b, "a%d:", &a)
			reserved[k] = a
			k++
		}
	}
	for i := 0; i < nt; i++ {
		var t string
		switch r.Intn(10) {
		case 0, 1, 2, 3:
			t = fmt.Sprintf("add.p%d", r.Intn(nPkgs))
		case 4, 5, 6, 7:
			t = fmt.Sprintf("inc.p%d", r.Intn(nPkgs))
		case 8:
			t = fmt.Sprintf("fail.p%d", r.Intn(nPkgs))
		default:
			t = kit.Pick(r, []string{"v3ok", "add.p0", "inc.p0"})
		}
		if r.Chance(30) {
			t += kit.Pick(r, []string{"@m", "@t777", "@t1700000500"})
		}
		if hist && r.Chance(60) {
			t += fmt.Sprintf("@h%d", 1+r.Intn(50))
			if r.Chance(40) {
				t += fmt.Sprintf("@c%d", r.Intn(2))
			}
			if r.Chance(25) {
				t += "@F"
			}
			if r.Chance(35) {
				// signer info consistent with the reservation table (no collision)
				num := 1 + r.Intn(nb+4)
				a, ok := reserved[num]
				if !ok {
					a = 8 + num // a fresh address per fresh number
					reserved[num] = a
				}
				t += fmt.Sprintf("@sa%d:%d:%d", a, num, r.Intn(5))
			}
		}
		ts = append(ts, t)
	}
	if len(ts) > 0 {
		g.tx = strings.Join(ts, ",")
	}
	if allowFindings && r.Chance(12) {
		f := findings()
		h := f[r.Intn(len(f))]
		h.prm = g.prm
		return h
	}
	return g
}

func malformed(r *kit.Rand) []string {
	out := []string{
		"g",
		"g rep=0 prm=0 ih=0/0 grm=- pc=0 val=1 bal=- tx=- extra=1 more",
		"g rep=64 prm=0 ih=0/0 grm=- pc=0 val=1 bal=- tx=-",
		"g rep=0 prm=0 ih=0 grm=- pc=0 val=1 bal=- tx=-",
		"g rep=0 prm=0 ih=0/0 grm=x pc=0 val=1 bal=- tx=-",
		"g rep=0 prm=0 ih=0/0 grm=- pc=3 val=1 bal=- tx=-",
		"g rep=0 prm=0 ih=0/0 grm=- pc=0 val=1 bal=a0:5ugnot+3atom tx=-",
		"g rep=0 prm=0 ih=0/0 grm=- pc=0 val=1 bal=a0:0ugnot tx=-",
		"g rep=0 prm=0 ih=0/0 grm=- pc=0 val=1 bal=a0:5ugnot*0 tx=-",
		"g rep=0 prm=0 ih=0/0 grm=- pc=0 val=1 bal=a0:-^c tx=-",
		"g rep=0 prm=0 ih=0/0 grm=- pc=0 val=1 bal=a0:5ugnot^x tx=-",
		"g rep=0 prm=0 ih=0/0 grm=- pc=0 val=1 bal=- tx=add.p9",
		"g rep=0 prm=0 ih=0/0 grm=- pc=0 val=1 bal=- tx=add.p0@",
		"g rep=0 prm=0 ih=0/0 grm=- pc=0 val=1 bal=- tx=add.p0@sa1:1",
		"h rep=0 prm=0 ih=0/0 grm=- pc=0 val=1 bal=- tx=-",
		// keys missing from app_state (outside the schema: no oracle verdict, the model still predicts both paths)
		"g rep=0 prm=0 ih=0/0 grm=- pc=0 val=1 bal=a0:5ugnot tx=add.p0 omit=bank",
		"g rep=3 prm=0 ih=0/0 grm=- pc=0 val=1 bal=a0:5ugnot tx=- omit=auth",
	}
	return out
}

func reps(r *kit.Rand, n int) []int {
	out := []int{kit.Pick(r, []int{0, 1})}
	for len(out) < n {
		out = append(out, 1+r.Intn(63))
	}
	return out
}

func gen(w *kit.Out, r *kit.Rand, tier string) {
	nrep, nrand, nbound := 2, 3, 3
	if tier == "thorough" {
		nrep, nrand, nbound = 2, 16, 1000
	}
	bt := boundary()
	// quick: a seeded subset of the boundary table (the corpus pins the rest); thorough: all of it
	start := 0
	if len(bt) > nbound {
		start = r.Intn(len(bt))
	}
	for i := 0; i < len(bt) && i < nbound; i++ {
		g := bt[(start+i)%len(bt)]
		w.Case(fmt.Sprintf("b%d", (start+i)%len(bt)))
		for _, rep := range reps(r.Fork(), nrep) {
			w.Op("%s", g.line(rep))
		}
	}
	for i := 0; i < nrand; i++ {
		g := randSpec(r.Fork(), tier == "thorough")
		w.Case(fmt.Sprintf("r%d", i))
		nr := nrep
		if tier == "thorough" {
			nr = 3
		}
		for _, rep := range reps(r.Fork(), nr) {
			w.Op("%s", g.line(rep))
		}
	}
	if tier == "thorough" {
		// the JSONL files are read through a 1 MiB bufio.Reader: make balances.jsonl cross it
		w.Case("big")
		g := base()
		g.bal = fmt.Sprintf("a0:3atom,a100:5ugnot*%d,a0:4zed,a1:1ugnot", 18000+r.Intn(3000))
		g.tx = "add.p0,inc.p0"
		w.Op("%s", g.line(0))
		w.Op("%s", g.line(9))
	}
	w.Case("malformed")
	for _, l := range malformed(r) {
		w.Op("%s", l)
	}
}
