// Harness for C53: genesis application is deterministic and representation-independent.
//
// One op line describes ONE genesis document and ONE textual representation of it.
// The harness writes the genesis.json, then initialises the REAL gno.land application
// (gnoland.NewAppWithOptions over memdb, InitChain + first Commit) five times:
//
//	val   the Go value (GenesisDoc with a GnoGenesisState) handed to InitChain directly
//	mem   bft.GenesisDocFromFile(genesis.json)            -> applyInMemoryAppState   (twice)
//	str   gnoland.LoadStreamingGenesisDoc(genesis.json)   -> applyStreamingAppState   (cold cache, then warm cache)
//
// with the RequestInitChain built exactly as consensus.Handshaker.ReplayBlocks builds it
// (doc.ValidateAndComplete() first, as state.MakeGenesisState does in the node).
//
// op line (fixed token order; anything else answers err:badop):
//
//	g rep=<0..63> prm=<0..3> ih=<top>/<app> grm=<-|strict|source|bogus> pc=<0..2> val=<0|1> bal=<B> tx=<T> [omit=<bank|auth>]
//
//	rep   bitmask of textual transformations of the canonical amino JSON (see render)
//	prm   parameter variant (auth / bank / vm params; changes the hash, not the model output)
//	ih    GenesisDoc.initial_height / app_state.initial_height
//	grm   app_state.gas_replay_mode          pc   number of past_chain_ids ("old0", "old1")
//	val   number of genesis validators (one ed25519 key)
//	B     `-` | entries `a<i>:<coins>[^c|^d][*<count>]` joined by `,`; coins `-` | `<amt><denom>+...` (denoms
//	      atom<ugnot<zed, ascending).  `^c` / `^d`: the whole amount vests continuously / with a cliff.
//	      `*count` expands to count consecutive addresses.  An implicit first entry funds the signer F of
//	      every transaction (account number 0).
//	T     `-` | txs joined by `,`:  add.p<j> | inc.p<j> | fail.p<j> | v3ok | v3bad   followed by metadata fields
//	      @m (empty metadata) @t<ts> @h<height> @c<k> (chain id old<k>) @F (failed on source chain)
//	      @s<a<i>|F>:<accnum>:<seq> (signer info, repeatable)
//
// output (the part the Lean model predicts):   mem=<R> str=<R>     (`str==` when both are equal;
// a dump longer than 90 bytes is printed as #<accounts>:<FNV-1a 32 of the dump>)
//
//	R = refuse:<class> | panic:<class> | ok v<first commit version> tx=<ok|fail|skip,...> fc=<fee collector acc number|-> acc=<dump>
//	dump = a<i>#<accnum>/<seq>:<coins> for the addresses a0..a31 that exist, joined by `;`
//
// oracle (independent of the model; the property statement evaluated on the five runs):
//
//	nondet-mem / nondet-stream   two runs of the same mode differ in app hash, tx results or state dump
//	value-vs-file                the Go value and the file loaded in memory give different outcomes
//	mode-hash / mode-results     both modes boot but app hash / tx results (error, data, events, gas) differ
//	initial-height-ignored       both modes boot with equal hash and results but the first commit lands at different versions
//	refuse-<why>                 one mode refuses (error or panic) the genesis the other one boots
//	rep-hash                     same genesis content under another textual representation gives another hash/outcome
//	(no verdict `-` for omit= lines: a key missing from app_state is outside the documented schema)
package main

import (
	"bytes"
	"encoding/hex"
	"encoding/json"
	"fmt"
	"hash/fnv"
	"os"
	"path/filepath"
	"sort"
	"strconv"
	"strings"
	"time"

	"github.com/gnolang/gno/gno.land/pkg/gnoland"
	"github.com/gnolang/gno/gno.land/pkg/sdk/vm"
	"github.com/gnolang/gno/gnovm/pkg/gnolang"
	"github.com/gnolang/gno/tm2/pkg/amino"
	abci "github.com/gnolang/gno/tm2/pkg/bft/abci/types"
	bft "github.com/gnolang/gno/tm2/pkg/bft/types"
	"github.com/gnolang/gno/tm2/pkg/crypto"
	"github.com/gnolang/gno/tm2/pkg/crypto/ed25519"
	"github.com/gnolang/gno/tm2/pkg/crypto/secp256k1"
	"github.com/gnolang/gno/tm2/pkg/db/memdb"
	"github.com/gnolang/gno/tm2/pkg/log"
	"github.com/gnolang/gno/tm2/pkg/sdk"
	"github.com/gnolang/gno/tm2/pkg/sdk/auth"
	"github.com/gnolang/gno/tm2/pkg/std"
	stypes "github.com/gnolang/gno/tm2/pkg/store/types"
	"gnoverif/kit"
)

const (
	chainID    = "verif-c53"
	nDump      = 32
	nPkgs      = 4
	maxBalance = 40000
	v3Path     = "gno.land/r/sys/validators/v3"
)

var denoms = []string{"atom", "ugnot", "zed"}

// ---------------------------------------------------------------- op grammar

type coin struct {
	denom string
	amt   int64
}
type balEnt struct {
	addr, count int
	coins       []coin
	vest        byte // 0, 'c' (continuous vesting), 'd' (delayed vesting)
}
type sinfo struct {
	who      int // -1 = F
	num, seq uint64
}
type txSpec struct {
	kind   string // add inc fail v3ok v3bad
	pkg    int
	meta   bool
	ts, h  int64
	chain  int // -1 none
	failed bool
	si     []sinfo
}
type spec struct {
	rep, prm     int
	topIH, appIH int64
	grm          string
	pc, val      int
	bal          []balEnt
	txs          []txSpec
	omit         string
	content      string // the line without the rep token (rep-independence key)
}

func kv(tok, key string) (string, bool) {
	if !strings.HasPrefix(tok, key+"=") {
		return "", false
	}
	return tok[len(key)+1:], true
}

func atoiRange(s string, lo, hi int64) (int64, bool) {
	if s == "" || len(s) > 18 || (len(s) > 1 && s[0] == '0') {
		return 0, false
	}
	for _, c := range s {
		if c < '0' || c > '9' {
			return 0, false
		}
	}
	n, err := strconv.ParseInt(s, 10, 64)
	if err != nil || n < lo || n > hi {
		return 0, false
	}
	return n, true
}

func parseCoins(s string) ([]coin, bool) {
	if s == "-" {
		return nil, true
	}
	var out []coin
	last := -1
	for _, p := range strings.Split(s, "+") {
		i := 0
		for i < len(p) && p[i] >= '0' && p[i] <= '9' {
			i++
		}
		amt, ok := atoiRange(p[:i], 1, 1<<60)
		if !ok {
			return nil, false
		}
		di := -1
		for k, d := range denoms {
			if d == p[i:] {
				di = k
			}
		}
		if di <= last {
			return nil, false
		}
		last = di
		out = append(out, coin{denoms[di], amt})
	}
	return out, true
}

func parseAddr(s string) (int, bool) {
	if s == "F" {
		return -1, true
	}
	if len(s) < 2 || s[0] != 'a' {
		return 0, false
	}
	n, ok := atoiRange(s[1:], 0, 1<<20)
	return int(n), ok
}

func parseBal(s string) ([]balEnt, bool) {
	if s == "-" {
		return nil, true
	}
	var out []balEnt
	total := 0
	for _, e := range strings.Split(s, ",") {
		cnt := int64(1)
		if i := strings.IndexByte(e, '*'); i >= 0 {
			var ok bool
			if cnt, ok = atoiRange(e[i+1:], 1, maxBalance); !ok {
				return nil, false
			}
			e = e[:i]
		}
		var vest byte
		if strings.HasSuffix(e, "^c") || strings.HasSuffix(e, "^d") {
			vest, e = e[len(e)-1], e[:len(e)-2]
		}
		i := strings.IndexByte(e, ':')
		if i < 0 {
			return nil, false
		}
		a, ok := parseAddr(e[:i])
		if !ok || a < 0 {
			return nil, false
		}
		cs, ok := parseCoins(e[i+1:])
		if !ok || (vest != 0 && len(cs) == 0) {
			return nil, false
		}
		total += int(cnt)
		if total > maxBalance {
			return nil, false
		}
		out = append(out, balEnt{a, int(cnt), cs, vest})
	}
	return out, true
}

func parseTxs(s string) ([]txSpec, bool) {
	if s == "-" {
		return nil, true
	}
	var out []txSpec
	for _, e := range strings.Split(s, ",") {
		parts := strings.Split(e, "@")
		t := txSpec{chain: -1}
		head := strings.Split(parts[0], ".")
		switch {
		case len(head) == 1 && (head[0] == "v3ok" || head[0] == "v3bad"):
			t.kind = head[0]
		case len(head) == 2 && (head[0] == "add" || head[0] == "inc" || head[0] == "fail") && len(head[1]) == 2 && head[1][0] == 'p':
			j, ok := atoiRange(head[1][1:], 0, nPkgs-1)
			if !ok {
				return nil, false
			}
			t.kind, t.pkg = head[0], int(j)
		default:
			return nil, false
		}
		for _, m := range parts[1:] {
			if m == "" {
				return nil, false
			}
			t.meta = true
			arg := m[1:]
			var ok bool
			switch m[0] {
			case 'm':
				ok = arg == ""
			case 'F':
				ok = arg == ""
				t.failed = true
			case 't':
				t.ts, ok = atoiRange(arg, 1, 1<<40)
			case 'h':
				t.h, ok = atoiRange(arg, 1, 1<<40)
			case 'c':
				var k int64
				k, ok = atoiRange(arg, 0, 2)
				t.chain = int(k)
			case 's':
				f := strings.Split(arg, ":")
				if len(f) != 3 {
					return nil, false
				}
				who, ok1 := parseAddr(f[0])
				num, ok2 := atoiRange(f[1], 0, 1<<40)
				seq, ok3 := atoiRange(f[2], 0, 1<<40)
				ok = ok1 && ok2 && ok3
				t.si = append(t.si, sinfo{who, uint64(num), uint64(seq)})
			}
			if !ok {
				return nil, false
			}
		}
		out = append(out, t)
	}
	return out, true
}

func parseSpec(toks []string) (*spec, bool) {
	if len(toks) < 9 || len(toks) > 10 || toks[0] != "g" {
		return nil, false
	}
	s := &spec{}
	get := func(i int, key string) (string, bool) { return kv(toks[i], key) }
	v, ok := get(1, "rep")
	n, ok2 := atoiRange(v, 0, 63)
	if !ok || !ok2 {
		return nil, false
	}
	s.rep = int(n)
	v, ok = get(2, "prm")
	n, ok2 = atoiRange(v, 0, 3)
	if !ok || !ok2 {
		return nil, false
	}
	s.prm = int(n)
	v, ok = get(3, "ih")
	f := strings.Split(v, "/")
	if !ok || len(f) != 2 {
		return nil, false
	}
	if s.topIH, ok = atoiRange(f[0], 0, 1<<40); !ok {
		return nil, false
	}
	if s.appIH, ok = atoiRange(f[1], 0, 1<<40); !ok {
		return nil, false
	}
	v, ok = get(4, "grm")
	if !ok || !(v == "-" || v == "strict" || v == "source" || v == "bogus") {
		return nil, false
	}
	s.grm = v
	v, ok = get(5, "pc")
	n, ok2 = atoiRange(v, 0, 2)
	if !ok || !ok2 {
		return nil, false
	}
	s.pc = int(n)
	v, ok = get(6, "val")
	n, ok2 = atoiRange(v, 0, 1)
	if !ok || !ok2 {
		return nil, false
	}
	s.val = int(n)
	v, ok = get(7, "bal")
	if !ok {
		return nil, false
	}
	if s.bal, ok = parseBal(v); !ok {
		return nil, false
	}
	v, ok = get(8, "tx")
	if !ok {
		return nil, false
	}
	if s.txs, ok = parseTxs(v); !ok {
		return nil, false
	}
	if len(toks) == 10 {
		v, ok = get(9, "omit")
		if !ok || !(v == "bank" || v == "auth") {
			return nil, false
		}
		s.omit = v
	}
	s.content = strings.Join(append([]string{toks[0]}, toks[2:]...), " ")
	return s, true
}

// ---------------------------------------------------------------- building the genesis

var (
	fKey   = secp256k1.GenPrivKeySecp256k1([]byte("c53-F"))
	fAddr  = fKey.PubKey().Address()
	valKey = ed25519.GenPrivKeyFromSecret([]byte("c53-validator"))
	t0     = time.Unix(1_700_000_000, 0).UTC()
)

var addrCache = map[int]crypto.Address{}

func addrOf(i int) crypto.Address {
	if i < 0 {
		return fAddr
	}
	if a, ok := addrCache[i]; ok {
		return a
	}
	a := crypto.AddressFromPreimage([]byte("c53-a" + strconv.Itoa(i)))
	if len(addrCache) < 4096 {
		addrCache[i] = a
	}
	return a
}

func sortedFiles(fs ...*std.MemFile) []*std.MemFile {
	sort.Slice(fs, func(i, j int) bool { return fs[i].Name < fs[j].Name })
	return fs
}

func pkgPath(j int) string { return "gno.land/r/verif/p" + strconv.Itoa(j) }

func pkgSrc(j int) string {
	return "package p" + strconv.Itoa(j) + "\n\nvar X = " + strconv.Itoa(j+1) +
		"\n\nfunc Inc(cur realm) { X++ }\n\nfunc Fail(cur realm) { panic(\"fail\") }\n"
}

func (t *txSpec) msg() std.Msg {
	switch t.kind {
	case "add":
		p := pkgPath(t.pkg)
		return vm.NewMsgAddPackage(fAddr, p, sortedFiles(
			&std.MemFile{Name: "gnomod.toml", Body: gnolang.GenGnoModLatest(p)},
			&std.MemFile{Name: "p" + strconv.Itoa(t.pkg) + ".gno", Body: pkgSrc(t.pkg)}))
	case "inc":
		return vm.NewMsgCall(fAddr, nil, pkgPath(t.pkg), "Inc", nil)
	case "fail":
		return vm.NewMsgCall(fAddr, nil, pkgPath(t.pkg), "Fail", nil)
	}
	body := "package validators\n\nfunc AssertGenesisValopersConsistent(cur realm) {}\n"
	if t.kind == "v3bad" {
		body = "package validators\n\nfunc AssertGenesisValopersConsistent(cur realm) { panic(\"uncovered\") }\n"
	}
	return vm.NewMsgAddPackage(fAddr, v3Path, sortedFiles(
		&std.MemFile{Name: "gnomod.toml", Body: gnolang.GenGnoModLatest(v3Path)},
		&std.MemFile{Name: "v3.gno", Body: body}))
}

func toCoins(cs []coin) std.Coins {
	out := std.Coins{}
	for _, c := range cs {
		out = append(out, std.Coin{Denom: c.denom, Amount: c.amt})
	}
	return out
}

func (s *spec) state() gnoland.GnoGenesisState {
	gs := gnoland.DefaultGenState()
	switch s.prm {
	case 1:
		gs.Auth.Params.MaxMemoBytes = 1000
		gs.Auth.Params.TxSigLimit = 5
	case 2:
		gs.Bank.Params.RestrictedDenoms = []string{"zed"}
	case 3:
		gs.VM.Params.ChainDomain = "gno.land"
		gs.Auth.Params.TargetGasRatio = 60
	}
	gs.Balances = append(gs.Balances, gnoland.Balance{Address: fAddr, Amount: std.Coins{{Denom: "ugnot", Amount: 1 << 50}}})
	for _, b := range s.bal {
		for k := 0; k < b.count; k++ {
			bal := gnoland.Balance{Address: addrOf(b.addr + k), Amount: toCoins(b.coins)}
			if b.vest != 0 {
				bal.Vesting = &std.VestingSchedule{OriginalVesting: toCoins(b.coins), StartTime: t0.Unix() + 100, EndTime: t0.Unix() + 100000}
				if b.vest == 'd' {
					bal.Vesting.Type = std.VestingDelayed
				}
			}
			gs.Balances = append(gs.Balances, bal)
		}
	}
	for i := range s.txs {
		t := &s.txs[i]
		tx := gnoland.TxWithMetadata{Tx: std.Tx{
			Msgs:       []std.Msg{t.msg()},
			Fee:        std.Fee{GasWanted: 1e9, GasFee: std.Coin{Amount: 1, Denom: "ugnot"}},
			Signatures: []std.Signature{{}},
		}}
		if t.meta {
			md := &gnoland.GnoTxMetadata{Timestamp: t.ts, BlockHeight: t.h, Failed: t.failed}
			if t.chain >= 0 {
				md.ChainID = "old" + strconv.Itoa(t.chain)
			}
			for _, si := range t.si {
				md.SignerInfo = append(md.SignerInfo, gnoland.SignerAccountInfo{Address: addrOf(si.who), AccountNum: si.num, Sequence: si.seq})
			}
			tx.Metadata = md
		}
		gs.Txs = append(gs.Txs, tx)
	}
	for k := 0; k < s.pc; k++ {
		gs.PastChainIDs = append(gs.PastChainIDs, "old"+strconv.Itoa(k))
	}
	gs.InitialHeight = s.appIH
	if s.grm != "-" {
		gs.GasReplayMode = s.grm
	}
	return gs
}

func (s *spec) doc() *bft.GenesisDoc {
	d := &bft.GenesisDoc{
		GenesisTime:   t0,
		ChainID:       chainID,
		InitialHeight: s.topIH,
		ConsensusParams: abci.ConsensusParams{
			Block: &abci.BlockParams{MaxTxBytes: 1e6, MaxDataBytes: 2e6, MaxGas: 3e10, TimeIotaMS: 100},
		},
		AppState: s.state(),
	}
	if s.val == 1 {
		d.Validators = []bft.GenesisValidator{{Address: valKey.PubKey().Address(), PubKey: valKey.PubKey(), Power: 10, Name: "v"}}
	}
	return d
}

// ---------------------------------------------------------------- textual representations

type kvRaw struct {
	k string
	v json.RawMessage
}

func splitObject(raw []byte) []kvRaw {
	dec := json.NewDecoder(bytes.NewReader(raw))
	if tok, err := dec.Token(); err != nil || tok != json.Delim('{') {
		panic("splitObject: not an object")
	}
	var out []kvRaw
	for dec.More() {
		tok, err := dec.Token()
		if err != nil {
			panic(err)
		}
		var v json.RawMessage
		if err := dec.Decode(&v); err != nil {
			panic(err)
		}
		out = append(out, kvRaw{tok.(string), v})
	}
	return out
}

func splitArray(raw []byte) ([]json.RawMessage, bool) {
	if string(bytes.TrimSpace(raw)) == "null" {
		return nil, false
	}
	var out []json.RawMessage
	if err := json.Unmarshal(raw, &out); err != nil {
		panic(err)
	}
	return out, true
}

func joinObject(kvs []kvRaw) []byte {
	var b bytes.Buffer
	b.WriteByte('{')
	for i, e := range kvs {
		if i > 0 {
			b.WriteByte(',')
		}
		k, _ := json.Marshal(e.k)
		b.Write(k)
		b.WriteByte(':')
		b.Write(e.v)
	}
	b.WriteByte('}')
	return b.Bytes()
}

// render produces the genesis.json text.  rep bits:
//
//	1  pretty-print (json.Indent) the whole document
//	2  reverse the key order inside app_state after "@type" (vm, bank, auth, txs, balances)
//	4  app_state is the first top-level key instead of the last
//	8  every balances / txs element on its own line, padded with blanks
//	16 empty balances / txs arrays are written as null
//	32 blanks and newlines after the closing brace
func (s *spec) render(d *bft.GenesisDoc) []byte {
	canon := amino.MustMarshalJSON(d)
	top := splitObject(canon)
	for i := range top {
		if top[i].k != "app_state" {
			continue
		}
		as := splitObject(top[i].v)
		var kept []kvRaw
		for _, e := range as {
			if e.k == s.omit {
				continue
			}
			if e.k == "balances" || e.k == "txs" {
				elems, isArr := splitArray(e.v)
				switch {
				case s.rep&16 != 0 && len(elems) == 0:
					e.v = json.RawMessage("null")
				case s.rep&8 != 0 && isArr && len(elems) > 0:
					var b bytes.Buffer
					b.WriteString("[\n")
					for j, el := range elems {
						b.WriteString("   ")
						b.Write(el)
						if j < len(elems)-1 {
							b.WriteString(" ,")
						}
						b.WriteString("  \n")
					}
					b.WriteString("]")
					e.v = b.Bytes()
				}
			}
			kept = append(kept, e)
		}
		if s.rep&2 != 0 { // amino's Any wrapper must start with "@type": reverse the rest
			rest := kept[1:]
			if kept[0].k != "@type" {
				panic("app_state does not start with @type")
			}
			for a, b := 0, len(rest)-1; a < b; a, b = a+1, b-1 {
				rest[a], rest[b] = rest[b], rest[a]
			}
		}
		top[i].v = joinObject(kept)
		if s.rep&4 != 0 {
			e := top[i]
			copy(top[1:i+1], top[:i])
			top[0] = e
		}
		break
	}
	text := joinObject(top)
	if s.rep&1 != 0 {
		var b bytes.Buffer
		if err := json.Indent(&b, text, "", "\t"); err != nil {
			panic(err)
		}
		text = b.Bytes()
	}
	if s.rep&32 != 0 {
		text = append(text, []byte("  \n\n \n")...)
	}
	return text
}

// ---------------------------------------------------------------- one initialisation of the real app

type txObs struct {
	tok    string // ok | fail | skip
	errStr string
	data   string
	events string
	gasW   int64
	gasU   int64
}

type obs struct {
	outcome string // ok | refuse:<class> | panic:<class>
	detail  string
	ver     int64
	hash    string
	txs     []txObs
	fc      string
	dump    string
	full    string // everything else observed through queries (F, fee collector, supply)
}

func (o *obs) R() string {
	if o.outcome != "ok" {
		return o.outcome
	}
	toks := make([]string, len(o.txs))
	for i, t := range o.txs {
		toks[i] = t.tok
	}
	tx := "-"
	if len(toks) > 0 {
		tx = strings.Join(toks, ",")
	}
	dump := o.dump
	if len(dump) > 90 { // the kit cuts output lines at 300 bytes
		h := fnv.New32a()
		h.Write([]byte(dump))
		dump = fmt.Sprintf("#%d:%d", strings.Count(dump, ";")+1, h.Sum32())
	}
	return fmt.Sprintf("ok v%d tx=%s fc=%s acc=%s", o.ver, tx, o.fc, dump)
}

func (o *obs) results() string {
	var b strings.Builder
	for i, t := range o.txs {
		fmt.Fprintf(&b, "[%d %s err=%q data=%s ev=%s gas=%d/%d]", i, t.tok, t.errStr, t.data, t.events, t.gasU, t.gasW)
	}
	return b.String()
}

// same: equality of everything the statement speaks about, plus the state dump.
func diffObs(a, b *obs) string {
	switch {
	case a.outcome != b.outcome:
		return "outcome " + a.outcome + " vs " + b.outcome
	case a.outcome != "ok":
		return ""
	case a.hash != b.hash:
		return "hash " + a.hash[:16] + " vs " + b.hash[:16]
	case a.results() != b.results():
		return "tx results differ"
	case a.dump != b.dump || a.fc != b.fc || a.full != b.full:
		return "state dump differs"
	}
	return ""
}

func classifyRefusal(msg string) string {
	switch {
	case strings.Contains(msg, "InitialHeight mismatch"):
		return "initial-height"
	case strings.Contains(msg, "unknown GasReplayMode"):
		return "gas-replay-mode"
	case strings.Contains(msg, "SignerInfo collision"):
		return "signer-info"
	case strings.Contains(msg, "missing app_state.bank"):
		return "missing-bank"
	case strings.Contains(msg, "missing app_state.auth"):
		return "missing-auth"
	case strings.Contains(msg, "missing app_state.vm"):
		return "missing-vm"
	}
	return "other"
}

func classifyPanic(msg string) string {
	switch {
	case strings.Contains(msg, "valoper coverage assertion"):
		return "valoper"
	case strings.Contains(msg, "auth genesis state cannot be empty"):
		return "auth-genesis"
	case strings.Contains(msg, "invalid genesis balance"):
		return "balance"
	}
	return "other"
}

func query(app *sdk.BaseApp, path string) ([]byte, bool) {
	r := app.Query(abci.RequestQuery{Path: path})
	if r.Error != nil {
		return nil, false
	}
	return r.Data, true
}

func coinsStr(app *sdk.BaseApp, addr crypto.Address) string {
	bz, ok := query(app, "bank/balances/"+addr.String())
	if !ok {
		return "?"
	}
	var s string
	amino.MustUnmarshalJSON(bz, &s)
	if s == "" {
		return "-"
	}
	cs, err := std.ParseCoins(s)
	if err != nil {
		return "?" + s
	}
	parts := make([]string, len(cs))
	for i, c := range cs {
		parts[i] = strconv.FormatInt(c.Amount, 10) + c.Denom
	}
	return strings.Join(parts, "+")
}

// findField: the first string field `name` anywhere inside a decoded JSON value
// (the account is a GnoAccount or a vesting account wrapping a BaseAccount).
func findField(v any, name string) (string, bool) {
	switch x := v.(type) {
	case map[string]any:
		if f, ok := x[name]; ok {
			if s, ok := f.(string); ok {
				return s, true
			}
		}
		keys := make([]string, 0, len(x))
		for k := range x {
			keys = append(keys, k)
		}
		sort.Strings(keys)
		for _, k := range keys {
			if s, ok := findField(x[k], name); ok {
				return s, true
			}
		}
	}
	return "", false
}

func accountOf(app *sdk.BaseApp, addr crypto.Address) (num, seq uint64, ok bool) {
	bz, qok := query(app, "auth/accounts/"+addr.String())
	if !qok || string(bz) == "null" {
		return 0, 0, false
	}
	var v any
	if err := json.Unmarshal(bz, &v); err != nil {
		panic("c53 harness: account query: " + err.Error())
	}
	ns, ok1 := findField(v, "account_number")
	ss, ok2 := findField(v, "sequence")
	if !ok1 || !ok2 {
		panic("c53 harness: account query without number/sequence: " + string(bz))
	}
	return kit.Atou64(ns), kit.Atou64(ss), true
}

func (s *spec) dumpAddrs() []int {
	seen := map[int]bool{}
	for _, b := range s.bal {
		for k := 0; k < b.count && b.addr+k < nDump; k++ {
			seen[b.addr+k] = true
		}
	}
	for _, t := range s.txs {
		for _, si := range t.si {
			if si.who >= 0 && si.who < nDump {
				seen[si.who] = true
			}
		}
	}
	out := make([]int, 0, len(seen))
	for i := range seen {
		out = append(out, i)
	}
	sort.Ints(out)
	return out
}

func runOnce(s *spec, d *bft.GenesisDoc) (o *obs) {
	o = &obs{}
	opts := gnoland.TestAppOptions(memdb.NewMemDB())
	opts.PruneStrategy = stypes.PruneEverythingStrategy
	opts.GenesisTxResultHandler = gnoland.NoopGenesisTxResultHandler
	a, err := gnoland.NewAppWithOptions(opts)
	if err != nil {
		panic(err)
	}
	app := a.(*sdk.BaseApp)
	defer app.Close()
	// as consensus.Handshaker.ReplayBlocks (appBlockHeight == 0)
	vals := make([]*bft.Validator, len(d.Validators))
	for i, v := range d.Validators {
		vals[i] = bft.NewValidator(v.PubKey, v.Power)
	}
	cp := d.ConsensusParams
	var resp abci.ResponseInitChain
	panicked := func() (msg string) {
		defer func() {
			if r := recover(); r != nil {
				msg = "panic: " + fmt.Sprint(r)
			}
		}()
		resp = app.InitChain(abci.RequestInitChain{
			Time: d.GenesisTime, ChainID: d.ChainID, ConsensusParams: &cp,
			Validators: bft.NewValidatorSet(vals).ABCIValidatorUpdates(), AppState: d.AppState, InitialHeight: d.InitialHeight,
		})
		return ""
	}()
	if panicked != "" { // the node would not boot
		o.outcome, o.detail = "panic:"+classifyPanic(panicked), panicked
		if os.Getenv("VERIF_TRACE") != "" {
			fmt.Fprintln(os.Stderr, "c53: InitChain", panicked)
		}
		return o
	}
	if resp.Error != nil {
		o.outcome, o.detail = "refuse:"+classifyRefusal(resp.Error.Error()), resp.Error.Error()
		return o
	}
	cr := app.Commit()
	o.outcome, o.ver, o.hash = "ok", app.LastBlockHeight(), hex.EncodeToString(cr.Data)
	for i, r := range resp.TxResponses {
		t := txObs{tok: "ok", gasW: r.GasWanted, gasU: r.GasUsed, data: hex.EncodeToString(r.Data)}
		if r.Error != nil {
			t.tok, t.errStr = "fail", fmt.Sprintf("%T:%s", r.Error, r.Error.Error())
			if i < len(s.txs) && strings.HasPrefix(r.Log, "genesis replay: skipped failed tx") {
				t.tok = "skip"
			}
		}
		t.events = string(amino.MustMarshalJSON(r.Events))
		o.txs = append(o.txs, t)
	}
	var parts []string
	for _, i := range s.dumpAddrs() {
		if num, seq, ok := accountOf(app, addrOf(i)); ok {
			parts = append(parts, fmt.Sprintf("a%d#%d/%d:%s", i, num, seq, coinsStr(app, addrOf(i))))
		}
	}
	o.dump = "-"
	if len(parts) > 0 {
		o.dump = strings.Join(parts, ";")
	}
	fcAddr := auth.DefaultParams().FeeCollector
	o.fc = "-"
	if num, _, ok := accountOf(app, fcAddr); ok {
		o.fc = strconv.FormatUint(num, 10)
	}
	fn, fs, _ := accountOf(app, fAddr)
	o.full = fmt.Sprintf("F#%d/%d:%s fc:%s", fn, fs, coinsStr(app, fAddr), coinsStr(app, fcAddr))
	for _, dn := range denoms {
		bz, _ := query(app, "bank/supply/"+dn)
		o.full += " supply." + dn + "=" + string(bz)
	}
	return o
}

var tmpBase string

func caseDir() string {
	if tmpBase == "" {
		var err error
		if tmpBase, err = os.MkdirTemp("", "gvh_c53_"); err != nil {
			panic(err)
		}
	}
	d, err := os.MkdirTemp(tmpBase, "g")
	if err != nil {
		panic(err)
	}
	return d
}

type loadFn func() (*bft.GenesisDoc, error)

func runLoaded(s *spec, load loadFn) *obs {
	d, err := load()
	if err != nil {
		return &obs{outcome: "loaderr", detail: err.Error()}
	}
	if err := d.ValidateAndComplete(); err != nil { // state.MakeGenesisState does this in the node
		return &obs{outcome: "loaderr", detail: err.Error()}
	}
	return runOnce(s, d)
}

// ---------------------------------------------------------------- exec + oracle

type caseMemo struct {
	mem, str string // R strings
	hash     string
	line     string
}

var perCase map[string]*caseMemo

func reset() { perCase = map[string]*caseMemo{} }

func exec(toks []string) (string, string) {
	s, ok := parseSpec(toks)
	if !ok {
		return "err:badop", "-"
	}
	dir := caseDir()
	defer func() {
		os.RemoveAll(tmpBase)
		tmpBase = ""
	}()
	path := filepath.Join(dir, "genesis.json")
	cache := filepath.Join(dir, "cache")
	if err := os.WriteFile(path, s.render(s.doc()), 0o644); err != nil {
		panic(err)
	}
	val := runLoaded(s, func() (*bft.GenesisDoc, error) { return s.doc(), nil })
	memLoad := func() (*bft.GenesisDoc, error) { return bft.GenesisDocFromFile(path) }
	strLoad := func() (*bft.GenesisDoc, error) {
		return gnoland.LoadStreamingGenesisDoc(path, cache, log.NewNoopLogger())
	}
	mem1, mem2 := runLoaded(s, memLoad), runLoaded(s, memLoad)
	str1, str2 := runLoaded(s, strLoad), runLoaded(s, strLoad) // cold cache, then warm cache
	impl := "mem=" + mem1.R() + " str=" + str1.R()
	if mem1.R() == str1.R() {
		impl = "mem=" + mem1.R() + " str=="
	}

	// ---- oracle
	var viol string
	switch {
	case diffObs(mem1, mem2) != "":
		viol = "VIOL:nondet-mem two in-memory runs: " + diffObs(mem1, mem2)
	case diffObs(str1, str2) != "":
		viol = "VIOL:nondet-stream cold-cache vs warm-cache streaming runs: " + diffObs(str1, str2)
	case s.omit == "" && diffObs(val, mem1) != "":
		viol = "VIOL:value-vs-file Go value vs file loaded in memory: " + diffObs(val, mem1)
	case s.omit != "":
	case mem1.outcome == "ok" && str1.outcome == "ok":
		switch {
		case mem1.hash != str1.hash:
			viol = "VIOL:mode-hash in-memory " + mem1.hash[:16] + " streaming " + str1.hash[:16]
		case mem1.results() != str1.results():
			viol = "VIOL:mode-results genesis tx results differ between the modes"
		case mem1.ver != str1.ver:
			viol = fmt.Sprintf("VIOL:initial-height-ignored first commit lands at version %d in memory, %d when streamed (same hash and results)", mem1.ver, str1.ver)
		}
	case mem1.outcome == "ok" || str1.outcome == "ok":
		bad, who := mem1, "in-memory"
		if mem1.outcome == "ok" {
			bad, who = str1, "streaming"
		}
		why := bad.outcome[strings.IndexByte(bad.outcome, ':')+1:]
		if bad.outcome == "loaderr" {
			why = "load"
		}
		viol = fmt.Sprintf("VIOL:refuse-%s only the %s path refuses this genesis (%s): %s", why, who, bad.outcome, kitOneLine(bad.detail))
	case mem1.outcome != str1.outcome:
		viol = "VIOL:refuse-mismatch both refuse, differently: " + mem1.outcome + " vs " + str1.outcome
	}
	if viol == "" && s.omit == "" {
		if m, ok := perCase[s.content]; ok {
			if m.mem != mem1.R() || m.str != str1.R() || m.hash != mem1.hash+"/"+str1.hash {
				viol = "VIOL:rep-hash same genesis content, other text: " + m.line + " gave " + m.hash
			}
		} else {
			perCase[s.content] = &caseMemo{mem1.R(), str1.R(), mem1.hash + "/" + str1.hash, strings.Join(toks[:2], " ")}
		}
	}
	if viol != "" {
		return impl, viol
	}
	if s.omit != "" {
		return impl, "-"
	}
	return impl, "ok"
}

func kitOneLine(s string) string {
	s = strings.ReplaceAll(s, "\n", " ")
	if len(s) > 160 {
		s = s[:160]
	}
	return s
}

func main() {
	kit.Main(&kit.Harness{Gen: gen, Reset: reset, Exec: exec})
}
