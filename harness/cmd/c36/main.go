// Harness for C36: commit verification (tm2/pkg/bft/types ValidatorSet.VerifyCommit /
// VerifyFutureCommit, Commit.ValidateBasic) on REAL validator sets, REAL ed25519
// keys and REAL signatures.
//
// One commit per op line (see lean/GnoVerif/Drive/C36.lean):
//
//	vc  H B CB VALS            e1 … eN
//	vfc H B CB OLDVALS NEWVALS e1 … eN
//
//	VALS   "-" or "addr:power,…" in set order; addr = rank of the real 20-byte
//	       address among the harness' fixed pool of 12 keys + 4 key-less addresses
//	       (so numeric order of ids = byte order of addresses)
//	B, CB  block-id ids; 0 = zero BlockID, distinct ids = pairwise non-Equal BlockIDs
//	entry  "-" (nil) or type:height:round:bid:ts:vidx:vaddr:sig:n:o
//	       sig recipe: S<k> key k signs this entry's own canonical vote; X<k> same with a
//	       flipped bit; T<k> truncated; L<k> one byte too long; Z no signature;
//	       V<k>/<type>/<height>/<round>/<bid>/<ts>/<chain> key k signs some other vote
//	       n = signature verifies under VALS[idx] (resp. NEWVALS[idx]) over the entry's sign bytes
//	       o = signature verifies under the key of the OLDVALS validator whose address is vaddr
//	       (both recomputed here with real verification; a line whose bits are wrong
//	       is answered err:sigbits, which no model output matches)
//
// output: ok | err:<class>   (class = which error site of the real code fired)
// oracle: independent recount from the entries with real signature verification and
// math/big: accept ⇔ well-formed ∧ 3·(power that signed B) > 2·total (and the same for
// the old set in vfc); plus, on every accept, a declared-address-blind recount.
package main

import (
	"crypto/sha256"
	"fmt"
	"math/big"
	"sort"
	"strconv"
	"strings"
	"time"

	"github.com/gnolang/gno/tm2/pkg/bft/types"
	"github.com/gnolang/gno/tm2/pkg/crypto"
	"github.com/gnolang/gno/tm2/pkg/crypto/ed25519"
	"gnoverif/kit"
)

const (
	chainID    = "c36-chain"
	otherChain = "c36-other-chain"
	nKeys      = 12
	nFake      = 4
	nPool      = nKeys + nFake
	maxTotal   = int64(^uint64(0)>>1) / 8 // MaxTotalVotingPower
)

// ---------------------------------------------------------------- key / address pool

type poolEnt struct {
	addr   crypto.Address
	hasKey bool
	priv   ed25519.PrivKeyEd25519
	pub    crypto.PubKey
}

var pool []poolEnt // index = address id (rank by address bytes)
var keyIDs []int   // address ids that have a key, ascending
var fakeIDs []int  // address ids without a key

func init() {
	for i := 0; i < nKeys; i++ {
		priv := ed25519.GenPrivKeyFromSecret([]byte(fmt.Sprintf("c36-key-%d", i)))
		pub := priv.PubKey()
		pool = append(pool, poolEnt{addr: pub.Address(), hasKey: true, priv: priv, pub: pub})
	}
	for i := 0; i < nFake; i++ {
		h := sha256.Sum256([]byte(fmt.Sprintf("c36-fake-%d", i)))
		pool = append(pool, poolEnt{addr: crypto.MustAddressFromBytes(h[:20])})
	}
	sort.Slice(pool, func(i, j int) bool { return pool[i].addr.Compare(pool[j].addr) < 0 })
	for i, p := range pool {
		if p.hasKey {
			keyIDs = append(keyIDs, i)
		} else {
			fakeIDs = append(fakeIDs, i)
		}
	}
}

func blockIDOf(id int) types.BlockID {
	if id == 0 {
		return types.BlockID{}
	}
	k := id % 1000
	h := sha256.Sum256([]byte(fmt.Sprintf("c36-block-%d", k)))
	p := sha256.Sum256([]byte(fmt.Sprintf("c36-parts-%d", k)))
	b := types.BlockID{Hash: h[:], PartsHeader: types.PartSetHeader{Total: k + 1, Hash: p[:]}}
	switch id / 1000 {
	case 0:
	case 1: // same hash, other part count
		b.PartsHeader.Total = k + 2000
	case 2: // same hash, other parts hash
		q := sha256.Sum256([]byte(fmt.Sprintf("c36-parts2-%d", k)))
		b.PartsHeader.Hash = q[:]
	case 3: // no block hash, parts only
		b.Hash = nil
	case 4: // hash only, zero parts header
		b.PartsHeader = types.PartSetHeader{}
	default:
		panic("bad block id")
	}
	return b
}

// ---------------------------------------------------------------- scenario

type vp struct {
	id    int
	power int64
}

type entry struct {
	isNil  bool
	typ    int
	height int64
	round  int
	bid    int
	ts     int64
	vidx   int
	vaddr  int
	sig    string
	n, o   bool
}

type scenario struct {
	future   bool
	H        int64
	B, CB    int
	old, new []vp // for vc only `new` is used
	es       []entry
}

func tsOf(ts int64) time.Time { return time.Unix(1700000000+ts, 0).UTC() }

func signBytesOf(typ int, height int64, round int, bid int, ts int64, chain string) []byte {
	v := &types.Vote{Type: types.SignedMsgType(byte(typ)), Height: height, Round: round,
		BlockID: blockIDOf(bid), Timestamp: tsOf(ts)}
	return v.SignBytes(chain)
}

func (e *entry) ownSignBytes() []byte {
	return signBytesOf(e.typ, e.height, e.round, e.bid, e.ts, chainID)
}

var sigCache = map[string][]byte{}

func signWith(k int, msg []byte) []byte {
	if k < 0 || k >= nPool || !pool[k].hasKey {
		panic("badop: no such key")
	}
	ck := strconv.Itoa(k) + "|" + string(msg)
	if s, ok := sigCache[ck]; ok {
		return append([]byte(nil), s...)
	}
	s, err := pool[k].priv.Sign(msg)
	if err != nil {
		panic(err)
	}
	if len(sigCache) > 200000 {
		sigCache = map[string][]byte{}
	}
	sigCache[ck] = s
	return append([]byte(nil), s...)
}

func (e *entry) signature() []byte {
	r := e.sig
	if r == "Z" {
		return nil
	}
	if len(r) < 2 {
		panic("badop: sig recipe")
	}
	switch r[0] {
	case 'S', 'X', 'T', 'L':
		k := kit.Atoi(r[1:])
		s := signWith(k, e.ownSignBytes())
		switch r[0] {
		case 'X':
			s[7] ^= 0x10
		case 'T':
			s = s[:len(s)-1]
		case 'L':
			s = append(s, 0)
		}
		return s
	case 'V':
		f := strings.Split(r[1:], "/")
		if len(f) != 7 {
			panic("badop: V recipe")
		}
		chain := chainID
		if f[6] != "0" {
			chain = otherChain
		}
		return signWith(kit.Atoi(f[0]), signBytesOf(kit.Atoi(f[1]), kit.Atoi64(f[2]), kit.Atoi(f[3]), kit.Atoi(f[4]), kit.Atoi64(f[5]), chain))
	}
	panic("badop: sig recipe")
}

// realBits recomputes n and o for every entry by real verification.
func (sc *scenario) realBits() (n, o []bool) {
	n = make([]bool, len(sc.es))
	o = make([]bool, len(sc.es))
	for i := range sc.es {
		e := &sc.es[i]
		if e.isNil {
			continue
		}
		msg, sig := e.ownSignBytes(), e.signature()
		if i < len(sc.new) {
			n[i] = pool[sc.new[i].id].pub.VerifyBytes(msg, sig)
		}
		if sc.future {
			for _, v := range sc.old {
				if v.id == e.vaddr {
					o[i] = pool[v.id].pub.VerifyBytes(msg, sig)
				}
			}
		}
	}
	return
}

// ---------------------------------------------------------------- line <-> scenario

func valsTok(vs []vp) string {
	if len(vs) == 0 {
		return "-"
	}
	s := make([]string, len(vs))
	for i, v := range vs {
		s[i] = fmt.Sprintf("%d:%d", v.id, v.power)
	}
	return strings.Join(s, ",")
}

func bit(b bool) string {
	if b {
		return "1"
	}
	return "0"
}

func (sc *scenario) line() string {
	n, o := sc.realBits()
	var sb strings.Builder
	if sc.future {
		fmt.Fprintf(&sb, "vfc %d %d %d %s %s", sc.H, sc.B, sc.CB, valsTok(sc.old), valsTok(sc.new))
	} else {
		fmt.Fprintf(&sb, "vc %d %d %d %s", sc.H, sc.B, sc.CB, valsTok(sc.new))
	}
	for i, e := range sc.es {
		if e.isNil {
			sb.WriteString(" -")
			continue
		}
		fmt.Fprintf(&sb, " %d:%d:%d:%d:%d:%d:%d:%s:%s:%s", e.typ, e.height, e.round, e.bid, e.ts, e.vidx, e.vaddr, e.sig, bit(n[i]), bit(o[i]))
	}
	return sb.String()
}

type badop struct{}

func parseVals(s string) []vp {
	if s == "-" {
		return nil
	}
	var out []vp
	for _, t := range strings.Split(s, ",") {
		f := strings.Split(t, ":")
		if len(f) != 2 {
			panic(badop{})
		}
		id, e1 := strconv.Atoi(f[0])
		p, e2 := strconv.ParseInt(f[1], 10, 64)
		if e1 != nil || e2 != nil || id < 0 {
			panic(badop{})
		}
		out = append(out, vp{id, p})
	}
	return out
}

func parseBit(s string) bool {
	switch s {
	case "1":
		return true
	case "0":
		return false
	}
	panic(badop{})
}

func parseEntry(s string) entry {
	if s == "-" {
		return entry{isNil: true}
	}
	f := strings.Split(s, ":")
	if len(f) != 10 {
		panic(badop{})
	}
	ai := func(x string) int {
		v, err := strconv.Atoi(x)
		if err != nil {
			panic(badop{})
		}
		return v
	}
	a64 := func(x string) int64 {
		v, err := strconv.ParseInt(x, 10, 64)
		if err != nil {
			panic(badop{})
		}
		return v
	}
	e := entry{typ: ai(f[0]), height: a64(f[1]), round: ai(f[2]), bid: ai(f[3]), ts: a64(f[4]),
		vidx: ai(f[5]), vaddr: ai(f[6]), sig: f[7], n: parseBit(f[8]), o: parseBit(f[9])}
	if e.typ < 0 || e.typ > 255 || e.bid < 0 || e.bid >= 5000 || e.vaddr < 0 || e.vaddr >= nPool {
		panic(badop{})
	}
	return e
}

func parseLine(t []string) *scenario {
	sc := &scenario{}
	var rest []string
	switch {
	case len(t) >= 5 && t[0] == "vc":
		sc.new = parseVals(t[4])
		rest = t[5:]
	case len(t) >= 6 && t[0] == "vfc":
		sc.future = true
		sc.old = parseVals(t[4])
		sc.new = parseVals(t[5])
		rest = t[6:]
	default:
		panic(badop{})
	}
	h, err := strconv.ParseInt(t[1], 10, 64)
	if err != nil {
		panic(badop{})
	}
	sc.H = h
	b, e1 := strconv.Atoi(t[2])
	cb, e2 := strconv.Atoi(t[3])
	if e1 != nil || e2 != nil || b < 0 || cb < 0 || b >= 5000 || cb >= 5000 {
		panic(badop{})
	}
	sc.B, sc.CB = b, cb
	for _, s := range rest {
		sc.es = append(sc.es, parseEntry(s))
	}
	return sc
}

// ---------------------------------------------------------------- real objects

// buildSet makes the real ValidatorSet; ok=false when the real type refuses the
// list (or the line does not list the validators in set order).
func buildSet(vs []vp) (set *types.ValidatorSet, ok bool) {
	for i, v := range vs {
		if v.id >= nPool || !pool[v.id].hasKey {
			panic(badop{})
		}
		if i > 0 && vs[i-1].id >= v.id {
			return nil, false
		}
	}
	defer func() {
		if r := recover(); r != nil {
			set, ok = nil, false
		}
	}()
	lst := make([]*types.Validator, len(vs))
	for i, v := range vs {
		lst[i] = types.NewValidator(pool[v.id].pub, v.power)
	}
	set = types.NewValidatorSet(lst)
	for i, v := range vs {
		if set.Validators[i].Address != pool[v.id].addr || set.Validators[i].VotingPower != v.power {
			panic("harness: set order differs from line order")
		}
	}
	return set, true
}

// buildCommit makes a FRESH commit (its height/round memo is empty).
func (sc *scenario) buildCommit() *types.Commit {
	pcs := make([]*types.CommitSig, len(sc.es))
	for i := range sc.es {
		e := &sc.es[i]
		if e.isNil {
			continue
		}
		pcs[i] = &types.CommitSig{
			Type: types.SignedMsgType(byte(e.typ)), Height: e.height, Round: e.round,
			BlockID: blockIDOf(e.bid), Timestamp: tsOf(e.ts),
			ValidatorAddress: pool[e.vaddr].addr, ValidatorIndex: e.vidx,
			Signature: e.signature(),
		}
	}
	return types.NewCommit(blockIDOf(sc.CB), pcs)
}

func classify(err error, future bool) string {
	if err == nil {
		return "ok"
	}
	switch err.(type) {
	case types.InvalidCommitPrecommitsError:
		return "err:size"
	case types.InvalidCommitHeightError:
		return "err:height"
	}
	if types.IsErrTooMuchChange(err) {
		if future {
			return "err:fpower"
		}
		return "err:power"
	}
	m := err.Error()
	has := func(s string) bool { return strings.Contains(m, s) }
	switch {
	case has("Commit cannot be for nil block"):
		return "err:nilblock"
	case has("No precommits in commit"):
		return "err:noprecommits"
	case has("invalid commit vote. Expected precommit"):
		return "err:vtype"
	case has("invalid commit precommit height"):
		return "err:vheight"
	case has("invalid commit precommit round"):
		return "err:vround"
	case has("invalid commit -- wrong block id"):
		return "err:blockid"
	case has("invalid commit -- invalid signature"):
		return "err:sig"
	case has("Blocks don't match"):
		return "err:fheight"
	case has("Invalid commit -- wrong round"):
		return "err:fround"
	case has("Invalid commit -- not precommit"):
		return "err:ftype"
	case has("Invalid commit -- invalid signature"):
		return "err:fsig"
	}
	return "err:unknown"
}

// ---------------------------------------------------------------- oracle (independent)

func big3gt2(tally, total *big.Int) bool {
	l := new(big.Int).Mul(big.NewInt(3), tally)
	r := new(big.Int).Mul(big.NewInt(2), total)
	return l.Cmp(r) > 0
}

func totalOf(vs []vp) *big.Int {
	t := new(big.Int)
	for _, v := range vs {
		t.Add(t, big.NewInt(v.power))
	}
	return t
}

// specVC evaluates the statement for one set: well-formed ∧ more than 2/3 signed B.
// n[i] = real verification of entry i under vals[i].
func specVC(vals []vp, B int, H int64, CB int, es []entry, n []bool) (accept bool, why string) {
	if CB == 0 {
		return false, "nil-block"
	}
	if len(es) != len(vals) {
		return false, "size"
	}
	if CB != B {
		return false, "block-id"
	}
	haveRound, round := false, 0
	tally := new(big.Int)
	for i, e := range es {
		if e.isNil {
			continue
		}
		if e.typ != int(types.PrecommitType) || e.height != H {
			return false, "entry-kind"
		}
		if haveRound && e.round != round {
			return false, "entry-round"
		}
		haveRound, round = true, e.round
		if !n[i] {
			return false, "bad-signature"
		}
		if e.bid == B {
			tally.Add(tally, big.NewInt(vals[i].power))
		}
	}
	if !big3gt2(tally, totalOf(vals)) {
		return false, "power"
	}
	return true, ""
}

// specOld: the additional old-set requirement.  An old validator is judged by the
// first entry that names its address (later ones are double votes and ignored).
func specOld(old []vp, B int, es []entry) (accept bool, why string) {
	first := map[int]int{}
	for i, e := range es {
		if e.isNil {
			continue
		}
		if _, dup := first[e.vaddr]; !dup {
			first[e.vaddr] = i
		}
	}
	tally := new(big.Int)
	for _, v := range old {
		i, ok := first[v.id]
		if !ok {
			continue
		}
		e := &es[i]
		if !pool[v.id].pub.VerifyBytes(e.ownSignBytes(), e.signature()) {
			return false, "bad-old-signature"
		}
		if e.bid == B {
			tally.Add(tally, big.NewInt(v.power))
		}
	}
	if !big3gt2(tally, totalOf(old)) {
		return false, "old-power"
	}
	return true, ""
}

// blindPower: power of the validators of `vals` for which SOME entry is a precommit
// for B at height H whose signature verifies under their key — ignoring index and
// declared address.  Every accepted commit must have > 2/3 by this count too.
func blindPower(vals []vp, B int, H int64, es []entry) *big.Int {
	t := new(big.Int)
	for _, v := range vals {
		for i := range es {
			e := &es[i]
			if e.isNil || e.bid != B || e.typ != int(types.PrecommitType) || e.height != H {
				continue
			}
			if pool[v.id].pub.VerifyBytes(e.ownSignBytes(), e.signature()) {
				t.Add(t, big.NewInt(v.power))
				break
			}
		}
	}
	return t
}

// ---------------------------------------------------------------- exec

func exec(t []string) (impl string, oracle string) {
	defer func() {
		if r := recover(); r != nil {
			if _, ok := r.(badop); ok {
				impl, oracle = "err:badop", "-"
				return
			}
			if s, ok := r.(string); ok && strings.HasPrefix(s, "badop") {
				impl, oracle = "err:badop", "-"
				return
			}
			if s, ok := r.(string); ok && strings.HasPrefix(s, "bad ") { // kit.Atoi
				impl, oracle = "err:badop", "-"
				return
			}
			panic(r)
		}
	}()
	sc := parseLine(t)
	newSet, ok := buildSet(sc.new)
	if !ok {
		return "err:badset", "-"
	}
	var oldSet *types.ValidatorSet
	if sc.future {
		if oldSet, ok = buildSet(sc.old); !ok {
			return "err:badset", "-"
		}
	}
	n, o := sc.realBits()
	for i, e := range sc.es {
		if !e.isNil && (e.n != n[i] || e.o != o[i]) {
			return "err:sigbits", "-"
		}
	}
	B := blockIDOf(sc.B)

	// ---- the real code
	err1 := newSet.VerifyCommit(chainID, B, sc.H, sc.buildCommit())
	impl = classify(err1, false)
	accepted := err1 == nil
	if sc.future {
		err2 := oldSet.VerifyFutureCommit(newSet, chainID, B, sc.H, sc.buildCommit())
		if err1 != nil {
			// the new-set stage failed; VerifyFutureCommit must return that same error
			if c2 := classify(err2, false); c2 != impl {
				return "err:inconsistent", fmt.Sprintf("VIOL:stage-mismatch VerifyCommit=%s VerifyFutureCommit=%s", impl, c2)
			}
		} else {
			impl = classify(err2, true)
		}
		accepted = err2 == nil
	}

	// ---- oracle
	want, why := specVC(sc.new, sc.B, sc.H, sc.CB, sc.es, n)
	if want && sc.future {
		want, why = specOld(sc.old, sc.B, sc.es)
	}
	if want != accepted {
		return impl, fmt.Sprintf("VIOL:accept-mismatch impl=%s spec-accept=%v (%s)", impl, want, why)
	}
	if accepted {
		if !big3gt2(blindPower(sc.new, sc.B, sc.H, sc.es), totalOf(sc.new)) {
			return impl, "VIOL:unsound-accept new set: signers of B hold at most 2/3"
		}
		if sc.future && !big3gt2(blindPower(sc.old, sc.B, sc.H, sc.es), totalOf(sc.old)) {
			return impl, "VIOL:unsound-accept old set: signers of B hold at most 2/3"
		}
	}
	return impl, "ok"
}

func main() {
	kit.Main(&kit.Harness{Gen: gen, Exec: exec})
}
