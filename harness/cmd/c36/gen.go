package main

import (
	"fmt"
	"math/big"

	"gnoverif/kit"
)

// ---------------------------------------------------------------- builders

// pickIDs returns n distinct key ids in ascending order.
func pickIDs(r *kit.Rand, n int) []int {
	perm := append([]int(nil), keyIDs...)
	for i := len(perm) - 1; i > 0; i-- {
		j := r.Intn(i + 1)
		perm[i], perm[j] = perm[j], perm[i]
	}
	out := append([]int(nil), perm[:n]...)
	for i := range out {
		for j := i + 1; j < len(out); j++ {
			if out[j] < out[i] {
				out[i], out[j] = out[j], out[i]
			}
		}
	}
	return out
}

const nProfiles = 9

// powers returns a power vector of length n; every profile keeps Σ ≤ MaxTotalVotingPower.
func powers(r *kit.Rand, n int, profile int) []int64 {
	p := make([]int64, n)
	switch profile {
	case 0: // all 1
		for i := range p {
			p[i] = 1
		}
	case 1: // all 10
		for i := range p {
			p[i] = 10
		}
	case 2: // one validator holds just over 1/3
		others := int64(0)
		for i := 1; i < n; i++ {
			p[i] = int64(1 + r.Intn(9))
			others += p[i]
		}
		p[0] = others/2 + 1
	case 3: // one validator holds just over 2/3
		others := int64(0)
		for i := 1; i < n; i++ {
			p[i] = int64(1 + r.Intn(9))
			others += p[i]
		}
		p[0] = 2*others + 1
	case 4: // Σ = MaxTotalVotingPower exactly, evenly spread
		q := maxTotal / int64(n)
		for i := range p {
			p[i] = q
		}
		p[0] += maxTotal - q*int64(n)
	case 5: // close to the cap, uneven
		left := maxTotal - int64(r.Intn(5))
		for i := 0; i < n-1; i++ {
			p[i] = left/2 + int64(r.Intn(3)) - 1
			if p[i] < 1 {
				p[i] = 1
			}
			left -= p[i]
		}
		if left < 1 {
			left = 1
		}
		p[n-1] = left
		fix(p)
	case 6: // small random
		for i := range p {
			p[i] = int64(1 + r.Intn(100))
		}
	case 7: // random magnitudes
		for i := range p {
			p[i] = int64(r.U64()>>uint(4+r.Intn(58)))/int64(n) + 1
		}
		fix(p)
	case 8: // MaxTotalVotingPower-1 and 1, padded with 0-cost? (n ≥ 2): one giant, rest 1
		for i := range p {
			p[i] = 1
		}
		p[0] = maxTotal - int64(n-1)
	}
	// move the special validator to a random slot
	j := r.Intn(n)
	p[0], p[j] = p[j], p[0]
	return p
}

// fix shrinks the largest entries until the sum fits the cap.
func fix(p []int64) {
	for {
		s := new(big.Int)
		mi := 0
		for i, x := range p {
			s.Add(s, big.NewInt(x))
			if x > p[mi] {
				mi = i
			}
		}
		if s.Cmp(big.NewInt(maxTotal)) <= 0 {
			return
		}
		over := new(big.Int).Sub(s, big.NewInt(maxTotal))
		if over.IsInt64() && over.Int64() < p[mi] {
			p[mi] -= over.Int64()
		} else {
			p[mi] = 1
		}
	}
}

func mkSet(ids []int, p []int64) []vp {
	out := make([]vp, len(ids))
	for i := range ids {
		out[i] = vp{ids[i], p[i]}
	}
	return out
}

func honest(vals []vp, i int, H int64, R int, bid int) entry {
	return entry{typ: 2, height: H, round: R, bid: bid, ts: int64(i), vidx: i, vaddr: vals[i].id,
		sig: fmt.Sprintf("S%d", vals[i].id)}
}

// commitFor: validators in `signers` precommit B; the others are nil / stray / nil-vote per `rest`.
func commitFor(vals []vp, H int64, R int, B int, signers []bool, rest func(i int) int) []entry {
	es := make([]entry, len(vals))
	for i := range vals {
		switch {
		case signers[i]:
			es[i] = honest(vals, i, H, R, B)
		default:
			switch rest(i) {
			case 0:
				es[i] = entry{isNil: true}
			case 1:
				es[i] = honest(vals, i, H, R, B+1+i%3) // stray precommit for another block
			default:
				es[i] = honest(vals, i, H, R, 0) // precommit for nil
			}
		}
	}
	return es
}

func other(r *kit.Rand, k int) int { // a key id different from k
	for {
		x := kit.Pick(r, keyIDs)
		if x != k {
			return x
		}
	}
}

// ---------------------------------------------------------------- mutations

var mutNames = []string{"harg+", "harg-", "eheight", "eround", "etype", "cblock", "argblock", "nilblock",
	"noentries", "drop", "padnil", "padentry", "flipsig", "wrongkey", "swapsig", "foreignsig", "otherchain",
	"emptysig", "shortsig", "longsig", "wrongaddr", "wrongidx", "dup", "stray", "nilvote", "hole",
	"fakeaddr", "eheight0", "allheights"}

func nonNil(sc *scenario) []int {
	var out []int
	for i, e := range sc.es {
		if !e.isNil {
			out = append(out, i)
		}
	}
	return out
}

// mutate applies mutation m at a random position; returns false if not applicable.
func mutate(r *kit.Rand, sc *scenario, m string) bool {
	nn := nonNil(sc)
	pick := func() (int, bool) {
		if len(nn) == 0 {
			return 0, false
		}
		return nn[r.Intn(len(nn))], true
	}
	i, have := pick()
	switch m {
	case "harg+":
		sc.H++
	case "harg-":
		sc.H--
	case "eheight":
		if !have {
			return false
		}
		sc.es[i].height += int64(1 + r.Intn(2))
	case "eheight0": // first non-nil entry gets another height (moves commit.Height())
		if !have {
			return false
		}
		sc.es[nn[0]].height--
	case "allheights": // every entry consistently at another height than asked
		for _, j := range nn {
			sc.es[j].height += 3
		}
	case "eround":
		if !have {
			return false
		}
		sc.es[i].round++
	case "etype":
		if !have {
			return false
		}
		sc.es[i].typ = kit.Pick(r, []int{1, 0, 32, 3})
	case "cblock":
		sc.CB = sc.B%1000 + 1000*(1+r.Intn(4))
	case "argblock":
		sc.B = (sc.B+1)%1000 + 1000*r.Intn(5)
	case "nilblock":
		sc.B, sc.CB = 0, 0
	case "noentries":
		sc.es = nil
		if r.Bool() {
			sc.B, sc.CB = 0, 0
		}
	case "drop":
		if len(sc.es) == 0 {
			return false
		}
		sc.es = sc.es[:len(sc.es)-1]
	case "padnil":
		sc.es = append(sc.es, entry{isNil: true})
	case "padentry":
		if !have {
			return false
		}
		e := sc.es[i]
		e.vidx = len(sc.es)
		sc.es = append(sc.es, e)
	case "flipsig":
		if !have || sc.es[i].sig[0] != 'S' {
			return false
		}
		sc.es[i].sig = "X" + sc.es[i].sig[1:]
	case "wrongkey":
		if !have || len(sc.new) == 0 {
			return false
		}
		sc.es[i].sig = fmt.Sprintf("S%d", other(r, sc.new[i%len(sc.new)].id))
	case "swapsig":
		if len(nn) < 2 {
			return false
		}
		a, b := nn[r.Intn(len(nn))], nn[r.Intn(len(nn))]
		if a == b || sc.es[a].sig[0] != 'S' || sc.es[b].sig[0] != 'S' {
			return false
		}
		ea, eb := sc.es[a], sc.es[b]
		sc.es[a].sig = fmt.Sprintf("V%s/%d/%d/%d/%d/%d/0", eb.sig[1:], eb.typ, eb.height, eb.round, eb.bid, eb.ts)
		sc.es[b].sig = fmt.Sprintf("V%s/%d/%d/%d/%d/%d/0", ea.sig[1:], ea.typ, ea.height, ea.round, ea.bid, ea.ts)
	case "foreignsig":
		if !have || sc.es[i].sig[0] != 'S' {
			return false
		}
		e := sc.es[i]
		sc.es[i].sig = fmt.Sprintf("V%s/%d/%d/%d/%d/%d/0", e.sig[1:], e.typ, e.height, e.round, e.bid+7, e.ts)
	case "otherchain":
		if !have || sc.es[i].sig[0] != 'S' {
			return false
		}
		e := sc.es[i]
		sc.es[i].sig = fmt.Sprintf("V%s/%d/%d/%d/%d/%d/1", e.sig[1:], e.typ, e.height, e.round, e.bid, e.ts)
	case "emptysig":
		if !have {
			return false
		}
		sc.es[i].sig = "Z"
	case "shortsig":
		if !have || sc.es[i].sig[0] != 'S' {
			return false
		}
		sc.es[i].sig = "T" + sc.es[i].sig[1:]
	case "longsig":
		if !have || sc.es[i].sig[0] != 'S' {
			return false
		}
		sc.es[i].sig = "L" + sc.es[i].sig[1:]
	case "wrongaddr":
		if !have {
			return false
		}
		sc.es[i].vaddr = other(r, sc.es[i].vaddr)
	case "fakeaddr":
		if !have {
			return false
		}
		sc.es[i].vaddr = kit.Pick(r, fakeIDs)
	case "wrongidx":
		if !have {
			return false
		}
		sc.es[i].vidx = kit.Pick(r, []int{-1, len(sc.es), 0, i + 1, 1 << 30})
	case "dup":
		if !have || len(sc.es) < 2 {
			return false
		}
		j := r.Intn(len(sc.es))
		if j == i {
			return false
		}
		sc.es[j] = sc.es[i]
	case "stray":
		if !have {
			return false
		}
		sc.es[i].bid = sc.es[i].bid + 1 + r.Intn(3)
	case "nilvote":
		if !have {
			return false
		}
		sc.es[i].bid = 0
	case "hole":
		if !have {
			return false
		}
		sc.es[i] = entry{isNil: true}
	default:
		panic("unknown mutation " + m)
	}
	// signatures of S-recipes follow the entry's fields automatically (they sign "own" bytes)
	return true
}

// ---------------------------------------------------------------- generator

func emit(o *kit.Out, sc *scenario) { o.Op("%s", sc.line()) }

func clone(sc *scenario) *scenario {
	c := *sc
	c.es = append([]entry(nil), sc.es...)
	c.old = append([]vp(nil), sc.old...)
	c.new = append([]vp(nil), sc.new...)
	return &c
}

func allSign(n int) []bool {
	s := make([]bool, n)
	for i := range s {
		s[i] = true
	}
	return s
}

// chooseSigners: mostly a set holding > 2/3, sometimes arbitrary.
func chooseSigners(r *kit.Rand, vals []vp) []bool {
	n := len(vals)
	s := make([]bool, n)
	if r.Chance(20) {
		for i := range s {
			s[i] = r.Bool()
		}
		return s
	}
	total := totalOf(vals)
	t := new(big.Int)
	perm := make([]int, n)
	for i := range perm {
		perm[i] = i
	}
	for i := n - 1; i > 0; i-- {
		j := r.Intn(i + 1)
		perm[i], perm[j] = perm[j], perm[i]
	}
	for _, i := range perm {
		if big3gt2(t, total) && r.Chance(60) {
			break
		}
		s[i] = true
		t.Add(t, big.NewInt(vals[i].power))
	}
	return s
}

func genBoundary(o *kit.Out, r *kit.Rand, tier string) {
	const H, R, B = 5, 1, 3
	// (i) every subset of signers, for each size and power profile
	o.Case("subsets")
	maxAll := 5
	if tier == "thorough" {
		maxAll = 7
	}
	for n := 1; n <= 7; n++ {
		for prof := 0; prof < nProfiles; prof++ {
			vals := mkSet(pickIDs(r, n), powers(r, n, prof))
			for mask := 0; mask < 1<<n; mask++ {
				if n > maxAll && mask%9 != 0 && mask != 1<<n-1 {
					continue
				}
				s := make([]bool, n)
				for i := range s {
					s[i] = mask>>i&1 == 1
				}
				rk := mask % 3
				sc := &scenario{H: H, B: B, CB: B, new: vals, es: commitFor(vals, H, R, B, s, func(i int) int { return (rk + i) % 3 })}
				emit(o, sc)
			}
		}
	}
	// (ii) tallies at exactly floor(2T/3) − 1, +0, +1 for totals of every residue, small and near the cap
	o.Case("two-thirds")
	totals := []int64{3, 4, 5, 6, 7, 8, 9, 10, 11, 99, 100, 101, 1 << 32, 1<<32 + 1, 1<<32 + 2,
		maxTotal - 5, maxTotal - 4, maxTotal - 3, maxTotal - 2, maxTotal - 1, maxTotal}
	for _, T := range totals {
		q := new(big.Int).Div(new(big.Int).Mul(big.NewInt(2), big.NewInt(T)), big.NewInt(3)).Int64()
		for d := int64(-1); d <= 2; d++ {
			tally := q + d
			if tally < 2 || T-tally < 1 {
				continue
			}
			// three validators: a + b = tally sign, c = T − tally does not
			a := tally / 2
			ids := pickIDs(r, 3)
			vals := mkSet(ids, []int64{a, T - tally, tally - a})
			for rest := 0; rest < 3; rest++ {
				sc := &scenario{H: H, B: B, CB: B, new: vals,
					es: commitFor(vals, H, R, B, []bool{true, false, true}, func(int) int { return rest })}
				emit(o, sc)
				// the same boundary for the OLD set of a future commit whose new set signs in full
				newVals := mkSet(ids, []int64{2, 1, 2})
				fs := &scenario{future: true, H: H, B: B, CB: B, old: vals, new: newVals,
					es: commitFor(newVals, H, R, B, []bool{true, rest == 1, true}, func(int) int { return rest })}
				if rest == 1 {
					fs.es[1] = honest(newVals, 1, H, R, B+1)
				}
				emit(o, fs)
			}
		}
	}
	// (iii) every mutation on full and on barely-sufficient commits, several shapes
	o.Case("mutations")
	for n := 1; n <= 7; n++ {
		for _, prof := range []int{0, 3, 4, 6} {
			vals := mkSet(pickIDs(r, n), powers(r, n, prof))
			base := &scenario{H: H, B: B, CB: B, new: vals, es: commitFor(vals, H, R, B, allSign(n), nil)}
			emit(o, base)
			for _, m := range mutNames {
				for rep := 0; rep < 2; rep++ {
					sc := clone(base)
					if rep == 1 { // one validator strays first, then mutate
						if !mutate(r, sc, "stray") {
							continue
						}
					}
					if mutate(r, sc, m) {
						emit(o, sc)
					}
				}
			}
		}
	}
	// (iv) degenerate shapes
	o.Case("degenerate")
	v1 := mkSet(pickIDs(r, 1), []int64{1})
	v3 := mkSet(pickIDs(r, 3), []int64{1, 1, 1})
	for _, vals := range [][]vp{nil, v1, v3} {
		for _, h := range []int64{0, 1, -1, H} {
			for _, b := range []int{0, B} {
				for _, cb := range []int{0, B} {
					emit(o, &scenario{H: h, B: b, CB: cb, new: vals})                                   // no entries
					emit(o, &scenario{H: h, B: b, CB: cb, new: vals, es: make3nil(len(vals))})          // all nil
					emit(o, &scenario{H: h, B: b, CB: cb, new: vals, es: []entry{{isNil: true}}})       // one nil
					emit(o, &scenario{future: true, H: h, B: b, CB: cb, old: vals, new: vals})          // future, no entries
					emit(o, &scenario{future: true, H: h, B: b, CB: cb, old: nil, new: vals, es: nil}) // empty old set
					if len(vals) > 0 {
						emit(o, &scenario{H: h, B: b, CB: cb, new: vals, es: commitFor(vals, h, 0, b, allSign(len(vals)), nil)})
						emit(o, &scenario{future: true, H: h, B: b, CB: cb, old: nil, new: vals, es: commitFor(vals, h, 0, b, allSign(len(vals)), nil)})
					}
				}
			}
		}
	}
	// sets the real type refuses
	ids := pickIDs(r, 3)
	for _, p := range [][]int64{{0, 1, 1}, {-1, 1, 1}, {maxTotal, 1, 1}, {maxTotal/2 + 1, maxTotal / 2, 1}, {maxTotal + 1, 1, 1}} {
		vals := mkSet(ids, p)
		emit(o, &scenario{H: H, B: B, CB: B, new: vals, es: commitFor(vals, H, R, B, allSign(3), nil)})
	}
	emit(o, &scenario{H: H, B: B, CB: B, new: []vp{{ids[1], 1}, {ids[0], 1}}, es: make3nil(2)}) // not in set order
	emit(o, &scenario{H: H, B: B, CB: B, new: []vp{{ids[0], 1}, {ids[0], 1}}, es: make3nil(2)}) // duplicate
}

func make3nil(n int) []entry {
	es := make([]entry, n)
	for i := range es {
		es[i] = entry{isNil: true}
	}
	return es
}

// genFuture builds one future-commit scenario: old and new sets drawn from a common
// id universe, overlapping by `shape`, with power changes.
func genFuture(r *kit.Rand) *scenario {
	H, R, B := int64(1+r.Intn(50)), r.Intn(3), 1+r.Intn(5)
	nNew := 1 + r.Intn(7)
	newIDs := pickIDs(r, nNew)
	newVals := mkSet(newIDs, powers(r, nNew, r.Intn(nProfiles)))
	var old []vp
	inNew := map[int]bool{}
	for _, id := range newIDs {
		inNew[id] = true
	}
	shape := r.Intn(20)
	for _, id := range keyIDs {
		var take bool
		switch {
		case shape <= 9: // old = new (power changes only)
			take = inNew[id]
		case shape <= 13: // old ⊆ new
			take = inNew[id] && r.Chance(75)
		case shape <= 16: // old ⊇ most of new, plus others
			take = (inNew[id] && r.Chance(85)) || (!inNew[id] && r.Chance(20))
		case shape <= 18: // arbitrary overlap
			take = r.Bool()
		default: // disjoint
			take = !inNew[id] && r.Chance(40)
		}
		if take && len(old) < 7 {
			old = append(old, vp{id: id})
		}
	}
	if len(old) > 0 {
		var p []int64
		if r.Chance(40) && shape <= 9 { // unchanged powers
			for i := range old {
				for _, v := range newVals {
					if v.id == old[i].id {
						p = append(p, v.power)
					}
				}
			}
		}
		if len(p) != len(old) {
			p = powers(r, len(old), r.Intn(nProfiles))
		}
		if r.Chance(65) { // old validators that left hold little: the overlap can still reach 2/3
			for i := range old {
				if !inNew[old[i].id] {
					p[i] = 1
				} else if p[i] < 100 {
					p[i] += 100
				}
			}
			fix(p)
		}
		for i := range old {
			old[i].power = p[i]
		}
	}
	signers := chooseSigners(r, newVals)
	if r.Chance(40) {
		signers = allSign(nNew)
	}
	if r.Chance(92) { // make the old set happy as well: everybody in old ∩ new signs
		for i, v := range newVals {
			for _, ov := range old {
				if ov.id == v.id {
					signers[i] = true
				}
			}
		}
	}
	rk := r.Intn(3)
	return &scenario{future: true, H: H, B: B, CB: B, old: old, new: newVals,
		es: commitFor(newVals, H, R, B, signers, func(i int) int {
			if rk == 0 {
				return 0
			}
			return r.Intn(3)
		})}
}

// futureMutate: declared-address games that only matter to VerifyFutureCommit.
func futureMutate(r *kit.Rand, sc *scenario) bool {
	nn := nonNil(sc)
	if len(nn) == 0 {
		return false
	}
	i := nn[r.Intn(len(nn))]
	switch r.Intn(5) {
	case 0: // entry i names the address of another entry's validator (double vote for that address)
		j := nn[r.Intn(len(nn))]
		if i == j {
			return false
		}
		sc.es[i].vaddr = sc.es[j].vaddr
	case 1: // entry i names an old validator that is not its signer
		if len(sc.old) == 0 {
			return false
		}
		sc.es[i].vaddr = sc.old[r.Intn(len(sc.old))].id
	case 2: // key-less address
		sc.es[i].vaddr = kit.Pick(r, fakeIDs)
	case 3: // the FIRST entry naming an address is a stray vote, a later one (wrongly) names it again for B
		j := nn[r.Intn(len(nn))]
		if j <= i {
			return false
		}
		sc.es[i].bid = sc.B + 1
		sc.es[j].vaddr = sc.es[i].vaddr
	case 4: // a key not in the new set signs slot i correctly for ITS OWN address (bad under new[i])
		k := other(r, sc.new[i].id)
		sc.es[i].vaddr = k
		sc.es[i].sig = fmt.Sprintf("S%d", k)
	}
	return true
}

func genRandom(o *kit.Out, r *kit.Rand, nVC, nVFC, nMal int) {
	o.Case("random-vc")
	for k := 0; k < nVC; k++ {
		n := 1 + r.Intn(7)
		vals := mkSet(pickIDs(r, n), powers(r, n, r.Intn(nProfiles)))
		H, R, B := int64(r.Intn(100)), r.Intn(4), 1+r.Intn(6)
		if r.Chance(3) {
			H = -int64(r.Intn(3))
		}
		if r.Chance(10) {
			B += 1000 * r.Intn(5)
		}
		rk := r.Intn(3)
		sc := &scenario{H: H, B: B, CB: B, new: vals, es: commitFor(vals, H, R, B, chooseSigners(r, vals), func(i int) int {
			if rk == 0 {
				return 0
			}
			return r.Intn(3)
		})}
		if r.Chance(18) {
			for m := 1 + r.Intn(2); m > 0; m-- {
				mutate(r, sc, kit.Pick(r, mutNames))
			}
		}
		emit(o, sc)
	}
	o.Case("random-vfc")
	for k := 0; k < nVFC; k++ {
		sc := genFuture(r)
		if r.Chance(12) {
			futureMutate(r, sc)
		}
		if r.Chance(6) {
			mutate(r, sc, kit.Pick(r, mutNames))
		}
		emit(o, sc)
	}
	o.Case("malformed")
	for k := 0; k < nMal; k++ {
		var sc *scenario
		if r.Bool() {
			sc = genFuture(r)
			for m := r.Intn(3); m > 0; m-- {
				futureMutate(r, sc)
			}
		} else {
			n := 1 + r.Intn(7)
			vals := mkSet(pickIDs(r, n), powers(r, n, r.Intn(nProfiles)))
			sc = &scenario{H: 7, B: 2, CB: 2, new: vals, es: commitFor(vals, 7, 0, 2, chooseSigners(r, vals), func(int) int { return r.Intn(3) })}
		}
		for m := 1 + r.Intn(4); m > 0; m-- {
			mutate(r, sc, kit.Pick(r, mutNames))
		}
		emit(o, sc)
	}
}

// genCorpus prints the pinned boundary witnesses kept under corpus/C36 (tier "corpus").
func genCorpus(o *kit.Out) {
	const H, R, B = 5, 1, 3
	ids := []int{keyIDs[0], keyIDs[3], keyIDs[5], keyIDs[8]}
	full := func(vals []vp) *scenario {
		return &scenario{H: H, B: B, CB: B, new: vals, es: commitFor(vals, H, R, B, allSign(len(vals)), nil)}
	}
	nilE := entry{isNil: true}
	v3 := mkSet(ids[:3], []int64{1, 1, 1})
	v4 := mkSet(ids, []int64{1, 1, 1, 1})
	o.Op("// exactly 2/3 of (1,1,1) is not enough; all three is")
	sc := full(v3)
	sc.es[1] = nilE
	emit(o, sc)
	emit(o, full(v3))
	o.Op("// total = MaxTotalVotingPower: floor(2T/3) rejected, +1 accepted (int64 total*2 does not wrap)")
	q := maxTotal / 3 * 2 // T = 2^60-1 is divisible by 3
	for _, d := range []int64{0, 1} {
		vm := mkSet(ids[:2], []int64{q + d, maxTotal - q - d})
		sc = full(vm)
		sc.es[1] = nilE
		emit(o, sc)
	}
	o.Op("// 3 of 4 sign the block, the 4th strays with a CORRUPT signature: rejected (err:sig) although > 2/3 signed")
	sc = full(v4)
	sc.es[3] = honest(v4, 3, H, R, B+1)
	sc.es[3].sig = "X" + sc.es[3].sig[1:]
	emit(o, sc)
	o.Op("// the same with a VALID stray signature: accepted")
	sc = full(v4)
	sc.es[3] = honest(v4, 3, H, R, B+1)
	emit(o, sc)
	o.Op("// ValidatorAddress / ValidatorIndex of an entry are never checked by VerifyCommit: accepted")
	sc = full(v4)
	sc.es[0].vaddr, sc.es[0].vidx = fakeIDs[0], 17
	sc.es[1].vaddr, sc.es[1].vidx = sc.es[2].vaddr, -1
	emit(o, sc)
	o.Op("// an entry copied into another slot fails under that slot's key")
	sc = full(v4)
	sc.es[2] = sc.es[1]
	emit(o, sc)
	o.Op("// all-nil commit: Height() is 0, so height 5 fails on height, height 0 on power; genesis shape on the empty set")
	emit(o, &scenario{H: H, B: B, CB: B, new: v3, es: make3nil(3)})
	emit(o, &scenario{H: 0, B: B, CB: B, new: v3, es: make3nil(3)})
	emit(o, &scenario{H: 0, B: 0, CB: 0, new: nil})
	emit(o, &scenario{H: 0, B: 0, CB: 0, new: v3})
	o.Op("// precommits for the nil block, all valid: a commit cannot be for the nil block")
	emit(o, &scenario{H: H, B: 0, CB: 0, new: v3, es: commitFor(v3, H, R, 0, allSign(3), nil)})
	o.Op("// first non-nil entry decides Height()/Round(): a later entry of another round / height / type")
	for _, m := range []func(e *entry){func(e *entry) { e.round++ }, func(e *entry) { e.height++ }, func(e *entry) { e.typ = 1 }} {
		sc = full(v3)
		m(&sc.es[2])
		emit(o, sc)
	}
	sc = full(v3)
	sc.es[0].height++
	emit(o, sc)
	o.Op("// future commit: old = {a:5, b:3, x:2}, new = {a,b,c,d}; a and b sign -> 8/10 of old")
	old := []vp{{ids[0], 5}, {ids[1], 3}, {keyIDs[10], 2}}
	fs := &scenario{future: true, H: H, B: B, CB: B, old: old, new: v4, es: commitFor(v4, H, R, B, []bool{true, true, false, true}, func(int) int { return 0 })}
	emit(o, fs)
	o.Op("// old signers hold exactly 2/3 of old (2 of 1,1,1): err:fpower")
	fs2 := clone(fs)
	fs2.old = []vp{{ids[0], 1}, {ids[1], 1}, {keyIDs[10], 1}}
	emit(o, fs2)
	o.Op("// entry 3 (signed by d) names old validator x: verified under x's key -> err:fsig")
	fs3 := clone(fs)
	fs3.es[3].vaddr = keyIDs[10]
	emit(o, fs3)
	o.Op("// entry 0 (validator a) strays, entry 3 names a's address again for the block: a is judged by its FIRST entry -> err:fpower")
	fs4 := clone(fs)
	fs4.es[0].bid = B + 1
	fs4.es[2] = honest(v4, 2, H, R, B)
	fs4.es[3].vaddr = ids[0]
	emit(o, fs4)
	o.Op("// a later entry naming an already-judged address is skipped even though it does not verify under that key: accepted")
	fs5 := clone(fs)
	fs5.es[3].vaddr = ids[0]
	emit(o, fs5)
	o.Op("// disjoint old set: nobody of old signed")
	fs6 := clone(fs)
	fs6.old = []vp{{keyIDs[10], 1}, {keyIDs[11], 1}}
	emit(o, fs6)
}

func gen(o *kit.Out, r *kit.Rand, tier string) {
	if tier == "corpus" {
		genCorpus(o)
		return
	}
	genBoundary(o, r.Fork(), tier)
	if tier == "thorough" {
		genRandom(o, r.Fork(), 9000, 9000, 4500)
	} else {
		genRandom(o, r.Fork(), 1500, 1500, 700)
	}
}
