// Harness for C27: a crash during commit never leaves a torn state.
//
// A REAL sdk.BaseApp (tm2/pkg/sdk) over a real rootmulti store is driven
// through InitChain and several blocks by a scripted handler.  The stores are
// wired like gno.land's app.go: `main` = bptree (fast index on by default),
// `base` = dbadapter, plus an optional second tree store `aux` (bptree, bptree
// with fast index, or iavl) so that cross-store atomicity is exercised.  The
// database handed to the app is a crashdb (crashdb.go): it counts physical
// writes and keeps a copy of the underlying DB after each of them.
//
// Line protocol (one op per line; mirrored by lean/GnoVerif/Drive/C27.lean):
//
//	cfg <backend> <wiring> <aux> <fast> <keepRecent> <keepEvery> <initialHeight>
//	      backend mem|level   aux none|bp|bpf|iavl   fast 0|1
//	      wiring shared|keyed: `shared` mounts main and base with the root DB
//	      passed explicitly, exactly like gno.land/pkg/gnoland/app.go — rootmulti
//	      then gives BOTH stores the same key prefix "s/_/" (only without aux: two
//	      trees cannot share a prefix); `keyed` mounts with a nil DB, i.e. one
//	      prefix "s/k:<name>/" per store.
//	      -> ok
//	init <steps>
//	      InitChain with consensus params (BaseApp writes them DIRECTLY into the
//	      main store) and an InitChainer that runs <steps> on the deliver state.
//	      -> ok w=<physical writes so far>
//	blk <tx> ...
//	      BeginBlock, DeliverTx*, EndBlock, Commit.   tx = ok:<steps> | fail:<steps>
//	      -> v=<version> w=<physical writes from BeginBlock to Commit entry>
//	         wc=<physical writes inside Commit> wk=<kind of each: B batch WriteSync,
//	         b batch Write, S direct sync op, d direct op> <census of the commit's
//	         write units by key family>
//	rec <k>
//	      the process died right after the k-th physical write: reopen a copy of
//	      the DB as it was then.
//	      -> v=<version> m=[..] a=[..] b=[..] mv=[versions of main] av=[..] h=<0|1> c=<0|1> cont=<0|1>
//	all   rec for every k = 0..W, one token per k:  <k>:<version>:<h><c><cont>
//
//	steps = `-` | comma list of  w.<store>.<keyhex>.<valhex> | d.<store>.<keyhex>   store ∈ m a b
//
// h: the recovered app hash equals the uncrashed run's app hash of that
// version; c: same for the contents of every store; cont: continuing the chain
// from the recovered DB (InitChain again if nothing was committed) reproduces
// the uncrashed run's remaining app hashes and its final contents.
//
// Oracle (independent of the Lean model; plain maps and the recorded
// uncrashed run): for every crash point the recovered version must be the
// previous or the new version of every commit the point can lie in, hash and
// contents must be exactly that version's (contents = the iteration of every
// store, cross-checked with point reads of every key the script ever named:
// point reads go through the fast index), the user keys must equal a shadow
// map computed from the script alone, and the continuation must not diverge.
package main

import (
	"bytes"
	"encoding/hex"
	"fmt"
	"io"
	"log/slog"
	"os"
	"sort"
	"strconv"
	"strings"

	"github.com/gnolang/gno/tm2/pkg/amino"
	abci "github.com/gnolang/gno/tm2/pkg/bft/abci/types"
	bft "github.com/gnolang/gno/tm2/pkg/bft/types"
	dbm "github.com/gnolang/gno/tm2/pkg/db"
	"github.com/gnolang/gno/tm2/pkg/db/goleveldb"
	"github.com/gnolang/gno/tm2/pkg/db/memdb"
	"github.com/gnolang/gno/tm2/pkg/sdk"
	"github.com/gnolang/gno/tm2/pkg/std"
	"github.com/gnolang/gno/tm2/pkg/store"
	storebptree "github.com/gnolang/gno/tm2/pkg/store/bptree"
	"github.com/gnolang/gno/tm2/pkg/store/dbadapter"
	storeiavl "github.com/gnolang/gno/tm2/pkg/store/iavl"
	"gnoverif/c27msg"
	"gnoverif/kit"
)

type ScriptMsg = c27msg.ScriptMsg

// ---------------------------------------------------------------- script parsing (strict; mirrored in Lean)

type Step struct {
	Del   bool
	Store byte // m a b
	Key   []byte
	Val   []byte
}

type TxS struct {
	OK    bool
	Steps []Step
	Raw   string
}

const maxTokBytes = 64

var sysKeys = []string{"consensus_params", "last_header"}

func lowerHex(s string) ([]byte, bool) {
	if len(s) == 0 || len(s)%2 != 0 || len(s) > 2*maxTokBytes {
		return nil, false
	}
	for _, c := range s {
		if !(c >= '0' && c <= '9' || c >= 'a' && c <= 'f') {
			return nil, false
		}
	}
	b, err := hex.DecodeString(s)
	return b, err == nil
}

func parseSteps(s string, aux bool) ([]Step, bool) {
	if s == "-" {
		return nil, true
	}
	var out []Step
	for _, t := range strings.Split(s, ",") {
		f := strings.Split(t, ".")
		if len(f) < 3 || len(f[1]) != 1 {
			return nil, false
		}
		st := Step{Store: f[1][0]}
		switch st.Store {
		case 'm', 'b':
		case 'a':
			if !aux {
				return nil, false
			}
		default:
			return nil, false
		}
		k, ok := lowerHex(f[2])
		if !ok {
			return nil, false
		}
		for _, sk := range sysKeys {
			if string(k) == sk {
				return nil, false
			}
		}
		if st.Store == 'b' && isTreePrefix(k[0]) {
			// with the shared wiring the base store lives in the same key
			// space as the main tree's records; the script stays out of the
			// tree's record families (B V R M O F).
			return nil, false
		}
		st.Key = k
		switch f[0] {
		case "w":
			if len(f) != 4 {
				return nil, false
			}
			v, ok := lowerHex(f[3])
			if !ok {
				return nil, false
			}
			st.Val = v
		case "d":
			if len(f) != 3 {
				return nil, false
			}
			st.Del = true
		default:
			return nil, false
		}
		out = append(out, st)
	}
	return out, true
}

func isTreePrefix(b byte) bool {
	switch b {
	case 'B', 'V', 'R', 'M', 'O', 'F':
		return true
	}
	return false
}

func parseTx(t string, aux bool) (TxS, bool) {
	var tx TxS
	switch {
	case strings.HasPrefix(t, "ok:"):
		tx.OK, tx.Raw = true, t[3:]
	case strings.HasPrefix(t, "fail:"):
		tx.OK, tx.Raw = false, t[5:]
	default:
		return tx, false
	}
	st, ok := parseSteps(tx.Raw, aux)
	tx.Steps = st
	return tx, ok
}

// natTok: 1–9 decimal digits.
func natTok(s string) (int64, bool) {
	if len(s) < 1 || len(s) > 9 {
		return 0, false
	}
	for _, c := range s {
		if c < '0' || c > '9' {
			return 0, false
		}
	}
	n, err := strconv.ParseInt(s, 10, 64)
	return n, err == nil
}

// ---------------------------------------------------------------- configuration and app construction

type Cfg struct {
	Backend       string
	Shared        bool
	Aux           string
	Fast          bool
	KeepRecent    int64
	KeepEvery     int64
	InitialHeight int64
}

func (c Cfg) hasAux() bool { return c.Aux != "none" }

var (
	mainKey = store.NewStoreKey("main")
	auxKey  = store.NewStoreKey("aux")
	baseKey = store.NewStoreKey("base")
)

func storeKeyOf(b byte) store.StoreKey {
	switch b {
	case 'm':
		return mainKey
	case 'a':
		return auxKey
	default:
		return baseKey
	}
}

const chainID = "c27"

var consParams = &abci.ConsensusParams{Block: &abci.BlockParams{MaxTxBytes: 1 << 20, MaxDataBytes: 1 << 21, MaxGas: -1}}

type handler struct{ aux bool }

func runSteps(ctx sdk.Context, steps []Step) {
	for _, s := range steps {
		st := ctx.Store(storeKeyOf(s.Store))
		if s.Del {
			st.Delete(nil, s.Key)
		} else {
			st.Set(nil, s.Key, s.Val)
		}
	}
}

func (h handler) Process(ctx sdk.Context, msg sdk.Msg) (res sdk.Result) {
	m := msg.(ScriptMsg)
	steps, ok := parseSteps(m.Steps, h.aux)
	if !ok {
		panic("c27: bad steps in message")
	}
	runSteps(ctx, steps)
	if m.Fail {
		res.Error = sdk.ABCIError(std.ErrUnauthorized("scripted message failure"))
	}
	return
}

func (h handler) Query(ctx sdk.Context, req abci.RequestQuery) abci.ResponseQuery {
	return abci.ResponseQuery{}
}

var cmsOf = map[*sdk.BaseApp]store.CommitMultiStore{}

func appCMS(app *sdk.BaseApp) store.CommitMultiStore { return cmsOf[app] }

var logger = slog.New(slog.NewTextHandler(io.Discard, nil))

// newApp builds the BaseApp over db and loads the latest version (that is the
// recovery path when db is a crash copy).
func newApp(cfg Cfg, db dbm.DB, genesis []Step) (*sdk.BaseApp, error) {
	// the multistore is the one NewBaseApp would build itself
	// (store.NewCommitMultiStore); it is created here only to keep a handle
	// on it for VersionExists probes (BaseApp has no accessor).
	cms := store.NewCommitMultiStore(db)
	app := sdk.NewBaseApp("c27", logger, db, baseKey, mainKey, func(a *sdk.BaseApp) { a.SetCMS(cms) },
		sdk.SetPruningOptions(store.PruningOptions{KeepRecent: cfg.KeepRecent, KeepEvery: cfg.KeepEvery}))
	cmsOf[app] = cms
	var mdb dbm.DB // nil = per-store prefix; the root DB = the shared prefix "s/_/"
	if cfg.Shared {
		mdb = db
	}
	if cfg.Fast {
		app.MountStoreWithDB(mainKey, storebptree.FastStoreConstructor, mdb)
	} else {
		app.MountStoreWithDB(mainKey, storebptree.StoreConstructor, mdb)
	}
	switch cfg.Aux {
	case "bp":
		app.MountStoreWithDB(auxKey, storebptree.StoreConstructor, mdb)
	case "bpf":
		app.MountStoreWithDB(auxKey, storebptree.FastStoreConstructor, mdb)
	case "iavl":
		app.MountStoreWithDB(auxKey, storeiavl.StoreConstructor, mdb)
	}
	app.MountStoreWithDB(baseKey, dbadapter.StoreConstructor, mdb)
	app.Router().AddRoute("c27", handler{aux: cfg.hasAux()})
	app.SetInitChainer(func(ctx sdk.Context, req abci.RequestInitChain) abci.ResponseInitChain {
		runSteps(ctx, genesis)
		return abci.ResponseInitChain{}
	})
	if err := app.LoadLatestVersion(); err != nil {
		return nil, err
	}
	return app, nil
}

func initChain(app *sdk.BaseApp, cfg Cfg) {
	app.InitChain(abci.RequestInitChain{ChainID: chainID, ConsensusParams: consParams, InitialHeight: cfg.InitialHeight})
}

func nextHeight(app *sdk.BaseApp, cfg Cfg) int64 {
	if h := app.LastBlockHeight(); h > 0 {
		return h + 1
	}
	if cfg.InitialHeight > 1 {
		return cfg.InitialHeight
	}
	return 1
}

// runBlock drives one block; phase labels are set on cdb when it is non-nil.
// Returns the commit's app hash, the version, and the physical write counts at
// BeginBlock, Commit entry and Commit exit.
func runBlock(app *sdk.BaseApp, cfg Cfg, cdb *CrashDB, idx int, txs []TxS) (hash []byte, ver int64, w0, w1, w2 int) {
	cdb.phase = fmt.Sprintf("blk:%d:deliver", idx)
	w0 = cdb.Writes()
	h := nextHeight(app, cfg)
	app.BeginBlock(abci.RequestBeginBlock{Header: &bft.Header{ChainID: chainID, Height: h}})
	for _, tx := range txs {
		bz := amino.MustMarshal(std.Tx{Msgs: []std.Msg{ScriptMsg{Fail: !tx.OK, Steps: tx.Raw}}})
		app.DeliverTx(abci.RequestDeliverTx{Tx: bz})
	}
	app.EndBlock(abci.RequestEndBlock{})
	cdb.phase = fmt.Sprintf("blk:%d:commit", idx)
	w1 = cdb.Writes()
	res := app.Commit()
	w2 = cdb.Writes()
	cdb.phase = "idle"
	return res.Data, app.LastBlockHeight(), w0, w1, w2
}

// ---------------------------------------------------------------- observation

// FNV-1a 64 and the 300-character output limit of the kit (as in C22).
func fnv64(s string) uint64 {
	h := uint64(14695981039346656037)
	for i := 0; i < len(s); i++ {
		h ^= uint64(s[i])
		h *= 1099511628211
	}
	return h
}

func compact(s string) string {
	if len(s) <= 250 {
		return s
	}
	return s[:200] + "~" + strconv.Itoa(len(s)) + "~" + fmt.Sprintf("%016x", fnv64(s))
}

// symbolic rendering of the two values BaseApp itself writes.
func showVal(storeName string, k, v []byte) string {
	if storeName == "m" && string(k) == "consensus_params" {
		if bytes.Equal(v, amino.MustMarshal(consParams)) {
			return hex.EncodeToString([]byte("CP"))
		}
	}
	if storeName == "b" && string(k) == "last_header" {
		var hd bft.Header
		if err := amino.Unmarshal(v, &hd); err == nil && hd.ChainID == chainID {
			if bytes.Equal(v, amino.MustMarshal(&bft.Header{ChainID: chainID, Height: hd.Height})) {
				return hex.EncodeToString([]byte("H" + strconv.FormatInt(hd.Height, 10)))
			}
		}
	}
	return hex.EncodeToString(v)
}

// everKeys: every key the script of the current case ever named, per store
// ("m", "a", "b") -> set of raw keys.  Point reads of all of them are checked
// against the iteration in dumpStore.
var everKeys = map[string]map[string]bool{}

func noteKeys(steps []Step) {
	for _, s := range steps {
		n := string(s.Store)
		if everKeys[n] == nil {
			everKeys[n] = map[string]bool{}
		}
		everKeys[n][string(s.Key)] = true
	}
}

// dumpStore lists the store by ITERATION and cross-checks it with POINT reads
// (Get / Has) of every listed key and of every key the script ever named: on a
// clean tree point reads are served by the bptree fast index, iteration by the
// tree itself, so an index left stale by a crash shows up as a `!get:` marker
// (which makes the contents differ from every uncrashed dump).
func dumpStore(app *sdk.BaseApp, name string, key store.StoreKey) string {
	ms := app.GetCacheMultiStore()
	st := ms.GetStore(key)
	it := st.Iterator(nil, nil, nil)
	var parts []string
	listed := map[string]string{}
	for ; it.Valid(); it.Next() {
		if name == "b" && len(it.Key()) > 0 && isTreePrefix(it.Key()[0]) {
			continue // shared wiring: the main tree's records live in the same key space
		}
		listed[string(it.Key())] = string(it.Value())
		parts = append(parts, hex.EncodeToString(it.Key())+"="+showVal(name, it.Key(), it.Value()))
	}
	it.Close()
	probe := map[string]bool{}
	for k := range listed {
		probe[k] = true
	}
	for k := range everKeys[name] {
		probe[k] = true
	}
	var bad []string
	for k := range probe {
		// a fresh cache wrap per key: the read must reach the store itself
		pst := app.GetCacheMultiStore().GetStore(key)
		got := pst.Get(nil, []byte(k))
		has := pst.Has(nil, []byte(k))
		want, ok := listed[k]
		if ok != (got != nil) || ok != has || (ok && string(got) != want) {
			bad = append(bad, hex.EncodeToString([]byte(k)))
		}
	}
	sort.Strings(bad)
	for _, b := range bad {
		parts = append(parts, "!get:"+b)
	}
	return "[" + strings.Join(parts, ",") + "]"
}

type versioned interface{ VersionExists(int64) bool }

func versionsOf(app *sdk.BaseApp, key store.StoreKey, upto int64, cfg Cfg) string {
	// probe every version the chain can have produced so far (and one beyond)
	cs := appCMS(app).GetCommitStore(key)
	v, ok := cs.(versioned)
	if !ok {
		return "[]"
	}
	lo := int64(1)
	if cfg.InitialHeight > 1 {
		lo = cfg.InitialHeight - 2
		if lo < 1 {
			lo = 1
		}
	}
	var parts []string
	for x := lo; x <= upto+1; x++ {
		if v.VersionExists(x) {
			parts = append(parts, strconv.FormatInt(x, 10))
		}
	}
	return "[" + strings.Join(parts, ",") + "]"
}

type dump struct{ m, a, b, mv, av string }

func (d dump) contents() string { return "m=" + d.m + " a=" + d.a + " b=" + d.b }

func dumpApp(app *sdk.BaseApp, cfg Cfg, upto int64) dump {
	d := dump{a: "-", av: "-"}
	d.m = dumpStore(app, "m", mainKey)
	d.b = dumpStore(app, "b", baseKey)
	d.mv = versionsOf(app, mainKey, upto, cfg)
	if cfg.hasAux() {
		d.a = dumpStore(app, "a", auxKey)
		d.av = versionsOf(app, auxKey, upto, cfg)
		if cfg.Aux == "iavl" {
			// IAVL keeps a pruned version's root record while a later version
			// still shares its root (unchanged tree); which versions it retains
			// is IAVL-internal and not modelled.
			d.av = "?"
		}
	}
	return d
}

// ---------------------------------------------------------------- the world of one case

type World struct {
	cfg     Cfg
	cfgSet  bool
	inited  bool
	db      *CrashDB
	app     *sdk.BaseApp
	genesis []Step
	blocks  [][]TxS
	// the uncrashed run, per committed block
	vers    []int64
	hashes  [][]byte
	dumps   []dump
	wBefore []int // physical writes when Commit was entered
	wAfter  []int // ... when it returned
	// shadow: contents of the user keys after each block, computed from the script alone
	shadow []map[string]string // key = "<store>/<keyhex>"
	// shadowOK[i]: the uncrashed run itself showed shadow[i] after block i.  If it
	// did not (that would be a transaction-atomicity matter, C02, not C27), the
	// shadow is not used to judge crash copies of that version.
	shadowOK []bool
	cur      map[string]string
	dirs     []string
}

var w *World

func reset() {
	if w != nil {
		w.cleanup()
	}
	w = &World{cur: map[string]string{}}
	everKeys = map[string]map[string]bool{}
}

func (w *World) cleanup() {
	if w.app != nil {
		func() {
			defer func() { recover() }()
			w.app.Close()
		}()
	}
	for _, d := range w.dirs {
		os.RemoveAll(d)
	}
	w.dirs = nil
}

func (w *World) freshBackend() dbm.DB {
	if w.cfg.Backend == "level" {
		dir, err := os.MkdirTemp("", "gvh-c27-")
		if err != nil {
			panic(err)
		}
		w.dirs = append(w.dirs, dir)
		db, err := goleveldb.NewGoLevelDB("c27", dir)
		if err != nil {
			panic(err)
		}
		return db
	}
	return memdb.NewMemDB()
}

// reopenCopy materialises crash copy k as a database of the configured
// backend.  For goleveldb the copy is written, the DB CLOSED and opened again
// from disk.
func (w *World) reopenCopy(k int) *CrashDB {
	snap := w.db.snaps[k]
	if w.cfg.Backend == "level" {
		dir, err := os.MkdirTemp("", "gvh-c27-")
		if err != nil {
			panic(err)
		}
		w.dirs = append(w.dirs, dir)
		db, err := goleveldb.NewGoLevelDB("c27", dir)
		if err != nil {
			panic(err)
		}
		for _, key := range sortedKeys(snap) {
			if err := db.SetSync([]byte(key), []byte(snap[key])); err != nil {
				panic(err)
			}
		}
		db.Close()
		db, err = goleveldb.NewGoLevelDB("c27", dir)
		if err != nil {
			panic(err)
		}
		return NewCrashDB(db)
	}
	db := memdb.NewMemDB()
	for _, key := range sortedKeys(snap) {
		db.Set([]byte(key), []byte(snap[key]))
	}
	return NewCrashDB(db)
}

func applyShadow(cur map[string]string, steps []Step) {
	for _, s := range steps {
		k := string(s.Store) + "/" + hex.EncodeToString(s.Key)
		if s.Del {
			delete(cur, k)
		} else {
			cur[k] = hex.EncodeToString(s.Val)
		}
	}
}

func cloneMap(m map[string]string) map[string]string {
	c := make(map[string]string, len(m))
	for k, v := range m {
		c[k] = v
	}
	return c
}

// userKeys parses a dump back into "<store>/<keyhex>" -> valhex without the
// two keys BaseApp owns.
func userKeys(d dump) map[string]string {
	out := map[string]string{}
	for _, p := range []struct{ n, s string }{{"m", d.m}, {"a", d.a}, {"b", d.b}} {
		if p.s == "-" || len(p.s) < 2 {
			continue
		}
		body := p.s[1 : len(p.s)-1]
		if body == "" {
			continue
		}
		for _, kv := range strings.Split(body, ",") {
			i := strings.IndexByte(kv, '=')
			if i < 0 { // a `!get:` marker of dumpStore: never equal to a shadow
				out[p.n+"/"+kv] = "!"
				continue
			}
			kb, _ := hex.DecodeString(kv[:i])
			if (p.n == "m" && string(kb) == "consensus_params") || (p.n == "b" && string(kb) == "last_header") {
				continue
			}
			out[p.n+"/"+kv[:i]] = kv[i+1:]
		}
	}
	return out
}

func sameMap(a, b map[string]string) bool {
	if len(a) != len(b) {
		return false
	}
	for k, v := range a {
		if bv, ok := b[k]; !ok || bv != v {
			return false
		}
	}
	return true
}

// ---------------------------------------------------------------- census of a commit's write units

// census classifies every op of the given units by key family.  Families the
// model predicts are printed; node / value / orphan records of the trees are
// summarised as "other" (their number depends on B+tree internals).
func (w *World) census(units []unit) string {
	cnt := map[string]int{}
	other := 0
	for _, u := range units {
		for _, op := range u.ops {
			k := string(op.key)
			sign := "+"
			if op.del {
				sign = "-"
			}
			switch {
			case k == "s/latest":
				cnt["L"+sign]++
			case strings.HasPrefix(k, "s/k:") || strings.HasPrefix(k, "s/_/"):
				var name, sub string
				if strings.HasPrefix(k, "s/_/") {
					sub = k[4:]
					name = "main"
					if len(sub) == 0 || !isTreePrefix(sub[0]) {
						name = "base"
					}
				} else {
					rest := k[4:]
					i := strings.IndexByte(rest, '/')
					name, sub = rest[:i], rest[i+1:]
				}
				tag := name[:1]
				kind := "bp"
				switch name {
				case "base":
					kind = "flat"
				case "aux":
					if w.cfg.Aux == "iavl" {
						kind = "iavl"
					}
				}
				switch kind {
				case "flat":
					cnt[tag+sign]++
				case "iavl":
					other++
				default:
					switch {
					case len(sub) == 9 && sub[0] == 'R':
						cnt[tag+"R"+sign]++
					case len(sub) > 0 && sub[0] == 'F':
						cnt[tag+"F"+sign]++
					case sub == "Mfastidx":
						cnt[tag+"S"+sign]++
					default:
						other++
					}
				}
			case strings.HasPrefix(k, "s/"):
				cnt["C"+sign]++
			default:
				cnt["?"+sign]++
			}
		}
	}
	keys := make([]string, 0, len(cnt))
	for k := range cnt {
		keys = append(keys, k)
	}
	sort.Strings(keys)
	var parts []string
	for _, k := range keys {
		parts = append(parts, k+strconv.Itoa(cnt[k]))
	}
	_ = other
	return strings.Join(parts, ",")
}

// ---------------------------------------------------------------- recovery of one crash point

type recovered struct {
	err      string // "" or error class
	ver      int64
	hash     []byte
	d        dump
	h, c     bool
	cont     bool
	contNote string
}

func classifyLoadErr(err error) string {
	s := err.Error()
	switch {
	case strings.Contains(s, "no data"):
		return "nocommitinfo"
	case strings.Contains(s, "wrong commit id"):
		return "wrongid"
	case strings.Contains(s, "fast index stamp"):
		return "stampahead"
	case strings.Contains(s, "does not exist"):
		return "noroot"
	}
	return "load"
}

// idxOfVersion: index of the block that produced version v in the uncrashed run (-1 = nothing committed, -2 = unknown).
func (w *World) idxOfVersion(v int64) int {
	if v == 0 {
		return -1
	}
	for i, x := range w.vers {
		if x == v {
			return i
		}
	}
	return -2
}

func (w *World) recoverAt(k int) (r recovered) {
	cdb := w.reopenCopy(k)
	cdb.phase = "load"
	var app *sdk.BaseApp
	func() {
		defer func() {
			if v := recover(); v != nil {
				r.err = "panic"
				if os.Getenv("VERIF_TRACE") != "" {
					fmt.Fprintf(os.Stderr, "recover k=%d panic: %v\n", k, v)
				}
			}
		}()
		a, err := newApp(w.cfg, cdb, w.genesis)
		if err != nil {
			r.err = classifyLoadErr(err)
			if os.Getenv("VERIF_TRACE") != "" {
				fmt.Fprintf(os.Stderr, "recover k=%d: %v\n", k, err)
			}
			return
		}
		app = a
	}()
	if r.err != "" {
		cdb.Close()
		return
	}
	defer func() {
		defer func() { recover() }()
		app.Close()
	}()
	cid := app.LastCommitID()
	r.ver, r.hash = cid.Version, cid.Hash
	r.d = dumpApp(app, w.cfg, r.ver)
	i := w.idxOfVersion(r.ver)
	switch {
	case i == -1:
		r.h = len(r.hash) == 0
		r.c = r.d.contents() == dump{m: "[]", a: map[bool]string{true: "[]", false: "-"}[w.cfg.hasAux()], b: "[]"}.contents()
	case i >= 0:
		r.h = bytes.Equal(r.hash, w.hashes[i])
		r.c = r.d.contents() == w.dumps[i].contents()
	}
	if i == -2 {
		r.contNote = "unknown-version"
		return
	}
	// continue the chain from the recovered state
	r.cont = true
	func() {
		defer func() {
			if v := recover(); v != nil {
				r.cont = false
				r.contNote = "panic"
				if os.Getenv("VERIF_TRACE") != "" {
					fmt.Fprintf(os.Stderr, "continue k=%d panic: %v\n", k, v)
				}
			}
		}()
		if i == -1 {
			if !w.inited {
				return
			}
			cdb.phase = "init"
			initChain(app, w.cfg)
		}
		for j := i + 1; j < len(w.blocks); j++ {
			hash, ver, _, _, _ := runBlock(app, w.cfg, cdb, j, w.blocks[j])
			if ver != w.vers[j] || !bytes.Equal(hash, w.hashes[j]) {
				r.cont = false
				r.contNote = fmt.Sprintf("block %d: version %d/%d hash %x/%x", j, ver, w.vers[j], hash, w.hashes[j])
				return
			}
		}
		if n := len(w.blocks); n > 0 && i+1 < n {
			fin := dumpApp(app, w.cfg, w.vers[n-1])
			if fin.contents() != w.dumps[n-1].contents() {
				r.cont = false
				r.contNote = "final contents differ"
			}
		}
	}()
	return
}

func b2s(b bool) string {
	if b {
		return "1"
	}
	return "0"
}

// verdict evaluates the property statement for crash point k.
func (w *World) verdict(k int, r recovered) string {
	if r.err != "" {
		return fmt.Sprintf("VIOL:recover-fail k=%d %s", k, r.err)
	}
	i := w.idxOfVersion(r.ver)
	if i == -2 {
		return fmt.Sprintf("VIOL:torn-version k=%d recovered version %d was never committed", k, r.ver)
	}
	// every commit the crash point can lie in: previous or new version
	inside := false
	for j := range w.vers {
		if w.wBefore[j] <= k && k <= w.wAfter[j] {
			inside = true
			if i != j && i != j-1 {
				return fmt.Sprintf("VIOL:torn-version k=%d inside commit %d (versions %d|%d) recovered %d", k, j, w.verAt(j-1), w.vers[j], r.ver)
			}
		}
	}
	if !inside {
		// between commits (or during InitChain): exactly the last committed version
		last := -1
		for j := range w.vers {
			if w.wAfter[j] <= k {
				last = j
			}
		}
		if i != last {
			return fmt.Sprintf("VIOL:torn-version k=%d outside commits recovered %d want %d", k, r.ver, w.verAt(last))
		}
	}
	if !r.h {
		return fmt.Sprintf("VIOL:torn-hash k=%d version %d app hash %x differs from the uncrashed run", k, r.ver, r.hash)
	}
	if !r.c {
		return fmt.Sprintf("VIOL:torn-contents k=%d version %d contents %s", k, r.ver, compact(r.d.contents()))
	}
	var want map[string]string
	useShadow := true
	if i == -1 {
		want = map[string]string{}
	} else {
		want = w.shadow[i]
		useShadow = w.shadowOK[i]
	}
	if useShadow && !sameMap(userKeys(r.d), want) {
		return fmt.Sprintf("VIOL:torn-contents k=%d version %d user keys differ from the script's effect", k, r.ver)
	}
	if !r.cont {
		return fmt.Sprintf("VIOL:diverge k=%d from version %d: %s", k, r.ver, r.contNote)
	}
	return "ok"
}

func (w *World) verAt(j int) int64 {
	if j < 0 {
		return 0
	}
	return w.vers[j]
}

// ---------------------------------------------------------------- exec

func exec(t []string) (string, string) {
	if len(t) == 0 {
		return "err:badop", "-"
	}
	switch t[0] {
	case "cfg":
		if len(t) != 8 {
			return "err:badop", "-"
		}
		var c Cfg
		c.Backend = t[1]
		if c.Backend != "mem" && c.Backend != "level" {
			return "err:badop", "-"
		}
		switch t[2] {
		case "shared":
			c.Shared = true
		case "keyed":
		default:
			return "err:badop", "-"
		}
		t = t[1:]
		c.Aux = t[2]
		if c.Shared && c.Aux != "none" {
			return "err:badop", "-"
		}
		switch c.Aux {
		case "none", "bp", "bpf", "iavl":
		default:
			return "err:badop", "-"
		}
		switch t[3] {
		case "0":
		case "1":
			c.Fast = true
		default:
			return "err:badop", "-"
		}
		var ok1, ok2, ok3 bool
		c.KeepRecent, ok1 = natTok(t[4])
		c.KeepEvery, ok2 = natTok(t[5])
		c.InitialHeight, ok3 = natTok(t[6])
		if !ok1 || !ok2 || !ok3 {
			return "err:badop", "-"
		}
		if w.cfgSet {
			return "err:state", "-"
		}
		w.cfg, w.cfgSet = c, true
		w.db = NewCrashDB(w.freshBackend())
		w.db.phase = "load"
		app, err := newApp(c, w.db, nil)
		if err != nil {
			panic(err)
		}
		w.app = app
		return "ok", "-"
	case "init":
		if len(t) != 2 {
			return "err:badop", "-"
		}
		if !w.cfgSet {
			return "err:state", "-"
		}
		steps, ok := parseSteps(t[1], w.cfg.hasAux())
		if !ok {
			return "err:badop", "-"
		}
		if w.inited {
			return "err:state", "-"
		}
		w.genesis = steps
		w.inited = true
		noteKeys(steps)
		// the InitChainer closure of the live app reads w.genesis through newApp's
		// argument; rebuild the app so that it sees the steps (nothing was written yet).
		w.app.Close()
		w.db = NewCrashDB(w.freshBackend())
		w.db.phase = "load"
		app, err := newApp(w.cfg, w.db, w.genesis)
		if err != nil {
			panic(err)
		}
		w.app = app
		w.db.phase = "init"
		initChain(w.app, w.cfg)
		w.db.phase = "idle"
		applyShadow(w.cur, steps)
		return fmt.Sprintf("ok w=%d", w.db.Writes()), "-"
	case "blk":
		if !w.cfgSet {
			return "err:state", "-"
		}
		var txs []TxS
		for _, tok := range t[1:] {
			tx, ok := parseTx(tok, w.cfg.hasAux())
			if !ok {
				return "err:badop", "-"
			}
			txs = append(txs, tx)
		}
		if !w.inited {
			return "err:state", "-"
		}
		idx := len(w.blocks)
		for _, tx := range txs {
			noteKeys(tx.Steps)
		}
		hash, ver, w0, w1, w2 := runBlock(w.app, w.cfg, w.db, idx, txs)
		w.blocks = append(w.blocks, txs)
		w.vers = append(w.vers, ver)
		w.hashes = append(w.hashes, hash)
		w.dumps = append(w.dumps, dumpApp(w.app, w.cfg, ver))
		w.wBefore = append(w.wBefore, w1)
		w.wAfter = append(w.wAfter, w2)
		for _, tx := range txs {
			if tx.OK {
				applyShadow(w.cur, tx.Steps)
			}
		}
		w.shadow = append(w.shadow, cloneMap(w.cur))
		kinds := ""
		for _, u := range w.db.units[w1:w2] {
			switch {
			case u.batch && u.sync:
				kinds += "B"
			case u.batch:
				kinds += "b"
			case u.sync:
				kinds += "S"
			default:
				kinds += "d"
			}
		}
		out := fmt.Sprintf("v=%d w=%d wc=%d wk=%s %s", ver, w1-w0, w2-w1, kinds, w.census(w.db.units[w1:w2]))
		// no verdict on a block by itself: C27 speaks about crash points.  Whether
		// the uncrashed run shows the script's effect only decides if the shadow
		// map may be used to judge the crash copies of this version.
		w.shadowOK = append(w.shadowOK, sameMap(userKeys(w.dumps[idx]), w.shadow[idx]))
		return compact(out), "-"
	case "rec":
		if len(t) != 2 {
			return "err:badop", "-"
		}
		k64, ok := natTok(t[1])
		if !ok {
			return "err:badop", "-"
		}
		if !w.cfgSet {
			return "err:state", "-"
		}
		k := int(k64)
		if k > w.db.Writes() {
			return "err:range", "-"
		}
		r := w.recoverAt(k)
		if r.err != "" {
			return "err:" + r.err, w.verdict(k, r)
		}
		out := fmt.Sprintf("v=%d %s mv=%s av=%s h=%s c=%s cont=%s", r.ver, r.d.contents(), r.d.mv, r.d.av, b2s(r.h), b2s(r.c), b2s(r.cont))
		return compact(out), w.verdict(k, r)
	case "all":
		if len(t) != 1 {
			return "err:badop", "-"
		}
		if !w.cfgSet {
			return "err:state", "-"
		}
		var parts []string
		orc := "ok"
		for k := 0; k <= w.db.Writes(); k++ {
			r := w.recoverAt(k)
			if r.err != "" {
				parts = append(parts, fmt.Sprintf("%d:err:%s", k, r.err))
			} else {
				parts = append(parts, fmt.Sprintf("%d:%d:%s%s%s", k, r.ver, b2s(r.h), b2s(r.c), b2s(r.cont)))
			}
			if v := w.verdict(k, r); v != "ok" && orc == "ok" {
				orc = v
			}
		}
		return compact(strings.Join(parts, " ")), orc
	}
	return "err:badop", "-"
}

func main() {
	kit.Main(&kit.Harness{
		Gen:   gen,
		Reset: reset,
		Exec:  exec,
	})
	if w != nil {
		w.cleanup() // temp dirs of the last case (goleveldb backend)
	}
}
