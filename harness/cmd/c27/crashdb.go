package main

// crashdb: a dbm.DB wrapper that counts PHYSICAL write operations and keeps a
// copy of the underlying DB after each of them.
//
// A physical write is
//   - one Set / Delete / SetSync / DeleteSync issued directly on the DB, or
//   - one batch Write / WriteSync (the whole batch is ONE atomic unit: that
//     atomicity is the storage engine's contract and the assumption the C27
//     model makes).
//
// After every physical write the wrapper iterates the UNDERLYING database and
// stores a deep copy of its full contents; "the process died right after the
// k-th physical write" is then "reopen from copy k" (copy 0 = the empty DB).
// Every unit is also logged (ops, sync flag, the phase label current at that
// moment) for the write-site census printed by the harness.

import (
	"sort"

	dbm "github.com/gnolang/gno/tm2/pkg/db"
)

type wop struct {
	del      bool
	key, val []byte
}

type unit struct {
	ops   []wop
	batch bool
	sync  bool
	phase string // label set by the harness: init, deliver, commit:<i>, load, ...
}

type CrashDB struct {
	inner dbm.DB
	units []unit
	snaps []map[string]string // snaps[k] = contents after k physical writes
	phase string
	// reads through open snapshots are not writes; nothing to count there.
}

var _ dbm.DB = (*CrashDB)(nil)

func NewCrashDB(inner dbm.DB) *CrashDB {
	c := &CrashDB{inner: inner, phase: "open"}
	c.snaps = append(c.snaps, c.copyOut())
	return c
}

func cpb(b []byte) []byte { return append([]byte{}, b...) }

// copyOut deep-copies the underlying DB by iterating it.
func (c *CrashDB) copyOut() map[string]string {
	m := map[string]string{}
	it, err := c.inner.Iterator(nil, nil)
	if err != nil {
		panic(err)
	}
	defer it.Close()
	for ; it.Valid(); it.Next() {
		m[string(it.Key())] = string(it.Value())
	}
	if err := it.Error(); err != nil {
		panic(err)
	}
	return m
}

func (c *CrashDB) record(u unit) {
	u.phase = c.phase
	c.units = append(c.units, u)
	c.snaps = append(c.snaps, c.copyOut())
}

// Writes returns the number of physical writes so far.
func (c *CrashDB) Writes() int { return len(c.units) }

func (c *CrashDB) Get(k []byte) ([]byte, error) { return c.inner.Get(k) }
func (c *CrashDB) Has(k []byte) (bool, error)   { return c.inner.Has(k) }

func (c *CrashDB) Set(k, v []byte) error {
	if err := c.inner.Set(cpb(k), cpb(v)); err != nil {
		return err
	}
	c.record(unit{ops: []wop{{key: cpb(k), val: cpb(v)}}})
	return nil
}

func (c *CrashDB) SetSync(k, v []byte) error {
	if err := c.inner.SetSync(cpb(k), cpb(v)); err != nil {
		return err
	}
	c.record(unit{ops: []wop{{key: cpb(k), val: cpb(v)}}, sync: true})
	return nil
}

func (c *CrashDB) Delete(k []byte) error {
	if err := c.inner.Delete(cpb(k)); err != nil {
		return err
	}
	c.record(unit{ops: []wop{{del: true, key: cpb(k)}}})
	return nil
}

func (c *CrashDB) DeleteSync(k []byte) error {
	if err := c.inner.DeleteSync(cpb(k)); err != nil {
		return err
	}
	c.record(unit{ops: []wop{{del: true, key: cpb(k)}}, sync: true})
	return nil
}

func (c *CrashDB) Iterator(s, e []byte) (dbm.Iterator, error) { return c.inner.Iterator(s, e) }
func (c *CrashDB) ReverseIterator(s, e []byte) (dbm.Iterator, error) {
	return c.inner.ReverseIterator(s, e)
}
func (c *CrashDB) Close() error                       { return c.inner.Close() }
func (c *CrashDB) Print() error                       { return c.inner.Print() }
func (c *CrashDB) Stats() map[string]string           { return c.inner.Stats() }
func (c *CrashDB) NewSnapshot() (dbm.Snapshot, error) { return c.inner.NewSnapshot() }

func (c *CrashDB) NewBatch() dbm.Batch { return &crashBatch{c: c, b: c.inner.NewBatch()} }
func (c *CrashDB) NewBatchWithSize(n int) dbm.Batch {
	return &crashBatch{c: c, b: c.inner.NewBatchWithSize(n)}
}

type crashBatch struct {
	c   *CrashDB
	b   dbm.Batch
	ops []wop
}

func (b *crashBatch) Set(k, v []byte) error {
	b.ops = append(b.ops, wop{key: cpb(k), val: cpb(v)})
	return b.b.Set(cpb(k), cpb(v))
}

func (b *crashBatch) Delete(k []byte) error {
	b.ops = append(b.ops, wop{del: true, key: cpb(k)})
	return b.b.Delete(cpb(k))
}

func (b *crashBatch) flush(sync bool) error {
	var err error
	if sync {
		err = b.b.WriteSync()
	} else {
		err = b.b.Write()
	}
	if err != nil {
		return err
	}
	// an empty batch write is still a physical operation issued to the engine
	b.c.record(unit{ops: b.ops, batch: true, sync: sync})
	b.ops = nil
	return nil
}

func (b *crashBatch) Write() error              { return b.flush(false) }
func (b *crashBatch) WriteSync() error          { return b.flush(true) }
func (b *crashBatch) Close() error              { b.ops = nil; return b.b.Close() }
func (b *crashBatch) GetByteSize() (int, error) { return b.b.GetByteSize() }

// sortedKeys of a snapshot, for deterministic population of a reopened DB.
func sortedKeys(m map[string]string) []string {
	ks := make([]string, 0, len(m))
	for k := range m {
		ks = append(ks, k)
	}
	sort.Strings(ks)
	return ks
}
