package main

import (
	"fmt"
	"strings"

	"gnoverif/kit"
)

// ---------------------------------------------------------------- generator
//
// 1. boundary table: every pruning regime (keep nothing / a window / every
//    version / the unsupported waypoint distances), InitialHeight 1, 2 and a
//    hard-fork height, every aux store kind, empty blocks, blocks that empty a
//    tree, blocks large enough to split B+tree leaves (B = 32), failing txs;
// 2. structured random chains (mostly valid);
// 3. a malformed stream (every line must answer err:badop / err:state / err:range on both sides).

var genKeys = []string{"6b31", "6b32", "6b33", "6b34", "6b35", "6b36", "00", "ff", "6b3161", "6b"}
var genVals = []string{"01", "02", "0303", "7a", "ff00ff"}

func stepW(st byte, k, v string) string { return fmt.Sprintf("w.%c.%s.%s", st, k, v) }
func stepD(st byte, k string) string    { return fmt.Sprintf("d.%c.%s", st, k) }

func manyKeys(st byte, n, salt int) string {
	var s []string
	for i := 0; i < n; i++ {
		s = append(s, stepW(st, fmt.Sprintf("71%02x%02x", salt, i), fmt.Sprintf("%02x", (i*7+salt)%251+1)))
	}
	return strings.Join(s, ",")
}

func delMany(st byte, n, salt int) string {
	var s []string
	for i := 0; i < n; i++ {
		s = append(s, stepD(st, fmt.Sprintf("71%02x%02x", salt, i)))
	}
	return strings.Join(s, ",")
}

func randSteps(r *kit.Rand, aux bool, n int) string {
	stores := []byte{'m', 'm', 'm', 'b'}
	if aux {
		stores = append(stores, 'a', 'a')
	}
	var s []string
	for i := 0; i < n; i++ {
		st := kit.Pick(r, stores)
		if r.Chance(25) {
			s = append(s, stepD(st, kit.Pick(r, genKeys)))
		} else {
			s = append(s, stepW(st, kit.Pick(r, genKeys), kit.Pick(r, genVals)))
		}
	}
	if len(s) == 0 {
		return "-"
	}
	return strings.Join(s, ",")
}

func randBlock(r *kit.Rand, aux bool) string {
	n := r.Intn(4)
	var txs []string
	for i := 0; i < n; i++ {
		kind := "ok:"
		if r.Chance(20) {
			kind = "fail:"
		}
		txs = append(txs, kind+randSteps(r, aux, r.Range(0, 4)))
	}
	return strings.TrimSpace("blk " + strings.Join(txs, " "))
}

type caseCfg struct {
	backend, wiring, aux string
	fast                 int
	kr, ke, ih           int
}

func (c caseCfg) line() string {
	return fmt.Sprintf("cfg %s %s %s %d %d %d %d", c.backend, c.wiring, c.aux, c.fast, c.kr, c.ke, c.ih)
}

func emitChain(o *kit.Out, id string, c caseCfg, init string, blocks []string, recs []int) {
	o.Case(id)
	o.Op("%s", c.line())
	o.Op("init %s", init)
	for _, b := range blocks {
		o.Op("%s", b)
	}
	o.Op("all")
	for _, k := range recs {
		o.Op("rec %d", k)
	}
}

func gen(o *kit.Out, r *kit.Rand, tier string) {
	thorough := tier == "thorough"
	// ---- 1. boundary table
	std := []string{
		"blk ok:w.m.6b31.01,w.b.6b31.02",
		"blk ok:w.m.6b32.03 fail:w.m.6b33.04,w.b.6b39.05",
		"blk",
		"blk ok:d.m.6b31,w.m.6b32.06,d.b.6b31",
		"blk ok:d.m.6b32",
		"blk ok:w.m.6b31.07",
	}
	i := 0
	for _, kr := range []int{0, 1, 2, 100} {
		for _, ke := range []int{0, 1, 2, 3} {
			for _, ih := range []int{1, 2, 1000} {
				if !thorough && (i%3 != int(r.Intn(3))) && !(kr == 0 && ke == 0) {
					i++
					continue
				}
				c := caseCfg{"mem", []string{"shared", "keyed"}[i%2], "none", 1, kr, ke, ih}
				emitChain(o, fmt.Sprintf("b-prune-%d-%d-%d", kr, ke, ih), c, "w.m.6730.01,w.b.6730.02", std, []int{0, 1, 3, 6})
				i++
			}
		}
	}
	for _, aux := range []string{"bp", "bpf", "iavl"} {
		for _, fast := range []int{0, 1} {
			c := caseCfg{"mem", "keyed", aux, fast, 1, 0, 1}
			blocks := []string{
				"blk ok:w.m.6b31.01,w.a.6b31.02,w.b.6b31.03",
				"blk ok:w.a.6b32.03 fail:w.a.6b33.04",
				"blk ok:d.a.6b31,d.a.6b32",
				"blk ok:w.a.6b31.09,w.m.6b31.09",
			}
			emitChain(o, fmt.Sprintf("b-aux-%s-%d", aux, fast), c, "w.a.6730.01", blocks, []int{0, 2, 4})
		}
	}
	// leaves splitting / merging and a tree emptied completely
	for _, kr := range []int{0, 2} {
		c := caseCfg{"mem", "keyed", "bp", 1, kr, 0, 1}
		blocks := []string{
			"blk ok:" + manyKeys('m', 40, 1) + " ok:" + manyKeys('a', 35, 2),
			"blk ok:" + manyKeys('m', 40, 3),
			"blk ok:" + delMany('m', 40, 1),
			"blk ok:" + delMany('m', 40, 3) + " ok:" + delMany('a', 35, 2),
			"blk ok:w.m.6b31.01",
		}
		emitChain(o, fmt.Sprintf("b-big-%d", kr), c, "-", blocks, []int{1, 3, 4, 5})
	}
	// no blocks at all; init only; genesis without steps
	emitChain(o, "b-noblocks", caseCfg{"mem", "shared", "none", 1, 0, 0, 1}, "-", nil, []int{0})
	emitChain(o, "b-emptyblocks", caseCfg{"mem", "keyed", "bpf", 1, 0, 0, 5}, "-", []string{"blk", "blk", "blk"}, []int{0, 1, 2, 3})
	// goleveldb: really closed and reopened from disk
	emitChain(o, "b-level", caseCfg{"level", "keyed", "bp", 1, 1, 0, 1}, "w.m.6730.01", std, []int{0, 2, 6})
	emitChain(o, "b-level-shared", caseCfg{"level", "shared", "none", 1, 0, 0, 1}, "w.m.6730.01,w.b.6730.02", std, []int{0, 3, 6})
	if thorough {
		emitChain(o, "b-level-iavl", caseCfg{"level", "keyed", "iavl", 1, 0, 0, 3}, "w.a.6730.01", std, []int{0, 1, 5})
	}

	// ---- 2. structured random
	n := 16
	if thorough {
		n = 140
	}
	for ci := 0; ci < n; ci++ {
		c := caseCfg{backend: "mem", wiring: "keyed", aux: kit.Pick(r, []string{"none", "none", "none", "bp", "bpf", "iavl"}), fast: 1}
		if c.aux == "none" && r.Chance(66) {
			c.wiring = "shared"
		}
		if r.Chance(20) {
			c.fast = 0
		}
		if r.Chance(6) {
			c.backend = "level"
		}
		c.kr = kit.Pick(r, []int{0, 0, 1, 2, 3, 50})
		c.ke = kit.Pick(r, []int{0, 0, 0, 1, 2, 4})
		c.ih = kit.Pick(r, []int{1, 1, 1, 2, 7, 100000})
		aux := c.aux != "none"
		nb := r.Range(1, 9)
		if thorough && r.Chance(15) {
			nb = r.Range(10, 16)
		}
		var blocks []string
		for b := 0; b < nb; b++ {
			if r.Chance(7) {
				st := byte('m')
				if aux && r.Bool() {
					st = 'a'
				}
				salt := r.Range(1, 3)
				if r.Bool() {
					blocks = append(blocks, "blk ok:"+manyKeys(st, r.Range(20, 70), salt))
				} else {
					blocks = append(blocks, "blk ok:"+delMany(st, r.Range(20, 70), salt))
				}
				continue
			}
			blocks = append(blocks, randBlock(r, aux))
		}
		var recs []int
		for j := 0; j < 2; j++ {
			recs = append(recs, r.Intn(nb+1))
		}
		emitChain(o, fmt.Sprintf("r-%d", ci), c, randSteps(r, aux, r.Range(0, 3)), blocks, recs)
	}

	// ---- 3. malformed stream
	o.Case("malformed")
	for _, l := range []string{
		"blk", "init -", "all", "rec 0",
		"cfg", "cfg mem", "cfg mem keyed none 1 0 0", "cfg disk keyed none 1 0 0 1", "cfg mem keyed tree 1 0 0 1", "cfg mem keyed none 2 0 0 1",
		"cfg mem keyed none 1 -1 0 1", "cfg mem keyed none 1 0 x 1", "cfg mem keyed none 1 0 0 1234567890", "cfg mem keyed none 1 0 0 +1",
		"cfg mem none 1 0 0 1", "cfg mem shared bp 1 0 0 1", "cfg mem both none 1 0 0 1",
		"cfg mem keyed none 1 0 0 1",
		"cfg mem keyed none 1 0 0 1",
		"blk ok:w.m.6b31.01",
		"init", "init x", "init w.m.6b31", "init w.a.6b31.01", "init w.z.6b31.01", "init w.m.6B31.01", "init w.m.6b3.01",
		"init w.m..01", "init w.m.6b31.", "init d.m.6b31.01", "init w.m.636f6e73656e7375735f706172616d73.01",
		"init w.b.6c6173745f686561646572.01", "init w.b.4601.01", "init d.b.52", "init w.m.6b31.01,", "init ,", "init - -",
		"init w.m.6b31.01",
		"init -",
		"blk ok", "blk ok:", "blk nok:-", "blk ok:w.m.6b31", "blk ok:- fail:x", "blk ok:w.a.6b31.01",
		"rec", "rec x", "rec 1 2", "rec 99", "rec -1", "all x", "frob", "",
		"blk ok:w.m.6b32.02",
		"rec 1", "rec 2", "all",
	} {
		o.Op("%s", l)
	}
}
