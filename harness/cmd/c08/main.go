// Harness for C08 — coins leave an address only with that address's authority.
//
// The REAL code under test, in-process and hook-free: gno.land's vm.VMKeeper
// (MsgCall / MsgRun handlers, processStorageDeposit), vm.SDKBanker, the
// chain/banker stdlib package (banker.gno interpreted by the real GnoVM, its
// natives in banker.go), the realm-value machinery of the VM (`cur realm`,
// cross, IsCurrent, Previous, Sub) and the tm2 bank + auth keepers over a
// memdb multistore.  Three interpreter realms (see gno.go) are deployed once;
// every op line is one transaction whose SCRIPT decides what the Gno code does.
//
// The oracle is independent of the Lean model: it snapshots the balances of
// ALL accounts of the bank before and after each transaction and evaluates the
// property statement on the difference, using only a syntactic labelling of
// the script (which realm's code contains which instruction).
package main

import (
	"fmt"
	"os"
	"path/filepath"
	"sort"
	"strconv"
	"strings"
	"time"

	"gnoverif/kit"

	gno "github.com/gnolang/gno/gnovm/pkg/gnolang"

	"github.com/gnolang/gno/gno.land/pkg/sdk/vm"
	"github.com/gnolang/gno/tm2/pkg/amino"
	bft "github.com/gnolang/gno/tm2/pkg/bft/types"
	"github.com/gnolang/gno/tm2/pkg/crypto"
	"github.com/gnolang/gno/tm2/pkg/db/memdb"
	"github.com/gnolang/gno/tm2/pkg/log"
	"github.com/gnolang/gno/tm2/pkg/sdk"
	authm "github.com/gnolang/gno/tm2/pkg/sdk/auth"
	bankm "github.com/gnolang/gno/tm2/pkg/sdk/bank"
	pm "github.com/gnolang/gno/tm2/pkg/sdk/params"
	"github.com/gnolang/gno/tm2/pkg/std"
	"github.com/gnolang/gno/tm2/pkg/store"
	storebptree "github.com/gnolang/gno/tm2/pkg/store/bptree"
	"github.com/gnolang/gno/tm2/pkg/store/dbadapter"
)

// ---------------------------------------------------------------- environment

type env struct {
	ms      store.CommitMultiStore
	baseCtx sdk.Context
	iavlKey store.StoreKey
	baseKey store.StoreKey
	prmk    pm.ParamsKeeper
	acck    authm.AccountKeeper
	bankk   bankm.BankKeeper
	vmk     *vm.VMKeeper

	caseMS  store.MultiStore
	caseCtx sdk.Context

	sym2addr map[string]crypto.Address // symbolic name -> address
	addr2sym map[crypto.Address]string
	symOrder []string
}

var E *env

func repoDir() string {
	if d := os.Getenv("VERIF_REPO"); d != "" {
		return d
	}
	return "/repo"
}

func trace(format string, a ...any) {
	if os.Getenv("VERIF_TRACE") != "" {
		fmt.Fprintf(os.Stderr, format+"\n", a...)
	}
}

// the universe of symbolic addresses
var userNames = []string{"u0", "u1", "u2", "u3"}
var subNames = []string{"x", "y/z"}

const (
	initStorage = 100000 // bytes every realm is set to at the start (see setupRealmMeta)
	initPrice   = 100    // ugnot per byte, vm.DefaultParams
	userFunds   = 1000000000
	poorFunds   = 5000 // u2
	realmFunds  = 1000000
)

func (e *env) addSym(name string, a crypto.Address) {
	e.sym2addr[name] = a
	e.addr2sym[a] = name
	e.symOrder = append(e.symOrder, name)
}

func buildEnv() *env {
	t0 := time.Now()
	db := memdb.NewMemDB()
	baseKey := store.NewStoreKey("baseCapKey")
	iavlKey := store.NewStoreKey("iavlCapKey")
	ms := store.NewCommitMultiStore(db)
	ms.MountStoreWithDB(baseKey, dbadapter.StoreConstructor, db)
	ms.MountStoreWithDB(iavlKey, storebptree.FastStoreConstructor, db)
	ms.LoadLatestVersion()
	ctx := sdk.NewContext(sdk.RunTxModeDeliver, ms, &bft.Header{ChainID: "test-chain-id", Height: 42}, log.NewNoopLogger())

	prmk := pm.NewParamsKeeper(iavlKey)
	acck := authm.NewAccountKeeper(iavlKey, prmk.ForModule(authm.ModuleName), std.ProtoBaseAccount, std.ProtoBaseSessionAccount)
	bankk := bankm.NewBankKeeper(acck, prmk.ForModule(bankm.ModuleName), iavlKey, []string{"ugnot"})
	vmk := vm.NewVMKeeper(baseKey, iavlKey, acck, bankk, prmk)
	prmk.Register(authm.ModuleName, acck)
	prmk.Register(bankm.ModuleName, bankk)
	prmk.Register(vm.ModuleName, vmk)
	acck.SetParams(ctx, authm.DefaultParams())
	bankk.SetParams(ctx, bankm.DefaultParams())
	if err := vmk.SetParams(ctx, vm.DefaultParams()); err != nil {
		panic(err)
	}

	e := &env{ms: ms, baseCtx: ctx, iavlKey: iavlKey, baseKey: baseKey, prmk: prmk, acck: acck, bankk: bankk, vmk: vmk,
		sym2addr: map[string]crypto.Address{}, addr2sym: map[crypto.Address]string{}}

	for _, u := range userNames {
		e.addSym(u, crypto.AddressFromPreimage([]byte("c08user"+u)))
	}
	for _, r := range realmNames {
		e.addSym(r, gno.DerivePkgCryptoAddr(realmPath(r)))
	}
	for _, r := range realmNames {
		for _, s := range subNames {
			e.addSym(r+"#"+s, gno.DerivePkgCryptoAddr(realmPath(r)+"#"+s))
		}
	}
	for _, r := range realmNames {
		e.addSym("d"+r, gno.DeriveStorageDepositCryptoAddr(realmPath(r)))
	}
	e.addSym("col", vm.DefaultParams().StorageFeeCollector)

	// accounts: u0..u2 funded, u3 has NO account
	for _, u := range userNames[:3] {
		a := e.sym2addr[u]
		acck.SetAccount(ctx, acck.NewAccountWithAddress(ctx, a))
		if err := bankk.SetCoins(ctx, a, std.MustParseCoins(strconv.Itoa(userFunds)+"ugnot")); err != nil {
			panic(err)
		}
	}

	// stdlibs
	mcw := ms.MultiCacheWrap()
	vmk.Initialize(log.NewNoopLogger(), mcw)
	sctx := vmk.MakeGnoTransactionStore(ctx.WithMultiStore(mcw))
	vmk.LoadStdlibCached(sctx, filepath.Join(repoDir(), "gnovm", "stdlibs"))
	vmk.CommitGnoTransactionStore(sctx)
	mcw.MultiWrite()
	vmk.PopulateStdlibCache()
	trace("stdlibs loaded in %v", time.Since(t0))

	E = e
	func() {
		defer func() {
			if r := recover(); r != nil {
				fmt.Fprintf(os.Stderr, "c08: environment setup failed: %v\n", r)
				os.Exit(3)
			}
		}()
		e.setup()
	}()
	e.newCase()
	trace("env built in %v", time.Since(t0))
	return e
}

// baseTx runs f directly on the base store (setup only).
func (e *env) baseTx(what string, f func(ctx sdk.Context) error) {
	mcw := e.ms.MultiCacheWrap()
	ctx := e.vmk.MakeGnoTransactionStore(e.baseCtx.WithMultiStore(mcw))
	if err := f(ctx); err != nil {
		panic(fmt.Sprintf("setup %s: %v", what, err))
	}
	e.vmk.CommitGnoTransactionStore(ctx)
	mcw.MultiWrite()
}

func (e *env) setup() {
	deployer := e.sym2addr["u0"]
	// deploy leaf first (imports must exist)
	for _, name := range []string{"rc", "rb", "ra"} {
		path := realmPath(name)
		files := []*std.MemFile{
			{Name: "a.gno", Body: realmSource(name)},
			{Name: "gnomod.toml", Body: gno.GenGnoModLatest(path)},
		}
		e.baseTx("deploy "+name, func(ctx sdk.Context) error {
			return e.vmk.AddPackage(ctx, vm.NewMsgAddPackage(deployer, path, files))
		})
	}
	for _, name := range realmNames {
		e.baseTx("setup "+name, func(ctx sdk.Context) error {
			_, err := e.vmk.Call(ctx, vm.NewMsgCall(deployer, nil, realmPath(name), "Setup", nil))
			return err
		})
	}
	e.setupGiven()
	e.setupRealmMeta()
}

// setupGiven: ra gives its persisted RealmSend banker to rb (slot 0) and rc (slot 0);
// rb gives to rc (slot 1).  Done with one MsgRun whose main drives Receive through
// the donors' own crossing function DoArg: the donor's code hands `b` over.
func (e *env) setupGiven() {
	// donor script: load own RealmSend banker, cross into the receiver's DoArg with it;
	// the receiver stores bk into given[slot] via the "keep" op (setup-only op).
	type g struct {
		donor, recv string
		slot        int
	}
	for _, x := range []g{{"ra", "rb", 0}, {"ra", "rc", 0}, {"rb", "rc", 1}} {
		prog := fmt.Sprintf("ld,2;x,ca,%s,{keep,%d}", x.recv, x.slot)
		e.baseTx("give", func(ctx sdk.Context) error {
			_, err := e.vmk.Call(ctx, vm.NewMsgCall(e.sym2addr["u0"], nil, realmPath(x.donor), "Do", []string{prog}))
			return err
		})
	}
}

// setupRealmMeta pins every realm's (Storage, Deposit) and deposit-address
// balance to known constants, funds the realm addresses and resets the users,
// so that the model's initial state is a constant.
func (e *env) setupRealmMeta() {
	mcw := e.ms.MultiCacheWrap()
	ctx := e.baseCtx.WithMultiStore(mcw)
	for _, name := range realmNames {
		rlm := readRealm(ctx.Store(e.baseKey), realmPath(name))
		trace("realm %s after setup: storage=%d deposit=%d", name, rlm.Storage, rlm.Deposit)
		rlm.Storage = initStorage
		rlm.Deposit = initStorage * initPrice
		ctx.Store(e.baseKey).Set(nil, realmKey(realmPath(name)), amino.MustMarshal(rlm))
		must(e.bankk.SetCoins(ctx, e.sym2addr["d"+name], std.NewCoins(std.NewCoin("ugnot", initStorage*initPrice))))
		must(e.bankk.SetCoins(ctx, e.sym2addr[name], std.NewCoins(std.NewCoin("ugnot", realmFunds))))
	}
	for _, u := range userNames[:3] {
		n := int64(userFunds)
		if u == "u2" {
			n = poorFunds
		}
		must(e.bankk.SetCoins(ctx, e.sym2addr[u], std.NewCoins(std.NewCoin("ugnot", n))))
	}
	e.bankk.RecomputeSupply(ctx)
	mcw.MultiWrite()
}

// The realm record (Path, Storage, Deposit, …) is an amino blob in the base
// store under "oid:<pkg oid>#realm" (gnolang/store.go SetPackageRealm).
func realmKey(path string) []byte {
	return []byte("oid:" + gno.ObjectIDFromPkgPath(path).String() + "#realm")
}

func readRealm(st store.Store, path string) *gno.Realm {
	bz := st.Get(nil, realmKey(path))
	if bz == nil {
		panic("no realm record for " + path)
	}
	var rlm *gno.Realm
	amino.MustUnmarshal(bz, &rlm)
	return rlm
}

func must(err error) {
	if err != nil {
		panic(err)
	}
}

func (e *env) newCase() {
	e.caseMS = e.ms.MultiCacheWrap()
	e.caseCtx = e.baseCtx.WithMultiStore(e.caseMS)
}

func getEnv() *env {
	if E == nil {
		buildEnv()
	}
	return E
}

// tx runs f on a tx-level cache layer over the case layer; commits iff f
// returns nil and does not panic (baseapp.runTx's discipline).
func (e *env) tx(f func(ctx sdk.Context) error) (err error) {
	txMS := e.caseMS.MultiCacheWrap()
	ctx := e.vmk.MakeGnoTransactionStore(e.caseCtx.WithMultiStore(txMS))
	func() {
		defer func() {
			if r := recover(); r != nil {
				err = fmt.Errorf("go-panic: %v", r)
			}
		}()
		err = f(ctx)
	}()
	if err == nil {
		e.vmk.CommitGnoTransactionStore(ctx)
		txMS.MultiWrite()
	}
	return err
}

// ---------------------------------------------------------------- balances of ALL accounts

type snapshot map[crypto.Address]std.Coins

func (e *env) snap() snapshot {
	out := snapshot{}
	e.acck.IterateAccounts(e.caseCtx, func(acc std.Account) bool {
		a := acc.GetAddress()
		out[a] = e.bankk.GetCoins(e.caseCtx, a)
		return false
	})
	return out
}

type delta struct {
	who   string // symbolic name or ?hex
	denom string
	d     int64
}

func (e *env) diff(a, b snapshot) []delta {
	var out []delta
	seen := map[crypto.Address]bool{}
	one := func(addr crypto.Address) {
		if seen[addr] {
			return
		}
		seen[addr] = true
		den := map[string]bool{}
		for _, c := range a[addr] {
			den[c.Denom] = true
		}
		for _, c := range b[addr] {
			den[c.Denom] = true
		}
		for d := range den {
			x := b[addr].AmountOf(d) - a[addr].AmountOf(d)
			if x != 0 {
				who, ok := e.addr2sym[addr]
				if !ok {
					who = "?" + addr.String()
				}
				out = append(out, delta{who, d, x})
			}
		}
	}
	for addr := range a {
		one(addr)
	}
	for addr := range b {
		one(addr)
	}
	sort.Slice(out, func(i, j int) bool {
		if out[i].who != out[j].who {
			return out[i].who < out[j].who
		}
		return out[i].denom < out[j].denom
	})
	return out
}

func showDeltas(ds []delta) string {
	if len(ds) == 0 {
		return "-"
	}
	parts := make([]string, len(ds))
	for i, d := range ds {
		parts[i] = fmt.Sprintf("%s:%s:%+d", d.who, d.denom, d.d)
	}
	return strings.Join(parts, ",")
}

// realm (Storage, Deposit) in the case layer
func (e *env) realmMeta() map[string][2]uint64 {
	out := map[string][2]uint64{}
	for _, name := range realmNames {
		rlm := readRealm(e.caseCtx.Store(e.baseKey), realmPath(name))
		out[name] = [2]uint64{rlm.Storage, rlm.Deposit}
	}
	return out
}

// ---------------------------------------------------------------- script translation

// splitTop splits at top-level sep (braces nest) — same grammar as the Gno side.
func splitTop(s string, sep byte) []string {
	var out []string
	depth, start := 0, 0
	for i := 0; i < len(s); i++ {
		switch s[i] {
		case '{':
			depth++
		case '}':
			depth--
		case sep:
			if depth == 0 {
				out = append(out, s[start:i])
				start = i + 1
			}
		}
	}
	return append(out, s[start:])
}

func (e *env) addrString(sym string) string {
	if a, ok := e.sym2addr[sym]; ok {
		return a.String()
	}
	// anything else goes through verbatim (malformed address strings)
	return sym
}

// ---------------------------------------------------------------- error classes

func classify(msg string) string {
	type rule struct{ sub, class string }
	rules := []rule{
		{"c08basic: ", "err:basic"},
		{"c08: ", "err:script"},
		{"type check failed", "err:typecheck"},
		{"missing method .seal", "err:seal"},
		{"use NewReadonlyBanker", "err:bt-readonly"},
		{"invalid banker type", "err:bt-invalid"},
		{"invalid BankerType", "err:bt-invalid"},
		{"banker can only be instantiated for the current realm", "err:not-current"},
		{"not supported for sub-realm tokens", "err:sub-bt"},
		{"can only be instantiated by the origin package", "err:not-origin"},
		{"BankerTypeReadonly cannot send coins", "err:readonly-send"},
		{"can only send coins from realm that created banker", "err:foreign-from"},
		{"cannot issue coins with invalid denom base name", "err:base-denom"},
		{"invalid denom, can only issue/remove coins with the realm's prefix", "err:denom-prefix"},
		{"cannot issue coins", "err:not-issuer"},
		{"cannot remove coins", "err:not-issuer"},
		{"limit \"", "err:origin-limit"},
		{"cross: rlm is not the current cur", "err:cross-stale"},
		{"Sub: subpath cannot be empty", "err:sub-empty"},
		{"Sub: synthesized pkgpath too long", "err:sub-long"},
		{"Sub: receiver pkgpath is already synthesized", "err:sub-host"},
		{"Sub: subpath must be", "err:sub-grammar"},
		{"Sub: receiver is not the live cur", "err:sub-stale"},
		{"Sub: no live crossing frame", "err:sub-stale"},
		{"Sub: ephemeral realms", "err:sub-ephemeral"},
		{"Sub: caller is not operating", "err:sub-foreign"},
		{"frame not found", "err:no-previous"},
		{"nil pointer dereference", "err:nil"},
		{"method selector on nil interface", "err:nil"},
		{"nil function", "err:nil"},
		{"index out of range", "err:index"},
		{"storage diff for unknown realm", "err:deposit-unknown-realm"},
		{"not enough deposit to cover", "err:deposit-short"},
		{"lockStorageDeposit failed", "err:deposit-lock"},
		{"unable to return deposit", "err:deposit-lock"},
		{"not enough storage to be released", "err:deposit-panic"},
		{"not enough deposit to be unlocked", "err:deposit-panic"},
		{"invalid result", "err:origin-add"},
		{"empty param key", "err:param-key"},
		{"invalid param key", "err:param-key"},
		{"does not exist, it must receive coins", "err:unknown-address"},
		{"unknown address", "err:unknown-address"},
		{"insufficient", "err:insufficient"},
		{"restricted token transfer", "err:restricted"},
		{"invalid coins", "err:invalid-coins"},
		{"<error: *errors.errorString>", "err:issue-rejected"}, // validateIssuance / nextSupply: plain fmt.Errorf, rendered opaquely
		{"<error: bech32.", "err:bad-address"},
		{"non realm-qualified denom", "err:not-realm-denom"},
		{"invalid address", "err:bad-address"},
		{"decoding bech32", "err:bad-address"},
		{"overflow", "err:overflow"},
	}
	for _, r := range rules {
		if strings.Contains(msg, r.sub) {
			return r.class
		}
	}
	trace("unclassified: %s", msg)
	return "err:other"
}

// ---------------------------------------------------------------- ops

func parseCoins(tok string) (std.Coins, bool) {
	if tok == "-" {
		return nil, true
	}
	if !okCoinsToken(tok) || !okToken(tok) {
		return nil, false
	}
	var cz std.Coins
	for _, c := range strings.Split(tok, "+") {
		i := strings.IndexByte(c, ':')
		n, _ := strconv.ParseInt(c[:i], 10, 64)
		cz = append(cz, std.Coin{Denom: c[i+1:], Amount: n})
	}
	return cz, true
}

func parseDeposit(tok string) (std.Coins, bool) {
	if !isInt64(tok) || strings.HasPrefix(tok, "-") {
		return nil, false
	}
	n, _ := strconv.ParseInt(tok, 10, 64)
	if n == 0 {
		return nil, true
	}
	return std.Coins{{Denom: "ugnot", Amount: n}}, true
}

type observed struct {
	status string
	deltas []delta
	metaB  map[string][2]uint64
	metaA  map[string][2]uint64
}

func (o observed) String() string {
	var meta []string
	for _, name := range realmNames {
		if o.metaA[name] != o.metaB[name] {
			meta = append(meta, fmt.Sprintf("%s:%+d:%+d", name,
				int64(o.metaA[name][0])-int64(o.metaB[name][0]), int64(o.metaA[name][1])-int64(o.metaB[name][1])))
		}
	}
	ms := "-"
	if len(meta) > 0 {
		ms = strings.Join(meta, ",")
	}
	return o.status + " " + showDeltas(o.deltas) + " " + ms
}

func (e *env) observe(f func() error) observed {
	before := e.snap()
	o := observed{metaB: e.realmMeta()}
	err := f()
	after := e.snap()
	o.metaA = e.realmMeta()
	o.status = "ok"
	if err != nil {
		if os.Getenv("VERIF_RAW") != "" {
			msg := err.Error()
			if i := strings.Index(msg, "\nStacktrace"); i >= 0 {
				msg = msg[:i]
			}
			fmt.Fprintf(os.Stderr, "RAW: %s\n", strings.ReplaceAll(msg, "\n", " | "))
			if os.Getenv("VERIF_RAW") == "2" {
				fmt.Fprintf(os.Stderr, "RAW+: %.1500s\n", strings.ReplaceAll(fmt.Sprintf("%+v", err), "\n", " | "))
			}
		}
		status := classify(err.Error())
		o.status = status
	}
	o.deltas = e.diff(before, after)
	return o
}

func validUser(s string) bool {
	for _, u := range userNames {
		if u == s {
			return true
		}
	}
	return false
}

func validRealm(s string) bool {
	for _, r := range realmNames {
		if r == s {
			return true
		}
	}
	return false
}

func opCall(signer, realm, send, maxDep, prog string) (string, string) {
	e := getEnv()
	sc, ok2 := parseCoins(send)
	md, ok3 := parseDeposit(maxDep)
	ast, ok4 := parseScript(prog)
	if !validUser(signer) || !validRealm(realm) || !ok2 || !ok3 || !ok4 {
		return "err:badop", "-"
	}
	sa := e.sym2addr[signer]
	o := e.observe(func() error {
		return e.tx(func(ctx sdk.Context) error {
			msg := vm.NewMsgCall(sa, sc, realmPath(realm), "Do", []string{render(ast, e.addrString)})
			msg.MaxDeposit = md
			if err := msg.ValidateBasic(); err != nil {
				return fmt.Errorf("c08basic: %w", err)
			}
			_, err := e.vmk.Call(ctx, msg)
			return err
		})
	})
	return o.String(), oracleTx(o, "call", signer, realm, sc, ast)
}

func opRun(signer, send, maxDep, prog string) (string, string) {
	e := getEnv()
	sc, ok2 := parseCoins(send)
	md, ok3 := parseDeposit(maxDep)
	ast, ok4 := parseScript(prog)
	if !validUser(signer) || !ok2 || !ok3 || !ok4 {
		return "err:badop", "-"
	}
	sa := e.sym2addr[signer]
	o := e.observe(func() error {
		return e.tx(func(ctx sdk.Context) error {
			msg := vm.NewMsgRun(sa, sc, []*std.MemFile{{Name: "main.gno", Body: mainSource(render(ast, e.addrString))}})
			msg.MaxDeposit = md
			if err := msg.ValidateBasic(); err != nil {
				return fmt.Errorf("c08basic: %w", err)
			}
			_, err := e.vmk.Run(ctx, msg)
			return err
		})
	})
	return o.String(), oracleTx(o, "run", signer, "", sc, ast)
}

func opSend(signer, dst, amt string) (string, string) {
	e := getEnv()
	cz, ok := parseCoins(amt)
	if !validUser(signer) || !ok || !okToken(dst) {
		return "err:badop", "-"
	}
	da, known := e.sym2addr[dst]
	if !known {
		return "err:badop", "-" // not an address: the message cannot even be built
	}
	o := e.observe(func() error {
		return e.tx(func(ctx sdk.Context) error {
			msg := bankm.MsgSend{FromAddress: e.sym2addr[signer], ToAddress: da, Amount: cz}
			if err := msg.ValidateBasic(); err != nil {
				return fmt.Errorf("c08basic: %w", err)
			}
			res := bankm.NewHandler(e.bankk).Process(ctx, msg)
			if !res.IsOK() {
				return fmt.Errorf("%s", res.Log+" "+fmt.Sprint(res.Error))
			}
			return nil
		})
	})
	return o.String(), oracleTx(o, "send", signer, "", cz, nil)
}

func opPrice(n string) (string, string) {
	e := getEnv()
	md, ok := parseDeposit(n)
	if !ok || len(md) == 0 {
		return "err:badop", "-"
	}
	p := e.vmk.GetParams(e.caseCtx)
	p.StoragePrice = md[0].String()
	if err := e.vmk.SetParams(e.caseCtx, p); err != nil {
		return "err:badop", "-"
	}
	return "ok", "-"
}

// attack packages that must not even deploy: the banker's natives and its concrete
// type are unexported, so "direct native calls" and "forged banker values" are
// rejected by the type checker of MsgAddPackage before any coin moves.
var attackSources = map[string]string{
	"native": `package %s

import "chain/banker"

func Steal(cur realm, from, to string) {
	banker.bankerSendCoins(2, from, to, []string{"ugnot"}, []int64{1})
}
`,
	"xnative": `package %s

import "chain/banker"

func Steal(cur realm, from, to string) {
	banker.X_bankerSendCoins(nil, 2, from, to, []string{"ugnot"}, []int64{1})
}
`,
	"forge": `package %s

import (
	"chain"
	"chain/banker"
)

func Steal(cur realm, from, to address) {
	b := banker.banker{bt: banker.BankerTypeRealmSend, pkgAddr: from}
	b.SendCoins(from, to, chain.Coins{{"ugnot", 1}})
}
`,
	"forgeconv": `package %s

import (
	"chain"
	"chain/banker"
)

type fake struct {
	bt      banker.BankerType
	pkgAddr address
	pkgPath string
}

func Steal(cur realm, from, to address) {
	var b banker.Banker = fake{bt: banker.BankerTypeRealmSend, pkgAddr: from}
	b.SendCoins(from, to, chain.Coins{{"ugnot", 1}})
}
`,
	"fieldset": `package %s

import (
	"chain"
	"chain/banker"
)

func Steal(cur realm, from, to address) {
	b := banker.NewBanker(banker.BankerTypeRealmSend, cur)
	b.pkgAddr = from
	b.SendCoins(from, to, chain.Coins{{"ugnot", 1}})
}
`,
	"realmforge": `package %s

import (
	"chain"
	"chain/banker"
)

type myrealm struct{ a address }

func (m myrealm) Address() address        { return m.a }
func (m myrealm) PkgPath() string         { return "gno.land/r/c08/ra" }
func (m myrealm) IsCurrent() bool         { return true }
func (m myrealm) Previous() realm         { return nil }
func (m myrealm) IsCode() bool            { return true }
func (m myrealm) IsUser() bool            { return false }
func (m myrealm) IsUserCall() bool        { return false }
func (m myrealm) IsUserRun() bool         { return false }
func (m myrealm) IsEphemeral() bool       { return false }
func (m myrealm) Sub(s string) realm      { return m }
func (m myrealm) Subpath() string         { return "" }
func (m myrealm) String() string          { return "forged" }

func Steal(cur realm, from, to address) {
	b := banker.NewBanker(banker.BankerTypeRealmSend, myrealm{from})
	b.SendCoins(from, to, chain.Coins{{"ugnot", 1}})
}
`,
}

var attackSeq int

func opDeploy(signer, kind, send string) (string, string) {
	e := getEnv()
	src, ok := attackSources[kind]
	sc, ok2 := parseCoins(send)
	if !validUser(signer) || !ok || !ok2 {
		return "err:badop", "-"
	}
	attackSeq++
	name := fmt.Sprintf("atk%s%d", kind, attackSeq)
	path := realmPrefix + name
	files := []*std.MemFile{
		{Name: "a.gno", Body: fmt.Sprintf(src, name)},
		{Name: "gnomod.toml", Body: gno.GenGnoModLatest(path)},
	}
	o := e.observe(func() error {
		return e.tx(func(ctx sdk.Context) error {
			msg := vm.NewMsgAddPackage(e.sym2addr[signer], path, files)
			msg.Send = sc
			if err := msg.ValidateBasic(); err != nil {
				return fmt.Errorf("c08basic: %w", err)
			}
			return e.vmk.AddPackage(ctx, msg)
		})
	})
	return o.String(), oracleTx(o, "deploy", signer, "", sc, nil)
}

func opRestrict(flag string) (string, string) {
	e := getEnv()
	switch flag {
	case "1":
		e.bankk.SetRestrictedDenoms(e.caseCtx, []string{"ugnot"})
	case "0":
		e.bankk.SetRestrictedDenoms(e.caseCtx, []string{})
	default:
		return "err:badop", "-"
	}
	return "ok", "-"
}

func exec(toks []string) (string, string) {
	bad := func() (string, string) { return "err:badop", "-" }
	if len(toks) == 0 {
		return bad()
	}
	switch toks[0] {
	case "call":
		if len(toks) == 6 {
			return opCall(toks[1], toks[2], toks[3], toks[4], toks[5])
		}
	case "run":
		if len(toks) == 5 {
			return opRun(toks[1], toks[2], toks[3], toks[4])
		}
	case "send":
		if len(toks) == 4 {
			return opSend(toks[1], toks[2], toks[3])
		}
	case "price":
		if len(toks) == 2 {
			return opPrice(toks[1])
		}
	case "restrict":
		if len(toks) == 2 {
			return opRestrict(toks[1])
		}
	case "deploy":
		if len(toks) == 4 {
			return opDeploy(toks[1], toks[2], toks[3])
		}
	}
	return bad()
}

func reset() {
	if E != nil {
		E.newCase()
	}
}

func main() {
	kit.Main(&kit.Harness{Gen: gen, Reset: reset, Exec: exec})
}
