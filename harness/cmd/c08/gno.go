package main

import (
	"fmt"
	"strings"
)

// The Gno side of the harness: ONE interpreter source, instantiated as three
// realms (ra imports rb, rc; rb imports rc; rc imports nothing) and as the
// `main` package of every MsgRun.  A transaction's behaviour is a SCRIPT (the
// string argument of Do / the literal in main), so every case is a different
// Gno program path through the real chain/banker package, the real natives
// and the real bank keeper, without redeploying code.
//
// Script grammar (no spaces):
//
//	prog  := ins (';' ins)*
//	ins   := op (',' field)*            fields may be '{'-braced sub-programs
//
//	nb,BT,RV            b = banker.NewBanker(BankerType(BT), RV)
//	ro                  b = banker.NewReadonlyBanker()
//	ld,I                b = saved[I]      (banker this realm persisted for itself at setup)
//	lg,I                b = given[I]      (banker realm #I handed to this realm at setup)
//	ub                  b = the banker received as a parameter
//	sd,FROM,TO,COINS    b.SendCoins(FROM, TO, COINS)     COINS := AMT:DENOM ('+' AMT:DENOM)* | '-'
//	is,ADDR,DENOM,AMT   b.IssueCoin(ADDR, DENOM, AMT)
//	rm,ADDR,DENOM,AMT   b.RemoveCoin(ADDR, DENOM, AMT)
//	ps,KEY,N            params.SetString(KEY, N times 'x')   (storage of the current realm)
//	cb                  call the callback received as a parameter
//	x,MODE,TGT,{PROG}[,EXTRA]   call into realm TGT (ra|rb|rc|self):
//	   c    TGT.Do(cross(cur), PROG)
//	   ca   TGT.DoArg(cross(cur), cur, b, PROG)      hands its own cur and b as VALUES across the crossing
//	   cg   TGT.Do(cross(arg), PROG)                 crosses with the realm value it was handed
//	   cp   p := cur.Previous(); TGT.Do(cross(p), PROG)
//	   cs   s := cur.Sub(EXTRA); TGT.Do(cross(s), PROG)
//	   n    TGT.Help(0, cur, b, cb, PROG)            non-crossing: TGT's code runs inside this realm-context, holding cur and b
//	   ng   TGT.Help(0, arg, b, cb, PROG)
//	   k    TGT.DoCb(cross(cur), func(){ run(cur,arg,b,cb,EXTRA) }, PROG)   EXTRA = '{'closure body'}'
//
// realm values RV:  c cur | a the realm parameter | p cur.Previous() | q arg.Previous()
//
//	| s:NAME cur.Sub(NAME) | t:NAME arg.Sub(NAME)
const interpBody = `
func atoi(s string) int {
	n, err := strconv.Atoi(s)
	if err != nil {
		panic("c08: bad int " + s)
	}
	return n
}

func atoi64(s string) int64 {
	n, err := strconv.ParseInt(s, 10, 64)
	if err != nil {
		panic("c08: bad int " + s)
	}
	return n
}

// split at top-level occurrences of sep (braces nest).
func split(s string, sep byte) []string {
	var out []string
	depth, start := 0, 0
	for i := 0; i < len(s); i++ {
		switch s[i] {
		case '{':
			depth++
		case '}':
			depth--
		case sep:
			if depth == 0 {
				out = append(out, s[start:i])
				start = i + 1
			}
		}
	}
	return append(out, s[start:])
}

func unbrace(s string) string {
	if len(s) >= 2 && s[0] == '{' && s[len(s)-1] == '}' {
		return s[1 : len(s)-1]
	}
	panic("c08: bad block " + s)
}

func coins(s string) chain.Coins {
	if s == "-" {
		return nil
	}
	var cz chain.Coins
	for _, c := range strings.Split(s, "+") {
		i := strings.IndexByte(c, ':')
		if i < 0 {
			panic("c08: bad coin " + c)
		}
		cz = append(cz, chain.Coin{Denom: c[i+1:], Amount: atoi64(c[:i])})
	}
	return cz
}

func rv(_ int, me realm, arg realm, s string) realm {
	switch {
	case s == "c":
		return me
	case s == "a":
		return arg
	case s == "p":
		return me.Previous()
	case s == "q":
		return arg.Previous()
	case strings.HasPrefix(s, "s:"):
		return me.Sub(s[2:])
	case strings.HasPrefix(s, "t:"):
		return arg.Sub(s[2:])
	}
	panic("c08: bad realm value " + s)
}

func run(_ int, me realm, arg realm, bk banker.Banker, cb func(), prog string) {
	var b banker.Banker
	if prog == "" {
		return
	}
	for _, ins := range split(prog, ';') {
		f := split(ins, ',')
		switch f[0] {
		case "nb":
			b = banker.NewBanker(banker.BankerType(atoi(f[1])), rv(0, me, arg, f[2]))
		case "ro":
			b = banker.NewReadonlyBanker()
		case "ld":
			b = loadSaved(atoi(f[1]))
		case "lg":
			b = loadGiven(atoi(f[1]))
		case "ub":
			b = bk
		case "keep":
			keepGiven(atoi(f[1]), bk)
		case "sd":
			b.SendCoins(address(f[1]), address(f[2]), coins(f[3]))
		case "is":
			b.IssueCoin(address(f[1]), f[2], atoi64(f[3]))
		case "rm":
			b.RemoveCoin(address(f[1]), f[2], atoi64(f[3]))
		case "ps":
			params.SetString(f[1], strings.Repeat("x", atoi(f[2])))
		case "cb":
			cb()
		case "x":
			extra := ""
			if len(f) > 4 {
				extra = f[4]
			}
			call(0, me, arg, b, cb, f[1], f[2], unbrace(f[3]), extra)
		default:
			panic("c08: bad op " + f[0])
		}
	}
}
`

const realmOnly = `
var saved [4]banker.Banker
var given [4]banker.Banker

func loadSaved(i int) banker.Banker { return saved[i] }
func loadGiven(i int) banker.Banker { return given[i] }

// Setup persists one banker of every spending type for this realm itself.
func Setup(cur realm) {
	saved[1] = banker.NewBanker(banker.BankerTypeOriginSend, cur)
	saved[2] = banker.NewBanker(banker.BankerTypeRealmSend, cur)
	saved[3] = banker.NewBanker(banker.BankerTypeRealmIssue, cur)
}

// keepGiven persists a banker another realm handed over (used by the harness's setup only).
func keepGiven(i int, b banker.Banker) { given[i] = b }

func Do(cur realm, prog string)                                   { run(0, cur, nil, nil, nil, prog) }
func DoArg(cur realm, arg realm, bk banker.Banker, prog string)    { run(0, cur, arg, bk, nil, prog) }
func DoCb(cur realm, cb func(), prog string)                       { run(0, cur, nil, nil, cb, prog) }
func Help(_ int, rlm realm, bk banker.Banker, cb func(), prog string) { run(0, rlm, rlm, bk, cb, prog) }
`

const mainOnly = `
func loadSaved(i int) banker.Banker { return nil }
func loadGiven(i int) banker.Banker { return nil }
func keepGiven(i int, b banker.Banker) { panic("c08: keep in main") }
`

// callFunc generates the dispatch over the realms this package may import.
func callFunc(self string, targets []string) string {
	var b strings.Builder
	b.WriteString("\nfunc call(_ int, me realm, arg realm, b banker.Banker, cb func(), mode, tgt, prog, extra string) {\n\tswitch tgt {\n")
	one := func(label, q string) {
		fmt.Fprintf(&b, "\tcase %q:\n\t\tswitch mode {\n", label)
		fmt.Fprintf(&b, "\t\tcase \"c\":\n\t\t\t%sDo(cross(me), prog)\n", q)
		fmt.Fprintf(&b, "\t\tcase \"ca\":\n\t\t\t%sDoArg(cross(me), me, b, prog)\n", q)
		fmt.Fprintf(&b, "\t\tcase \"cg\":\n\t\t\t%sDo(cross(arg), prog)\n", q)
		fmt.Fprintf(&b, "\t\tcase \"cp\":\n\t\t\tp := me.Previous()\n\t\t\t%sDo(cross(p), prog)\n", q)
		fmt.Fprintf(&b, "\t\tcase \"cs\":\n\t\t\ts := me.Sub(extra)\n\t\t\t%sDo(cross(s), prog)\n", q)
		fmt.Fprintf(&b, "\t\tcase \"n\":\n\t\t\t%sHelp(0, me, b, cb, prog)\n", q)
		fmt.Fprintf(&b, "\t\tcase \"ng\":\n\t\t\t%sHelp(0, arg, b, cb, prog)\n", q)
		fmt.Fprintf(&b, "\t\tcase \"k\":\n\t\t\tbody := unbrace(extra)\n\t\t\t%sDoCb(cross(me), func() { run(0, me, arg, b, cb, body) }, prog)\n", q)
		b.WriteString("\t\tdefault:\n\t\t\tpanic(\"c08: bad mode \" + mode)\n\t\t}\n")
	}
	if self != "" {
		one("self", "")
	}
	for _, t := range targets {
		one(t, t+".")
	}
	b.WriteString("\tdefault:\n\t\tpanic(\"c08: bad target \" + tgt)\n\t}\n}\n")
	return b.String()
}

const realmPrefix = "gno.land/r/c08/"

func realmPath(name string) string { return realmPrefix + name }

var realmNames = []string{"ra", "rb", "rc"}

func importsOf(name string) []string {
	switch name {
	case "ra":
		return []string{"rb", "rc"}
	case "rb":
		return []string{"rc"}
	}
	return nil
}

func header(pkg string, targets []string) string {
	var b strings.Builder
	fmt.Fprintf(&b, "package %s\n\nimport (\n\t\"chain\"\n\t\"chain/banker\"\n\t\"chain/params\"\n\t\"strconv\"\n\t\"strings\"\n", pkg)
	for _, t := range targets {
		fmt.Fprintf(&b, "\n\t%q", realmPath(t))
	}
	b.WriteString("\n)\n")
	return b.String()
}

func realmSource(name string) string {
	t := importsOf(name)
	return header(name, t) + interpBody + realmOnly + callFunc(name, t)
}

func mainSource(prog string) string {
	return header("main", realmNames) + interpBody + mainOnly + callFunc("", realmNames) +
		fmt.Sprintf("\nfunc main(cur realm) { run(0, cur, nil, nil, nil, %q) }\n", prog)
}
