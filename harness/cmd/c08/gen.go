package main

import (
	"fmt"
	"strings"

	"gnoverif/kit"
)

// Generator: (1) a boundary table of hand-written transactions (every banker
// rule from both sides, every attack of the task statement), (2) structured
// random scripts (mostly plausible: the right `from`, affordable amounts,
// importable targets), (3) attacker-versus-passive-victim templates, (4) a
// malformed stream.  Everything from the one *kit.Rand.

const raD = "/gno.land/r/c08/ra:"
const rbD = "/gno.land/r/c08/rb:"
const rcD = "/gno.land/r/c08/rc:"

var boundary = [][]string{
	{ // plain sends along a call, banker types, the `from` gate
		"call u1 ra - 0 -",
		"call u1 ra 100:ugnot 0 -",
		"call u1 ra - 0 nb,2,c;sd,ra,u2,7:ugnot",
		"call u1 ra - 0 nb,2,c;sd,u2,u1,7:ugnot",
		"call u1 ra - 0 nb,2,c;sd,u1,u2,7:ugnot",
		"call u1 ra - 0 nb,2,c;sd,rb,u2,7:ugnot",
		"call u1 ra - 0 nb,3,c;sd,ra,u2,7:ugnot",
		"call u1 ra - 0 ro;sd,ra,u2,1:ugnot",
		"call u1 ra - 0 sd,ra,u2,1:ugnot",
		"call u1 ra - 0 nb,0,c",
		"call u1 ra - 0 nb,4,c",
		"call u1 ra - 0 nb,255,c",
		"call u1 ra - 0 nb,256,c",
		"call u1 ra - 0 nb,258,c;sd,ra,u2,3:ugnot",
		"call u1 ra - 0 nb,2,a",
		"call u3 ra - 0 nb,2,c;sd,ra,u3,5:ugnot",
		"call u3 ra 1:ugnot 0 -",
	},
	{ // origin send budget
		"call u1 ra 50:ugnot 0 nb,1,c;sd,ra,u2,30:ugnot",
		"call u1 ra 50:ugnot 0 nb,1,c;sd,ra,u2,30:ugnot;sd,ra,u2,30:ugnot",
		"call u1 ra 50:ugnot 0 nb,1,c;sd,ra,u2,30:ugnot;sd,ra,u2,20:ugnot",
		"call u1 ra 50:ugnot 0 nb,1,c;sd,ra,u2,50:ugnot;sd,ra,u2,1:ugnot",
		"call u1 ra 50:ugnot 0 nb,1,c;sd,ra,u2,0:ugnot",
		"call u1 ra 50:ugnot 0 nb,1,c;sd,ra,u2,-5:ugnot",
		"call u1 ra 50:ugnot 0 nb,1,c;sd,ra,u2,-",
		"call u1 ra 50:ugnot 0 nb,1,c;sd,ra,u2,5:ugnot+5:ugnot",
		"call u1 ra 50:ugnot 0 nb,1,c;sd,ra,u2,5:zzz+5:ugnot",
		"call u1 ra 50:ugnot 0 nb,1,c;sd,ra,u2,5:atom",
		"call u1 ra - 0 nb,1,c;sd,ra,u2,1:ugnot",
		"call u1 ra 50:ugnot 0 x,c,rb,{nb,1,c;sd,rb,u2,1:ugnot}",
		"call u1 ra 50:ugnot 0 nb,1,c;x,ca,rb,{ub;sd,ra,u2,10:ugnot;sd,ra,u1,40:ugnot}",
		"call u1 ra 50:ugnot 0 nb,1,c;x,ca,rb,{ub;sd,ra,u2,10:ugnot;sd,ra,u1,41:ugnot}",
		"call u1 ra 5:ugnot 0 ld,1;sd,ra,u2,5:ugnot",
		"call u1 ra - 0 ld,1;sd,ra,u2,1:ugnot",
		"run u1 50:ugnot 0 x,c,ra,{ld,1;sd,ra,u2,30:ugnot}",
		"run u1 50:ugnot 0 x,c,ra,{ld,1;sd,ra,u2,51:ugnot}",
		"run u1 5:ugnot 0 nb,1,c;sd,u1,u2,1:ugnot",
		"run u1 - 0 x,c,ra,{nb,1,c;sd,ra,u2,1:ugnot}",
	},
	{ // realm values: previous, stale, handed over, sub tokens
		"call u1 ra - 0 nb,2,p;sd,u1,u2,7:ugnot",
		"call u1 ra - 0 nb,2,q",
		"call u1 ra - 0 x,c,rb,{nb,2,p;sd,ra,u2,1:ugnot}",
		"call u1 ra - 0 x,c,rb,{nb,2,c;sd,rb,u2,1:ugnot}",
		"call u1 ra - 0 x,ca,rb,{nb,2,a;sd,ra,u2,1:ugnot}",
		"call u1 ra - 0 x,ca,rb,{nb,2,q;sd,u1,u2,1:ugnot}",
		"call u1 ra - 0 x,n,rb,{nb,2,a;sd,ra,u2,1:ugnot}",
		"call u1 ra - 0 x,n,rb,{nb,2,c;sd,ra,u2,1:ugnot}",
		"call u1 ra - 0 x,n,rb,{nb,2,p;sd,u1,u2,1:ugnot}",
		"call u1 ra - 0 x,n,rb,{x,c,self,{nb,2,p;sd,ra,u2,1:ugnot}}",
		"call u1 ra - 0 x,n,rb,{x,c,self,{nb,2,c;sd,rb,u2,1:ugnot}}",
		"call u1 ra - 0 x,ng,rb,{nb,2,c}",
		"call u1 ra - 0 nb,2,c;x,ca,rb,{ub;sd,ra,u2,1:ugnot}",
		"call u1 ra - 0 nb,2,c;x,n,rb,{ub;sd,ra,u2,1:ugnot}",
		"call u1 ra - 0 x,ca,rb,{x,cg,rc,{}}",
		"call u1 ra - 0 x,ca,rb,{x,ng,rc,{nb,2,c}}",
		"call u1 ra - 0 x,cp,rb,{}",
		"call u1 ra - 0 x,cg,rb,{}",
		"call u1 ra - 0 x,c,self,{nb,2,p;sd,ra,u2,1:ugnot}",
		"call u1 ra - 0 x,c,self,{nb,2,c;sd,ra,u2,1:ugnot}",
		"call u1 ra - 0 x,c,rb,{x,c,rc,{nb,2,c;sd,rc,u2,1:ugnot};nb,2,c;sd,rb,u2,1:ugnot};nb,2,c;sd,ra,u2,1:ugnot",
		"call u1 ra - 0 nb,2,s:x;sd,ra#x,u2,1:ugnot",
		"call u1 ra - 0 nb,2,c;sd,ra,ra#x,10:ugnot",
		"call u1 ra - 0 nb,2,s:x;sd,ra#x,u2,1:ugnot",
		"call u1 ra - 0 nb,2,s:x;sd,ra,u2,1:ugnot",
		"call u1 ra - 0 nb,2,s:x;sd,ra#y/z,u2,1:ugnot",
		"call u1 ra - 0 nb,1,s:x",
		"call u1 ra - 0 nb,3,s:x",
		"call u1 ra - 0 nb,2,s:",
		"call u1 ra - 0 nb,2,s:X",
		"call u1 ra - 0 nb,2,s:a//b",
		"call u1 ra - 0 nb,2,s:a#b",
		"call u1 ra - 0 nb,2,s:-a",
		"call u1 ra - 0 nb,2,s:a_.b/c-d",
		"call u1 ra - 0 x,n,rb,{nb,2,t:x}",
		"call u1 ra - 0 x,n,rb,{nb,2,s:x}",
		"call u1 ra - 0 x,cs,rb,{nb,2,p;sd,ra#x,u2,1:ugnot},x",
		"call u1 ra - 0 x,cs,rb,{nb,2,c;sd,rb,u2,1:ugnot},y/z",
		"call u1 ra - 0 x,cs,rb,{x,cp,rc,{}},x",
		"call u1 ra - 0 x,cs,rb,{},BAD",
		"run u1 - 0 nb,2,s:x",
		"run u1 - 0 nb,2,c;sd,u1,u2,9:ugnot",
		"run u1 - 0 nb,2,c;sd,u0,u2,9:ugnot",
		"run u1 - 0 nb,2,p",
		"run u1 - 0 x,c,ra,{nb,2,p;sd,u1,u2,9:ugnot}",
		"run u1 - 0 x,ca,ra,{nb,2,a;sd,u1,u2,9:ugnot}",
		"run u1 - 0 x,n,ra,{nb,2,a;sd,u1,u2,9:ugnot}",
		"run u3 - 0 -",
	},
	{ // callbacks across realms
		"call u1 ra - 0 x,k,rb,{cb},{nb,2,c;sd,ra,u2,1:ugnot}",
		"call u1 ra - 0 x,k,rb,{cb},{nb,2,c}",
		"call u1 ra - 0 x,k,rb,{cb},{-}",
		"call u1 ra - 0 x,k,rb,{cb;cb},{}",
		"call u1 ra - 0 nb,2,c;x,k,rb,{cb},{ub;sd,ra,u2,1:ugnot}",
		"call u1 ra - 0 x,k,rb,{nb,2,c;x,n,rc,{cb}},{ub}",
		"call u1 ra - 0 x,k,rb,{x,n,rc,{cb}},{x,c,rb,{nb,2,c;sd,rb,u2,2:ugnot}}",
		"call u1 ra - 0 x,k,rb,{x,k,rc,{cb},{cb}},{nb,2,c}",
		"call u1 ra - 0 cb",
		"run u1 - 0 x,k,ra,{cb},{nb,2,c;sd,u1,u2,1:ugnot}",
		"run u1 - 0 x,k,ra,{cb},{x,c,rb,{nb,2,c;sd,rb,u1,1:ugnot}}",
	},
	{ // persisted bankers (own and handed over in an earlier transaction)
		"call u1 ra - 0 ld,2;sd,ra,u2,1:ugnot",
		"call u1 ra - 0 ld,3;sd,ra,u2,1:ugnot",
		"call u1 ra - 0 ld,0;sd,ra,u2,1:ugnot",
		"call u1 ra - 0 ld,4",
		"call u1 ra - 0 lg,0;sd,ra,u2,1:ugnot",
		"call u1 rb - 0 lg,0;sd,ra,u2,1:ugnot",
		"call u1 rb - 0 lg,0;sd,rb,u2,1:ugnot",
		"call u1 rb - 0 lg,1;sd,ra,u2,1:ugnot",
		"call u1 rc - 0 lg,1;sd,rb,u2,1:ugnot",
		"call u1 rc - 0 lg,0;sd,ra,u2,1000001:ugnot",
		"call u1 rc - 0 lg,0;is,u2," + raD + "foo,1",
		"call u1 ra - 0 x,n,rb,{ld,2;sd,rb,u2,1:ugnot}",
		"call u1 ra - 0 x,n,rb,{lg,0;sd,ra,u2,1:ugnot}",
		"run u1 - 0 ld,2",
		"run u1 - 0 lg,0;sd,ra,u2,1:ugnot",
	},
	{ // issue / remove: denomination namespaces
		"call u1 ra - 0 nb,3,c;is,u2," + raD + "foo,5",
		"call u1 ra - 0 nb,3,c;rm,u2," + raD + "foo,2",
		"call u1 ra - 0 nb,3,c;is,u2," + raD + "foo,5;rm,u2," + raD + "foo,6",
		"call u1 ra - 0 nb,3,c;is,u2," + raD + "foo,5;rm,u1," + raD + "foo,1",
		"call u1 ra - 0 nb,3,c;is,u2," + rbD + "foo,5",
		"call u1 ra - 0 nb,3,c;is,u2,ugnot,5",
		"call u1 ra - 0 nb,3,c;rm,u2,ugnot,5",
		"call u1 ra - 0 nb,3,c;is,u2,gno.land/r/c08/ra:foo,5",
		"call u1 ra - 0 nb,3,c;is,u2,/gno.land/r/c08/ra,5",
		"call u1 ra - 0 nb,3,c;is,u2," + raD + ",5",
		"call u1 ra - 0 nb,3,c;is,u2," + raD + "fo,5",
		"call u1 ra - 0 nb,3,c;is,u2," + raD + "abcdefghijklmnop,5",
		"call u1 ra - 0 nb,3,c;is,u2," + raD + "abcdefghijklmnopq,5",
		"call u1 ra - 0 nb,3,c;is,u2," + raD + "2gnot,5",
		"call u1 ra - 0 nb,3,c;is,u2," + raD + "Foo,5",
		"call u1 ra - 0 nb,3,c;is,u2," + raD + "fo:o,5",
		"call u1 ra - 0 nb,3,c;is,u2," + raD + "fo/o,5",
		"call u1 ra - 0 nb,3,c;is,u2,/gno.land/r/c08/rab:foo,5",
		"call u1 ra - 0 nb,3,c;is,u2," + raD + "foo,0",
		"call u1 ra - 0 nb,3,c;is,u2," + raD + "foo,-3",
		"call u1 ra - 0 nb,3,c;is,u2," + raD + "foo,9223372036854775807;is,u1," + raD + "foo,1",
		"call u1 ra - 0 nb,3,c;is,u2," + raD + "foo,9223372036854775807;rm,u2," + raD + "foo,9223372036854775807",
		"call u1 ra - 0 nb,3,c;rm,u2," + raD + "foo,1",
		"call u1 ra - 0 nb,3,c;is,bad," + raD + "foo,1",
		"call u1 ra - 0 nb,2,c;is,u2," + raD + "foo,5",
		"call u1 ra - 0 nb,1,c;is,u2," + raD + "foo,5",
		"call u1 ra - 0 ro;is,u2," + raD + "foo,5",
		"call u1 ra - 0 nb,3,c;x,ca,rb,{ub;is,u2," + raD + "foo,5}",
		"call u1 ra - 0 nb,3,c;x,ca,rb,{ub;is,u2," + rbD + "foo,5}",
		"call u1 rb - 0 nb,3,c;is,u2," + rbD + "foo,5;is,u2," + raD + "foo,5",
		"call u1 ra - 0 nb,3,c;is,ra," + raD + "foo,5;nb,2,c;sd,ra,u2,3:" + raD + "foo",
		"call u1 ra - 0 nb,3,c;is,ra," + raD + "foo,5;is,ra," + raD + "bar,5;nb,2,c;sd,ra,u2,3:" + raD + "bar+3:" + raD + "foo+1:ugnot",
		"call u1 ra - 0 nb,3,c;is,ra," + raD + "foo,5;is,ra," + raD + "bar,5;nb,2,c;sd,ra,u2,3:" + raD + "foo+3:" + raD + "bar",
	},
	{ // addresses
		"call u1 ra - 0 nb,2,c;sd,ra,bad,1:ugnot",
		"call u1 ra - 0 nb,2,c;sd,bad,u2,1:ugnot",
		"call u1 ra - 0 nb,2,c;sd,ra,u3,1:ugnot",
		"call u1 ra - 0 nb,2,c;sd,ra,ra,1:ugnot",
		"call u1 ra - 0 nb,2,c;sd,ra,dra,1:ugnot",
		"call u1 ra - 0 nb,2,c;sd,dra,u1,1:ugnot",
		"call u1 ra - 0 nb,2,c;sd,col,u1,1:ugnot",
		"call u1 ra - 0 nb,2,c;sd,ra,col,1:ugnot",
		"call u1 ra - 0 nb,2,c;sd,ra,u2,1000000:ugnot",
		"call u1 ra - 0 nb,2,c;sd,ra,u2,1000001:ugnot",
		"call u1 ra 1:ugnot 0 nb,2,c;sd,ra,u2,1000001:ugnot",
		"call u1 ra - 0 nb,2,c;sd,ra,u2,9223372036854775807:ugnot",
		"call u1 ra - 0 nb,2,c;sd,ra,u2,0:ugnot",
		"call u1 ra - 0 nb,2,c;sd,ra,u2,0:BAD",
		"call u1 ra - 0 nb,2,c;sd,ra,u2,1:BAD",
		"call u1 ra - 0 nb,2,c;sd,ra,u2,-1:ugnot",
		"call u1 ra - 0 nb,2,c;sd,ra,u2,-",
		"call u1 ra - 0 nb,2,c;sd,ra,u2,1:ugnot+1:atom",
		"call u1 ra - 0 nb,2,c;sd,ra,u2,1:ab",
		"call u2 ra 5001:ugnot 0 -",
		"call u2 ra 5000:ugnot 0 nb,2,c;sd,ra,u2,5000:ugnot",
		"call u1 ra 1:ugnot+1:atom 0 -",
		"call u1 ra 0:ugnot 0 -",
		"call u1 ra 1:ugnot+1:ugnot 0 -",
	},
	{ // storage deposit: lock, release, who pays, who is refunded
		"call u1 ra - 0 ps,k1,10",
		"call u1 ra - 0 ps,k1,3",
		"call u0 ra - 0 ps,k1,30",
		"call u0 ra - 0 ps,k1,0",
		"call u1 ra - 0 ps,k1,5;ps,k2,5",
		"call u1 ra - 0 ps,k1,0;ps,k2,0",
		"call u1 ra - 3000 ps,k3,100",
		"call u1 ra - 12700 ps,k3,100",
		"call u1 ra - 12600 ps,k3,100",
		"call u2 ra - 0 ps,k4,100",
		"call u2 ra - 0 ps,k4,10",
		"call u1 ra - 0 x,c,rb,{ps,k1,7};ps,k9,9",
		"call u1 ra - 0 x,n,rb,{ps,k1,8}",
		"call u1 ra - 0 ps,k1,50;x,c,rb,{ps,k1,1}",
		"call u1 ra - 100 ps,k5,1;x,c,rb,{ps,k5,1}",
		"run u1 - 0 ps,k1,5",
		"run u1 - 0 x,c,ra,{ps,k1,1}",
		"call u1 ra - 0 ps,a:b,5",
		"price 200",
		"call u1 ra - 0 ps,k1,100",
		"call u1 ra - 0 ps,k1,1",
		"price 1",
		"call u1 ra - 0 ps,k1,0",
		"call u1 ra - 0 ps,k2,0",
		"call u0 ra - 0 ps,k6,900",
	},
	{ // ugnot restricted: sends are refused, deposits still lock, refunds go to the fee collector
		"call u1 ra - 0 ps,k1,50",
		"restrict 1",
		"call u1 ra 5:ugnot 0 -",
		"call u1 ra - 0 nb,2,c;sd,ra,u2,1:ugnot",
		"call u1 ra - 0 nb,2,c;sd,ra,u2,0:ugnot",
		"call u1 ra - 0 nb,3,c;is,ra," + raD + "foo,5;nb,2,c;sd,ra,u2,3:" + raD + "foo",
		"call u1 ra - 0 ps,k2,10",
		"call u1 ra - 0 ps,k1,1",
		"call u0 ra - 0 ps,k1,0;ps,k2,0",
		"send u1 u2 5:ugnot",
		"run u1 5:ugnot 0 -",
		"run u1 - 0 nb,2,c;sd,u1,u2,9:ugnot",
		"restrict 0",
		"call u1 ra 5:ugnot 0 ps,k1,9",
		"restrict 2",
	},
	{ // programs that must not compile: direct native calls, forged banker / realm values
		"deploy u1 native -",
		"deploy u1 xnative -",
		"deploy u1 forge 5:ugnot",
		"deploy u1 forgeconv -",
		"deploy u1 fieldset -",
		"deploy u1 realmforge -",
		"deploy u1 forge 0:ugnot",
		"deploy u1 zz -",
	},
	{ // bank sends
		"send u1 u2 5:ugnot",
		"send u2 u1 5005:ugnot",
		"send u2 u1 5006:ugnot",
		"send u1 ra 5:ugnot",
		"send u1 u3 5:ugnot",
		"send u3 u1 1:ugnot",
		"send u1 u2 -",
		"send u1 u2 0:ugnot",
		"send u1 u2 5:ugnot+1:atom",
	},
}

var malformedLines = []string{
	"",
	"call",
	"call u1 ra - 0",
	"call u9 ra - 0 -",
	"call u1 rz - 0 -",
	"call u1 ra x 0 -",
	"call u1 ra - -1 -",
	"call u1 ra - x -",
	"call u1 ra - 0 nb",
	"call u1 ra - 0 nb,2",
	"call u1 ra - 0 nb,x,c",
	"call u1 ra - 0 nb,2,z",
	"call u1 ra - 0 nb,-1,c",
	"call u1 ra - 0 ld",
	"call u1 ra - 0 ld,x",
	"call u1 ra - 0 keep",
	"call u1 ra - 0 keep,0",
	"call u1 ra - 0 sd,ra,u2",
	"call u1 ra - 0 sd,ra,u2,ugnot",
	"call u1 ra - 0 sd,ra,u2,5ugnot",
	"call u1 ra - 0 sd,ra,u2,5:",
	"call u1 ra - 0 sd,ra,u2,5:ugnot+",
	"call u1 ra - 0 sd,ra,u2,99999999999999999999:ugnot",
	"call u1 ra - 0 is,u2,foo",
	"call u1 ra - 0 is,u2,foo,x",
	"call u1 ra - 0 ps,k",
	"call u1 ra - 0 ps,k,99999",
	"call u1 ra - 0 x,c,rb",
	"call u1 ra - 0 x,c,rb,nb",
	"call u1 ra - 0 x,c,rb,{",
	"call u1 ra - 0 x,c,rb,{}}",
	"call u1 ra - 0 x,cs,rb,{}",
	"call u1 ra - 0 x,k,rb,{}",
	"call u1 ra - 0 x,k,rb,{},x",
	"call u1 ra - 0 x,c,rb,{},x",
	"call u1 ra - 0 ;",
	"call u1 ra - 0 nb,2,c;",
	"call u1 ra - 0 {}",
	"call u1 ra - 0 zz",
	"call u1 ra - 0 zz,1",
	"call u1 ra - 0 x,zz,rb,{}",
	"call u1 ra - 0 x,c,zz,{}",
	"call u1 ra - 0 x,c,ra,{}",
	"call u1 rb - 0 x,c,ra,{}",
	"call u1 rc - 0 x,c,rb,{}",
	"call u1 rc - 0 x,c,self,{x,n,self,{nb,2,c;sd,rc,u2,1:ugnot}}",
	"run u1 - 0 x,c,self,{}",
	"run u1 - 0 x,zz,ra,{}",
	"run u1 x 0 -",
	"run u1 - 0 zz",
	"send u1 u2",
	"send u1 zz 1:ugnot",
	"send u9 u2 1:ugnot",
	"price 0",
	"price x",
	"bogus 1 2 3",
}

// ---------------------------------------------------------------- random scripts

type gctx struct {
	r     *kit.Rand
	depth int
}

func wpick(r *kit.Rand, items []string, weights []int) string {
	t := 0
	for _, w := range weights {
		t += w
	}
	n := r.Intn(t)
	for i, w := range weights {
		if n < w {
			return items[i]
		}
		n -= w
	}
	return items[len(items)-1]
}

var allAddrs = []string{"u0", "u1", "u2", "u3", "ra", "rb", "rc", "ra#x", "ra#y/z", "rb#x", "rb#y/z", "rc#x", "rc#y/z", "dra", "drb", "drc", "col", "bad"}

func ctxAddr(ctx, signer string) string {
	if ctx == "main" {
		return signer
	}
	return ctx
}

func denomPrefixOf(ctx string) string {
	if ctx == "main" {
		return raD
	}
	return "/" + realmPath(ctx) + ":"
}

func (g *gctx) amount() string {
	r := g.r
	switch r.Intn(20) {
	case 0:
		return "0"
	case 1:
		return "-" + fmt.Sprint(1+r.Intn(50))
	case 2:
		return "9223372036854775807"
	case 3:
		return fmt.Sprint(900000 + r.Intn(200000))
	}
	return fmt.Sprint(1 + r.Intn(60))
}

func (g *gctx) denom(ctx string) string {
	r := g.r
	switch r.Intn(12) {
	case 0:
		return "atom"
	case 1, 2, 3:
		return denomPrefixOf(ctx) + kit.Pick(r, []string{"foo", "bar"})
	case 4:
		return kit.Pick(r, []string{raD, rbD, rcD}) + "foo"
	case 5:
		return kit.Pick(r, []string{"BAD", "ab", "ugnot:x", "/ugnot"})
	}
	return "ugnot"
}

func (g *gctx) coins(ctx string) string {
	r := g.r
	if r.Chance(3) {
		return "-"
	}
	n := 1
	if r.Chance(15) {
		n = 2 + r.Intn(2)
	}
	var parts []string
	for i := 0; i < n; i++ {
		parts = append(parts, g.amount()+":"+g.denom(ctx))
	}
	if n > 1 && r.Chance(70) {
		// mostly sorted and duplicate-free
		seen := map[string]bool{}
		var uniq []string
		for _, p := range parts {
			d := p[strings.IndexByte(p, ':')+1:]
			if !seen[d] {
				seen[d] = true
				uniq = append(uniq, p)
			}
		}
		for i := range uniq {
			for j := i + 1; j < len(uniq); j++ {
				if uniq[j][strings.IndexByte(uniq[j], ':')+1:] < uniq[i][strings.IndexByte(uniq[i], ':')+1:] {
					uniq[i], uniq[j] = uniq[j], uniq[i]
				}
			}
		}
		parts = uniq
	}
	return strings.Join(parts, "+")
}

func (g *gctx) issueDenom(ctx string) string {
	r := g.r
	base := wpick(r, []string{"foo", "bar", "usd1", "fo", "abcdefghijklmnop", "abcdefghijklmnopq", "Foo", "f:o", "1ab", ""},
		[]int{40, 20, 5, 3, 3, 3, 3, 3, 3, 2})
	pfx := wpick(r, []string{denomPrefixOf(ctx), raD, rbD, rcD, "/gno.land/r/c08/rab:", "gno.land/r/c08/ra:", "", "/", "/gno.land/r/c08/ra#x:"},
		[]int{60, 8, 8, 8, 3, 3, 4, 2, 4})
	d := pfx + base
	if d == "" {
		d = "ugnot"
	}
	return d
}

func (g *gctx) rv(hasArg bool) string {
	if !hasArg && g.r.Chance(92) {
		return wpick(g.r, []string{"c", "p", "s:x", "s:y/z", "s:Bad", "s:"}, []int{70, 8, 10, 5, 2, 1})
	}
	return wpick(g.r, []string{"c", "a", "p", "q", "s:x", "s:y/z", "s:Bad", "s:", "t:x"}, []int{50, 20, 8, 3, 8, 4, 2, 1, 4})
}

func (g *gctx) bt() string {
	return wpick(g.r, []string{"2", "1", "3", "0", "4", "255", "256", "257", "258", "259"}, []int{40, 18, 22, 4, 3, 2, 2, 3, 3, 3})
}

func targetsOf(owner string) []string {
	if owner == "main" {
		return []string{"ra", "rb", "rc"}
	}
	return append([]string{"self"}, importsOf(owner)...)
}

// prog generates a script for text that runs in context ctx as code of owner.
// hasArg / hasBk / hasCb: whether a realm value, a banker, a callback were handed in.
func (g *gctx) prog(ctx, owner, signer string, hasArg, hasBk, hasCb bool, depth int) string {
	r := g.r
	n := 1 + r.Intn(4)
	if depth > 2 {
		n = 1 + r.Intn(2)
	}
	var out []string
	haveBanker := false
	for i := 0; i < n; i++ {
		k := r.Intn(100)
		if !haveBanker && k >= 36 && k < 80 && r.Chance(85) {
			k = r.Intn(36) // a send / issue without a banker is a nil call: make one first, mostly
		}
		switch {
		case k < 26: // make a banker, usually followed by a use
			out = append(out, "nb,"+g.bt()+","+g.rv(hasArg))
			haveBanker = true
		case k < 36:
			w := []int{20, 10, 15, 3, 2, 15, 10, 3, 2, 7}
			if hasBk {
				w[8] = 40
			}
			if owner == "main" {
				w = []int{2, 1, 1, 1, 1, 2, 1, 1, w[8], 10}
			}
			out = append(out, wpick(r, []string{"ld,2", "ld,1", "ld,3", "ld,0", "ld,4", "lg,0", "lg,1", "lg,2", "ub", "ro"}, w))
			haveBanker = true
		case k < 62:
			from := ctxAddr(ctx, signer)
			if r.Chance(20) {
				from = kit.Pick(r, allAddrs)
			}
			if r.Chance(12) && ctx != "main" {
				from = ctx + "#" + kit.Pick(r, subNames)
			}
			out = append(out, "sd,"+from+","+kit.Pick(r, allAddrs)+","+g.coins(ctx))
		case k < 80:
			op := "is"
			if r.Chance(40) {
				op = "rm"
			}
			out = append(out, op+","+kit.Pick(r, allAddrs)+","+g.issueDenom(ctx)+","+g.amount())
		case k < 85:
			out = append(out, fmt.Sprintf("ps,%s,%d", kit.Pick(r, []string{"k1", "k2", "k3"}), r.Intn(40)))
		case k < 88:
			if hasCb || r.Chance(5) {
				out = append(out, "cb")
			}
		default:
			if depth >= 4 {
				continue
			}
			tg := targetsOf(owner)
			t := kit.Pick(r, tg)
			if r.Chance(3) {
				t = kit.Pick(r, []string{"ra", "rb", "rc", "self", "zz"})
			}
			tt := t
			if t == "self" {
				tt = owner
			}
			w := []int{30, 14, 1, 3, 8, 18, 1, 16, 1}
			if hasArg {
				w[2], w[6] = 6, 6
			}
			mode := wpick(r, []string{"c", "ca", "cg", "cp", "cs", "n", "ng", "k", "zz"}, w)
			switch mode {
			case "c", "cg", "cp", "zz":
				out = append(out, "x,"+mode+","+t+",{"+g.prog(tt, tt, signer, false, false, false, depth+1)+"}")
			case "ca":
				out = append(out, "x,ca,"+t+",{"+g.prog(tt, tt, signer, true, haveBanker, false, depth+1)+"}")
			case "cs":
				out = append(out, "x,cs,"+t+",{"+g.prog(tt, tt, signer, false, false, false, depth+1)+"},"+kit.Pick(r, []string{"x", "y/z", "x", "Q"}))
			case "n":
				out = append(out, "x,n,"+t+",{"+g.prog(ctx, tt, signer, true, haveBanker, hasCb, depth+1)+"}")
			case "ng":
				out = append(out, "x,ng,"+t+",{"+g.prog(ctx, tt, signer, hasArg, haveBanker, hasCb, depth+1)+"}")
			case "k":
				body := g.prog(tt, owner, signer, hasArg, haveBanker, hasCb, depth+1)
				callee := g.prog(tt, tt, signer, false, false, true, depth+1)
				if r.Chance(60) && !strings.Contains(callee, "cb") {
					callee += ";cb"
				}
				out = append(out, "x,k,"+t+",{"+callee+"},{"+body+"}")
			}
		}
	}
	if len(out) == 0 {
		return "nb,2,c"
	}
	return strings.Join(out, ";")
}

func (g *gctx) txLine() string {
	r := g.r
	signer := wpick(r, []string{"u0", "u1", "u2", "u3"}, []int{30, 50, 15, 5})
	send := "-"
	if r.Chance(35) {
		send = fmt.Sprint(1+r.Intn(100)) + ":ugnot"
		if r.Chance(8) {
			send = kit.Pick(r, []string{"0:ugnot", "5:atom", "1:ugnot+1:atom", "6000:ugnot", "3:ugnot+3:ugnot"})
		}
	}
	dep := "0"
	if r.Chance(10) {
		dep = fmt.Sprint(r.Intn(20000))
	}
	switch k := r.Intn(100); {
	case k < 70:
		realm := kit.Pick(r, realmNames)
		return fmt.Sprintf("call %s %s %s %s %s", signer, realm, send, dep, g.prog(realm, realm, signer, false, false, false, 0))
	case k < 92:
		return fmt.Sprintf("run %s %s %s %s", signer, send, dep, g.prog("main", "main", signer, false, false, false, 0))
	case k < 97:
		return fmt.Sprintf("send %s %s %s", signer, kit.Pick(r, allAddrs[:17]), g.coins("main"))
	case k < 99:
		return fmt.Sprintf("price %d", 1+r.Intn(300))
	default:
		return fmt.Sprintf("restrict %d", r.Intn(2))
	}
}

// ---------------------------------------------------------------- attacker vs passive victim

// attackLine: the victim realm's own text never creates, loads or hands over a
// banker or its cur; everything else is the attacker's.  rc is the natural
// victim of its callers (nobody holds a banker of rc's); ra/rb are victims of
// what they call (their text only crosses into the attacker).
func (g *gctx) attackLine() string {
	r := g.r
	signer := kit.Pick(r, []string{"u0", "u1"})
	steal := func(victimAddr string) string {
		to := kit.Pick(r, []string{"u2", signer, "rb", "u3"})
		return "sd," + victimAddr + "," + to + "," + fmt.Sprint(1+r.Intn(500)) + ":ugnot"
	}
	tryAll := func(victimAddr string) string {
		// the attacker's text inside some frame: every realm value it can name, every banker type
		var parts []string
		for i := 1 + r.Intn(2); i > 0; i-- {
			parts = append(parts, "nb,"+wpick(r, []string{"2", "3", "1", "258"}, []int{50, 20, 20, 10})+","+
				wpick(r, []string{"p", "q", "a", "c", "t:x", "s:x"}, []int{30, 15, 20, 15, 10, 10})+";"+steal(victimAddr))
		}
		return strings.Join(parts, ";")
	}
	switch r.Intn(8) {
	case 0: // signer is the victim: the realm it calls goes after cur.Previous()
		realm := kit.Pick(r, realmNames)
		return fmt.Sprintf("call %s %s - 0 %s", signer, realm, tryAll(signer))
	case 1: // victim ra calls attacker rb (crossing): rb goes after its caller
		return fmt.Sprintf("call %s ra - 0 x,%s,rb,{%s}", signer, kit.Pick(r, []string{"c", "cs"}), tryAll("ra")) +
			map[bool]string{true: "", false: ""}[true]
	case 2: // attacker main calls victim rc with a callback that rc invokes
		return fmt.Sprintf("run %s - 0 x,k,rc,{cb},{%s}", signer, tryAll("rc"))
	case 3: // attacker ra calls victim rc with a callback
		return fmt.Sprintf("call %s ra - 0 x,k,rc,{cb;cb},{%s}", signer, tryAll("rc"))
	case 4: // attacker keeps the victim's cur value across a crossing (victim handed it as DATA to a crossing callee)
		return fmt.Sprintf("call %s ra - 0 x,ca,rb,{%s;x,cg,rc,{%s}}", signer, tryAll("ra"), tryAll("ra"))
	case 5: // wrong `from` with the attacker's own legitimate banker
		return fmt.Sprintf("call %s rb - 0 nb,2,c;%s;nb,3,c;%s", signer, steal(kit.Pick(r, []string{"ra", "rc", signer, "u2", "drb", "col"})),
			steal(kit.Pick(r, []string{"ra", "rc", signer})))
	case 6: // minting / burning another realm's denomination, or a native one
		d := kit.Pick(r, []string{raD + "foo", rcD + "foo", "ugnot", "/ugnot", "/gno.land/r/c08/rbb:foo", rbD + "foo:x", "/gno.land/r/c08/rb:foo"})
		op := kit.Pick(r, []string{"is", "rm"})
		return fmt.Sprintf("call %s rb - 0 nb,3,c;%s,%s,%s,%d", signer, op, kit.Pick(r, []string{"u2", "ra", signer}), d, 1+r.Intn(50))
	default: // overspending the origin send
		n := 1 + r.Intn(50)
		return fmt.Sprintf("call %s ra %d:ugnot 0 nb,1,c;sd,ra,u2,%d:ugnot;x,c,rb,{nb,1,c;sd,rb,u2,1:ugnot};sd,ra,u2,%d:ugnot",
			signer, n, n, 1+r.Intn(3))
	}
}

func mutateLine(r *kit.Rand, line string) string {
	if len(line) == 0 {
		return "x"
	}
	junk := []string{",", ";", "{", "}", " ", ":", "+", "-", "0", "zz", "#", "\x01"}
	switch r.Intn(4) {
	case 0:
		i := r.Intn(len(line) + 1)
		return line[:i] + kit.Pick(r, junk) + line[i:]
	case 1:
		i := r.Intn(len(line))
		return line[:i] + line[i+1:]
	case 2:
		i := r.Intn(len(line))
		return line[:i]
	default:
		f := strings.Fields(line)
		if len(f) > 1 {
			i := r.Intn(len(f))
			f = append(f[:i], f[i+1:]...)
		}
		return strings.Join(f, " ")
	}
}

func gen(w *kit.Out, r *kit.Rand, tier string) {
	nRandom, nAttack, nMal := 28, 14, 40
	if tier == "thorough" {
		nRandom, nAttack, nMal = 420, 220, 400
	}
	for i, c := range boundary {
		w.Case(fmt.Sprintf("boundary-%d", i))
		for _, l := range c {
			w.Op("%s", l)
		}
	}
	w.Case("malformed-table")
	for _, l := range malformedLines {
		if strings.TrimSpace(l) == "" {
			continue
		}
		w.Op("%s", l)
	}
	g := &gctx{r: r.Fork()}
	for i := 0; i < nRandom; i++ {
		w.Case(fmt.Sprintf("random-%d", i))
		for n := 3 + g.r.Intn(5); n > 0; n-- {
			w.Op("%s", g.txLine())
		}
	}
	ga := &gctx{r: r.Fork()}
	for i := 0; i < nAttack; i++ {
		w.Case(fmt.Sprintf("attack-%d", i))
		for n := 3 + ga.r.Intn(4); n > 0; n-- {
			if ga.r.Chance(80) {
				w.Op("%s", ga.attackLine())
			} else {
				w.Op("%s", ga.txLine())
			}
		}
	}
	gm := &gctx{r: r.Fork()}
	w.Case("malformed-random")
	for i := 0; i < nMal; i++ {
		l := mutateLine(gm.r, gm.txLine())
		if strings.TrimSpace(l) == "" || strings.HasPrefix(l, "#") {
			continue
		}
		w.Op("%s", l)
	}
}
