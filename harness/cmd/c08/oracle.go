package main

import (
	"fmt"
	"math/big"
	"strings"

	"github.com/gnolang/gno/tm2/pkg/std"
)

// The oracle: the property statement evaluated on what the real code did.
//
// Inputs: the balance differences of ALL accounts of the bank over one
// transaction, the realm storage records before/after, who signed, what was
// sent along, and the TEXT of the script (only to know which package's code
// contains which instruction and which realm's frame it sits in — script.go
// `label`).  No banker rule, no realm-value rule is evaluated.
//
// A debit of address A (per denomination) is accepted only if
//
//   - A signed: up to what the message sends along plus what the deposit
//     addresses received (storage deposit locked), or without bound when the
//     signer's own MsgRun code creates bankers (its code, its address);
//   - A is realm R's address or a sub-address of R, and the script contains an
//     exercise of R's authority: a NewBanker in text that runs in R's frame and
//     is R's own code or code R's code handed its cur to, or a load of a banker
//     R persisted earlier (by R's code, or by the holder R gave it to).  If every
//     such exercise is of the origin-send type, the debit is bounded by the
//     coins sent along;
//   - A is R's storage-deposit address and R's recorded storage shrank, by
//     exactly the recorded deposit decrease;
//   - the denomination is R-issued ("/"+path(R)+":"+base) and R's issue authority
//     is exercised (burn by the issuing realm).
//
// Supply: the sum over all accounts of a native denomination never changes; that
// of a realm denomination only when its issuing realm's issue authority is exercised.
func oracleTx(o observed, kind, signer, target string, send std.Coins, prog []*ins) string {
	if o.status != "ok" {
		if len(o.deltas) != 0 {
			return "VIOL:effects-after-failure " + showDeltas(o.deltas)
		}
		for _, r := range realmNames {
			if o.metaA[r] != o.metaB[r] {
				return "VIOL:effects-after-failure realm-record-" + r
			}
		}
		return "ok"
	}

	g := newGrants()
	switch kind {
	case "call":
		label(g, prog, target, target, map[string]bool{target: true}, nil, 0)
	case "run":
		label(g, prog, "main", "main", map[string]bool{"main": true}, nil, 0)
	}
	eff := func(r string) map[int]bool {
		out := map[int]bool{}
		for bt := range g.mint[r] {
			if bt >= 1 && bt <= 3 {
				out[bt] = true
			}
		}
		for bt := range g.loadBT[r] {
			out[bt] = true
		}
		return out
	}
	active := func(r string) bool { return len(eff(r)) > 0 }
	issuer := func(r string) bool { return eff(r)[3] }
	originOnly := func(r string) bool {
		e := eff(r)
		return len(e) == 1 && e[1]
	}
	// realm of a realm denomination, by the text of the denomination alone
	denomRealm := func(d string) string {
		for _, r := range realmNames {
			if strings.HasPrefix(d, "/"+realmPath(r)+":") && !strings.Contains(d[len(realmPath(r))+2:], ":") {
				return r
			}
		}
		return ""
	}

	amountOf := func(cz std.Coins, d string) int64 {
		for _, c := range cz {
			if c.Denom == d {
				return c.Amount
			}
		}
		return 0
	}

	// storage deposit locked in this transaction = what the deposit addresses gained
	locks := new(big.Int)
	for _, d := range o.deltas {
		if strings.HasPrefix(d.who, "d") && validRealm(d.who[1:]) && d.denom == "ugnot" && d.d > 0 {
			locks.Add(locks, big.NewInt(d.d))
		}
	}

	// supply per denomination
	total := map[string]*big.Int{}
	for _, d := range o.deltas {
		if total[d.denom] == nil {
			total[d.denom] = new(big.Int)
		}
		total[d.denom].Add(total[d.denom], big.NewInt(d.d))
	}
	for den, t := range total {
		if t.Sign() == 0 {
			continue
		}
		r := denomRealm(den)
		if r == "" {
			return fmt.Sprintf("VIOL:supply-changed %s %s", den, t)
		}
		if !issuer(r) {
			return fmt.Sprintf("VIOL:foreign-mint %s %s", den, t)
		}
	}

	for _, d := range o.deltas {
		if d.d >= 0 {
			continue
		}
		debit := new(big.Int).Neg(big.NewInt(d.d))
		detail := fmt.Sprintf("%s:%s:%d", d.who, d.denom, d.d)
		if r := denomRealm(d.denom); r != "" && issuer(r) {
			continue // the issuing realm may remove its own denomination anywhere
		}
		who := d.who
		switch {
		case strings.HasPrefix(who, "?"):
			return "VIOL:unknown-address-debited " + detail
		case who == signer:
			if kind == "run" && len(g.mint["main"]) > 0 {
				continue
			}
			allow := new(big.Int)
			if kind == "call" || kind == "send" {
				allow.SetInt64(amountOf(send, d.denom))
			}
			if d.denom == "ugnot" {
				allow.Add(allow, locks)
			}
			if debit.Cmp(allow) > 0 {
				return "VIOL:signer-overdebit " + detail
			}
		case validRealm(strings.SplitN(who, "#", 2)[0]):
			r := strings.SplitN(who, "#", 2)[0]
			if !active(r) {
				return "VIOL:realm-debited-without-authority " + detail
			}
			if originOnly(r) {
				// only the coins sent along may be spent; the realm itself received them first
				if who != r {
					return "VIOL:origin-overspend " + detail
				}
				allow := big.NewInt(amountOf(send, d.denom))
				if kind == "call" && target == r {
					allow.SetInt64(0)
				}
				if debit.Cmp(allow) > 0 {
					return "VIOL:origin-overspend " + detail
				}
			}
		case strings.HasPrefix(who, "d") && validRealm(who[1:]):
			r := who[1:]
			if d.denom != "ugnot" || o.metaA[r][0] >= o.metaB[r][0] {
				return "VIOL:deposit-debited-without-release " + detail
			}
			drop := new(big.Int).Sub(new(big.Int).SetUint64(o.metaB[r][1]), new(big.Int).SetUint64(o.metaA[r][1]))
			if debit.Cmp(drop) != 0 {
				return "VIOL:deposit-refund-mismatch " + detail
			}
		default:
			return "VIOL:foreign-debited " + detail
		}
	}
	return "ok"
}
