package main

import (
	"strconv"
	"strings"
)

// The script AST on the Go side.  Used for (1) the grammar check (a line whose
// script is outside the grammar is answered `err:badop` on both sides), (2)
// replacing symbolic address tokens by bech32 strings, (3) the oracle's
// SYNTACTIC labelling of which realm-context / package an instruction sits in.
// No banker rule, no realm-value rule and no ledger is evaluated here.

type ins struct {
	op     string   // nb ro ld lg ub sd is rm ps cb x, or anything else (bad op)
	f      []string // raw fields after the op
	mode   string   // x only
	tgt    string   // x only
	prog   []*ins   // x only: callee program
	extra  string   // x,cs: sub name
	body   []*ins   // x,k: closure body
	hasExt bool
}

func okToken(s string) bool {
	return s != "" && !strings.ContainsAny(s, "{},;")
}

func isNat(s string) bool {
	if s == "" {
		return false
	}
	for i := 0; i < len(s); i++ {
		if s[i] < '0' || s[i] > '9' {
			return false
		}
	}
	return true
}

func isInt64(s string) bool {
	t := strings.TrimPrefix(s, "-")
	if !isNat(t) {
		return false
	}
	_, err := strconv.ParseInt(s, 10, 64)
	return err == nil
}

// nat tokens are bounded so that strconv.Atoi on the Gno side cannot fail
func isSmallNat(s string) bool { return isNat(s) && len(s) <= 9 }

func okCoinsToken(s string) bool {
	if s == "-" {
		return true
	}
	for _, c := range strings.Split(s, "+") {
		i := strings.IndexByte(c, ':')
		if i < 0 || !isInt64(c[:i]) || c[i+1:] == "" {
			return false
		}
	}
	return true
}

func balanced(s string) bool {
	d := 0
	for i := 0; i < len(s); i++ {
		switch s[i] {
		case '{':
			d++
		case '}':
			if d == 0 {
				return false
			}
			d--
		}
	}
	return d == 0
}

func unbraceGo(s string) (string, bool) {
	if len(s) >= 2 && s[0] == '{' && s[len(s)-1] == '}' {
		return s[1 : len(s)-1], true
	}
	return "", false
}

func parseScript(tok string) ([]*ins, bool) {
	if tok == "-" {
		return nil, true
	}
	if !balanced(tok) {
		return nil, false
	}
	return parseProg(tok)
}

func parseProg(s string) ([]*ins, bool) {
	if s == "" {
		return nil, true
	}
	var out []*ins
	for _, part := range splitTop(s, ';') {
		i, ok := parseIns(part)
		if !ok {
			return nil, false
		}
		out = append(out, i)
	}
	return out, true
}

func okRV(s string) bool {
	switch s {
	case "c", "a", "p", "q":
		return true
	}
	return strings.HasPrefix(s, "s:") || strings.HasPrefix(s, "t:")
}

// ops that take arguments: a bare occurrence is outside the grammar (`keep` is the
// harness's own setup op and never part of a case)
var knownOps = map[string]bool{"nb": true, "ld": true, "lg": true, "sd": true, "is": true, "rm": true, "ps": true, "x": true, "keep": true}

func parseIns(s string) (*ins, bool) {
	f := splitTop(s, ',')
	op, args := f[0], f[1:]
	switch len(args) {
	case 0:
		if !okToken(op) || knownOps[op] {
			return nil, false
		}
		return &ins{op: op}, true // ro ub cb, or a bad op
	case 1:
		if (op == "ld" || op == "lg") && isSmallNat(args[0]) {
			return &ins{op: op, f: args}, true
		}
	case 2:
		if op == "nb" && isSmallNat(args[0]) && okRV(args[1]) && okToken(args[1]) {
			return &ins{op: op, f: args}, true
		}
		if op == "ps" && okToken(args[0]) && isSmallNat(args[1]) && len(args[1]) <= 4 {
			return &ins{op: op, f: args}, true
		}
	case 3:
		if op == "sd" && okToken(args[0]) && okToken(args[1]) && okCoinsToken(args[2]) && okToken(args[2]) {
			return &ins{op: op, f: args}, true
		}
		if (op == "is" || op == "rm") && okToken(args[0]) && okToken(args[1]) && isInt64(args[2]) {
			return &ins{op: op, f: args}, true
		}
		if op == "x" {
			return parseX(args[0], args[1], args[2], "", false)
		}
	case 4:
		if op == "x" {
			return parseX(args[0], args[1], args[2], args[3], true)
		}
	}
	return nil, false
}

func parseX(mode, tgt, prog, extra string, hasExt bool) (*ins, bool) {
	body, ok := unbraceGo(prog)
	if !ok || !okToken(tgt) || !okToken(mode) {
		return nil, false
	}
	p, ok := parseProg(body)
	if !ok {
		return nil, false
	}
	x := &ins{op: "x", mode: mode, tgt: tgt, prog: p, hasExt: hasExt}
	switch {
	case !hasExt:
		if mode == "cs" || mode == "k" {
			return nil, false
		}
		return x, true
	case mode == "cs":
		if !okToken(extra) {
			return nil, false
		}
		x.extra = extra
		return x, true
	case mode == "k":
		kb, ok := unbraceGo(extra)
		if !ok {
			return nil, false
		}
		b, ok := parseProg(kb)
		if !ok {
			return nil, false
		}
		x.body = b
		return x, true
	}
	return nil, false
}

// render prints a program back, replacing address tokens through addr().
func render(p []*ins, addr func(string) string) string {
	parts := make([]string, len(p))
	for i, in := range p {
		switch in.op {
		case "sd":
			parts[i] = "sd," + addr(in.f[0]) + "," + addr(in.f[1]) + "," + in.f[2]
		case "is", "rm":
			parts[i] = in.op + "," + addr(in.f[0]) + "," + in.f[1] + "," + in.f[2]
		case "x":
			s := "x," + in.mode + "," + in.tgt + ",{" + render(in.prog, addr) + "}"
			if in.mode == "cs" {
				s += "," + in.extra
			} else if in.mode == "k" {
				s += ",{" + render(in.body, addr) + "}"
			}
			parts[i] = s
		default:
			parts[i] = strings.Join(append([]string{in.op}, in.f...), ",")
		}
	}
	return strings.Join(parts, ";")
}

// ---------------------------------------------------------------- static labelling (oracle only)

// A context label is the name of the realm whose crossing frame is the topmost
// one ("ra", "rb", "rc"), or "main" for the MsgRun package.
//
// grants records, per context label, what the script's text could exercise:
//
//	mint[ctx][bt]   an `nb` with banker type bt (mod 256, 1..3) sits where ctx may be the live context
//	load[realm]     a persisted banker of `realm` is loaded somewhere (ld in its own code / lg in a holder's code)
//	loadBT[realm]   the banker types so loaded
type grants struct {
	mint   map[string]map[int]bool
	loadBT map[string]map[int]bool
}

func newGrants() *grants {
	return &grants{mint: map[string]map[int]bool{}, loadBT: map[string]map[int]bool{}}
}

func (g *grants) addMint(ctx string, bt int) {
	if g.mint[ctx] == nil {
		g.mint[ctx] = map[int]bool{}
	}
	g.mint[ctx][bt] = true
}

func (g *grants) addLoad(realm string, bt int) {
	if g.loadBT[realm] == nil {
		g.loadBT[realm] = map[int]bool{}
	}
	g.loadBT[realm][bt] = true
}

// who holds whose persisted banker (harness setup): holder -> slot -> (realm, bt)
var givenTable = map[string]map[int][2]any{
	"rb": {0: {"ra", 2}},
	"rc": {0: {"ra", 2}, 1: {"rb", 2}},
}

// closure known statically: its body, the package that wrote it, the realms whose cur the
// writer held, and the `cb` visible inside it
type sclo struct {
	body  []*ins
	owner string
	deleg map[string]bool
	cb    *sclo
	ctxs  map[string]bool // contexts its body has been analysed under
}

func importsAllowed(owner, tgt string) (string, bool) {
	if tgt == "self" {
		if owner == "main" {
			return "", false
		}
		return owner, true
	}
	if owner == "main" {
		for _, r := range realmNames {
			if r == tgt {
				return tgt, true
			}
		}
		return "", false
	}
	for _, t := range importsOf(owner) {
		if t == tgt {
			return tgt, true
		}
	}
	return "", false
}

// label walks the text of a program.
//
//	ctx    the realm whose crossing frame is the live one where this text runs ("main" = the MsgRun package)
//	owner  the package this text belongs to (whose code it is)
//	deleg  the realms whose `cur` this text was handed: its own frame's, plus, through
//	       non-crossing calls (modes n/ng), those of the code that called it
//
// An `nb` counts as an exercise of realm ctx's authority only where ctx is in deleg: the
// code is ctx's own, or ctx's code (transitively) handed its cur over.  A closure body
// keeps the owner and deleg of the code that WROTE it, and runs wherever it is called.
// Over-approximates: every branch is taken, failures are ignored.
func label(g *grants, p []*ins, ctx, owner string, deleg map[string]bool, cb *sclo, depth int) {
	if depth > 64 {
		return
	}
	for _, in := range p {
		switch in.op {
		case "nb":
			n, _ := strconv.Atoi(in.f[0])
			if deleg[ctx] {
				g.addMint(ctx, n%256)
			}
		case "ld":
			n, _ := strconv.Atoi(in.f[0])
			if owner != "main" && n >= 1 && n <= 3 {
				g.addLoad(owner, n)
			}
		case "lg":
			n, _ := strconv.Atoi(in.f[0])
			if e, ok := givenTable[owner][n]; ok {
				g.addLoad(e[0].(string), e[1].(int))
			}
		case "cb":
			if cb != nil && !cb.ctxs[ctx] {
				cb.ctxs[ctx] = true
				label(g, cb.body, ctx, cb.owner, cb.deleg, cb.cb, depth+1)
			}
		case "x":
			t, ok := importsAllowed(owner, in.tgt)
			if !ok {
				continue
			}
			switch in.mode {
			case "c", "ca", "cg", "cp", "cs":
				label(g, in.prog, t, t, map[string]bool{t: true}, nil, depth+1)
			case "n", "ng":
				label(g, in.prog, ctx, t, deleg, cb, depth+1)
			case "k":
				c := &sclo{body: in.body, owner: owner, deleg: deleg, cb: cb, ctxs: map[string]bool{}}
				label(g, in.prog, t, t, map[string]bool{t: true}, c, depth+1)
			}
		}
	}
}
