package main

// C21 (the forked parser parses exactly like go/parser): the textual F tie.
//
//	gvx facts-parserfork --repo R [--root V]
//
// 1. locates the go/parser sources of the Go toolchain in use (`go env GOROOT`
//    evaluated inside R, so the go.mod toolchain switch applies);
// 2. applies the hunks of gnovm/pkg/parser/gno.patch to them with a minimal
//    unified-diff applier (exact context match, nearest offset);
// 3. prints the residual line diff between (stdlib + patch) and the fork's
//    non-test sources, every hunk labelled from the table below (a hunk that is
//    not in the table prints UNCLASSIFIED — any edit of the fork shows up here);
// 4. checks the reconstructed base parser V/harness/cmd/c21/ref24 (what the
//    differential harness links as "the parser it was forked from"): ref24 +
//    gno.patch must be the fork byte for byte, and ref24 must differ from the
//    stdlib by exactly the residual hunks of 3;
// 5. prints which functions of the fork touch the token state / the scanner /
//    the callback (the Lean theorem is parametric in "the rest of the parser",
//    which is sound only if nothing but next0/next/consumeComment* advances the
//    scanner or writes pos/tok/lit/comments).
//
// Stdlib only; every helper is prefixed c21pf.

import (
	"crypto/sha1"
	"encoding/hex"
	"flag"
	"fmt"
	"go/ast"
	"go/parser"
	"go/token"
	"os"
	"os/exec"
	"path/filepath"
	"regexp"
	"runtime"
	"sort"
	"strconv"
	"strings"
)

func init() { register("facts-parserfork", c21pfMain) }

// ------------------------------------------------------------------ classification of upstream drift

type c21pfClass struct{ class, note string }

// key = c21pfHunkKey(removed, added).  Classes: doc (comments only), refactor
// (behaviour-preserving), semantic (the installed go/parser behaves differently:
// named drift class of known_findings/C21.json).
//
// Read against go1.25.9 (the fork is go/parser of Go 1.24 + gno.patch):
var c21pfTable = map[string]c21pfClass{
	// interface.go
	"98dd0dcb1d": {"doc", "1.25 added a Deprecated: paragraph to ParseDir's comment"},
	// parser.go
	"67967ac05d": {"doc", "package comment reworded in 1.25 (new first paragraphs, and a closing paragraph about x/tools/go/packages)"},
	"32dd8a1b38": {"semantic drift-linedirective", "1.25 added lineFor (physical line, ignores //line); consumeComment: endline from the physical line; the fork uses the //line-adjusted p.file.Line"},
	"ed5727882b": {"semantic drift-linedirective", "consumeCommentGroup: group break decided on physical (1.25) vs adjusted (fork) lines"},
	"eb9d667426": {"semantic drift-linedirective", "next: same-line test for line comments on physical (1.25) vs adjusted (fork) lines"},
	"16453f61e8": {"semantic drift-linedirective", "next: lead-comment test on physical (1.25) vs adjusted (fork) lines"},
	"1c1d1e29e9": {"refactor", "parseParameterList has no dddok parameter in the fork (plumbing of the drift-ddd hunk)"},
	"88d3a7bb65": {"refactor", "1.25 rewrote the loop as range-over-slice; same iteration"},
	"3e813a6ecb": {"refactor", "1.25 rewrote the right-to-left sweep as range with a mirrored index; same iteration"},
	"86f73afeb1": {"semantic drift-ddd", "1.25 reports misplaced `...` in the parser (can only use ... with final parameter / invalid use of ...) and replaces the type by BadExpr; the fork reports nothing and keeps the Ellipsis"},
	"9d5f78dd21": {"semantic drift-tparams", "1.25 split parseTypeParameters / parseParameters(result); the fork has parseParameters(acceptTParams) + parseResult: same trees, but see the two callers below for the order in which errors are raised (and dddok plumbing of drift-ddd)"},
	"49eb6f40e6": {"semantic drift-tparams", "parseFuncType: 1.25 raises `function type must have no type parameters` BEFORE parsing (params), the fork AFTER; error order decides which same-line errors are discarded and when the 10-error bailout hits"},
	"8d49673d0a": {"refactor", "interface method with type parameters: callee renames only (parseParameters/parseResult)"},
	"50c996ae31": {"refactor", "ordinary interface method: callee renames only"},
	"c54dc9b542": {"semantic drift-goto", "parseBranchStmt: 1.25 always parses a label after goto (error `expected 'IDENT'` when absent); the fork parses a label only if an identifier follows"},
	"ec048649ec": {"doc", "parseGenericType: dddok plumbing (refactor) and a comment the fork still carries"},
	"8f42514286": {"semantic drift-tparams", "parseFuncDecl: 1.25 raises `method must have no type parameters` BEFORE parsing (params), the fork AFTER; same consequence as in parseFuncType"},
}

func c21pfHunkKey(del, add []string) string {
	h := sha1.New()
	for _, l := range del {
		h.Write([]byte("-" + l + "\n"))
	}
	for _, l := range add {
		h.Write([]byte("+" + l + "\n"))
	}
	return hex.EncodeToString(h.Sum(nil))[:10]
}

// ------------------------------------------------------------------ unified diff: parse + apply

type c21pfHunk struct {
	oldStart int
	old, new []string // old = context + removed lines, new = context + added lines
}

var c21pfHunkRe = regexp.MustCompile(`^@@ -(\d+)(?:,(\d+))? \+(\d+)(?:,(\d+))? @@`)

func c21pfSplitLines(s string) []string {
	if s == "" {
		return nil
	}
	ls := strings.Split(s, "\n")
	if ls[len(ls)-1] == "" {
		ls = ls[:len(ls)-1]
	}
	return ls
}

// c21pfParsePatch: file name (without ./) -> hunks, in file order.
func c21pfParsePatch(text string) (map[string][]c21pfHunk, []string, error) {
	out := map[string][]c21pfHunk{}
	var order []string
	lines := c21pfSplitLines(text)
	cur := ""
	for i := 0; i < len(lines); {
		l := lines[i]
		switch {
		case strings.HasPrefix(l, "--- "):
			if i+1 >= len(lines) || !strings.HasPrefix(lines[i+1], "+++ ") {
				return nil, nil, fmt.Errorf("patch line %d: --- without +++", i+1)
			}
			cur = strings.TrimPrefix(strings.Fields(lines[i+1][4:])[0], "./")
			order = append(order, cur)
			i += 2
		case strings.HasPrefix(l, "@@"):
			m := c21pfHunkRe.FindStringSubmatch(l)
			if m == nil || cur == "" {
				return nil, nil, fmt.Errorf("patch line %d: bad hunk header", i+1)
			}
			h := c21pfHunk{}
			h.oldStart, _ = strconv.Atoi(m[1])
			i++
			for i < len(lines) && !strings.HasPrefix(lines[i], "@@") && !strings.HasPrefix(lines[i], "--- ") {
				b := lines[i]
				switch {
				case b == "" || b[0] == ' ':
					t := ""
					if b != "" {
						t = b[1:]
					}
					h.old = append(h.old, t)
					h.new = append(h.new, t)
				case b[0] == '-':
					h.old = append(h.old, b[1:])
				case b[0] == '+':
					h.new = append(h.new, b[1:])
				case b[0] == '\\':
				default:
					return nil, nil, fmt.Errorf("patch line %d: unexpected %q", i+1, b)
				}
				i++
			}
			out[cur] = append(out[cur], h)
		default:
			i++
		}
	}
	return out, order, nil
}

func c21pfMatchAt(src []string, at int, want []string) bool {
	if at < 0 || at+len(want) > len(src) {
		return false
	}
	for i, w := range want {
		if src[at+i] != w {
			return false
		}
	}
	return true
}

// c21pfApply applies hunks in order; each hunk must match exactly (context and
// removed lines) at the nearest position to where the previous offset puts it.
func c21pfApply(src []string, hunks []c21pfHunk) ([]string, []string, error) {
	var out []string
	var notes []string
	pos := 0 // next unread line of src
	offset := 0
	for n, h := range hunks {
		want := h.oldStart - 1 + offset
		if len(h.old) == 0 {
			want = h.oldStart + offset
		}
		found := -1
		for d := 0; d <= len(src); d++ {
			if want+d >= pos && c21pfMatchAt(src, want+d, h.old) {
				found = want + d
				break
			}
			if d > 0 && want-d >= pos && c21pfMatchAt(src, want-d, h.old) {
				found = want - d
				break
			}
		}
		if found < 0 {
			return nil, notes, fmt.Errorf("hunk %d (@@ -%d) does not apply", n+1, h.oldStart)
		}
		offset = found - (h.oldStart - 1)
		notes = append(notes, fmt.Sprintf("hunk %d: -%d lines +%d lines at line %d (offset %+d)", n+1, len(h.old), len(h.new), found+1, offset))
		out = append(out, src[pos:found]...)
		out = append(out, h.new...)
		pos = found + len(h.old)
	}
	out = append(out, src[pos:]...)
	return out, notes, nil
}

// ------------------------------------------------------------------ line diff (LCS on the trimmed middle)

type c21pfDiffHunk struct {
	aStart, bStart int // 1-based
	del, add       []string
}

func c21pfDiff(a, b []string) []c21pfDiffHunk {
	// Myers' O(ND) greedy diff; the trace of furthest-reaching x per diagonal is kept per d for backtracking.
	n, m := len(a), len(b)
	max := n + m
	v := make([]int, 2*max+2)
	var trace [][]int
	done := false
	for d := 0; d <= max && !done; d++ {
		snap := make([]int, 2*d+3)
		// snapshot of v for diagonals -d-1..d+1 (as left by round d-1)
		for k := -d - 1; k <= d+1; k++ {
			if k+max >= 0 && k+max < len(v) {
				snap[k+d+1] = v[k+max]
			}
		}
		trace = append(trace, snap)
		for k := -d; k <= d; k += 2 {
			var x int
			if k == -d || (k != d && v[k-1+max] < v[k+1+max]) {
				x = v[k+1+max]
			} else {
				x = v[k-1+max] + 1
			}
			y := x - k
			for x < n && y < m && a[x] == b[y] {
				x++
				y++
			}
			v[k+max] = x
			if x >= n && y >= m {
				done = true
				break
			}
		}
	}
	// backtrack: edits in reverse order
	type edit struct {
		del  bool
		i, j int // a index (del) / b index (add); for both the position in the other file
	}
	var edits []edit
	x, y := n, m
	for d := len(trace) - 1; d > 0; d-- {
		snap := trace[d]
		at := func(k int) int { return snap[k+d+1] }
		k := x - y
		var pk int
		if k == -d || (k != d && at(k-1) < at(k+1)) {
			pk = k + 1
		} else {
			pk = k - 1
		}
		px := at(pk)
		py := px - pk
		for x > px && y > py {
			x--
			y--
		}
		if x == px {
			// came down: insertion of b[py]
			edits = append(edits, edit{false, px, py})
		} else {
			edits = append(edits, edit{true, px, py})
		}
		x, y = px, py
	}
	var out []c21pfDiffHunk
	for e := len(edits) - 1; e >= 0; e-- {
		ed := edits[e]
		k := len(out) - 1
		if k >= 0 && out[k].aStart-1+len(out[k].del) == ed.i && out[k].bStart-1+len(out[k].add) == ed.j {
			if ed.del {
				out[k].del = append(out[k].del, a[ed.i])
			} else {
				out[k].add = append(out[k].add, b[ed.j])
			}
			continue
		}
		h := c21pfDiffHunk{aStart: ed.i + 1, bStart: ed.j + 1}
		if ed.del {
			h.del = []string{a[ed.i]}
		} else {
			h.add = []string{b[ed.j]}
		}
		out = append(out, h)
	}
	// merge hunks separated by at most 6 common lines (what `diff -u` shows as one hunk)
	var merged []c21pfDiffHunk
	for _, h := range out {
		if k := len(merged) - 1; k >= 0 {
			m := &merged[k]
			endA := m.aStart + len(m.del)
			if gap := h.aStart - endA; gap <= 6 {
				common := a[endA-1 : h.aStart-1]
				m.del = append(append(m.del, common...), h.del...)
				m.add = append(append(m.add, common...), h.add...)
				continue
			}
		}
		merged = append(merged, h)
	}
	return merged
}

// ------------------------------------------------------------------ locating things

func c21pfGoroot(repo string) (string, string) {
	cmd := exec.Command("go", "env", "GOROOT")
	cmd.Dir = repo
	env := []string{}
	for _, e := range os.Environ() {
		if strings.HasPrefix(e, "GOTOOLCHAIN=") || strings.HasPrefix(e, "GOSUMDB=") || strings.HasPrefix(e, "GOFLAGS=") || strings.HasPrefix(e, "GOPROXY=") {
			continue
		}
		env = append(env, e)
	}
	cmd.Env = append(env, "GOFLAGS=-mod=mod", "GOPROXY=off")
	if o, err := cmd.Output(); err == nil {
		if g := strings.TrimSpace(string(o)); g != "" {
			return g, "go env GOROOT (in the repository)"
		}
	}
	return runtime.GOROOT(), "runtime.GOROOT of gvx"
}

func c21pfRoot(flagRoot string) string {
	if flagRoot != "" {
		return flagRoot
	}
	if exe, err := os.Executable(); err == nil {
		r := filepath.Dir(filepath.Dir(exe))
		if _, err := os.Stat(filepath.Join(r, "harness", "cmd", "c21", "ref24")); err == nil {
			return r
		}
	}
	wd, _ := os.Getwd()
	return wd
}

func c21pfRead(path string) ([]string, error) {
	b, err := os.ReadFile(path)
	if err != nil {
		return nil, err
	}
	return c21pfSplitLines(string(b)), nil
}

// ------------------------------------------------------------------ who touches the token state

var c21pfStateFields = map[string]bool{"pos": true, "tok": true, "lit": true, "comments": true, "leadComment": true,
	"lineComment": true, "callback": true, "top": true, "goVersion": true, "scanner": true}

func c21pfSel(e ast.Expr) (string, bool) { // p.<field>
	s, ok := e.(*ast.SelectorExpr)
	if !ok {
		return "", false
	}
	if id, ok := s.X.(*ast.Ident); ok && id.Name == "p" {
		return s.Sel.Name, true
	}
	return "", false
}

func c21pfStateFacts(path string) ([]string, error) {
	fset := token.NewFileSet()
	f, err := parser.ParseFile(fset, path, nil, 0)
	if err != nil {
		return nil, err
	}
	facts := map[string]map[string]bool{}
	add := func(k, fn string) {
		if facts[k] == nil {
			facts[k] = map[string]bool{}
		}
		facts[k][fn] = true
	}
	for _, d := range f.Decls {
		fd, ok := d.(*ast.FuncDecl)
		if !ok || fd.Body == nil {
			continue
		}
		name := fd.Name.Name
		ast.Inspect(fd.Body, func(n ast.Node) bool {
			switch x := n.(type) {
			case *ast.AssignStmt:
				for _, l := range x.Lhs {
					if fld, ok := c21pfSel(l); ok && c21pfStateFields[fld] {
						add("writes p."+fld, name)
					}
				}
			case *ast.IncDecStmt:
				if fld, ok := c21pfSel(x.X); ok && c21pfStateFields[fld] {
					add("writes p."+fld, name)
				}
			case *ast.UnaryExpr:
				if x.Op == token.AND {
					if fld, ok := c21pfSel(x.X); ok && c21pfStateFields[fld] {
						add("takes address of p."+fld, name)
					}
				}
			case *ast.CallExpr:
				if s, ok := x.Fun.(*ast.SelectorExpr); ok {
					if fld, ok := c21pfSel(s.X); ok && fld == "scanner" {
						add("calls p.scanner."+s.Sel.Name, name)
					}
					if fld, ok := c21pfSel(x.Fun); ok && (fld == "callback" || fld == "next0") {
						add("calls p."+fld, name)
					}
				}
			}
			return true
		})
	}
	var keys []string
	for k := range facts {
		keys = append(keys, k)
	}
	sort.Strings(keys)
	var out []string
	for _, k := range keys {
		var fns []string
		for fn := range facts[k] {
			fns = append(fns, fn)
		}
		sort.Strings(fns)
		out = append(out, k+": "+strings.Join(fns, " "))
	}
	return out, nil
}

// ------------------------------------------------------------------ main

func c21pfMain(args []string) error {
	fs := flag.NewFlagSet("facts-parserfork", flag.ContinueOnError)
	repo := fs.String("repo", "/repo", "")
	root := fs.String("root", "", "verif root (default: parent of the directory of this executable)")
	if err := fs.Parse(args); err != nil {
		return err
	}
	forkDir := filepath.Join(*repo, "gnovm", "pkg", "parser")
	goroot, how := c21pfGoroot(*repo)
	stdDir := filepath.Join(goroot, "src", "go", "parser")
	ver := "unknown"
	if b, err := os.ReadFile(filepath.Join(goroot, "VERSION")); err == nil {
		ver = strings.SplitN(string(b), "\n", 2)[0]
	}
	fmt.Printf("toolchain %s (found by %s)\n", ver, how)

	patchText, err := os.ReadFile(filepath.Join(forkDir, "gno.patch"))
	if err != nil {
		return err
	}
	patch, order, err := c21pfParsePatch(string(patchText))
	if err != nil {
		return err
	}
	for _, f := range order {
		fmt.Printf("gno.patch: %s %d hunk(s)\n", f, len(patch[f]))
	}

	ents, err := os.ReadDir(forkDir)
	if err != nil {
		return err
	}
	var srcs, tests []string
	for _, e := range ents {
		n := e.Name()
		switch {
		case e.IsDir() || !strings.HasSuffix(n, ".go"):
		case strings.HasSuffix(n, "_test.go"):
			tests = append(tests, n)
		default:
			srcs = append(srcs, n)
		}
	}
	fmt.Printf("fork non-test sources: %s\n", strings.Join(srcs, " "))
	if stdEnts, err := os.ReadDir(stdDir); err == nil {
		var only []string
		have := map[string]bool{}
		for _, s := range srcs {
			have[s] = true
		}
		for _, e := range stdEnts {
			n := e.Name()
			if !e.IsDir() && strings.HasSuffix(n, ".go") && !strings.HasSuffix(n, "_test.go") && !have[n] {
				only = append(only, n)
			}
		}
		fmt.Printf("stdlib non-test sources missing from the fork: [%s]\n", strings.Join(only, " "))
	}

	refDir := filepath.Join(c21pfRoot(*root), "harness", "cmd", "c21", "ref24")
	var residualKeys, refKeys []string
	unclassified := 0
	for _, name := range srcs {
		fmt.Printf("\n== %s\n", name)
		forkLines, err := c21pfRead(filepath.Join(forkDir, name))
		if err != nil {
			return err
		}
		stdLines, err := c21pfRead(filepath.Join(stdDir, name))
		if err != nil {
			fmt.Printf("stdlib has no %s: the whole file is residual (UNCLASSIFIED)\n", name)
			unclassified++
			continue
		}
		patched, notes, err := c21pfApply(stdLines, patch[name])
		for _, n := range notes {
			fmt.Println("apply " + n)
		}
		if err != nil {
			fmt.Printf("apply FAILED: %v\n", err)
			unclassified++
			patched = stdLines
		}
		res := c21pfDiff(patched, forkLines)
		fmt.Printf("residual (stdlib+patch -> fork): %d hunk(s)\n", len(res))
		for _, h := range res {
			k := c21pfHunkKey(h.del, h.add)
			residualKeys = append(residualKeys, name+":"+k)
			c, ok := c21pfTable[k]
			if !ok {
				c = c21pfClass{"UNCLASSIFIED", "not in the committed drift table: the fork or the toolchain changed"}
				unclassified++
			}
			fmt.Printf("@@ -%d,%d +%d,%d @@ %s [%s] %s\n", h.aStart, len(h.del), h.bStart, len(h.add), k, c.class, c.note)
			for _, l := range h.del {
				fmt.Println("-" + l)
			}
			for _, l := range h.add {
				fmt.Println("+" + l)
			}
		}
		// the reconstructed base parser
		refLines, err := c21pfRead(filepath.Join(refDir, name))
		if err != nil {
			fmt.Printf("ref24: missing %s\n", name)
			unclassified++
			continue
		}
		refPatched, _, err := c21pfApply(refLines, patch[name])
		if err != nil {
			fmt.Printf("ref24 + gno.patch: apply FAILED: %v\n", err)
		} else if d := c21pfDiff(refPatched, forkLines); len(d) == 0 {
			fmt.Println("ref24 + gno.patch = fork: identical")
		} else {
			fmt.Printf("ref24 + gno.patch = fork: DIFFERS in %d hunk(s), first at fork line %d\n", len(d), d[0].bStart)
		}
		for _, h := range c21pfDiff(stdLines, refLines) {
			refKeys = append(refKeys, name+":"+c21pfHunkKey(h.del, h.add))
		}
	}
	fmt.Println()
	same := strings.Join(residualKeys, " ") == strings.Join(refKeys, " ")
	fmt.Printf("stdlib -> ref24 hunks are exactly the residual hunks: %v (%d vs %d)\n", same, len(refKeys), len(residualKeys))
	fmt.Printf("unclassified: %d\n", unclassified)

	fmt.Println("\n== test files and data (summary only)")
	for _, name := range tests {
		forkLines, _ := c21pfRead(filepath.Join(forkDir, name))
		stdLines, err := c21pfRead(filepath.Join(stdDir, name))
		if err != nil {
			fmt.Printf("%s: not in stdlib\n", name)
			continue
		}
		patched, _, err := c21pfApply(stdLines, patch[name])
		st := "patch applies"
		if err != nil {
			st = "patch does NOT apply"
			patched = stdLines
		}
		n := 0
		for _, h := range c21pfDiff(patched, forkLines) {
			n += len(h.del) + len(h.add)
		}
		fmt.Printf("%s: %s, residual lines %d\n", name, st, n)
	}
	if a, err := c21pfRead(filepath.Join(forkDir, "nodes.go.src")); err == nil {
		if b, err := c21pfRead(filepath.Join(goroot, "src", "go", "printer", "nodes.go")); err == nil {
			n := 0
			for _, h := range c21pfDiff(b, a) {
				n += len(h.del) + len(h.add)
			}
			fmt.Printf("nodes.go.src (benchmark input) vs go/printer/nodes.go: residual lines %d\n", n)
		}
	}

	fmt.Println("\n== token state: writers, scanner calls, callback calls (fork)")
	for _, name := range srcs {
		facts, err := c21pfStateFacts(filepath.Join(forkDir, name))
		if err != nil {
			return err
		}
		for _, l := range facts {
			fmt.Printf("%s: %s\n", name, l)
		}
	}
	return nil
}
