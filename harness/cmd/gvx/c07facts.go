// gvx facts-didupdate: list every call of (*Realm).DidUpdate in a package (non-test
// files) together with the write gate that precedes it in the same function body.
//
// C07's theorems are about the gates (IsReadonly / isExternalRealm, reached through
// PopAsPointer / PopAsPointer2 / resolvePointer) and DidUpdate's own external-realm
// panic; that every mutation site consults a gate is a fact about code shape.  The
// output is compared with a committed expectation: a new DidUpdate call site, or a
// site that lost its gate, is a broken tie (DESIGN §3 F, §4).
//
//	gvx facts-didupdate --repo R [--pkg gnovm/pkg/gnolang]
//
// One line per call site, in file / source order, without line numbers (so that
// unrelated edits do not break the tie):
//
//	<file> <func> <callee>#<k-th such call in that func> recv=<receiver expr> po=<DidUpdate's po arg> gate=<nearest preceding gate call | none>
//
// callee is DidUpdate itself, or one of the two helpers that call it on behalf of their
// caller (PointerValue.Assign2, TypedValue.GetPointerAtIndex) — their call sites are
// where the gate has to be.
package main

import (
	"bytes"
	"flag"
	"fmt"
	"go/ast"
	"go/parser"
	"go/printer"
	"go/token"
	"os"
	"path/filepath"
	"sort"
	"strings"
)

func init() { register("facts-didupdate", c07FactsDidUpdateMain) }

var c07Gates = map[string]bool{
	"IsReadonly": true, "isReadonly": true, "isExternalRealm": true,
	"PopAsPointer": true, "PopAsPointer2": true, "resolvePointer": true,
}

func c07Expr(n ast.Node) string {
	var b bytes.Buffer
	printer.Fprint(&b, token.NewFileSet(), n)
	return strings.Join(strings.Fields(b.String()), " ")
}

func c07FuncName(fd *ast.FuncDecl) string {
	if fd.Recv != nil && len(fd.Recv.List) > 0 {
		t := fd.Recv.List[0].Type
		if s, ok := t.(*ast.StarExpr); ok {
			t = s.X
		}
		if id, ok := t.(*ast.Ident); ok {
			return id.Name + "." + fd.Name.Name
		}
	}
	return fd.Name.Name
}

func c07FactsDidUpdateMain(args []string) error {
	fs := flag.NewFlagSet("facts-didupdate", flag.ContinueOnError)
	repo := fs.String("repo", "/repo", "")
	pkg := fs.String("pkg", "gnovm/pkg/gnolang", "")
	if err := fs.Parse(args); err != nil {
		return err
	}
	dir := filepath.Join(*repo, *pkg)
	ents, err := os.ReadDir(dir)
	if err != nil {
		return err
	}
	var files []string
	for _, e := range ents {
		n := e.Name()
		if strings.HasSuffix(n, ".go") && !strings.HasSuffix(n, "_test.go") {
			files = append(files, n)
		}
	}
	sort.Strings(files)
	total := 0
	for _, fn := range files {
		fset := token.NewFileSet()
		f, err := parser.ParseFile(fset, filepath.Join(dir, fn), nil, 0)
		if err != nil {
			return err
		}
		for _, d := range f.Decls {
			fd, ok := d.(*ast.FuncDecl)
			if !ok || fd.Body == nil {
				continue
			}
			type ev struct {
				pos  token.Pos
				gate string
				call *ast.CallExpr
			}
			var evs []ev
			ast.Inspect(fd.Body, func(n ast.Node) bool {
				ce, ok := n.(*ast.CallExpr)
				if !ok {
					return true
				}
				name := ""
				switch fx := ce.Fun.(type) {
				case *ast.SelectorExpr:
					name = fx.Sel.Name
				case *ast.Ident:
					name = fx.Name
				}
				if name == "DidUpdate" || name == "Assign2" || name == "GetPointerAtIndex" {
					evs = append(evs, ev{ce.Pos(), name, ce})
				} else if c07Gates[name] {
					evs = append(evs, ev{ce.Pos(), name, nil})
				}
				return true
			})
			sort.Slice(evs, func(i, j int) bool { return evs[i].pos < evs[j].pos })
			k := map[string]int{}
			last := "none"
			for _, e := range evs {
				if e.call == nil {
					last = e.gate
					continue
				}
				k[e.gate]++
				total++
				recv := "?"
				if se, ok := e.call.Fun.(*ast.SelectorExpr); ok {
					recv = c07Expr(se.X)
				}
				po := "-"
				if e.gate == "DidUpdate" && len(e.call.Args) >= 2 {
					po = c07Expr(e.call.Args[1])
				}
				fmt.Printf("%s %s %s#%d recv=%s po=%s gate=%s\n", fn, c07FuncName(fd), e.gate, k[e.gate], strings.ReplaceAll(recv, " ", ""), strings.ReplaceAll(po, " ", ""), last)
			}
		}
	}
	fmt.Printf("total %d\n", total)
	return nil
}
