package main

// facts-c14: code-shape facts the C14 proofs rely on (DESIGN.md §3, tie F).
//
// The Lean theorems quantify over histories of the ledger operations
// SendCoins / SendCoinsUnrestricted / DeductFees / InputOutputCoins /
// MintCoins / BurnCoins (plus genesis SetCoins;RecomputeSupply).  That covers
// "every committed transaction" only as long as
//
//   - nothing outside the bank keeper calls the supply-blind mutators
//     (AddCoins, SubtractCoins, SetCoins) or the raw writers (setSupply,
//     setSplitBalance, RemoveAccount, NewAccountWithUncheckedNumber) on a
//     transaction path, and
//   - the supply records are written only by MintCoins, BurnCoins and
//     RecomputeSupply.
//
// This subcommand lists, by pure go/ast walk (no type information), every
// non-test call site of those names under the packages that can reach the
// ledger, as `<file>:<enclosing func> -> <callee>`; the runner compares the
// list with extract/expect/C14.callsites.txt.  A new caller is a broken tie.

import (
	"flag"
	"fmt"
	"go/ast"
	"go/parser"
	"go/token"
	"os"
	"path/filepath"
	"sort"
	"strings"
)

func init() { register("facts-c14", factsC14) }

var c14Names = map[string]bool{
	"AddCoins": true, "SubtractCoins": true, "SetCoins": true, "MintCoins": true, "BurnCoins": true,
	"SendCoins": true, "SendCoinsUnrestricted": true, "InputOutputCoins": true, "RecomputeSupply": true,
	"DeductFees": true, "setSupply": true, "setSplitBalance": true, "setAccountTierCoins": true,
	"subtract": true, "subtractCoinsUnrestricted": true, "sendCoins": true,
	"RemoveAccount": true, "NewAccountWithUncheckedNumber": true,
}

var c14Roots = []string{"tm2/pkg/sdk", "tm2/pkg/std", "gno.land/pkg", "gno.land/cmd", "gnovm/stdlibs", "gnovm/pkg", "contribs"}

func recvName(fd *ast.FuncDecl) string {
	if fd.Recv == nil || len(fd.Recv.List) == 0 {
		return fd.Name.Name
	}
	t := fd.Recv.List[0].Type
	if s, ok := t.(*ast.StarExpr); ok {
		t = s.X
	}
	if id, ok := t.(*ast.Ident); ok {
		return id.Name + "." + fd.Name.Name
	}
	return fd.Name.Name
}

func factsC14(args []string) error {
	fs := flag.NewFlagSet("facts-c14", flag.ContinueOnError)
	repo := fs.String("repo", "/repo", "")
	if err := fs.Parse(args); err != nil {
		return err
	}
	var lines []string
	fset := token.NewFileSet()
	for _, root := range c14Roots {
		dir := filepath.Join(*repo, root)
		if _, err := os.Stat(dir); err != nil {
			continue
		}
		err := filepath.Walk(dir, func(path string, info os.FileInfo, err error) error {
			if err != nil {
				return err
			}
			if info.IsDir() {
				if n := info.Name(); n == "testdata" || n == "node_modules" || strings.HasPrefix(n, ".") {
					return filepath.SkipDir
				}
				return nil
			}
			if !strings.HasSuffix(path, ".go") || strings.HasSuffix(path, "_test.go") {
				return nil
			}
			src, err := os.ReadFile(path)
			if err != nil {
				return err
			}
			// cheap pre-filter
			hit := false
			for n := range c14Names {
				if strings.Contains(string(src), n+"(") {
					hit = true
					break
				}
			}
			if !hit {
				return nil
			}
			f, err := parser.ParseFile(fset, path, src, parser.SkipObjectResolution)
			if err != nil {
				return fmt.Errorf("parse %s: %w", path, err)
			}
			rel, _ := filepath.Rel(*repo, path)
			for _, d := range f.Decls {
				fd, ok := d.(*ast.FuncDecl)
				if !ok || fd.Body == nil {
					continue
				}
				encl := recvName(fd)
				ast.Inspect(fd.Body, func(n ast.Node) bool {
					ce, ok := n.(*ast.CallExpr)
					if !ok {
						return true
					}
					var callee, recv string
					switch fn := ce.Fun.(type) {
					case *ast.SelectorExpr:
						callee = fn.Sel.Name
						switch x := fn.X.(type) {
						case *ast.Ident:
							recv = x.Name
						case *ast.SelectorExpr:
							recv = x.Sel.Name
						default:
							recv = "_"
						}
					case *ast.Ident:
						callee = fn.Name
					}
					if c14Names[callee] {
						if recv != "" {
							callee = recv + "." + callee
						}
						lines = append(lines, fmt.Sprintf("%s:%s -> %s", filepath.ToSlash(rel), encl, callee))
					}
					return true
				})
			}
			return nil
		})
		if err != nil {
			return err
		}
	}
	sort.Strings(lines)
	// collapse duplicates with a count
	for i := 0; i < len(lines); {
		j := i
		for j < len(lines) && lines[j] == lines[i] {
			j++
		}
		if j-i > 1 {
			fmt.Printf("%s x%d\n", lines[i], j-i)
		} else {
			fmt.Println(lines[i])
		}
		i = j
	}
	return nil
}
