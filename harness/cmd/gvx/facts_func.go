package main

// gvx facts-func --repo R --file <rel.go> --funcs a,b,(T).m,(*T).m
//
// F tie for hand-written models of a few functions: prints, for every requested
// function or method of one file, its signature and its body as the ordered list
// of statements (gofmt-printed, comments dropped).  The committed expectation is
// the text the model was written against; any change to the order of the
// statements / defers (e.g. in BaseApp.runTx) breaks the tie.
//
// Standard library only.

import (
	"bytes"
	"flag"
	"fmt"
	"go/ast"
	"go/parser"
	"go/printer"
	"go/token"
	"os"
	"path/filepath"
	"strings"
)

func init() { register("facts-func", factsFuncMain) }

func recvString(fd *ast.FuncDecl) string {
	if fd.Recv == nil || len(fd.Recv.List) == 0 {
		return ""
	}
	switch t := fd.Recv.List[0].Type.(type) {
	case *ast.StarExpr:
		if id, ok := t.X.(*ast.Ident); ok {
			return "(*" + id.Name + ")."
		}
	case *ast.Ident:
		return "(" + t.Name + ")."
	}
	return "(?)."
}

func factsFuncMain(args []string) error {
	fs := flag.NewFlagSet("facts-func", flag.ContinueOnError)
	repo := fs.String("repo", "/repo", "")
	file := fs.String("file", "", "")
	funcs := fs.String("funcs", "", "")
	if err := fs.Parse(args); err != nil {
		return err
	}
	if *file == "" || *funcs == "" {
		return fmt.Errorf("need --file and --funcs")
	}
	fset := token.NewFileSet()
	// no parser.ParseComments: comments are not part of the fact
	f, err := parser.ParseFile(fset, filepath.Join(*repo, *file), nil, 0)
	if err != nil {
		return err
	}
	decls := map[string]*ast.FuncDecl{}
	for _, d := range f.Decls {
		if fd, ok := d.(*ast.FuncDecl); ok {
			decls[recvString(fd)+fd.Name.Name] = fd
		}
	}
	var out bytes.Buffer
	cfg := printer.Config{Mode: printer.UseSpaces | printer.TabIndent, Tabwidth: 8}
	for _, name := range strings.Split(*funcs, ",") {
		fd, ok := decls[name]
		if !ok {
			return fmt.Errorf("%s: no function %s", *file, name)
		}
		fmt.Fprintf(&out, "== %s %s\n", *file, name)
		// print through a fresh file set so that positions (and thus blank
		// lines coming from removed comments) do not leak into the fact
		var buf bytes.Buffer
		if err := cfg.Fprint(&buf, fset, fd); err != nil {
			return err
		}
		for _, l := range strings.Split(buf.String(), "\n") {
			if strings.TrimSpace(l) == "" {
				continue
			}
			out.WriteString(l)
			out.WriteByte('\n')
		}
	}
	_, err = os.Stdout.Write(out.Bytes())
	return err
}
