package main

// T-int2: the second, larger T-int translator (DESIGN.md §3, C05): Go code over
// CONCRETE fixed-width integers and bool  →  Lean 4 definitions over BitVec.
// It exists beside `tint` (which stays byte-stable for C19/C18/C37) because the
// softfloat sources need much more of Go: loops, switch, goto, named results,
// tuple assignment, several files of one package.
//
//	gvx tint2 --repo R --files a.go,b.go --ns <Lean namespace> [--funcs f,g | --skip f,g] [--fuel N]
//
// Subset (anything else is a LOUD failure = broken tie, never a silent skip):
//
//   - all files belong to one package, import nothing, and are type-checked
//     together by go/types; constant expressions (typed or untyped, package or
//     local `const`) are emitted as the exact value the type checker computed;
//   - top-level funcs (no receivers, no type parameters) whose parameters and
//     results (named or not) are bool or int/int8..64/uint/uint8..64
//     (`int`/`uint` are 64 bit: GOARCH with 64-bit int);
//   - statements: `:=`, `=`, op=, ++/--, tuple assignment (parallel; swap),
//     tuple assignment from a call, assignment to `_`, `var`, local `const`,
//     if / else-if / else (with optional init), tagless and tagged `switch`
//     with comma cases and `default` (no fallthrough/break), `return` (bare
//     return with named results), `panic("…")`,
//     `for cond { simple }`         → fuel-bounded auxiliary recursion,
//     `L: if c { simple; if d { goto L } }` (the one backward goto shape of
//     divlu)                        → fuel-bounded auxiliary recursion;
//     `simple` = assignments / inc-dec / nested if-else of those (no exits);
//   - expressions: identifiers, constants, + - * & | ^ &^ << >> (shift count
//     constant or of an unsigned type), unary - ^ !, comparisons (signedness
//     from the operand type), && || (short-circuit; operands must be total),
//     integer conversions (truncate / zero- or sign-extend by SOURCE
//     signedness), calls to other translated functions;
//     `/` and `%` only as the whole right-hand side of an assignment that sits
//     directly in a function's statement sequence: they can panic (zero
//     divisor) and turn the function — and transitively its callers — into
//     `Except String`, exactly like `tint` does.
//   - every local name denotes ONE variable per function (no shadowing), so
//     that Go assignment = Lean `let` re-binding is faithful.
//
// Loops: `for` and the goto shape become `def f_loopN (fuel : Nat) …`, called
// with fuel = --fuel (default 128).  When the fuel runs out the current state
// is returned; Proofs/C05Fuel.lean proves that 128 suffices for every loop of
// the softfloat files (each runs < 64+2 iterations), and the correspondence run
// would show any shortfall as a disagreement with the compiled Go code.

import (
	"flag"
	"fmt"
	"go/ast"
	"go/constant"
	"go/parser"
	"go/token"
	"go/types"
	"os"
	"path/filepath"
	"sort"
	"strings"
)

func init() { register("tint2", tint2Main) }

type t2 struct {
	fset   *token.FileSet
	info   *types.Info
	funcs  map[string]*ast.FuncDecl
	mayErr map[string]bool
	fuel   int
	out    strings.Builder
}

func (t *t2) fail(n ast.Node, format string, a ...any) {
	pos := "?"
	if n != nil && n.Pos().IsValid() {
		p := t.fset.Position(n.Pos())
		pos = fmt.Sprintf("%s:%d:%d", filepath.Base(p.Filename), p.Line, p.Column)
	}
	panic(errT{fmt.Sprintf("%s: %s", pos, fmt.Sprintf(format, a...))})
}

func tint2Main(args []string) (err error) {
	fs := flag.NewFlagSet("tint2", flag.ContinueOnError)
	repo := fs.String("repo", "/repo", "")
	files := fs.String("files", "", "comma-separated files (one package) relative to repo")
	ns := fs.String("ns", "GnoVerif.Gen.X", "")
	only := fs.String("funcs", "", "comma-separated function names (default: all top-level funcs)")
	skip := fs.String("skip", "", "comma-separated function names NOT to translate (must not be called by translated ones)")
	fuel := fs.Int("fuel", 128, "fuel given to every translated loop")
	if err := fs.Parse(args); err != nil {
		return err
	}
	defer func() {
		if r := recover(); r != nil {
			if e, ok := r.(errT); ok {
				err = fmt.Errorf("outside the T-int2 subset: %s", e.msg)
				return
			}
			panic(r)
		}
	}()
	t := &t2{fset: token.NewFileSet(), funcs: map[string]*ast.FuncDecl{}, mayErr: map[string]bool{}, fuel: *fuel}
	var parsed []*ast.File
	for _, rel := range strings.Split(*files, ",") {
		f, perr := parser.ParseFile(t.fset, filepath.Join(*repo, rel), nil, parser.SkipObjectResolution)
		if perr != nil {
			return perr
		}
		if len(f.Imports) != 0 {
			return fmt.Errorf("outside the T-int2 subset: %s imports packages", rel)
		}
		parsed = append(parsed, f)
	}
	if len(parsed) == 0 {
		return fmt.Errorf("no --files")
	}
	t.info = &types.Info{Types: map[ast.Expr]types.TypeAndValue{}, Defs: map[*ast.Ident]types.Object{}, Uses: map[*ast.Ident]types.Object{}}
	var terrs []string
	conf := types.Config{Error: func(e error) { terrs = append(terrs, e.Error()) }, Sizes: &types.StdSizes{WordSize: 8, MaxAlign: 8}}
	conf.Check(parsed[0].Name.Name, t.fset, parsed, t.info)
	if len(terrs) > 0 {
		return fmt.Errorf("type errors in the translated package: %s", strings.Join(terrs, "; "))
	}
	want, skipped := map[string]bool{}, map[string]bool{}
	for _, n := range strings.Split(*only, ",") {
		if n != "" {
			want[n] = true
		}
	}
	for _, n := range strings.Split(*skip, ",") {
		if n != "" {
			skipped[n] = true
		}
	}
	var names []string
	all := map[string]bool{}
	for _, f := range parsed {
		for _, d := range f.Decls {
			fd, ok := d.(*ast.FuncDecl)
			if !ok {
				continue
			}
			all[fd.Name.Name] = true
			if len(want) > 0 && !want[fd.Name.Name] || skipped[fd.Name.Name] {
				continue
			}
			if fd.Recv != nil || fd.Body == nil || fd.Type.TypeParams != nil {
				t.fail(fd, "func %s: methods, bodiless and generic functions are not supported", fd.Name.Name)
			}
			t.funcs[fd.Name.Name] = fd
			names = append(names, fd.Name.Name)
		}
	}
	for n := range want {
		if t.funcs[n] == nil {
			return fmt.Errorf("function %s not found", n)
		}
	}
	for n := range skipped {
		if !all[n] {
			return fmt.Errorf("--skip %s: no such function (stale skip list)", n)
		}
	}
	for changed := true; changed; {
		changed = false
		for _, n := range names {
			if !t.mayErr[n] && t.nodeMayErr(t.funcs[n].Body) {
				t.mayErr[n] = true
				changed = true
			}
		}
	}
	order := t.topo(names)
	fmt.Fprintf(&t.out, "/- GENERATED by `gvx tint2` from %s — do not edit; regenerated on every run.\n", *files)
	fmt.Fprintf(&t.out, "   Go `int`/`uint` are 64 bit.  Every loop gets fuel %d (see Proofs/C05Fuel.lean).", t.fuel)
	if len(skipped) > 0 {
		var sk []string
		for n := range skipped {
			sk = append(sk, n)
		}
		sort.Strings(sk)
		fmt.Fprintf(&t.out, "\n   Not translated (--skip): %s.", strings.Join(sk, ", "))
	}
	fmt.Fprintf(&t.out, " -/\nimport GnoVerif.Base.GoInt\nset_option linter.unusedVariables false\nnamespace %s\nopen GnoVerif\n\n", *ns)
	fmt.Fprintf(&t.out, "/-- fuel given to every translated loop -/\ndef loopFuel : Nat := %d\n\n", t.fuel)
	for _, n := range order {
		t.emitFunc(t.funcs[n])
	}
	fmt.Fprintf(&t.out, "end %s\n", *ns)
	os.Stdout.WriteString(t.out.String())
	return nil
}

func (t *t2) topo(names []string) []string {
	state := map[string]int{}
	var out []string
	var visit func(n string, from ast.Node)
	visit = func(n string, from ast.Node) {
		switch state[n] {
		case 2:
			return
		case 1:
			t.fail(from, "recursion through %s is not supported", n)
		}
		state[n] = 1
		type call struct {
			name string
			at   ast.Node
		}
		var cs []call
		ast.Inspect(t.funcs[n].Body, func(x ast.Node) bool {
			if c, ok := x.(*ast.CallExpr); ok {
				if id, ok := c.Fun.(*ast.Ident); ok && t.funcs[id.Name] != nil {
					cs = append(cs, call{id.Name, c})
				}
			}
			return true
		})
		sort.SliceStable(cs, func(i, j int) bool { return cs[i].name < cs[j].name })
		for _, c := range cs {
			visit(c.name, c.at)
		}
		state[n] = 2
		out = append(out, n)
	}
	for _, n := range names {
		visit(n, t.funcs[n])
	}
	return out
}

func (t *t2) isConst(e ast.Expr) bool {
	tv, ok := t.info.Types[e]
	return ok && tv.Value != nil
}

// nodeMayErr: contains a non-constant / or %, a panic, or a call of a mayErr function.
func (t *t2) nodeMayErr(b ast.Node) bool {
	r := false
	ast.Inspect(b, func(x ast.Node) bool {
		switch e := x.(type) {
		case *ast.BinaryExpr:
			if (e.Op == token.QUO || e.Op == token.REM) && !t.isConst(e) {
				r = true
			}
		case *ast.AssignStmt:
			if e.Tok == token.QUO_ASSIGN || e.Tok == token.REM_ASSIGN {
				r = true
			}
		case *ast.CallExpr:
			if id, ok := e.Fun.(*ast.Ident); ok {
				if id.Name == "panic" || t.mayErr[id.Name] {
					r = true
				}
			}
		}
		return true
	})
	return r
}

// ---------------------------------------------------------------- types

type ity2 struct {
	bool bool
	w    int
	sg   bool
}

func (t *t2) tyOf(n ast.Node, ty types.Type) ity2 {
	if ty == nil {
		t.fail(n, "expression without a type")
	}
	b, ok := ty.Underlying().(*types.Basic)
	if !ok {
		t.fail(n, "unsupported type %s", ty)
	}
	switch b.Kind() {
	case types.Bool, types.UntypedBool:
		return ity2{bool: true}
	case types.Int8:
		return ity2{w: 8, sg: true}
	case types.Int16:
		return ity2{w: 16, sg: true}
	case types.Int32:
		return ity2{w: 32, sg: true}
	case types.Int64, types.Int:
		return ity2{w: 64, sg: true}
	case types.Uint8:
		return ity2{w: 8}
	case types.Uint16:
		return ity2{w: 16}
	case types.Uint32:
		return ity2{w: 32}
	case types.Uint64, types.Uint:
		return ity2{w: 64}
	}
	t.fail(n, "unsupported basic type %s", ty)
	return ity2{}
}

func (y ity2) lean() string {
	if y.bool {
		return "Bool"
	}
	return fmt.Sprintf("BitVec %d", y.w)
}

func (y ity2) zero() string {
	if y.bool {
		return "false"
	}
	return fmt.Sprintf("0#%d", y.w)
}

// lit2 renders an integer constant of type y: non-negative values as `v#w`,
// negative ones (signed types only) as `(BitVec.ofInt w (v))`.
func (t *t2) lit2(n ast.Node, y ity2, v constant.Value) string {
	if y.bool {
		t.fail(n, "integer constant of bool type")
	}
	if constant.Sign(v) >= 0 {
		return fmt.Sprintf("%s#%d", v.ExactString(), y.w)
	}
	if !y.sg {
		t.fail(n, "negative constant of an unsigned type")
	}
	return fmt.Sprintf("(BitVec.ofInt %d (%s))", y.w, v.ExactString())
}

func lid2(s string) string {
	switch s {
	case "from", "to", "end", "at", "do", "then", "fun", "let", "have", "show", "open", "in", "def", "by", "with", "match", "if", "else",
		"instance", "structure", "class", "where", "deriving", "fuel", "pure", "throw", "loopFuel", "GoInt", "BitVec", "true", "false",
		"Type", "Prop", "Sort", "section", "namespace", "theorem", "example", "abbrev", "mutual", "private", "protected", "return", "for",
		"unless", "try", "catch", "finally", "mut", "import", "export", "local", "macro", "syntax", "notation", "infix", "prefix", "postfix",
		"universe", "variable", "axiom", "opaque", "inductive", "extends", "using", "nomatch", "nofun", "calc", "from_", "suffices", "obtain", "exists", "forall":
		return s + "_"
	}
	return s
}

// ---------------------------------------------------------------- functions

type f2 struct {
	t       *t2
	fd      *ast.FuncDecl
	name    string
	err     bool
	named   []string // Lean names of named results (nil if unnamed)
	nres    int
	aux     []string // auxiliary loop definitions, emitted before the function
	nloop   int
	locals  map[string]types.Object
	inDo    bool // currently inside the function's do-sequence (only meaningful if err)
	inLoop  bool // translating an auxiliary loop body (no exits, no mayErr)
	loopRet string
}

func (t *t2) emitFunc(fd *ast.FuncDecl) {
	name := fd.Name.Name
	c := &f2{t: t, fd: fd, name: name, err: t.mayErr[name], locals: map[string]types.Object{}}
	// one object per local name
	ast.Inspect(fd, func(x ast.Node) bool {
		id, ok := x.(*ast.Ident)
		if !ok || id.Name == "_" {
			return true
		}
		obj := t.info.Defs[id]
		if obj == nil {
			return true
		}
		if _, isVar := obj.(*types.Var); !isVar {
			return true // local consts are folded; labels handled separately
		}
		if prev, dup := c.locals[id.Name]; dup && prev != obj {
			t.fail(id, "func %s: the name %s denotes two different variables (shadowing is not supported)", name, id.Name)
		}
		c.locals[id.Name] = obj
		return true
	})
	var ps []string
	for _, f := range fd.Type.Params.List {
		ty := t.tyOf(f, t.info.Types[f.Type].Type)
		if len(f.Names) == 0 {
			t.fail(f, "unnamed parameter")
		}
		for _, n := range f.Names {
			if n.Name == "_" {
				t.fail(f, "blank parameter")
			}
			ps = append(ps, fmt.Sprintf("(%s : %s)", lid2(n.Name), ty.lean()))
		}
	}
	var rs []string
	var inits []string
	if fd.Type.Results != nil {
		for _, f := range fd.Type.Results.List {
			ty := t.tyOf(f, t.info.Types[f.Type].Type)
			if len(f.Names) == 0 {
				rs = append(rs, ty.lean())
				continue
			}
			for _, n := range f.Names {
				if n.Name == "_" {
					t.fail(f, "blank named result")
				}
				rs = append(rs, ty.lean())
				c.named = append(c.named, lid2(n.Name))
				inits = append(inits, fmt.Sprintf("  let %s : %s := %s\n", lid2(n.Name), ty.lean(), ty.zero()))
			}
		}
	}
	if len(c.named) != 0 && len(c.named) != len(rs) {
		t.fail(fd, "mixed named and unnamed results")
	}
	c.nres = len(rs)
	if c.nres == 0 {
		t.fail(fd, "func %s has no result", name)
	}
	rt := strings.Join(rs, " × ")
	if c.err {
		rt = "Except String (" + rt + ")"
	}
	c.inDo = true
	body := c.stmts(fd.Body.List, nil, 1)
	for _, a := range c.aux {
		t.out.WriteString(a)
		t.out.WriteString("\n")
	}
	p := t.fset.Position(fd.Pos())
	fmt.Fprintf(&t.out, "/-- Go: `func %s` at %s:%d -/\n", name, filepath.Base(p.Filename), p.Line)
	fmt.Fprintf(&t.out, "def %s %s : %s :=%s\n", lid2(name), strings.Join(ps, " "), rt, map[bool]string{true: " do", false: ""}[c.err])
	t.out.WriteString(strings.Join(inits, ""))
	t.out.WriteString(body)
	t.out.WriteString("\n\n")
}

func ind2(n int) string { return strings.Repeat("  ", n) }

func (c *f2) pure(s string) string {
	if c.err && !c.inLoop {
		return "pure " + s
	}
	return s
}

func tuple(xs []string) string {
	if len(xs) == 1 {
		return xs[0]
	}
	return "(" + strings.Join(xs, ", ") + ")"
}

func isPanic(s ast.Stmt) (*ast.CallExpr, bool) {
	if es, ok := s.(*ast.ExprStmt); ok {
		if call, ok := es.X.(*ast.CallExpr); ok {
			if id, ok := call.Fun.(*ast.Ident); ok && id.Name == "panic" {
				return call, true
			}
		}
	}
	return nil, false
}

func blockList(s ast.Stmt) []ast.Stmt {
	if s == nil {
		return nil
	}
	if b, ok := s.(*ast.BlockStmt); ok {
		return b.List
	}
	return []ast.Stmt{s}
}

// terminates: the list always ends in return / panic.
func (c *f2) terminates(ss []ast.Stmt) bool {
	if len(ss) == 0 {
		return false
	}
	switch s := ss[len(ss)-1].(type) {
	case *ast.ReturnStmt:
		return true
	case *ast.ExprStmt:
		_, ok := isPanic(s)
		return ok
	case *ast.IfStmt:
		return s.Else != nil && c.terminates(s.Body.List) && c.terminates(blockList(s.Else))
	case *ast.BlockStmt:
		return c.terminates(s.List)
	case *ast.SwitchStmt:
		hasDefault := false
		for _, cl := range s.Body.List {
			cc := cl.(*ast.CaseClause)
			if cc.List == nil {
				hasDefault = true
			}
			if !c.terminates(cc.Body) {
				return false
			}
		}
		return hasDefault
	}
	return false
}

// hasExit: contains a return / panic / goto / labelled statement anywhere.
func (c *f2) hasExit(ss []ast.Stmt) bool {
	r := false
	for _, s := range ss {
		ast.Inspect(s, func(x ast.Node) bool {
			switch y := x.(type) {
			case *ast.ReturnStmt, *ast.BranchStmt, *ast.LabeledStmt:
				r = true
			case *ast.ExprStmt:
				if _, ok := isPanic(y); ok {
					r = true
				}
			}
			return true
		})
	}
	return r
}

// assigned: outer variables assigned in ss (block-local `:=`/var definitions excluded), sorted.
func (c *f2) assigned(ss []ast.Stmt) []string {
	set := map[string]bool{}
	local := map[string]bool{}
	for _, s := range ss {
		ast.Inspect(s, func(x ast.Node) bool {
			switch y := x.(type) {
			case *ast.AssignStmt:
				for _, l := range y.Lhs {
					id, ok := l.(*ast.Ident)
					if !ok {
						c.t.fail(l, "assignment to a non-identifier")
					}
					if id.Name == "_" {
						continue
					}
					if y.Tok == token.DEFINE {
						if c.t.info.Defs[id] == nil {
							c.t.fail(id, "`:=` re-assigning the existing variable %s is not supported", id.Name)
						}
						local[id.Name] = true
					} else {
						set[id.Name] = true
					}
				}
			case *ast.IncDecStmt:
				id, ok := y.X.(*ast.Ident)
				if !ok {
					c.t.fail(y, "inc/dec of a non-identifier")
				}
				set[id.Name] = true
			case *ast.ValueSpec:
				for _, n := range y.Names {
					local[n.Name] = true
				}
			}
			return true
		})
	}
	var out []string
	for k := range set {
		if !local[k] {
			out = append(out, k)
		}
	}
	sort.Strings(out)
	return out
}

// freeVars: local variables (incl. parameters) referenced in the nodes, minus those defined inside; sorted.
func (c *f2) freeVars(nodes ...ast.Node) []*types.Var {
	seen := map[*types.Var]bool{}
	defd := map[*types.Var]bool{}
	for _, n := range nodes {
		if n == nil {
			continue
		}
		ast.Inspect(n, func(x ast.Node) bool {
			id, ok := x.(*ast.Ident)
			if !ok {
				return true
			}
			if o, ok := c.t.info.Defs[id].(*types.Var); ok && o != nil {
				defd[o] = true
			}
			if o, ok := c.t.info.Uses[id].(*types.Var); ok && o != nil && !o.IsField() && o.Parent() != o.Pkg().Scope() {
				seen[o] = true
			}
			return true
		})
	}
	var out []*types.Var
	for v := range seen {
		if !defd[v] {
			out = append(out, v)
		}
	}
	sort.Slice(out, func(i, j int) bool { return out[i].Name() < out[j].Name() })
	return out
}

// stmts translates a statement list. tail (may be nil = "must not fall off")
// yields the text used when control reaches the end of the list.
func (c *f2) stmts(ss []ast.Stmt, tail func(d int) string, d int) string {
	if len(ss) == 0 {
		if tail == nil {
			c.t.fail(c.fd, "func %s: control falls off the end of the function", c.name)
		}
		return tail(d)
	}
	s, rest := ss[0], ss[1:]
	I := ind2(d)
	switch s := s.(type) {
	case *ast.EmptyStmt:
		return c.stmts(rest, tail, d)
	case *ast.ReturnStmt:
		if c.inLoop {
			c.t.fail(s, "return inside a loop body")
		}
		if len(s.Results) == 0 {
			if c.named == nil {
				c.t.fail(s, "bare return without named results")
			}
			return I + c.pure(tuple(c.named))
		}
		if len(s.Results) == 1 && c.nres > 1 {
			// `return g(x)` forwarding all results of a translated function
			call, ok := s.Results[0].(*ast.CallExpr)
			if !ok {
				c.t.fail(s, "return arity")
			}
			id, _ := call.Fun.(*ast.Ident)
			if id == nil || c.t.funcs[id.Name] == nil {
				c.t.fail(s, "return of a multi-value call outside the translated set")
			}
			if c.t.mayErr[id.Name] {
				return I + c.callText(call)
			}
			return I + c.pure("("+c.callText(call)+")")
		}
		if len(s.Results) != c.nres {
			c.t.fail(s, "return arity")
		}
		if len(s.Results) == 1 {
			if call, ok := s.Results[0].(*ast.CallExpr); ok {
				if id, ok := call.Fun.(*ast.Ident); ok && c.t.mayErr[id.Name] {
					return I + c.callText(call) // tail call of a monadic function
				}
			}
		}
		var es []string
		for _, e := range s.Results {
			es = append(es, c.expr(e))
		}
		return I + c.pure(tuple(es))
	case *ast.ExprStmt:
		if call, ok := isPanic(s); ok {
			if c.inLoop || !c.inDo {
				c.t.fail(s, "panic in a pure position")
			}
			msg := "panic"
			if tv, ok := c.t.info.Types[call.Args[0]]; ok && tv.Value != nil && tv.Value.Kind() == constant.String {
				msg = constant.StringVal(tv.Value)
			}
			return I + fmt.Sprintf("throw %q", msg)
		}
		c.t.fail(s, "unsupported expression statement")
	case *ast.DeclStmt:
		gd, ok := s.Decl.(*ast.GenDecl)
		if !ok {
			c.t.fail(s, "unsupported declaration")
		}
		if gd.Tok == token.CONST {
			return c.stmts(rest, tail, d) // local constants are folded at their uses
		}
		if gd.Tok != token.VAR {
			c.t.fail(s, "unsupported declaration")
		}
		var b strings.Builder
		for _, sp := range gd.Specs {
			vs := sp.(*ast.ValueSpec)
			if len(vs.Values) != 0 && len(vs.Values) != len(vs.Names) {
				c.t.fail(s, "var from a multi-value call")
			}
			for i, n := range vs.Names {
				ty := c.t.tyOf(n, c.t.info.Defs[n].Type())
				rhs := ty.zero()
				if i < len(vs.Values) {
					rhs = c.expr(vs.Values[i])
				}
				fmt.Fprintf(&b, "%slet %s : %s := %s\n", I, lid2(n.Name), ty.lean(), rhs)
			}
		}
		return b.String() + c.stmts(rest, tail, d)
	case *ast.AssignStmt:
		return c.assign(s, d) + c.stmts(rest, tail, d)
	case *ast.IncDecStmt:
		id, ok := s.X.(*ast.Ident)
		if !ok {
			c.t.fail(s, "inc/dec of a non-identifier")
		}
		ty := c.t.tyOf(s, c.t.info.Types[s.X].Type)
		op := "+"
		if s.Tok == token.DEC {
			op = "-"
		}
		return fmt.Sprintf("%slet %s := (%s %s 1#%d)\n", I, lid2(id.Name), lid2(id.Name), op, ty.w) + c.stmts(rest, tail, d)
	case *ast.BlockStmt:
		return c.stmts(append(append([]ast.Stmt{}, s.List...), rest...), tail, d)
	case *ast.SwitchStmt:
		return c.stmts(append([]ast.Stmt{c.desugarSwitch(s)}, rest...), tail, d)
	case *ast.ForStmt:
		return c.loop(s, d) + c.stmts(rest, tail, d)
	case *ast.LabeledStmt:
		return c.gotoLoop(s, d) + c.stmts(rest, tail, d)
	case *ast.IfStmt:
		if s.Init != nil {
			return c.stmts(append([]ast.Stmt{s.Init, &ast.IfStmt{If: s.If, Cond: s.Cond, Body: s.Body, Else: s.Else}}, rest...), tail, d)
		}
		if c.t.nodeMayErr(s.Cond) {
			c.t.fail(s.Cond, "condition that may panic")
		}
		cond := c.expr(s.Cond)
		thenL, elseL := s.Body.List, blockList(s.Else)
		thenT, elseT := c.terminates(thenL), c.terminates(elseL)
		cat := func(a, b []ast.Stmt) []ast.Stmt { return append(append([]ast.Stmt{}, a...), b...) }
		switch {
		case thenT && elseT:
			return fmt.Sprintf("%sif %s then\n%s\n%selse\n%s", I, cond, c.stmts(thenL, nil, d+1), I, c.stmts(elseL, nil, d+1))
		case thenT:
			return fmt.Sprintf("%sif %s then\n%s\n%selse\n%s", I, cond, c.stmts(thenL, nil, d+1), I, c.stmts(cat(elseL, rest), tail, d+1))
		case elseT:
			return fmt.Sprintf("%sif %s then\n%s\n%selse\n%s", I, cond, c.stmts(cat(thenL, rest), tail, d+1), I, c.stmts(elseL, nil, d+1))
		case c.hasExit(thenL) || c.hasExit(elseL):
			// may or may not leave the function: the continuation is duplicated into both branches
			return fmt.Sprintf("%sif %s then\n%s\n%selse\n%s", I, cond, c.stmts(cat(thenL, rest), tail, d+1), I, c.stmts(cat(elseL, rest), tail, d+1))
		default:
			// both fall through: join on the assigned variables (a pure `let`)
			vs := c.assigned(cat(thenL, elseL))
			if len(vs) == 0 {
				c.t.fail(s, "if without effect")
			}
			var lv []string
			for _, v := range vs {
				lv = append(lv, lid2(v))
			}
			tup := tuple(lv)
			saveDo, saveLoop := c.inDo, c.inLoop
			c.inDo = false
			join := func(dd int) string { return ind2(dd) + tup }
			thenS := c.stmts(thenL, join, d+1)
			elseS := c.stmts(elseL, join, d+1)
			c.inDo, c.inLoop = saveDo, saveLoop
			return fmt.Sprintf("%slet %s := (if %s then\n%s\n%selse\n%s)\n", I, tup, cond, thenS, I, elseS) + c.stmts(rest, tail, d)
		}
	}
	c.t.fail(s, "unsupported statement %T", s)
	return ""
}

// desugarSwitch rewrites a switch into an if / else-if chain (default last).
func (c *f2) desugarSwitch(s *ast.SwitchStmt) ast.Stmt {
	if s.Init != nil {
		c.t.fail(s, "switch with init statement")
	}
	var tag *ast.Ident
	if s.Tag != nil {
		id, ok := s.Tag.(*ast.Ident)
		if !ok {
			c.t.fail(s.Tag, "switch tag must be an identifier")
		}
		tag = id
	}
	var def *ast.CaseClause
	var clauses []*ast.CaseClause
	for _, cl := range s.Body.List {
		cc := cl.(*ast.CaseClause)
		for _, b := range cc.Body {
			if br, ok := b.(*ast.BranchStmt); ok && (br.Tok == token.FALLTHROUGH || br.Tok == token.BREAK) {
				c.t.fail(br, "%s in switch", br.Tok)
			}
		}
		if cc.List == nil {
			if def != nil {
				c.t.fail(cc, "two default clauses")
			}
			def = cc
			continue
		}
		clauses = append(clauses, cc)
	}
	var chain ast.Stmt
	if def != nil {
		chain = &ast.BlockStmt{Lbrace: def.Pos(), List: def.Body}
	}
	for i := len(clauses) - 1; i >= 0; i-- {
		cc := clauses[i]
		var cond ast.Expr
		for _, e := range cc.List {
			var one ast.Expr = e
			if tag != nil {
				one = &ast.BinaryExpr{X: tag, OpPos: e.Pos(), Op: token.EQL, Y: e}
			}
			if cond == nil {
				cond = one
			} else {
				cond = &ast.BinaryExpr{X: cond, OpPos: e.Pos(), Op: token.LOR, Y: one}
			}
		}
		chain = &ast.IfStmt{If: cc.Pos(), Cond: cond, Body: &ast.BlockStmt{Lbrace: cc.Pos(), List: cc.Body}, Else: chain}
	}
	if chain == nil {
		c.t.fail(s, "empty switch")
	}
	return chain
}

func (c *f2) leanParams(vs []*types.Var) (decl, args []string) {
	for _, v := range vs {
		ty := c.t.tyOf(c.fd, v.Type())
		decl = append(decl, fmt.Sprintf("(%s : %s)", lid2(v.Name()), ty.lean()))
		args = append(args, lid2(v.Name()))
	}
	return
}

func (c *f2) stateOf(n ast.Node, names []string) (tys []string, tup string) {
	var lv []string
	for _, v := range names {
		obj := c.locals[v]
		if obj == nil {
			c.t.fail(n, "loop assigns the unknown variable %s", v)
		}
		tys = append(tys, c.t.tyOf(n, obj.Type()).lean())
		lv = append(lv, lid2(v))
	}
	return tys, tuple(lv)
}

// loop: `for cond { simple }`  →  aux def with fuel.
func (c *f2) loop(s *ast.ForStmt, d int) string {
	if s.Init != nil || s.Post != nil || s.Cond == nil {
		c.t.fail(s, "only `for cond { … }` loops are supported")
	}
	if c.inLoop {
		c.t.fail(s, "nested loop")
	}
	if c.hasExit(s.Body.List) {
		c.t.fail(s, "loop body with return/goto/break/continue")
	}
	if c.t.nodeMayErr(s.Cond) || c.t.nodeMayErr(s.Body) {
		c.t.fail(s, "loop that may panic")
	}
	vs := c.assigned(s.Body.List)
	if len(vs) == 0 {
		c.t.fail(s, "loop without effect")
	}
	c.nloop++
	aux := fmt.Sprintf("%s_loop%d", lid2(c.name), c.nloop)
	decl, args := c.leanParams(c.freeVars(s.Cond, s.Body))
	tys, tup := c.stateOf(s, vs)
	saveDo := c.inDo
	c.inDo, c.inLoop = false, true
	cond := c.expr(s.Cond)
	body := c.stmts(s.Body.List, func(dd int) string {
		return fmt.Sprintf("%s%s fuel %s", ind2(dd), aux, strings.Join(args, " "))
	}, 3)
	c.inDo, c.inLoop = saveDo, false
	p := c.t.fset.Position(s.Pos())
	var b strings.Builder
	fmt.Fprintf(&b, "/-- Go: `for` loop of `%s` at %s:%d; returns %s -/\n", c.name, filepath.Base(p.Filename), p.Line, tup)
	fmt.Fprintf(&b, "def %s (fuel : Nat) %s : %s :=\n  match fuel with\n  | 0 => %s\n  | fuel + 1 =>\n    if %s then\n%s\n    else %s\n",
		aux, strings.Join(decl, " "), strings.Join(tys, " × "), tup, cond, body, tup)
	c.aux = append(c.aux, b.String())
	return fmt.Sprintf("%slet %s := %s loopFuel %s\n", ind2(d), tup, aux, strings.Join(args, " "))
}

// gotoLoop: `L: if c { simple; if d { goto L } }`  →  aux def with fuel.
func (c *f2) gotoLoop(s *ast.LabeledStmt, d int) string {
	bad := func(n ast.Node) { c.t.fail(n, "label %s: only the shape `L: if c { …; if d { goto L } }` is supported", s.Label.Name) }
	if c.inLoop {
		bad(s)
	}
	outer, ok := s.Stmt.(*ast.IfStmt)
	if !ok || outer.Init != nil || outer.Else != nil || len(outer.Body.List) < 1 {
		bad(s)
	}
	n := len(outer.Body.List)
	inner, ok := outer.Body.List[n-1].(*ast.IfStmt)
	if !ok || inner.Init != nil || inner.Else != nil || len(inner.Body.List) != 1 {
		bad(s)
	}
	br, ok := inner.Body.List[0].(*ast.BranchStmt)
	if !ok || br.Tok != token.GOTO || br.Label == nil || br.Label.Name != s.Label.Name {
		bad(s)
	}
	simple := outer.Body.List[:n-1]
	if c.hasExit(simple) {
		bad(s)
	}
	// the label must not be targeted from anywhere else
	cnt := 0
	ast.Inspect(c.fd.Body, func(x ast.Node) bool {
		if b, ok := x.(*ast.BranchStmt); ok && b.Label != nil && b.Label.Name == s.Label.Name {
			cnt++
		}
		return true
	})
	if cnt != 1 {
		bad(s)
	}
	if c.t.nodeMayErr(outer.Cond) || c.t.nodeMayErr(inner.Cond) || c.t.nodeMayErr(&ast.BlockStmt{List: simple}) {
		c.t.fail(s, "goto loop that may panic")
	}
	vs := c.assigned(simple)
	if len(vs) == 0 {
		bad(s)
	}
	aux := fmt.Sprintf("%s_%s", lid2(c.name), s.Label.Name)
	decl, args := c.leanParams(c.freeVars(outer.Cond, &ast.BlockStmt{List: simple}, inner.Cond))
	tys, tup := c.stateOf(s, vs)
	saveDo := c.inDo
	c.inDo, c.inLoop = false, true
	cond := c.expr(outer.Cond)
	body := c.stmts(simple, func(dd int) string {
		return fmt.Sprintf("%sif %s then %s fuel %s\n%selse %s", ind2(dd), c.expr(inner.Cond), aux, strings.Join(args, " "), ind2(dd), tup)
	}, 3)
	c.inDo, c.inLoop = saveDo, false
	p := c.t.fset.Position(s.Pos())
	var b strings.Builder
	fmt.Fprintf(&b, "/-- Go: backward-goto loop `%s` of `%s` at %s:%d; returns %s -/\n", s.Label.Name, c.name, filepath.Base(p.Filename), p.Line, tup)
	fmt.Fprintf(&b, "def %s (fuel : Nat) %s : %s :=\n  match fuel with\n  | 0 => %s\n  | fuel + 1 =>\n    if %s then\n%s\n    else %s\n",
		aux, strings.Join(decl, " "), strings.Join(tys, " × "), tup, cond, body, tup)
	c.aux = append(c.aux, b.String())
	return fmt.Sprintf("%slet %s := %s loopFuel %s\n", ind2(d), tup, aux, strings.Join(args, " "))
}

var opAssign = map[token.Token]token.Token{token.ADD_ASSIGN: token.ADD, token.SUB_ASSIGN: token.SUB, token.MUL_ASSIGN: token.MUL,
	token.QUO_ASSIGN: token.QUO, token.REM_ASSIGN: token.REM, token.AND_ASSIGN: token.AND, token.OR_ASSIGN: token.OR,
	token.XOR_ASSIGN: token.XOR, token.SHL_ASSIGN: token.SHL, token.SHR_ASSIGN: token.SHR, token.AND_NOT_ASSIGN: token.AND_NOT}

func (c *f2) lhsNames(s *ast.AssignStmt) []string {
	var out []string
	seen := map[string]bool{}
	for _, l := range s.Lhs {
		id, ok := l.(*ast.Ident)
		if !ok {
			c.t.fail(l, "assignment to a non-identifier")
		}
		if id.Name == "_" {
			out = append(out, "_")
			continue
		}
		if s.Tok == token.DEFINE && c.t.info.Defs[id] == nil {
			c.t.fail(id, "`:=` re-assigning the existing variable %s is not supported", id.Name)
		}
		if seen[id.Name] {
			c.t.fail(id, "variable assigned twice in one statement")
		}
		seen[id.Name] = true
		out = append(out, lid2(id.Name))
	}
	return out
}

// divText: `a / b` or `a % b` at the top of a right-hand side, monadic.
func (c *f2) divText(e ast.Expr) (string, bool) {
	for {
		p, ok := e.(*ast.ParenExpr)
		if !ok {
			break
		}
		e = p.X
	}
	be, ok := e.(*ast.BinaryExpr)
	if !ok || (be.Op != token.QUO && be.Op != token.REM) || c.t.isConst(be) {
		return "", false
	}
	if c.t.nodeMayErr(be.X) || c.t.nodeMayErr(be.Y) {
		c.t.fail(be, "nested division")
	}
	ty := c.t.tyOf(be.X, c.t.info.Types[be.X].Type)
	f := "GoInt.div"
	if be.Op == token.REM {
		f = "GoInt.rem"
	}
	return fmt.Sprintf("%s %v %s %s", f, ty.sg, c.expr(be.X), c.expr(be.Y)), true
}

func (c *f2) callText(call *ast.CallExpr) string {
	id, ok := call.Fun.(*ast.Ident)
	if !ok || c.t.funcs[id.Name] == nil {
		c.t.fail(call, "call to a function outside the translated set")
	}
	as := []string{lid2(id.Name)}
	for _, a := range call.Args {
		if c.t.nodeMayErr(a) {
			if !c.inDo {
				c.t.fail(a, "argument that may panic in a pure position")
			}
		}
		as = append(as, c.expr(a))
	}
	return strings.Join(as, " ")
}

func (c *f2) assign(s *ast.AssignStmt, d int) string {
	I := ind2(d)
	if s.Tok == token.ASSIGN {
		allBlank := true
		for _, l := range s.Lhs {
			if id, ok := l.(*ast.Ident); !ok || id.Name != "_" {
				allBlank = false
			}
		}
		if allBlank {
			for _, r := range s.Rhs {
				if _, ok := r.(*ast.Ident); !ok {
					c.t.fail(r, "blank assignment of a non-identifier")
				}
			}
			return "" // `_, _ = a, b`: no effect
		}
	}
	names := c.lhsNames(s)
	needDo := func(n ast.Node) {
		if !c.inDo {
			c.t.fail(n, "operation that may panic in a pure position (only allowed directly in the function's statement sequence)")
		}
	}
	switch s.Tok {
	case token.DEFINE, token.ASSIGN:
		if len(s.Rhs) == 1 && len(s.Lhs) > 1 {
			call, ok := s.Rhs[0].(*ast.CallExpr)
			if !ok {
				c.t.fail(s, "tuple assignment from a non-call")
			}
			id, _ := call.Fun.(*ast.Ident)
			if id != nil && c.t.mayErr[id.Name] {
				needDo(s)
				return fmt.Sprintf("%slet (%s) ← %s\n", I, strings.Join(names, ", "), c.callText(call))
			}
			return fmt.Sprintf("%slet (%s) := %s\n", I, strings.Join(names, ", "), c.expr(call))
		}
		if len(s.Rhs) != len(s.Lhs) {
			c.t.fail(s, "assignment arity")
		}
		if len(s.Lhs) == 1 {
			if call, ok := s.Rhs[0].(*ast.CallExpr); ok {
				if id, ok := call.Fun.(*ast.Ident); ok && c.t.mayErr[id.Name] {
					needDo(s)
					return fmt.Sprintf("%slet %s ← %s\n", I, names[0], c.callText(call))
				}
			}
			if dv, ok := c.divText(s.Rhs[0]); ok {
				needDo(s)
				return fmt.Sprintf("%slet %s ← %s\n", I, names[0], dv)
			}
			return fmt.Sprintf("%slet %s := %s\n", I, names[0], c.expr(s.Rhs[0]))
		}
		var es []string
		for _, e := range s.Rhs {
			if c.t.nodeMayErr(e) {
				c.t.fail(e, "parallel assignment of an operation that may panic")
			}
			es = append(es, c.expr(e))
		}
		return fmt.Sprintf("%slet (%s) := (%s)\n", I, strings.Join(names, ", "), strings.Join(es, ", "))
	default:
		op, ok := opAssign[s.Tok]
		if !ok || len(s.Lhs) != 1 || len(s.Rhs) != 1 {
			c.t.fail(s, "unsupported assignment %s", s.Tok)
		}
		be := &ast.BinaryExpr{X: s.Lhs[0], Op: op, Y: s.Rhs[0], OpPos: s.TokPos}
		if op == token.QUO || op == token.REM {
			needDo(s)
			dv, _ := c.divText(be)
			return fmt.Sprintf("%slet %s ← %s\n", I, names[0], dv)
		}
		return fmt.Sprintf("%slet %s := %s\n", I, names[0], c.expr(be))
	}
}

// ---------------------------------------------------------------- expressions

func (c *f2) typeOfExpr(e ast.Expr) ity2 {
	tv, ok := c.t.info.Types[e]
	if !ok {
		if be, isB := e.(*ast.BinaryExpr); isB { // synthesised `x op= y`
			return c.typeOfExpr(be.X)
		}
		if p, isP := e.(*ast.ParenExpr); isP {
			return c.typeOfExpr(p.X)
		}
		c.t.fail(e, "expression without type information")
	}
	return c.t.tyOf(e, tv.Type)
}

func (c *f2) expr(e ast.Expr) string {
	tv, ok := c.t.info.Types[e]
	if ok && tv.Value != nil {
		switch tv.Value.Kind() {
		case constant.Bool:
			if constant.BoolVal(tv.Value) {
				return "true"
			}
			return "false"
		case constant.Int:
			return c.t.lit2(e, c.t.tyOf(e, tv.Type), tv.Value)
		}
		c.t.fail(e, "unsupported constant kind %s", tv.Value.Kind())
	}
	switch e := e.(type) {
	case *ast.ParenExpr:
		return c.expr(e.X)
	case *ast.Ident:
		switch obj := c.t.info.Uses[e].(type) {
		case *types.Var:
			if obj.Parent() == obj.Pkg().Scope() {
				c.t.fail(e, "package-level variable %s", e.Name)
			}
			return lid2(e.Name)
		case nil:
			if _, isDef := c.t.info.Defs[e].(*types.Var); isDef {
				return lid2(e.Name)
			}
		}
		c.t.fail(e, "unsupported identifier %s", e.Name)
	case *ast.UnaryExpr:
		x := c.expr(e.X)
		switch e.Op {
		case token.NOT:
			return "(!" + x + ")"
		case token.SUB:
			return "(-" + x + ")"
		case token.XOR:
			return "(~~~" + x + ")"
		case token.ADD:
			return x
		}
		c.t.fail(e, "unsupported unary %s", e.Op)
	case *ast.BinaryExpr:
		switch e.Op {
		case token.LAND, token.LOR:
			if c.t.nodeMayErr(e.X) || c.t.nodeMayErr(e.Y) {
				c.t.fail(e, "short-circuit operand that may panic")
			}
			op := " && "
			if e.Op == token.LOR {
				op = " || "
			}
			return "(" + c.expr(e.X) + op + c.expr(e.Y) + ")"
		case token.EQL:
			return "(" + c.expr(e.X) + " == " + c.expr(e.Y) + ")"
		case token.NEQ:
			return "(" + c.expr(e.X) + " != " + c.expr(e.Y) + ")"
		}
		xt := c.typeOfExpr(e.X)
		if xt.bool {
			c.t.fail(e, "operator %s on bool", e.Op)
		}
		switch e.Op {
		case token.SHL, token.SHR:
			x := c.expr(e.X)
			var n string
			if ytv, ok := c.t.info.Types[e.Y]; ok && ytv.Value != nil {
				if ytv.Value.Kind() != constant.Int || constant.Sign(ytv.Value) < 0 {
					c.t.fail(e.Y, "bad constant shift count")
				}
				n = ytv.Value.ExactString()
			} else {
				yt := c.typeOfExpr(e.Y)
				if yt.bool || yt.sg {
					c.t.fail(e.Y, "non-constant shift count of a signed type (would need Go's negative-shift panic)")
				}
				n = "(" + c.expr(e.Y) + ").toNat"
			}
			switch {
			case e.Op == token.SHL:
				return "(" + x + " <<< " + n + ")"
			case xt.sg:
				return "(BitVec.sshiftRight " + x + " " + n + ")"
			default:
				return "(" + x + " >>> " + n + ")"
			}
		}
		x, y := c.expr(e.X), c.expr(e.Y)
		switch e.Op {
		case token.LSS, token.GTR, token.LEQ, token.GEQ:
			strict := e.Op == token.LSS || e.Op == token.GTR
			if e.Op == token.GTR || e.Op == token.GEQ {
				x, y = y, x
			}
			f := map[[2]bool]string{{false, true}: "BitVec.ult", {false, false}: "BitVec.ule", {true, true}: "BitVec.slt", {true, false}: "BitVec.sle"}[[2]bool{xt.sg, strict}]
			return fmt.Sprintf("(%s %s %s)", f, x, y)
		case token.ADD:
			return "(" + x + " + " + y + ")"
		case token.SUB:
			return "(" + x + " - " + y + ")"
		case token.MUL:
			return "(" + x + " * " + y + ")"
		case token.AND:
			return "(" + x + " &&& " + y + ")"
		case token.OR:
			return "(" + x + " ||| " + y + ")"
		case token.XOR:
			return "(" + x + " ^^^ " + y + ")"
		case token.AND_NOT:
			return "(" + x + " &&& ~~~" + y + ")"
		case token.QUO, token.REM:
			c.t.fail(e, "division is only supported as the whole right-hand side of an assignment")
		}
		c.t.fail(e, "unsupported binary %s", e.Op)
	case *ast.CallExpr:
		if ftv, ok := c.t.info.Types[e.Fun]; ok && ftv.IsType() {
			if len(e.Args) != 1 {
				c.t.fail(e, "conversion arity")
			}
			to := c.t.tyOf(e, ftv.Type)
			from := c.typeOfExpr(e.Args[0])
			if to.bool || from.bool {
				c.t.fail(e, "unsupported conversion")
			}
			x := c.expr(e.Args[0])
			switch {
			case to.w == from.w:
				return x // same width: same bits
			case to.w > from.w && from.sg:
				return fmt.Sprintf("(BitVec.signExtend %d %s)", to.w, x)
			default:
				return fmt.Sprintf("(BitVec.setWidth %d %s)", to.w, x)
			}
		}
		id, ok := e.Fun.(*ast.Ident)
		if !ok || c.t.funcs[id.Name] == nil {
			c.t.fail(e, "call to a function outside the translated set")
		}
		if c.t.mayErr[id.Name] {
			if !c.inDo {
				c.t.fail(e, "call of %s (may panic) in a pure position", id.Name)
			}
			return "(← " + c.callText(e) + ")"
		}
		return "(" + c.callText(e) + ")"
	}
	c.t.fail(e, "unsupported expression %T", e)
	return ""
}

// ---------------------------------------------------------------- copysrc

// copysrc: print a Go source file with only its package clause rewritten, so a
// harness can compile the CURRENT source of an `internal` package.
func init() { register("copysrc", copysrcMain) }

func copysrcMain(args []string) error {
	fs := flag.NewFlagSet("copysrc", flag.ContinueOnError)
	repo := fs.String("repo", "/repo", "")
	file := fs.String("file", "", "file relative to repo")
	pkg := fs.String("pkg", "", "new package name")
	if err := fs.Parse(args); err != nil {
		return err
	}
	if *file == "" || *pkg == "" {
		return fmt.Errorf("need --file and --pkg")
	}
	path := filepath.Join(*repo, *file)
	src, err := os.ReadFile(path)
	if err != nil {
		return err
	}
	fset := token.NewFileSet()
	f, err := parser.ParseFile(fset, path, src, parser.PackageClauseOnly)
	if err != nil {
		return err
	}
	a, b := fset.Position(f.Name.Pos()).Offset, fset.Position(f.Name.End()).Offset
	fmt.Printf("// Code generated by `gvx copysrc` from %s (package clause rewritten only); DO NOT EDIT.\n\n", *file)
	os.Stdout.Write(src[:a])
	os.Stdout.WriteString(*pkg)
	os.Stdout.Write(src[b:])
	return nil
}
