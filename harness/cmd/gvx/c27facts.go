package main

// gvx facts-c27-writes --repo R --paths <p1,p2,...> [--skip-recv r1,r2]
//
// F tie for C27 (write-site census).  For every non-test Go file under the
// given paths (a path is a .go file or a directory, not recursive) it lists
// every call whose method name is one of the database-write / batch-flush
// verbs
//
//	Set SetSync Delete DeleteSync Write WriteSync Drain NewBatch NewBatchWithSize
//
// as   <file> <enclosing func> <receiver expression>.<verb>   one line per call
// site, in source order (calls whose receiver expression is listed in
// --skip-recv, e.g. the io.Writer `w` / hash `h` of the node serialisers, are
// left out).  The committed expectation is the set of write sites
// the C27 model was written against: a new site that writes to the database
// outside the collector (e.g. `ms.db.SetSync(...)` in rootmulti, or
// `ndb.db.Set(...)` in bptree) changes this text and breaks the tie.
//
// Standard library only.

import (
	"bytes"
	"flag"
	"fmt"
	"go/ast"
	"go/parser"
	"go/printer"
	"go/token"
	"os"
	"path/filepath"
	"sort"
	"strings"
)

func init() { register("facts-c27-writes", c27fWritesMain) }

var c27fVerbs = map[string]bool{
	"Set": true, "SetSync": true, "Delete": true, "DeleteSync": true,
	"Write": true, "WriteSync": true, "Drain": true, "NewBatch": true, "NewBatchWithSize": true,
}

func c27fExpr(fset *token.FileSet, e ast.Expr) string {
	var buf bytes.Buffer
	printer.Fprint(&buf, fset, e)
	s := strings.Join(strings.Fields(buf.String()), " ")
	if len(s) > 80 {
		s = s[:80] + "…"
	}
	return s
}

func c27fFile(repo, rel string, skip map[string]bool, out *bytes.Buffer) error {
	fset := token.NewFileSet()
	f, err := parser.ParseFile(fset, filepath.Join(repo, rel), nil, 0)
	if err != nil {
		return err
	}
	for _, d := range f.Decls {
		fd, ok := d.(*ast.FuncDecl)
		if !ok || fd.Body == nil {
			continue
		}
		name := recvString(fd) + fd.Name.Name
		ast.Inspect(fd.Body, func(n ast.Node) bool {
			call, ok := n.(*ast.CallExpr)
			if !ok {
				return true
			}
			sel, ok := call.Fun.(*ast.SelectorExpr)
			if !ok || !c27fVerbs[sel.Sel.Name] {
				return true
			}
			recv := c27fExpr(fset, sel.X)
			if skip[recv] {
				return true
			}
			fmt.Fprintf(out, "%s %s %s.%s/%d\n", rel, name, recv, sel.Sel.Name, len(call.Args))
			return true
		})
	}
	return nil
}

func c27fWritesMain(args []string) error {
	fs := flag.NewFlagSet("facts-c27-writes", flag.ContinueOnError)
	repo := fs.String("repo", "/repo", "")
	paths := fs.String("paths", "", "")
	skipRecv := fs.String("skip-recv", "", "")
	if err := fs.Parse(args); err != nil {
		return err
	}
	if *paths == "" {
		return fmt.Errorf("need --paths")
	}
	var out bytes.Buffer
	skip := map[string]bool{}
	for _, r := range strings.Split(*skipRecv, ",") {
		if r != "" {
			skip[r] = true
		}
	}
	for _, p := range strings.Split(*paths, ",") {
		full := filepath.Join(*repo, p)
		st, err := os.Stat(full)
		if err != nil {
			return err
		}
		var files []string
		if st.IsDir() {
			ents, err := os.ReadDir(full)
			if err != nil {
				return err
			}
			for _, e := range ents {
				n := e.Name()
				if e.IsDir() || !strings.HasSuffix(n, ".go") || strings.HasSuffix(n, "_test.go") {
					continue
				}
				files = append(files, filepath.Join(p, n))
			}
			sort.Strings(files)
		} else {
			files = []string{p}
		}
		fmt.Fprintf(&out, "== %s\n", p)
		for _, rel := range files {
			if err := c27fFile(*repo, rel, skip, &out); err != nil {
				return err
			}
		}
	}
	os.Stdout.Write(out.Bytes())
	return nil
}
