package main

// gvx facts-maprange --repo R [--expect <file relative to the verif root>] [--pkgs a,b/...]
//
// F tie for C01 (chain replay is deterministic): lists every place in the
// consensus-path packages where Go's randomised map order can enter the
// computation:
//
//	range   a `for … := range X` statement whose X has a map type (go/types)
//	call    a call of maps.Keys / maps.Values / maps.All (std or x/exp), of
//	        reflect's Value.MapKeys / Value.MapRange, or of (*sync.Map).Range
//
// one line per site:
//
//	<file>:<func> range <X> <map type> body#<hash> then=<first sort call after the loop, or ->  |  <class>  |  <reason>
//
// `body#` is a hash of the gofmt-printed loop body (comments dropped), so an
// edited loop is a new fact; line numbers are deliberately not part of a fact.
// Class and reason are NOT computed: they are read from the committed expectation
// (--expect), keyed by the fact text; a site that is not in the expectation is
// printed with class UNCLASSIFIED, which makes the output differ from the
// expectation — a new or changed map range is a broken tie until a human has read
// the loop and classified it.
//
// Standard library only (go/parser + go/types with a small source importer that
// maps import paths to directories itself: /repo, GOROOT/src, the module cache
// via /repo/go.mod — no `go list`, nothing is written anywhere).

import (
	"bytes"
	"crypto/sha256"
	"flag"
	"fmt"
	"go/ast"
	"go/build"
	"go/parser"
	"go/printer"
	"go/token"
	"go/types"
	"os"
	"os/exec"
	"path/filepath"
	"regexp"
	"runtime"
	"sort"
	"strings"
	"sync"
	"time"
	"unicode"
)

func init() { register("facts-maprange", c01mrMain) }

var c01mrDefaultPkgs = []string{
	"tm2/pkg/sdk/...",
	"tm2/pkg/store/...",
	"tm2/pkg/bft/state",
	"tm2/pkg/bft/types",
	"gno.land/pkg/sdk/vm",
	"gno.land/pkg/gnoland",
	"gnovm/pkg/gnolang",
	"gnovm/pkg/gnolang/internal/txlog",
	"gnovm/stdlibs/...",
}

const c01mrModule = "github.com/gnolang/gno"

type c01mrMod struct{ path, dir string }

type c01mrImporter struct {
	fset     *token.FileSet
	repo     string
	goroot   string
	mods     []c01mrMod // longest path first
	ctxt     build.Context
	pkgs     map[string]*types.Package
	parsed   map[string][]*ast.File // dir -> files (pre-parsed in parallel for the targets)
	inFlight map[string]bool
}

func c01mrEscape(p string) string {
	var b strings.Builder
	for _, r := range p {
		if unicode.IsUpper(r) {
			b.WriteByte('!')
			b.WriteRune(unicode.ToLower(r))
		} else {
			b.WriteRune(r)
		}
	}
	return b.String()
}

func c01mrGoroot(repo string) string {
	ok := func(d string) bool {
		st, err := os.Stat(filepath.Join(d, "src", "fmt", "print.go"))
		return d != "" && err == nil && !st.IsDir()
	}
	if d := runtime.GOROOT(); ok(d) {
		return d
	}
	if d := os.Getenv("GOROOT"); ok(d) {
		return d
	}
	cmd := exec.Command("go", "env", "GOROOT")
	cmd.Dir = repo
	if out, err := cmd.Output(); err == nil {
		if d := strings.TrimSpace(string(out)); ok(d) {
			return d
		}
	}
	return build.Default.GOROOT
}

func c01mrModCache() string {
	if d := os.Getenv("GOMODCACHE"); d != "" {
		return d
	}
	gp := os.Getenv("GOPATH")
	if gp == "" {
		home, _ := os.UserHomeDir()
		gp = filepath.Join(home, "go")
	}
	return filepath.Join(strings.Split(gp, string(os.PathListSeparator))[0], "pkg", "mod")
}

var c01mrReqRe = regexp.MustCompile(`(?m)^\s*(?:require\s+)?([^\s()]+)\s+(v[^\s]+)(?:\s*//.*)?$`)

func c01mrNewImporter(repo string) (*c01mrImporter, error) {
	im := &c01mrImporter{fset: token.NewFileSet(), repo: repo, pkgs: map[string]*types.Package{},
		parsed: map[string][]*ast.File{}, inFlight: map[string]bool{}}
	im.goroot = c01mrGoroot(repo)
	im.ctxt = build.Default
	im.ctxt.GOROOT = im.goroot
	im.ctxt.CgoEnabled = false
	im.ctxt.GOOS, im.ctxt.GOARCH = "linux", "amd64"
	im.ctxt.BuildTags = nil
	gomod, err := os.ReadFile(filepath.Join(repo, "go.mod"))
	if err != nil {
		return nil, err
	}
	mc := c01mrModCache()
	for _, m := range c01mrReqRe.FindAllStringSubmatch(string(gomod), -1) {
		if m[1] == "go" || m[1] == "module" || m[1] == "toolchain" {
			continue
		}
		im.mods = append(im.mods, c01mrMod{m[1], filepath.Join(mc, c01mrEscape(m[1])+"@"+m[2])})
	}
	sort.Slice(im.mods, func(i, j int) bool { return len(im.mods[i].path) > len(im.mods[j].path) })
	return im, nil
}

func (im *c01mrImporter) dirOf(path string) string {
	if path == c01mrModule || strings.HasPrefix(path, c01mrModule+"/") {
		return filepath.Join(im.repo, strings.TrimPrefix(strings.TrimPrefix(path, c01mrModule), "/"))
	}
	first := path
	if i := strings.IndexByte(path, '/'); i >= 0 {
		first = path[:i]
	}
	if !strings.Contains(first, ".") {
		return filepath.Join(im.goroot, "src", path)
	}
	for _, m := range im.mods {
		if path == m.path || strings.HasPrefix(path, m.path+"/") {
			return filepath.Join(m.dir, strings.TrimPrefix(strings.TrimPrefix(path, m.path), "/"))
		}
	}
	return filepath.Join(im.goroot, "src", "vendor", path) // golang.org/x/... vendored into the standard library
}

func c01mrThirdParty(path string) bool {
	if path == c01mrModule || strings.HasPrefix(path, c01mrModule+"/") {
		return false
	}
	first := path
	if i := strings.IndexByte(path, '/'); i >= 0 {
		first = path[:i]
	}
	return strings.Contains(first, ".")
}

var c01mrVersionRe = regexp.MustCompile(`^v[0-9]+$`)

// c01mrBaseName guesses the package name of an import path (…/foo/v2 → foo, gopkg.in/yaml.v3 → yaml).
func c01mrBaseName(path string) string {
	parts := strings.Split(path, "/")
	n := parts[len(parts)-1]
	if c01mrVersionRe.MatchString(n) && len(parts) > 1 {
		n = parts[len(parts)-2]
	}
	if i := strings.IndexByte(n, '.'); i > 0 {
		n = n[:i]
	}
	return strings.ReplaceAll(strings.TrimPrefix(n, "go-"), "-", "_")
}

// preparse parses, in parallel, the transitive import closure of the given import
// paths (third-party modules excluded); the type checker then runs sequentially on
// the parsed files.
func (im *c01mrImporter) preparse(roots []string) {
	var mu sync.Mutex
	var wg sync.WaitGroup
	seen := map[string]bool{}
	sem := make(chan struct{}, 16)
	var visit func(path string)
	visit = func(path string) {
		if path == "unsafe" || path == "C" || c01mrThirdParty(path) {
			return
		}
		mu.Lock()
		if seen[path] {
			mu.Unlock()
			return
		}
		seen[path] = true
		mu.Unlock()
		wg.Add(1)
		go func() {
			defer wg.Done()
			sem <- struct{}{}
			dir := im.dirOf(path)
			bp, _ := im.ctxt.ImportDir(dir, 0)
			var files []*ast.File
			if bp != nil {
				for _, name := range bp.GoFiles {
					f, err := parser.ParseFile(im.fset, filepath.Join(dir, name), nil, parser.SkipObjectResolution)
					if err != nil {
						files = nil
						break
					}
					files = append(files, f)
				}
			}
			<-sem
			mu.Lock()
			im.parsed[dir] = files
			mu.Unlock()
			for _, f := range files {
				for _, is := range f.Imports {
					visit(strings.Trim(is.Path.Value, "\"`"))
				}
			}
		}()
	}
	for _, r := range roots {
		visit(r)
	}
	wg.Wait()
}

func (im *c01mrImporter) parseDir(dir string) ([]*ast.File, error) {
	if fs, ok := im.parsed[dir]; ok {
		return fs, nil
	}
	bp, err := im.ctxt.ImportDir(dir, 0)
	if err != nil {
		if _, ok := err.(*build.NoGoError); !ok && bp == nil {
			return nil, err
		}
	}
	var files []*ast.File
	t0 := time.Now()
	for _, name := range bp.GoFiles {
		f, err := parser.ParseFile(im.fset, filepath.Join(dir, name), nil, parser.SkipObjectResolution)
		if err != nil {
			return nil, err
		}
		files = append(files, f)
	}
	c01mrParseTime += time.Since(t0)
	im.parsed[dir] = files
	return files, nil
}

func (im *c01mrImporter) Import(path string) (*types.Package, error) {
	return im.ImportFrom(path, "", 0)
}

func (im *c01mrImporter) ImportFrom(path, _ string, _ types.ImportMode) (*types.Package, error) {
	if path == "unsafe" {
		return types.Unsafe, nil
	}
	if p, ok := im.pkgs[path]; ok {
		return p, nil
	}
	if c01mrThirdParty(path) {
		// third-party modules are not loaded (two thirds of the transitive closure,
		// none of it on the consensus path): their identifiers stay untyped in the
		// target packages, and a range over an expression of such a type is
		// reported as UNTYPED instead of being skipped
		p := types.NewPackage(path, c01mrBaseName(path))
		p.MarkComplete()
		im.pkgs[path] = p
		return p, nil
	}
	if im.inFlight[path] {
		return nil, fmt.Errorf("import cycle through %s", path)
	}
	im.inFlight[path] = true
	defer delete(im.inFlight, path)
	dir := im.dirOf(path)
	files, err := im.parseDir(dir)
	if err != nil || len(files) == 0 {
		// an unresolvable dependency must not stop the extraction: the target
		// packages are checked with errors tolerated, a map type that cannot be
		// resolved is reported by the caller
		p := types.NewPackage(path, filepath.Base(path))
		p.MarkComplete()
		im.pkgs[path] = p
		return p, nil
	}
	conf := types.Config{Importer: im, IgnoreFuncBodies: true, FakeImportC: true, Error: func(error) {}}
	t0 := time.Now()
	p, _ := conf.Check(path, im.fset, files, nil)
	if os.Getenv("C01MR_PROF") != "" {
		fmt.Fprintf(os.Stderr, "check %-60s %v\n", path, time.Since(t0))
	}
	if p == nil {
		p = types.NewPackage(path, filepath.Base(path))
	}
	im.pkgs[path] = p
	return p, nil
}

// c01mrTargets expands the package patterns into directories (relative to repo).
func c01mrTargets(repo string, pats []string) ([]string, error) {
	seen := map[string]bool{}
	var out []string
	add := func(rel string) {
		if !seen[rel] {
			seen[rel] = true
			out = append(out, rel)
		}
	}
	for _, p := range pats {
		if !strings.HasSuffix(p, "/...") {
			add(p)
			continue
		}
		root := filepath.Join(repo, strings.TrimSuffix(p, "/..."))
		err := filepath.WalkDir(root, func(path string, d os.DirEntry, err error) error {
			if err != nil {
				return err
			}
			if !d.IsDir() {
				return nil
			}
			n := d.Name()
			if path != root && (n == "testdata" || strings.HasPrefix(n, "_") || strings.HasPrefix(n, ".")) {
				return filepath.SkipDir
			}
			ents, _ := os.ReadDir(path)
			for _, e := range ents {
				if !e.IsDir() && strings.HasSuffix(e.Name(), ".go") && !strings.HasSuffix(e.Name(), "_test.go") {
					rel, _ := filepath.Rel(repo, path)
					add(filepath.ToSlash(rel))
					break
				}
			}
			return nil
		})
		if err != nil {
			return nil, err
		}
	}
	sort.Strings(out)
	return out, nil
}

func c01mrPrint(fset *token.FileSet, n ast.Node) string {
	var buf bytes.Buffer
	cfg := printer.Config{Mode: printer.UseSpaces | printer.TabIndent, Tabwidth: 8}
	cfg.Fprint(&buf, fset, n)
	return strings.Join(strings.Fields(buf.String()), " ")
}

func c01mrHash(s string) string {
	h := sha256.Sum256([]byte(s))
	return fmt.Sprintf("%x", h[:4])
}

func c01mrFuncName(fd *ast.FuncDecl) string {
	if fd.Recv != nil && len(fd.Recv.List) > 0 {
		t := fd.Recv.List[0].Type
		star := ""
		if s, ok := t.(*ast.StarExpr); ok {
			t, star = s.X, "*"
		}
		if ix, ok := t.(*ast.IndexExpr); ok {
			t = ix.X
		}
		if ix, ok := t.(*ast.IndexListExpr); ok {
			t = ix.X
		}
		if id, ok := t.(*ast.Ident); ok {
			return "(" + star + id.Name + ")." + fd.Name.Name
		}
	}
	return fd.Name.Name
}

// a sort call: sort.X, slices.Sort*, or any function / method whose name starts with Sort or sort
var c01mrSortRe = regexp.MustCompile(`^(sort\.\w+|slices\.Sort\w*|(.*\.)?[Ss]ort\w*)$`)

// c01mrFirstSortAfter: the first call to a sort function textually after pos in
// the enclosing function (printed), or "-".
func c01mrFirstSortAfter(fset *token.FileSet, fn ast.Node, after token.Pos) string {
	res := "-"
	ast.Inspect(fn, func(n ast.Node) bool {
		if res != "-" || n == nil {
			return false
		}
		ce, ok := n.(*ast.CallExpr)
		if !ok || ce.Pos() < after {
			return true
		}
		if c01mrSortRe.MatchString(c01mrPrint(fset, ce.Fun)) {
			s := c01mrPrint(fset, ce)
			if len(s) > 60 {
				s = s[:60] + "…"
			}
			res = strings.ReplaceAll(s, " ", "")
		}
		return true
	})
	return res
}

var c01mrParseTime time.Duration

// c01mrWrappers: the callees of the calls that directly enclose `inner` as an
// argument, innermost first (slices.Sorted(maps.Keys(m)) → "slices.Sorted").
func c01mrWrappers(fset *token.FileSet, fn ast.Node, inner *ast.CallExpr) string {
	var stack []ast.Node
	res := "-"
	ast.Inspect(fn, func(n ast.Node) bool {
		if n == nil {
			stack = stack[:len(stack)-1]
			return true
		}
		if n == ast.Node(inner) {
			var ws []string
			for i := len(stack) - 1; i >= 0; i-- {
				ce, ok := stack[i].(*ast.CallExpr)
				if !ok {
					break
				}
				ws = append(ws, strings.ReplaceAll(c01mrPrint(fset, ce.Fun), " ", ""))
			}
			if len(ws) > 0 {
				res = strings.Join(ws, "<")
			}
		}
		stack = append(stack, n)
		return true
	})
	return res
}

func c01mrScan(im *c01mrImporter, rel string) ([]string, error) {
	dir := filepath.Join(im.repo, rel)
	files, err := im.parseDir(dir)
	if err != nil {
		return nil, fmt.Errorf("%s: %v", rel, err)
	}
	if len(files) == 0 {
		return nil, nil
	}
	info := &types.Info{Types: map[ast.Expr]types.TypeAndValue{}, Uses: map[*ast.Ident]types.Object{}, Selections: map[*ast.SelectorExpr]*types.Selection{}}
	var firstErr error
	conf := types.Config{Importer: im, FakeImportC: true, Error: func(e error) {
		if firstErr == nil {
			firstErr = e
		}
		if os.Getenv("C01MR_ERRS") != "" {
			fmt.Fprintf(os.Stderr, "typeerr %v\n", e)
		}
	}}
	path := c01mrModule + "/" + rel
	pkg, _ := conf.Check(path, im.fset, files, info)
	if pkg != nil {
		if _, ok := im.pkgs[path]; !ok {
			im.pkgs[path] = pkg
		}
	}
	var facts []string
	qual := func(p *types.Package) string {
		if p == pkg {
			return ""
		}
		return p.Name()
	}
	for _, f := range files {
		fname := filepath.ToSlash(filepath.Join(rel, filepath.Base(im.fset.Position(f.Pos()).Filename)))
		var walk func(n ast.Node, fn string, fnNode ast.Node)
		emit := func(fn string, s string) {
			facts = append(facts, fname+":"+fn+" "+s)
		}
		walk = func(root ast.Node, fn string, fnNode ast.Node) {
			ast.Inspect(root, func(n ast.Node) bool {
				switch x := n.(type) {
				case *ast.FuncDecl:
					if x != root {
						if x.Body != nil {
							walk(x.Body, c01mrFuncName(x), x)
						}
						return false
					}
				case *ast.RangeStmt:
					tv, ok := info.Types[x.X]
					if b, isBasic := tv.Type.(*types.Basic); !ok || tv.Type == nil || (isBasic && b.Kind() == types.Invalid) {
						// the checker could not type the expression: report it rather than skip it
						emit(fn, "range "+c01mrPrint(im.fset, x.X)+" UNTYPED body#"+c01mrHash(c01mrPrint(im.fset, x.Body)))
						return true
					}
					if sig, isFunc := tv.Type.Underlying().(*types.Signature); isFunc {
						// range-over-func: the iterator may wrap a map (txlog.Map.Iterate, maps.All, …)
						emit(fn, fmt.Sprintf("rangefunc %s %s body#%s then=%s",
							strings.ReplaceAll(c01mrPrint(im.fset, x.X), " ", ""),
							strings.ReplaceAll(types.TypeString(sig, qual), " ", ""), c01mrHash(c01mrPrint(im.fset, x.Body)),
							c01mrFirstSortAfter(im.fset, fnNode, x.End())))
						return true
					}
					if _, isMap := tv.Type.Underlying().(*types.Map); isMap {
						kv := "_"
						if x.Key != nil {
							kv = c01mrPrint(im.fset, x.Key)
						}
						if x.Value != nil {
							kv += "," + c01mrPrint(im.fset, x.Value)
						}
						emit(fn, fmt.Sprintf("range %s %s vars=%s body#%s then=%s",
							strings.ReplaceAll(c01mrPrint(im.fset, x.X), " ", ""),
							strings.ReplaceAll(types.TypeString(tv.Type, qual), " ", ""),
							strings.ReplaceAll(kv, " ", ""), c01mrHash(c01mrPrint(im.fset, x.Body)),
							c01mrFirstSortAfter(im.fset, fnNode, x.End())))
					}
				case *ast.CallExpr:
					sel, ok := x.Fun.(*ast.SelectorExpr)
					if !ok {
						return true
					}
					name := sel.Sel.Name
					// package-level: maps.Keys / maps.Values / maps.All
					if id, ok := sel.X.(*ast.Ident); ok {
						if pn, ok := info.Uses[id].(*types.PkgName); ok {
							ip := pn.Imported().Path()
							if (ip == "maps" || ip == "golang.org/x/exp/maps") && (name == "Keys" || name == "Values" || name == "All") {
								emit(fn, fmt.Sprintf("call %s.%s(%s) wrap=%s in#%s then=%s", ip, name,
									strings.ReplaceAll(c01mrPrint(im.fset, x.Args[0]), " ", ""), c01mrWrappers(im.fset, fnNode, x),
									c01mrHash(c01mrPrint(im.fset, fnNode)), c01mrFirstSortAfter(im.fset, fnNode, x.End())))
							}
							return true
						}
					}
					// methods: reflect.Value.MapKeys/MapRange, (*sync.Map).Range
					if s, ok := info.Selections[sel]; ok && s.Kind() == types.MethodVal {
						recv := types.TypeString(s.Recv(), nil)
						if (strings.HasSuffix(recv, "reflect.Value") && (name == "MapKeys" || name == "MapRange")) ||
							(strings.HasSuffix(recv, "sync.Map") && name == "Range") {
							emit(fn, fmt.Sprintf("call (%s).%s on %s in#%s then=%s", recv, name,
								strings.ReplaceAll(c01mrPrint(im.fset, sel.X), " ", ""), c01mrHash(c01mrPrint(im.fset, fnNode)),
								c01mrFirstSortAfter(im.fset, fnNode, x.Pos())))
						}
					}
				}
				return true
			})
		}
		walk(f, "<file>", f)
	}
	if firstErr != nil && os.Getenv("C01MR_PROF") != "" {
		fmt.Fprintf(os.Stderr, "typecheck %s: first error: %v\n", rel, firstErr)
	}
	return facts, nil
}

func c01mrMain(args []string) error {
	fs := flag.NewFlagSet("facts-maprange", flag.ContinueOnError)
	repo := fs.String("repo", "/repo", "")
	expect := fs.String("expect", "", "committed expectation to take class and reason from (relative to the verif root)")
	pkgs := fs.String("pkgs", "", "comma-separated package patterns relative to the repo (default: the consensus path)")
	if err := fs.Parse(args); err != nil {
		return err
	}
	pats := c01mrDefaultPkgs
	if *pkgs != "" {
		pats = strings.Split(*pkgs, ",")
	}
	// classes from the expectation
	classes := map[string]string{}
	if *expect != "" {
		p := *expect
		if !filepath.IsAbs(p) {
			exe, err := os.Executable()
			if err != nil {
				return err
			}
			p = filepath.Join(filepath.Dir(filepath.Dir(exe)), p)
		}
		if bz, err := os.ReadFile(p); err == nil {
			for _, l := range strings.Split(string(bz), "\n") {
				if i := strings.Index(l, "  |  "); i > 0 {
					classes[l[:i]] = l[i:]
				}
			}
		}
	}
	im, err := c01mrNewImporter(*repo)
	if err != nil {
		return err
	}
	targets, err := c01mrTargets(*repo, pats)
	if err != nil {
		return err
	}
	roots := make([]string, len(targets))
	for i, rel := range targets {
		roots[i] = c01mrModule + "/" + rel
	}
	im.preparse(roots)
	var all []string
	for _, rel := range targets {
		facts, err := c01mrScan(im, rel)
		if err != nil {
			return err
		}
		all = append(all, facts...)
	}
	if os.Getenv("C01MR_PROF") != "" {
		fmt.Fprintf(os.Stderr, "parse time (deps) %v, packages %d\n", c01mrParseTime, len(im.pkgs))
	}
	// occurrence index for textually identical facts (same function, same loop text)
	count := map[string]int{}
	var out bytes.Buffer
	fmt.Fprintf(&out, "# map-order entry points in: %s\n", strings.Join(pats, " "))
	fmt.Fprintf(&out, "# classes: sorted-afterwards | order-insensitive | not-a-map | outside-replay | test-or-debug-only | SUSPECT | UNCLASSIFIED\n")
	lines := make([]string, 0, len(all))
	for _, f := range all {
		count[f]++
		if count[f] > 1 {
			f = fmt.Sprintf("%s #%d", f, count[f])
		}
		cl, ok := classes[f]
		if !ok {
			cl = "  |  UNCLASSIFIED  |  not in the committed expectation: read the loop and classify it"
		}
		lines = append(lines, f+cl)
	}
	sort.Strings(lines)
	for _, l := range lines {
		out.WriteString(l)
		out.WriteByte('\n')
	}
	_, err = os.Stdout.Write(out.Bytes())
	return err
}
