// gvx facts-source: print the (comment-free, gofmt-normalised) source text of named
// top-level declarations of one Go file, in the order requested.  Used by C18 to pin
// the exact functions / regexps / constants of tm2/pkg/std/coin.go the hand-written
// Lean model mirrors: any edit of one of them is a broken tie (DESIGN §3 F, §4).
//
//	gvx facts-source --repo R --file <rel.go> --decls A,B.m,C     (B.m = method m of receiver type B)
package main

import (
	"bytes"
	"flag"
	"fmt"
	"go/ast"
	"go/parser"
	"go/printer"
	"go/token"
	"path/filepath"
	"strings"
)

func init() { register("facts-source", factsSourceMain) }

func c18RecvName(fd *ast.FuncDecl) string {
	if fd.Recv == nil || len(fd.Recv.List) == 0 {
		return ""
	}
	t := fd.Recv.List[0].Type
	if s, ok := t.(*ast.StarExpr); ok {
		t = s.X
	}
	if id, ok := t.(*ast.Ident); ok {
		return id.Name
	}
	return ""
}

func factsSourceMain(args []string) error {
	fs := flag.NewFlagSet("facts-source", flag.ContinueOnError)
	repo := fs.String("repo", "/repo", "")
	file := fs.String("file", "", "")
	decls := fs.String("decls", "", "")
	if err := fs.Parse(args); err != nil {
		return err
	}
	fset := token.NewFileSet()
	// no parser.ParseComments: comments are not part of the fact
	f, err := parser.ParseFile(fset, filepath.Join(*repo, *file), nil, 0)
	if err != nil {
		return err
	}
	found := map[string]string{}
	show := func(n any) string {
		var b bytes.Buffer
		(&printer.Config{Mode: printer.UseSpaces | printer.TabIndent, Tabwidth: 8}).Fprint(&b, token.NewFileSet(), n)
		return b.String()
	}
	for _, d := range f.Decls {
		switch x := d.(type) {
		case *ast.FuncDecl:
			name := x.Name.Name
			if r := c18RecvName(x); r != "" {
				name = r + "." + name
			}
			found[name] = show(x)
		case *ast.GenDecl:
			for _, sp := range x.Specs {
				switch s := sp.(type) {
				case *ast.ValueSpec:
					for i, n := range s.Names {
						if i < len(s.Values) {
							found[n.Name] = n.Name + " = " + show(s.Values[i])
						} else {
							found[n.Name] = n.Name
						}
					}
				case *ast.TypeSpec:
					found[s.Name.Name] = "type " + show(s)
				}
			}
		}
	}
	for _, want := range strings.Split(*decls, ",") {
		src, ok := found[want]
		if !ok {
			return fmt.Errorf("declaration %s not found in %s", want, *file)
		}
		fmt.Printf("=== %s\n%s\n", want, src)
	}
	return nil
}
