package main

// gvx c32-applysites --repo R [--root tm2]
//
// F tie for C32's clause "every block a node applies, whether decided by consensus
// or obtained through block sync, passes block validation".  A go/ast walk over
// every non-test .go file under --root prints, one fact per line, sorted:
//
//	apply-def   <file> <func> params=(…) first=<first statement, one line>
//	            every method/function NAMED ApplyBlock, with its first statement: the
//	            expectation pins `if err := state.ValidateBlock(block); err != nil { return … }`
//	            on the very parameters, before anything else happens
//	apply-call  <file> <enclosing func> args=(…) verifycommit-before=<bool>
//	            every call `….ApplyBlock(…)`; for each, whether a `….VerifyCommit(…)` call
//	            occurs earlier in the same function body (the fast-sync path)
//	validate-call <file> <enclosing func> recv=<receiver expr>
//	            every call `….ValidateBlock(…)`
//	advance-call  <file> <enclosing func> callee=<updateState|execBlockOnProxyApp|ExecCommitBlock>
//	            every call of the functions through which a block reaches the
//	            application or the State advances
//
// Standard library only; helper names are prefixed c32.

import (
	"bytes"
	"flag"
	"fmt"
	"go/ast"
	"go/parser"
	"go/printer"
	"go/token"
	"os"
	"path/filepath"
	"sort"
	"strings"
)

func init() { register("c32-applysites", c32ApplySitesMain) }

func c32OneLine(fset *token.FileSet, n any) string {
	var buf bytes.Buffer
	cfg := printer.Config{Mode: printer.UseSpaces, Tabwidth: 1}
	if err := cfg.Fprint(&buf, fset, n); err != nil {
		return "?"
	}
	return strings.Join(strings.Fields(buf.String()), " ")
}

func c32FuncName(fd *ast.FuncDecl) string { return recvString(fd) + fd.Name.Name }

func c32Params(fset *token.FileSet, fl *ast.FieldList) string {
	var s []string
	if fl != nil {
		for _, f := range fl.List {
			var names []string
			for _, n := range f.Names {
				names = append(names, n.Name)
			}
			s = append(s, strings.TrimSpace(strings.Join(names, ", ")+" "+c32OneLine(fset, f.Type)))
		}
	}
	return "(" + strings.Join(s, ", ") + ")"
}

func c32Args(fset *token.FileSet, args []ast.Expr) string {
	s := make([]string, len(args))
	for i, a := range args {
		s[i] = c32OneLine(fset, a)
	}
	return "(" + strings.Join(s, ", ") + ")"
}

func c32ApplySitesMain(args []string) error {
	fs := flag.NewFlagSet("c32-applysites", flag.ContinueOnError)
	repo := fs.String("repo", "/repo", "")
	root := fs.String("root", "tm2", "directory (relative to repo) to walk")
	if err := fs.Parse(args); err != nil {
		return err
	}
	var facts []string
	base := filepath.Join(*repo, *root)
	err := filepath.Walk(base, func(path string, info os.FileInfo, err error) error {
		if err != nil {
			return err
		}
		if info.IsDir() {
			if n := info.Name(); n == "testdata" || n == "vendor" || strings.HasPrefix(n, ".") {
				return filepath.SkipDir
			}
			return nil
		}
		if !strings.HasSuffix(path, ".go") || strings.HasSuffix(path, "_test.go") {
			return nil
		}
		rel, _ := filepath.Rel(*repo, path)
		fset := token.NewFileSet()
		f, err := parser.ParseFile(fset, path, nil, parser.SkipObjectResolution)
		if err != nil {
			return fmt.Errorf("%s: %w", rel, err)
		}
		for _, d := range f.Decls {
			fd, ok := d.(*ast.FuncDecl)
			if !ok {
				continue
			}
			name := c32FuncName(fd)
			if fd.Name.Name == "ApplyBlock" {
				first := "<no body>"
				if fd.Body != nil && len(fd.Body.List) > 0 {
					first = c32OneLine(fset, fd.Body.List[0])
				}
				facts = append(facts, fmt.Sprintf("apply-def %s %s params=%s first=%s", rel, name, c32Params(fset, fd.Type.Params), first))
			}
			if fd.Body == nil {
				continue
			}
			// VerifyCommit call positions in this function
			var verifyPos []token.Pos
			ast.Inspect(fd.Body, func(n ast.Node) bool {
				if ce, ok := n.(*ast.CallExpr); ok {
					if se, ok := ce.Fun.(*ast.SelectorExpr); ok && se.Sel.Name == "VerifyCommit" {
						verifyPos = append(verifyPos, ce.Pos())
					}
				}
				return true
			})
			ast.Inspect(fd.Body, func(n ast.Node) bool {
				ce, ok := n.(*ast.CallExpr)
				if !ok {
					return true
				}
				callee, recv := "", ""
				switch fn := ce.Fun.(type) {
				case *ast.SelectorExpr:
					callee, recv = fn.Sel.Name, c32OneLine(fset, fn.X)
				case *ast.Ident:
					callee = fn.Name
				}
				switch callee {
				case "ApplyBlock":
					before := false
					for _, p := range verifyPos {
						if p < ce.Pos() {
							before = true
						}
					}
					facts = append(facts, fmt.Sprintf("apply-call %s %s args=%s verifycommit-before=%v", rel, name, c32Args(fset, ce.Args), before))
				case "ValidateBlock":
					facts = append(facts, fmt.Sprintf("validate-call %s %s recv=%s", rel, name, recv))
				case "updateState", "execBlockOnProxyApp", "ExecCommitBlock":
					facts = append(facts, fmt.Sprintf("advance-call %s %s callee=%s", rel, name, callee))
				}
				return true
			})
		}
		return nil
	})
	if err != nil {
		return err
	}
	sort.Strings(facts)
	for _, l := range facts {
		fmt.Println(l)
	}
	return nil
}
