package main

// gvx facts-c12 --repo R
//
// F tie for the hand-written C12 model (lean/GnoVerif/Model/C12.lean): prints
//   - the regular expressions, limits and file-name tables the model ports
//     (source text of the initialiser), and
//   - the comment-free source of the functions the model mirrors statement by
//     statement (AddPackage's check order, the mempackage store's two-key
//     layout, the query read path).
// The committed expectation (extract/expect/C12.facts.txt) is the text the
// model was written against.  Standard library only.

import (
	"bytes"
	"flag"
	"fmt"
	"go/ast"
	"go/parser"
	"go/printer"
	"go/token"
	"os"
	"path/filepath"
	"strings"
)

func init() { register("facts-c12", factsC12Main) }

type c12File struct {
	file  string
	vars  []string
	funcs []string // "Name", "(T).Name" or "(*T).Name"
}

var c12Files = []c12File{
	{"tm2/pkg/std/memfile.go",
		[]string{"fileNameLimit", "pkgNameLimit", "pkgPathLimit", "reFileName", "rePkgName", "rePkgPathURL", "rePkgPathStd"},
		[]string{"(*MemFile).ValidateBasic", "(*MemPackage).ValidateBasic", "(*MemPackage).Uniq", "(*MemPackage).Sort", "(*MemPackage).SetFile", "(*MemPackage).IsEmpty", "SplitFilepath"}},
	{"tm2/pkg/regx/regx.go", nil, []string{"(regx).Compile"}},
	{"gnovm/pkg/gnolang/mempackage.go",
		[]string{"Re_gnoUserPkgPath", "Re_gnoStdPkgPath", "Re_domain", "Re_name", "Re_address", "reVersionSuffix", "goodFiles", "goodFileXtns", "badFileXtns"},
		[]string{"IsRealmPath", "IsPPackagePath", "IsStdlib", "IsUserlib", "IsTestFile", "isVersionSuffix", "LastPathElement", "ValidatePkgNameMatchesPath",
			"(MemPackageFilter).FilterGno", "(MemPackageFilter).FilterMemPackage", "(MemPackageType).Decide", "(MemPackageType).Validate", "(MemPackageType).ExcludeGno",
			"ValidateMemPackageAny", "PackageNameFromFileBody"}},
	{"gnovm/pkg/gnolang/nodes.go", []string{"rePkgName"}, []string{"validatePkgName"}},
	{"gnovm/pkg/gnolang/gnomod.go", []string{"GnoVerLatest"}, []string{"ParseCheckGnoMod"}},
	{"gnovm/pkg/gnolang/uverse.go", []string{"subRealmSep"}, nil},
	{"gnovm/pkg/gnolang/store.go", nil,
		[]string{"(*defaultStore).AddMemPackage", "(*defaultStore).DeleteMemPackage", "splitProdAllButProd", "(*defaultStore).GetMemPackageAll",
			"(*defaultStore).GetMemFile", "(*defaultStore).FindPathsByPrefix", "backendPackagePathKey", "backendPackageAllButProdKey", "decodeBackendPackagePathKey"}},
	{"gnovm/pkg/gnomod/file.go", nil, []string{"(*File).Validate", "(*File).HasReplaces"}},
	{"gno.land/pkg/sdk/vm/msgs.go", nil, []string{"(MsgAddPackage).ValidateBasic"}},
	{"gno.land/pkg/sdk/vm/params.go", []string{"sysNamesPkgDefault", "chainDomainDefault"}, nil},
	{"gno.land/pkg/sdk/vm/keeper.go", []string{"reNamespace", "reUserNamespace"},
		[]string{"(*VMKeeper).checkNamespacePermission", "hasProdGnoFile", "(*VMKeeper).AddPackage", "(*VMKeeper).QueryPaths", "collectWithLimit", "(*VMKeeper).QueryFile"}},
	{"gno.land/pkg/gnoland/app.go", nil, nil},
}

func c12Recv(fd *ast.FuncDecl) string {
	if fd.Recv == nil || len(fd.Recv.List) == 0 {
		return ""
	}
	switch t := fd.Recv.List[0].Type.(type) {
	case *ast.StarExpr:
		if id, ok := t.X.(*ast.Ident); ok {
			return "(*" + id.Name + ")."
		}
	case *ast.Ident:
		return "(" + t.Name + ")."
	}
	return "(?)."
}

func factsC12Main(args []string) error {
	fs := flag.NewFlagSet("facts-c12", flag.ContinueOnError)
	repo := fs.String("repo", "/repo", "")
	if err := fs.Parse(args); err != nil {
		return err
	}
	var out bytes.Buffer
	cfg := printer.Config{Mode: printer.UseSpaces | printer.TabIndent, Tabwidth: 8}
	src := func(fset *token.FileSet, n ast.Node) string {
		var b bytes.Buffer
		cfg.Fprint(&b, fset, n)
		var ls []string
		for _, l := range strings.Split(b.String(), "\n") {
			if strings.TrimSpace(l) != "" {
				ls = append(ls, strings.TrimRight(l, " \t"))
			}
		}
		return strings.Join(ls, "\n")
	}
	for _, cf := range c12Files {
		fset := token.NewFileSet()
		f, err := parser.ParseFile(fset, filepath.Join(*repo, cf.file), nil, 0) // comments are not part of the fact
		if err != nil {
			return err
		}
		vals := map[string]string{}
		funcs := map[string]*ast.FuncDecl{}
		for _, d := range f.Decls {
			switch d := d.(type) {
			case *ast.GenDecl:
				for _, sp := range d.Specs {
					if vs, ok := sp.(*ast.ValueSpec); ok {
						for i, n := range vs.Names {
							if i < len(vs.Values) {
								vals[n.Name] = src(fset, vs.Values[i])
							}
						}
					}
				}
			case *ast.FuncDecl:
				funcs[c12Recv(d)+d.Name.Name] = d
			}
		}
		for _, v := range cf.vars {
			s, ok := vals[v]
			if !ok {
				return fmt.Errorf("%s: no var/const %s", cf.file, v)
			}
			fmt.Fprintf(&out, "val %s %s = %s\n", cf.file, v, s)
		}
		for _, fn := range cf.funcs {
			fd, ok := funcs[fn]
			if !ok {
				return fmt.Errorf("%s: no function %s", cf.file, fn)
			}
			fmt.Fprintf(&out, "== %s %s\n%s\n", cf.file, fn, src(fset, fd))
		}
		if cf.file == "gno.land/pkg/gnoland/app.go" {
			// the tx hooks: a failed tx's gno transaction store is not committed
			ast.Inspect(f, func(n ast.Node) bool {
				if ce, ok := n.(*ast.CallExpr); ok {
					if se, ok := ce.Fun.(*ast.SelectorExpr); ok && (se.Sel.Name == "SetBeginTxHook" || se.Sel.Name == "SetEndTxHook") {
						fmt.Fprintf(&out, "== %s %s\n%s\n", cf.file, se.Sel.Name, src(fset, ce))
					}
				}
				return true
			})
		}
	}
	_, err := os.Stdout.Write(out.Bytes())
	return err
}
