package main

// T-tab (DESIGN.md §3) for C52: the constant tables and byte-string constants that
// gnoweb's output escaping stands on, translated from the goldmark sources of the
// exact module version /repo's go.mod requires.
//
//	gvx c52tab --repo R [--ns GnoVerif.Gen.C52]
//
// Reads (as data, standard library only):
//
//	<modcache>/github.com/yuin/goldmark@<v>/util/util.go              htmlEscapeTable (+ the byte strings it points at),
//	                                                                  punctTable, urlEscapeTable, utf8lenTable, htmlSpace
//	<modcache>/github.com/yuin/goldmark@<v>/util/html5entities.gen.go the HTML5 named-entity table
//	<modcache>/github.com/yuin/goldmark@<v>/renderer/html/html.go     the IsDangerousURL prefixes bDataImage … bData
//
// Output: a Lean file with `def`s over `List Nat` (bytes).  Anything that does not
// have the expected syntactic shape is a loud failure (broken tie).

import (
	"flag"
	"fmt"
	"go/ast"
	"go/parser"
	"go/token"
	"os"
	"os/exec"
	"path/filepath"
	"regexp"
	"strconv"
	"strings"
)

func init() { register("c52tab", c52tabMain) }

// c52ModDir resolves the directory of module `mod` at the version required by <repo>/go.mod.
func c52ModDir(repo, mod string) (string, string, error) {
	src, err := os.ReadFile(filepath.Join(repo, "go.mod"))
	if err != nil {
		return "", "", err
	}
	re := regexp.MustCompile(`(?m)^\s*(?:require\s+)?` + regexp.QuoteMeta(mod) + `\s+(v\S+)`)
	m := re.FindSubmatch(src)
	if m == nil {
		return "", "", fmt.Errorf("module %s not required by %s/go.mod", mod, repo)
	}
	ver := string(m[1])
	cands := []string{}
	if v := os.Getenv("GOMODCACHE"); v != "" {
		cands = append(cands, v)
	}
	if v := os.Getenv("GOPATH"); v != "" {
		for _, p := range filepath.SplitList(v) {
			cands = append(cands, filepath.Join(p, "pkg", "mod"))
		}
	}
	if h, err := os.UserHomeDir(); err == nil {
		cands = append(cands, filepath.Join(h, "go", "pkg", "mod"))
	}
	if out, err := exec.Command("go", "env", "GOMODCACHE").Output(); err == nil {
		cands = append(cands, strings.TrimSpace(string(out)))
	}
	// module-cache escaping: upper-case letters become "!" + lower-case
	var esc strings.Builder
	for _, r := range mod {
		if r >= 'A' && r <= 'Z' {
			esc.WriteByte('!')
			esc.WriteRune(r + 'a' - 'A')
		} else {
			esc.WriteRune(r)
		}
	}
	for _, c := range cands {
		d := filepath.Join(c, filepath.FromSlash(esc.String())+"@"+ver)
		if st, err := os.Stat(d); err == nil && st.IsDir() {
			return d, ver, nil
		}
	}
	return "", "", fmt.Errorf("module %s@%s not found in the module cache (%v)", mod, ver, cands)
}

type c52file struct {
	vars map[string]ast.Expr // package-level var/const name -> initialiser
}

func c52Parse(path string) (*c52file, error) {
	fset := token.NewFileSet()
	f, err := parser.ParseFile(fset, path, nil, parser.SkipObjectResolution)
	if err != nil {
		return nil, err
	}
	out := &c52file{vars: map[string]ast.Expr{}}
	for _, d := range f.Decls {
		gd, ok := d.(*ast.GenDecl)
		if !ok || (gd.Tok != token.VAR && gd.Tok != token.CONST) {
			continue
		}
		for _, s := range gd.Specs {
			vs := s.(*ast.ValueSpec)
			for i, n := range vs.Names {
				if i < len(vs.Values) {
					out.vars[n.Name] = vs.Values[i]
				}
			}
		}
	}
	return out, nil
}

// c52Str evaluates a string literal or []byte("literal") conversion.
func c52Str(e ast.Expr) (string, error) {
	switch x := e.(type) {
	case *ast.BasicLit:
		if x.Kind == token.STRING {
			return strconv.Unquote(x.Value)
		}
	case *ast.CallExpr: // []byte("…")
		if at, ok := x.Fun.(*ast.ArrayType); ok && at.Len == nil && len(x.Args) == 1 {
			if id, ok := at.Elt.(*ast.Ident); ok && id.Name == "byte" {
				return c52Str(x.Args[0])
			}
		}
	}
	return "", fmt.Errorf("not a string / []byte(string) constant")
}

func c52Int(e ast.Expr) (int64, error) {
	switch x := e.(type) {
	case *ast.BasicLit:
		if x.Kind == token.INT || x.Kind == token.CHAR {
			if x.Kind == token.CHAR {
				r, _, _, err := strconv.UnquoteChar(strings.Trim(x.Value, "'"), '\'')
				return int64(r), err
			}
			return strconv.ParseInt(x.Value, 0, 64)
		}
	case *ast.UnaryExpr:
		if x.Op == token.SUB {
			v, err := c52Int(x.X)
			return -v, err
		}
	}
	return 0, fmt.Errorf("not an integer literal")
}

// c52IntTable evaluates `[256]T{a, b, …}` (no keys).
func c52IntTable(f *c52file, name string, n int) ([]int64, error) {
	e, ok := f.vars[name]
	if !ok {
		return nil, fmt.Errorf("%s: not found", name)
	}
	cl, ok := e.(*ast.CompositeLit)
	if !ok {
		return nil, fmt.Errorf("%s: not a composite literal", name)
	}
	if n > 0 && len(cl.Elts) != n {
		return nil, fmt.Errorf("%s: %d elements, want %d", name, len(cl.Elts), n)
	}
	out := make([]int64, len(cl.Elts))
	for i, el := range cl.Elts {
		v, err := c52Int(el)
		if err != nil {
			return nil, fmt.Errorf("%s[%d]: %v", name, i, err)
		}
		out[i] = v
	}
	return out, nil
}

func c52LeanBytes(s string) string {
	parts := make([]string, len(s))
	for i := 0; i < len(s); i++ {
		parts[i] = strconv.Itoa(int(s[i]))
	}
	return "[" + strings.Join(parts, ", ") + "]"
}

func c52LeanInts(v []int64) string {
	parts := make([]string, len(v))
	for i, x := range v {
		parts[i] = strconv.FormatInt(x, 10)
	}
	// keep lines short: 32 per line
	var sb strings.Builder
	sb.WriteString("[")
	for i, p := range parts {
		if i > 0 {
			sb.WriteString(",")
			if i%32 == 0 {
				sb.WriteString("\n   ")
			} else {
				sb.WriteString(" ")
			}
		}
		sb.WriteString(p)
	}
	sb.WriteString("]")
	return sb.String()
}

func c52tabMain(args []string) error {
	fs := flag.NewFlagSet("c52tab", flag.ContinueOnError)
	repo := fs.String("repo", "/repo", "")
	ns := fs.String("ns", "GnoVerif.Gen.C52", "")
	if err := fs.Parse(args); err != nil {
		return err
	}
	dir, ver, err := c52ModDir(*repo, "github.com/yuin/goldmark")
	if err != nil {
		return err
	}
	util, err := c52Parse(filepath.Join(dir, "util", "util.go"))
	if err != nil {
		return err
	}
	ents, err := c52Parse(filepath.Join(dir, "util", "html5entities.gen.go"))
	if err != nil {
		return err
	}
	rend, err := c52Parse(filepath.Join(dir, "renderer", "html", "html.go"))
	if err != nil {
		return err
	}
	var sb strings.Builder
	fmt.Fprintf(&sb, "/- GENERATED by `gvx c52tab` from github.com/yuin/goldmark@%s (util/util.go, util/html5entities.gen.go,\n   renderer/html/html.go) — do not edit; regenerated on every run. -/\nnamespace %s\n\n", ver, *ns)
	fmt.Fprintf(&sb, "def goldmarkVersion : String := %q\n\n", ver)

	// --- integer tables
	for _, t := range []string{"punctTable", "urlEscapeTable", "utf8lenTable"} {
		v, err := c52IntTable(util, t, 256)
		if err != nil {
			return err
		}
		fmt.Fprintf(&sb, "def %s : List Nat :=\n  %s\n\n", t, c52LeanInts(v))
	}

	// --- htmlEscapeTable: [256]*[]byte{&htmlNull, nil, …}
	e, ok := util.vars["htmlEscapeTable"]
	if !ok {
		return fmt.Errorf("htmlEscapeTable: not found")
	}
	cl, ok := e.(*ast.CompositeLit)
	if !ok || len(cl.Elts) != 256 {
		return fmt.Errorf("htmlEscapeTable: not a 256-element composite literal")
	}
	rows := make([]string, 256)
	for i, el := range cl.Elts {
		switch x := el.(type) {
		case *ast.Ident:
			if x.Name != "nil" {
				return fmt.Errorf("htmlEscapeTable[%d]: unexpected identifier %s", i, x.Name)
			}
			rows[i] = "[]"
		case *ast.UnaryExpr:
			id, ok := x.X.(*ast.Ident)
			if x.Op != token.AND || !ok {
				return fmt.Errorf("htmlEscapeTable[%d]: unexpected expression", i)
			}
			init, ok := util.vars[id.Name]
			if !ok {
				return fmt.Errorf("htmlEscapeTable[%d]: %s not found", i, id.Name)
			}
			s, err := c52Str(init)
			if err != nil {
				return fmt.Errorf("%s: %v", id.Name, err)
			}
			if s == "" {
				return fmt.Errorf("%s: empty replacement cannot be told from nil", id.Name)
			}
			rows[i] = c52LeanBytes(s)
		default:
			return fmt.Errorf("htmlEscapeTable[%d]: unexpected expression", i)
		}
	}
	sb.WriteString("/-- `[]` stands for a nil entry (byte is copied). -/\ndef htmlEscapeTable : List (List Nat) :=\n  [")
	for i, r := range rows {
		if i > 0 {
			sb.WriteString(",")
			if i%16 == 0 {
				sb.WriteString("\n   ")
			} else {
				sb.WriteString(" ")
			}
		}
		sb.WriteString(r)
	}
	sb.WriteString("]\n\n")

	// --- byte-string constants
	for _, c := range []struct {
		f    *c52file
		name string
	}{{util, "htmlSpace"}, {rend, "bDataImage"}, {rend, "bPng"}, {rend, "bGif"}, {rend, "bJpeg"}, {rend, "bWebp"},
		{rend, "bSvg"}, {rend, "bJs"}, {rend, "bVb"}, {rend, "bFile"}, {rend, "bData"}} {
		init, ok := c.f.vars[c.name]
		if !ok {
			return fmt.Errorf("%s: not found", c.name)
		}
		s, err := c52Str(init)
		if err != nil {
			return fmt.Errorf("%s: %v", c.name, err)
		}
		fmt.Fprintf(&sb, "def %s : List Nat := %s  -- %q\n", c.name, c52LeanBytes(s), s)
	}
	sb.WriteString("\n")

	// --- HTML5 entities (names and their UTF-8 characters), as built by buildHTML5Entities
	get := func(name string) (string, error) {
		init, ok := ents.vars[name]
		if !ok {
			return "", fmt.Errorf("%s: not found", name)
		}
		return c52Str(init)
	}
	length, err := func() (int64, error) {
		init, ok := ents.vars["_html5entitiesLength"]
		if !ok {
			return 0, fmt.Errorf("_html5entitiesLength: not found")
		}
		return c52Int(init)
	}()
	if err != nil {
		return err
	}
	names, err := get("_html5entitiesName")
	if err != nil {
		return err
	}
	nameIdx, err := get("_html5entitiesNameIndex")
	if err != nil {
		return err
	}
	charIdx, err := get("_html5entitiesCharactersIndex")
	if err != nil {
		return err
	}
	chars, err := c52IntTable(ents, "_html5entitiesCharacters", 0)
	if err != nil {
		return err
	}
	if int64(len(nameIdx)) != length || int64(len(charIdx)) != length {
		return fmt.Errorf("entity index lengths %d/%d differ from _html5entitiesLength %d", len(nameIdx), len(charIdx), length)
	}
	// The table is shipped as one string `name hexbytes\n…` and parsed by the model at start-up
	// (a 2 000-element list literal is slow to elaborate; no theorem depends on its content:
	// every theorem is stated for an arbitrary entity lookup function).
	var tb strings.Builder
	cn, cc := 0, 0
	for i := 0; i < int(length); i++ {
		tn := cn + int(nameIdx[i])
		tc := cc + int(charIdx[i])
		if tn > len(names) || tc > len(chars) {
			return fmt.Errorf("entity %d: index out of range", i)
		}
		name := names[cn:tn]
		for j := 0; j < len(name); j++ {
			c := name[j]
			if !(c >= 'a' && c <= 'z' || c >= 'A' && c <= 'Z' || c >= '0' && c <= '9') {
				return fmt.Errorf("entity name %q is not alphanumeric", name)
			}
		}
		tb.WriteString(name)
		tb.WriteByte(' ')
		for _, b := range chars[cc:tc] {
			fmt.Fprintf(&tb, "%02x", b)
		}
		tb.WriteByte('\n')
		cn, cc = tn, tc
	}
	fmt.Fprintf(&sb, "def entityCount : Nat := %d\n\n", length)
	fmt.Fprintf(&sb, "/-- one entity per line: `<name> <utf-8 bytes in hex>` -/\ndef entityTable : String :=\n  %s\n", strconv.Quote(tb.String()))
	fmt.Fprintf(&sb, "\nend %s\n", *ns)
	os.Stdout.WriteString(sb.String())
	return nil
}
