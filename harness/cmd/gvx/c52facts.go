package main

// F facts for C52 (DESIGN.md §3): code-shape facts about gnoweb's HTML output.
//
//	gvx c52-writes --repo R [--dir gno.land/pkg/gnoweb/markdown]
//	    every call that hands data to an output writer (a parameter of type util.BufWriter or
//	    io.Writer) in the non-test files of the directory: w.Write*/fmt.Fprint* and any other
//	    call receiving the writer, with each data argument classified as
//	      const          string/char literal, package constant, or a concatenation of those
//	      esc:F(…)       the result of an escaper call (HTMLEscapeString, html.EscapeString, util.EscapeHTML)
//	      int:…          an argument consumed by a %d verb
//	      var:x{…}       a local variable, with the classification of everything assigned to it
//	      sprintf(…)     fmt.Sprintf with its format and classified arguments
//	      dyn:…          anything else (must be vetted by hand in the expectation file)
//	gvx c52-options --repo R
//	    every goldmark / parser / renderer / gnoweb-extension `With…(` option call and every mention of UnsafeHTML in the non-test
//	    files of gno.land/pkg/gnoweb and gno.land/pkg/gnoweb/markdown, with the enclosing
//	    function and the conditions of the enclosing `if` statements
//	gvx c52-modsrc --repo R --mod <module path> --file <file in module> --decls A,B,T.m
//	    comment-free source of declarations of a dependency, at the version /repo's go.mod requires
//
// Standard library only; /repo and the module cache are read as data.

import (
	"bytes"
	"flag"
	"fmt"
	"go/ast"
	"go/parser"
	"go/printer"
	"go/token"
	"os"
	"path/filepath"
	"sort"
	"strconv"
	"strings"
)

func init() {
	register("c52-writes", c52WritesMain)
	register("c52-options", c52OptionsMain)
	register("c52-modsrc", c52ModsrcMain)
}

func c52Src(n any) string {
	var b bytes.Buffer
	(&printer.Config{Mode: printer.UseSpaces | printer.TabIndent, Tabwidth: 8}).Fprint(&b, token.NewFileSet(), n)
	return strings.Join(strings.Fields(b.String()), " ")
}

func c52GoFiles(dir string) ([]string, error) {
	ents, err := os.ReadDir(dir)
	if err != nil {
		return nil, err
	}
	var out []string
	for _, e := range ents {
		n := e.Name()
		if e.IsDir() || !strings.HasSuffix(n, ".go") || strings.HasSuffix(n, "_test.go") {
			continue
		}
		out = append(out, n)
	}
	sort.Strings(out)
	return out, nil
}

var c52Escapers = map[string]bool{
	"HTMLEscapeString": true, "template.HTMLEscapeString": true, "htmlpkg.EscapeString": true,
	"html.EscapeString": true, "util.EscapeHTML": true,
}

type c52cls struct {
	consts map[string]bool       // package-level constants
	assign map[string][]ast.Expr // local variable -> assigned expressions (current function)
	depth  int
}

func (c *c52cls) isConst(e ast.Expr) bool {
	switch x := e.(type) {
	case *ast.BasicLit:
		return x.Kind == token.STRING || x.Kind == token.CHAR
	case *ast.Ident:
		return c.consts[x.Name]
	case *ast.BinaryExpr:
		return x.Op == token.ADD && c.isConst(x.X) && c.isConst(x.Y)
	case *ast.ParenExpr:
		return c.isConst(x.X)
	}
	return false
}

func (c *c52cls) class(e ast.Expr) string {
	if c.isConst(e) {
		return "const"
	}
	switch x := e.(type) {
	case *ast.ParenExpr:
		return c.class(x.X)
	case *ast.BinaryExpr:
		if x.Op == token.ADD {
			return "concat(" + c.class(x.X) + ", " + c.class(x.Y) + ")"
		}
	case *ast.CallExpr:
		fn := c52Src(x.Fun)
		if c52Escapers[fn] && len(x.Args) == 1 {
			return "esc:" + fn + "(" + c52Src(x.Args[0]) + ")"
		}
		if fn == "fmt.Sprintf" && len(x.Args) >= 1 {
			return "sprintf(" + c.fmtArgs(x.Args) + ")"
		}
		// a conversion of an escaper result, e.g. string(util.EscapeHTML(b))
		if len(x.Args) == 1 && (fn == "string" || fn == "[]byte") {
			return c.class(x.Args[0])
		}
	case *ast.Ident:
		if as, ok := c.assign[x.Name]; ok && c.depth < 2 {
			c.depth++
			parts := make([]string, len(as))
			for i, a := range as {
				parts[i] = c.class(a)
			}
			c.depth--
			return "var:" + x.Name + "{" + strings.Join(parts, " | ") + "}"
		}
	}
	return "dyn:" + c52Src(e)
}

// fmtArgs classifies the arguments of a printf-style call: args[0] is the format.
func (c *c52cls) fmtArgs(args []ast.Expr) string {
	out := []string{}
	verbs := []byte{}
	if lit, ok := args[0].(*ast.BasicLit); ok && lit.Kind == token.STRING {
		s, _ := strconv.Unquote(lit.Value)
		out = append(out, strconv.Quote(s))
		for i := 0; i < len(s); i++ {
			if s[i] != '%' {
				continue
			}
			i++
			for i < len(s) && strings.IndexByte("+-# 0123456789.", s[i]) >= 0 {
				i++
			}
			if i < len(s) && s[i] != '%' {
				verbs = append(verbs, s[i])
			}
		}
	} else if c.isConst(args[0]) {
		// concatenation of literals: evaluate
		s := c52ConstString(args[0])
		out = append(out, strconv.Quote(s))
		for i := 0; i < len(s); i++ {
			if s[i] == '%' && i+1 < len(s) {
				i++
				if s[i] != '%' {
					verbs = append(verbs, s[i])
				}
			}
		}
	} else {
		out = append(out, "format="+c.class(args[0]))
	}
	for i, a := range args[1:] {
		if i < len(verbs) && (verbs[i] == 'd' || verbs[i] == 't') {
			out = append(out, "int:"+c52Src(a))
			continue
		}
		out = append(out, c.class(a))
	}
	return strings.Join(out, "; ")
}

func c52ConstString(e ast.Expr) string {
	switch x := e.(type) {
	case *ast.BasicLit:
		s, _ := strconv.Unquote(x.Value)
		return s
	case *ast.BinaryExpr:
		return c52ConstString(x.X) + c52ConstString(x.Y)
	case *ast.ParenExpr:
		return c52ConstString(x.X)
	case *ast.Ident:
		return "‹" + x.Name + "›"
	}
	return "?"
}

func c52IsWriterType(t ast.Expr) bool {
	s := c52Src(t)
	return s == "util.BufWriter" || s == "io.Writer"
}

func c52WritesMain(args []string) error {
	fs := flag.NewFlagSet("c52-writes", flag.ContinueOnError)
	repo := fs.String("repo", "/repo", "")
	dir := fs.String("dir", "gno.land/pkg/gnoweb/markdown", "")
	if err := fs.Parse(args); err != nil {
		return err
	}
	full := filepath.Join(*repo, *dir)
	files, err := c52GoFiles(full)
	if err != nil {
		return err
	}
	fset := token.NewFileSet()
	parsed := map[string]*ast.File{}
	consts := map[string]bool{}
	for _, fn := range files {
		f, err := parser.ParseFile(fset, filepath.Join(full, fn), nil, parser.SkipObjectResolution)
		if err != nil {
			return err
		}
		parsed[fn] = f
		for _, d := range f.Decls {
			if gd, ok := d.(*ast.GenDecl); ok && gd.Tok == token.CONST {
				for _, s := range gd.Specs {
					for _, n := range s.(*ast.ValueSpec).Names {
						consts[n.Name] = true
					}
				}
			}
		}
	}
	var sb strings.Builder
	fmt.Fprintf(&sb, "# output writes in %s (non-test files)\n", *dir)
	total, dyn := 0, 0
	for _, fn := range files {
		for _, d := range parsed[fn].Decls {
			fd, ok := d.(*ast.FuncDecl)
			if !ok || fd.Body == nil {
				continue
			}
			writers := map[string]bool{}
			for _, p := range fd.Type.Params.List {
				if c52IsWriterType(p.Type) {
					for _, n := range p.Names {
						writers[n.Name] = true
					}
				}
			}
			if len(writers) == 0 {
				continue
			}
			cl := &c52cls{consts: consts, assign: map[string][]ast.Expr{}}
			ast.Inspect(fd.Body, func(n ast.Node) bool {
				if as, ok := n.(*ast.AssignStmt); ok && len(as.Lhs) == len(as.Rhs) {
					for i, l := range as.Lhs {
						if id, ok := l.(*ast.Ident); ok {
							cl.assign[id.Name] = append(cl.assign[id.Name], as.Rhs[i])
						}
					}
				}
				return true
			})
			name := recvString(fd) + fd.Name.Name
			ast.Inspect(fd.Body, func(n ast.Node) bool {
				call, ok := n.(*ast.CallExpr)
				if !ok {
					return true
				}
				fun := c52Src(call.Fun)
				isW := func(e ast.Expr) bool {
					id, ok := e.(*ast.Ident)
					return ok && writers[id.Name]
				}
				var line string
				if sel, ok := call.Fun.(*ast.SelectorExpr); ok && isW(sel.X) {
					parts := make([]string, len(call.Args))
					for i, a := range call.Args {
						parts[i] = cl.class(a)
					}
					line = "w." + sel.Sel.Name + "(" + strings.Join(parts, "; ") + ")"
				} else if (fun == "fmt.Fprintf") && len(call.Args) >= 2 && isW(call.Args[0]) {
					line = "Fprintf(w; " + cl.fmtArgs(call.Args[1:]) + ")"
				} else if (fun == "fmt.Fprint" || fun == "fmt.Fprintln") && len(call.Args) >= 1 && isW(call.Args[0]) {
					parts := make([]string, len(call.Args)-1)
					for i, a := range call.Args[1:] {
						parts[i] = cl.class(a)
					}
					line = strings.TrimPrefix(fun, "fmt.") + "(w; " + strings.Join(parts, "; ") + ")"
				} else {
					has := false
					for _, a := range call.Args {
						if isW(a) {
							has = true
						}
					}
					if !has {
						return true
					}
					parts := make([]string, len(call.Args))
					for i, a := range call.Args {
						if isW(a) {
							parts[i] = "w"
						} else {
							parts[i] = c52Src(a)
						}
					}
					line = "passes-writer " + fun + "(" + strings.Join(parts, ", ") + ")"
				}
				total++
				if strings.Contains(line, "dyn:") {
					dyn++
				}
				fmt.Fprintf(&sb, "%s %s: %s\n", fn, name, line)
				return true
			})
		}
	}
	fmt.Fprintf(&sb, "# total=%d with-unclassified-argument=%d\n", total, dyn)
	os.Stdout.WriteString(sb.String())
	return nil
}

func c52OptionsMain(args []string) error {
	fs := flag.NewFlagSet("c52-options", flag.ContinueOnError)
	repo := fs.String("repo", "/repo", "")
	if err := fs.Parse(args); err != nil {
		return err
	}
	var sb strings.Builder
	for _, dir := range []string{"gno.land/pkg/gnoweb", "gno.land/pkg/gnoweb/markdown"} {
		full := filepath.Join(*repo, dir)
		files, err := c52GoFiles(full)
		if err != nil {
			return err
		}
		for _, fn := range files {
			fset := token.NewFileSet()
			f, err := parser.ParseFile(fset, filepath.Join(full, fn), nil, parser.SkipObjectResolution)
			if err != nil {
				return err
			}
			for _, d := range f.Decls {
				fd, ok := d.(*ast.FuncDecl)
				if !ok || fd.Body == nil {
					continue
				}
				name := recvString(fd) + fd.Name.Name
				var conds []string
				var walk func(n ast.Node)
				walk = func(n ast.Node) {
					ast.Inspect(n, func(m ast.Node) bool {
						switch x := m.(type) {
						case *ast.IfStmt:
							if x.Init != nil {
								walk(x.Init)
							}
							walk(x.Cond)
							conds = append(conds, c52Src(x.Cond))
							walk(x.Body)
							conds = conds[:len(conds)-1]
							if x.Else != nil {
								conds = append(conds, "!("+c52Src(x.Cond)+")")
								walk(x.Else)
								conds = conds[:len(conds)-1]
							}
							return false
						case *ast.CallExpr:
							fun := c52Src(x.Fun)
							base := fun
							if i := strings.LastIndexByte(fun, '.'); i >= 0 {
								base = fun[i+1:]
							}
							qual := ""
							if i := strings.LastIndexByte(fun, '.'); i >= 0 {
								qual = fun[:i]
							}
							// only the markdown pipeline's options (goldmark, its parser / renderer, gnoweb's extension)
							relevant := map[string]bool{"goldmark": true, "mdhtml": true, "html": true, "parser": true, "renderer": true, "md": true, "markdown": true}
							if strings.HasPrefix(base, "With") && len(base) > 4 && base[4] >= 'A' && base[4] <= 'Z' && relevant[qual] {
								fmt.Fprintf(&sb, "%s/%s %s: option %s  [if %s]\n", filepath.Base(dir), fn, name, fun, strings.Join(conds, " && "))
							}
						case *ast.SelectorExpr:
							if x.Sel.Name == "UnsafeHTML" {
								fmt.Fprintf(&sb, "%s/%s %s: mentions %s  [if %s]\n", filepath.Base(dir), fn, name, c52Src(x), strings.Join(conds, " && "))
							}
						case *ast.KeyValueExpr:
							if id, ok := x.Key.(*ast.Ident); ok && id.Name == "UnsafeHTML" {
								fmt.Fprintf(&sb, "%s/%s %s: sets UnsafeHTML: %s\n", filepath.Base(dir), fn, name, c52Src(x.Value))
							}
						}
						return true
					})
				}
				walk(fd.Body)
			}
		}
	}
	os.Stdout.WriteString(sb.String())
	return nil
}

func c52ModsrcMain(args []string) error {
	fs := flag.NewFlagSet("c52-modsrc", flag.ContinueOnError)
	repo := fs.String("repo", "/repo", "")
	mod := fs.String("mod", "", "")
	file := fs.String("file", "", "")
	decls := fs.String("decls", "", "")
	if err := fs.Parse(args); err != nil {
		return err
	}
	if *mod == "" || *file == "" || *decls == "" {
		return fmt.Errorf("need --mod, --file and --decls")
	}
	dir, ver, err := c52ModDir(*repo, *mod)
	if err != nil {
		return err
	}
	fset := token.NewFileSet()
	f, err := parser.ParseFile(fset, filepath.Join(dir, *file), nil, 0) // comments dropped
	if err != nil {
		return err
	}
	found := map[string]string{}
	show := func(n any) string {
		var b bytes.Buffer
		(&printer.Config{Mode: printer.UseSpaces | printer.TabIndent, Tabwidth: 8}).Fprint(&b, token.NewFileSet(), n)
		return b.String()
	}
	for _, d := range f.Decls {
		switch x := d.(type) {
		case *ast.FuncDecl:
			name := x.Name.Name
			if x.Recv != nil && len(x.Recv.List) > 0 {
				t := x.Recv.List[0].Type
				if s, ok := t.(*ast.StarExpr); ok {
					t = s.X
				}
				if id, ok := t.(*ast.Ident); ok {
					name = id.Name + "." + name
				}
			}
			found[name] = show(x)
		case *ast.GenDecl:
			for _, s := range x.Specs {
				if vs, ok := s.(*ast.ValueSpec); ok {
					for _, n := range vs.Names {
						found[n.Name] = show(&ast.GenDecl{Tok: x.Tok, Specs: []ast.Spec{vs}})
					}
				}
			}
		}
	}
	var sb strings.Builder
	fmt.Fprintf(&sb, "# %s %s %s\n", *mod, ver, *file)
	for _, n := range strings.Split(*decls, ",") {
		src, ok := found[n]
		if !ok {
			return fmt.Errorf("declaration %s not found in %s", n, *file)
		}
		fmt.Fprintf(&sb, "## %s\n%s\n", n, src)
	}
	os.Stdout.WriteString(sb.String())
	return nil
}
