package main

// T (translator) for C52: gnoweb's renderer functions as abstract programs over their writes.
//
//	gvx c52flow --repo R [--dir gno.land/pkg/gnoweb/markdown] [--exclude f1.go,f2.go]
//	            [--vetted 'expr=alt1|alt2|…']… [--ns GnoVerif.Gen.C52Flow]
//
// Every function that takes an output writer is translated statement by statement into
//
//	write alts      one output write as a list of pieces; alts = one list per value a local variable can hold:
//	                  lit <bytes>  constant text (format-string text, string constants, Fprintln's newline)
//	                  escT         a value passed through HTMLEscapeString / html.EscapeString
//	                  escG         a value passed through goldmark util.EscapeHTML
//	                  num          an integer printed with %d
//	                  sub          a nested renderer writing a complete fragment (template component,
//	                               inner goldmark instance, chroma formatter)
//	                a value from a hand-vetted finite set (--vetted, keyed by the expression's source text)
//	                is replaced by each of its members
//	seq / choice    sequencing; if / else, switch, type switch (a `fallthrough` continues into the next case)
//	loop            for / range: zero or more iterations (continue / break respected)
//	call f          a call of another translated function
//	ret             return
//
// Conditions are abstracted away (both branches are possible): a sound over-approximation of
// the order in which the writes can happen.  A statement form outside this subset (defer, go,
// goto, labels, select, break inside switch) or a dynamic value that is neither constant,
// escaped, an integer nor vetted makes the translator fail loudly — a broken tie.
//
// Roots = translated functions no translated function calls (the goldmark node renderers).

import (
	"flag"
	"fmt"
	"go/ast"
	"go/parser"
	"go/token"
	"os"
	"path/filepath"
	"sort"
	"strconv"
	"strings"
)

func init() { register("c52flow", c52flowMain) }

type c52piece struct {
	kind string // lit escT escG num sub
	lit  string
}

type c52alts [][]c52piece // alternatives, each a piece list

type c52multi []string

func (m *c52multi) String() string     { return strings.Join(*m, ",") }
func (m *c52multi) Set(s string) error { *m = append(*m, s); return nil }

type c52fmtCtx struct {
	consts map[string]string     // package-level string constants
	assign map[string][]ast.Expr // local variable -> assigned expressions
	vetted map[string][]string   // expression source -> finite value set
	depth  int
}

func c52lit(s string) c52alts { return c52alts{{{kind: "lit", lit: s}}} }

func c52cross(a, b c52alts) (c52alts, error) {
	out := c52alts{}
	for _, x := range a {
		for _, y := range b {
			p := append(append([]c52piece{}, x...), y...)
			out = append(out, p)
		}
	}
	if len(out) > 256 {
		return nil, fmt.Errorf("more than 256 combinations")
	}
	return out, nil
}

// constString evaluates a constant string expression.
func (c *c52fmtCtx) constString(e ast.Expr) (string, bool) {
	switch x := e.(type) {
	case *ast.BasicLit:
		if x.Kind == token.STRING {
			s, err := strconv.Unquote(x.Value)
			return s, err == nil
		}
		if x.Kind == token.CHAR {
			r, _, _, err := strconv.UnquoteChar(strings.Trim(x.Value, "'"), '\'')
			return string(r), err == nil
		}
	case *ast.Ident:
		s, ok := c.consts[x.Name]
		return s, ok
	case *ast.BinaryExpr:
		if x.Op == token.ADD {
			a, ok1 := c.constString(x.X)
			b, ok2 := c.constString(x.Y)
			return a + b, ok1 && ok2
		}
	case *ast.ParenExpr:
		return c.constString(x.X)
	}
	return "", false
}

var c52EscKind = map[string]string{
	"HTMLEscapeString": "escT", "template.HTMLEscapeString": "escT", "htmlpkg.EscapeString": "escT",
	"html.EscapeString": "escT", "util.EscapeHTML": "escG",
}

// value classifies an expression written as a string value.
func (c *c52fmtCtx) value(e ast.Expr) (c52alts, error) {
	if s, ok := c.constString(e); ok {
		return c52lit(s), nil
	}
	src := c52Src(e)
	if vs, ok := c.vetted[src]; ok {
		out := c52alts{}
		for _, v := range vs {
			out = append(out, []c52piece{{kind: "lit", lit: v}})
		}
		return out, nil
	}
	switch x := e.(type) {
	case *ast.ParenExpr:
		return c.value(x.X)
	case *ast.BinaryExpr:
		if x.Op == token.ADD {
			a, err := c.value(x.X)
			if err != nil {
				return nil, err
			}
			b, err := c.value(x.Y)
			if err != nil {
				return nil, err
			}
			return c52cross(a, b)
		}
	case *ast.CallExpr:
		fn := c52Src(x.Fun)
		if k, ok := c52EscKind[fn]; ok && len(x.Args) == 1 {
			return c52alts{{{kind: k}}}, nil
		}
		if fn == "fmt.Sprintf" && len(x.Args) >= 1 {
			return c.format(x.Args)
		}
		if len(x.Args) == 1 && (fn == "string" || fn == "[]byte") {
			return c.value(x.Args[0])
		}
	case *ast.Ident:
		if as, ok := c.assign[x.Name]; ok && c.depth < 3 {
			c.depth++
			defer func() { c.depth-- }()
			out := c52alts{}
			seen := map[string]bool{}
			for _, a := range as {
				alts, err := c.value(a)
				if err != nil {
					return nil, fmt.Errorf("variable %s: %v", x.Name, err)
				}
				for _, alt := range alts {
					key := fmt.Sprint(alt)
					if !seen[key] {
						seen[key] = true
						out = append(out, alt)
					}
				}
			}
			return out, nil
		}
	}
	return nil, fmt.Errorf("dynamic value `%s` is neither constant, escaped, an integer nor vetted", src)
}

// format expands a printf-style call (args[0] is the format).
func (c *c52fmtCtx) format(args []ast.Expr) (c52alts, error) {
	f, ok := c.constString(args[0])
	if !ok {
		return nil, fmt.Errorf("format `%s` is not constant", c52Src(args[0]))
	}
	out := c52alts{{}}
	argi := 1
	var lit strings.Builder
	flush := func() error {
		if lit.Len() > 0 {
			var err error
			out, err = c52cross(out, c52lit(lit.String()))
			lit.Reset()
			return err
		}
		return nil
	}
	for i := 0; i < len(f); i++ {
		if f[i] != '%' {
			lit.WriteByte(f[i])
			continue
		}
		i++
		if i >= len(f) {
			return nil, fmt.Errorf("format ends with %%")
		}
		switch f[i] {
		case '%':
			lit.WriteByte('%')
		case 's', 'd':
			if argi >= len(args) {
				return nil, fmt.Errorf("format %q: missing argument", f)
			}
			if err := flush(); err != nil {
				return nil, err
			}
			var alts c52alts
			var err error
			if f[i] == 'd' {
				alts = c52alts{{{kind: "num"}}}
			} else {
				alts, err = c.value(args[argi])
				if err != nil {
					return nil, err
				}
			}
			argi++
			if out, err = c52cross(out, alts); err != nil {
				return nil, err
			}
		default:
			return nil, fmt.Errorf("format %q: unsupported verb %%%c", f, f[i])
		}
	}
	if err := flush(); err != nil {
		return nil, err
	}
	if argi != len(args) {
		return nil, fmt.Errorf("format %q: %d extra argument(s)", f, len(args)-argi)
	}
	return out, nil
}

type c52flow struct {
	ctx        *c52fmtCtx
	writers    map[string]bool     // writer parameter names of the current function
	withWriter map[string][]string // base name -> qualified names of translated functions
	called     map[string]bool
	inSwitch   int
}

func c52leanPieces(ps []c52piece) string {
	out := make([]string, 0, len(ps))
	var prev *c52piece
	merged := []c52piece{}
	for i := range ps {
		p := ps[i]
		if p.kind == "lit" && p.lit == "" {
			continue
		}
		if p.kind == "lit" && prev != nil && prev.kind == "lit" {
			merged[len(merged)-1].lit += p.lit
			continue
		}
		merged = append(merged, p)
		prev = &merged[len(merged)-1]
	}
	for _, p := range merged {
		if p.kind == "lit" {
			out = append(out, ".lit "+c52LeanBytes(p.lit))
		} else {
			out = append(out, "."+p.kind)
		}
	}
	return "[" + strings.Join(out, ", ") + "]"
}

func c52leanWrite(alts c52alts) string {
	parts := make([]string, len(alts))
	for i, a := range alts {
		parts[i] = c52leanPieces(a)
	}
	return ".write [" + strings.Join(parts, ", ") + "]"
}

func c52seq(ps []string) string {
	keep := []string{}
	for _, p := range ps {
		if p != ".seq []" {
			keep = append(keep, p)
		}
	}
	if len(keep) == 1 {
		return keep[0]
	}
	return ".seq [" + strings.Join(keep, ", ") + "]"
}

// calls translates every writer-involving call inside a simple statement / expression, in source order.
func (f *c52flow) calls(n ast.Node) ([]string, error) {
	var out []string
	var ferr error
	ast.Inspect(n, func(m ast.Node) bool {
		if ferr != nil {
			return false
		}
		if _, ok := m.(*ast.FuncLit); ok {
			ferr = fmt.Errorf("function literal")
			return false
		}
		call, ok := m.(*ast.CallExpr)
		if !ok {
			return true
		}
		isW := func(e ast.Expr) bool {
			id, ok := e.(*ast.Ident)
			return ok && f.writers[id.Name]
		}
		fun := c52Src(call.Fun)
		var alts c52alts
		var err error
		switch {
		case func() bool { sel, ok := call.Fun.(*ast.SelectorExpr); return ok && isW(sel.X) }():
			if len(call.Args) != 1 {
				err = fmt.Errorf("writer method with %d arguments", len(call.Args))
				break
			}
			alts, err = f.ctx.value(call.Args[0])
		case fun == "fmt.Fprintf" && len(call.Args) >= 2 && isW(call.Args[0]):
			alts, err = f.ctx.format(call.Args[1:])
		case (fun == "fmt.Fprint" || fun == "fmt.Fprintln") && len(call.Args) == 2 && isW(call.Args[0]):
			alts, err = f.ctx.value(call.Args[1])
			if err == nil && fun == "fmt.Fprintln" {
				alts, err = c52cross(alts, c52lit("\n"))
			}
		default:
			has := false
			for _, a := range call.Args {
				if isW(a) {
					has = true
				}
			}
			if !has {
				return true
			}
			base := fun
			if i := strings.LastIndexByte(fun, '.'); i >= 0 {
				base = fun[i+1:]
			}
			if qs := f.withWriter[base]; len(qs) == 1 {
				f.called[qs[0]] = true
				out = append(out, ".call "+strconv.Quote(qs[0]))
				return false
			} else if len(qs) > 1 {
				ferr = fmt.Errorf("call of %s is ambiguous between %v", base, qs)
				return false
			}
			alts = c52alts{{{kind: "sub"}}}
		}
		if err != nil {
			ferr = fmt.Errorf("%s: %v", c52Src(call), err)
			return false
		}
		out = append(out, c52leanWrite(alts))
		return false
	})
	return out, ferr
}

func (f *c52flow) block(stmts []ast.Stmt) (string, error) {
	parts := []string{}
	for _, s := range stmts {
		p, err := f.stmt(s)
		if err != nil {
			return "", err
		}
		parts = append(parts, p)
	}
	return c52seq(parts), nil
}

func (f *c52flow) stmt(s ast.Stmt) (string, error) {
	switch x := s.(type) {
	case nil:
		return ".seq []", nil
	case *ast.BlockStmt:
		return f.block(x.List)
	case *ast.ExprStmt, *ast.AssignStmt, *ast.DeclStmt, *ast.IncDecStmt, *ast.EmptyStmt:
		cs, err := f.calls(x)
		if err != nil {
			return "", err
		}
		return c52seq(cs), nil
	case *ast.ReturnStmt:
		cs, err := f.calls(x)
		if err != nil {
			return "", err
		}
		return c52seq(append(cs, ".ret")), nil
	case *ast.BranchStmt:
		switch x.Tok {
		case token.CONTINUE:
			if x.Label != nil {
				return "", fmt.Errorf("labelled continue")
			}
			return ".cont", nil
		case token.BREAK:
			if x.Label != nil || f.inSwitch > 0 {
				return "", fmt.Errorf("break inside switch / labelled break")
			}
			return ".brk", nil
		case token.FALLTHROUGH:
			return "FALLTHROUGH", nil
		}
		return "", fmt.Errorf("goto")
	case *ast.IfStmt:
		parts := []string{}
		if x.Init != nil {
			p, err := f.stmt(x.Init)
			if err != nil {
				return "", err
			}
			parts = append(parts, p)
		}
		cs, err := f.calls(x.Cond)
		if err != nil {
			return "", err
		}
		parts = append(parts, cs...)
		th, err := f.stmt(x.Body)
		if err != nil {
			return "", err
		}
		el := ".seq []"
		if x.Else != nil {
			if el, err = f.stmt(x.Else); err != nil {
				return "", err
			}
		}
		parts = append(parts, ".choice ["+th+", "+el+"]")
		return c52seq(parts), nil
	case *ast.ForStmt:
		if x.Init != nil || x.Post != nil {
			for _, st := range []ast.Stmt{x.Init, x.Post} {
				if st != nil {
					if cs, err := f.calls(st); err != nil || len(cs) > 0 {
						return "", fmt.Errorf("writer call in for clause")
					}
				}
			}
		}
		save := f.inSwitch
		f.inSwitch = 0
		body, err := f.stmt(x.Body)
		f.inSwitch = save
		if err != nil {
			return "", err
		}
		return ".loop (" + body + ")", nil
	case *ast.RangeStmt:
		save := f.inSwitch
		f.inSwitch = 0
		body, err := f.stmt(x.Body)
		f.inSwitch = save
		if err != nil {
			return "", err
		}
		return ".loop (" + body + ")", nil
	case *ast.SwitchStmt, *ast.TypeSwitchStmt:
		var body *ast.BlockStmt
		parts := []string{}
		if sw, ok := x.(*ast.SwitchStmt); ok {
			body = sw.Body
			if sw.Init != nil {
				p, err := f.stmt(sw.Init)
				if err != nil {
					return "", err
				}
				parts = append(parts, p)
			}
		} else {
			body = x.(*ast.TypeSwitchStmt).Body
		}
		f.inSwitch++
		defer func() { f.inSwitch-- }()
		n := len(body.List)
		bodies := make([]string, n)
		falls := make([]bool, n)
		hasDefault := false
		for i, c := range body.List {
			cc := c.(*ast.CaseClause)
			if cc.List == nil {
				hasDefault = true
			}
			stmts := cc.Body
			if len(stmts) > 0 {
				if br, ok := stmts[len(stmts)-1].(*ast.BranchStmt); ok && br.Tok == token.FALLTHROUGH {
					falls[i] = true
					stmts = stmts[:len(stmts)-1]
				}
			}
			b, err := f.block(stmts)
			if err != nil {
				return "", err
			}
			if strings.Contains(b, "FALLTHROUGH") {
				return "", fmt.Errorf("fallthrough not at the end of a case")
			}
			bodies[i] = b
		}
		alts := []string{}
		for i := range bodies {
			seq := []string{bodies[i]}
			for j := i; j < n-1 && falls[j]; j++ {
				seq = append(seq, bodies[j+1])
			}
			alts = append(alts, c52seq(seq))
		}
		if !hasDefault {
			alts = append(alts, ".seq []")
		}
		parts = append(parts, ".choice ["+strings.Join(alts, ", ")+"]")
		return c52seq(parts), nil
	}
	return "", fmt.Errorf("unsupported statement %T", s)
}

func c52flowMain(args []string) error {
	fs := flag.NewFlagSet("c52flow", flag.ContinueOnError)
	repo := fs.String("repo", "/repo", "")
	dir := fs.String("dir", "gno.land/pkg/gnoweb/markdown", "")
	exclude := fs.String("exclude", "", "comma-separated file names to skip")
	ns := fs.String("ns", "GnoVerif.Gen.C52Flow", "")
	var vet c52multi
	fs.Var(&vet, "vetted", "expr=alt1|alt2 (repeatable)")
	if err := fs.Parse(args); err != nil {
		return err
	}
	vetted := map[string][]string{}
	for _, v := range vet {
		k, alts, ok := strings.Cut(v, "=")
		if !ok {
			return fmt.Errorf("bad --vetted %q", v)
		}
		vetted[k] = strings.Split(alts, "|")
	}
	skip := map[string]bool{}
	for _, f := range strings.Split(*exclude, ",") {
		if f != "" {
			skip[f] = true
		}
	}
	full := filepath.Join(*repo, *dir)
	files, err := c52GoFiles(full)
	if err != nil {
		return err
	}
	fset := token.NewFileSet()
	parsed := map[string]*ast.File{}
	ctx := &c52fmtCtx{consts: map[string]string{}, vetted: vetted}
	for _, fn := range files {
		f, err := parser.ParseFile(fset, filepath.Join(full, fn), nil, parser.SkipObjectResolution)
		if err != nil {
			return err
		}
		parsed[fn] = f
	}
	for pass := 0; pass < 2; pass++ {
		for _, fn := range files {
			for _, d := range parsed[fn].Decls {
				if gd, ok := d.(*ast.GenDecl); ok && gd.Tok == token.CONST {
					for _, s := range gd.Specs {
						vs := s.(*ast.ValueSpec)
						for i, n := range vs.Names {
							if i < len(vs.Values) {
								if v, ok := ctx.constString(vs.Values[i]); ok {
									ctx.consts[n.Name] = v
								}
							}
						}
					}
				}
			}
		}
	}
	fl := &c52flow{ctx: ctx, withWriter: map[string][]string{}, called: map[string]bool{}}
	qual := func(fd *ast.FuncDecl) string {
		r := c18RecvName(fd)
		if r != "" {
			return r + "_" + fd.Name.Name
		}
		return fd.Name.Name
	}
	type fdecl struct {
		file string
		fd   *ast.FuncDecl
	}
	var decls []fdecl
	for _, fn := range files {
		if skip[fn] {
			continue
		}
		for _, d := range parsed[fn].Decls {
			if fd, ok := d.(*ast.FuncDecl); ok && fd.Body != nil {
				for _, p := range fd.Type.Params.List {
					if c52IsWriterType(p.Type) {
						fl.withWriter[fd.Name.Name] = append(fl.withWriter[fd.Name.Name], qual(fd))
						decls = append(decls, fdecl{fn, fd})
						break
					}
				}
			}
		}
	}
	var sb strings.Builder
	fmt.Fprintf(&sb, "/- GENERATED by `gvx c52flow` from %s (excluded: %s) — do not edit; regenerated on every run. -/\nnamespace %s\n\n", *dir, *exclude, *ns)
	sb.WriteString(`/-- one piece of an output write -/
inductive Piece
  | lit (b : List Nat)  -- constant text
  | escT               -- HTMLEscapeString / html.EscapeString result
  | escG               -- goldmark util.EscapeHTML result
  | num                -- %d
  | sub                -- nested renderer writing a complete fragment
  deriving DecidableEq, Repr

/-- a renderer function, conditions abstracted away -/
inductive Prog
  | write (alts : List (List Piece))
  | seq (ps : List Prog)
  | choice (ps : List Prog)
  | loop (body : Prog)
  | call (f : String)
  | ret
  | cont
  | brk

`)
	names := []string{}
	for _, d := range decls {
		fl.writers = map[string]bool{}
		for _, p := range d.fd.Type.Params.List {
			if c52IsWriterType(p.Type) {
				for _, n := range p.Names {
					fl.writers[n.Name] = true
				}
			}
		}
		ctx.assign = map[string][]ast.Expr{}
		ast.Inspect(d.fd.Body, func(n ast.Node) bool {
			if as, ok := n.(*ast.AssignStmt); ok && len(as.Lhs) == len(as.Rhs) {
				for i, l := range as.Lhs {
					if id, ok := l.(*ast.Ident); ok {
						if as.Tok == token.ADD_ASSIGN {
							ctx.assign[id.Name] = append(ctx.assign[id.Name], &ast.BadExpr{})
						} else {
							ctx.assign[id.Name] = append(ctx.assign[id.Name], as.Rhs[i])
						}
					}
				}
			}
			return true
		})
		body, err := fl.block(d.fd.Body.List)
		if err != nil {
			return fmt.Errorf("%s %s: %v", d.file, qual(d.fd), err)
		}
		if strings.Contains(body, "FALLTHROUGH") {
			return fmt.Errorf("%s %s: fallthrough outside a switch case end", d.file, d.fd.Name.Name)
		}
		fmt.Fprintf(&sb, "/-- %s %s%s -/\ndef fn_%s : Prog :=\n  %s\n\n", d.file, recvString(d.fd), d.fd.Name.Name, qual(d.fd), body)
		names = append(names, qual(d.fd))
	}
	sb.WriteString("def funcs : List (String × Prog) := [")
	for i, n := range names {
		if i > 0 {
			sb.WriteString(", ")
		}
		fmt.Fprintf(&sb, "(%q, fn_%s)", n, n)
	}
	sb.WriteString("]\n\n")
	roots := []string{}
	for _, n := range names {
		if !fl.called[n] {
			roots = append(roots, n)
		}
	}
	sort.Strings(roots)
	sb.WriteString("/-- the goldmark node renderers: entered between complete fragments, i.e. in the data state -/\ndef roots : List String := [")
	for i, n := range roots {
		if i > 0 {
			sb.WriteString(", ")
		}
		sb.WriteString(strconv.Quote(n))
	}
	sb.WriteString("]\n")
	fmt.Fprintf(&sb, "\nend %s\n", *ns)
	os.Stdout.WriteString(sb.String())
	return nil
}
