// gvx — extractor / translator for the /verif machinery (DESIGN.md §3: T and F ties).
//
//	gvx tint  --repo R --file <rel.go> --ns <Lean namespace> [--funcs a,b,c]   T-int: Go integer code → Lean defs over BitVec
//	gvx <fact-subcommand> --repo R ...                                         F: code-shape facts, one per line
//
// It depends only on the Go standard library: it reads /repo as data, so a
// change in /repo can never stop it from compiling.
package main

import (
	"fmt"
	"os"
	"sort"
)

type sub struct {
	name string
	run  func(args []string) error
}

var subs = map[string]func(args []string) error{}

func register(name string, f func(args []string) error) { subs[name] = f }

func main() {
	if len(os.Args) < 2 {
		names := []string{}
		for n := range subs {
			names = append(names, n)
		}
		sort.Strings(names)
		fmt.Fprintln(os.Stderr, "usage: gvx <sub> [args]; subs:", names)
		os.Exit(2)
	}
	f, ok := subs[os.Args[1]]
	if !ok {
		fmt.Fprintln(os.Stderr, "gvx: unknown subcommand", os.Args[1])
		os.Exit(2)
	}
	if err := f(os.Args[2:]); err != nil {
		fmt.Fprintln(os.Stderr, "gvx "+os.Args[1]+":", err)
		os.Exit(1)
	}
}
