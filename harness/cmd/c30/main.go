// Harness for C30: the IAVL tree (tm2/pkg/iavl) is a correct versioned,
// provable map.
//
// The REAL iavl.MutableTree runs in-process over a memdb.  Every case owns
//
//   - the PRIMARY tree (the object under test; cache size, InitialVersion and
//     flush threshold from the `new` line, default = what
//     tm2/pkg/store/iavl.StoreConstructor uses: cache 10000,
//     skipFastStorageUpgrade = true, flush threshold 100000), whose outputs are
//     the implementation column compared with the Lean model, and
//   - a SHADOW tree on its own memdb that replays exactly the same mutating
//     history under a deliberately different configuration: other cache size
//     (0 or 3), the fast-node index switched ON, the small flush threshold 300
//     when the primary has the default one, and closed + reopened from the
//     database after every SaveVersion of a new version.  The shadow is only
//     used by the oracle: equal histories must give equal answers, versions,
//     root hashes and proofs whatever the configuration ("the root hash is a
//     function of the version contents and history").  It is dropped for the
//     rest of a case once it has diverged.
//
// op lines (K, V lowercase hex, `e` = empty; S, E hex or `-` = nil/unbounded;
// VER, I int64 decimal):
//
//	new CACHE IV FLUSH          fresh database + tree (IV 0 = no InitialVersion option;
//	                            FLUSH = batch flush threshold); the primary never uses the
//	                            fast-node index (gno's StoreConstructor never does), the shadow always
//	set K V | rm K              MutableTree.Set / Remove on the working tree (V `-` = nil value)
//	get K | has K | gwi K | gbi I | size | height | ver
//	it A S E INC                A = a|d; INC 0: ImmutableTree.IterateRange (the call the store
//	                            makes) cross-checked with the dbm Iterator; INC 1: IterateRangeInclusive
//	                            (panic:nilderef on a working tree with an unsaved leaf in range)
//	save | hash | whash | rollback | load VER | reopen
//	lvo VER                     LoadVersionForOverwriting, VER >= 1 only (err:badop otherwise)
//	delto VER                   DeleteVersionsTo; refused (err:guard, not executed) when VER is at or
//	                            above the version the working tree was loaded from while newer versions exist
//	vex VER | avail | vget VER K
//	iget VER K | ihas VER K | igwi VER K | igbi VER I | isize VER | iheight VER | ihash VER |
//	iit VER A S E INC | ishape VER              reads of a saved version: VersionExists gate, then
//	                            GetImmutable (what store.GetImmutable does); ishape = post-order Export
//	prove VER K                 ics23 proof exactly as store.Query builds it, verified through
//	                            types.CommitmentOp (the store's proof operator)
//
// canonical outputs: see lean/GnoVerif/Drive/C30.lean.
//
// Oracle (independent of the Lean model): one plain Go map for the working
// tree and one per retained version, driven by the property statement only:
// every read of the working tree and of every retained version must equal the
// map's answer (value, presence, rank, i-th entry, size, range filter of the
// sorted keys in both directions, inclusive or not; every `it` on the working tree is also
// run through MutableTree.Iterator(start, end, asc) on BOTH trees — on the shadow that is the
// UnsavedFastIterator merging the on-disk index with the pending Set/Remove — and compared
// with the working map, i.e. saved contents + pending changes); after every mutating op one
// retained version is re-read completely and after save/load/delete/reopen ALL of
// them, on both trees ("saved versions are immutable"); shadow vs primary as
// above; and for proofs: the proof of the true answer verifies against the
// version's root hash (unless ics23 cannot express it: empty key / empty value /
// no neighbour), and every mutation (other value, flipped value bit, other key,
// flipped root bit, flipped byte in every proof component, truncated path,
// existence proof presented as absence and vice versa, absence proof re-used for
// every present key, neighbours of a present key presented as an absence proof,
// absence proof without one of its neighbours) is rejected.
//
// VIOL classes that are recorded findings of the unchanged tree
// (known_findings/C30.json): ghost-version, flush-split, fast-stale-unsaved,
// fast-empty-key.  Every other class (read, iterate, iterate-working, set, remove, immutable,
// version-lost, prune-fail, reopen, balance, config-dependent, proof-*) fails the run.
package main

import (
	"bytes"
	"crypto/sha256"
	"encoding/hex"
	"errors"
	"fmt"
	"sort"
	"strconv"
	"strings"

	ics23 "github.com/cosmos/ics23/go"

	"github.com/gnolang/gno/tm2/pkg/crypto/merkle"
	dbm "github.com/gnolang/gno/tm2/pkg/db"
	"github.com/gnolang/gno/tm2/pkg/db/memdb"
	"github.com/gnolang/gno/tm2/pkg/iavl"
	storetypes "github.com/gnolang/gno/tm2/pkg/store/types"

	"gnoverif/kit"
)

// ---------------------------------------------------------------- configuration

type config struct {
	cache int
	fast  bool // fast-node index enabled (skipFastStorageUpgrade = !fast)
	iv    uint64
	flush int
}

var defaultCfg = config{cache: 10000, fast: false, iv: 0, flush: 100000}

func (c config) shadow() config {
	s := c
	if c.cache == 0 {
		s.cache = 3
	} else {
		s.cache = 0
	}
	s.fast = true
	if c.flush == 100000 {
		s.flush = 300
	} else {
		s.flush = 100000
	}
	return s
}

func newTree(db dbm.DB, c config) *iavl.MutableTree {
	opts := []iavl.Option{iavl.FlushThresholdOption(c.flush)}
	if c.iv != 0 {
		opts = append(opts, iavl.InitialVersionOption(c.iv))
	}
	return iavl.NewMutableTree(db, c.cache, !c.fast, iavl.NewNopLogger(), opts...)
}

// ---------------------------------------------------------------- state

type inst struct {
	db   dbm.DB
	tree *iavl.MutableTree
	cfg  config
}

type omap map[string][]byte

func (m omap) clone() omap {
	c := make(omap, len(m))
	for k, v := range m {
		c[k] = v
	}
	return c
}

func (m omap) keys() []string {
	ks := make([]string, 0, len(m))
	for k := range m {
		ks = append(ks, k)
	}
	sort.Strings(ks)
	return ks
}

var (
	prim   *inst
	shad   *inst
	shadOK bool // shadow still in lock-step with the primary

	// oracle
	work     omap           // contents of the working tree
	saved    map[int64]omap // contents of every retained version
	known    bool           // false once the oracle lost track of the working tree (see resync)
	mutCount int

	// fast-node index of the shadow (finding fast-stale-unsaved): LoadVersion does not
	// clear the unsaved fast-node additions/removals, so keys written since the last
	// save/rollback keep answering from the discarded overlay (and are persisted into the
	// index by the next save).  touched = keys with an unsaved overlay entry;
	// suspect = keys whose index entry may be stale (only grows within a case).
	touched       map[string]bool
	suspect       map[string]bool
	staleReported bool

	// a deleted version whose whole tree was one key: the precondition of the
	// ghost-version finding (its leaf's database key (v,1) can outlive the version)
	singleDeleted bool
)

func reset() { resetWith(defaultCfg) }

func resetWith(c config) {
	prim = &inst{db: memdb.NewMemDB(), cfg: c}
	prim.tree = newTree(prim.db, c)
	sc := c.shadow()
	shad = &inst{db: memdb.NewMemDB(), cfg: sc}
	shad.tree = newTree(shad.db, sc)
	// a tree with the fast index must be loaded once before use (as every caller does)
	loadFresh(prim)
	loadFresh(shad)
	shadOK = true
	work = omap{}
	saved = map[int64]omap{}
	known = true
	mutCount = 0
	touched = map[string]bool{}
	suspect = map[string]bool{}
	staleReported = false
	singleDeleted = false
}

func loadFresh(i *inst) {
	if i.cfg.fast {
		if _, err := i.tree.Load(); err != nil {
			panic("fresh load: " + err.Error())
		}
	}
}

// ---------------------------------------------------------------- canonical output

func hx(b []byte) string {
	if b == nil {
		return "-"
	}
	if len(b) == 0 {
		return "e"
	}
	return hex.EncodeToString(b)
}

// keys are printed with nil and empty identified (Go compares them equal)
func hk(b []byte) string {
	if len(b) == 0 {
		return "e"
	}
	return hex.EncodeToString(b)
}

func clip(s string) string {
	if len(s) <= 240 {
		return s
	}
	h := uint64(14695981039346656037)
	for i := 0; i < len(s); i++ {
		h = (h ^ uint64(s[i])) * 1099511628211
	}
	return fmt.Sprintf("#%d:%d:%s", len(s), h, s[:160])
}

func errClass(err error) string {
	if err == nil {
		return "ok"
	}
	if errors.Is(err, iavl.ErrVersionDoesNotExist) {
		return "err:noversion"
	}
	m := err.Error()
	switch {
	case strings.Contains(m, "attempt to store nil value"):
		return "err:nilvalue"
	case strings.Contains(m, "initial version set to"):
		return "err:initver"
	case strings.Contains(m, "wanted to load target"):
		return "err:target"
	case strings.Contains(m, "no versions found"):
		return "err:empty"
	case strings.Contains(m, "was already saved to different hash"):
		return "err:diffhash"
	case strings.Contains(m, "is less than or equal to toVersion"):
		return "err:latest"
	case strings.Contains(m, "active readers"):
		return "err:readers"
	case strings.Contains(m, "cannot create NonExistanceProof"):
		return "err:present"
	case strings.Contains(m, "key does not exist"):
		return "err:absent"
	case strings.Contains(m, "Value missing for key"):
		return "err:missingnode"
	}
	return "err:other"
}

// ---------------------------------------------------------------- parsing

func pHex(s string) ([]byte, bool) { // key / value: strict lowercase hex or `e`
	if s == "e" {
		return []byte{}, true
	}
	if s == "" || len(s)%2 != 0 {
		return nil, false
	}
	for i := 0; i < len(s); i++ {
		c := s[i]
		if !(c >= '0' && c <= '9' || c >= 'a' && c <= 'f') {
			return nil, false
		}
	}
	b, err := hex.DecodeString(s)
	if err != nil {
		return nil, false
	}
	return b, true
}

func pHexOpt(s string) ([]byte, bool) { // bound / value-or-nil: `-` = nil
	if s == "-" {
		return nil, true
	}
	return pHex(s)
}

func pI64(s string) (int64, bool) {
	ds := s
	if strings.HasPrefix(ds, "-") {
		ds = ds[1:]
	}
	if ds == "" || len(ds) > 19 {
		return 0, false
	}
	for i := 0; i < len(ds); i++ {
		if ds[i] < '0' || ds[i] > '9' {
			return 0, false
		}
	}
	n, err := strconv.ParseInt(s, 10, 64)
	if err != nil {
		return 0, false
	}
	return n, true
}

func pNat(s string, max int64) (int64, bool) {
	n, ok := pI64(s)
	if !ok || n < 0 || n > max || strings.HasPrefix(s, "-") {
		return 0, false
	}
	return n, true
}

// ---------------------------------------------------------------- oracle helpers

func viol(class, format string, a ...any) string {
	return "VIOL:" + class + " " + fmt.Sprintf(format, a...)
}

// first violation wins
type verdict struct{ v string }

func (d *verdict) set(s string) {
	if d.v == "" || d.v == "ok" || d.v == "-" {
		if s != "" {
			d.v = s
		}
	}
}
func (d *verdict) bad() bool { return strings.HasPrefix(d.v, "VIOL") }
func (d *verdict) fail(class, format string, a ...any) {
	if !d.bad() {
		d.v = viol(class, format, a...)
	}
}
func (d *verdict) ok() {
	if d.v == "" || d.v == "-" {
		d.v = "ok"
	}
}
func (d *verdict) String() string {
	if d.v == "" {
		return "-"
	}
	return d.v
}

func inRange(k string, s, e []byte, inc bool) bool {
	if s != nil && bytes.Compare([]byte(k), s) < 0 {
		return false
	}
	if e != nil {
		c := bytes.Compare([]byte(k), e)
		if c > 0 || (c == 0 && !inc) {
			return false
		}
	}
	return true
}

func expectRange(m omap, asc bool, s, e []byte, inc bool) []string {
	var out []string
	for _, k := range m.keys() {
		if inRange(k, s, e, inc) {
			out = append(out, hk([]byte(k))+"="+hx(m[k]))
		}
	}
	if !asc {
		for i, j := 0, len(out)-1; i < j; i, j = i+1, j-1 {
			out[i], out[j] = out[j], out[i]
		}
	}
	return out
}

func rank(m omap, k []byte) int64 {
	n := int64(0)
	for kk := range m {
		if bytes.Compare([]byte(kk), k) < 0 {
			n++
		}
	}
	return n
}

func joinOrDash(xs []string) string {
	if len(xs) == 0 {
		return "-"
	}
	return strings.Join(xs, ",")
}

// full content of an immutable tree through IterateRange
func dump(t *iavl.ImmutableTree) []string {
	var out []string
	t.IterateRange(nil, nil, true, func(k, v []byte) bool {
		out = append(out, hk(k)+"="+hx(v))
		return false
	})
	return out
}

// checkVersion re-reads retained version v of instance i completely
func checkVersion(d *verdict, i *inst, who string, v int64) {
	m, ok := saved[v]
	if !ok {
		return
	}
	lost := "version-lost"
	if i.cfg.flush < 100000 && i != prim {
		lost = "flush-split"
	}
	if !i.tree.VersionExists(v) {
		d.fail(lost, "%s(%+v): retained version %d does not exist", who, i.cfg, v)
		if i == shad {
			dropShadow()
		}
		return
	}
	t, err := i.tree.GetImmutable(v)
	if err != nil {
		d.fail(lost, "%s(%+v): retained version %d unreadable: %s", who, i.cfg, v, errClass(err))
		if i == shad {
			dropShadow()
		}
		return
	}
	var got []string
	func() {
		defer func() {
			if r := recover(); r != nil {
				d.fail("version-lost", "%s: reading retained version %d panics: %v", who, v, r)
			}
		}()
		got = dump(t)
	}()
	if d.bad() {
		return
	}
	want := expectRange(m, true, nil, nil, false)
	if strings.Join(got, ",") != strings.Join(want, ",") {
		d.fail("immutable", "%s: version %d reads %s, saved contents were %s", who, v, clip(joinOrDash(got)), clip(joinOrDash(want)))
		return
	}
	if t.Size() != int64(len(m)) {
		d.fail("immutable", "%s: version %d size %d, want %d", who, v, t.Size(), len(m))
	}
}

func retained() []int64 {
	vs := make([]int64, 0, len(saved))
	for v := range saved {
		vs = append(vs, v)
	}
	sort.Slice(vs, func(a, b int) bool { return vs[a] < vs[b] })
	return vs
}

func checkAllVersions(d *verdict) {
	for _, v := range retained() {
		checkVersion(d, prim, "primary", v)
		if shadOK {
			checkVersion(d, shad, "shadow", v)
		}
	}
}

func checkOneVersion(d *verdict) {
	vs := retained()
	if len(vs) == 0 {
		return
	}
	v := vs[mutCount%len(vs)]
	checkVersion(d, prim, "primary", v)
	if shadOK {
		checkVersion(d, shad, "shadow", v)
	}
}

// working tree of instance i against the oracle map (through the API a
// fast-index tree answers from its index: Get / Iterator)
func checkWorking(d *verdict, i *inst, who string) {
	if !known {
		return
	}
	var got []string
	itr, err := i.tree.Iterator(nil, nil, true)
	if err != nil {
		d.fail("read", "%s: Iterator: %s", who, errClass(err))
		return
	}
	for ; itr.Valid(); itr.Next() {
		got = append(got, hk(itr.Key())+"="+hx(itr.Value()))
	}
	itr.Close()
	want := expectRange(work, true, nil, nil, false)
	if strings.Join(got, ",") != strings.Join(want, ",") {
		cls := readClass(i, got, want)
		// the stale-overlay finding is reported once per case; the affected keys stay wrong
		if cls != "fast-stale-unsaved" || !staleReported {
			d.fail(cls, "%s(%+v): working tree iterates %s, want %s", who, i.cfg, clip(joinOrDash(got)), clip(joinOrDash(want)))
		}
		if cls == "fast-stale-unsaved" {
			staleReported = true
		}
	}
	if i.tree.Size() != int64(len(work)) {
		d.fail("read", "%s: working size %d, want %d", who, i.tree.Size(), len(work))
	}
}

// readClass names a wrong read: on a fast-index instance a difference confined to
// suspect keys is the known stale-overlay finding, anything else is `read`.
func readClass(i *inst, got, want []string) string {
	if !i.cfg.fast {
		return "read"
	}
	g, w := map[string]string{}, map[string]string{}
	for _, e := range got {
		kv := strings.SplitN(e, "=", 2)
		g[kv[0]] = kv[1]
	}
	for _, e := range want {
		kv := strings.SplitN(e, "=", 2)
		w[kv[0]] = kv[1]
	}
	for k, v := range g {
		if w[k] != v && !suspectHex(k) {
			return "read"
		}
	}
	for k, v := range w {
		if g[k] != v && !suspectHex(k) {
			return "read"
		}
	}
	return "fast-stale-unsaved"
}

func suspectHex(hk string) bool {
	if hk == "e" {
		return suspect[""]
	}
	b, err := hex.DecodeString(hk)
	return err == nil && suspect[string(b)]
}

// GetVersioned drops the error GetFastNode returns for the empty key and then takes
// "no fast node at the latest version" for "absent" (fast-node index only)
func vgetClass(i *inst, k []byte) string {
	if i.cfg.fast && len(k) == 0 {
		return "fast-empty-key"
	}
	return keyClass(i, k)
}

func keyClass(i *inst, k []byte) string {
	if i.cfg.fast && suspect[string(k)] {
		staleReported = true
		return "fast-stale-unsaved"
	}
	return "read"
}

// checkWorkingRange: MutableTree.Iterator(start, end, ascending) on the WORKING tree of
// both instances — on the fast-index shadow this is the UnsavedFastIterator, which merges
// the on-disk index with the unsaved additions / removals — must list exactly the entries
// of the working map (saved contents + pending changes) with start <= key < end.
func checkWorkingRange(d *verdict, args []string) {
	if !known || len(args) != 4 {
		return
	}
	asc, ok1 := pDir(args[0])
	s, ok2 := pHexOpt(args[1])
	e, ok3 := pHexOpt(args[2])
	if !(ok1 && ok2 && ok3) {
		return
	}
	want := expectRange(work, asc, s, e, false)
	one := func(i *inst, who string) {
		var got []string
		itr, err := i.tree.Iterator(s, e, asc)
		if err != nil {
			d.fail("iterate-working", "%s(%+v): Iterator(%s,%s,%v): %s", who, i.cfg, hx(s), hx(e), asc, errClass(err))
			return
		}
		for ; itr.Valid(); itr.Next() {
			got = append(got, hk(itr.Key())+"="+hx(itr.Value()))
		}
		itr.Close()
		if strings.Join(got, ",") == strings.Join(want, ",") {
			return
		}
		cls := readClass(i, got, want)
		if cls == "read" {
			cls = "iterate-working"
		}
		if cls == "fast-stale-unsaved" {
			if staleReported {
				return
			}
			staleReported = true
		}
		d.fail(cls, "%s(%+v): working tree Iterator(%s,%s,asc=%v) yields %s, want %s", who, i.cfg, hx(s), hx(e), asc,
			clip(joinOrDash(got)), clip(joinOrDash(want)))
	}
	one(prim, "primary")
	if shadOK {
		one(shad, "shadow")
	}
	d.ok()
}

// resync: the oracle cannot know the contents (e.g. the implementation loaded
// a version the oracle considers deleted): trust the implementation from here.
func resync() {
	work = omap{}
	prim.tree.ImmutableTree.IterateRange(nil, nil, true, func(k, v []byte) bool {
		work[string(k)] = v
		return false
	})
	known = true
}

func dropShadow() { shadOK = false }

// ---------------------------------------------------------------- proofs

type proofOut struct {
	kind     string // exist | nonexist
	line     string
	proof    *ics23.CommitmentProof
	root     []byte
	value    []byte
	genErr   error
	tree     *iavl.ImmutableTree
	haveTree bool
}

func leU64(buf *bytes.Buffer, n int) {
	var b [8]byte
	for i := 0; i < 8; i++ {
		b[i] = byte(uint64(n) >> (8 * i))
	}
	buf.Write(b[:])
}

// digest of an existence proof: sha256 over len-framed leaf prefix and (prefix, suffix) of every inner op
func existBytes(buf *bytes.Buffer, e *ics23.ExistenceProof) {
	if e == nil {
		buf.WriteByte(0)
		return
	}
	buf.WriteByte(1)
	fr := func(b []byte) { leU64(buf, len(b)); buf.Write(b) }
	fr(e.Key)
	fr(e.Value)
	fr(e.Leaf.Prefix)
	leU64(buf, len(e.Path))
	for _, op := range e.Path {
		fr(op.Prefix)
		fr(op.Suffix)
	}
}

func digest(b []byte) string {
	h := sha256.Sum256(b)
	return hex.EncodeToString(h[:8])
}

// buildProof does what store.Query does for `/key` with Prove
// For the shadow the value comes from the oracle (useOracle): the comparison is about
// the tree and its hashes, not about the fast-node index GetVersioned would consult.
func buildProof(i *inst, ver int64, key []byte, useOracle bool) proofOut {
	var p proofOut
	if !i.tree.VersionExists(ver) {
		p.genErr = iavl.ErrVersionDoesNotExist
		return p
	}
	var value []byte
	var err error
	if useOracle {
		value = saved[ver][string(key)]
	} else {
		value, err = i.tree.GetVersioned(key, ver)
	}
	if err != nil {
		p.genErr = err
		return p
	}
	it, err := i.tree.GetImmutable(ver)
	if err != nil {
		p.genErr = err
		return p
	}
	p.tree, p.haveTree = it, true
	mt := &iavl.MutableTree{ImmutableTree: it}
	p.value = value
	p.root = it.Hash()
	if value != nil {
		p.kind = "exist"
		p.proof, p.genErr = mt.GetMembershipProof(key)
	} else {
		p.kind = "nonexist"
		p.proof, p.genErr = mt.GetNonMembershipProof(key)
	}
	return p
}

// verifyOp is the store's proof operator path: marshal -> ProofOp -> decode -> Run
func verifyOp(key []byte, proof *ics23.CommitmentProof, root []byte, args [][]byte) (ok bool) {
	defer func() {
		if r := recover(); r != nil {
			ok = false
		}
	}()
	pop := storetypes.NewIavlCommitmentOp(key, proof).ProofOp()
	op, err := storetypes.CommitmentOpDecoder(merkle.ProofOp{Type: pop.Type, Key: pop.Key, Data: pop.Data})
	if err != nil {
		return false
	}
	roots, err := op.Run(args)
	if err != nil || len(roots) != 1 {
		return false
	}
	return bytes.Equal(roots[0], root)
}

func cloneProof(p *ics23.CommitmentProof) *ics23.CommitmentProof {
	bz, err := p.Marshal()
	if err != nil {
		panic(err)
	}
	q := &ics23.CommitmentProof{}
	if err := q.Unmarshal(bz); err != nil {
		panic(err)
	}
	return q
}

func flip(b []byte, i int) []byte {
	c := append([]byte{}, b...)
	c[i%len(c)] ^= 1 << uint(i%8)
	return c
}

// every single-component mutation of an existence proof
func mutateExist(e *ics23.ExistenceProof, salt int, f func(name string)) {
	if e == nil {
		return
	}
	save := e.Leaf.Prefix
	e.Leaf.Prefix = flip(save, salt)
	f("leaf-prefix")
	e.Leaf.Prefix = save
	for j := range e.Path {
		if len(e.Path[j].Prefix) > 0 {
			sp := e.Path[j].Prefix
			e.Path[j].Prefix = flip(sp, salt+j)
			f(fmt.Sprintf("inner%d-prefix", j))
			e.Path[j].Prefix = sp
		}
		if len(e.Path[j].Suffix) > 0 {
			ss := e.Path[j].Suffix
			e.Path[j].Suffix = flip(ss, salt+j)
			f(fmt.Sprintf("inner%d-suffix", j))
			e.Path[j].Suffix = ss
		}
	}
	if len(e.Path) > 0 {
		sp := e.Path
		e.Path = sp[:len(sp)-1]
		f("path-truncated")
		e.Path = sp
	}
}

func checkProof(d *verdict, p proofOut, ver int64, key []byte) {
	m, ok := saved[ver]
	if !ok {
		return // not a retained version: the statement says nothing
	}
	if p.genErr != nil {
		d.fail("proof-gen", "version %d key %s: %s", ver, hk(key), errClass(p.genErr))
		return
	}
	want, present := m[string(key)]
	if present != (p.kind == "exist") {
		d.fail("proof-kind", "version %d key %s present=%v but proof kind %s", ver, hk(key), present, p.kind)
		return
	}
	salt := len(key) + int(ver)
	// ics23 (LeafOp.Apply) refuses an empty key or an empty value, and an absence proof
	// needs at least one neighbour: such answers have no verifying proof at all.  No
	// completeness verdict for them; every soundness check below still applies.
	provable := provableAnswer(m, key)
	if present {
		if !bytes.Equal(p.value, want) {
			d.fail("read", "GetVersioned(%s,%d)=%s want %s", hk(key), ver, hx(p.value), hx(want))
			return
		}
		if provable {
			if !verifyOp(key, p.proof, p.root, [][]byte{want}) {
				d.fail("proof-complete", "membership proof of %s=%s at version %d does not verify", hk(key), hx(want), ver)
				return
			}
			if okk, err := p.tree.VerifyMembership(p.proof, key); err != nil || !okk {
				d.fail("proof-complete", "ImmutableTree.VerifyMembership rejects its own proof (%s@%d)", hk(key), ver)
				return
			}
		}
		// wrong value
		other := append(append([]byte{}, want...), 0x01)
		if verifyOp(key, p.proof, p.root, [][]byte{other}) {
			d.fail("proof-sound", "membership proof of %s verifies a different value at version %d", hk(key), ver)
			return
		}
		if len(want) > 0 && verifyOp(key, p.proof, p.root, [][]byte{flip(want, salt)}) {
			d.fail("proof-sound", "membership proof of %s verifies a bit-flipped value at version %d", hk(key), ver)
			return
		}
		// wrong key
		otherKey := append(append([]byte{}, key...), 0x00)
		if verifyOp(otherKey, p.proof, p.root, [][]byte{want}) {
			d.fail("proof-sound", "membership proof of %s verifies for key %s", hk(key), hk(otherKey))
			return
		}
		// presented as an absence proof
		if verifyOp(key, p.proof, p.root, nil) {
			d.fail("proof-sound", "membership proof of %s verifies as absence", hk(key))
			return
		}
		// wrong root
		if verifyOp(key, p.proof, flip(p.root, salt), [][]byte{want}) {
			d.fail("proof-sound", "membership proof verifies against a flipped root")
			return
		}
		// mutated proof
		q := cloneProof(p.proof)
		mutateExist(q.GetExist(), salt, func(name string) {
			if verifyOp(key, q, p.root, [][]byte{want}) {
				d.fail("proof-sound", "membership proof of %s with mutated %s still verifies (version %d)", hk(key), name, ver)
			}
		})
		// forged absence of a present key from its neighbours' existence proofs
		forgeAbsence(d, p, m, ver, key)
	} else {
		if provable {
			if !verifyOp(key, p.proof, p.root, nil) {
				d.fail("proof-complete", "absence proof of %s at version %d does not verify", hk(key), ver)
				return
			}
			if okk, err := p.tree.VerifyNonMembership(p.proof, key); err != nil || !okk {
				d.fail("proof-complete", "ImmutableTree.VerifyNonMembership rejects its own proof (%s@%d)", hk(key), ver)
				return
			}
		}
		if verifyOp(key, p.proof, flip(p.root, salt), nil) {
			d.fail("proof-sound", "absence proof verifies against a flipped root")
			return
		}
		// an absence proof must not prove absence of a present key
		for _, k := range m.keys() {
			if verifyOp([]byte(k), p.proof, p.root, nil) {
				d.fail("proof-sound", "absence proof of %s verifies absence of present key %s (version %d)", hk(key), hk([]byte(k)), ver)
				return
			}
		}
		// nor membership of the absent key with any value
		if verifyOp(key, p.proof, p.root, [][]byte{{}}) || verifyOp(key, p.proof, p.root, [][]byte{{1}}) {
			d.fail("proof-sound", "absence proof of %s verifies as membership", hk(key))
			return
		}
		q := cloneProof(p.proof)
		ne := q.GetNonexist()
		for _, side := range []*ics23.ExistenceProof{ne.Left, ne.Right} {
			mutateExist(side, salt, func(name string) {
				if verifyOp(key, q, p.root, nil) {
					d.fail("proof-sound", "absence proof of %s with mutated %s still verifies (version %d)", hk(key), name, ver)
				}
			})
		}
		// an existence proof of a neighbour presented as membership of the absent key
		if ne.Left != nil {
			ep := &ics23.CommitmentProof{Proof: &ics23.CommitmentProof_Exist{Exist: ne.Left}}
			if verifyOp(key, ep, p.root, [][]byte{ne.Left.Value}) {
				d.fail("proof-sound", "neighbour's existence proof verifies membership of absent key %s", hk(key))
				return
			}
		}
		// dropping one neighbour must not verify unless the key really is outside that end
		if ne.Left != nil && ne.Right != nil {
			l := ne.Left
			ne.Left = nil
			if verifyOp(key, q, p.root, nil) {
				d.fail("proof-sound", "absence proof of inner key %s verifies without its left neighbour", hk(key))
			}
			ne.Left = l
			r := ne.Right
			ne.Right = nil
			if verifyOp(key, q, p.root, nil) {
				d.fail("proof-sound", "absence proof of inner key %s verifies without its right neighbour", hk(key))
			}
			ne.Right = r
		}
	}
	d.ok()
}

// provableAnswer: does ics23 admit a proof of the true answer about key at all?
func provableAnswer(m omap, key []byte) bool {
	leafOK := func(k string) bool { return len(k) > 0 && len(m[k]) > 0 }
	if _, present := m[string(key)]; present {
		return leafOK(string(key))
	}
	ks := m.keys()
	if len(ks) == 0 {
		return false
	}
	idx := sort.SearchStrings(ks, string(key))
	if idx > 0 && !leafOK(ks[idx-1]) {
		return false
	}
	if idx < len(ks) && !leafOK(ks[idx]) {
		return false
	}
	return true
}

func forgeAbsence(d *verdict, p proofOut, m omap, ver int64, key []byte) {
	ks := m.keys()
	idx := sort.SearchStrings(ks, string(key))
	mt := &iavl.MutableTree{ImmutableTree: p.tree}
	ne := &ics23.NonExistenceProof{Key: key}
	if idx > 0 {
		lp, err := mt.GetMembershipProof([]byte(ks[idx-1]))
		if err != nil {
			return
		}
		ne.Left = lp.GetExist()
	}
	if idx+1 < len(ks) {
		rp, err := mt.GetMembershipProof([]byte(ks[idx+1]))
		if err != nil {
			return
		}
		ne.Right = rp.GetExist()
	}
	if ne.Left == nil && ne.Right == nil {
		return
	}
	forged := &ics23.CommitmentProof{Proof: &ics23.CommitmentProof_Nonexist{Nonexist: ne}}
	if verifyOp(key, forged, p.root, nil) {
		d.fail("proof-sound", "forged absence proof (neighbours of present key %s) verifies at version %d", hk(key), ver)
	}
}

func proofLine(p proofOut) string {
	if p.genErr != nil {
		return errClass(p.genErr)
	}
	var buf bytes.Buffer
	switch p.kind {
	case "exist":
		e := p.proof.GetExist()
		existBytes(&buf, e)
		return fmt.Sprintf("exist %s %s %d %s %s", hk(e.Key), hx(e.Value), len(e.Path), digest(buf.Bytes()), hx(p.root))
	default:
		ne := p.proof.GetNonexist()
		existBytes(&buf, ne.Left)
		existBytes(&buf, ne.Right)
		l, r := "-", "-"
		if ne.Left != nil {
			l = hk(ne.Left.Key)
		}
		if ne.Right != nil {
			r = hk(ne.Right.Key)
		}
		return fmt.Sprintf("nonexist %s %s %s %s", l, r, digest(buf.Bytes()), hx(p.root))
	}
}

// ---------------------------------------------------------------- exec

const badop = "err:badop"

func iterLine(t *iavl.ImmutableTree, asc bool, s, e []byte, inc bool) []string {
	var out []string
	if inc {
		t.IterateRangeInclusive(s, e, asc, func(k, v []byte, _ int64) bool {
			out = append(out, hk(k)+"="+hx(v))
			return false
		})
	} else {
		t.IterateRange(s, e, asc, func(k, v []byte) bool {
			out = append(out, hk(k)+"="+hx(v))
			return false
		})
	}
	return out
}

func viaIterator(t *iavl.ImmutableTree, asc bool, s, e []byte) []string {
	var out []string
	itr := iavl.NewIterator(s, e, asc, t)
	for ; itr.Valid(); itr.Next() {
		out = append(out, hk(itr.Key())+"="+hx(itr.Value()))
	}
	itr.Close()
	return out
}

func pDir(s string) (bool, bool) {
	switch s {
	case "a":
		return true, true
	case "d":
		return false, true
	}
	return false, false
}

func pInc(s string) (bool, bool) {
	switch s {
	case "0":
		return false, true
	case "1":
		return true, true
	}
	return false, false
}

// shadow replays a mutating op; want is the primary's canonical output.  ghost tells
// whether an answer is a symptom of the known ghost-version finding (the shadow is
// reopened after every save, the primary is not, so they meet ghosts at different times).
func shadowDo(d *verdict, what string, want string, ghost func(out string) bool, f func(i *inst) string) {
	if !shadOK {
		return
	}
	var got string
	func() {
		defer func() {
			if r := recover(); r != nil {
				got = "panic:" + fmt.Sprint(r)
			}
		}()
		got = f(shad)
	}()
	if got != want {
		if ghost != nil && ghost(want) {
			d.fail(pruneClass(prim, "prune-fail"), "%s: primary(%+v) answers %s, shadow(%+v, reopened after every save) answers %s", what, prim.cfg, want, shad.cfg, clip(got))
		} else if ghost != nil && ghost(got) {
			d.fail(pruneClass(shad, "prune-fail"), "%s: primary answers %s, shadow(%+v, reopened after every save) answers %s", what, want, shad.cfg, clip(got))
		} else {
			d.fail("config-dependent", "%s: primary(%+v) answers %s, shadow(%+v, reopened after every save) answers %s", what, prim.cfg, want, shad.cfg, clip(got))
		}
		dropShadow()
	}
}

// pruneClass names a failure of the version bookkeeping (DeleteVersionsTo failing with
// "version does not exist" on a proper prefix of the retained versions, a retained
// version that cannot be read): the two recorded findings have crisp preconditions the
// oracle knows independently; anything else is an unknown violation.
func pruneClass(i *inst, unknown string) string {
	if singleDeleted {
		return "ghost-version"
	}
	if i.cfg.flush < 100000 {
		return "flush-split"
	}
	return unknown
}

func forgetVersion(x int64) {
	if m, ok := saved[x]; ok && len(m) == 1 {
		singleDeleted = true
	}
	delete(saved, x)
}

func newestRetained() int64 {
	vs := retained()
	if len(vs) == 0 {
		return 0
	}
	return vs[len(vs)-1]
}

func reopen(i *inst) string {
	i.tree = newTree(i.db, i.cfg)
	v, err := i.tree.Load()
	if err != nil {
		return errClass(err)
	}
	return strconv.FormatInt(v, 10)
}

func readsOfTree(d *verdict, t *iavl.ImmutableTree, m omap, have bool, op string, toks []string) (string, bool) {
	switch op {
	case "get", "has", "gwi":
		if len(toks) != 1 {
			return badop, false
		}
		k, ok := pHex(toks[0])
		if !ok {
			return badop, false
		}
		wantV, present := m[string(k)]
		switch op {
		case "get":
			v, err := t.Get(k)
			if err != nil {
				return errClass(err), true
			}
			if have {
				if present != (v != nil) || !bytes.Equal(v, wantV) {
					d.fail("read", "get %s = %s, map has %s (present=%v)", hk(k), hx(v), hx(wantV), present)
				}
				d.ok()
			}
			return hx(v), true
		case "has":
			h, err := t.Has(k)
			if err != nil {
				return errClass(err), true
			}
			if have {
				if h != present {
					d.fail("read", "has %s = %v, want %v", hk(k), h, present)
				}
				d.ok()
			}
			return strconv.FormatBool(h), true
		default:
			idx, v, err := t.GetWithIndex(k)
			if err != nil {
				return errClass(err), true
			}
			if have {
				if idx != rank(m, k) || present != (v != nil) || !bytes.Equal(v, wantV) {
					d.fail("read", "GetWithIndex %s = (%d,%s), want (%d,%s)", hk(k), idx, hx(v), rank(m, k), hx(wantV))
				}
				d.ok()
			}
			return fmt.Sprintf("%d %s", idx, hx(v)), true
		}
	case "gbi":
		if len(toks) != 1 {
			return badop, false
		}
		i, ok := pI64(toks[0])
		if !ok {
			return badop, false
		}
		k, v, err := t.GetByIndex(i)
		if err != nil {
			return errClass(err), true
		}
		if have {
			ks := m.keys()
			if i >= 0 && i < int64(len(ks)) {
				if !bytes.Equal(k, []byte(ks[i])) || !bytes.Equal(v, m[ks[i]]) || v == nil {
					d.fail("read", "GetByIndex %d = (%s,%s), want (%s,%s)", i, hk(k), hx(v), hk([]byte(ks[i])), hx(m[ks[i]]))
				}
			} else if k != nil || v != nil {
				d.fail("read", "GetByIndex %d out of range answers (%s,%s)", i, hk(k), hx(v))
			}
			d.ok()
		}
		ks := "-"
		if k != nil {
			ks = hk(k)
		}
		return ks + " " + hx(v), true
	case "size":
		if len(toks) != 0 {
			return badop, false
		}
		if have {
			if t.Size() != int64(len(m)) {
				d.fail("read", "size %d, want %d", t.Size(), len(m))
			}
			d.ok()
		}
		return strconv.FormatInt(t.Size(), 10), true
	case "height":
		if len(toks) != 0 {
			return badop, false
		}
		h := int(t.Height())
		if have {
			// an AVL tree with n leaves has height <= 1.4405 log2(n+1); check the safe bound 2^(h/2) <= max(n,1)
			n := len(m)
			if n < 1 {
				n = 1
			}
			if h < 0 || h > 126 || (uint64(1)<<uint(h/2)) > uint64(n) {
				d.fail("balance", "height %d with %d keys", h, len(m))
			}
			d.ok()
		}
		return strconv.Itoa(h), true
	case "it":
		if len(toks) != 4 {
			return badop, false
		}
		asc, ok1 := pDir(toks[0])
		s, ok2 := pHexOpt(toks[1])
		e, ok3 := pHexOpt(toks[2])
		inc, ok4 := pInc(toks[3])
		if !(ok1 && ok2 && ok3 && ok4) {
			return badop, false
		}
		got := iterLine(t, asc, s, e, inc)
		if have {
			want := expectRange(m, asc, s, e, inc)
			if strings.Join(got, ",") != strings.Join(want, ",") {
				d.fail("iterate", "range %s..%s asc=%v inc=%v yields %s, want %s", hx(s), hx(e), asc, inc, clip(joinOrDash(got)), clip(joinOrDash(want)))
			}
			if !inc {
				alt := viaIterator(t, asc, s, e)
				if strings.Join(alt, ",") != strings.Join(want, ",") {
					d.fail("iterate", "Iterator %s..%s asc=%v yields %s, want %s", hx(s), hx(e), asc, clip(joinOrDash(alt)), clip(joinOrDash(want)))
				}
			}
			d.ok()
		}
		return joinOrDash(got), true
	}
	return badop, false
}

func exec(toks []string) (string, string) {
	if len(toks) == 0 {
		return badop, "-"
	}
	d := &verdict{}
	op, args := toks[0], toks[1:]
	switch op {
	case "new":
		if len(args) != 3 {
			return badop, "-"
		}
		c, ok1 := pNat(args[0], 1000000)
		iv, ok3 := pNat(args[1], 1000000)
		fl, ok4 := pNat(args[2], 10000000)
		if !(ok1 && ok3 && ok4) {
			return badop, "-"
		}
		resetWith(config{cache: int(c), fast: false, iv: uint64(iv), flush: int(fl)})
		return "ok", "-"

	case "set":
		if len(args) != 2 {
			return badop, "-"
		}
		k, ok1 := pHex(args[0])
		v, ok2 := pHexOpt(args[1])
		if !(ok1 && ok2) {
			return badop, "-"
		}
		do := func(i *inst) string {
			upd, err := i.tree.Set(k, v)
			if err != nil {
				return errClass(err)
			}
			return strconv.FormatBool(upd)
		}
		out := do(prim)
		shadowDo(d, "set", out, nil, do)
		if v != nil {
			touched[string(k)] = true
		}
		if v != nil && known {
			_, present := work[string(k)]
			if out != strconv.FormatBool(present) {
				d.fail("set", "Set(%s) reports updated=%s, key present=%v", hk(k), out, present)
			}
			work[string(k)] = v
		}
		afterMutation(d, false)
		return out, d.String()

	case "rm":
		if len(args) != 1 {
			return badop, "-"
		}
		k, ok := pHex(args[0])
		if !ok {
			return badop, "-"
		}
		do := func(i *inst) string {
			v, removed, err := i.tree.Remove(k)
			if err != nil {
				return errClass(err)
			}
			return hx(v) + " " + strconv.FormatBool(removed)
		}
		out := do(prim)
		shadowDo(d, "rm", out, nil, do)
		touched[string(k)] = true
		if known {
			want := "- false"
			if v, present := work[string(k)]; present {
				want = hx(v) + " true"
			}
			if out != want {
				d.fail("remove", "Remove(%s) answers %s, want %s", hk(k), out, want)
			}
			delete(work, string(k))
		}
		afterMutation(d, false)
		return out, d.String()

	case "get":
		// MutableTree.Get (consults the unsaved fast-node maps when the index is on)
		if len(args) != 1 {
			return badop, "-"
		}
		k, ok := pHex(args[0])
		if !ok {
			return badop, "-"
		}
		v, err := prim.tree.Get(k)
		if err != nil {
			return errClass(err), "-"
		}
		if known {
			want, present := work[string(k)]
			if present != (v != nil) || !bytes.Equal(v, want) {
				d.fail("read", "get %s = %s, map has %s (present=%v)", hk(k), hx(v), hx(want), present)
			}
			if shadOK {
				sv, err := shad.tree.Get(k)
				if err != nil || present != (sv != nil) || !bytes.Equal(sv, want) {
					d.fail(keyClass(shad, k), "shadow(%+v) get %s = %s, map has %s", shad.cfg, hk(k), hx(sv), hx(want))
				}
			}
			d.ok()
		}
		return hx(v), d.String()

	case "has", "gwi", "gbi", "size", "height", "it":
		var out string
		func() {
			defer func() {
				// IterateRangeInclusive hands node.nodeKey.version to its callback: nil
				// dereference on a leaf that was never saved (working tree only)
				if r := recover(); r != nil {
					if op == "it" && strings.Contains(fmt.Sprint(r), "nil pointer dereference") {
						out, d.v = "panic:nilderef", ""
						return
					}
					panic(r)
				}
			}()
			out, _ = readsOfTree(d, prim.tree.ImmutableTree, work, known, op, args)
		}()
		if op == "it" && out != badop {
			checkWorkingRange(d, args)
		}
		return clip(out), d.String()

	case "ver":
		if len(args) != 0 {
			return badop, "-"
		}
		return strconv.FormatInt(prim.tree.Version(), 10), "-"

	case "hash", "whash":
		if len(args) != 0 {
			return badop, "-"
		}
		do := func(i *inst) string {
			if op == "hash" {
				return hx(i.tree.Hash())
			}
			return hx(i.tree.WorkingHash())
		}
		out := do(prim)
		shadowDo(d, op, out, nil, do)
		if shadOK {
			d.ok()
		}
		return out, d.String()

	case "save":
		if len(args) != 0 {
			return badop, "-"
		}
		var newVer int64 = -1
		do := func(i *inst) string {
			h, v, err := i.tree.SaveVersion()
			if err != nil {
				return errClass(err)
			}
			if i == prim {
				newVer = v
			}
			return hx(h) + " " + strconv.FormatInt(v, 10)
		}
		out := do(prim)
		shadowDo(d, "save", out, nil, do)
		if shadOK && !strings.HasPrefix(out, "err") && newVer >= newestRetained() {
			// the shadow is closed and reopened from its database after every save of a
			// new version (re-saving an old version identically leaves the tree on it)
			want := strconv.FormatInt(newVer, 10)
			if got := reopen(shad); got != want {
				d.fail("reopen", "shadow(%+v) reopened after saving version %s loads %s", shad.cfg, want, got)
				dropShadow()
			}
			touched = map[string]bool{}
		}
		if newVer >= 0 && known {
			if old, ok := saved[newVer]; ok {
				if !sameMap(old, work) {
					d.fail("immutable", "SaveVersion overwrote retained version %d with different contents", newVer)
				}
			} else {
				saved[newVer] = work.clone()
			}
			work = saved[newVer].clone()
		}
		afterMutation(d, true)
		return out, d.String()

	case "rollback":
		if len(args) != 0 {
			return badop, "-"
		}
		ver := prim.tree.Version()
		prim.tree.Rollback()
		shadowDo(d, "rollback", "ok", nil, func(i *inst) string { i.tree.Rollback(); return "ok" })
		touched = map[string]bool{}
		if known {
			if ver == 0 {
				work = omap{}
			} else if m, ok := saved[ver]; ok {
				work = m.clone()
			} else {
				resync()
			}
		}
		afterMutation(d, false)
		return "ok", d.String()

	case "load", "lvo":
		if len(args) != 1 {
			return badop, "-"
		}
		v, ok := pI64(args[0])
		if !ok || (op == "lvo" && v < 1) {
			return badop, "-"
		}
		do := func(i *inst) string {
			if op == "load" {
				lv, err := i.tree.LoadVersion(v)
				if err != nil {
					return errClass(err)
				}
				return strconv.FormatInt(lv, 10)
			}
			return errClass(i.tree.LoadVersionForOverwriting(v))
		}
		_, retainedV := saved[v]
		// a ghost symptom: loading a version that was deleted (or never saved) succeeds
		ghost := func(out string) bool { return v > 0 && !retainedV && !strings.HasPrefix(out, "err") }
		out := do(prim)
		shadowDo(d, op, out, ghost, do)
		switch {
		case out == "0":
			// no version exists and target <= 0: LoadVersion returns without touching the tree
		case !strings.HasPrefix(out, "err"):
			// the unsaved fast-node overlay of the shadow survives the load
			for k := range touched {
				suspect[k] = true
			}
			target := prim.tree.Version()
			if m, ok := saved[target]; ok {
				work = m.clone()
				known = true
			} else {
				d.fail("ghost-version", "%s %d succeeds and yields version %d, which is not a retained version", op, v, target)
				resync()
			}
			if op == "lvo" {
				for x := range saved {
					if x > target {
						delete(saved, x) // removed from the top: cannot leave a ghost
					}
				}
			}
		case retainedV:
			d.fail("version-lost", "%s %d fails with %s although version %d is retained", op, v, out, v)
		}
		afterMutation(d, true)
		return out, d.String()

	case "delto":
		if len(args) != 1 {
			return badop, "-"
		}
		v, ok := pI64(args[0])
		if !ok {
			return badop, "-"
		}
		// protocol guard (both sides): deleting the version the working tree was loaded
		// from, or a newer one, while still newer versions exist is outside "deletions of
		// old versions" (the tree in memory would point at deleted nodes)
		if lv, err := prim.tree.GetLatestVersion(); err == nil && prim.tree.Version() <= v && v < lv {
			return "err:guard", "-"
		}
		do := func(i *inst) string { return errClass(i.tree.DeleteVersionsTo(v)) }
		newest := newestRetained()
		// a ghost symptom: deleting a proper prefix of the retained versions fails because a
		// version the tree believes to exist has no root
		ghost := func(out string) bool { return out == "err:noversion" && v < newest }
		out := do(prim)
		shadowDo(d, "delto", out, ghost, do)
		if out == "ok" {
			for _, x := range retained() {
				if x <= v {
					forgetVersion(x)
				}
			}
		} else {
			if ghost(out) {
				d.fail(pruneClass(prim, "prune-fail"), "DeleteVersionsTo(%d) fails with %s; retained versions are %v", v, out, retained())
			}
			// which versions a failed call managed to delete is not specified: keep those
			// the tree still reports
			for _, x := range retained() {
				if x <= v && !prim.tree.VersionExists(x) {
					forgetVersion(x)
				}
			}
		}
		afterMutation(d, true)
		return out, d.String()

	case "reopen":
		if len(args) != 0 {
			return badop, "-"
		}
		out := reopen(prim)
		shadowDo(d, "reopen", out, nil, reopen)
		if !strings.HasPrefix(out, "err") {
			target := prim.tree.Version()
			if m, ok := saved[target]; ok {
				work = m.clone()
				known = true
			} else if target == 0 && len(saved) == 0 {
				work = omap{}
				known = true
			} else {
				resync()
			}
			// reopening must land on the newest retained version
			vs := retained()
			if len(vs) > 0 && vs[len(vs)-1] != target {
				d.fail("reopen", "reopen loads version %d, newest saved version is %d", target, vs[len(vs)-1])
			}
		} else if len(saved) > 0 {
			d.fail("reopen", "reopen fails with %s although %d versions are retained", out, len(saved))
		}
		afterMutation(d, true)
		return out, d.String()

	case "vex":
		if len(args) != 1 {
			return badop, "-"
		}
		v, ok := pI64(args[0])
		if !ok {
			return badop, "-"
		}
		ex := prim.tree.VersionExists(v)
		if _, ok := saved[v]; ok {
			if !ex {
				d.fail("version-lost", "VersionExists(%d) = false for a retained version", v)
			}
		} else if ex && v != 0 {
			d.fail("ghost-version", "VersionExists(%d) = true; retained versions are %v", v, retained())
		}
		d.ok()
		return strconv.FormatBool(ex), d.String()

	case "avail":
		if len(args) != 0 {
			return badop, "-"
		}
		av := prim.tree.AvailableVersions()
		strs := make([]string, len(av))
		have := map[int64]bool{}
		for i, v := range av {
			strs[i] = strconv.Itoa(v)
			have[int64(v)] = true
		}
		for _, v := range retained() {
			if !have[v] {
				d.fail("version-lost", "AvailableVersions misses retained version %d", v)
			}
		}
		for _, v := range av {
			if _, ok := saved[int64(v)]; !ok && v != 0 {
				d.fail("ghost-version", "AvailableVersions lists %d; retained versions are %v", v, retained())
			}
		}
		d.ok()
		return clip(joinOrDash(strs)), d.String()

	case "vget":
		if len(args) != 2 {
			return badop, "-"
		}
		v, ok1 := pI64(args[0])
		k, ok2 := pHex(args[1])
		if !(ok1 && ok2) {
			return badop, "-"
		}
		val, err := prim.tree.GetVersioned(k, v)
		if err != nil {
			return errClass(err), "-"
		}
		if m, ok := saved[v]; ok {
			want, present := m[string(k)]
			if present != (val != nil) || !bytes.Equal(val, want) {
				d.fail("read", "GetVersioned(%s,%d) = %s, version has %s", hk(k), v, hx(val), hx(want))
			}
			if shadOK {
				sv, err := shad.tree.GetVersioned(k, v)
				if err != nil || present != (sv != nil) || !bytes.Equal(sv, want) {
					d.fail(vgetClass(shad, k), "shadow(%+v) GetVersioned(%s,%d) = %s, version has %s", shad.cfg, hk(k), v, hx(sv), hx(want))
				}
			}
			d.ok()
		}
		return hx(val), d.String()

	case "iget", "ihas", "igwi", "igbi", "isize", "iheight", "iit", "ihash", "ishape":
		if len(args) < 1 {
			return badop, "-"
		}
		v, ok := pI64(args[0])
		if !ok {
			return badop, "-"
		}
		// validate the remaining tokens before touching the tree
		if !validRead(op[1:], args[1:]) {
			return badop, "-"
		}
		m, have := saved[v]
		// store.GetImmutable's gate
		if !prim.tree.VersionExists(v) {
			if have {
				d.fail("version-lost", "VersionExists(%d) = false for a retained version", v)
			}
			return "err:noversion", d.String()
		}
		t, err := prim.tree.GetImmutable(v)
		if err != nil {
			if have {
				d.fail("version-lost", "GetImmutable(%d): %s for a retained version", v, errClass(err))
			}
			return errClass(err), d.String()
		}
		switch op {
		case "ihash":
			h := t.Hash()
			if have && shadOK {
				st, err := shad.tree.GetImmutable(v)
				if err != nil || !bytes.Equal(st.Hash(), h) {
					d.fail("config-dependent", "root hash of version %d differs between primary(%+v) and shadow(%+v)", v, prim.cfg, shad.cfg)
				}
				d.ok()
			}
			return hx(h), d.String()
		case "ishape":
			return clip(shape(t)), "-"
		}
		out, _ := readsOfTree(d, t, m, have, op[1:], args[1:])
		return clip(out), d.String()

	case "prove":
		if len(args) != 2 {
			return badop, "-"
		}
		v, ok1 := pI64(args[0])
		k, ok2 := pHex(args[1])
		if !(ok1 && ok2) {
			return badop, "-"
		}
		p := buildProof(prim, v, k, false)
		checkProof(d, p, v, k)
		if shadOK && p.genErr == nil {
			if _, have := saved[v]; have {
				sp := buildProof(shad, v, k, true)
				if proofLine(sp) != proofLine(p) {
					d.fail("config-dependent", "proof of %s@%d differs between primary(%+v) and shadow(%+v)", hk(k), v, prim.cfg, shad.cfg)
				}
			}
		}
		return proofLine(p), d.String()
	}
	return badop, "-"
}

func validRead(op string, toks []string) bool {
	switch op {
	case "get", "has", "gwi":
		if len(toks) != 1 {
			return false
		}
		_, ok := pHex(toks[0])
		return ok
	case "gbi":
		if len(toks) != 1 {
			return false
		}
		_, ok := pI64(toks[0])
		return ok
	case "size", "height", "hash", "shape":
		return len(toks) == 0
	case "it":
		if len(toks) != 4 {
			return false
		}
		_, ok1 := pDir(toks[0])
		_, ok2 := pHexOpt(toks[1])
		_, ok3 := pHexOpt(toks[2])
		_, ok4 := pInc(toks[3])
		return ok1 && ok2 && ok3 && ok4
	}
	return false
}

func sameMap(a, b omap) bool {
	if len(a) != len(b) {
		return false
	}
	for k, v := range a {
		w, ok := b[k]
		if !ok || !bytes.Equal(v, w) {
			return false
		}
	}
	return true
}

// post-order export: L<key>:<ver> for leaves, I<key>:<height>:<ver> for inner nodes
func shape(t *iavl.ImmutableTree) string {
	if t.Size() == 0 {
		return "-"
	}
	ex, err := t.Export()
	if err != nil {
		return errClass(err)
	}
	defer ex.Close()
	var out []string
	for {
		n, err := ex.Next()
		if err != nil {
			break
		}
		if n.Height == 0 {
			out = append(out, fmt.Sprintf("L%s:%d", hk(n.Key), n.Version))
		} else {
			out = append(out, fmt.Sprintf("I%s:%d:%d", hk(n.Key), n.Height, n.Version))
		}
	}
	return strings.Join(out, " ")
}

func afterMutation(d *verdict, all bool) {
	mutCount++
	checkWorking(d, prim, "primary")
	if shadOK {
		checkWorking(d, shad, "shadow")
	}
	if all {
		checkAllVersions(d)
	} else {
		checkOneVersion(d)
	}
	d.ok()
}

func main() {
	kit.Main(&kit.Harness{
		Gen:   gen,
		Reset: reset,
		Exec:  exec,
	})
}
