package main

import (
	"encoding/hex"
	"fmt"
	"strings"

	"gnoverif/kit"
)

// ---------------------------------------------------------------- generator
//
// 1. boundary table: hand-written scripts around the corners of the code
//    (empty tree, single leaf root shared with the next version, reference
//    roots of idle versions, removal down to the empty tree, nil / empty
//    bounds, loading old versions and re-saving, pruning prefixes, reopen);
// 2. structured random histories over a small colliding key alphabet
//    (prefix chains, 0x00 / 0xff, the empty key) with a phase structure
//    (grow, churn, shrink) and version operations;
// 3. a malformed stream.

var keyPool = [][]byte{
	{}, {0x00}, {0x00, 0x00}, {0x01}, {0x61}, {0x61, 0x00}, {0x61, 0x61}, {0x61, 0x62}, {0x62},
	{0x62, 0xff}, {0x63}, {0x7f}, {0x80}, {0xfe}, {0xff}, {0xff, 0x00}, {0xff, 0xff},
}

func hxs(b []byte) string {
	if len(b) == 0 {
		return "e"
	}
	return hex.EncodeToString(b)
}

func bnd(b []byte) string {
	if b == nil {
		return "-"
	}
	return hxs(b)
}

type g struct {
	w *kit.Out
	r *kit.Rand
	// generator-side view (approximate; only used to aim operations)
	ver    int64 // tree.version
	first  int64
	latest int64
	wide   bool
	nkeys  int
	iv     int64
	r2     *kit.Rand // decides whether and how to probe
}

func (x *g) key() []byte {
	if x.wide && x.r.Chance(70) {
		// two-byte keys from a 1..nkeys space: forces deep trees and rotations
		n := x.r.Intn(x.nkeys)
		return []byte{byte(n >> 8), byte(n)}
	}
	if x.r.Chance(85) {
		return kit.Pick(x.r, keyPool)
	}
	return x.r.Bytes(x.r.Range(1, 3))
}

func (x *g) val() []byte {
	switch x.r.Intn(10) {
	case 0:
		return []byte{}
	case 1:
		return x.r.Bytes(x.r.Range(20, 40))
	default:
		return x.r.Bytes(x.r.Range(1, 3))
	}
}

func (x *g) bound() []byte {
	switch x.r.Intn(6) {
	case 0, 1:
		return nil
	case 2:
		return []byte{}
	default:
		return x.key()
	}
}

func (x *g) someVersion() int64 {
	switch x.r.Intn(12) {
	case 0:
		return 0
	case 1:
		return x.latest + 1
	case 2:
		return x.first - 1
	case 3:
		return -1
	default:
		if x.latest >= x.first && x.latest > 0 {
			return x.first + int64(x.r.Intn(int(x.latest-x.first+1)))
		}
		return int64(x.r.Intn(4))
	}
}

func dir(r *kit.Rand) string {
	if r.Bool() {
		return "a"
	}
	return "d"
}

func (x *g) read() {
	w, r := x.w, x.r
	switch r.Intn(11) {
	case 0, 1:
		w.Op("get %s", hxs(x.key()))
	case 2:
		w.Op("has %s", hxs(x.key()))
	case 3:
		w.Op("gwi %s", hxs(x.key()))
	case 4:
		w.Op("gbi %d", r.Range(-1, 12))
	case 5:
		w.Op("size")
	case 6:
		w.Op("height")
	case 7, 8, 9:
		w.Op("it %s %s %s %d", dir(r), bnd(x.bound()), bnd(x.bound()), r.Intn(2))
	default:
		w.Op("whash")
	}
}

func (x *g) vread() {
	w, r := x.w, x.r
	v := x.someVersion()
	switch r.Intn(14) {
	case 0, 1:
		w.Op("iget %d %s", v, hxs(x.key()))
	case 2:
		w.Op("ihas %d %s", v, hxs(x.key()))
	case 3:
		w.Op("igwi %d %s", v, hxs(x.key()))
	case 4:
		w.Op("igbi %d %d", v, r.Range(-1, 12))
	case 5:
		w.Op("isize %d", v)
	case 6:
		w.Op("ihash %d", v)
	case 7, 8:
		w.Op("iit %d %s %s %s %d", v, dir(r), bnd(x.bound()), bnd(x.bound()), r.Intn(2))
	case 9:
		w.Op("vget %d %s", v, hxs(x.key()))
	case 10:
		w.Op("vex %d", v)
	case 11:
		w.Op("ishape %d", v)
	case 12:
		w.Op("iheight %d", v)
	default:
		w.Op("prove %d %s", v, hxs(x.key()))
	}
}

// probe: right after an unsaved Set / Remove of k, range iterations over the working tree
// whose bounds are equal or adjacent to k (start == k, end == k, successor k\x00,
// a predecessor), both directions: the merge of saved state and pending changes is most
// fragile exactly at the bounds
func (x *g) probe(k []byte) {
	r := x.r2
	if !r.Chance(40) {
		return
	}
	succ := append(append([]byte{}, k...), 0x00)
	var pred []byte
	switch {
	case len(k) == 0:
		pred = nil
	case k[len(k)-1] == 0:
		pred = append([]byte{}, k[:len(k)-1]...)
	default:
		pred = append([]byte{}, k...)
		pred[len(pred)-1]--
		pred = append(pred, 0xff)
	}
	type be struct{ s, e []byte }
	cands := []be{{k, nil}, {k, succ}, {nil, k}, {k, k}, {pred, k}, {pred, succ}, {succ, nil}, {nil, succ}, {k, x.bound()}, {x.bound(), k}}
	for n := r.Range(1, 2); n > 0; n-- {
		c := kit.Pick(r, cands)
		x.w.Op("it %s %s %s %d", dir(r), bnd(c.s), bnd(c.e), r.Intn(2))
	}
}

func (x *g) save() {
	x.w.Op("save")
	if x.ver == 0 && x.latest == 0 {
		x.first = 1
		if x.iv > 0 {
			x.first = x.iv
			x.ver = x.iv - 1
		}
	}
	x.ver++
	if x.ver > x.latest {
		x.latest = x.ver
	}
}

// one random history
func (x *g) history(nops int) {
	w, r := x.w, x.r
	phase := 0 // 0 grow, 1 churn, 2 shrink
	for i := 0; i < nops; i++ {
		if r.Chance(4) {
			phase = r.Intn(3)
		}
		setW, rmW := 40, 8
		switch phase {
		case 1:
			setW, rmW = 25, 22
		case 2:
			setW, rmW = 8, 40
		}
		p := r.Intn(100)
		switch {
		case p < setW:
			k := x.key()
			w.Op("set %s %s", hxs(k), hxs(x.val()))
			x.probe(k)
		case p < setW+rmW:
			k := x.key()
			w.Op("rm %s", hxs(k))
			x.probe(k)
		case p < setW+rmW+14:
			x.read()
		case p < setW+rmW+26:
			x.vread()
		case p < setW+rmW+36:
			x.save()
		default:
			switch r.Intn(16) {
			case 0, 1, 2, 3:
				if x.latest > x.first {
					to := x.first + int64(r.Intn(int(x.latest-x.first)))
					w.Op("delto %d", to)
					x.first = to + 1
				} else {
					w.Op("delto %d", x.someVersion())
				}
			case 4:
				w.Op("delto %d", x.someVersion())
			case 5, 6:
				w.Op("rollback")
			case 7, 8:
				w.Op("reopen")
				x.ver = x.latest
			case 9:
				v := x.someVersion()
				w.Op("load %d", v)
				if v >= x.first && v <= x.latest && v > 0 {
					x.ver = v
				} else if v <= 0 {
					x.ver = x.latest
				}
			case 10:
				w.Op("load 0")
				x.ver = x.latest
			case 11:
				v := x.someVersion()
				if v < 1 {
					v = 1
				}
				w.Op("lvo %d", v)
				if v >= x.first && v <= x.latest && v > 0 {
					x.ver, x.latest = v, v
				}
			case 12:
				w.Op("avail")
			case 13:
				w.Op("hash")
			case 14:
				w.Op("ver")
			default:
				// idle run of versions (reference roots)
				for k := r.Range(1, 3); k > 0; k-- {
					x.save()
				}
			}
		}
	}
	// closing sweep: every version, every kind of read, proofs for present and absent keys
	w.Op("save")
	x.ver++
	if x.ver > x.latest {
		x.latest = x.ver
	}
	w.Op("avail")
	for v := x.first; v <= x.latest && v < x.first+6; v++ {
		w.Op("iit %d a - - 0", v)
		w.Op("ihash %d", v)
		w.Op("prove %d %s", v, hxs(x.key()))
		w.Op("prove %d %s", v, hxs(x.key()))
	}
	w.Op("reopen")
	w.Op("it d - - 0")
	w.Op("hash")
}

func boundary(w *kit.Out) {
	cs := func(id string, lines ...string) {
		w.Case(id)
		for _, l := range lines {
			w.Op("%s", l)
		}
	}
	allReads := []string{"get 61", "has 61", "gwi 61", "gwi 62", "gwi e", "gbi 0", "gbi 1", "gbi -1", "gbi 9223372036854775807",
		"size", "height", "ver", "hash", "whash", "it a - - 0", "it d - - 0", "it a e - 0", "it a - e 0", "it a - e 1", "it a 61 61 0", "it a 61 61 1", "it d 61 63 1", "it a 63 61 0"}
	cs("b-empty", append(append([]string{}, allReads...), "save", "hash", "ihash 1", "isize 1", "iit 1 a - - 0", "prove 1 61", "vex 0", "vex 1", "vex 2", "avail",
		"load 0", "load 1", "load 2", "load -1", "delto 0", "delto 1", "delto -1", "delto -2", "rollback", "reopen", "ishape 1", "save", "save", "delto 2", "avail", "reopen", "avail")...)
	cs("b-empty-load", "load 0", "load 1", "load -5", "lvo 1", "rollback", "vex 0", "avail", "reopen", "iget 0 61", "iget 1 61", "vget 0 61", "vget 1 61", "prove 0 61", "prove 1 61")
	cs("b-nil", "set 61 -", "set - 61", "set 61", "rm -", "get -", "set e e", "get e", "has e", "rm e", "rm e", "set e 00", "save", "prove 1 e", "prove 1 00", "iget 1 e")
	one := []string{"set 61 01"}
	cs("b-one", append(append(one, allReads...), "save", "prove 1 61", "prove 1 60", "prove 1 62", "prove 1 e", "ishape 1", "rm 61", "size", "save", "ishape 2", "prove 2 61", "iit 1 a - - 0", "iit 2 a - - 0", "delto 1", "iget 1 61", "reopen", "avail")...)
	two := []string{"set 61 01", "set 62 02"}
	cs("b-two", append(append(two, allReads...), "save", "ishape 1", "prove 1 61", "prove 1 62", "prove 1 6100", "prove 1 60", "prove 1 63", "set 61 01", "save", "ishape 2", "rm 62", "save", "ishape 3", "rm 61", "save", "ishape 4", "avail", "delto 2", "avail", "iit 3 a - - 0", "reopen", "avail")...)
	// single leaf root shared by the next version, then pruned, then reopened
	cs("b-leafroot", "set 61 01", "save", "set 62 02", "save", "ishape 2", "delto 1", "vex 1", "avail", "iget 1 61", "reopen", "vex 1", "avail", "iget 1 61", "iit 1 a - - 0", "set 62 03", "save", "save", "delto 2", "avail", "reopen", "avail", "vex 1", "vex 2", "delto 3", "avail", "save", "delto 4", "avail")
	cs("b-leafroot2", "save", "set 61 01", "save", "set 62 02", "save", "set 62 03", "save", "save", "delto 3", "avail", "reopen", "avail", "vex 2", "vex 3", "iget 2 61", "iget 3 61", "save", "delto 4", "avail", "reopen", "avail", "delto 5", "save", "save", "delto 6", "avail")
	// idle versions: reference roots, pruning through them, reformatted root
	cs("b-idle", "set 61 01", "set 62 02", "set 63 03", "save", "save", "save", "ishape 3", "ihash 1", "ihash 3", "delto 1", "iit 2 a - - 0", "iit 3 a - - 0", "reopen", "iit 2 a - - 0", "delto 2", "iit 3 a - - 0", "reopen", "iit 3 a - - 0", "set 64 04", "save", "delto 3", "iit 4 a - - 0", "reopen", "iit 4 a - - 0", "prove 4 61", "avail")
	cs("b-idle-one-batch", "set 61 01", "set 62 02", "set 63 03", "save", "save", "save", "save", "delto 3", "iit 4 a - - 0", "reopen", "iit 4 a - - 0", "set 60 00", "save", "save", "delto 5", "iit 6 a - - 0", "reopen", "iit 6 d - - 0", "avail")
	// root becomes an existing saved non-root node
	cs("b-root-is-old-leaf", "set 61 01", "set 62 02", "save", "rm 62", "save", "ishape 2", "iit 2 a - - 0", "delto 1", "iit 2 a - - 0", "reopen", "iit 2 a - - 0", "save", "delto 2", "iit 3 a - - 0", "reopen", "it a - - 0", "prove 3 61")
	cs("b-root-is-old-inner", "set 61 01", "set 62 02", "set 63 03", "set 64 04", "save", "ishape 1", "rm 61", "rm 62", "save", "ishape 2", "delto 1", "iit 2 a - - 0", "reopen", "iit 2 a - - 0", "save", "save", "delto 3", "reopen", "it a - - 0")
	// emptying and refilling
	cs("b-to-empty", "set 61 01", "set 62 02", "save", "rm 61", "rm 62", "size", "save", "ishape 2", "ihash 2", "prove 2 61", "set 61 05", "save", "delto 1", "iit 2 a - - 0", "delto 2", "reopen", "it a - - 0", "avail")
	// loading an old version and saving again: same contents = idempotent, different = error
	cs("b-resave", "set 61 01", "save", "set 62 02", "save", "load 1", "ver", "it a - - 0", "set 62 02", "whash", "save", "ver", "it a - - 0", "load 1", "set 62 03", "save", "ver", "it a - - 0", "rollback", "it a - - 0", "save", "load 1", "save", "ver", "load 2", "rm 62", "rm 61", "save", "load 0", "ver")
	cs("b-lvo", "set 61 01", "save", "set 62 02", "save", "set 63 03", "save", "lvo 1", "avail", "it a - - 0", "set 62 09", "save", "ihash 2", "iit 2 a - - 0", "lvo 5", "avail", "reopen", "avail", "lvo 1", "save", "avail")
	// unsaved changes at the bounds of a working-tree range (saved state + pending changes)
	cs("b-unsaved-bounds", "set 61 01", "set 63 03", "save", "set 61 02", "it a 61 - 0", "it d 61 - 0", "it a 61 6100 0", "it a - 61 0",
		"it a 61 61 0", "set 62 09", "it a 62 - 0", "it d 62 63 0", "it a 61ff 6200 0", "it a - 62 0", "it a 6200 - 0", "rm 63", "it a 63 - 0",
		"it d - 6300 0", "it a 62 63 0", "set e 07", "it a e - 0", "it a e 00 0", "rm 61", "it a 61 - 0", "it d 60ff 6100 0", "save",
		"it a 61 - 0", "it a 62 - 0")
	cs("b-rollback", "rollback", "set 61 01", "rollback", "size", "set 61 01", "save", "set 62 02", "rm 61", "rollback", "it a - - 0", "save", "hash", "ihash 2", "ishape 2")
	cs("b-delto-errors", "set 61 01", "save", "delto 1", "delto 2", "delto 9223372036854775807", "delto -9223372036854775808", "save", "delto 1", "delto 1", "delto 0", "avail", "load 1", "iget 1 61", "vget 1 61", "prove 1 61", "vex 1", "vex 2")
	cs("b-initial-version", "new 10000 5 100000", "ver", "whash", "set 61 01", "whash", "save", "ver", "avail", "vex 1", "vex 4", "vex 5", "ishape 5", "prove 5 61", "save", "reopen", "avail", "load 5", "load 4", "delto 5", "reopen", "avail")
	cs("b-initial-version-1", "new 0 1 100000", "save", "set 61 01", "save", "reopen", "avail", "ishape 2")
	// rotations: ascending / descending / zig-zag inserts, then deletes that rebalance
	asc := []string{}
	for i := 0; i < 12; i++ {
		asc = append(asc, fmt.Sprintf("set %02x %02x", 0x10+i, i))
	}
	cs("b-rot-asc", append(asc, "height", "save", "ishape 1", "it a - - 0", "rm 10", "rm 11", "rm 12", "height", "save", "ishape 2", "prove 2 13", "prove 2 10", "prove 2 1c", "prove 1 10")...)
	desc := []string{}
	for i := 11; i >= 0; i-- {
		desc = append(desc, fmt.Sprintf("set %02x %02x", 0x10+i, i))
	}
	cs("b-rot-desc", append(desc, "height", "save", "ishape 1", "rm 1b", "rm 1a", "rm 19", "rm 18", "height", "save", "ishape 2", "it d - - 0")...)
	cs("b-rot-zig", "set 10 00", "set 30 00", "set 20 00", "save", "ishape 1", "set 28 00", "set 24 00", "save", "ishape 2", "set 11 00", "set 12 00", "save", "ishape 3", "rm 30", "save", "ishape 4", "rm 28", "rm 24", "save", "ishape 5", "delto 4", "it a - - 0", "reopen", "it a - - 0")
	// ranges
	rk := []string{"set e 00", "set 00 01", "set 61 02", "set 6100 03", "set 62 04", "set ff 05", "set ffff 06", "save"}
	var rq []string
	bs := []string{"-", "e", "00", "61", "6100", "6101", "62", "ff", "ffff", "ffff00"}
	for _, s := range bs {
		for _, e := range bs {
			rq = append(rq, "it a "+s+" "+e+" 0", "it d "+s+" "+e+" 0", "iit 1 a "+s+" "+e+" 1", "iit 1 d "+s+" "+e+" 1")
		}
	}
	cs("b-ranges", append(rk, rq...)...)
	// cache pressure / flush threshold
	cs("b-small-config", append([]string{"new 1 0 10000000"}, append(asc, "save", "rm 10", "set 1f 01", "save", "save", "set 15 09", "save", "delto 2", "iit 3 a - - 0", "iit 4 a - - 0", "reopen", "iit 3 a - - 0", "delto 3", "it a - - 0", "prove 4 15", "prove 4 10")...)...)
	cs("b-fast", append([]string{"new 10000 0 100000"}, append(asc, "get 10", "it a - - 0", "save", "get 10", "rm 10", "get 10", "it a - - 0", "it d 11 15 0", "save", "vget 1 10", "vget 2 10", "iget 1 10", "load 1", "get 10", "it a - - 0", "load 2", "delto 1", "reopen", "get 11", "it a - - 0")...)...)
}

func malformed(w *kit.Out, r *kit.Rand, n int) {
	w.Case("malformed")
	w.Op("set 61 01")
	w.Op("save")
	bad := []string{
		"", "set", "set 61", "set 61 01 02", "set 6 01", "set 6G 01", "set 61 0", "set 0x61 01", "set 61 -", "set - 01", "SET 61 01", "set  61  01",
		"rm", "rm 61 62", "rm zz", "get", "get 6", "get 61 61", "has", "gwi", "gbi", "gbi x", "gbi 1.5", "gbi 99999999999999999999", "gbi +1", "gbi -", "size 1", "height 1", "ver 1",
		"it", "it a", "it a - -", "it x - - 0", "it a - - 2", "it a - - 0 0", "it a 6 - 0", "it A - - 0",
		"save 1", "hash 1", "whash x", "rollback 1", "load", "load x", "load 1 2", "load 9223372036854775808", "lvo", "lvo x", "delto", "delto x", "delto 1 2", "reopen 1",
		"vex", "vex x", "avail 1", "vget", "vget 1", "vget x 61", "vget 1 6", "iget", "iget 1", "iget x 61", "iget 1 zz", "ihas 1", "igwi 1", "igbi 1", "igbi 1 x", "isize", "isize 1 1", "isize x",
		"iheight", "ihash", "ihash x", "ihash 1 1", "iit 1", "iit 1 a - -", "iit 1 q - - 0", "iit x a - - 0", "ishape", "ishape x", "ishape 1 1", "prove", "prove 1", "prove x 61", "prove 1 6", "prove 1 61 61",
		"new", "new 1", "new 1 0", "new 1 0 0 100", "new -1 0 100", "new 1 0 100 1", "new x 0 100", "lvo 0", "lvo -1", "frobnicate", "61", "#notcase",
	}
	for _, b := range bad {
		if b == "" || b[0] == '#' {
			continue // blank / `#` lines are case boundaries for the runner
		}
		w.Op("%s", b)
	}
	ops := []string{"set", "rm", "get", "has", "gwi", "gbi", "size", "it", "save", "load", "lvo", "delto", "vex", "vget", "iget", "iit", "prove", "new", "ishape", "ihash"}
	toks := []string{"61", "-", "e", "0", "1", "-1", "a", "d", "zz", "6", "99999999999999999999", "00ff", "2", "x"}
	for i := 0; i < n; i++ {
		line := kit.Pick(r, ops)
		for k := r.Intn(6); k > 0; k-- {
			line += " " + kit.Pick(r, toks)
		}
		w.Op("%s", line)
	}
	w.Op("it a - - 0")
}

func gen(w *kit.Out, r *kit.Rand, tier string) {
	boundary(w)
	nCases, nOps, nWide, wideOps := 60, 90, 6, 400
	if tier == "thorough" {
		nCases, nOps, nWide, wideOps = 500, 140, 40, 900
	}
	// the primary never flushes its batch early (the model has no notion of it): default
	// or huge threshold; the shadow takes the small one
	cfgs := []string{"", "new 10000 0 10000000", "new 0 0 100000", "new 2 0 10000000", "new 64 0 100000", "new 0 0 10000000", "new 10000 3 100000", "new 1 7 10000000"}
	ivs := []int64{0, 0, 0, 0, 0, 0, 3, 7}
	for c := 0; c < nCases; c++ {
		x := &g{w: w, r: r.Fork(), iv: ivs[c%len(cfgs)]}
		x.r2 = x.r.Fork()
		w.Case(fmt.Sprintf("h%d", c))
		cfg := cfgs[c%len(cfgs)]
		if cfg != "" {
			w.Op("%s", cfg)
		}
		x.history(x.r.Range(nOps/2, nOps))
	}
	for c := 0; c < nWide; c++ {
		x := &g{w: w, r: r.Fork(), wide: true, iv: ivs[(c+1)%len(cfgs)]}
		x.r2 = x.r.Fork()
		x.nkeys = []int{24, 60, 200, 600}[c%4]
		w.Case(fmt.Sprintf("w%d", c))
		cfg := cfgs[(c+1)%len(cfgs)]
		if cfg == "" {
			cfg = "new 10000 0 10000000"
		}
		// long histories: the primary's batch must never reach its flush threshold
		w.Op("%s", strings.Replace(cfg, " 100000", " 10000000", 1))
		x.history(x.r.Range(wideOps/2, wideOps))
	}
	malformed(w, r.Fork(), 120)
}
