// world.go — the machinery under the C33 harness: a REAL single-validator
// tm2 node (node.NewNode: LoadState → ABCI handshake → ConsensusState with
// its real file WAL, real BlockStore, real BlockExecutor, real privval
// FileState) run in-process over
//
//   - three recording DBs (block store, state, application) that call a hook
//     before every physical write,
//   - a small persistent ABCI application ("ledger") over the application DB,
//   - a recording PrivValidator around the real privval.PrivValidator.
//
// The hook freezes the durable world (the three DB contents, the bytes of the
// consensus WAL file as they are on disk at that instant, the privval
// sign-state file) into a snapshot.  "The process is killed right before the
// k-th durable write" is exactly "restart from the k-th snapshot": nothing a
// killed process does afterwards reaches the disk, and nothing it did before
// is missing.  Kills between two WAL records (no DB / privval write in
// between) are obtained from the next snapshot by truncating its WAL copy at
// the record boundary.
package main

import (
	"bytes"
	"context"
	"encoding/binary"
	"encoding/json"
	"fmt"
	"log/slog"
	"os"
	"path/filepath"
	"reflect"
	"sort"
	"strings"
	"sync"
	"time"

	abci "github.com/gnolang/gno/tm2/pkg/bft/abci/types"
	cfg "github.com/gnolang/gno/tm2/pkg/bft/config"
	cons "github.com/gnolang/gno/tm2/pkg/bft/consensus"
	cstypes "github.com/gnolang/gno/tm2/pkg/bft/consensus/types"
	"github.com/gnolang/gno/tm2/pkg/bft/node"
	"github.com/gnolang/gno/tm2/pkg/bft/privval"
	"github.com/gnolang/gno/tm2/pkg/bft/privval/signer/local"
	"github.com/gnolang/gno/tm2/pkg/bft/proxy"
	sm "github.com/gnolang/gno/tm2/pkg/bft/state"
	"github.com/gnolang/gno/tm2/pkg/bft/store"
	"github.com/gnolang/gno/tm2/pkg/bft/types"
	"github.com/gnolang/gno/tm2/pkg/crypto"
	walm "github.com/gnolang/gno/tm2/pkg/bft/wal"
	dbm "github.com/gnolang/gno/tm2/pkg/db"
	"github.com/gnolang/gno/tm2/pkg/db/memdb"
	"github.com/gnolang/gno/tm2/pkg/events"
	p2pTypes "github.com/gnolang/gno/tm2/pkg/p2p/types"
)

// ---------------------------------------------------------------- durable world

// durable is everything that survives a kill.
type durable struct {
	bs, st, app map[string][]byte
	wal         []byte // bytes of <root>/data/cs.wal/wal as on disk
	pv          []byte // bytes of the privval sign-state file
	key         []byte // privval key file (constant over a case)
	genesis     []byte // genesis.json (constant over a case)
	nsigned     int    // number of entries of the sign log at this instant
}

func cloneMap(m map[string][]byte) map[string][]byte {
	o := make(map[string][]byte, len(m))
	for k, v := range m {
		o[k] = append([]byte(nil), v...)
	}
	return o
}

func (d *durable) clone() *durable {
	return &durable{bs: cloneMap(d.bs), st: cloneMap(d.st), app: cloneMap(d.app),
		wal: append([]byte(nil), d.wal...), pv: append([]byte(nil), d.pv...),
		key: d.key, genesis: d.genesis, nsigned: d.nsigned}
}

// ---------------------------------------------------------------- events

// event is one durable step observed during a boot, in program order.
//
//	phase  "hs" (inside node.NewNode: handshake) or "cs" (consensus running)
//	h      the height being worked on (state height + 1 at that moment;
//	       for handshake replays the height of the replayed block)
//	name   pvP pvV pvC | bsH bsP bsC bsS bsJ bsF | stR stT stP stV stS stG |
//	       apK apS | wP wB wV wC wE (WAL records; located afterwards)
type event struct {
	phase string
	h     int64
	name  string
	snap  *durable // world right BEFORE this step (nil for WAL-record events)
	walAt int      // for WAL-record events: byte offset of the record in the WAL
}

// ---------------------------------------------------------------- recording DB

type recDB struct {
	dbm.DB
	tag string
	w   *boot
}

func (r *recDB) Set(k, v []byte) error       { r.w.onWrite(r.tag, k); return r.DB.Set(k, v) }
func (r *recDB) SetSync(k, v []byte) error   { r.w.onWrite(r.tag, k); return r.DB.SetSync(k, v) }
func (r *recDB) Delete(k []byte) error       { r.w.onWrite(r.tag, k); return r.DB.Delete(k) }
func (r *recDB) DeleteSync(k []byte) error   { r.w.onWrite(r.tag, k); return r.DB.DeleteSync(k) }
func (r *recDB) NewBatch() dbm.Batch         { return &recBatch{Batch: r.DB.NewBatch(), r: r} }
func (r *recDB) NewBatchWithSize(int) dbm.Batch { return r.NewBatch() }

type recBatch struct {
	dbm.Batch
	r *recDB
}

func (b *recBatch) Write() error     { b.r.w.onWrite(b.r.tag, []byte("batch")); return b.Batch.Write() }
func (b *recBatch) WriteSync() error { b.r.w.onWrite(b.r.tag, []byte("batch")); return b.Batch.WriteSync() }

func dumpDB(db dbm.DB) map[string][]byte {
	out := map[string][]byte{}
	it, err := db.Iterator(nil, nil)
	if err != nil {
		panic(err)
	}
	defer it.Close()
	for ; it.Valid(); it.Next() {
		out[string(it.Key())] = append([]byte(nil), it.Value()...)
	}
	return out
}

func loadDB(m map[string][]byte) *memdb.MemDB {
	db := memdb.NewMemDB()
	for k, v := range m {
		db.Set([]byte(k), v)
	}
	return db
}

// ---------------------------------------------------------------- ledger application

// ledgerApp is a minimal, correct persistent ABCI application: DeliverTx only
// stages; Commit writes the staged pairs and then ONE state record
// {height, hash}; Info answers from the state record loaded at construction.
//
//	tx     = 8 bytes big-endian value v, zero-padded to its size s
//	hash'  = hash*1099511628211 + 31*v + s + 1   (mod 2^64), 8 bytes big-endian; changes only on non-empty blocks
var appStateKey = []byte("ledger:state")

type ledgerState struct {
	Height int64  `json:"height"`
	Hash   uint64 `json:"hash"`
}

type ledgerApp struct {
	abci.BaseApplication
	mtx     sync.Mutex
	db      dbm.DB
	st      ledgerState
	staged  [][]byte
	w       *boot
	commits int
	inits   int
	begins  int
}

func loadLedger(db dbm.DB) ledgerState {
	var s ledgerState
	bz, _ := db.Get(appStateKey)
	if len(bz) > 0 {
		if err := json.Unmarshal(bz, &s); err != nil {
			panic(err)
		}
	}
	return s
}

func hashBytes(h uint64) []byte {
	if h == 0 {
		return nil
	}
	b := make([]byte, 8)
	binary.BigEndian.PutUint64(b, h)
	return b
}

func mixHash(h uint64, tx []byte) uint64 {
	var v uint64
	if len(tx) >= 8 {
		v = binary.BigEndian.Uint64(tx[:8])
	}
	return h*1099511628211 + 31*v + uint64(len(tx)) + 1
}

func mkTx(v uint64, size int) []byte {
	if size < 8 {
		size = 8
	}
	b := make([]byte, size)
	binary.BigEndian.PutUint64(b, v)
	return b
}

func newLedgerApp(db dbm.DB, w *boot) *ledgerApp {
	return &ledgerApp{db: db, st: loadLedger(db), w: w}
}

func (a *ledgerApp) Info(abci.RequestInfo) abci.ResponseInfo {
	return abci.ResponseInfo{ABCIVersion: "v0", AppVersion: "ledger", LastBlockHeight: a.st.Height, LastBlockAppHash: hashBytes(a.st.Hash)}
}
func (a *ledgerApp) CheckTx(abci.RequestCheckTx) abci.ResponseCheckTx {
	return abci.ResponseCheckTx{GasWanted: 1}
}
func (a *ledgerApp) InitChain(abci.RequestInitChain) abci.ResponseInitChain {
	a.inits++
	return abci.ResponseInitChain{}
}
func (a *ledgerApp) BeginBlock(abci.RequestBeginBlock) abci.ResponseBeginBlock {
	a.begins++
	a.staged = nil
	return abci.ResponseBeginBlock{}
}
func (a *ledgerApp) DeliverTx(r abci.RequestDeliverTx) abci.ResponseDeliverTx {
	a.staged = append(a.staged, append([]byte(nil), r.Tx...))
	return abci.ResponseDeliverTx{}
}
func (a *ledgerApp) Commit() abci.ResponseCommit {
	a.w.onStep("apC") // before the application's commit touches its DB
	ns := a.st
	for i, tx := range a.staged {
		ns.Hash = mixHash(ns.Hash, tx)
		a.db.Set([]byte(fmt.Sprintf("ledger:tx:%d:%d", ns.Height+1, i)), tx)
	}
	ns.Height++
	bz, _ := json.Marshal(ns)
	a.db.SetSync(appStateKey, bz)
	a.st = ns
	a.staged = nil
	a.commits++
	return abci.ResponseCommit{ResponseBase: abci.ResponseBase{Data: hashBytes(ns.Hash)}}
}

// ---------------------------------------------------------------- recording privval

type signRec struct {
	H    int64
	R    int
	Step int    // 1 proposal, 2 prevote, 3 precommit
	Body string // what was signed, timestamp excluded
}

type recPV struct {
	inner types.PrivValidator
	w     *boot
	// refuseProposal(h, r) makes SignProposal fail without touching the real
	// signer (used to push a height into later rounds).
	refuse func(h int64, r int) bool
}

func (p *recPV) PubKey() crypto.PubKey { return p.inner.PubKey() }
func (p *recPV) Close() error          { return p.inner.Close() }
func (p *recPV) SignVote(chainID string, v *types.Vote) error {
	name := "pvV"
	step := 2
	if v.Type == types.PrecommitType {
		name, step = "pvC", 3
	}
	p.w.onStep(name)
	err := p.inner.SignVote(chainID, v)
	if err == nil {
		p.w.signed(signRec{v.Height, v.Round, step, fmt.Sprintf("%X/%v", v.BlockID.Hash, v.BlockID.PartsHeader)})
	}
	return err
}
func (p *recPV) SignProposal(chainID string, pr *types.Proposal) error {
	if p.refuse != nil && p.refuse(pr.Height, pr.Round) {
		return fmt.Errorf("harness: proposal withheld")
	}
	p.w.onStep("pvP")
	err := p.inner.SignProposal(chainID, pr)
	if err == nil {
		p.w.signed(signRec{pr.Height, pr.Round, 1, fmt.Sprintf("%X/%v/%d", pr.BlockID.Hash, pr.BlockID.PartsHeader, pr.POLRound)})
	}
	return err
}

// ---------------------------------------------------------------- log capture

type logCap struct {
	mtx  sync.Mutex
	msgs []string
}

type capHandler struct{ l *logCap }

func (h capHandler) Enabled(_ context.Context, lv slog.Level) bool { return lv >= slog.LevelInfo }
func (h capHandler) Handle(_ context.Context, r slog.Record) error {
	h.l.mtx.Lock()
	s := r.Message
	r.Attrs(func(a slog.Attr) bool {
		if a.Key == "err" {
			s += " err=" + a.Value.String()
		}
		return true
	})
	h.l.msgs = append(h.l.msgs, s)
	h.l.mtx.Unlock()
	return nil
}
func (h capHandler) WithAttrs([]slog.Attr) slog.Handler { return h }
func (h capHandler) WithGroup(string) slog.Handler      { return h }

func (l *logCap) has(sub string) bool {
	l.mtx.Lock()
	defer l.mtx.Unlock()
	for _, m := range l.msgs {
		if strings.Contains(m, sub) {
			return true
		}
	}
	return false
}

// ---------------------------------------------------------------- a boot (one process lifetime)

type boot struct {
	mtx     sync.Mutex
	root    string
	start   *durable // world the process was started from
	bsDB    *recDB
	stDB    *recDB
	apDB    *recDB
	app     *ledgerApp
	pv      *recPV
	node    *node.Node
	logs    *logCap
	phase   string
	events  []event
	signLog []signRec // everything signed with a nil error since the case began (carried over boots)
	frozen  bool      // stop recording (after the run's goal was reached)
	walPath string
	pvPath  string
	hsErr   string // "" | err:<class> | panic:<class>
	// observed around the handshake
	pre, post  triple
	hsCommits  int
	hsInits    int
}

type triple struct {
	store, state, app int64
	stateHash, appHash string
}

func readTriple(bs, st, ap dbm.DB) triple {
	var t triple
	t.store = store.LoadBlockStoreStateJSON(bs).Height
	s := sm.LoadState(st)
	t.state = s.LastBlockHeight
	t.stateHash = fmt.Sprintf("%X", s.AppHash)
	l := loadLedger(ap)
	t.app = l.Height
	t.appHash = fmt.Sprintf("%X", hashBytes(l.Hash))
	return t
}

func (b *boot) curHeight() int64 {
	// the height being worked on = persisted state height + 1 (read without the hook)
	return sm.LoadState(b.stDB.DB).LastBlockHeight + 1
}

func (b *boot) freeze() *durable {
	d := &durable{bs: dumpDB(b.bsDB.DB), st: dumpDB(b.stDB.DB), app: dumpDB(b.apDB.DB), key: b.start.key, genesis: b.start.genesis}
	d.wal, _ = os.ReadFile(b.walPath)
	d.pv, _ = os.ReadFile(b.pvPath)
	d.nsigned = len(b.signLog)
	return d
}

func (b *boot) record(name string) {
	if b.frozen {
		return
	}
	h := b.curHeight()
	if strings.HasPrefix(name, "ap") {
		h = loadLedger(b.apDB.DB).Height + 1
	}
	b.events = append(b.events, event{phase: b.phase, h: h, name: name, snap: b.freeze()})
}

func (b *boot) onStep(name string) {
	b.mtx.Lock()
	defer b.mtx.Unlock()
	b.record(name)
}

func (b *boot) signed(r signRec) {
	b.mtx.Lock()
	defer b.mtx.Unlock()
	b.signLog = append(b.signLog, r)
}

func (b *boot) onWrite(tag string, key []byte) {
	b.mtx.Lock()
	defer b.mtx.Unlock()
	k := string(key)
	name := ""
	switch tag {
	case "bs":
		switch {
		case strings.HasPrefix(k, "H:"):
			name = "bsH"
		case strings.HasPrefix(k, "P:"):
			name = "bsP"
		case strings.HasPrefix(k, "SC:"):
			name = "bsS"
		case strings.HasPrefix(k, "C:"):
			name = "bsC"
		case k == "blockStore":
			name = "bsJ"
		case len(key) == 0:
			name = "bsF"
		default:
			name = "bs?"
		}
	case "st":
		switch {
		case strings.HasPrefix(k, "abciResponsesKey:"):
			name = "stR"
		case strings.HasPrefix(k, "txResultKey:"):
			name = "stT"
		case strings.HasPrefix(k, "consensusParamsKey:"):
			name = "stP"
		case strings.HasPrefix(k, "validatorsKey:"):
			name = "stV"
		case k == "stateKey":
			name = "stS"
		case k == "genesisDoc":
			name = "stG"
		default:
			name = "st?"
		}
	case "ap":
		if k == string(appStateKey) {
			name = "apS"
		} else {
			name = "apK"
		}
	}
	b.record(name)
}

// consensus timeouts: long propose timeout so that a loaded machine does not
// produce spurious rounds; everything else short.
func testConfig(root string) *cfg.Config {
	c := cfg.TestConfig().SetRootDir(root)
	c.RPC.ListenAddress = ""
	c.RPC.GRPCListenAddress = ""
	c.P2P.ListenAddress = "tcp://127.0.0.1:0"
	c.P2P.PeerExchange = false
	c.Consensus.CreateEmptyBlocks = false
	c.Consensus.CreateEmptyBlocksInterval = 0
	c.Consensus.TimeoutPropose = 2 * time.Second
	c.Consensus.TimeoutPrevote = 10 * time.Millisecond
	c.Consensus.TimeoutPrecommit = 10 * time.Millisecond
	c.Consensus.TimeoutCommit = 1 * time.Millisecond
	c.Consensus.SkipTimeoutCommit = true
	return c
}

var bootSeq int

// newBoot lays the durable world d out under a fresh directory and wires the
// recording components; the node is created by (*boot).handshake.
func newBoot(base string, d *durable, prevLog []signRec) *boot {
	bootSeq++
	root := filepath.Join(base, fmt.Sprintf("boot%d", bootSeq))
	for _, sub := range []string{"config", "secrets", "data", "data/cs.wal"} {
		if err := os.MkdirAll(filepath.Join(root, sub), 0o700); err != nil {
			panic(err)
		}
	}
	b := &boot{root: root, start: d, logs: &logCap{}, phase: "hs"}
	c := testConfig(root)
	b.walPath = c.Consensus.WalFile()
	b.pvPath = c.Consensus.PrivValidator.SignStatePath()
	must(os.WriteFile(filepath.Join(root, "genesis.json"), d.genesis, 0o644))
	must(os.WriteFile(c.Consensus.PrivValidator.LocalSignerPath(), d.key, 0o600))
	if d.pv != nil {
		must(os.WriteFile(b.pvPath, d.pv, 0o600))
	}
	if d.wal != nil {
		must(os.MkdirAll(filepath.Dir(b.walPath), 0o700))
		must(os.WriteFile(b.walPath, d.wal, 0o600))
	}
	b.bsDB = &recDB{DB: loadDB(d.bs), tag: "bs", w: b}
	b.stDB = &recDB{DB: loadDB(d.st), tag: "st", w: b}
	b.apDB = &recDB{DB: loadDB(d.app), tag: "ap", w: b}
	b.signLog = append([]signRec(nil), prevLog[:min(len(prevLog), d.nsigned)]...)
	return b
}

func must(err error) {
	if err != nil {
		panic(err)
	}
}

// handshake runs node.NewNode (state load, ABCI handshake incl. block replay,
// construction of the ConsensusState from the reloaded state).
func (b *boot) handshake(refuse func(int64, int) bool) {
	c := testConfig(b.root)
	b.pre = readTriple(b.bsDB.DB, b.stDB.DB, b.apDB.DB)
	b.app = newLedgerApp(b.apDB, b)
	signer, err := local.LoadOrMakeLocalSigner(c.Consensus.PrivValidator.LocalSignerPath())
	must(err)
	pv, err := privval.NewPrivValidator(signer, b.pvPath)
	must(err)
	b.pv = &recPV{inner: pv, w: b, refuse: refuse}
	nodeKey, err := p2pTypes.LoadOrMakeNodeKey(c.NodeKeyFile())
	must(err)
	logger := slog.New(capHandler{b.logs})
	func() {
		defer func() {
			if v := recover(); v != nil {
				b.hsErr = "panic:" + classify(fmt.Sprint(v))
			}
		}()
		n, err := node.NewNode(c, b.pv, nodeKey, proxy.NewLocalClientCreator(b.app),
			node.DefaultGenesisDocProviderFunc(filepath.Join(b.root, "genesis.json")),
			func(ctx *node.DBContext) (dbm.DB, error) {
				switch ctx.ID {
				case "blockstore":
					return b.bsDB, nil
				case "state":
					return b.stDB, nil
				}
				return nil, fmt.Errorf("unexpected db %q", ctx.ID)
			},
			events.NewEventSwitch(), logger)
		if err != nil {
			b.hsErr = "err:" + classify(err.Error())
			return
		}
		b.node = n
	}()
	b.hsCommits, b.hsInits = b.app.commits, b.app.inits
	b.post = readTriple(b.bsDB.DB, b.stDB.DB, b.apDB.DB)
	b.mtx.Lock()
	b.phase = "cs"
	b.mtx.Unlock()
}

// classify maps an error / panic text to a stable token.
func classify(s string) string {
	switch {
	case strings.Contains(s, "StateBlockHeight") && strings.Contains(s, "> StoreBlockHeight"):
		return "state-ahead"
	case strings.Contains(s, "StoreBlockHeight") && strings.Contains(s, "> StateBlockHeight + 1"):
		return "store-ahead"
	case strings.Contains(s, "does not match AppHash after replay"):
		return "apphash"
	case strings.Contains(s, "uncovered case"):
		return "uncovered"
	case strings.Contains(s, "SeenCommit not found"):
		return "no-seen-commit"
	case strings.Contains(s, "block not found") || strings.Contains(s, "block meta not found"):
		return "no-block"
	case strings.Contains(s, "Could not find results for height"):
		return "no-abci-responses"
	case strings.Contains(s, "Wrong Block.Header.AppHash"):
		return "invalid-block"
	case strings.Contains(s, "is higher than core") || strings.Contains(s, "AppBlockHeightTooHigh") || strings.Contains(s, "app block height"):
		return "app-ahead"
	}
	if len(s) > 60 {
		s = s[:60]
	}
	return "other:" + strings.ReplaceAll(s, " ", "_")
}

func (b *boot) stop() {
	b.mtx.Lock()
	b.frozen = true
	b.mtx.Unlock()
	if b.node != nil {
		done := make(chan struct{})
		go func() { b.node.Stop(); close(done) }()
		select {
		case <-done:
		case <-time.After(5 * time.Second):
		}
		// the consensus receive routine closes the WAL on exit
		w := make(chan struct{})
		go func() { b.node.ConsensusState().Wait(); close(w) }()
		select {
		case <-w:
		case <-time.After(2 * time.Second):
		}
	}
	os.RemoveAll(b.root)
}

// ---------------------------------------------------------------- driving a started node

func (b *boot) storeHeight() int64 { return b.node.BlockStore().Height() }

// committedTxs returns the txs of all blocks in the store, in order.
func (b *boot) committedTxs() [][]byte {
	var out [][]byte
	bs := b.node.BlockStore()
	for h := int64(1); h <= bs.Height(); h++ {
		blk := bs.LoadBlock(h)
		if blk == nil {
			continue
		}
		for _, tx := range blk.Txs {
			out = append(out, tx)
		}
	}
	return out
}

// idle: the consensus state sits in NewRound, i.e. waits for transactions
// (create_empty_blocks = false), and state, store and app agree.
func (b *boot) idle() (bool, int64) {
	rs := b.node.ConsensusState().GetHRS()
	return rs.Step == cstypes.RoundStepNewRound && rs.Round == 0, rs.Height
}

// drive feeds the script txs one at a time (re-submitting a tx that is not in
// a block yet — the mempool does not survive a restart) until all of them are
// committed and the proof block after the last one exists, or `until` says
// stop, or nothing moves for `patience`.
func (b *boot) drive(script [][]byte, patience time.Duration, until func() bool) (live bool) {
	deadline := time.Now().Add(patience)
	lastH := int64(-1)
	submitted := -1
	subAt := int64(0)
	refusedSeen := false
	for {
		if until != nil && until() {
			return true
		}
		isIdle, h := b.idle()
		sh := b.storeHeight()
		if sh != lastH {
			lastH = sh
			deadline = time.Now().Add(patience)
		}
		if isIdle {
			done := b.committedTxs()
			if len(done) >= len(script) {
				return true
			}
			// submit the next tx once per height at which we found the node idle
			if submitted != len(done) || subAt != h {
				submitted, subAt = len(done), h
				b.node.Mempool().CheckTx(script[len(done)], nil)
				deadline = time.Now().Add(patience)
			}
		}
		if time.Now().After(deadline) {
			return false
		}
		if !refusedSeen && b.logs.has("Error signing vote") {
			// a single validator that cannot sign its own vote never leaves the round: no need to wait long
			refusedSeen = true
			if d := time.Now().Add(patience / 5); d.Before(deadline) {
				deadline = d
			}
		}
		time.Sleep(2 * time.Millisecond)
	}
}

// ---------------------------------------------------------------- WAL inspection

type walRec struct {
	off, end int
	kind     string // "mark", "wP", "wB", "wV", "wC", "step", "tmo", "?"
	h        int64
	r        int
}

func parseWAL(bz []byte) []walRec {
	var out []walRec
	off := 0
	for off < len(bz) {
		nl := bytes.IndexByte(bz[off:], '\n')
		if nl < 0 {
			out = append(out, walRec{off: off, end: len(bz), kind: "torn"})
			break
		}
		line := bz[off : off+nl+1]
		rec := walRec{off: off, end: off + nl + 1, kind: "?"}
		msg, meta, err := walm.NewWALReader(bytes.NewReader(line), 1<<24).ReadMessage()
		switch {
		case err != nil:
			rec.kind = "bad"
		case meta != nil:
			rec.kind, rec.h = "mark", meta.Height
		case msg != nil:
			v := reflect.ValueOf(msg.Msg)
			switch v.Type().Name() {
			case "msgInfo":
				switch m := v.FieldByName("Msg").Interface().(type) {
				case *cons.ProposalMessage:
					rec.kind, rec.h, rec.r = "wP", m.Proposal.Height, m.Proposal.Round
				case *cons.BlockPartMessage:
					rec.kind, rec.h, rec.r = "wB", m.Height, m.Round
				case *cons.VoteMessage:
					rec.h, rec.r = m.Vote.Height, m.Vote.Round
					if m.Vote.Type == types.PrevoteType {
						rec.kind = "wV"
					} else {
						rec.kind = "wC"
					}
				}
			case "timeoutInfo":
				rec.kind = "tmo"
			case "newRoundStepInfo":
				rec.kind = "step"
			}
		}
		out = append(out, rec)
		off += nl + 1
	}
	return out
}

func hasMarker(wal []byte, h int64) bool {
	for _, r := range parseWAL(wal) {
		if r.kind == "mark" && r.h == h {
			return true
		}
	}
	return false
}

// ---------------------------------------------------------------- misc

func sortedKeys(m map[string][]byte) []string {
	ks := make([]string, 0, len(m))
	for k := range m {
		ks = append(ks, k)
	}
	sort.Strings(ks)
	return ks
}
