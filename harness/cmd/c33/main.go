// Harness for C33: "a node recovers from a crash at any point of block processing".
//
// A REAL single-validator tm2 node (node.NewNode + Start; see world.go) is run
// in-process over recording DBs / a persistent ledger application / a recording
// privval.  Every durable step it performs is an *event*; the durable world
// right before every event is kept, so "kill the process right before event e"
// = "restart a new node from that world".
//
// op lines:
//
//	run <v>:<size> … [r<h>=<k> …]   fresh chain; one tx per script entry, fed one at a time: height 1 is the
//	                                empty genesis proof block, tx i is committed at height 2i, height 2i+1 is the
//	                                empty proof block; r<h>=<k>: the proposal is withheld in rounds < k of height h.
//	                                Runs to the end without a crash (the reference chain).
//	events <hs|cs> <h>              names of the durable steps of the latest boot labelled (phase, h), in order
//	crash <hs|cs> <h> <name>[.<i>]  kill the latest boot right before the i-th step called <name> at (phase, h);
//	                                restart (NewNode + Start), let it recover and finish the script
//	back                            forget the restarts: the latest boot is the reference run again
//	tear <h> <wP|wB|wV|wC>[.<i>]    kill #1 in the MIDDLE of writing that WAL record of height h (half of it reaches the
//	                                file); restart; kill #2 right before the same height's SaveBlock; restart.
//	                                → r1=<ok|stuck> r2=<ok|stuck|err:wal-corrupt>; ends the case's boots
//	mix <b> <s> <a>                 handshake only (NewNode), on block store / state DB / application DB taken
//	                                from the ends of heights b / s / a of the reference run
//
// step names: pvP pvV pvC (privval signs proposal / prevote / precommit) · wP wB wV wC wE (WAL record:
// proposal, block part, prevote, precommit, height marker) · bsH bsP bsC bsS bsJ bsF (block store: meta,
// part, commit, seen commit, height record, flush) · stG stR stT stP stV stS (state DB: genesis doc, ABCI
// responses, tx index, params, validators, state record) · apC apK apS (application: Commit entered, a
// pair, its state record).
//
// impl output:
//
//	run    → ok H=<last height> hash=<app hash, decimal>
//	events → the names, space separated
//	crash  → pre=<store>/<state>/<app> m=<marker for the resumed height in the WAL> pv=<h>/<r>/<s>
//	         hs=<app commits>/<InitChain calls> post=<store>/<state>/<app> hash=<state app hash>
//	         live=<ok|stuck> end=<txs committed>/<app hash>          (or hs=err:<class> / hs=panic:<class>)
//	mix    → hs=<commits>/<inits> post=<store>/<state>/<app> hash=<…>   or   hs=err:… / hs=panic:…
//
// oracle (independent of the model; evaluates the property statement on what the node did):
//
//	VIOL:restart-failed    NewNode returned an error / panicked on a world left by a kill
//	VIOL:not-synced        after the handshake store, state and application heights or hashes differ
//	VIOL:lost-block        … or their common height is not the block store height at the kill
//	VIOL:apphash           … or the app hash is not the uncrashed run's at that height
//	VIOL:block-changed     a block that was in the store at the kill is different afterwards
//	VIOL:stuck-first-height / stuck-no-marker / stuck   the restarted node stops committing
//	VIOL:wal-corrupt       OnStart returns a DataCorruptionError: the node does not start until the WAL is repaired
//	VIOL:chain-diverged    it commits other txs / other app hashes than the uncrashed run
//	VIOL:double-sign       two signatures for the same height/round/step over different content
package main

import (
	"fmt"
	"os"
	"path/filepath"
	"regexp"
	"strconv"
	"strings"
	"time"

	cfg "github.com/gnolang/gno/tm2/pkg/bft/config"
	"github.com/gnolang/gno/tm2/pkg/bft/store"
	"gnoverif/kit"
)

// ---------------------------------------------------------------- case state

type mEvent struct {
	phase  string
	h      int64
	name   string
	idx    int      // occurrence index among (phase, h, name)
	snap   *durable // hooked events: world right before
	walOff int      // WAL-record events: offset of the record
}

type bootInfo struct {
	start    *durable
	evs      []mEvent
	final    *durable
	signLog  []signRec
	dead     bool
	resumedH int64 // first height of the cs phase when it was not fresh (its steps are not addressable), else 0
	endOf    map[int64]*durable
	lastH    int64
}

type caseT struct {
	base    string
	script  [][]byte
	rounds  map[int64]int
	ref     *bootInfo
	refHash map[int64]string // state app hash at the end of height h in the reference run
	refTxs  map[int64]string
	cur     *bootInfo
}

var (
	cs      *caseT
	scratch string
)

func scratchBase() string {
	if scratch == "" {
		dir := "/dev/shm"
		if st, err := os.Stat(dir); err != nil || !st.IsDir() {
			dir = os.TempDir()
		}
		scratch = filepath.Join(dir, fmt.Sprintf("c33-%d", os.Getpid()))
		os.MkdirAll(scratch, 0o700)
	}
	return scratch
}

var genesisCache *durable

func genesisWorld() *durable {
	if genesisCache == nil {
		c, gen := cfg.ResetTestRoot("c33")
		d := &durable{}
		d.genesis, _ = os.ReadFile(gen)
		d.key, _ = os.ReadFile(c.Consensus.PrivValidator.LocalSignerPath())
		os.RemoveAll(filepath.Dir(c.RootDir))
		genesisCache = d
	}
	return &durable{bs: map[string][]byte{}, st: map[string][]byte{}, app: map[string][]byte{},
		key: genesisCache.key, genesis: genesisCache.genesis}
}

var stdoutSwapped bool

func reset() {
	// the consensus code prints WAL repair instructions with fmt.Println: keep the protocol stream clean
	// (the kit's writer already holds the real stdout)
	if !stdoutSwapped {
		stdoutSwapped = true
		if f, err := os.OpenFile(os.DevNull, os.O_WRONLY, 0); err == nil {
			os.Stdout = f
		}
	}
	if cs != nil && cs.base != "" {
		os.RemoveAll(cs.base)
	}
	cs = nil
}

// ---------------------------------------------------------------- running a boot

const patience = 20 * time.Second

var pvRe = regexp.MustCompile(`"height":\s*"?(\d+)"?,\s*"round":\s*"?(\d+)"?,\s*"step":\s*"?(\d+)"?`)

func pvHRS(pv []byte) string {
	m := pvRe.FindSubmatch(pv)
	if m == nil {
		return "0/0/0"
	}
	return fmt.Sprintf("%s/%s/%s", m[1], m[2], m[3])
}

func tripleStr(t triple) string { return fmt.Sprintf("%d/%d/%d", t.store, t.state, t.app) }

func hashDec(hexs string) string {
	if hexs == "" {
		return "0"
	}
	n, _ := strconv.ParseUint(hexs, 16, 64)
	return strconv.FormatUint(n, 10)
}

// mergeEvents turns the hooked events of b plus the WAL records written during this boot into one
// ordered list.
func mergeEvents(b *boot, final *durable) []mEvent {
	var out []mEvent
	recs := parseWAL(final.wal)
	ri := 0
	startLen := len(b.start.wal)
	for ri < len(recs) && recs[ri].off < startLen {
		ri++
	}
	walName := func(k string) string {
		switch k {
		case "mark":
			return "wE"
		case "wP", "wB", "wV", "wC":
			return k
		}
		return ""
	}
	emitRecs := func(upto int, phase string, h int64) {
		for ri < len(recs) && recs[ri].end <= upto {
			// a vote signed again during WAL replay can reach the WAL after its height is over (it is
			// ignored as a duplicate there): records of other heights are not steps of this height
			if n := walName(recs[ri].kind); n != "" && (n == "wE" || recs[ri].h == h) {
				out = append(out, mEvent{phase: phase, h: h, name: n, walOff: recs[ri].off})
			}
			ri++
		}
	}
	for _, e := range b.events {
		emitRecs(len(e.snap.wal), e.phase, e.h)
		out = append(out, mEvent{phase: e.phase, h: e.h, name: e.name, snap: e.snap})
	}
	lastPhase, lastH := "cs", int64(0)
	if n := len(b.events); n > 0 {
		lastPhase, lastH = b.events[n-1].phase, b.events[n-1].h
	}
	emitRecs(len(final.wal), lastPhase, lastH)
	cnt := map[string]int{}
	for i := range out {
		k := fmt.Sprintf("%s/%d/%s", out[i].phase, out[i].h, out[i].name)
		out[i].idx = cnt[k]
		cnt[k]++
	}
	return out
}

// worldBefore returns the durable world right before event j of bi.
func worldBefore(bi *bootInfo, j int) *durable {
	e := bi.evs[j]
	if e.snap != nil {
		return e.snap.clone()
	}
	var d *durable
	for k := j + 1; k < len(bi.evs); k++ {
		if bi.evs[k].snap != nil {
			d = bi.evs[k].snap.clone()
			break
		}
	}
	if d == nil {
		d = bi.final.clone()
	}
	d.wal = d.wal[:e.walOff]
	return d
}

type bootResult struct {
	b    *boot
	info *bootInfo
	live bool
}

// runBoot starts a node from d, lets it recover and drives the script to the end.
func runBoot(d *durable, prevLog []signRec, handshakeOnly bool) *bootResult {
	b := newBoot(cs.base, d, prevLog)
	refuse := func(h int64, r int) bool { return r < cs.rounds[h] }
	if cs.ref != nil {
		refuse = nil // a restarted node proposes whenever it is its turn
	}
	b.handshake(refuse)
	res := &bootResult{b: b}
	if b.node == nil || handshakeOnly {
		b.stop()
		return res
	}
	must(b.node.Start())
	res.live = b.drive(cs.script, patience, nil)
	final := b.freeze()
	b.stop()
	info := &bootInfo{start: d, final: final, signLog: b.signLog, dead: !res.live, endOf: map[int64]*durable{}}
	info.evs = mergeEvents(b, final)
	// end-of-height worlds: the world before the first cs event of the next height
	for i, e := range info.evs {
		if e.phase == "cs" {
			if _, ok := info.endOf[e.h-1]; !ok {
				info.endOf[e.h-1] = worldBefore(info, i)
			}
		}
	}
	info.lastH = store.LoadBlockStoreStateJSON(loadDB(final.bs)).Height
	info.endOf[info.lastH] = final
	res.info = info
	return res
}

// freshResume: the height the boot resumes was untouched by the killed process.
func freshResume(d *durable, stateH int64) bool {
	var h int64
	fmt.Sscanf(pvHRS(d.pv), "%d/", &h)
	if h > stateH {
		return false
	}
	for _, r := range parseWAL(d.wal) {
		switch r.kind {
		case "wP", "wB", "wV", "wC":
			if r.h > stateH {
				return false
			}
		}
	}
	return true
}

// ---------------------------------------------------------------- oracle helpers

func blockHashes(bs map[string][]byte) map[int64]string {
	st := store.NewBlockStore(loadDB(bs))
	out := map[int64]string{}
	for h := int64(1); h <= st.Height(); h++ {
		if m := st.LoadBlockMeta(h); m != nil {
			out[h] = fmt.Sprintf("%X", m.BlockID.Hash)
		}
	}
	return out
}

func blockTxs(bs map[string][]byte) map[int64]string {
	st := store.NewBlockStore(loadDB(bs))
	out := map[int64]string{}
	for h := int64(1); h <= st.Height(); h++ {
		if b := st.LoadBlock(h); b != nil {
			s := ""
			for _, tx := range b.Txs {
				s += fmt.Sprintf("%X;", []byte(tx))
			}
			out[h] = s + "|" + fmt.Sprintf("%X", b.AppHash)
		}
	}
	return out
}

func committedSeq(bs map[string][]byte) []string {
	st := store.NewBlockStore(loadDB(bs))
	var out []string
	for h := int64(1); h <= st.Height(); h++ {
		if b := st.LoadBlock(h); b != nil {
			for _, tx := range b.Txs {
				out = append(out, fmt.Sprintf("%X", []byte(tx)))
			}
		}
	}
	return out
}

func expectedHash(bs map[string][]byte, upto int64) string {
	st := store.NewBlockStore(loadDB(bs))
	var h uint64
	for i := int64(1); i <= upto && i <= st.Height(); i++ {
		if b := st.LoadBlock(i); b != nil {
			for _, tx := range b.Txs {
				h = mixHash(h, tx)
			}
		}
	}
	return fmt.Sprintf("%X", hashBytes(h))
}

func doubleSign(log []signRec) string {
	seen := map[string]string{}
	for _, r := range log {
		k := fmt.Sprintf("%d/%d/%d", r.H, r.R, r.Step)
		if prev, ok := seen[k]; ok && prev != r.Body {
			return k
		}
		seen[k] = r.Body
	}
	return ""
}

// ---------------------------------------------------------------- ops

func parseRun(toks []string) (script [][]byte, rounds map[int64]int, ok bool) {
	rounds = map[int64]int{}
	for _, t := range toks {
		if strings.HasPrefix(t, "r") {
			var h int64
			var k int
			if n, _ := fmt.Sscanf(t, "r%d=%d", &h, &k); n != 2 || h < 1 || h > 64 || k < 0 || k > 3 {
				return nil, nil, false
			}
			rounds[h] = k
			continue
		}
		vs := strings.Split(t, ":")
		if len(vs) != 2 {
			return nil, nil, false
		}
		v, e1 := strconv.ParseUint(vs[0], 10, 32)
		s, e2 := strconv.Atoi(vs[1])
		if e1 != nil || e2 != nil || s < 8 || s > 200000 {
			return nil, nil, false
		}
		script = append(script, mkTx(v, s))
	}
	if len(script) > 6 {
		return nil, nil, false
	}
	return script, rounds, true
}

func opRun(toks []string) (string, string) {
	script, rounds, ok := parseRun(toks)
	if !ok || cs != nil {
		return "err:badop", "-"
	}
	cs = &caseT{script: script, rounds: rounds}
	cs.base, _ = os.MkdirTemp(scratchBase(), "case")
	var res *bootResult
	// a loaded machine can make the propose timeout fire spuriously; the reference run is then repeated
	for try := 0; try < 3; try++ {
		res = runBoot(genesisWorld(), nil, false)
		if res.info != nil && res.live && referenceShapeOK(res.info) {
			break
		}
	}
	if res.info == nil || !res.live {
		cs.cur = &bootInfo{dead: true}
		return "stuck", "VIOL:stuck uncrashed run does not finish"
	}
	cs.ref, cs.cur = res.info, res.info
	cs.refHash, cs.refTxs = map[int64]string{}, blockTxs(res.info.final.bs)
	for h, d := range res.info.endOf {
		cs.refHash[h] = readTriple(loadDB(d.bs), loadDB(d.st), loadDB(d.app)).stateHash
	}
	t := readTriple(loadDB(res.info.final.bs), loadDB(res.info.final.st), loadDB(res.info.final.app))
	orc := "ok"
	if t.store != t.state || t.app != t.state || t.stateHash != t.appHash {
		orc = "VIOL:not-synced " + tripleStr(t)
	} else if k := doubleSign(res.info.signLog); k != "" {
		orc = "VIOL:double-sign " + k
	}
	return fmt.Sprintf("ok H=%d hash=%s", t.store, hashDec(t.appHash)), orc
}

// referenceShapeOK: every height of the reference run has exactly the rounds asked for (no spurious timeouts).
func referenceShapeOK(bi *bootInfo) bool {
	for h := int64(1); h <= bi.lastH; h++ {
		np := 0
		for _, e := range bi.evs {
			if e.phase == "cs" && e.h == h && e.name == "pvV" {
				np++
			}
		}
		if np != cs.rounds[h]+1 {
			return false
		}
	}
	return true
}

// restartShapeOK: every height above the resumed one was committed in round 0.
func restartShapeOK(bi *bootInfo, resumed int64) bool {
	for h := resumed + 1; h <= bi.lastH; h++ {
		np := 0
		for _, e := range bi.evs {
			if e.phase == "cs" && e.h == h && e.name == "pvV" {
				np++
			}
		}
		if np != 1 {
			return false
		}
	}
	return true
}

func findEvent(bi *bootInfo, phase string, h int64, name string, idx int) int {
	for i, e := range bi.evs {
		if e.phase == phase && e.h == h && e.name == name && e.idx == idx {
			return i
		}
	}
	return -1
}

func parseAddr(toks []string) (phase string, h int64, name string, idx int, ok bool) {
	if len(toks) != 3 || (toks[0] != "hs" && toks[0] != "cs") {
		return
	}
	hh, err := strconv.ParseInt(toks[1], 10, 32)
	if err != nil || hh < 0 {
		return
	}
	name = toks[2]
	if i := strings.IndexByte(name, '.'); i >= 0 {
		n, err := strconv.Atoi(name[i+1:])
		if err != nil || n < 0 {
			return
		}
		idx, name = n, name[:i]
	}
	return toks[0], hh, name, idx, true
}

func supported(bi *bootInfo, phase string, h int64) bool {
	return !(phase == "cs" && bi.resumedH != 0 && h == bi.resumedH)
}

func opEvents(toks []string) (string, string) {
	if cs == nil || cs.cur == nil || len(toks) != 2 || (toks[0] != "hs" && toks[0] != "cs") {
		return "err:badop", "-"
	}
	h, err := strconv.ParseInt(toks[1], 10, 32)
	if err != nil {
		return "err:badop", "-"
	}
	if cs.cur.dead {
		return "err:dead", "-"
	}
	if !supported(cs.cur, toks[0], h) {
		return "err:unsupported", "-"
	}
	var names []string
	for _, e := range cs.cur.evs {
		if e.phase == toks[0] && e.h == h {
			names = append(names, e.name)
		}
	}
	if len(names) == 0 {
		return "none", "-"
	}
	return strings.Join(names, " "), "-"
}

func opCrash(toks []string) (string, string) {
	phase, h, name, idx, ok := parseAddr(toks)
	if !ok || cs == nil || cs.cur == nil {
		return "err:badop", "-"
	}
	if cs.cur.dead {
		return "err:dead", "-"
	}
	if !supported(cs.cur, phase, h) {
		return "err:unsupported", "-"
	}
	j := findEvent(cs.cur, phase, h, name, idx)
	if j < 0 {
		return "err:noevent", "-"
	}
	world := worldBefore(cs.cur, j)
	pre := readTriple(loadDB(world.bs), loadDB(world.st), loadDB(world.app))
	preBlocks := blockHashes(world.bs)
	var res *bootResult
	for try := 0; try < 3; try++ {
		res = runBoot(world, cs.cur.signLog, false)
		// a spurious propose timeout (loaded machine) adds a round to a fresh height: run that boot again
		if res.info == nil || !res.live || restartShapeOK(res.info, res.b.post.state+1) {
			break
		}
	}
	b := res.b
	if os.Getenv("C33_DEBUG") != "" {
		for _, m := range b.logs.msgs {
			fmt.Fprintln(os.Stderr, "   LOG", m)
		}
		if res.info != nil {
			fmt.Fprintln(os.Stderr, "   TXS", blockTxs(res.info.final.bs))
			for _, e := range res.info.evs {
				fmt.Fprintf(os.Stderr, " %s/%d/%s", e.phase, e.h, e.name)
			}
			fmt.Fprintln(os.Stderr)
		}
	}
	out := fmt.Sprintf("pre=%s", tripleStr(pre))
	if b.hsErr != "" {
		cs.cur = &bootInfo{dead: true}
		return out + " hs=" + b.hsErr, "VIOL:restart-failed " + b.hsErr
	}
	mk := 0
	if hasMarker(world.wal, b.post.state+1) {
		mk = 1
	}
	out += fmt.Sprintf(" m=%d pv=%s hs=%d/%d post=%s hash=%s", mk, pvHRS(world.pv), b.hsCommits, b.hsInits, tripleStr(b.post), hashDec(b.post.stateHash))
	// ---- oracle
	orc := ""
	viol := func(s string) {
		if orc == "" {
			orc = s
		}
	}
	if b.post.store != b.post.state || b.post.app != b.post.state || b.post.stateHash != b.post.appHash {
		viol("VIOL:not-synced " + tripleStr(b.post))
	}
	if b.post.state != pre.store {
		viol(fmt.Sprintf("VIOL:lost-block store was %d, recovered to %d", pre.store, b.post.state))
	}
	// the application hash an uncrashed node has after executing the blocks 1..post.state of this store
	if want := expectedHash(world.bs, b.post.state); want != b.post.stateHash {
		viol(fmt.Sprintf("VIOL:apphash at %d: %s, uncrashed %s", b.post.state, b.post.stateHash, want))
	}
	info := res.info
	cs.cur = info
	if !res.live {
		cls := "stuck"
		switch {
		case b.post.state+1 == 1 && mk == 0:
			cls = "stuck-first-height"
		case mk == 0:
			cls = "stuck-no-marker"
		}
		viol(fmt.Sprintf("VIOL:%s no progress at height %d for %v", cls, b.post.state+1, patience))
		out += " live=stuck end=-"
	} else {
		t := readTriple(loadDB(info.final.bs), loadDB(info.final.st), loadDB(info.final.app))
		got := committedSeq(info.final.bs)
		out += fmt.Sprintf(" live=ok end=%d/%s", len(got), hashDec(t.appHash))
		post := blockHashes(info.final.bs)
		for hh, x := range preBlocks {
			if post[hh] != x {
				viol(fmt.Sprintf("VIOL:block-changed height %d", hh))
			}
		}
		// same chain: the script's txs, each once, in order (an undecided height may come out as an
		// empty block after a restart — the mempool is not durable — so heights are not compared)
		if len(got) != len(cs.script) {
			viol(fmt.Sprintf("VIOL:chain-diverged %d txs committed, script has %d", len(got), len(cs.script)))
		} else {
			for i := range got {
				if got[i] != fmt.Sprintf("%X", cs.script[i]) {
					viol(fmt.Sprintf("VIOL:chain-diverged tx %d", i))
					break
				}
			}
		}
		refFinal := readTriple(loadDB(cs.ref.final.bs), loadDB(cs.ref.final.st), loadDB(cs.ref.final.app))
		if t.appHash != refFinal.appHash {
			viol(fmt.Sprintf("VIOL:chain-diverged final app hash %s, uncrashed %s", t.appHash, refFinal.appHash))
		}
		if t.store != t.state || t.app != t.state || t.stateHash != t.appHash {
			viol("VIOL:not-synced at end " + tripleStr(t))
		}
		if !freshResume(world, b.post.state) {
			info.resumedH = b.post.state + 1
		}
	}
	if k := doubleSign(info.signLog); k != "" {
		viol("VIOL:double-sign " + k)
	}
	if orc == "" {
		orc = "ok"
	}
	return out, orc
}

func opMix(toks []string) (string, string) {
	if len(toks) != 3 || cs == nil || cs.ref == nil {
		return "err:badop", "-"
	}
	var n [3]int64
	for i, t := range toks {
		v, err := strconv.ParseInt(t, 10, 32)
		if err != nil || v < 0 || v > cs.ref.lastH {
			return "err:badop", "-"
		}
		n[i] = v
	}
	f := cs.ref.final
	d := &durable{bs: cloneMap(cs.ref.endOf[n[0]].bs), st: cloneMap(cs.ref.endOf[n[1]].st), app: cloneMap(cs.ref.endOf[n[2]].app),
		wal: f.wal, pv: f.pv, key: f.key, genesis: f.genesis, nsigned: f.nsigned}
	res := runBoot(d, cs.ref.signLog, true)
	b := res.b
	if b.hsErr != "" {
		return "hs=" + b.hsErr, "-"
	}
	return fmt.Sprintf("hs=%d/%d post=%s hash=%s", b.hsCommits, b.hsInits, tripleStr(b.post), hashDec(b.post.stateHash)), "-"
}

// opTear: kill #1 in the middle of writing a WAL record of height h (half of its bytes reach the file);
// restart; kill #2 right before that height's SaveBlock; restart.
func opTear(toks []string) (string, string) {
	if len(toks) != 2 || cs == nil || cs.cur == nil {
		return "err:badop", "-"
	}
	_, h, name, idx, ok := parseAddr([]string{"cs", toks[0], toks[1]})
	if !ok || (name != "wP" && name != "wB" && name != "wV" && name != "wC") {
		return "err:badop", "-"
	}
	if cs.cur.dead {
		return "err:dead", "-"
	}
	if !supported(cs.cur, "cs", h) {
		return "err:unsupported", "-"
	}
	j := findEvent(cs.cur, "cs", h, name, idx)
	if j < 0 {
		return "err:noevent", "-"
	}
	cur := cs.cur
	cs.cur = &bootInfo{dead: true}
	world := worldBefore(cur, j)
	// the full record is in the next snapshot's (or the final) WAL copy
	var full []byte
	for k := j + 1; k < len(cur.evs) && full == nil; k++ {
		if cur.evs[k].snap != nil {
			full = cur.evs[k].snap.wal
		}
	}
	if full == nil {
		full = cur.final.wal
	}
	for _, r := range parseWAL(full) {
		if r.off == cur.evs[j].walOff {
			world.wal = append([]byte(nil), full[:r.off+(r.end-r.off)/2]...)
		}
	}
	r1 := runBoot(world, cur.signLog, false)
	if r1.b.hsErr != "" {
		return "r1=" + r1.b.hsErr + " r2=-", "VIOL:restart-failed " + r1.b.hsErr
	}
	if !r1.live {
		cls := "stuck"
		if !hasMarker(world.wal, r1.b.post.state+1) {
			cls = "stuck-no-marker"
			if r1.b.post.state == 0 {
				cls = "stuck-first-height"
			}
		}
		return "r1=stuck r2=-", "VIOL:" + cls + " after a torn WAL record"
	}
	j2 := findEvent(r1.info, "cs", r1.b.post.state+1, "bsH", 0)
	if j2 < 0 {
		return "r1=ok r2=-", "-"
	}
	w2 := worldBefore(r1.info, j2)
	b := newBoot(cs.base, w2, r1.info.signLog)
	b.handshake(nil)
	if b.hsErr != "" {
		b.stop()
		return "r1=ok r2=" + b.hsErr, "VIOL:restart-failed " + b.hsErr
	}
	if err := b.node.Start(); err != nil {
		b.stop()
		if strings.Contains(err.Error(), "DataCorruptionError") {
			return "r1=ok r2=err:wal-corrupt", "VIOL:wal-corrupt the node does not start any more: " + classify(err.Error())
		}
		return "r1=ok r2=err:start", "VIOL:restart-failed " + classify(err.Error())
	}
	live := b.drive(cs.script, patience, nil)
	b.stop()
	if !live {
		cls := "stuck"
		if !hasMarker(w2.wal, b.post.state+1) {
			cls = "stuck-no-marker"
			if b.post.state == 0 {
				cls = "stuck-first-height"
			}
		}
		return "r1=ok r2=stuck", "VIOL:" + cls + " after a torn WAL record and a second kill"
	}
	return "r1=ok r2=ok", "ok"
}

func execOp(toks []string) (string, string) {
	if len(toks) == 0 {
		return "err:badop", "-"
	}
	switch toks[0] {
	case "run":
		return opRun(toks[1:])
	case "events":
		return opEvents(toks[1:])
	case "crash":
		return opCrash(toks[1:])
	case "mix":
		return opMix(toks[1:])
	case "tear":
		return opTear(toks[1:])
	case "back":
		if cs == nil || cs.ref == nil || len(toks) != 1 {
			return "err:badop", "-"
		}
		cs.cur = cs.ref
		return "ok", "-"
	}
	return "err:badop", "-"
}

func main() {
	if len(os.Args) > 1 && os.Args[1] == "exec" {
		defer func() {
			reset()
			if scratch != "" {
				os.RemoveAll(scratch)
			}
		}()
	}
	kit.Main(&kit.Harness{Gen: gen, Reset: reset, Exec: execOp})
}
