package main

import (
	"fmt"
	"os"
	"path/filepath"
	"time"

	cfg "github.com/gnolang/gno/tm2/pkg/bft/config"
)

func genesisWorld(base string) *durable {
	// take genesis + key + initial sign state from the repo's own test root
	c, gen := cfg.ResetTestRoot("c33")
	defer os.RemoveAll(filepath.Dir(c.RootDir))
	d := &durable{bs: map[string][]byte{}, st: map[string][]byte{}, app: map[string][]byte{}}
	d.genesis, _ = os.ReadFile(gen)
	d.key, _ = os.ReadFile(c.Consensus.PrivValidator.LocalSignerPath())
	return d
}

func probe() {
	base, _ := os.MkdirTemp("", "c33-")
	defer os.RemoveAll(base)
	d := genesisWorld(base)
	script := [][]byte{mkTx(7, 8), mkTx(9, 100)}
	t0 := time.Now()
	b := newBoot(base, d, nil)
	b.handshake(nil)
	fmt.Println("hs:", b.hsErr, b.pre, b.post, b.hsCommits, b.hsInits, time.Since(t0))
	if b.node == nil {
		return
	}
	must(b.node.Start())
	live := b.drive(script, 10*time.Second, nil)
	fmt.Println("live", live, "store", b.storeHeight(), time.Since(t0))
	final := b.freeze()
	b.stop()
	for i, e := range b.events {
		fmt.Printf("%3d %s h=%d %s wal=%d\n", i, e.phase, e.h, e.name, len(e.snap.wal))
	}
	for _, r := range parseWAL(final.wal) {
		fmt.Printf("  wal %6d %s h=%d r=%d\n", r.off, r.kind, r.h, r.r)
	}
	fmt.Println("signlog", len(b.signLog))
	find := func(bb *boot, h int64, name string) *durable {
		for _, e := range bb.events {
			if e.phase == "cs" && e.h == h && e.name == name {
				return e.snap
			}
		}
		return nil
	}
	// double crash: first between the block-store height record and the WAL marker of height 2 …
	s1 := find(b, 2, "bsF")
	b2 := newBoot(base, s1.clone(), b.signLog)
	b2.handshake(nil)
	must(b2.node.Start())
	live = b2.drive(script, 5*time.Second, nil)
	fmt.Println("after crash 1: pre", b2.pre, "post", b2.post, "live", live, "store", b2.storeHeight())
	b2.stop()
	for i, e := range b2.events {
		fmt.Printf("%3d %s h=%d %s wal=%d\n", i, e.phase, e.h, e.name, len(e.snap.wal))
	}
	// … then during height 3 after the prevote was signed
	for _, nm := range []string{"pvV", "pvC", "bsH"} {
		s2 := find(b2, 3, nm)
		if s2 == nil {
			fmt.Println("no event", nm)
			continue
		}
		b3 := newBoot(base, s2.clone(), b2.signLog)
		b3.handshake(nil)
		must(b3.node.Start())
		live = b3.drive(script, 5*time.Second, nil)
		fmt.Println("after crash 2 before", nm, ": pre", b3.pre, "post", b3.post, "live", live, "store", b3.storeHeight(), "replayErr", b3.logs.has("Error on catchup replay"), b3.node.ConsensusState().GetHRS())
		b3.stop()
	}
}

func main() {
	if len(os.Args) > 1 && os.Args[1] == "probe" {
		probe()
		return
	}
}
