package main

import (
	"fmt"
	"strings"

	"gnoverif/kit"
)

// ---------------------------------------------------------------- generator

type txSpec struct {
	v    uint64
	size int
}

// points lists the addressable durable steps of the reference run at consensus height h
// (tx = the block's transaction or nil, k = rounds without a proposal).
func points(h int, tx *txSpec, k int) []string {
	var out []string
	add := func(n string) { out = append(out, fmt.Sprintf("cs %d %s", h, n)) }
	if h == 1 {
		add("wE.0") // WAL open marker
	}
	for r := 0; r < k; r++ {
		add(fmt.Sprintf("pvV.%d", r))
		add(fmt.Sprintf("wV.%d", r))
		add(fmt.Sprintf("pvC.%d", r))
		add(fmt.Sprintf("wC.%d", r))
	}
	parts, ntx := 1, 0
	if tx != nil {
		ntx = 1
		parts = (tx.size+2000)/65536 + 1
	}
	add("pvP")
	add("wP")
	for i := 0; i < parts; i++ {
		add(fmt.Sprintf("wB.%d", i))
	}
	add(fmt.Sprintf("pvV.%d", k))
	add(fmt.Sprintf("wV.%d", k))
	add(fmt.Sprintf("pvC.%d", k))
	add(fmt.Sprintf("wC.%d", k))
	add("bsH")
	for i := 0; i < parts; i++ {
		add(fmt.Sprintf("bsP.%d", i))
	}
	for _, n := range []string{"bsC", "bsS", "bsJ", "bsF"} {
		add(n)
	}
	if h == 1 {
		add("wE.1")
	} else {
		add("wE")
	}
	add("stR")
	for i := 0; i < ntx; i++ {
		add("stT")
	}
	add("apC")
	for i := 0; i < ntx; i++ {
		add("apK")
	}
	for _, n := range []string{"apS", "stP", "stV", "stS"} {
		add(n)
	}
	return out
}

// genesis boot, handshake phase
func genesisPoints() []string {
	names := []string{"stG", "stV.0", "stP.0", "stV.1", "stS.0", "stV.2", "stP.1", "stV.3", "stS.1", "stR", "stV.4", "stP.2", "stV.5", "stS.2"}
	out := make([]string, len(names))
	for i, n := range names {
		out[i] = "hs 1 " + n
	}
	return out
}

// a point where a single validator is known to stall after the restart (known findings):
// first height, anything after the first prevote was signed and before the block is in the store
func stallsFirstHeight(p string) bool {
	if !strings.HasPrefix(p, "cs 1 ") {
		return false
	}
	n := strings.TrimPrefix(p, "cs 1 ")
	switch {
	case strings.HasPrefix(n, "wV"), strings.HasPrefix(n, "pvC"), strings.HasPrefix(n, "wC"),
		n == "bsH", strings.HasPrefix(n, "bsP"), n == "bsC", n == "bsS", n == "bsJ":
		return true
	case strings.HasPrefix(n, "pvV.") && n != "pvV.0":
		return true
	}
	return false
}

func scriptLine(txs []txSpec, rounds map[int]int) string {
	var sb strings.Builder
	sb.WriteString("run")
	for _, t := range txs {
		fmt.Fprintf(&sb, " %d:%d", t.v, t.size)
	}
	for h := 1; h <= 2*len(txs)+1; h++ {
		if k, ok := rounds[h]; ok {
			fmt.Fprintf(&sb, " r%d=%d", h, k)
		}
	}
	return sb.String()
}

func txAt(txs []txSpec, h int) *txSpec {
	if h >= 2 && h%2 == 0 && h/2-1 < len(txs) {
		return &txs[h/2-1]
	}
	return nil
}

func randTx(r *kit.Rand, big bool) txSpec {
	sizes := []int{8, 9, 64, 100, 1000, 20000}
	s := kit.Pick(r, sizes)
	if big {
		s = 70000 + r.Intn(20000)
	}
	return txSpec{v: uint64(r.Intn(1 << 20)), size: s}
}

func gen(w *kit.Out, r *kit.Rand, tier string) {
	thorough := tier == "thorough"

	// ---- 1. boundary table: the order of durable steps, one kill per phase of a height, handshake table
	txs := []txSpec{randTx(r, false), randTx(r, false)}
	w.Case("order")
	w.Op("%s", scriptLine(txs, nil))
	w.Op("events hs 1")
	for h := 1; h <= 5; h++ {
		w.Op("events cs %d", h)
	}
	table := []string{"cs 2 pvV.0", "cs 2 wC.0", "cs 2 bsJ", "cs 2 bsF", "cs 2 wE", "cs 2 apS", "cs 2 stS", "cs 3 pvP", "cs 3 apC", "hs 1 stS.1", "cs 1 pvV.0", "cs 1 bsF", "cs 1 stS"}
	for _, p := range table {
		w.Op("crash %s", p)
		w.Op("back")
	}
	// the whole handshake table on worlds assembled from the reference run
	for b := 0; b <= 3; b++ {
		for s := 0; s <= 3; s++ {
			for a := 0; a <= 3; a++ {
				if thorough || r.Chance(35) || (s <= b && b <= s+1 && a <= b) {
					w.Op("mix %d %d %d", b, s, a)
				}
			}
		}
	}

	// ---- 2. kill during the recovery itself, and again later
	w.Case("twice")
	w.Op("%s", scriptLine(txs, nil))
	w.Op("crash cs 2 stR")
	w.Op("events hs 2")
	w.Op("crash hs 2 apS") // killed while the handshake replays block 2 on the application
	w.Op("events hs 2")
	w.Op("crash hs 2 stS") // … and once more right before the state is saved (mock application case)
	w.Op("events cs 3")
	w.Op("crash cs 3 %s", kit.Pick(r, []string{"bsJ", "wE", "apS", "stP", "pvC.0"}))
	w.Op("events cs 4")
	w.Op("crash cs 4 %s", kit.Pick(r, []string{"bsH", "stR", "apK", "stS"}))

	// ---- 3. structured random: kills at random steps of random heights, some twice
	n := 6
	if thorough {
		n = 30
	}
	w.Case("random")
	ntx := 1 + r.Intn(2)
	txs = nil
	for i := 0; i < ntx; i++ {
		txs = append(txs, randTx(r, thorough && r.Chance(30)))
	}
	w.Op("%s", scriptLine(txs, nil))
	lastH := 2*ntx + 1
	for i := 0; i < n; i++ {
		h := 1 + r.Intn(lastH)
		ps := points(h, txAt(txs, h), 0)
		p := kit.Pick(r, ps)
		if stallsFirstHeight(p) && !r.Chance(10) {
			continue
		}
		w.Op("crash %s", p)
		if r.Chance(30) && h < lastH {
			// a second kill in a later height of the restarted node
			h2 := h + 1 + r.Intn(lastH-h)
			w.Op("crash %s", kit.Pick(r, points(h2, txAt(txs, h2), 0)))
		}
		w.Op("back")
	}

	if thorough {
		// ---- 4. every durable step of the genesis start and of heights 1..5 (two txs, possibly two parts)
		txs = []txSpec{randTx(r, r.Chance(40)), randTx(r, false)}
		w.Case("all-points")
		w.Op("%s", scriptLine(txs, nil))
		all := genesisPoints()
		for h := 1; h <= 5; h++ {
			all = append(all, points(h, txAt(txs, h), 0)...)
		}
		for _, p := range all {
			w.Op("crash %s", p)
			w.Op("back")
		}
		// ---- 5. later rounds: the proposal is withheld once at a height
		hr := 2 + r.Intn(2)
		txs = []txSpec{randTx(r, false)}
		w.Case("rounds")
		w.Op("%s", scriptLine(txs, map[int]int{hr: 1}))
		w.Op("events cs %d", hr)
		for _, p := range points(hr, txAt(txs, hr), 1) {
			w.Op("crash %s", p)
			w.Op("back")
		}
		// ---- 6. every step of the recovery from each handshake case, killed again
		txs = []txSpec{randTx(r, false)}
		w.Case("recovery-points")
		w.Op("%s", scriptLine(txs, nil))
		for _, first := range []string{"cs 2 bsF", "cs 2 apS", "cs 2 stP", "cs 3 stR"} {
			hh := first[3:4]
			for _, second := range []string{"stR", "stT", "apC", "apK", "apS", "stP", "stV", "stS"} {
				w.Op("crash %s", first)
				w.Op("crash hs %s %s", hh, second)
				w.Op("back")
			}
		}
	}

	// ---- 7. a WAL record torn by the kill, then a second kill in the same height (known finding)
	nt := 1
	if thorough {
		nt = 4
	}
	for i := 0; i < nt; i++ {
		txs = []txSpec{randTx(r, false)}
		w.Case(fmt.Sprintf("torn-%d", i))
		w.Op("%s", scriptLine(txs, nil))
		w.Op("tear %d %s", 2+r.Intn(2), kit.Pick(r, []string{"wP", "wB", "wV", "wC"}))
	}

	// ---- malformed stream
	w.Case("malformed")
	w.Op("crash cs 1 pvP")
	w.Op("events cs 1")
	w.Op("run 1:7")
	w.Op("run 1:8 r0=1")
	w.Op("run x:8")
	w.Op("run 5:8")
	w.Op("run 5:8")
	w.Op("crash")
	w.Op("crash zz 1 pvP")
	w.Op("crash cs 99 pvP")
	w.Op("crash cs 1 pvP.7")
	w.Op("crash cs 1 nosuch")
	w.Op("events zz 1")
	w.Op("events cs 99")
	w.Op("tear 2 bsH")
	w.Op("tear 2")
	w.Op("tear 9 wP")
	w.Op("mix 9 9 9")
	w.Op("mix 1 1")
	w.Op("back x")
	w.Op("bogus")
}
