package main

// Independent reference implementations and embedded reference vectors used by
// the ORACLE only (never by the model, never by the code under test):
//
//   - BIP-32 private child derivation over math/big with a textbook affine
//     secp256k1 scalar multiplication (no btcec), HMAC-SHA512 from the Go stdlib;
//   - PBKDF2-HMAC-SHA512 (BIP-39 seed) written out from RFC 8018 §5.2;
//   - BIP-39 checksum evaluation with crypto/sha256 + math/big;
//   - the official BIP-32 test vectors 1 and 2 (base58check xprv strings; their
//     checksums are verified at start-up, so a typo here cannot go unnoticed),
//     the official BIP-39 (Trezor) vectors, three Cosmos-fundraiser vectors.

import (
	"bytes"
	"crypto/hmac"
	"crypto/sha256"
	"crypto/sha512"
	"encoding/binary"
	"encoding/hex"
	"fmt"
	"math/big"
	"strconv"
	"strings"
)

// ---------------------------------------------------------------- secp256k1 (affine, math/big)

var (
	refP, _  = new(big.Int).SetString("FFFFFFFFFFFFFFFFFFFFFFFFFFFFFFFFFFFFFFFFFFFFFFFFFFFFFFFEFFFFFC2F", 16)
	refN, _  = new(big.Int).SetString("FFFFFFFFFFFFFFFFFFFFFFFFFFFFFFFEBAAEDCE6AF48A03BBFD25E8CD0364141", 16)
	refGx, _ = new(big.Int).SetString("79BE667EF9DCBBAC55A06295CE870B07029BFCDB2DCE28D959F2815B16F81798", 16)
	refGy, _ = new(big.Int).SetString("483ADA7726A3C4655DA4FBFC0E1108A8FD17B448A68554199C47D08FFB10D4B8", 16)
)

type refPoint struct{ x, y *big.Int } // nil x = infinity

func refAdd(a, b refPoint) refPoint {
	if a.x == nil {
		return b
	}
	if b.x == nil {
		return a
	}
	var lam *big.Int
	if a.x.Cmp(b.x) == 0 {
		if new(big.Int).Mod(new(big.Int).Add(a.y, b.y), refP).Sign() == 0 {
			return refPoint{}
		}
		// doubling: 3x^2 / 2y
		num := new(big.Int).Mul(a.x, a.x)
		num.Mul(num, big.NewInt(3))
		den := new(big.Int).Lsh(a.y, 1)
		den.ModInverse(den.Mod(den, refP), refP)
		lam = num.Mul(num, den)
	} else {
		num := new(big.Int).Sub(b.y, a.y)
		den := new(big.Int).Sub(b.x, a.x)
		den.ModInverse(den.Mod(den, refP), refP)
		lam = num.Mul(num, den)
	}
	lam.Mod(lam, refP)
	x := new(big.Int).Mul(lam, lam)
	x.Sub(x, a.x).Sub(x, b.x).Mod(x, refP)
	y := new(big.Int).Sub(a.x, x)
	y.Mul(y, lam).Sub(y, a.y).Mod(y, refP)
	return refPoint{x, y}
}

func refMulG(k *big.Int) refPoint {
	acc := refPoint{}
	add := refPoint{new(big.Int).Set(refGx), new(big.Int).Set(refGy)}
	for i := 0; i < k.BitLen(); i++ {
		if k.Bit(i) == 1 {
			acc = refAdd(acc, add)
		}
		add = refAdd(add, add)
	}
	return acc
}

func refCompressedPub(priv []byte) []byte {
	p := refMulG(new(big.Int).SetBytes(priv))
	out := make([]byte, 33)
	out[0] = 2 + byte(p.y.Bit(0))
	p.x.FillBytes(out[1:])
	return out
}

// ---------------------------------------------------------------- BIP-32

func refHmac512(key, data []byte) []byte {
	m := hmac.New(sha512.New, key)
	m.Write(data)
	return m.Sum(nil)
}

func refMaster(seed []byte) (k, c []byte) {
	I := refHmac512([]byte("Bitcoin seed"), seed)
	return I[:32], I[32:]
}

// refCKDpriv is BIP-32's CKDpriv((kpar, cpar), i); ok=false when the spec says the key is
// invalid (parse256(IL) >= n or ki = 0).
func refCKDpriv(k, c []byte, i uint32) (ck, cc []byte, ok bool) {
	var data []byte
	if i >= 0x80000000 {
		data = append([]byte{0}, k...)
	} else {
		data = refCompressedPub(k)
	}
	var ib [4]byte
	binary.BigEndian.PutUint32(ib[:], i)
	data = append(data, ib[:]...)
	I := refHmac512(c, data)
	il := new(big.Int).SetBytes(I[:32])
	if il.Cmp(refN) >= 0 {
		return nil, nil, false
	}
	ki := new(big.Int).Add(il, new(big.Int).SetBytes(k))
	ki.Mod(ki, refN)
	if ki.Sign() == 0 {
		return nil, nil, false
	}
	out := make([]byte, 32)
	ki.FillBytes(out)
	return out, I[32:], true
}

// refParsePath is the reference's notion of a path: components separated by '/', each a
// decimal number 0 … 2^31-1 without sign, optionally followed by one apostrophe.
// (No leading "m": the code under test takes the path below the master key.)
func refParsePath(path string) ([]uint32, bool) {
	if path == "" {
		return nil, false
	}
	var out []uint32
	for _, part := range strings.Split(path, "/") {
		hard := strings.HasSuffix(part, "'")
		if hard {
			part = part[:len(part)-1]
		}
		if part == "" || len(part) > 10 {
			return nil, false
		}
		for _, ch := range part {
			if ch < '0' || ch > '9' {
				return nil, false
			}
		}
		n, err := strconv.ParseUint(part, 10, 32)
		if err != nil || n >= 1<<31 {
			return nil, false
		}
		if hard {
			n |= 1 << 31
		}
		out = append(out, uint32(n))
	}
	return out, true
}

func refDerive(seed []byte, idx []uint32) ([]byte, bool) {
	k, c := refMaster(seed)
	if new(big.Int).SetBytes(k).Sign() == 0 || new(big.Int).SetBytes(k).Cmp(refN) >= 0 {
		return nil, false
	}
	for _, i := range idx {
		var ok bool
		k, c, ok = refCKDpriv(k, c, i)
		if !ok {
			return nil, false
		}
	}
	return k, true
}

// ---------------------------------------------------------------- PBKDF2-HMAC-SHA512 (RFC 8018 §5.2)

func refPBKDF2(password, salt []byte, iter, keyLen int) []byte {
	hLen := sha512.Size
	var out []byte
	for block := 1; len(out) < keyLen; block++ {
		var ib [4]byte
		binary.BigEndian.PutUint32(ib[:], uint32(block))
		u := refHmac512(password, append(append([]byte{}, salt...), ib[:]...))
		t := append([]byte{}, u...)
		for i := 1; i < iter; i++ {
			u = refHmac512(password, u)
			for j := 0; j < hLen; j++ {
				t[j] ^= u[j]
			}
		}
		out = append(out, t...)
	}
	return out[:keyLen]
}

func refSeed(mnemonic, passphrase string) []byte {
	return refPBKDF2([]byte(mnemonic), []byte("mnemonic"+passphrase), 2048, 64)
}

// ---------------------------------------------------------------- BIP-39 checksum

// refMnemonicCheck: words must be exactly the canonical form (single spaces).  Returns
// (entropy, checksumOK, wellFormed).  wellFormed=false: wrong count or unknown word.
func refMnemonicCheck(words []string, index map[string]int) (entropy []byte, csOK bool, wellFormed bool) {
	n := len(words)
	if n != 12 && n != 15 && n != 18 && n != 21 && n != 24 {
		return nil, false, false
	}
	v := new(big.Int)
	for _, w := range words {
		i, ok := index[w]
		if !ok {
			return nil, false, false
		}
		v.Lsh(v, 11)
		v.Or(v, big.NewInt(int64(i)))
	}
	cs := uint(n * 11 % 32) // = ENT/32
	entBytes := (n*11 - int(cs)) / 8
	csBits := new(big.Int).And(v, new(big.Int).Sub(new(big.Int).Lsh(big.NewInt(1), cs), big.NewInt(1))).Uint64()
	e := new(big.Int).Rsh(v, cs)
	entropy = make([]byte, entBytes)
	e.FillBytes(entropy)
	h := sha256.Sum256(entropy)
	return entropy, uint64(h[0]>>(8-cs)) == csBits, true
}

// ---------------------------------------------------------------- base58check (vectors only)

const refB58 = "123456789ABCDEFGHJKLMNPQRSTUVWXYZabcdefghijkmnopqrstuvwxyz"

func refB58CheckDecode(s string) ([]byte, error) {
	v := new(big.Int)
	for _, ch := range s {
		i := strings.IndexRune(refB58, ch)
		if i < 0 {
			return nil, fmt.Errorf("bad base58 char %q", ch)
		}
		v.Mul(v, big.NewInt(58))
		v.Add(v, big.NewInt(int64(i)))
	}
	b := v.Bytes()
	for _, ch := range s {
		if ch != '1' {
			break
		}
		b = append([]byte{0}, b...)
	}
	if len(b) < 5 {
		return nil, fmt.Errorf("short")
	}
	body, sum := b[:len(b)-4], b[len(b)-4:]
	h1 := sha256.Sum256(body)
	h2 := sha256.Sum256(h1[:])
	if !bytes.Equal(h2[:4], sum) {
		return nil, fmt.Errorf("base58check checksum mismatch in embedded vector %s", s)
	}
	return body, nil
}

// xprv payload: 4 version | 1 depth | 4 fingerprint | 4 child | 32 chain | 0x00 | 32 key
func refXprvKey(s string) []byte {
	b, err := refB58CheckDecode(s)
	if err != nil {
		panic(err)
	}
	if len(b) != 78 || b[45] != 0 {
		panic("embedded xprv has the wrong shape: " + s)
	}
	return b[46:78]
}

type hdVector struct {
	seedHex string
	path    string // below the master key; "" = master itself
	xprv    string
}

// BIP-32 test vectors 1 and 2 (bitcoin/bips bip-0032.mediawiki)
var bip32Vectors = []hdVector{
	{"000102030405060708090a0b0c0d0e0f", "", "xprv9s21ZrQH143K3QTDL4LXw2F7HEK3wJUD2nW2nRk4stbPy6cq3jPPqjiChkVvvNKmPGJxWUtg6LnF5kejMRNNU3TGtRBeJgk33yuGBxrMPHi"},
	{"000102030405060708090a0b0c0d0e0f", "0'", "xprv9uHRZZhk6KAJC1avXpDAp4MDc3sQKNxDiPvvkX8Br5ngLNv1TxvUxt4cV1rGL5hj6KCesnDYUhd7oWgT11eZG7XnxHrnYeSvkzY7d2bhkJ7"},
	{"000102030405060708090a0b0c0d0e0f", "0'/1", "xprv9wTYmMFdV23N2TdNG573QoEsfRrWKQgWeibmLntzniatZvR9BmLnvSxqu53Kw1UmYPxLgboyZQaXwTCg8MSY3H2EU4pWcQDnRnrVA1xe8fs"},
	{"000102030405060708090a0b0c0d0e0f", "0'/1/2'", "xprv9z4pot5VBttmtdRTWfWQmoH1taj2axGVzFqSb8C9xaxKymcFzXBDptWmT7FwuEzG3ryjH4ktypQSAewRiNMjANTtpgP4mLTj34bhnZX7UiM"},
	{"000102030405060708090a0b0c0d0e0f", "0'/1/2'/2", "xprvA2JDeKCSNNZky6uBCviVfJSKyQ1mDYahRjijr5idH2WwLsEd4Hsb2Tyh8RfQMuPh7f7RtyzTtdrbdqqsunu5Mm3wDvUAKRHSC34sJ7in334"},
	{"000102030405060708090a0b0c0d0e0f", "0'/1/2'/2/1000000000", "xprvA41z7zogVVwxVSgdKUHDy1SKmdb533PjDz7J6N6mV6uS3ze1ai8FHa8kmHScGpWmj4WggLyQjgPie1rFSruoUihUZREPSL39UNdE3BBDu76"},
	{"fffcf9f6f3f0edeae7e4e1dedbd8d5d2cfccc9c6c3c0bdbab7b4b1aeaba8a5a29f9c999693908d8a8784817e7b7875726f6c696663605d5a5754514e4b484542", "", "xprv9s21ZrQH143K31xYSDQpPDxsXRTUcvj2iNHm5NUtrGiGG5e2DtALGdso3pGz6ssrdK4PFmM8NSpSBHNqPqm55Qn3LqFtT2emdEXVYsCzC2U"},
	{"fffcf9f6f3f0edeae7e4e1dedbd8d5d2cfccc9c6c3c0bdbab7b4b1aeaba8a5a29f9c999693908d8a8784817e7b7875726f6c696663605d5a5754514e4b484542", "0", "xprv9vHkqa6EV4sPZHYqZznhT2NPtPCjKuDKGY38FBWLvgaDx45zo9WQRUT3dKYnjwih2yJD9mkrocEZXo1ex8G81dwSM1fwqWpWkeS3v86pgKt"},
	{"fffcf9f6f3f0edeae7e4e1dedbd8d5d2cfccc9c6c3c0bdbab7b4b1aeaba8a5a29f9c999693908d8a8784817e7b7875726f6c696663605d5a5754514e4b484542", "0/2147483647'", "xprv9wSp6B7kry3Vj9m1zSnLvN3xH8RdsPP1Mh7fAaR7aRLcQMKTR2vidYEeEg2mUCTAwCd6vnxVrcjfy2kRgVsFawNzmjuHc2YmYRmagcEPdU9"},
	{"fffcf9f6f3f0edeae7e4e1dedbd8d5d2cfccc9c6c3c0bdbab7b4b1aeaba8a5a29f9c999693908d8a8784817e7b7875726f6c696663605d5a5754514e4b484542", "0/2147483647'/1", "xprv9zFnWC6h2cLgpmSA46vutJzBcfJ8yaJGg8cX1e5StJh45BBciYTRXSd25UEPVuesF9yog62tGAQtHjXajPPdbRCHuWS6T8XA2ECKADdw4Ef"},
	{"fffcf9f6f3f0edeae7e4e1dedbd8d5d2cfccc9c6c3c0bdbab7b4b1aeaba8a5a29f9c999693908d8a8784817e7b7875726f6c696663605d5a5754514e4b484542", "0/2147483647'/1/2147483646'", "xprvA1RpRA33e1JQ7ifknakTFpgNXPmW2YvmhqLQYMmrj4xJXXWYpDPS3xz7iAxn8L39njGVyuoseXzU6rcxFLJ8HFsTjSyQbLYnMpCqE2VbFWc"},
	{"fffcf9f6f3f0edeae7e4e1dedbd8d5d2cfccc9c6c3c0bdbab7b4b1aeaba8a5a29f9c999693908d8a8784817e7b7875726f6c696663605d5a5754514e4b484542", "0/2147483647'/1/2147483646'/2", "xprvA2nrNbFZABcdryreWet9Ea4LvTJcGsqrMzxHx98MMrotbir7yrKCEXw7nadnHM8Dq38EGfSh6dqA9QWTyefMLEcBYJUuekgW4BYPJcr9E7j"},
}

// hdKnown maps "seedhex|path" to the expected 32-byte private key (hex); filled in init from
// bip32Vectors (master entries are keyed with path "").
var hdKnown = map[string]string{}

type fundVector struct{ mnemonic, seed, priv string }

// Cosmos fundraiser vectors (path 44'/118'/0'/0/0), tm2/pkg/crypto/hd/test.json
var fundVectors = []fundVector{
	{"measure slogan connect luggage stereo federal stuff stomach stumble security end differ", "c237f7aa198c5bd560ac8daf5b8421d03855171465b2999b07159671e9186461e7d75dba6c7264b963108431f8674ac8d095b7a22878fa0ab8b582e5d6ea1986", "91bba8805845210665d7a9c5aff63ef69f7604fbeddb485706d31f04458f572c"},
	{"car taste absurd genius miracle toy earth true glare mobile pig forest", "fda7006f5e9b8d1c02404df6d4e4497ff5c2edf29c801180a046dc54fca2e019554da6e3dd2c26073a7871c5ac529ad465ccf77ec3608727cc47ef88f998ae2b", "1122ac929a0a3b2947ef99c33c20b657cf7342ea09be92869c363cfc52118200"},
	{"trophy crop coffee oppose pelican help sense note bar faint hen aunt", "1cdcfda64cb0e4f5806a48ff374e9f5f7d2939815e7adcce3abd898a7a9204eec4a5822997ca556ad797b4610c4ae6accddc29d80fd651a33d5ed911892479f1", ""},
}

type bip39Vector struct{ entropy, mnemonic, seed string }

// official BIP-39 test vectors (trezor/python-mnemonic vectors.json, passphrase "TREZOR")
var bip39Vectors = []bip39Vector{
	{"00000000000000000000000000000000", "abandon abandon abandon abandon abandon abandon abandon abandon abandon abandon abandon about", "c55257c360c07c72029aebc1b53c05ed0362ada38ead3e3e9efa3708e53495531f09a6987599d18264c1e1c92f2cf141630c7a3c4ab7c81b2f001698e7463b04"},
	{"7f7f7f7f7f7f7f7f7f7f7f7f7f7f7f7f", "legal winner thank year wave sausage worth useful legal winner thank yellow", "2e8905819b8723fe2c1d161860e5ee1830318dbf49a83bd451cfb8440c28bd6fa457fe1296106559a3c80937a1c1069be3a3a5bd381ee6260e8d9739fce1f607"},
	{"80808080808080808080808080808080", "letter advice cage absurd amount doctor acoustic avoid letter advice cage above", "d71de856f81a8acc65e6fc851a38d4d7ec216fd0796d0a6827a3ad6ed5511a30fa280f12eb2e47ed2ac03b5c462a0358d18d69fe4f985ec81778c1b370b652a8"},
	{"ffffffffffffffffffffffffffffffff", "zoo zoo zoo zoo zoo zoo zoo zoo zoo zoo zoo wrong", "ac27495480225222079d7be181583751e86f571027b0497b5b5d11218e0a8a13332572917f0f8e5a589620c6f15b11c61dee327651a14c34e18231052e48c069"},
	{"000000000000000000000000000000000000000000000000", "abandon abandon abandon abandon abandon abandon abandon abandon abandon abandon abandon abandon abandon abandon abandon abandon abandon agent", "035895f2f481b1b0f01fcf8c289c794660b289981a78f8106447707fdd9666ca06da5a9a565181599b79f53b844d8a71dd9f439c52a3d7b3e8a79c906ac845fa"},
	{"ffffffffffffffffffffffffffffffffffffffffffffffff", "zoo zoo zoo zoo zoo zoo zoo zoo zoo zoo zoo zoo zoo zoo zoo zoo zoo when", "0cd6e5d827bb62eb8fc1e262254223817fd068a74b5b449cc2f667c3f1f985a76379b43348d952e2265b4cd129090758b3e3c2c49103b5051aac2eaeb890a528"},
	{"0000000000000000000000000000000000000000000000000000000000000000", "abandon abandon abandon abandon abandon abandon abandon abandon abandon abandon abandon abandon abandon abandon abandon abandon abandon abandon abandon abandon abandon abandon abandon art", "bda85446c68413707090a52022edd26a1c9462295029f2e60cd7c4f2bbd3097170af7a4d73245cafa9c3cca8d561a7c3de6f5d4a10be8ed2a5e608d68f92fcc8"},
	{"ffffffffffffffffffffffffffffffffffffffffffffffffffffffffffffffff", "zoo zoo zoo zoo zoo zoo zoo zoo zoo zoo zoo zoo zoo zoo zoo zoo zoo zoo zoo zoo zoo zoo zoo vote", "dd48c104698c30cfe2b6142103248622fb7bb0ff692eebb00089b32d22484e1613912f0a5b694407be899ffd31ed3992c456cdf60f5d4564b8ba3f05a69890ad"},
	{"77c2b00716cec7213839159e404db50d", "jelly better achieve collect unaware mountain thought cargo oxygen act hood bridge", "b5b6d0127db1a9d2226af0c3346031d77af31e918dba64287a1b44b8ebf63cdd52676f672a290aae502472cf2d602c051f3e6f18055e84e4c43897fc4e51a6ff"},
	{"b63a9c59a6e641f288ebc103017f1da9f8290b3da6bdef7b", "renew stay biology evidence goat welcome casual join adapt armor shuffle fault little machine walk stumble urge swap", "9248d83e06f4cd98debf5b6f010542760df925ce46cf38a1bdb4e4de7d21f5c39366941c69e1bdbf2966e0f6e6dbece898a0e2f0a4c2b3e640953dfe8b7bbdc5"},
	{"3e141609b97933b66a060dcddc71fad1d91677db872031e85f4c015c5e7e8982", "dignity pass list indicate nasty swamp pool script soccer toe leaf photo multiply desk host tomato cradle drill spread actor shine dismiss champion exotic", "ff7f3184df8696d8bef94b6c03114dbee0ef89ff938712301d27ed8336ca89ef9635da20af07d4175f2bf5f3de130f39c9d9e8dd0472489c19b1a020a940da67"},
	{"0460ef47585604c5660618db2e6a7e7f", "afford alter spike radar gate glance object seek swamp infant panel yellow", "65f93a9f36b6c85cbe634ffc1f99f2b82cbb10b31edc7f087b4f6cb9e976e9faf76ff41f8f27c99afdf38f7a303ba1136ee48a4c1e7fcd3dba7aa876113a36e4"},
	{"2c85efc7f24ee4573d2b81a6ec66cee209b2dcbd09d8eddc51e0215b0b68e416", "clutch control vehicle tonight unusual clog visa ice plunge glimpse recipe series open hour vintage deposit universe tip job dress radar refuse motion taste", "fe908f96f46668b2d5b37d82f558c77ed0d69dd0e7e043a5b0511c48c2f1064694a956f86360c93dd04052a8899497ce9e985ebe0c8c52b955e6ae86d4ff4449"},
	{"18ab19a9f54a9274f03e5209a2ac8a91", "board flee heavy tunnel powder denial science ski answer betray cargo cat", "6eff1bb21562918509c73cb990260db07c0ce34ff0e3cc4a8cb3276129fbcb300bddfe005831350efd633909f476c45c88253276d9fd0df6ef48609e8bb7dca8"},
	{"15da872c95a13dd738fbf50e427583ad61f18fd99f628c417a61cf8343c90419", "beyond stage sleep clip because twist token leaf atom beauty genius food business side grid unable middle armed observe pair crouch tonight away coconut", "b15509eaa2d09d3efd3e006ef42151b30367dc6e3aa5e44caba3fe4d3e352e65101fbdb86a96776b91946ff06f8eac594dc6ee1d3e82a42dfe1b40fef6bcc3fd"},
}

var bip39ByEntropy = map[string]bip39Vector{}
var bip39ByMnemonic = map[string]bip39Vector{}

func init() {
	for _, v := range bip32Vectors {
		hdKnown[v.seedHex+"|"+v.path] = hex.EncodeToString(refXprvKey(v.xprv))
	}
	for _, v := range fundVectors {
		if v.priv != "" {
			hdKnown[v.seed+"|44'/118'/0'/0/0"] = v.priv
		}
	}
	for _, v := range bip39Vectors {
		bip39ByEntropy[v.entropy] = v
		bip39ByMnemonic[v.mnemonic] = v
	}
}
