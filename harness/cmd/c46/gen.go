package main

// Generators for C46.  Everything derives from the one *kit.Rand; the armor texts are
// formatted by the generator itself (the real EncodeArmor writes its headers in map
// iteration order and EncryptArmorPrivKey draws salt/nonce from crypto/rand — neither
// is reproducible from a seed).

import (
	"bytes"
	"encoding/base64"
	"encoding/hex"
	"fmt"
	"strings"

	"golang.org/x/crypto/nacl/secretbox"

	"github.com/gnolang/gno/tm2/pkg/crypto"
	"github.com/gnolang/gno/tm2/pkg/crypto/bcrypt"
	"github.com/gnolang/gno/tm2/pkg/crypto/bip39"
	"github.com/gnolang/gno/tm2/pkg/crypto/ed25519"
	"github.com/gnolang/gno/tm2/pkg/crypto/secp256k1"
	"gnoverif/kit"
)

const privType = "TENDERMINT PRIVATE KEY"

func hx(s string) string { return kit.Hex([]byte(s)) }

// ---------------------------------------------------------------- armor formatting (generator side)

func genCRC24(d []byte) uint32 {
	crc := uint32(0xb704ce)
	for _, b := range d {
		crc ^= uint32(b) << 16
		for i := 0; i < 8; i++ {
			crc <<= 1
			if crc&0x1000000 != 0 {
				crc ^= 0x1864cfb
			}
		}
	}
	return crc & 0xffffff
}

type armorParts struct {
	begin  string      // full BEGIN line
	hdrs   [][2]string // in order
	body   []string    // base64 lines
	crc    string      // "=XXXX" or "" (omitted)
	end    string      // full END line
	eol    string
	prefix string // text before the BEGIN line
	suffix string // text after the END line
}

func (a *armorParts) String() string {
	var sb strings.Builder
	sb.WriteString(a.prefix)
	sb.WriteString(a.begin + a.eol)
	for _, kv := range a.hdrs {
		sb.WriteString(kv[0] + ": " + kv[1] + a.eol)
	}
	sb.WriteString(a.eol)
	for _, l := range a.body {
		sb.WriteString(l + a.eol)
	}
	if a.crc != "" {
		sb.WriteString(a.crc + a.eol)
	}
	sb.WriteString(a.end)
	sb.WriteString(a.suffix)
	return sb.String()
}

func wrap(s string, n int) []string {
	var out []string
	for len(s) > n {
		out = append(out, s[:n])
		s = s[n:]
	}
	if len(s) > 0 {
		out = append(out, s)
	}
	return out
}

func crcLine(data []byte) string {
	c := genCRC24(data)
	return "=" + base64.StdEncoding.EncodeToString([]byte{byte(c >> 16), byte(c >> 8), byte(c)})
}

func mkArmor(ty string, hdrs [][2]string, data []byte) *armorParts {
	return &armorParts{
		begin: "-----BEGIN " + ty + "-----",
		hdrs:  hdrs,
		body:  wrap(base64.StdEncoding.EncodeToString(data), 64),
		crc:   crcLine(data),
		end:   "-----END " + ty + "-----",
		eol:   "\n",
	}
}

// ---------------------------------------------------------------- keys, sealing

func genKey(r *kit.Rand) crypto.PrivKey {
	secret := r.Bytes(16)
	if r.Chance(60) {
		return secp256k1.GenPrivKeySecp256k1(secret)
	}
	return ed25519.GenPrivKeyFromSecret(secret)
}

type sealed struct {
	key              crypto.PrivKey
	plain, pass      []byte
	salt, nonce, enc []byte
}

// seal reproduces encryptPrivKey with chosen salt/nonce (cost 12 as in armor.go).
func seal(r *kit.Rand, key crypto.PrivKey, pass []byte) *sealed {
	s := &sealed{key: key, plain: key.Bytes(), pass: pass, salt: r.Bytes(16), nonce: r.Bytes(24)}
	s.enc = sealWith(s.plain, pass, s.salt, s.nonce)
	return s
}

func sealWith(plain, pass, salt, nonce []byte) []byte {
	h, err := bcrypt.GenerateFromPassword(salt, pass, 12)
	if err != nil {
		panic(err)
	}
	k := crypto.Sha256(h)
	var ka [32]byte
	var na [24]byte
	copy(ka[:], k)
	copy(na[:], nonce)
	return secretbox.Seal(append([]byte{}, nonce...), plain, &na, &ka)
}

func (s *sealed) cTok() string {
	return kit.Hex(s.salt) + ":" + kit.Hex(s.pass) + ":" + kit.Hex(s.enc) + ":" + kit.Hex(s.plain)
}

func (s *sealed) armor(saltFirst bool) *armorParts {
	hs := [][2]string{{"kdf", "bcrypt"}, {"salt", fmt.Sprintf("%X", s.salt)}}
	if saltFirst {
		hs[0], hs[1] = hs[1], hs[0]
	}
	return mkArmor(privType, hs, s.enc)
}

// kTok lists which of the candidate byte strings amino-decode to a private key.
func kTok(cands ...[]byte) string {
	var parts []string
	seen := map[string]bool{}
	for _, c := range cands {
		if c == nil || seen[string(c)] {
			continue
		}
		if len(c) == 0 {
			c = []byte{}
		}
		seen[string(c)] = true
		func() {
			defer func() { recover() }()
			k, err := crypto.PrivKeyFromBytes(c)
			if err == nil && k != nil {
				parts = append(parts, kit.Hex(c)+">"+kit.Hex(k.Bytes()))
			} else if err == nil {
				// amino decodes the EMPTY byte string to a nil PrivKey without an error:
				// recorded as the key with empty canonical bytes
				parts = append(parts, kit.Hex(c)+">e")
			}
		}()
	}
	if len(parts) == 0 {
		return "-"
	}
	return strings.Join(parts, ",")
}

func decodedBody(text string) []byte {
	b, err := xDecode([]byte(text))
	if err != nil {
		return nil
	}
	return b.data
}

func asciiOK(s string) bool { return isASCII([]byte(s)) && len(s) <= maxArmorLen }

func emitUndec(w *kit.Out, text string, pass []byte, s *sealed) {
	c := "-"
	var plain []byte
	if pass == nil {
		pass = []byte{}
	}
	if s != nil {
		c = s.cTok()
		plain = s.plain
	}
	w.Op("undec %s %s %s %s", hx(text), kit.Hex(pass), c, kTok(decodedBody(text), plain))
}

// ---------------------------------------------------------------- passphrases

func genPass(r *kit.Rand) []byte {
	switch r.Intn(10) {
	case 0:
		return []byte("a")
	case 1:
		return r.Bytes(r.Range(1, 8))
	case 2:
		return []byte(strings.Repeat("p", r.Range(70, 74)))
	case 3:
		return append(bytes.Repeat([]byte("xy"), 36), r.Bytes(r.Range(0, 6))...)
	default:
		n := r.Range(1, 24)
		b := make([]byte, n)
		for i := range b {
			b[i] = byte(r.Range(0x21, 0x7e))
		}
		return b
	}
}

// otherPass returns a passphrase different from p: mostly unrelated, sometimes one of the
// shapes that share bcrypt's 72-byte cyclic key stream with p.
func otherPass(r *kit.Rand, p []byte) []byte {
	switch r.Intn(8) {
	case 0: // same first 72 bytes (only different if len(p) >= 72)
		if len(p) >= 72 {
			return append(append([]byte{}, p[:72]...), r.Bytes(r.Range(1, 5))...)
		}
	case 1: // p ‖ 0 ‖ p : same cyclic stream
		q := append(append(append([]byte{}, p...), 0), p...)
		return q
	case 2: // one byte changed
		if len(p) > 0 {
			q := append([]byte{}, p...)
			q[r.Intn(len(q))] ^= byte(1 << r.Intn(7))
			return q
		}
	case 3:
		return []byte{}
	case 4: // prefix / extension
		if len(p) > 1 && r.Bool() {
			return append([]byte{}, p[:len(p)-1]...)
		}
		return append(append([]byte{}, p...), byte(r.Range(0x21, 0x7e)))
	}
	q := genPass(r)
	if bytes.Equal(q, p) {
		q = append(q, 'x')
	}
	return q
}

// ---------------------------------------------------------------- mnemonics

func genEntropy(r *kit.Rand) []byte {
	n := kit.Pick(r, []int{16, 20, 24, 28, 32})
	switch r.Intn(6) {
	case 0:
		return make([]byte, n)
	case 1:
		return bytes.Repeat([]byte{0xff}, n)
	case 2: // leading zero bytes
		b := r.Bytes(n)
		for i := 0; i < r.Range(1, 4); i++ {
			b[i] = 0
		}
		return b
	}
	return r.Bytes(n)
}

func mustMnemonic(ent []byte) []string {
	m, err := bip39.NewMnemonic(ent)
	if err != nil {
		panic(err)
	}
	return strings.Split(m, " ")
}

func mutateWords(r *kit.Rand, ws []string) (string, string) {
	ws = append([]string{}, ws...)
	n := len(ws)
	switch r.Intn(14) {
	case 0: // swap two words
		i, j := r.Intn(n), r.Intn(n)
		ws[i], ws[j] = ws[j], ws[i]
		return strings.Join(ws, " "), "swap"
	case 1: // replace by another valid word (checksum survives with probability 2^-cs)
		ws[r.Intn(n)] = bip39.WordList[r.Intn(2048)]
		return strings.Join(ws, " "), "replace"
	case 2: // replace LAST word only (entropy bits + checksum)
		ws[n-1] = bip39.WordList[r.Intn(2048)]
		return strings.Join(ws, " "), "replace-last"
	case 3: // unknown word
		ws[r.Intn(n)] = kit.Pick(r, []string{"zzz", "Abandon", "abandon.", "", "a", "zoo0", "abandonabandon"})
		return strings.Join(ws, " "), "unknown"
	case 4: // drop words
		k := r.Range(1, 4)
		return strings.Join(ws[:n-k], " "), "drop"
	case 5: // add words
		for i := 0; i < r.Range(1, 4); i++ {
			ws = append(ws, bip39.WordList[r.Intn(2048)])
		}
		return strings.Join(ws, " "), "add"
	case 6: // double space
		i := r.Range(1, n-1)
		return strings.Join(ws[:i], " ") + "  " + strings.Join(ws[i:], " "), "dblspace"
	case 7: // other whitespace as separator
		sep := kit.Pick(r, []string{"\t", "\n", "\r\n", "\v", "\f"})
		i := r.Range(1, n-1)
		return strings.Join(ws[:i], " ") + sep + strings.Join(ws[i:], " "), "ws"
	case 8: // leading / trailing whitespace
		return kit.Pick(r, []string{" ", "\n", "\t"}) + strings.Join(ws, " "), "lead"
	case 9:
		return strings.Join(ws, " ") + kit.Pick(r, []string{" ", "\n", "\t", "  "}), "trail"
	case 10: // all separators replaced
		return strings.Join(ws, kit.Pick(r, []string{"\t", "\n", "  ", ","})), "allsep"
	case 11: // upper-case one word
		i := r.Intn(n)
		ws[i] = strings.ToUpper(ws[i])
		return strings.Join(ws, " "), "upper"
	case 12: // neighbour word (index ±1): flips low bits
		i := r.Intn(n)
		idx := wordIndex[ws[i]]
		ws[i] = bip39.WordList[(idx+1)%2048]
		return strings.Join(ws, " "), "neighbour"
	}
	// a fresh valid-checksum sentence of another length glued on: count wrong
	return strings.Join(ws, " ") + " " + strings.Join(ws[:3], " "), "glue"
}

// ---------------------------------------------------------------- armor text mutations

func hexMut(r *kit.Rand, s string) string {
	b := []byte(s)
	i := r.Intn(len(b))
	const hexd = "0123456789ABCDEF"
	for {
		c := hexd[r.Intn(16)]
		if c != b[i] {
			b[i] = c
			return string(b)
		}
	}
}

const b64alpha = "ABCDEFGHIJKLMNOPQRSTUVWXYZabcdefghijklmnopqrstuvwxyz0123456789+/"

// mutateArmor returns a mutated text and a tag; `reach` estimates whether the real code
// will still get as far as bcrypt (cost control only).
const nMutKinds = 33

func mutateArmor(r *kit.Rand, a0 *armorParts, s *sealed) (text string, tag string) {
	return mutateArmorKind(r, a0, s, r.Intn(nMutKinds+1))
}

func mutateArmorKind(r *kit.Rand, a0 *armorParts, s *sealed, kind int) (text string, tag string) {
	a := *a0
	a.hdrs = append([][2]string{}, a0.hdrs...)
	a.body = append([]string{}, a0.body...)
	saltIdx := -1
	kdfIdx := -1
	for i, kv := range a.hdrs {
		if kv[0] == "salt" {
			saltIdx = i
		}
		if kv[0] == "kdf" {
			kdfIdx = i
		}
	}
	pickBody := func() (int, int) {
		li := r.Intn(len(a.body))
		return li, r.Intn(len(a.body[li]))
	}
	switch kind {
	case 0:
		if len(a.body) > 0 {
			li, ci := pickBody()
			b := []byte(a.body[li])
			for {
				c := b64alpha[r.Intn(64)]
				if c != b[ci] {
					b[ci] = c
					break
				}
			}
			a.body[li] = string(b)
			return a.String(), "body-char"
		}
	case 1:
		if len(a.body) > 0 {
			li, ci := pickBody()
			b := []byte(a.body[li])
			b[ci] = kit.Pick(r, []byte{' ', '*', '=', '-', '\t', '_', '.'})
			a.body[li] = string(b)
			return a.String(), "body-badchar"
		}
	case 2:
		if saltIdx >= 0 {
			a.hdrs[saltIdx][1] = hexMut(r, a.hdrs[saltIdx][1])
			return a.String(), "salt-digit"
		}
	case 3:
		if saltIdx >= 0 {
			a.hdrs[saltIdx][1] = strings.ToLower(a.hdrs[saltIdx][1])
			return a.String(), "salt-lower"
		}
	case 4:
		a.crc = ""
		return a.String(), "no-crc"
	case 5:
		if a.crc != "" {
			b := []byte(a.crc)
			i := r.Range(1, 4)
			for {
				c := b64alpha[r.Intn(64)]
				if c != b[i] {
					b[i] = c
					break
				}
			}
			a.crc = string(b)
			return a.String(), "bad-crc"
		}
	case 6:
		if len(a.hdrs) >= 2 {
			a.hdrs[0], a.hdrs[1] = a.hdrs[1], a.hdrs[0]
			return a.String(), "swap-hdr"
		}
	case 7:
		a.hdrs = append(a.hdrs, [2]string{kit.Pick(r, []string{"foo", "Version", "comment", "KDF", "k d f"}), kit.Pick(r, []string{"bar", "1", "x: y", "bcrypt"})})
		return a.String(), "extra-hdr"
	case 8:
		if kdfIdx >= 0 {
			a.hdrs[kdfIdx][1] = kit.Pick(r, []string{"scrypt", "Bcrypt", "bcrypt ", "bcryp", "argon2"})
			return a.String(), "kdf-value"
		}
	case 9:
		if saltIdx >= 0 {
			a.hdrs = append(a.hdrs[:saltIdx], a.hdrs[saltIdx+1:]...)
			return a.String(), "no-salt"
		}
	case 10:
		a.hdrs = nil
		return a.String(), "no-hdrs"
	case 11:
		ty := kit.Pick(r, []string{"TENDERMINT PUBLIC KEY", "TENDERMINT KEY INFO", "PGP MESSAGE", "TENDERMINT PRIVATE KEY ", "tendermint private key", "X"})
		a.begin = "-----BEGIN " + ty + "-----"
		if r.Bool() {
			a.end = "-----END " + ty + "-----"
		}
		return a.String(), "type"
	case 12:
		a.end = kit.Pick(r, []string{"-----END X-----", "-----END ", "-----END", "----END TENDERMINT PRIVATE KEY-----", "", "-----END TENDERMINT PRIVATE KEY-----\n"})
		return a.String(), "end-line"
	case 13:
		t := a.String()
		return t[:r.Intn(len(t))], "truncate"
	case 14:
		a.eol = "\r\n"
		return a.String(), "crlf"
	case 15:
		a.prefix = kit.Pick(r, []string{"garbage\n", "\n\n", "-----BEGIN\n", "Hello: world\n", "   ", strings.Repeat("x", 120) + "\n", "-----BEGIN JUNK-----\nno colon here\n"})
		return a.String(), "lead-garbage"
	case 16:
		a.suffix = kit.Pick(r, []string{"\n", "\ntrailing", "\n-----BEGIN X-----\n\nAAAA\n-----END X-----", " "})
		return a.String(), "trail-garbage"
	case 17:
		if saltIdx >= 0 {
			v := a.hdrs[saltIdx][1]
			a.hdrs[saltIdx][1] = kit.Pick(r, []string{v[:len(v)-1], v[:len(v)-2], v + "0", v + "00", "zz" + v[2:], v[:10] + "g" + v[11:], "00", "0"})
			return a.String(), "salt-shape"
		}
	case 18:
		n := kit.Pick(r, []int{4, 16, 32, 60, 76, 96, 97, 100, 128})
		a.body = wrap(strings.Join(a.body, ""), n)
		return a.String(), fmt.Sprintf("rewrap%d", n)
	case 19:
		if len(a.body) > 0 {
			i := r.Intn(len(a.body) + 1)
			a.body = append(a.body[:i], append([]string{kit.Pick(r, []string{"", "\r", " ", "=", "=AA==", "=AAAA"})}, a.body[i:]...)...)
			return a.String(), "body-insert-line"
		}
	case 20:
		t := []byte(a.String())
		i := r.Intn(len(t))
		t[i] = byte(r.Range(0x20, 0x7e))
		return string(t), "any-char"
	case 21:
		t := a.String()
		i := r.Intn(len(t))
		return t[:i] + t[i+1:], "del-char"
	case 22:
		if len(a.body) > 0 {
			i := r.Intn(len(a.body))
			a.body = append(a.body[:i+1], a.body[i:]...)
			return a.String(), "dup-line"
		}
	case 23:
		ind := kit.Pick(r, []string{" ", "\t", "  "})
		a.begin = ind + a.begin
		for i := range a.hdrs {
			a.hdrs[i][0] = ind + a.hdrs[i][0]
		}
		if r.Chance(30) {
			for i := range a.body {
				a.body[i] = ind + a.body[i]
			}
		}
		return a.String(), "indent"
	case 24:
		if len(a.hdrs) > 0 {
			i := r.Intn(len(a.hdrs))
			if r.Bool() {
				a.hdrs[i][1] = ""
			} else {
				a.hdrs[i][0] = a.hdrs[i][0] + ":" // "salt:: …"
			}
			return a.String(), "hdr-shape"
		}
	case 25:
		a.hdrs = append(a.hdrs, [2]string{"long", strings.Repeat("v", r.Range(90, 130))})
		return a.String(), "long-hdr"
	case 26: // proper re-encoding of a too-short ciphertext
		if s != nil {
			n := r.Intn(41)
			b := mkArmor(privType, a0.hdrs, s.enc[:n])
			return b.String(), "short-enc"
		}
	case 27: // proper re-encoding of a bit-flipped ciphertext (nonce, box or tag)
		if s != nil {
			e := append([]byte{}, s.enc...)
			e[r.Intn(len(e))] ^= byte(1 << r.Intn(8))
			return mkArmor(privType, a0.hdrs, e).String(), "enc-bitflip"
		}
	case 28: // ciphertext extended / truncated by a few bytes, CRC right
		if s != nil {
			e := append([]byte{}, s.enc...)
			if r.Bool() {
				e = append(e, r.Bytes(r.Range(1, 3))...)
			} else {
				e = e[:len(e)-r.Range(1, 3)]
			}
			return mkArmor(privType, a0.hdrs, e).String(), "enc-resize"
		}
	case 29: // padding inside the body: "xx==" quantum split off on its own line
		if len(a.body) > 0 {
			all := strings.Join(a.body, "")
			if len(all) >= 8 {
				cut := r.Intn(len(all)/4) * 4
				a.body = []string{all[:cut], kit.Pick(r, []string{"QQ==", "QUI=", "QQ=", "=="}), all[cut:]}
				return a.String(), "mid-padding"
			}
		}
	case 30: // non-canonical trailing bits of the last quantum / CRC given in lower case etc.
		if len(a.body) > 0 {
			last := a.body[len(a.body)-1]
			if strings.HasSuffix(last, "=") {
				b := []byte(last)
				i := strings.IndexByte(last, '=') - 1
				v := strings.IndexByte(b64alpha, b[i])
				b[i] = b64alpha[v|1]
				a.body[len(a.body)-1] = string(b)
				return a.String(), "noncanon-bits"
			}
		}
	case 31:
		if len(a.hdrs) > 0 { // duplicate header key, second value wins
			i := r.Intn(len(a.hdrs))
			a.hdrs = append(a.hdrs, [2]string{a.hdrs[i][0], kit.Pick(r, []string{a.hdrs[i][1], "other", "bcrypt"})})
			return a.String(), "dup-hdr"
		}
	case 32: // "\r" sprinkled inside a body line
		if len(a.body) > 0 {
			li, ci := pickBody()
			a.body[li] = a.body[li][:ci] + "\r" + a.body[li][ci:]
			return a.String(), "body-cr"
		}
	}
	return a.String(), "none"
}

// ---------------------------------------------------------------- gen

func gen(w *kit.Out, r *kit.Rand, tier string) {
	thorough := tier == "thorough"
	scale := func(q, t int) int {
		if thorough {
			return t
		}
		return q
	}

	// ------------------------------------------------ 1. boundary tables
	w.Case("b/bip39-vectors")
	for _, v := range bip39Vectors {
		w.Op("ent2mn %s", v.entropy)
		w.Op("mn2ba %s", hx(v.mnemonic))
		w.Op("valid %s", hx(v.mnemonic))
	}
	for i, v := range bip39Vectors {
		if i%4 == 0 || thorough {
			w.Op("seed %s %s", hx(v.mnemonic), hx("TREZOR"))
		}
	}
	w.Case("b/bip39-lengths")
	for n := 0; n <= 40; n++ {
		w.Op("ent2mn %s", kit.Hex(make([]byte, n)))
		w.Op("ent2mn %s", kit.Hex(bytes.Repeat([]byte{0xff}, n)))
	}
	w.Op("ent2mn %s", kit.Hex(make([]byte, 64)))
	w.Case("b/bip39-words")
	zoo := func(n int, last string) string {
		if n <= 0 {
			return ""
		}
		return strings.TrimSpace(strings.Repeat("zoo ", n-1) + last)
	}
	for n := 0; n <= 27; n++ {
		w.Op("mn2ba %s", hx(zoo(n, "zoo")))
		w.Op("valid %s", hx(zoo(n, "zoo")))
	}
	for _, last := range []string{"wrong", "zoo", "wrap", "abandon", "zone", "when", "vote", "", "Wrong"} {
		w.Op("mn2ba %s", hx(zoo(12, last)))
	}
	for _, m := range []string{"", " ", "abandon", strings.Repeat("abandon ", 12), " " + zoo(12, "wrong"), zoo(12, "wrong") + "\n",
		strings.ReplaceAll(zoo(12, "wrong"), " ", "\t"), strings.ReplaceAll(zoo(12, "wrong"), " ", "  "),
		strings.Replace(zoo(12, "wrong"), " ", "  ", 1), strings.Replace(zoo(13, "wrong"), " zoo", "", 1)} {
		w.Op("mn2ba %s", hx(m))
		w.Op("valid %s", hx(m))
	}
	// every 16th word of the list in last position (exercises the reverse map over the whole list)
	for i := 0; i < 2048; i += scale(64, 8) {
		w.Op("mn2ba %s", hx(zoo(12, bip39.WordList[i])))
	}
	w.Op("mn2ba c3a9") // non-ASCII ⇒ badop on both sides

	w.Case("b/hd-vectors")
	for _, v := range bip32Vectors {
		if v.path != "" {
			w.Op("hd %s %s", v.seedHex, hx(v.path))
		}
	}
	for _, v := range fundVectors {
		w.Op("hd %s %s", v.seed, hx("44'/118'/0'/0/0"))
	}
	seed0 := "000102030405060708090a0b0c0d0e0f"
	for _, p := range []string{"", "/", "0/", "/0", "0//1", "'", "0''", "''", "-1", "-0", "-0'", "+5", "+5'", "4294967296", "4294967295", "2147483648",
		"2147483647", "2147483647'", "2147483648'", "9223372036854775807", "9223372036854775808", "-9223372036854775808", "00000000000000000000001",
		"99999999999999999999", "m/0", "m", "0x1", "1_0", " 1", "1 ", "1'/ 2", "0/1/2/3/4/5/6/7/8/9", "44'/118'/0'/0/0", "44'/118'/0'/0/0/", "0'/1'/2'",
		"+", "-", "1/+", "00", "007'", "1/2/'"} {
		w.Op("hd %s %s", seed0, hx(p))
	}
	w.Op("hd e %s", hx("0"))
	w.Op("hd %s %s", kit.Hex(make([]byte, 64)), hx("0'/0"))

	w.Case("b/bip44")
	for _, p := range []string{"44'/118'/0'/0/0", "44'/118'/1'/1/7", "44'/0'/0'/0/0", "44'/118'/0'/2/0", "44/118'/0'/0/0", "43'/118'/0'/0/0", "44'/118/0'/0/0",
		"44'/118'/0/0/0", "44'/118'/0'/0'/0", "44'/118'/0'/0/0'", "44'/118'/0'/0", "44'/118'/0'/0/0/0", "", "////", "44'/x'/0'/0/0", "44'/-1'/0'/0/0",
		"44'/4294967296'/0'/0/0", "44'/4294967297'/4294967295'/0/4294967296", "44'/118'/0'/4294967297/0", "44'/118'/0'/4294967296/0", "044'/118'/0'/0/0", "+44'/118'/0'/0/0",
		"44''/118'/0'/0/0", "44'/118''/0'/0/0", "44'/118'/0'/0/00", "44'/118'/0'/1/9223372036854775807", "44'/118'/0'/1/9223372036854775808", "44'/ 118'/0'/0/0"} {
		w.Op("bip44 %s", hx(p))
	}

	w.Case("b/kdfeq")
	salt := kit.Hex(bytes.Repeat([]byte{7}, 16))
	a72 := strings.Repeat("a", 72)
	for _, pq := range [][2]string{{a72 + "XXXX", a72 + "YYYYYYY"}, {a72, a72 + "b"}, {a72[:71], a72}, {a72[:71] + "b", a72[:71] + "c"}, {"a", "a\x00a"}, {"a", "aa"},
		{"", "\x00"}, {"", "\x00\x00\x00"}, {"", "a"}, {"ab", "ab\x00ab\x00ab"}, {"ab", "ab\x00a"}, {"ab", "ab\x00ab\x00ac"}, {a72[:71], a72[:71] + "\x00zzz"}, {a72[:70], a72[:70] + "\x00a"},
		{a72[:70], a72[:70] + "\x00b"}, {"abc", "abc"}, {"abc", "abd"}, {a72 + a72, a72}, {strings.Repeat("ab", 36), strings.Repeat("ab", 40)}, {strings.Repeat("abc", 24), strings.Repeat("abc", 30)}} {
		w.Op("kdfeq %s %s %s", salt, hx(pq[0]), hx(pq[1]))
	}
	w.Op("kdfeq %s %s %s", kit.Hex(make([]byte, 15)), hx("a"), hx("a"))
	w.Op("kdfeq %s %s %s", kit.Hex(make([]byte, 17)), hx("a"), hx("a"))
	w.Op("kdfeq e %s %s", hx("a"), hx("a"))

	w.Case("b/armor-enc")
	for _, n := range []int{0, 1, 2, 3, 4, 5, 6, 46, 47, 48, 49, 50, 95, 96, 97, 143, 144, 145} {
		d := make([]byte, n)
		for i := range d {
			d[i] = byte(i*37 + n)
		}
		w.Op("enc %s - %s", hx("T"), kit.Hex(d))
		w.Op("enc %s %s:%s %s", hx(privType), hx("kdf"), hx("bcrypt"), kit.Hex(d))
		w.Op("dec %s", hx(mkArmor("T", nil, d).String()))
	}
	for _, ty := range []string{"", "X", "A B", strings.Repeat("T", 82), strings.Repeat("T", 83), strings.Repeat("T", 84), strings.Repeat("T", 85), strings.Repeat("T", 120), " X", "X ", "X\rY", "X\nY", "-----", "a: b"} {
		w.Op("enc %s - %s", hx(ty), hx("data"))
		w.Op("enc %s %s:%s %s", hx(ty), hx("k"), hx("v"), hx("data"))
	}
	for _, kv := range [][2]string{{"k", "v"}, {"", "v"}, {"k", ""}, {"k", " v"}, {"k", "v "}, {" k", "v"}, {"k:", "v"}, {"k: ", "v"}, {"a: b", "v"}, {"k", "a: b"}, {"k", strings.Repeat("v", 94)},
		{"k", strings.Repeat("v", 95)}, {"k", strings.Repeat("v", 96)}, {"k", strings.Repeat("v", 97)}, {"k", strings.Repeat("v", 200)}, {"k", "v\r"}, {"k", "a\nb"}, {"k\n", "v"}, {"k", ":"}, {":", ":"}, {"k", "\t"}} {
		w.Op("enc %s %s:%s %s", hx("T"), hx(kv[0]), hx(kv[1]), hx("data"))
	}
	w.Op("enc %s %s:%s,%s:%s %s", hx("T"), hx("b"), hx("1"), hx("a"), hx("2"), hx("data"))
	w.Op("enc %s %s:%s,%s:%s %s", hx("T"), hx("a"), hx("1"), hx("a:"), hx("2"), hx("data"))
	w.Op("enc %s %s:%s,%s:%s,%s:%s %s", hx("T"), hx("kdf"), hx("bcrypt"), hx("salt"), hx("00FF"), hx("Z"), hx("z"), hx("data"))

	w.Case("b/armor-dec")
	for _, t := range []string{"", "\n", "-----BEGIN X-----", "-----BEGIN X-----\n", "-----BEGIN X-----\n\n", "-----BEGIN X-----\n\n-----END X-----", "-----BEGIN X-----\n\nAAAA\n-----END X-----",
		"-----BEGIN X-----\n\nAAAA", "-----BEGIN X-----\n\nAAA", "-----BEGIN X-----\n\nAA==\nAAAA\n-----END Y-----", "-----BEGIN X-----\n\nAA==AAAA\n-----END X-----",
		"-----BEGIN X-----\n\nAAAA\n=AAAA\n-----END X-----", "-----BEGIN X-----\n\nAAAA\n=1hiG\n-----END X-----", "-----BEGIN X-----\n\nAAAA\n=1hiG", "-----BEGIN X-----\n\nAAAA\n=1hiG\nfoo",
		"-----BEGIN X-----\n\nAAAA\n=AA==\n-----END X-----", "-----BEGIN X-----\n\nAAAA\n=A===\n-----END X-----", "-----BEGIN X-----\n\nAAAA\n=AAA\n-----END X-----", "-----BEGIN X-----\n\nAAAA\n=AAAAA\n-----END X-----",
		"-----BEGIN X-----\n\n=twTO\n-----END X-----", "-----BEGIN -----\n\nAAAA\n-----END -----", "-----BEGIN X\n\nAAAA\n-----END X-----", "-----BEGIN XYZABC\n\nAAAA\n-----END X-----",
		"  -----BEGIN X-----  \n\nAAAA\n-----END X-----", "-----BEGIN X-----\nk: v\n\nAAAA\n-----END X-----", "-----BEGIN X-----\nk: v\nk: w\n\nAAAA\n-----END X-----",
		"-----BEGIN X-----\nkv\n-----BEGIN Y-----\n\nAAAA\n-----END Y-----", "-----BEGIN X-----\nk: \n\nAAAA\n-----END X-----", "-----BEGIN X-----\n: v\n\nAAAA\n-----END X-----",
		"-----BEGIN X-----\nk: " + strings.Repeat("v", 120) + "\n\nAAAA\n-----END X-----", "-----BEGIN X-----\n" + strings.Repeat(" ", 100) + "AAAA\n-----END X-----",
		"-----BEGIN X-----\n\n" + strings.Repeat("A", 96) + "\n-----END X-----", "-----BEGIN X-----\n\n" + strings.Repeat("A", 97) + "\n-----END X-----", "-----BEGIN X-----\n\n" + strings.Repeat("A", 100) + "\n-----END X-----",
		"-----BEGIN X-----\n\n" + strings.Repeat("A", 99) + "\r\n-----END X-----", "-----BEGIN X-----\n\n" + strings.Repeat("A", 104) + "\n-----END X-----",
		"-----BEGIN X-----\r\n\r\nAAAA\r\n=1hiG\r\n-----END X-----\r\n", "-----BEGIN X-----\n\nA\nA\nA\nA\n-----END X-----", "-----BEGIN X-----\n\nAA\n\nAA\n-----END X-----", "-----BEGIN X-----\n\nA A A A\n-----END X-----",
		"-----BEGIN X-----\n\nAAAA\n -----END X-----", "-----BEGIN X-----\n\nAAAA\n-----END", "-----BEGIN X-----\n\nAAAA\n-----END \n", "-----BEGIN X-----\n\nAA=A\n-----END X-----", "-----BEGIN X-----\n\nA===\n-----END X-----",
		"-----BEGIN X-----\n\nAA=\n=\n-----END X-----", "-----BEGIN X-----\n\nAA\r==\n-----END X-----", "-----BEGIN X-----\n\nAB==\n-----END X-----", "-----BEGIN X-----\n\nAAB=\n-----END X-----",
		strings.Repeat("g", 100) + "\n-----BEGIN X-----\n\nAAAA\n-----END X-----", strings.Repeat("g", 99) + "\r\n-----BEGIN X-----\n\nAAAA\n-----END X-----", strings.Repeat("g", 89) + "-----BEGIN X-----\n\nAAAA\n-----END X-----",
		strings.Repeat("g", 100) + "-----BEGIN X-----\n\nAAAA\n-----END X-----", "-----BEGIN " + strings.Repeat("T", 83) + "-----\n\nAAAA\n-----END X-----", "-----BEGIN " + strings.Repeat("T", 84) + "-----\n\nAAAA\n-----END X-----"} {
		w.Op("dec %s", hx(t))
	}
	w.Op("dec %s", hx(strings.Repeat("x", maxArmorLen+1)))
	w.Op("dec c3a9")

	w.Case("b/armor-info")
	for _, n := range []int{0, 1, 33, 100} {
		d := r.Bytes(n)
		for _, which := range []string{"info", "pub"} {
			w.Op("info %s %s", which, kit.Hex(d))
			for _, hs := range [][][2]string{{{"type", "Info"}, {"version", "0.0.0"}}, {{"version", "0.0.0"}}, {{"version", "0.0.1"}}, {{"type", "Info"}}, nil, {{"Version", "0.0.0"}}} {
				ty := "TENDERMINT KEY INFO"
				if which == "pub" {
					ty = "TENDERMINT PUBLIC KEY"
				}
				w.Op("uninfo %s %s", which, hx(mkArmor(ty, hs, d).String()))
			}
			w.Op("uninfo %s %s", which, hx(mkArmor(privType, [][2]string{{"version", "0.0.0"}}, d).String()))
		}
	}

	// ------------------------------------------------ 2. keys: unencrypted armor
	w.Case("b/unarmored")
	for i := 0; i < scale(4, 12); i++ {
		k := genKey(r)
		kb := k.Bytes()
		a := mkArmor(privType, nil, kb)
		w.Op("unarm %s %s", hx(a.String()), kTok(kb))
		w.Op("undec %s e - %s", hx(a.String()), kTok(kb))
		w.Op("undec %s %s - %s", hx(a.String()), hx("x"), kTok(kb))
		w.Op("encarm %s e %s", kit.Hex(kb), hx("x"))
		for j := 0; j < scale(6, 16); j++ {
			t, _ := mutateArmor(r, a, nil)
			if !asciiOK(t) {
				continue
			}
			if r.Bool() {
				w.Op("unarm %s %s", hx(t), kTok(decodedBody(t), kb))
			} else {
				emitUndec(w, t, nil, nil)
			}
		}
		// an unencrypted body that is a DIFFERENT valid key (no authentication without a passphrase)
		k2 := genKey(r)
		w.Op("unarm %s %s", hx(mkArmor(privType, nil, k2.Bytes()).String()), kTok(k2.Bytes()))
		w.Op("unarm %s %s", hx(mkArmor(privType, [][2]string{{"kdf", "bcrypt"}}, kb).String()), kTok(kb))
		w.Op("unarm %s %s", hx(mkArmor("TENDERMINT PUBLIC KEY", nil, kb).String()), kTok(kb))
		w.Op("unarm %s -", hx(mkArmor(privType, nil, kb[:len(kb)-1]).String()))
		w.Op("unarm %s %s", hx(mkArmor(privType, nil, nil).String()), kTok([]byte{}))
		w.Op("undec %s e - %s", hx(mkArmor(privType, nil, nil).String()), kTok([]byte{}))
	}

	// ------------------------------------------------ 3. the two recorded passphrase findings + neighbours (bcrypt cost 12)
	w.Case("b/pass-equiv")
	{
		var k secp256k1.PrivKeySecp256k1
		for i := range k {
			k[i] = byte(i + 1)
		}
		s := seal(r, k, []byte(a72+"XXXX"))
		a := s.armor(false)
		emitUndec(w, a.String(), s.pass, s)
		emitUndec(w, a.String(), []byte(a72+"YYYYYYY"), s) // finding: 72-byte truncation
		emitUndec(w, a.String(), []byte(a72[:71]+"b"+"XXXX"), s)
		s2 := seal(r, k, []byte("a"))
		a2 := s2.armor(true)
		emitUndec(w, a2.String(), []byte("a\x00a"), s2) // finding: cyclic key
		emitUndec(w, a2.String(), []byte("aa"), s2)
		emitUndec(w, a2.String(), nil, s2)
	}

	// every mutation kind once on one sealed key, right passphrase
	w.Case("b/enc-mutations")
	{
		k := genKey(r)
		pass := []byte("correct horse")
		s := seal(r, k, pass)
		a := s.armor(false)
		for kind := 0; kind < nMutKinds; kind++ {
			if t, _ := mutateArmorKind(r, a, s, kind); asciiOK(t) {
				emitUndec(w, t, pass, s)
			}
		}
		// header-less ciphertext with the empty passphrase: the ciphertext is fed to the key decoder
		emitUndec(w, mkArmor(privType, nil, s.enc).String(), nil, s)
		emitUndec(w, mkArmor(privType, nil, s.enc).String(), pass, s)
	}

	// ------------------------------------------------ 4. structured random
	nb := scale(30, 400)
	w.Case("r/bip39")
	for i := 0; i < scale(120, 1500); i++ {
		ent := genEntropy(r)
		w.Op("ent2mn %s", kit.Hex(ent))
		ws := mustMnemonic(ent)
		switch r.Intn(4) {
		case 0:
			w.Op("mn2ba %s", hx(strings.Join(ws, " ")))
		default:
			m, _ := mutateWords(r, ws)
			w.Op("mn2ba %s", hx(m))
			if r.Chance(30) {
				w.Op("valid %s", hx(m))
			}
		}
		if i%nb == 0 {
			w.Op("seed %s %s", hx(strings.Join(ws, " ")), kit.Hex(genPass(r)))
		}
	}
	// sentences made of random valid words: checksum right with probability 2^-cs
	for i := 0; i < scale(150, 3000); i++ {
		n := kit.Pick(r, []int{12, 15, 18, 21, 24})
		ws := make([]string, n)
		for j := range ws {
			ws[j] = bip39.WordList[r.Intn(2048)]
		}
		w.Op("mn2ba %s", hx(strings.Join(ws, " ")))
	}

	w.Case("r/hd")
	for i := 0; i < scale(60, 700); i++ {
		seed := r.Bytes(kit.Pick(r, []int{16, 32, 64, 64, 64}))
		var parts []string
		for j := 0; j < r.Range(1, 6); j++ {
			var n uint64
			switch r.Intn(6) {
			case 0:
				n = 0
			case 1:
				n = 1<<31 - 1
			case 2:
				n = uint64(r.Intn(1000))
			default:
				n = r.U64() % (1 << 31)
			}
			p := fmt.Sprint(n)
			if r.Chance(45) {
				p += "'"
			}
			parts = append(parts, p)
		}
		path := strings.Join(parts, "/")
		if r.Chance(12) { // malformed
			b := []byte(path)
			switch r.Intn(5) {
			case 0:
				b[r.Intn(len(b))] = kit.Pick(r, []byte("/'-+ x_"))
			case 1:
				b = append(b, '/')
			case 2:
				b = append([]byte("m/"), b...)
			case 3:
				b = append(b, []byte(fmt.Sprintf("/%d", uint64(1)<<31+r.U64()%(1<<33)))...)
			case 4:
				b = append(b, []byte("/"+strings.Repeat("9", r.Range(18, 21)))...)
			}
			path = string(b)
		}
		w.Op("hd %s %s", kit.Hex(seed), hx(path))
		if r.Chance(25) {
			p5 := fmt.Sprintf("44'/%d'/%d'/%d/%d", r.Intn(1000), r.Intn(10), r.Intn(3), r.Intn(100))
			w.Op("bip44 %s", hx(p5))
			w.Op("hd %s %s", kit.Hex(seed), hx(p5))
		}
	}

	w.Case("r/kdfeq")
	for i := 0; i < scale(150, 2500); i++ {
		p := genPass(r)
		if r.Chance(30) {
			p = append(p, 0)
			p = append(p, genPass(r)...)
		}
		q := otherPass(r, p)
		w.Op("kdfeq %s %s %s", kit.Hex(r.Bytes(16)), kit.Hex(p), kit.Hex(q))
	}

	w.Case("r/armor-frame")
	for i := 0; i < scale(120, 2500); i++ {
		d := r.Bytes(kit.Pick(r, []int{0, 1, 2, 3, 31, 47, 48, 49, 64, 96, 109, 150, r.Intn(200)}))
		ty := kit.Pick(r, []string{privType, "TENDERMINT KEY INFO", "X", "PGP MESSAGE", "A-B"})
		var hs [][2]string
		for j := 0; j < r.Intn(3); j++ {
			hs = append(hs, [2]string{kit.Pick(r, []string{"kdf", "salt", "version", "type", "x-y", "K"}) + fmt.Sprint(j), kit.Pick(r, []string{"bcrypt", "0.0.0", "Info", "a b", "v", "00FF"})})
		}
		tok := "-"
		if len(hs) > 0 {
			var ps []string
			for _, kv := range hs {
				ps = append(ps, hx(kv[0])+":"+hx(kv[1]))
			}
			tok = strings.Join(ps, ",")
		}
		w.Op("enc %s %s %s", hx(ty), tok, kit.Hex(d))
		a := mkArmor(ty, hs, d)
		if t := a.String(); asciiOK(t) {
			w.Op("dec %s", hx(t))
		}
		for j := 0; j < 3; j++ {
			if t, _ := mutateArmor(r, a, nil); asciiOK(t) {
				w.Op("dec %s", hx(t))
			}
		}
	}

	// ------------------------------------------------ 5. encrypted keys (bcrypt cost 12: the expensive part)
	ncase := scale(2, 12)
	for c := 0; c < ncase; c++ {
		w.Case(fmt.Sprintf("r/enc%d", c))
		k := genKey(r)
		pass := genPass(r)
		s := seal(r, k, pass)
		a := s.armor(r.Bool())
		emitUndec(w, a.String(), pass, s)
		emitUndec(w, a.String(), otherPass(r, pass), s)
		for j := 0; j < scale(4, 8); j++ {
			t, _ := mutateArmor(r, a, s)
			if !asciiOK(t) {
				continue
			}
			p := pass
			if r.Chance(15) {
				p = otherPass(r, pass)
			}
			emitUndec(w, t, p, s)
		}
		if c%3 == 0 {
			w.Op("encarm %s %s %s", kit.Hex(k.Bytes()), kit.Hex(pass), kit.Hex(otherPass(r, pass)))
		}
		if c%6 == 0 {
			ent := genEntropy(r)
			m := strings.Join(mustMnemonic(ent), " ")
			if r.Chance(20) {
				m, _ = mutateWords(r, strings.Split(m, " "))
			}
			w.Op("kb %s %s %s %d %d %s", hx(m), kit.Hex(genPass(r)), kit.Hex(pass), r.Intn(5), r.Intn(50), kit.Hex(otherPass(r, pass)))
		}
	}

	// ------------------------------------------------ 6. malformed stream
	w.Case("m/garbage")
	for i := 0; i < scale(80, 1500); i++ {
		n := r.Intn(200)
		b := make([]byte, n)
		for j := range b {
			switch r.Intn(8) {
			case 0:
				b[j] = '\n'
			case 1:
				b[j] = '-'
			case 2:
				b[j] = kit.Pick(r, []byte(" \t\r=:"))
			default:
				b[j] = byte(r.Range(0x20, 0x7e))
			}
		}
		t := string(b)
		if r.Chance(50) {
			t = "-----BEGIN " + t
		}
		switch r.Intn(4) {
		case 0:
			w.Op("dec %s", hx(t))
		case 1:
			w.Op("mn2ba %s", hx(t))
		case 2:
			emitUndec(w, t, genPass(r), nil)
		case 3:
			w.Op("hd %s %s", kit.Hex(r.Bytes(16)), hx(t[:len(t)%24]))
		}
	}
	w.Op("nosuchop 1 2")
	w.Op("ent2mn")
	_ = hex.EncodeToString
}
