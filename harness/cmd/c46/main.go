// Harness for C46: key encryption (armor / keybase), BIP-39 mnemonics, HD derivation.
//
// Real code in-process: tm2/pkg/crypto/{bip39, hd, armor, keys/armor, keys, bcrypt}.
//
// op lines (bytes are hex, `e` = empty):
//
//	ent2mn <entropy>                       bip39.NewMnemonic                 → ok <words joined by _> | err:entropy
//	mn2ba  <mnemonic>                      bip39.MnemonicToByteArray         → ok <bytes> | err:invalid|size|word|checksum
//	valid  <mnemonic>                      bip39.IsMnemonicValid             → true | false
//	seed   <mnemonic> <passphrase>         bip39.NewSeedWithErrorChecking    → ok | err:…   (seed bytes: oracle only)
//	enc    <type> <k:v,…|-> <data>         armor.EncodeArmor                 → ok <len> <sha16 of text, header lines sorted>
//	dec    <text>                          armor.DecodeArmor                 → ok ty=… nh=… dl=… <sha16 of canonical block> | err:eof|corrupt|b64|ueof
//	unarm  <text> <K>                      keys/armor.UnarmorPrivateKey      → ok <key bytes> | err:…
//	undec  <text> <pass> <C> <K>           keys/armor.UnarmorDecryptPrivKey  → ok <key bytes> | err:… | exit:bcrypt
//	encarm <keybytes> <pass> <otherpass>   keys/armor.EncryptArmorPrivKey    → ok nh=<0|2> enclen=<n>     (round trips: oracle)
//	info   <info|pub> <data>               ArmorInfoBytes / ArmorPubKeyBytes → ok <len> <sha16>
//	uninfo <info|pub> <text>               UnarmorInfoBytes / …PubKeyBytes   → ok <len> <sha16 of data> | err:…
//	kdfeq  <salt> <p1> <p2>                bcrypt.GenerateFromPassword(salt, p, 4) equal for p1 and p2?  → true|false|err:salt
//	hd     <seed> <path>                   hd.ComputeMastersFromSeed + DerivePrivateKeyForPath → ok | err:path | panic:path (key: oracle only)
//	bip44  <path>                          hd.NewParamsFromPath              → ok <purpose> <coin> <account> <change> <index> <String()> | err:…
//	kb     <mnemonic> <bip39pass> <encpass> <account> <index> <otherpass>   keys.NewInMemory().CreateAccount + ExportPrivKey → ok | err:…
//
// C = `salt:pass:enc:plain` (the one sealed box the line is about) and
// K = `in>out,…` (byte strings that amino-decode to a key, with the key's canonical bytes)
// describe the abstract primitives to the MODEL; the harness ignores them except that the
// oracle of `undec` reads C as the ground truth "what was encrypted, with which passphrase".
//
// Oracle (independent of the model): ref.go (own BIP-32 / PBKDF2 / checksum code, official
// vectors) and the property statement evaluated on the real outputs.
package main

import (
	"bytes"
	"crypto/sha256"
	"encoding/base64"
	"encoding/hex"
	"errors"
	"fmt"
	"io"
	"math/big"
	"os"
	"os/exec"
	"sort"
	"strconv"
	"strings"

	xarmor "golang.org/x/crypto/openpgp/armor"

	"github.com/gnolang/gno/tm2/pkg/crypto"
	garmor "github.com/gnolang/gno/tm2/pkg/crypto/armor"
	"github.com/gnolang/gno/tm2/pkg/crypto/bcrypt"
	"github.com/gnolang/gno/tm2/pkg/crypto/bip39"
	_ "github.com/gnolang/gno/tm2/pkg/crypto/ed25519"
	"github.com/gnolang/gno/tm2/pkg/crypto/hd"
	"github.com/gnolang/gno/tm2/pkg/crypto/keys"
	karmor "github.com/gnolang/gno/tm2/pkg/crypto/keys/armor"
	"github.com/gnolang/gno/tm2/pkg/crypto/keys/keyerror"
	"github.com/gnolang/gno/tm2/pkg/crypto/secp256k1"
	"gnoverif/kit"
)

const maxArmorLen = 600

func isASCII(b []byte) bool {
	for _, c := range b {
		if c >= 0x80 {
			return false
		}
	}
	return true
}

func sha16(b []byte) string {
	h := sha256.Sum256(b)
	return hex.EncodeToString(h[:16])
}

func be4(n int) []byte { return []byte{byte(n >> 24), byte(n >> 16), byte(n >> 8), byte(n)} }

// ---------------------------------------------------------------- error classes

func bip39Err(err error) string {
	s := err.Error()
	switch {
	case strings.HasPrefix(s, "entropy length must be"):
		return "err:entropy"
	case s == "invalid mnemonic":
		return "err:invalid"
	case strings.HasPrefix(s, "wrong entropy + checksum size"):
		return "err:size"
	case strings.HasPrefix(s, "word `"):
		return "err:word"
	case strings.HasPrefix(s, "invalid byte at position"):
		return "err:checksum"
	}
	return "err:other:" + s
}

func armorErrClass(err error) string {
	var ci base64.CorruptInputError
	switch {
	case err == io.EOF:
		return "eof"
	case err == io.ErrUnexpectedEOF:
		return "ueof"
	case err == xarmor.ArmorCorrupt:
		return "corrupt"
	case errors.As(err, &ci):
		return "b64"
	}
	return ""
}

func keyErr(err error) string {
	if c := armorErrClass(err); c != "" {
		return "err:armor:" + c
	}
	if keyerror.IsErrWrongPassword(err) {
		return "err:wrongpass"
	}
	s := err.Error()
	switch {
	case strings.HasPrefix(s, "unrecognized armor type"):
		return "err:type"
	case strings.HasPrefix(s, "non-empty private key header"):
		return "err:header"
	case strings.HasPrefix(s, "unrecognized version"):
		return "err:version"
	case strings.HasPrefix(s, "unrecognized KDF type"):
		return "err:kdf"
	case s == "missing salt bytes":
		return "err:nosalt"
	case strings.HasPrefix(s, "error decoding salt"):
		return "err:salthex"
	case s == "ciphertext is too short":
		return "err:short"
	}
	return "err:amino" // whatever crypto.PrivKeyFromBytes (amino) says
}

func paramsErr(err error) string {
	s := err.Error()
	switch {
	case strings.HasPrefix(s, "path length is wrong"):
		return "err:length"
	case strings.HasPrefix(s, "strconv.Atoi"):
		return "err:atoi"
	case strings.HasPrefix(s, "fields must not be negative"):
		return "err:negative"
	case strings.HasPrefix(s, "first field in path must be 44'"):
		return "err:purpose"
	case strings.HasPrefix(s, "second and third field"):
		return "err:hardened"
	case strings.HasPrefix(s, "fourth and fifth field"):
		return "err:nothardened"
	case strings.HasPrefix(s, "change field can only"):
		return "err:change"
	}
	return "err:other:" + s
}

// ---------------------------------------------------------------- table tokens

type cTable struct {
	salt, pass, enc, plain []byte
}

func parseC(s string) *cTable {
	if s == "-" {
		return nil
	}
	p := strings.Split(s, ":")
	if len(p) != 4 {
		panic("bad C token")
	}
	return &cTable{kit.MustUnHex(p[0]), kit.MustUnHex(p[1]), kit.MustUnHex(p[2]), kit.MustUnHex(p[3])}
}

func parseHdrs(s string) ([][2][]byte, bool) {
	if s == "-" {
		return nil, true
	}
	var out [][2][]byte
	for _, kv := range strings.Split(s, ",") {
		p := strings.Split(kv, ":")
		if len(p) != 2 {
			return nil, false
		}
		k, e1 := kit.UnHex(p[0])
		v, e2 := kit.UnHex(p[1])
		if e1 != nil || e2 != nil || k == nil || v == nil {
			return nil, false
		}
		out = append(out, [2][]byte{k, v})
	}
	return out, true
}

// ---------------------------------------------------------------- independent decode (oracle / routing)

type block struct {
	ty   string
	hdr  map[string]string
	data []byte
}

// xDecode uses golang.org/x/crypto's decoder directly (third-party code, not the code under
// test) so the oracle can tell WHAT a text encodes.
func xDecode(text []byte) (*block, error) {
	b, err := xarmor.Decode(bytes.NewReader(text))
	if err != nil {
		return nil, err
	}
	data, err := io.ReadAll(b.Body)
	if err != nil {
		return nil, err
	}
	return &block{b.Type, b.Header, data}, nil
}

func serBlock(ty string, hdr map[string]string, data []byte) []byte {
	keys := make([]string, 0, len(hdr))
	for k := range hdr {
		keys = append(keys, k)
	}
	sort.Strings(keys)
	var out []byte
	out = append(out, be4(len(ty))...)
	out = append(out, ty...)
	out = append(out, be4(len(keys))...)
	for _, k := range keys {
		out = append(out, be4(len(k))...)
		out = append(out, k...)
		out = append(out, be4(len(hdr[k]))...)
		out = append(out, hdr[k]...)
	}
	out = append(out, be4(len(data))...)
	out = append(out, data...)
	return out
}

// canonText sorts the header lines (map iteration order) of an EncodeArmor output.
func canonText(text string, nh int) string {
	if nh < 2 {
		return text
	}
	lines := strings.Split(text, "\n")
	// lines[0] = BEGIN, lines[1..nh] = headers, lines[nh+1] = ""
	if len(lines) < nh+2 {
		return text
	}
	hs := append([]string{}, lines[1:1+nh]...)
	sort.Strings(hs)
	copy(lines[1:1+nh], hs)
	return strings.Join(lines, "\n")
}

// ---------------------------------------------------------------- passphrase-equivalence classes (naming only)

func passClass(p, q []byte) string {
	if len(p) >= 72 && len(q) >= 72 && bytes.Equal(p[:72], q[:72]) {
		return "pass-trunc72"
	}
	if bytes.IndexByte(p, 0) >= 0 || bytes.IndexByte(q, 0) >= 0 {
		return "pass-nul-cyclic"
	}
	return "wrong-pass-accepted"
}

// ---------------------------------------------------------------- exec

var wordIndex map[string]int

func keyOut(k crypto.PrivKey, err error) string {
	if err != nil {
		return keyErr(err)
	}
	if k == nil {
		return "ok e" // (nil, nil): what PrivKeyFromBytes returns for the empty byte string
	}
	return "ok " + kit.Hex(k.Bytes())
}

func safeUndec(text, pass string) (k crypto.PrivKey, err error, panicked any) {
	defer func() {
		if v := recover(); v != nil {
			panicked = v
		}
	}()
	k, err = karmor.UnarmorDecryptPrivKey(text, pass)
	return
}

// needsChild: the real code would call os.Exit (bcrypt refuses a salt that is not 16 bytes).
// Decided with the independent decoder; if this routing is wrong the harness process dies
// and the runner reports the crash.
func needsChild(text []byte, pass string) bool {
	b, err := xDecode(text)
	if err != nil || b.ty != "TENDERMINT PRIVATE KEY" {
		return false
	}
	if len(b.hdr) == 0 && pass == "" {
		return false
	}
	if b.hdr["kdf"] != "bcrypt" || b.hdr["salt"] == "" {
		return false
	}
	salt, err := hex.DecodeString(b.hdr["salt"])
	return err == nil && len(salt) != 16
}

func runChild(textHex, passHex string) string {
	cmd := exec.Command(os.Args[0], "child-undec", textHex, passHex)
	out, err := cmd.Output()
	var ee *exec.ExitError
	if errors.As(err, &ee) && ee.ExitCode() == 1 && strings.Contains(string(out), "Error generating bcrypt key from passphrase") {
		return "exit:bcrypt"
	}
	if err != nil {
		return "child:" + err.Error()
	}
	return strings.TrimSpace(string(out))
}

func childMain(args []string) {
	text := kit.MustUnHex(args[0])
	pass := kit.MustUnHex(args[1])
	k, err := karmor.UnarmorDecryptPrivKey(string(text), string(pass))
	fmt.Println(keyOut(k, err))
}

var arity = map[string]int{"ent2mn": 2, "mn2ba": 2, "valid": 2, "seed": 3, "enc": 4, "dec": 2, "unarm": 3, "undec": 5,
	"encarm": 4, "info": 3, "uninfo": 3, "kdfeq": 4, "hd": 3, "bip44": 2, "kb": 7}

func execOp(t []string) (string, string) {
	if len(t) == 0 {
		return "err:badop", "-"
	}
	if n, ok := arity[t[0]]; !ok || len(t) != n {
		return "err:badop", "-"
	}
	switch t[0] {
	case "ent2mn":
		ent := kit.MustUnHex(t[1])
		m, err := bip39.NewMnemonic(ent)
		if err != nil {
			// the statement's entropy lengths are 16,20,24,28,32 bytes: those must be accepted
			if l := len(ent); l >= 16 && l <= 32 && l%4 == 0 {
				return bip39Err(err), "VIOL:entropy-rejected len=" + strconv.Itoa(l)
			}
			return bip39Err(err), "ok"
		}
		out := "ok " + strings.ReplaceAll(m, " ", "_")
		if l := len(ent); !(l >= 16 && l <= 32 && l%4 == 0) {
			return out, "VIOL:entropy-accepted len=" + strconv.Itoa(l)
		}
		// statement: back-conversion returns the same entropy
		ba, err := bip39.MnemonicToByteArray(m)
		if err != nil {
			return out, "VIOL:bip39-roundtrip back-conversion failed: " + err.Error()
		}
		cs := uint(len(ent) / 4)
		back := new(big.Int).Rsh(new(big.Int).SetBytes(ba), cs)
		if len(ba) != len(ent)+1 || back.Cmp(new(big.Int).SetBytes(ent)) != 0 {
			return out, "VIOL:bip39-roundtrip got " + hex.EncodeToString(ba)
		}
		// independent checksum evaluation of the produced sentence
		e2, csOK, wf := refMnemonicCheck(strings.Split(m, " "), wordIndex)
		if !wf || !csOK || !bytes.Equal(e2, ent) {
			return out, "VIOL:bip39-encode sentence does not encode the entropy"
		}
		if v, ok := bip39ByEntropy[hex.EncodeToString(ent)]; ok && v.mnemonic != m {
			return out, "VIOL:bip39-vector expected " + v.mnemonic
		}
		return out, "ok"

	case "mn2ba":
		m := kit.MustUnHex(t[1])
		if !isASCII(m) {
			return "err:badop", "-"
		}
		ba, err := bip39.MnemonicToByteArray(string(m))
		words := strings.Split(string(m), " ")
		ent, csOK, wf := refMnemonicCheck(words, wordIndex)
		if err != nil {
			if wf && csOK {
				return bip39Err(err), "VIOL:valid-rejected"
			}
			return bip39Err(err), "ok"
		}
		out := "ok " + kit.Hex(ba)
		if !wf {
			return out, "VIOL:invalid-accepted"
		}
		if !csOK {
			return out, "VIOL:bad-checksum-accepted"
		}
		cs := uint(len(ent) / 4)
		back := new(big.Int).Rsh(new(big.Int).SetBytes(ba), cs)
		if len(ba) != len(ent)+1 || back.Cmp(new(big.Int).SetBytes(ent)) != 0 {
			return out, "VIOL:bip39-decode"
		}
		return out, "ok"

	case "valid":
		m := kit.MustUnHex(t[1])
		if !isASCII(m) {
			return "err:badop", "-"
		}
		return strconv.FormatBool(bip39.IsMnemonicValid(string(m))), "-"

	case "seed":
		m := kit.MustUnHex(t[1])
		pw := kit.MustUnHex(t[2])
		if !isASCII(m) {
			return "err:badop", "-"
		}
		s, err := bip39.NewSeedWithErrorChecking(string(m), string(pw))
		if err != nil {
			return bip39Err(err), "-"
		}
		if !bytes.Equal(s, refSeed(string(m), string(pw))) {
			return "ok", "VIOL:seed-mismatch"
		}
		if v, ok := bip39ByMnemonic[string(m)]; ok && string(pw) == "TREZOR" && v.seed != hex.EncodeToString(s) {
			return "ok", "VIOL:seed-vector"
		}
		return "ok", "ok"

	case "enc":
		ty := kit.MustUnHex(t[1])
		hs, ok := parseHdrs(t[2])
		data := kit.MustUnHex(t[3])
		if !ok {
			return "err:badop", "-"
		}
		hm := map[string]string{}
		multiNL := false
		for _, kv := range hs {
			if _, dup := hm[string(kv[0])]; dup {
				return "err:badop", "-"
			}
			hm[string(kv[0])] = string(kv[1])
			if bytes.IndexByte(kv[0], '\n') >= 0 || bytes.IndexByte(kv[1], '\n') >= 0 {
				multiNL = true
			}
		}
		if len(hs) > 1 && multiNL {
			return "err:badop", "-"
		}
		text := garmor.EncodeArmor(string(ty), hm, data)
		ct := canonText(text, len(hs))
		out := fmt.Sprintf("ok %d %s", len(ct), sha16([]byte(ct)))
		// oracle: parse ∘ format = id on the real code, whenever the block is representable
		if encodable(ty, hs) && len(text) <= maxArmorLen {
			bt, hdr, d, err := garmor.DecodeArmor(text)
			if err != nil || bt != string(ty) || !bytes.Equal(d, data) || len(hdr) != len(hm) {
				return out, "VIOL:armor-roundtrip"
			}
			for k, v := range hm {
				if hdr[k] != v {
					return out, "VIOL:armor-roundtrip header " + k
				}
			}
			return out, "ok"
		}
		return out, "-"

	case "dec":
		x := kit.MustUnHex(t[1])
		if !isASCII(x) || len(x) > maxArmorLen {
			return "err:badop", "-"
		}
		bt, hdr, d, err := garmor.DecodeArmor(string(x))
		if err != nil {
			if c := armorErrClass(err); c != "" {
				return "err:" + c, "-"
			}
			return "err:other:" + err.Error(), "-"
		}
		p := bt
		if len(p) > 12 {
			p = p[:12]
		}
		return fmt.Sprintf("ok ty=%s nh=%d dl=%d %s", kit.Hex([]byte(p)), len(hdr), len(d), sha16(serBlock(bt, hdr, d))), "-"

	case "unarm":
		x := kit.MustUnHex(t[1])
		if !isASCII(x) || len(x) > maxArmorLen {
			return "err:badop", "-"
		}
		k, err := karmor.UnarmorPrivateKey(string(x))
		return keyOut(k, err), "-"

	case "undec":
		x := kit.MustUnHex(t[1])
		pass := kit.MustUnHex(t[2])
		c := parseC(t[3])
		if !isASCII(x) || len(x) > maxArmorLen {
			return "err:badop", "-"
		}
		if needsChild(x, string(pass)) {
			return runChild(t[1], t[2]), "-"
		}
		k, err, pv := safeUndec(string(x), string(pass))
		if pv != nil {
			return "panic:" + fmt.Sprint(pv), "VIOL:undec-panic"
		}
		out := keyOut(k, err)
		if c == nil {
			return out, "-"
		}
		// ground truth: `c.plain` was sealed under (c.salt, c.pass) as c.enc
		b, derr := xDecode(x)
		sameCipher := false
		if derr == nil && b.ty == "TENDERMINT PRIVATE KEY" && b.hdr["kdf"] == "bcrypt" {
			if s, e := hex.DecodeString(b.hdr["salt"]); e == nil && bytes.Equal(s, c.salt) && bytes.Equal(b.data, c.enc) {
				sameCipher = true
			}
		}
		if err == nil {
			if !bytes.Equal(pass, c.pass) {
				return out, "VIOL:" + passClass(pass, c.pass) + " decrypted with a different passphrase"
			}
			if !sameCipher {
				return out, "VIOL:tampered-accepted"
			}
			if !bytes.Equal(k.Bytes(), c.plain) {
				return out, "VIOL:roundtrip decrypted to a different key"
			}
			return out, "ok"
		}
		if sameCipher && bytes.Equal(pass, c.pass) {
			return out, "VIOL:roundtrip right passphrase, untouched ciphertext: " + out
		}
		return out, "ok"

	case "encarm":
		kb := kit.MustUnHex(t[1])
		pass := kit.MustUnHex(t[2])
		other := kit.MustUnHex(t[3])
		priv, err := crypto.PrivKeyFromBytes(kb)
		if err != nil {
			return "err:badop", "-"
		}
		text := karmor.EncryptArmorPrivKey(priv, string(pass))
		b, err := xDecode([]byte(text))
		if err != nil {
			return "err:armor:" + armorErrClass(err), "VIOL:roundtrip own armor does not decode"
		}
		out := fmt.Sprintf("ok nh=%d enclen=%d", len(b.hdr), len(b.data))
		k, err := karmor.UnarmorDecryptPrivKey(text, string(pass))
		if err != nil || !k.Equals(priv) {
			return out, "VIOL:roundtrip"
		}
		if !bytes.Equal(other, pass) {
			if k2, err := karmor.UnarmorDecryptPrivKey(text, string(other)); err == nil && k2 != nil {
				return out, "VIOL:" + passClass(other, pass) + " decrypted with a different passphrase"
			}
		}
		return out, "ok"

	case "info":
		d := kit.MustUnHex(t[2])
		var text string
		if t[1] == "pub" {
			text = karmor.ArmorPubKeyBytes(d)
		} else {
			text = karmor.ArmorInfoBytes(d)
		}
		ct := canonText(text, 2)
		out := fmt.Sprintf("ok %d %s", len(ct), sha16([]byte(ct)))
		var back []byte
		var err error
		if t[1] == "pub" {
			back, err = karmor.UnarmorPubKeyBytes(text)
		} else {
			back, err = karmor.UnarmorInfoBytes(text)
		}
		if err != nil || !bytes.Equal(back, d) {
			return out, "VIOL:armor-roundtrip info"
		}
		return out, "ok"

	case "uninfo":
		x := kit.MustUnHex(t[2])
		if !isASCII(x) || len(x) > maxArmorLen {
			return "err:badop", "-"
		}
		var d []byte
		var err error
		if t[1] == "pub" {
			d, err = karmor.UnarmorPubKeyBytes(string(x))
		} else {
			d, err = karmor.UnarmorInfoBytes(string(x))
		}
		if err != nil {
			return keyErr(err), "-"
		}
		return fmt.Sprintf("ok %d %s", len(d), sha16(d)), "-"

	case "kdfeq":
		salt := kit.MustUnHex(t[1])
		p1 := kit.MustUnHex(t[2])
		p2 := kit.MustUnHex(t[3])
		h1, e1 := bcrypt.GenerateFromPassword(salt, p1, 4)
		h2, e2 := bcrypt.GenerateFromPassword(salt, p2, 4)
		if e1 != nil || e2 != nil {
			return "err:salt", "-"
		}
		return strconv.FormatBool(bytes.Equal(h1, h2)), "-"

	case "hd":
		seed := kit.MustUnHex(t[1])
		path := string(kit.MustUnHex(t[2]))
		out, key := deriveReal(seed, path)
		idx, inDomain := refParsePath(path)
		if !inDomain {
			return out, "-"
		}
		want, ok := refDerive(seed, idx)
		if !ok {
			return out, "-" // the 2^-127 "invalid key" cases of BIP-32
		}
		if out != "ok" {
			return out, "VIOL:hd-rejected valid path"
		}
		if !bytes.Equal(key, want) {
			return out, "VIOL:hd-mismatch want " + hex.EncodeToString(want) + " got " + hex.EncodeToString(key)
		}
		if w, ok := hdKnown[hex.EncodeToString(seed)+"|"+path]; ok && w != hex.EncodeToString(key) {
			return out, "VIOL:hd-vector want " + w
		}
		if out2, key2 := deriveReal(seed, path); out2 != out || !bytes.Equal(key, key2) {
			return out, "VIOL:hd-nondeterministic"
		}
		return out, "ok"

	case "bip44":
		path := string(kit.MustUnHex(t[1]))
		p, err := hd.NewParamsFromPath(path)
		if err != nil {
			return paramsErr(err), "-"
		}
		ch := 0
		if p.Change {
			ch = 1
		}
		out := fmt.Sprintf("ok %d %d %d %d %d %s", p.Purpose, p.CoinType, p.Account, ch, p.AddressIndex, p.String())
		// String() of the parsed params parses back to the same params
		q, err := hd.NewParamsFromPath(p.String())
		if err != nil || *q != *p {
			return out, "VIOL:bip44-string"
		}
		return out, "ok"

	case "kb":
		m := kit.MustUnHex(t[1])
		bpw := string(kit.MustUnHex(t[2]))
		epw := kit.MustUnHex(t[3])
		account := uint32(kit.Atou64(t[4]))
		index := uint32(kit.Atou64(t[5]))
		other := kit.MustUnHex(t[6])
		if !isASCII(m) {
			return "err:badop", "-"
		}
		kbs := keys.NewInMemory()
		info, err := kbs.CreateAccount("k", string(m), bpw, string(epw), account, index)
		if err != nil {
			return bip39Err(err), "-"
		}
		// reference derivation: PBKDF2 seed, BIP-44 path 44'/118'/account'/0/index
		path := fmt.Sprintf("44'/%d'/%d'/0/%d", crypto.CoinType, account, index)
		idx, inDomain := refParsePath(path)
		priv, err := kbs.ExportPrivKey("k", string(epw))
		if err != nil {
			return "ok", "VIOL:roundtrip keybase export with the right passphrase failed"
		}
		if !priv.PubKey().Equals(info.GetPubKey()) {
			return "ok", "VIOL:roundtrip keybase pubkey mismatch"
		}
		if inDomain {
			if want, ok := refDerive(refSeed(string(m), bpw), idx); ok {
				raw, isSecp := priv.(secp256k1.PrivKeySecp256k1)
				if !isSecp || !bytes.Equal(raw[:], want) {
					return "ok", "VIOL:hd-mismatch keybase key differs from BIP-39/32/44 reference"
				}
			}
		}
		if !bytes.Equal(other, epw) {
			if k2, err := kbs.ExportPrivKey("k", string(other)); err == nil && k2 != nil {
				return "ok", "VIOL:" + passClass(other, epw) + " keybase export with a different passphrase"
			}
			if _, _, err := kbs.Sign("k", string(other), []byte("msg")); err == nil {
				return "ok", "VIOL:" + passClass(other, epw) + " keybase sign with a different passphrase"
			}
		}
		return "ok", "ok"
	}
	return "err:badop", "-"
}

// encodable: the (type, headers) for which parse∘format = id is claimed (the hypotheses of
// the Lean theorem, re-stated independently).
func encodable(ty []byte, hs [][2][]byte) bool {
	okStr := func(b []byte) bool {
		return isASCII(b) && bytes.IndexByte(b, '\n') < 0
	}
	if len(ty) == 0 || len(ty) > 83 || !okStr(ty) {
		return false
	}
	for _, kv := range hs {
		k, v := kv[0], kv[1]
		if !okStr(k) || !okStr(v) || len(v) == 0 || len(k)+2+len(v) > 99 {
			return false
		}
		if bytes.Contains(k, []byte(": ")) {
			return false
		}
		line := string(k) + ": " + string(v)
		if strings.TrimSpace(line) != line {
			return false
		}
	}
	return true
}

func deriveReal(seed []byte, path string) (out string, key []byte) {
	defer func() {
		if v := recover(); v != nil {
			out, key = "panic:path", nil
		}
	}()
	m, ch := hd.ComputeMastersFromSeed(seed)
	k, err := hd.DerivePrivateKeyForPath(m, ch, path)
	if err != nil {
		return "err:path", nil
	}
	return "ok", k[:]
}

func main() {
	if len(os.Args) >= 4 && os.Args[1] == "child-undec" {
		childMain(os.Args[2:])
		return
	}
	wordIndex = map[string]int{}
	for i, w := range bip39.WordList {
		wordIndex[w] = i
	}
	kit.Main(&kit.Harness{
		Gen:   gen,
		Reset: func() {},
		Exec:  execOp,
		PanicOracle: func(toks []string, v any) (string, string) {
			if s, ok := v.(string); ok && strings.HasPrefix(s, "bad ") {
				return "err:badop", "-" // malformed token (kit.MustUnHex / Atoi)
			}
			return "panic:" + strings.ReplaceAll(fmt.Sprint(v), "\n", " "), "VIOL:harness-panic"
		},
	})
}
