package main

import (
	"fmt"
	"math/big"
)

// oracleState: the clauses of the statement that speak about ONE state.
//
//	storage-mismatch   recorded storage != Σ sizes of the realm's stored objects + its params bytes
//	deposit-unbacked   recorded deposit > coins at the realm's storage-deposit address
func oracleState(v *view) string {
	for _, n := range v.names() {
		a := v.accts[n]
		if a.Storage != a.ObjBytes+a.ParamBytes {
			return fmt.Sprintf("VIOL:storage-mismatch %s recorded=%d objects=%d params=%d", n, a.Storage, a.ObjBytes, a.ParamBytes)
		}
		if a.Backing < a.Deposit {
			return fmt.Sprintf("VIOL:deposit-unbacked %s deposit=%d backing=%d", n, a.Deposit, a.Backing)
		}
	}
	return "ok"
}

// oracleMsg: the clauses about one message, evaluated on the raw states before
// and after it (price = the one in force BEFORE the message).
//
//	rollback           a failed message changed a counter, a deposit or a balance
//	charge-price       growth d of a realm was not charged d × (price at message start)
//	limit-bypass       a message succeeded although its growth costs more than its deposit limit
//	refund-over        a shrinking realm refunded more than it held
//	refund-incomplete  a realm freed all its storage but kept deposit
//	caller-balance     the caller's balance change is not −(locked) + (refunded)
func oracleMsg(m *message, succeeded bool, b, a *view) string {
	if s := oracleState(a); s != "ok" {
		return s
	}
	names := a.names()
	if !succeeded {
		if len(b.accts) != len(a.accts) || b.bal != a.bal {
			return "VIOL:rollback balances or realm set changed"
		}
		for _, n := range names {
			x, y := b.accts[n], a.accts[n]
			if x.Storage != y.Storage || x.Deposit != y.Deposit || x.Backing != y.Backing {
				return "VIOL:rollback " + n
			}
		}
		return "ok"
	}
	limit := m.maxDep
	if limit == 0 {
		limit = b.deflt
	}
	price := big.NewInt(b.price)
	locked, refunded := new(big.Int), new(big.Int)
	for _, n := range names {
		x, y := b.accts[n], a.accts[n] // x is the zero value for a realm created by this message
		dS := y.Storage - x.Storage
		dD := big.NewInt(y.Deposit - x.Deposit)
		switch {
		case dS > 0:
			want := new(big.Int).Mul(big.NewInt(dS), price)
			if dD.Cmp(want) != 0 {
				return fmt.Sprintf("VIOL:charge-price %s grew=%d price=%d charged=%s", n, dS, b.price, dD)
			}
			locked.Add(locked, want)
		case dS < 0:
			if dD.Sign() > 0 || new(big.Int).Neg(dD).Cmp(big.NewInt(x.Deposit)) > 0 {
				return fmt.Sprintf("VIOL:refund-over %s deposit=%d change=%s", n, x.Deposit, dD)
			}
			if y.Storage == 0 && y.Deposit != 0 {
				return fmt.Sprintf("VIOL:refund-incomplete %s deposit left=%d", n, y.Deposit)
			}
			refunded.Sub(refunded, dD)
		default:
			if dD.Sign() != 0 {
				return fmt.Sprintf("VIOL:charge-price %s deposit changed by %s without storage change", n, dD)
			}
		}
	}
	if locked.Cmp(big.NewInt(limit)) > 0 {
		return fmt.Sprintf("VIOL:limit-bypass needs=%s limit=%d", locked, limit)
	}
	for c := 0; c < 2; c++ {
		want := new(big.Int)
		if c == m.caller {
			want.Sub(refunded, locked)
		}
		if got := big.NewInt(a.bal[c] - b.bal[c]); got.Cmp(want) != 0 {
			return fmt.Sprintf("VIOL:caller-balance c%d changed=%s expected=%s", c, got, want)
		}
	}
	return "ok"
}
