// Harness for C09 — realm storage usage and deposits are accounted exactly.
//
// REAL code under test: vm.VMKeeper.AddPackage / Call / Run with their
// processStorageDeposit (lock / refund), the per-realm size deltas produced by
// the GnoVM finalizer (SetObject / DelObject, sumDiff routing to the owning
// realm) and the per-realm chain/params byte accumulator — all driven through
// exported API over memdb (harness/c06env).  One op line = one message in its
// own transaction (committed iff it succeeded) or one governance price change
// between messages.
//
// op lines (realm names are paths without the "gno.land/r/" prefix)
//
//	init  <realm>=<S>/<D>/<B>;… c0=<bal> c1=<bal> price=<p> default=<d>
//	      state at the start of the case (S storage counter, D deposit, B coins at
//	      the storage-deposit address).  The generator MEASURES it; exec prints
//	      what it finds in the same format; the model adopts what the line says.
//	price <p>                                  set vm.storage_price (ugnot per byte)
//	call   <c> <maxdep> <realm> <fn> <args|-> <x> <deltas|->
//	deploy <c> <maxdep> <seed>               <x> <deltas|->
//	run    <c> <maxdep> <hex source>         <x> <deltas|->
//	      c        caller 0|1;  maxdep  MsgXxx.MaxDeposit in ugnot (0 = default)
//	      x        run|fail: whether the program itself succeeds (generator knowledge)
//	      deltas   <realm>=<bytes>;…  the byte change each realm's state WOULD undergo,
//	               measured by the generator on the raw store in a dry run with an
//	               unlimited deposit (Σ len(stored object values) + params bytes).
//	impl-output: ok|err:<class> then, for every realm named in deltas,
//	      <realm>=<S>/<D>/<B>, then c0=… c1=…
//
// The Lean model never sees sizes of objects: it replays processStorageDeposit
// on the measured deltas and must predict the keeper's counters, deposits,
// balances and failures.  The ORACLE is independent of both: after every op it
// re-derives each realm's bytes from the raw stores and evaluates the statement.
package main

import (
	"encoding/hex"
	"fmt"
	"os"
	"sort"
	"strconv"
	"strings"

	"gnoverif/c06env"
	"gnoverif/kit"
)

const rprefix = "gno.land/r/"

func ready() *c06env.Env {
	e := c06env.Get()
	for _, pb := range [][2]string{{c06env.PathA, c06env.BodyA}, {c06env.PathB, c06env.BodyB},
		{c06env.PathST, c06env.BodyST}, {c06env.PathSP, c06env.BodySP}} {
		if !e.DeployBase(pb[0], pb[1]) {
			panic("cannot deploy " + pb[0])
		}
	}
	return e
}

func progPath(seed uint64) string { return fmt.Sprintf("gno.land/r/c09/p%09d", seed) }

// ---------------------------------------------------------------- observation

type view struct {
	accts map[string]c06env.RealmAcct // by short name
	bal   [2]int64
	price int64
	deflt int64
}

func coinAmount(s string) int64 {
	n, _ := strconv.ParseInt(strings.TrimSuffix(s, "ugnot"), 10, 64)
	return n
}

func observe(e *c06env.Env) *view {
	v := &view{accts: map[string]c06env.RealmAcct{}}
	for _, a := range e.Accounts(e.Snapshot()) {
		v.accts[strings.TrimPrefix(a.Path, rprefix)] = a
	}
	v.bal = [2]int64{e.Balance(e.Callers[0]), e.Balance(e.Callers[1])}
	p := e.Params()
	v.price, v.deflt = coinAmount(p.StoragePrice), coinAmount(p.DefaultDeposit)
	return v
}

func (v *view) names() []string {
	var ns []string
	for n := range v.accts {
		ns = append(ns, n)
	}
	sort.Strings(ns)
	return ns
}

func (v *view) realm(n string) string {
	a := v.accts[n]
	return fmt.Sprintf("%s=%d/%d/%d", n, a.Storage, a.Deposit, a.Backing)
}

func (v *view) callers() string { return fmt.Sprintf("c0=%d c1=%d", v.bal[0], v.bal[1]) }

func (v *view) initLine() string {
	var rs []string
	for _, n := range v.names() {
		rs = append(rs, v.realm(n))
	}
	return fmt.Sprintf("%s %s price=%d default=%d", strings.Join(rs, ";"), v.callers(), v.price, v.deflt)
}

// raw bytes of a realm's state: Σ object value lengths + params bytes
func (v *view) raw(n string) int64 { return v.accts[n].ObjBytes + v.accts[n].ParamBytes }

// ---------------------------------------------------------------- messages

type message struct {
	kind   string // call | deploy | run
	caller int
	maxDep int64
	realm  string // call: short realm name
	fn     string
	args   []string
	seed   uint64 // deploy
	broken bool   // deploy: append a function that does not type-check
	src    string // run
}

func send(e *c06env.Env, m *message) error {
	c := e.Callers[m.caller]
	switch m.kind {
	case "call":
		_, err := e.Call(c, rprefix+m.realm, m.fn, m.args, m.maxDep)
		return err
	case "deploy":
		path := progPath(m.seed)
		body := c06env.GenProgram(m.seed, c06env.LastElem(path))
		if m.broken {
			body += "\nfunc broken() { undefinedIdentifier() }\n"
		}
		return e.AddPackage(c, path, body, m.maxDep)
	case "run":
		_, err := e.Run(c, m.src, m.maxDep)
		return err
	}
	panic("bad message kind")
}

func classify(err error) string {
	if err == nil {
		return "ok"
	}
	msg := err.Error()
	switch {
	case strings.Contains(msg, "not enough deposit to cover the storage usage"):
		return "err:deposit"
	case strings.Contains(msg, "multiplication overflow"):
		return "err:overflow"
	case strings.Contains(msg, "unable to return deposit"), strings.Contains(msg, "not enough storage to be released"),
		strings.Contains(msg, "not enough deposit to be unlocked"):
		return "err:refund"
	case strings.Contains(msg, "lockStorageDeposit failed"):
		return "err:funds"
	}
	return "err:exec"
}

func parseMessage(toks []string) (m *message, x string, deltas string, ok bool) {
	bad := func() (*message, string, string, bool) { return nil, "", "", false }
	if len(toks) < 3 {
		return bad()
	}
	m = &message{kind: toks[0]}
	if toks[1] != "0" && toks[1] != "1" {
		return bad()
	}
	m.caller = int(toks[1][0] - '0')
	md, err := strconv.ParseInt(toks[2], 10, 64)
	if err != nil || md < 0 || len(toks[2]) > 18 || strings.Trim(toks[2], "0123456789") != "" {
		return bad()
	}
	m.maxDep = md
	rest := toks[3:]
	switch m.kind {
	case "call":
		if len(rest) != 5 {
			return bad()
		}
		m.realm, m.fn = rest[0], rest[1]
		if rest[2] != "-" {
			m.args = strings.Split(rest[2], ",")
		}
		rest = rest[3:]
	case "deploy":
		if len(rest) != 3 || len(rest[0]) == 0 || len(rest[0]) > 9 || strings.Trim(rest[0], "0123456789") != "" {
			return bad()
		}
		m.seed, _ = strconv.ParseUint(rest[0], 10, 64)
		rest = rest[1:]
	case "run":
		if len(rest) != 3 {
			return bad()
		}
		b, err := hex.DecodeString(rest[0])
		if err != nil {
			return bad()
		}
		m.src = string(b)
		rest = rest[1:]
	default:
		return bad()
	}
	if rest[0] != "run" && rest[0] != "fail" {
		return bad()
	}
	if m.kind == "deploy" && rest[0] == "fail" {
		m.broken = true
	}
	return m, rest[0], rest[1], true
}

// deltaNames extracts the realm names of a deltas token ("-" = none).
func deltaNames(d string) ([]string, bool) {
	if d == "-" {
		return nil, true
	}
	var ns []string
	for _, kv := range strings.Split(d, ";") {
		k, v, ok := strings.Cut(kv, "=")
		if !ok || k == "" || v == "" {
			return nil, false
		}
		if _, err := strconv.ParseInt(v, 10, 64); err != nil {
			return nil, false
		}
		ns = append(ns, k)
	}
	return ns, true
}

func exec(toks []string) (string, string) {
	if len(toks) == 0 {
		return "err:badop", "-"
	}
	switch toks[0] {
	case "init":
		if len(toks) != 6 || !strings.HasPrefix(toks[2], "c0=") || !strings.HasPrefix(toks[3], "c1=") ||
			!strings.HasPrefix(toks[4], "price=") || !strings.HasPrefix(toks[5], "default=") {
			return "err:badop", "-"
		}
		e := ready()
		v := observe(e)
		return v.initLine(), oracleState(v)
	case "price":
		if len(toks) != 2 || len(toks[1]) == 0 || len(toks[1]) > 18 || strings.Trim(toks[1], "0123456789") != "" {
			return "err:badop", "-"
		}
		e := ready()
		p, _ := strconv.ParseInt(toks[1], 10, 64)
		if err := e.SetStoragePrice(p); err != nil {
			return "err:param", oracleState(observe(e))
		}
		return "ok", oracleState(observe(e))
	case "call", "deploy", "run":
		m, _, deltas, ok := parseMessage(toks)
		if !ok {
			return "err:badop", "-"
		}
		names, ok := deltaNames(deltas)
		if !ok {
			return "err:badop", "-"
		}
		e := ready()
		before := observe(e)
		err := send(e, m)
		after := observe(e)
		if err != nil && c06env.Trace() {
			fmt.Fprintf(os.Stderr, "  msg err: %.400s\n", err.Error())
		}
		out := []string{classify(err)}
		for _, n := range names {
			out = append(out, after.realm(n))
		}
		out = append(out, after.callers())
		return strings.Join(out, " "), oracleMsg(m, err == nil, before, after)
	}
	return "err:badop", "-"
}

func reset() { c06env.Get().NewCase() }

func main() {
	kit.Main(&kit.Harness{Gen: gen, Reset: reset, Exec: exec})
}
