package main

import (
	"encoding/hex"
	"fmt"
	"sort"
	"strings"

	"gnoverif/c06env"
	"gnoverif/kit"
)

// The generator EXECUTES what it generates (in-process, same environment as
// exec) in order to measure, for every message, the byte deltas each realm's
// stored state would undergo; see the header of main.go.

type limitMode int

const (
	limDefault  limitMode = iota // MaxDeposit 0: the chain's default deposit applies
	limHuge                      // far more than needed
	limExact                     // exactly what the growth costs at the current price
	limShort                     // one ugnot less than that
	limTiny                      // 1 ugnot
	limFirstOnly                 // exactly the cost of the first growing realm (path order)
)

type plan struct {
	price int64 // >= 0: a price change (no message)
	m     *message
	lim   limitMode
}

func pPrice(p int64) plan { return plan{price: p} }
func pCall(c int, lim limitMode, realm, fn string, args ...string) plan {
	return plan{price: -1, lim: lim, m: &message{kind: "call", caller: c, realm: realm, fn: fn, args: args}}
}
func pDeploy(c int, lim limitMode, seed uint64, broken bool) plan {
	return plan{price: -1, lim: lim, m: &message{kind: "deploy", caller: c, seed: seed, broken: broken}}
}
func pRun(c int, lim limitMode, body string) plan {
	src := "package main\n\nimport (\n\t\"gno.land/r/c06/ha\"\n\t\"gno.land/r/c06/hb\"\n\t\"gno.land/r/c06/st\"\n)\n\nvar _ = ha.Exec\nvar _ = hb.Exec\nvar _ = st.Blob\n\nfunc main(cur realm) {\n" + body + "}\n"
	return plan{price: -1, lim: lim, m: &message{kind: "run", caller: c, src: src}}
}

const (
	rA  = "c06/ha"
	rB  = "c06/hb"
	rST = "c06/st"
	rSP = "sys/params"
)

func itoa(n int) string { return fmt.Sprint(n) }

var boundary = [][]plan{
	// grow, shrink (partial refund), free
	{pCall(0, limDefault, rST, "Blob", "k", "1000"), pCall(0, limDefault, rST, "Blob", "k", "10"), pCall(0, limDefault, rST, "Blob", "k", "-1")},
	// price change between growth and release: refunds follow the deposit ratio, not the price
	{pCall(0, limDefault, rST, "Blob", "k", "3000"), pPrice(250), pCall(0, limDefault, rST, "Blob", "j", "2000"),
		pCall(1, limDefault, rST, "Blob", "k", "0"), pPrice(7), pCall(1, limDefault, rST, "Blob", "j", "-1"), pCall(0, limDefault, rST, "Clear")},
	{pPrice(1), pCall(0, limDefault, rST, "Push", "20", "50"), pPrice(1000), pCall(1, limDefault, rST, "Pop", "7"), pCall(1, limDefault, rST, "Pop", "100")},
	// deposit limits
	{pCall(0, limTiny, rST, "Blob", "k", "500"), pCall(0, limShort, rST, "Blob", "k", "500"), pCall(0, limExact, rST, "Blob", "k", "500"), pCall(0, limHuge, rST, "Blob", "q", "5")},
	// cross-realm write charging the owning realm; limit covering only the first realm
	{pCall(0, limDefault, rB, "Exec", "N0_P00"), pCall(0, limFirstOnly, rB, "Exec", "N0_P10"), pCall(1, limDefault, rB, "Exec", "Z0_P00")},
	{pCall(0, limDefault, rA, "Exec", "N0_N1_l01P00"), pCall(1, limDefault, rB, "Exec", "X00P00"), pCall(0, limDefault, rA, "Exec", "Z0_P00"), pCall(1, limDefault, rB, "Exec", "Z0_P00")},
	// chain/params bytes
	{pCall(0, limDefault, rST, "Param", "k", "100"), pCall(0, limTiny, rST, "Param", "k2", "40"), pCall(0, limDefault, rST, "Param", "k", "10"), pCall(1, limDefault, rST, "Param", "k", "-1")},
	// the price changes in the middle of a message that also grows state
	{pCall(0, limDefault, rSP, "SetPrice", "300ugnot", "700"), pCall(0, limDefault, rSP, "SetPrice", "50ugnot", "900"), pCall(0, limDefault, rSP, "SetPrice", "50ugnot", "0")},
	// deployments
	{pDeploy(0, limDefault, 11, false), pDeploy(1, limTiny, 12, false), pDeploy(1, limDefault, 13, true), pCall(1, limDefault, "c09/p000000011", "T0")},
	// one script touching several realms
	{pRun(0, limDefault, "\tst.Blob(cross(cur), \"r\", 300)\n\tha.Exec(cross(cur), \"N0_P00\")\n"),
		pRun(1, limFirstOnly, "\tst.Blob(cross(cur), \"s\", 300)\n\tha.Exec(cross(cur), \"N0_P10\")\n"),
		pRun(1, limDefault, "\tst.Blob(cross(cur), \"r\", -1)\n\tha.Exec(cross(cur), \"N0_P20\")\n")},
	// arithmetic extremes
	{pPrice(100000000000000000), pCall(0, limDefault, rST, "Blob", "k", "1000"), pPrice(0), pCall(0, limDefault, rST, "Blob", "k", "1000")},
	{pPrice(3), pCall(0, limDefault, rST, "Blob", "k", "1000"), pCall(0, limDefault, rST, "Blob", "k", "999"), pCall(0, limDefault, rST, "Blob", "k", "1"), pCall(0, limDefault, rST, "Blob", "k", "-1")},
	// a failing program
	{pCall(0, limDefault, rA, "Exec", "L10"), pCall(0, limDefault, rST, "Nope")},
}

func randPlan(r *kit.Rand, deployed *[]uint64) plan {
	lim := kit.Pick(r, []limitMode{limDefault, limDefault, limDefault, limHuge, limExact, limShort, limTiny, limFirstOnly})
	c := r.Intn(2)
	key := kit.Pick(r, []string{"k", "j", "m"})
	switch r.Intn(14) {
	case 0:
		return pPrice(kit.Pick(r, []int64{1, 2, 3, 7, 50, 100, 100, 333, 1000, 12345}))
	case 1, 2:
		return pCall(c, lim, rST, "Blob", key, itoa(r.Intn(3000)))
	case 3:
		return pCall(c, lim, rST, "Blob", key, "-1")
	case 4:
		return pCall(c, lim, rST, "Push", itoa(1+r.Intn(6)), itoa(r.Intn(200)))
	case 5:
		return pCall(c, lim, rST, "Pop", itoa(1+r.Intn(6)))
	case 6:
		return pCall(c, lim, rST, "Param", key, itoa(r.Intn(400)-20))
	case 7:
		return pCall(c, lim, rSP, "SetPrice", fmt.Sprintf("%dugnot", kit.Pick(r, []int64{1, 9, 100, 640})), itoa(r.Intn(1500)))
	case 8:
		return pCall(c, lim, rA, "Exec", kit.Pick(r, []string{"N0_P00", "N0_N1_l01P10", "Z0_P00", "Z0_P10", "G00P20", "N0_G01l10P00", "G00V0_"}))
	case 9:
		return pCall(c, lim, rB, "Exec", kit.Pick(r, []string{"N0_P00", "Z0_P00", "X00P10", "N0_Y00", "Z0_Y00", "N0_N1_l01P20", "Z0_P20"}))
	case 10:
		seed := uint64(r.Intn(1000000))
		for _, d := range *deployed {
			if d == seed {
				seed++
			}
		}
		*deployed = append(*deployed, seed)
		return pDeploy(c, lim, seed, r.Chance(10))
	case 11:
		if len(*deployed) > 0 {
			return pCall(c, lim, strings.TrimPrefix(progPath((*deployed)[r.Intn(len(*deployed))]), rprefix), "T"+itoa(r.Intn(c06env.NFuncs)))
		}
		return pCall(c, lim, rST, "Clear")
	case 12:
		return pRun(c, lim, fmt.Sprintf("\tst.Blob(cross(cur), %q, %d)\n\tha.Exec(cross(cur), %q)\n\thb.Exec(cross(cur), %q)\n", key, r.Intn(800),
			kit.Pick(r, []string{"N0_P00", "Z0_P00", "N0_P30"}), kit.Pick(r, []string{"N0_P00", "Z0_P00", "X00P10"})))
	default:
		return pCall(c, lim, rST, "Clear")
	}
}

const dryLimit = int64(800_000_000_000_000)

// measure dry-runs m with price 1 and an unlimited deposit on a scratch layer.
func measure(e *c06env.Env, m *message) (ok bool, deltas [][2]any) {
	restore := e.Fork()
	defer restore()
	if err := e.SetStoragePrice(1); err != nil {
		panic(err)
	}
	b := observe(e)
	mm := *m
	mm.maxDep = dryLimit
	err := send(e, &mm)
	a := observe(e)
	if err != nil {
		return false, nil
	}
	seen := map[string]bool{}
	var names []string
	for n := range a.accts {
		seen[n] = true
		names = append(names, n)
	}
	for n := range b.accts {
		if !seen[n] {
			names = append(names, n)
		}
	}
	sort.Strings(names)
	for _, n := range names {
		if d := a.raw(n) - b.raw(n); d != 0 {
			deltas = append(deltas, [2]any{n, d})
		}
	}
	return true, deltas
}

func emit(e *c06env.Env, w *kit.Out, p plan) {
	if p.price >= 0 {
		w.Op("price %d", p.price)
		e.SetStoragePrice(p.price) // may be refused; exec sees the same
		return
	}
	m := p.m
	ok, deltas := measure(e, m)
	price := observe(e).price
	var costs []int64
	var total int64
	for _, d := range deltas {
		if b := d[1].(int64); b > 0 {
			c := b * price
			if price != 0 && c/price != b {
				c = dryLimit // overflowing cost: any limit is "too small"
			}
			costs = append(costs, c)
			total += c
		}
	}
	switch p.lim {
	case limDefault:
		m.maxDep = 0
	case limHuge:
		m.maxDep = dryLimit
	case limExact:
		m.maxDep = total
	case limShort:
		m.maxDep = total - 1
	case limTiny:
		m.maxDep = 1
	case limFirstOnly:
		m.maxDep = total
		if len(costs) > 1 {
			m.maxDep = costs[0]
		}
	}
	if m.maxDep < 0 {
		m.maxDep = 0
	}
	x := "run"
	if !ok {
		x = "fail"
	}
	ds := "-"
	if len(deltas) > 0 {
		var parts []string
		for _, d := range deltas {
			parts = append(parts, fmt.Sprintf("%s=%d", d[0], d[1]))
		}
		ds = strings.Join(parts, ";")
	}
	switch m.kind {
	case "call":
		args := "-"
		if len(m.args) > 0 {
			args = strings.Join(m.args, ",")
		}
		w.Op("call %d %d %s %s %s %s %s", m.caller, m.maxDep, m.realm, m.fn, args, x, ds)
	case "deploy":
		w.Op("deploy %d %d %d %s %s", m.caller, m.maxDep, m.seed, x, ds)
	case "run":
		w.Op("run %d %d %s %s %s", m.caller, m.maxDep, hex.EncodeToString([]byte(m.src)), x, ds)
	}
	send(e, m) // advance the generator's own state exactly as exec will
}

func gen(w *kit.Out, r *kit.Rand, tier string) {
	nRand := 10
	if tier == "thorough" {
		nRand = 150
	}
	e := ready()
	start := func(id string) {
		e.NewCase()
		w.Case(id)
		w.Op("init %s", observe(e).initLine())
	}
	for i, c := range boundary {
		start(fmt.Sprintf("b%d", i))
		for _, p := range c {
			q := p
			if p.m != nil {
				mm := *p.m
				q.m = &mm
			}
			emit(e, w, q)
		}
	}
	rr := r.Fork()
	for i := 0; i < nRand; i++ {
		start(fmt.Sprintf("r%d", i))
		var deployed []uint64
		n := rr.Range(3, 12)
		for j := 0; j < n; j++ {
			emit(e, w, randPlan(rr, &deployed))
		}
	}
	// malformed stream
	w.Case("m0")
	w.Op("init")
	w.Op("price")
	w.Op("price x")
	w.Op("call 0 0 c06/st Blob k,10 run")
	w.Op("call 2 0 c06/st Blob k,10 run -")
	w.Op("call 0 -5 c06/st Blob k,10 run -")
	w.Op("call 0 0 c06/st Blob k,10 maybe -")
	w.Op("call 0 0 c06/st Blob k,10 run c06/st")
	w.Op("deploy 0 0 notanumber run -")
	w.Op("run 0 0 zz run -")
	w.Op("frob")
}
