// Harness for C43: MConnection (tm2/pkg/p2p/conn/connection.go) — multiplexed
// channels deliver each message exactly once, unmodified, in order per channel,
// whatever the transport chunking; malformed packets close the connection.
//
// Two REAL MConnections (A sends, B receives) are joined by an in-memory
// transport whose reads are split by a scripted pattern and whose A→B writes can
// be gated (to park A's sendRoutine at a known point); raw byte streams are fed
// to a single real MConnection.
//
// op lines
//
//	cfg <Ps> <Pr> <K> <S> <R>   Ps/Pr = MaxPacketMsgPayloadSize of A / B; K = read pattern of B's
//	                            transport (`-` or positive sizes, cycled); S = A's channels
//	                            `id.prio.sendQueueCap,…`; R = B's channels `id.recvMessageCap,…`
//	batch <msg>…                msg = `<ch>:<hex>` | `<ch>:#<len>.<seed>`; one goroutine per channel
//	                            calls A.Send in order; wait until everything accepted is delivered
//	                            (or B fails)
//	gbatch <primer> <msg>…      A.TrySend(primer); wait until A's sendRoutine is parked in the gated
//	                            transport Write (the primer is then completely packetised);
//	                            A.TrySend the rest; open the gate; A.FlushStop(); wait for B's EOF
//	raw <K> <hex>               a fresh B is fed <hex> (reads split by K; 0 = a zero-length read
//	                            `(0, nil)`), then EOF
//
// output (identical to the Lean driver's line)
//
//	cfg:    ok | panic:priority | err:badop
//	batch:  s=<Send results> st=<run|err:class> d=<ch>:<m>,<m>;<ch>:…   (deliveries of THIS op,
//	        per channel in delivery order; m = hex if ≤ 6 bytes else L<len>h<fnv32>)
//	raw:    st=err:<class> d=…
//
// oracle (independent of the model): a plain per-channel list of what was accepted vs. what arrived;
// for raw streams a protobuf (protowire) parse of the frames — canonical frames MUST be processed,
// definitely malformed ones MUST close the connection, everything delivered must be the
// concatenation of the payloads of a complete EOF-terminated packet run.
package main

import (
	"bytes"
	"errors"
	"fmt"
	"io"
	"net"
	"sort"
	"strconv"
	"strings"
	"sync"
	"time"

	"github.com/gnolang/gno/tm2/pkg/amino"
	"github.com/gnolang/gno/tm2/pkg/p2p/conn"
	"gnoverif/kit"
	"google.golang.org/protobuf/encoding/protowire"
)

// ---------------------------------------------------------------- in-memory transport

type addr struct{}

func (addr) Network() string { return "mem" }
func (addr) String() string  { return "mem" }

// pipe is one direction of the transport.
type pipe struct {
	mu      sync.Mutex
	cond    *sync.Cond
	buf     []byte
	closed  bool // no more writes; reads drain then EOF
	rclosed bool // reader went away: writes fail, reads fail
	pattern []int
	pi      int
	rem     int
	gated   bool
	parked  bool
}

func newPipe(pattern []int) *pipe {
	p := &pipe{pattern: pattern}
	p.cond = sync.NewCond(&p.mu)
	return p
}

func (p *pipe) write(b []byte) (int, error) {
	p.mu.Lock()
	defer p.mu.Unlock()
	for p.gated && !p.closed && !p.rclosed {
		if !p.parked {
			p.parked = true
			p.cond.Broadcast()
		}
		p.cond.Wait()
	}
	p.parked = false
	if p.closed || p.rclosed {
		return 0, io.ErrClosedPipe
	}
	p.buf = append(p.buf, b...)
	p.cond.Broadcast()
	return len(b), nil
}

func (p *pipe) read(b []byte) (int, error) {
	p.mu.Lock()
	defer p.mu.Unlock()
	for len(p.buf) == 0 && !p.closed && !p.rclosed {
		p.cond.Wait()
	}
	if p.rclosed {
		return 0, io.ErrClosedPipe
	}
	if len(p.buf) == 0 {
		return 0, io.EOF
	}
	k := len(p.buf)
	if len(p.pattern) > 0 {
		if p.rem == 0 {
			p.rem = p.pattern[p.pi%len(p.pattern)]
			p.pi++
		}
		if p.rem < k {
			k = p.rem
		}
	}
	if len(b) < k {
		k = len(b)
	}
	copy(b, p.buf[:k])
	p.buf = p.buf[k:]
	if len(p.pattern) > 0 {
		p.rem -= k
		if len(p.buf) == 0 {
			p.rem = 0
		}
	}
	return k, nil
}

func (p *pipe) closeWrite() {
	p.mu.Lock()
	p.closed = true
	p.cond.Broadcast()
	p.mu.Unlock()
}

func (p *pipe) closeRead() {
	p.mu.Lock()
	p.rclosed = true
	p.cond.Broadcast()
	p.mu.Unlock()
}

func (p *pipe) setGate(g bool) {
	p.mu.Lock()
	p.gated = g
	p.cond.Broadcast()
	p.mu.Unlock()
}

func (p *pipe) waitParked(d time.Duration) bool {
	deadline := time.Now().Add(d)
	p.mu.Lock()
	defer p.mu.Unlock()
	for !p.parked {
		if time.Now().After(deadline) {
			return false
		}
		p.mu.Unlock()
		time.Sleep(50 * time.Microsecond)
		p.mu.Lock()
	}
	return true
}

// end is one endpoint (net.Conn).
type end struct {
	r, w *pipe
	once sync.Once
}

func (e *end) Read(b []byte) (int, error)  { return e.r.read(b) }
func (e *end) Write(b []byte) (int, error) { return e.w.write(b) }
func (e *end) Close() error {
	e.once.Do(func() {
		e.w.closeWrite()
		e.r.closeRead()
	})
	return nil
}
func (e *end) LocalAddr() net.Addr                { return addr{} }
func (e *end) RemoteAddr() net.Addr               { return addr{} }
func (e *end) SetDeadline(t time.Time) error      { return nil }
func (e *end) SetReadDeadline(t time.Time) error  { return nil }
func (e *end) SetWriteDeadline(t time.Time) error { return nil }

// feed is the transport of raw mode: scripted reads, then EOF; writes are discarded.
type feed struct {
	mu      sync.Mutex
	data    []byte
	pattern []int
	pi      int
	rem     int
}

func (f *feed) Read(b []byte) (int, error) {
	f.mu.Lock()
	defer f.mu.Unlock()
	if len(f.data) == 0 {
		return 0, io.EOF
	}
	k := len(f.data)
	if hasPositive(f.pattern) {
		if f.rem == 0 {
			e := f.pattern[f.pi%len(f.pattern)]
			f.pi++
			if e == 0 {
				return 0, nil
			}
			f.rem = e
		}
		if f.rem < k {
			k = f.rem
		}
	}
	if len(b) < k {
		k = len(b)
	}
	copy(b, f.data[:k])
	f.data = f.data[k:]
	if hasPositive(f.pattern) {
		f.rem -= k
		if len(f.data) == 0 {
			f.rem = 0
		}
	}
	return k, nil
}
func (f *feed) Write(b []byte) (int, error)        { return len(b), nil }
func (f *feed) Close() error                       { return nil }
func (f *feed) LocalAddr() net.Addr                { return addr{} }
func (f *feed) RemoteAddr() net.Addr               { return addr{} }
func (f *feed) SetDeadline(t time.Time) error      { return nil }
func (f *feed) SetReadDeadline(t time.Time) error  { return nil }
func (f *feed) SetWriteDeadline(t time.Time) error { return nil }

func hasPositive(p []int) bool {
	for _, k := range p {
		if k > 0 {
			return true
		}
	}
	return false
}

// ---------------------------------------------------------------- configuration

type sdesc struct{ id, prio, qcap int }
type rdesc struct{ id, cap int }

type config struct {
	ps, pr int
	k      []int
	sd     []sdesc
	rd     []rdesc
}

func defaultConfig() config {
	return config{ps: 8, pr: 8, sd: []sdesc{{1, 1, 1}}, rd: []rdesc{{1, 64}}}
}

func mconfig(payload int) conn.MConnConfig {
	c := conn.DefaultMConnConfig()
	c.SendRate, c.RecvRate = 0, 0 // no flow limiting (flow.Monitor.Limit returns at once for rate < 1)
	c.FlushThrottle = 500 * time.Microsecond
	c.MaxPacketMsgPayloadSize = payload
	c.PingInterval = time.Hour
	c.PongTimeout = 30 * time.Minute
	return c
}

// ---------------------------------------------------------------- receiver bookkeeping

type sink struct {
	mu    sync.Mutex
	cond  *sync.Cond
	msgs  []delivery
	err   error
	isErr bool
}

type delivery struct {
	ch byte
	b  []byte
}

func newSink() *sink {
	s := &sink{}
	s.cond = sync.NewCond(&s.mu)
	return s
}

func (s *sink) onReceive(ch byte, b []byte) {
	cp := append([]byte{}, b...) // recvPacketMsg: "message bytes may change on next call"
	s.mu.Lock()
	s.msgs = append(s.msgs, delivery{ch, cp})
	s.cond.Broadcast()
	s.mu.Unlock()
}

func (s *sink) onError(e error) {
	s.mu.Lock()
	if !s.isErr {
		s.isErr, s.err = true, e
	}
	s.cond.Broadcast()
	s.mu.Unlock()
}

// wait until n deliveries or an error; false on timeout.
func (s *sink) wait(n int, needErr bool, d time.Duration) bool {
	deadline := time.Now().Add(d)
	done := make(chan struct{})
	go func() {
		select {
		case <-done:
		case <-time.After(d):
			s.mu.Lock()
			s.cond.Broadcast()
			s.mu.Unlock()
		}
	}()
	defer close(done)
	s.mu.Lock()
	defer s.mu.Unlock()
	for {
		if s.isErr || (!needErr && len(s.msgs) >= n) {
			return true
		}
		if time.Now().After(deadline) {
			return false
		}
		s.cond.Wait()
	}
}

func errClass(e error) string {
	switch {
	case e == nil:
		return "run"
	case errors.Is(e, io.EOF):
		return "err:eof"
	case errors.Is(e, io.ErrUnexpectedEOF):
		return "err:ueof"
	case strings.Contains(e.Error(), "recovered from panic"):
		return "err:panic"
	case strings.Contains(e.Error(), "unknown channel"):
		return "err:unknown-channel"
	case strings.Contains(e.Error(), "exceeds available capacity"):
		return "err:over-capacity"
	default:
		return "err:malformed"
	}
}

// ---------------------------------------------------------------- the pair

type pair struct {
	a, b   *conn.MConnection
	ab     *pipe // A→B
	sink   *sink
	aErr   *sink
	seen   int // deliveries already reported
	closed bool
	status string
}

type world struct {
	cfg      config
	cfgPanic bool
	p        *pair
	// oracle state for the pair: what B was configured with, whether the connection is over
	oClosed bool
}

var w *world

func sDescs(cfg config) []*conn.ChannelDescriptor {
	var ds []*conn.ChannelDescriptor
	for _, d := range cfg.sd {
		ds = append(ds, &conn.ChannelDescriptor{ID: byte(d.id), Priority: d.prio, SendQueueCapacity: d.qcap})
	}
	return ds
}

func rDescs(cfg config) []*conn.ChannelDescriptor {
	var ds []*conn.ChannelDescriptor
	for _, d := range cfg.rd {
		ds = append(ds, &conn.ChannelDescriptor{ID: byte(d.id), Priority: 1, RecvMessageCapacity: d.cap})
	}
	return ds
}

func (wd *world) ensurePair() *pair {
	if wd.p != nil {
		return wd.p
	}
	cfg := wd.cfg
	ab, ba := newPipe(cfg.k), newPipe(nil)
	ea := &end{r: ba, w: ab}
	eb := &end{r: ab, w: ba}
	p := &pair{ab: ab, sink: newSink(), aErr: newSink(), status: "run"}
	p.a = conn.NewMConnectionWithConfig(ea, sDescs(cfg), func(byte, []byte) {}, p.aErr.onError, mconfig(cfg.ps))
	p.b = conn.NewMConnectionWithConfig(eb, rDescs(cfg), p.sink.onReceive, p.sink.onError, mconfig(cfg.pr))
	if err := p.a.Start(); err != nil {
		panic(err)
	}
	if err := p.b.Start(); err != nil {
		panic(err)
	}
	wd.p = p
	return p
}

func (p *pair) stop() {
	p.ab.setGate(false)
	p.a.Stop()
	p.b.Stop()
}

func reset() {
	if w != nil && w.p != nil {
		w.p.stop()
	}
	w = &world{cfg: defaultConfig()}
}

// ---------------------------------------------------------------- parsing

func pNat(s string, max int) (int, bool) {
	if s == "" || len(s) > 9 {
		return 0, false
	}
	for _, c := range s {
		if c < '0' || c > '9' {
			return 0, false
		}
	}
	v, _ := strconv.Atoi(s)
	if v > max {
		return 0, false
	}
	return v, true
}

func pHex(s string) ([]byte, bool) {
	if s == "e" {
		return []byte{}, true
	}
	if s == "" || len(s)%2 != 0 {
		return nil, false
	}
	out := make([]byte, len(s)/2)
	for i := 0; i < len(s); i++ {
		c := s[i]
		var v byte
		switch {
		case '0' <= c && c <= '9':
			v = c - '0'
		case 'a' <= c && c <= 'f':
			v = c - 'a' + 10
		default:
			return nil, false
		}
		if i%2 == 0 {
			out[i/2] = v << 4
		} else {
			out[i/2] |= v
		}
	}
	return out, true
}

func patMsg(n, seed int) []byte {
	b := make([]byte, n)
	for i := range b {
		b[i] = byte((seed + 131*i + i/256) % 256)
	}
	return b
}

type msg struct {
	ch byte
	b  []byte
}

func pMsg(s string) (msg, bool) {
	parts := strings.Split(s, ":")
	if len(parts) != 2 {
		return msg{}, false
	}
	ch, ok := pNat(parts[0], 255)
	if !ok {
		return msg{}, false
	}
	if strings.HasPrefix(parts[1], "#") {
		ls := strings.Split(parts[1][1:], ".")
		if len(ls) != 2 {
			return msg{}, false
		}
		n, ok1 := pNat(ls[0], 70000)
		sd, ok2 := pNat(ls[1], 255)
		if !ok1 || !ok2 {
			return msg{}, false
		}
		return msg{byte(ch), patMsg(n, sd)}, true
	}
	b, ok := pHex(parts[1])
	if !ok {
		return msg{}, false
	}
	return msg{byte(ch), b}, true
}

func pMsgs(toks []string) ([]msg, bool) {
	var ms []msg
	for _, t := range toks {
		m, ok := pMsg(t)
		if !ok {
			return nil, false
		}
		ms = append(ms, m)
	}
	return ms, true
}

func pPattern(s string, allowZero bool) ([]int, bool) {
	if s == "-" {
		return nil, true
	}
	var out []int
	for _, t := range strings.Split(s, ",") {
		k, ok := pNat(t, 100000)
		if !ok || (k == 0 && !allowZero) {
			return nil, false
		}
		out = append(out, k)
	}
	return out, true
}

func distinct(ids []int) bool {
	seen := map[int]bool{}
	for _, i := range ids {
		if seen[i] {
			return false
		}
		seen[i] = true
	}
	return true
}

func pCfg(t []string) (config, bool) {
	var c config
	var ok bool
	if c.ps, ok = pNat(t[0], 4096); !ok || c.ps == 0 {
		return c, false
	}
	if c.pr, ok = pNat(t[1], 4096); !ok || c.pr == 0 {
		return c, false
	}
	if c.k, ok = pPattern(t[2], false); !ok {
		return c, false
	}
	var sids, rids []int
	for _, s := range strings.Split(t[3], ",") {
		f := strings.Split(s, ".")
		if len(f) != 3 {
			return c, false
		}
		id, ok1 := pNat(f[0], 255)
		pr, ok2 := pNat(f[1], 1000000)
		q, ok3 := pNat(f[2], 64)
		if !ok1 || !ok2 || !ok3 {
			return c, false
		}
		c.sd = append(c.sd, sdesc{id, pr, q})
		sids = append(sids, id)
	}
	for _, s := range strings.Split(t[4], ",") {
		f := strings.Split(s, ".")
		if len(f) != 2 {
			return c, false
		}
		id, ok1 := pNat(f[0], 255)
		cp, ok2 := pNat(f[1], 100000000)
		if !ok1 || !ok2 {
			return c, false
		}
		c.rd = append(c.rd, rdesc{id, cp})
		rids = append(rids, id)
	}
	if !distinct(sids) || !distinct(rids) {
		return c, false
	}
	return c, true
}

// ---------------------------------------------------------------- rendering

func fnv32(b []byte) uint32 {
	h := uint32(2166136261)
	for _, c := range b {
		h = (h ^ uint32(c)) * 16777619
	}
	return h
}

func msgStr(b []byte) string {
	if len(b) <= 6 {
		return kit.Hex(append([]byte{}, b...))
	}
	return fmt.Sprintf("L%dh%08x", len(b), fnv32(b))
}

func delivStr(ds []delivery) string {
	per := map[byte][]string{}
	var ids []int
	for _, d := range ds {
		if _, ok := per[d.ch]; !ok {
			ids = append(ids, int(d.ch))
		}
		per[d.ch] = append(per[d.ch], msgStr(d.b))
	}
	if len(ids) == 0 {
		return "-"
	}
	sort.Ints(ids)
	var parts []string
	for _, id := range ids {
		parts = append(parts, fmt.Sprintf("%d:%s", id, strings.Join(per[byte(id)], ",")))
	}
	return strings.Join(parts, ";")
}

func bitsStr(bs []bool) string {
	var sb strings.Builder
	for _, b := range bs {
		if b {
			sb.WriteByte('1')
		} else {
			sb.WriteByte('0')
		}
	}
	return sb.String()
}

// ---------------------------------------------------------------- oracle (pair mode)

func (c config) rcap(ch byte) (int, bool) {
	for _, d := range c.rd {
		if d.id == int(ch) {
			if d.cap == 0 {
				return 22020096, true // defaultRecvMessageCapacity
			}
			return d.cap, true
		}
	}
	return 0, false
}

func perChannel(ms []msg) map[byte][][]byte {
	out := map[byte][][]byte{}
	for _, m := range ms {
		out[m.ch] = append(out[m.ch], m.b)
	}
	return out
}

func withoutEmpty(l [][]byte) [][]byte {
	var out [][]byte
	for _, b := range l {
		if len(b) > 0 {
			out = append(out, b)
		}
	}
	return out
}

func eqLists(a, b [][]byte) bool {
	if len(a) != len(b) {
		return false
	}
	for i := range a {
		if !bytes.Equal(a[i], b[i]) {
			return false
		}
	}
	return true
}

func isPrefix(a, b [][]byte) bool { // a prefix of b
	return len(a) <= len(b) && eqLists(a, b[:len(a)])
}

// pairOracle judges one batch: accepted = messages whose Send/TrySend returned true, in op order.
func pairOracle(cfg config, wasClosed bool, accepted []msg, got []delivery, status string, endsWithEOF bool) string {
	gotPer := map[byte][][]byte{}
	for _, d := range got {
		gotPer[d.ch] = append(gotPer[d.ch], d.b)
	}
	if wasClosed {
		if len(got) > 0 {
			return "VIOL:delivered-after-close " + delivStr(got)
		}
		return "ok"
	}
	accPer := perChannel(accepted)
	allDeliverable := true
	maxFrame := len(amino.MustMarshalAnySized(conn.PacketMsg{ChannelID: 1, EOF: 1, Bytes: make([]byte, cfg.pr)})) + 10
	for _, m := range accepted {
		cp, ok := cfg.rcap(m.ch)
		if !ok || len(m.b) > cp {
			allDeliverable = false
		}
		// A cuts at its own payload size; B refuses frames above ITS maxPacketMsgSize
		if cfg.ps > cfg.pr {
			for rest := m.b; ; rest = rest[cfg.ps:] {
				eof := byte(1)
				if len(rest) > cfg.ps {
					eof = 0
				}
				if len(amino.MustMarshalAnySized(conn.PacketMsg{ChannelID: m.ch, EOF: eof, Bytes: rest[:min(len(rest), cfg.ps)]})) > maxFrame {
					allDeliverable = false
				}
				if eof == 1 {
					break
				}
			}
		}
	}
	// everything delivered must have been sent, unmodified, in order, at most once
	for ch, g := range gotPer {
		if !isPrefix(g, accPer[ch]) {
			// an omission of EMPTY messages only?
			if isPrefix(withoutEmpty(g), withoutEmpty(accPer[ch])) && len(g) <= len(accPer[ch]) {
				continue
			}
			if len(g) > len(accPer[ch]) && isPrefix(accPer[ch], g) {
				return fmt.Sprintf("VIOL:duplicate-or-extra ch=%d", ch)
			}
			return fmt.Sprintf("VIOL:corrupt-or-reordered ch=%d", ch)
		}
	}
	if allDeliverable {
		want := "run"
		if endsWithEOF {
			want = "err:eof"
		}
		for ch, a := range accPer {
			g := gotPer[ch]
			if eqLists(g, a) {
				continue
			}
			if eqLists(withoutEmpty(g), withoutEmpty(a)) {
				return fmt.Sprintf("VIOL:empty-lost ch=%d sent=%d delivered=%d", ch, len(a), len(g))
			}
			return fmt.Sprintf("VIOL:lost ch=%d sent=%d delivered=%d", ch, len(a), len(g))
		}
		if status != want {
			return "VIOL:spurious-close " + status
		}
		return "ok"
	}
	// some message cannot be delivered (unknown channel / over capacity at B): the connection must
	// fail, and that message must not arrive, not even partially (prefix check above covers content)
	if status == "run" || status == "err:eof" {
		return "VIOL:undeliverable-accepted " + status
	}
	for ch, g := range gotPer {
		cp, ok := cfg.rcap(ch)
		for _, b := range g {
			if !ok || len(b) > cp {
				return fmt.Sprintf("VIOL:undeliverable-delivered ch=%d", ch)
			}
		}
	}
	return "ok"
}

// ---------------------------------------------------------------- oracle (raw mode)

type frameKind int

const (
	fCanon frameKind = iota // exactly what MarshalAnySized produces for the parsed packet
	fGray                   // valid protobuf for a known packet type, but not canonical
	fBad                    // not a valid encoding of any packet
)

type oframe struct {
	kind    frameKind
	isMsg   bool
	ch, eof uint64
	payload []byte
}

// parseValue: protobuf parse of a p2p.Msg value (conn.proto: 1 channel_id, 2 eof, 3 bytes).
func parseMsgValue(v []byte) (f oframe, ok bool) {
	f.isMsg = true
	for len(v) > 0 {
		num, typ, n := protowire.ConsumeTag(v)
		if n < 0 {
			return f, false
		}
		v = v[n:]
		switch {
		case num == 1 && typ == protowire.VarintType:
			x, n := protowire.ConsumeVarint(v)
			if n < 0 {
				return f, false
			}
			f.ch, v = x, v[n:]
		case num == 2 && typ == protowire.VarintType:
			x, n := protowire.ConsumeVarint(v)
			if n < 0 {
				return f, false
			}
			f.eof, v = x, v[n:]
		case num == 3 && typ == protowire.BytesType:
			x, n := protowire.ConsumeBytes(v)
			if n < 0 {
				return f, false
			}
			f.payload, v = append([]byte{}, x...), v[n:]
		default:
			return f, false // unknown field or wrong wire type
		}
	}
	if f.ch > 255 || f.eof > 255 {
		return f, false
	}
	return f, true
}

func parseBody(body []byte) oframe {
	var url, value []byte
	haveURL := false
	b := body
	for len(b) > 0 {
		num, typ, n := protowire.ConsumeTag(b)
		if n < 0 {
			return oframe{kind: fBad}
		}
		b = b[n:]
		if typ != protowire.BytesType || (num != 1 && num != 2) {
			return oframe{kind: fBad}
		}
		x, n := protowire.ConsumeBytes(b)
		if n < 0 {
			return oframe{kind: fBad}
		}
		b = b[n:]
		if num == 1 {
			url, haveURL = x, true
		} else {
			value = x
		}
	}
	if !haveURL {
		return oframe{kind: fBad}
	}
	for _, c := range url {
		if c < 32 || c > 126 {
			return oframe{kind: fBad}
		}
	}
	i := bytes.LastIndexByte(url, '/')
	if i < 0 {
		return oframe{kind: fBad}
	}
	var f oframe
	var pkt any
	switch string(url[i+1:]) {
	case "p2p.Ping":
		if len(value) != 0 {
			return oframe{kind: fBad}
		}
		pkt = conn.PacketPing{}
	case "p2p.Pong":
		if len(value) != 0 {
			return oframe{kind: fBad}
		}
		pkt = conn.PacketPong{}
	case "p2p.Msg":
		var ok bool
		f, ok = parseMsgValue(value)
		if !ok {
			return oframe{kind: fBad}
		}
		pkt = conn.PacketMsg{ChannelID: byte(f.ch), EOF: byte(f.eof), Bytes: f.payload}
	default:
		return oframe{kind: fBad}
	}
	f.kind = fGray
	canon := amino.MustMarshalAny(pkt)
	if bytes.Equal(canon, body) {
		f.kind = fCanon
	}
	return f
}

// rawOracle evaluates the statement on what a real receiver did with `stream`.
func rawOracle(cfg config, stream []byte, pattern []int, got []delivery, status string) string {
	maxFrame := len(amino.MustMarshalAnySized(conn.PacketMsg{ChannelID: 1, EOF: 1, Bytes: make([]byte, cfg.pr)})) + 10
	zeroReads := false
	if hasPositive(pattern) {
		for _, k := range pattern {
			if k == 0 {
				zeroReads = true
			}
		}
	}
	// expected deliveries: eMin = those every conforming receiver must make (canonical frames only),
	// eMax = those it may make (lenient parse); terminal = a frame after which nothing may be delivered.
	var eMin, eMax []delivery
	recving := map[byte][]byte{}
	canonSoFar := true
	terminal := ""
	truncated := false
	b := stream
	for len(b) > 0 && terminal == "" {
		l, n := protowire.ConsumeVarint(b)
		if n < 0 {
			if errors.Is(protowire.ParseError(n), io.ErrUnexpectedEOF) {
				truncated = true
			} else {
				terminal = "bad-length"
			}
			break
		}
		nonMinimal := n != protowire.SizeVarint(l)
		if l > uint64(maxFrame) || uint64(n)+l > uint64(maxFrame) {
			terminal = "oversize"
			break
		}
		if uint64(len(b)-n) < l {
			truncated = true
			break
		}
		body := b[n : n+int(l)]
		b = b[n+int(l):]
		f := parseBody(body)
		if f.kind == fBad {
			terminal = "malformed"
			break
		}
		if f.kind != fCanon || nonMinimal {
			canonSoFar = false
		}
		if !f.isMsg {
			continue
		}
		cp, ok := cfg.rcap(byte(f.ch))
		if !ok {
			terminal = "unknown-channel"
			break
		}
		if len(recving[byte(f.ch)])+len(f.payload) > cp {
			terminal = "over-capacity"
			break
		}
		recving[byte(f.ch)] = append(recving[byte(f.ch)], f.payload...)
		if f.eof == 1 {
			d := delivery{byte(f.ch), recving[byte(f.ch)]}
			recving[byte(f.ch)] = nil
			eMax = append(eMax, d)
			if canonSoFar {
				eMin = append(eMin, d)
			}
		}
	}
	gotPer, minPer, maxPer := map[byte][][]byte{}, map[byte][][]byte{}, map[byte][][]byte{}
	for _, d := range got {
		gotPer[d.ch] = append(gotPer[d.ch], d.b)
	}
	for _, d := range eMin {
		minPer[d.ch] = append(minPer[d.ch], d.b)
	}
	for _, d := range eMax {
		maxPer[d.ch] = append(maxPer[d.ch], d.b)
	}
	// did the receiver go on after the frame that had to close the connection?  Either it read the
	// whole stream (status eof), or it delivered more than what precedes that frame while agreeing
	// with everything that precedes it.
	beyond, inconsistent := false, false
	for ch, g := range gotPer {
		if !isPrefix(g, maxPer[ch]) {
			if isPrefix(maxPer[ch], g) {
				beyond = true
			} else {
				inconsistent = true
			}
		}
	}
	if inconsistent || (beyond && terminal == "") {
		for ch, g := range gotPer {
			if !isPrefix(g, maxPer[ch]) && !(terminal != "" && isPrefix(maxPer[ch], g)) {
				return fmt.Sprintf("VIOL:partial-or-corrupt-delivery ch=%d", ch)
			}
		}
	}
	if terminal != "" && (status == "err:eof" || beyond) {
		if terminal == "malformed" || terminal == "bad-length" || terminal == "oversize" {
			return "VIOL:malformed-accepted " + terminal
		}
		return "VIOL:undeliverable-accepted " + terminal
	}
	for ch, m := range minPer {
		if !isPrefix(m, gotPer[ch]) {
			if zeroReads {
				return fmt.Sprintf("VIOL:zero-read ch=%d delivered=%d of %d", ch, len(gotPer[ch]), len(m))
			}
			return fmt.Sprintf("VIOL:lost ch=%d delivered=%d of %d", ch, len(gotPer[ch]), len(m))
		}
	}
	if canonSoFar && terminal == "" && !truncated && status != "err:eof" {
		if zeroReads {
			return "VIOL:zero-read " + status
		}
		return "VIOL:spurious-close " + status
	}
	_ = truncated
	return "ok"
}

// ---------------------------------------------------------------- exec

const waitLimit = 20 * time.Second

func packetsOf(n, maxP int) int { return n/maxP + 1 }

func exec(t []string) (string, string) {
	bad := "err:badop"
	if len(t) == 0 {
		return bad, "-"
	}
	switch t[0] {
	case "cfg":
		if len(t) != 6 {
			return bad, "-"
		}
		c, ok := pCfg(t[1:])
		if !ok {
			return bad, "-"
		}
		for _, d := range c.sd {
			if d.prio == 0 {
				// newChannel panics: "Channel default priority must be a positive integer"
				func() {
					defer func() { recover() }()
					conn.NewMConnectionWithConfig(&feed{}, sDescs(c), nil, nil, mconfig(c.ps))
					panic("NOPANIC")
				}()
				return "panic:priority", "-"
			}
		}
		if w.p != nil {
			w.p.stop()
		}
		w = &world{cfg: c}
		return "ok", "-"
	case "batch":
		ms, ok := pMsgs(t[1:])
		if !ok || len(ms) == 0 || len(ms) > 10 {
			return bad, "-"
		}
		return doBatch(ms)
	case "gbatch":
		if len(t) < 2 {
			return bad, "-"
		}
		ms, ok := pMsgs(t[1:])
		if !ok || len(ms) > 10 {
			return bad, "-"
		}
		return doGBatch(ms)
	case "raw":
		if len(t) != 3 {
			return bad, "-"
		}
		pat, ok1 := pPattern(t[1], true)
		bs, ok2 := pHex(t[2])
		if !ok1 || !ok2 {
			return bad, "-"
		}
		return doRaw(pat, bs)
	}
	return bad, "-"
}

func doBatch(ms []msg) (string, string) {
	p := w.ensurePair()
	bits := make([]bool, len(ms))
	if p.closed {
		return fmt.Sprintf("s=%s st=%s d=-", bitsStr(bits), p.status), pairOracle(w.cfg, true, nil, nil, p.status, false)
	}
	// one goroutine per channel, Send in order
	var wg sync.WaitGroup
	byCh := map[byte][]int{}
	var order []byte
	for i, m := range ms {
		if _, ok := byCh[m.ch]; !ok {
			order = append(order, m.ch)
		}
		byCh[m.ch] = append(byCh[m.ch], i)
	}
	for _, ch := range order {
		idx := byCh[ch]
		wg.Add(1)
		go func() {
			defer wg.Done()
			for _, i := range idx {
				bits[i] = p.a.Send(ms[i].ch, ms[i].b)
			}
		}()
	}
	wg.Wait()
	var accepted []msg
	for i, m := range ms {
		if bits[i] {
			accepted = append(accepted, m)
		}
	}
	okWait := p.sink.wait(p.seen+len(accepted), false, waitLimit)
	return p.finish(bits, accepted, okWait, false)
}

func (p *pair) finish(bits []bool, accepted []msg, okWait bool, eof bool) (string, string) {
	p.sink.mu.Lock()
	got := append([]delivery{}, p.sink.msgs[p.seen:]...)
	p.seen = len(p.sink.msgs)
	isErr, err := p.sink.isErr, p.sink.err
	p.sink.mu.Unlock()
	status := "run"
	if isErr {
		status = errClass(err)
		p.closed = true
		p.status = status
		// A notices (EOF on its reads / write error) and stops; wait so that later Sends are refused
		deadline := time.Now().Add(waitLimit)
		for p.a.IsRunning() && time.Now().Before(deadline) {
			time.Sleep(100 * time.Microsecond)
		}
	}
	if !okWait {
		status = "timeout"
	}
	out := fmt.Sprintf("s=%s st=%s d=%s", bitsStr(bits), status, delivStr(got))
	return out, pairOracle(w.cfg, false, accepted, got, status, eof)
}

func doGBatch(ms []msg) (string, string) {
	p := w.ensurePair()
	primer := ms[0]
	known := false
	for _, d := range w.cfg.sd {
		if d.id == int(primer.ch) {
			known = true
		}
	}
	if !known || len(primer.b) == 0 || packetsOf(len(primer.b), w.cfg.ps) > 9 {
		return "err:badop", "-"
	}
	bits := make([]bool, len(ms))
	if p.closed {
		return fmt.Sprintf("s=%s st=%s d=-", bitsStr(bits), p.status), pairOracle(w.cfg, true, nil, nil, p.status, true)
	}
	p.ab.setGate(true)
	bits[0] = p.a.TrySend(primer.ch, primer.b)
	if bits[0] && !p.ab.waitParked(waitLimit) {
		p.ab.setGate(false)
		return "timeout-park", "-"
	}
	for i := 1; i < len(ms); i++ {
		bits[i] = p.a.TrySend(ms[i].ch, ms[i].b)
	}
	p.ab.setGate(false)
	p.a.FlushStop()
	p.a.Stop() // FlushStop leaves the BaseService "running"
	var accepted []msg
	for i, m := range ms {
		if bits[i] {
			accepted = append(accepted, m)
		}
	}
	okWait := p.sink.wait(0, true, waitLimit)
	return p.finish(bits, accepted, okWait, true)
}

func doRaw(pat []int, bs []byte) (string, string) {
	s := newSink()
	f := &feed{data: append([]byte{}, bs...), pattern: pat}
	b := conn.NewMConnectionWithConfig(f, rDescs(w.cfg), s.onReceive, s.onError, mconfig(w.cfg.pr))
	if err := b.Start(); err != nil {
		panic(err)
	}
	okWait := s.wait(0, true, waitLimit)
	b.Stop()
	s.mu.Lock()
	got := append([]delivery{}, s.msgs...)
	err := s.err
	s.mu.Unlock()
	status := errClass(err)
	if !okWait {
		status = "timeout"
	}
	return fmt.Sprintf("st=%s d=%s", status, delivStr(got)), rawOracle(w.cfg, bs, pat, got, status)
}

func main() {
	kit.Main(&kit.Harness{Gen: generate, Reset: reset, Exec: exec})
}

// ---------------------------------------------------------------- generators

func uv(n uint64) []byte { return protowire.AppendVarint(nil, n) }

func cat(bs ...[]byte) []byte {
	var out []byte
	for _, b := range bs {
		out = append(out, b...)
	}
	return out
}

// hand-made frames (for the malformed stream)
func frameOf(body []byte) []byte { return cat(uv(uint64(len(body))), body) }
func anyOf(url string, value []byte, withValue bool) []byte {
	b := cat([]byte{0x0a}, uv(uint64(len(url))), []byte(url))
	if withValue {
		b = cat(b, []byte{0x12}, uv(uint64(len(value))), value)
	}
	return b
}
func msgValue(ch, eof uint64, payload []byte) []byte {
	var v []byte
	if ch != 0 {
		v = cat(v, []byte{0x08}, uv(ch))
	}
	if eof != 0 {
		v = cat(v, []byte{0x10}, uv(eof))
	}
	if len(payload) != 0 {
		v = cat(v, []byte{0x1a}, uv(uint64(len(payload))), payload)
	}
	return v
}
func msgFrame(ch, eof byte, payload []byte) []byte {
	return amino.MustMarshalAnySized(conn.PacketMsg{ChannelID: ch, EOF: eof, Bytes: payload})
}

func hexs(b []byte) string { return kit.Hex(append([]byte{}, b...)) }

func msgTok(ch int, b []byte) string {
	if len(b) > 24 {
		panic("use pat")
	}
	return fmt.Sprintf("%d:%s", ch, hexs(b))
}
func patTok(ch, n, seed int) string { return fmt.Sprintf("%d:#%d.%d", ch, n, seed%256) }

var caseNo int

func newCase(o *kit.Out, tag string) {
	caseNo++
	o.Case(fmt.Sprintf("%s-%d", tag, caseNo))
}

func boundary(o *kit.Out) {
	// A. every size around the packet boundaries, one channel, several read patterns
	for _, P := range []int{1, 2, 3, 8} {
		for _, K := range []string{"-", "1", "3,1,7"} {
			newCase(o, "sizes")
			cp := 4*P + 1
			o.Op("cfg %d %d %s 1.1.1 1.%d", P, P, K, cp)
			for n := 0; n <= cp; n += 1 {
				o.Op("batch %s", patTok(1, n, n*7+P))
			}
			o.Op("batch %s %s %s", patTok(1, cp, 1), patTok(1, 0, 0), patTok(1, P, 2))
			o.Op("batch %s", patTok(1, cp+1, 3)) // over capacity: error, nothing delivered
			o.Op("batch %s", patTok(1, 1, 4))    // connection is gone
		}
	}
	newCase(o, "sizes1024")
	o.Op("cfg 1024 1024 1000,24,1,1023,1025 1.1.1 1.4096")
	for _, n := range []int{1, 1023, 1024, 1025, 2047, 2048, 2049, 3072, 4095, 4096} {
		o.Op("batch %s", patTok(1, n, n))
	}
	o.Op("batch %s %s %s", patTok(1, 1024, 1), patTok(1, 2048, 2), patTok(1, 1, 3))
	o.Op("batch %s", patTok(1, 4097, 9))
	// B. several channels, priorities, ids 0 and >= 128, queue capacities
	newCase(o, "mix")
	o.Op("cfg 8 8 5,1,9 1.1.1,2.2.2,3.8.1,200.4.3,0.1.1 1.100,2.100,3.100,200.100,0.100")
	o.Op("batch %s %s %s %s %s", patTok(1, 20, 1), patTok(2, 33, 2), patTok(3, 8, 3), patTok(200, 17, 4), patTok(0, 9, 5))
	o.Op("batch %s %s %s %s %s %s %s %s", patTok(1, 100, 1), patTok(2, 1, 2), patTok(2, 2, 3), patTok(2, 16, 4), patTok(200, 100, 5), patTok(200, 99, 6), patTok(0, 24, 7), patTok(3, 7, 8))
	o.Op("batch %s %s %s", patTok(200, 0, 1), patTok(200, 8, 1), patTok(200, 0, 1)) // empties on ONE channel
	o.Op("batch %s", msgTok(9, []byte{0xaa}))                                       // unknown channel at the sender
	o.Op("batch %s %s", patTok(3, 50, 1), msgTok(77, []byte{1, 2}))
	// C. unknown channel at the receiver / over capacity at the receiver
	newCase(o, "unknown-recv")
	o.Op("cfg 8 8 - 1.1.1,5.1.1 1.100")
	o.Op("batch %s", patTok(1, 30, 1))
	o.Op("batch %s", msgTok(5, []byte{0xaa}))
	o.Op("batch %s", patTok(1, 3, 1))
	newCase(o, "overcap-recv")
	o.Op("cfg 4 4 2 1.1.1,2.1.1 1.10,2.5")
	o.Op("batch %s %s", patTok(1, 10, 1), patTok(2, 5, 2))
	o.Op("batch %s", patTok(2, 6, 2))
	o.Op("batch %s", patTok(1, 3, 1))
	// D. sender's packets larger than the receiver accepts
	newCase(o, "payload-mismatch")
	o.Op("cfg 64 8 - 1.1.1 1.1000")
	o.Op("batch %s", patTok(1, 12, 1))
	o.Op("batch %s", patTok(1, 40, 1))
	newCase(o, "payload-mismatch2")
	o.Op("cfg 3 64 7 1.1.1 1.1000")
	o.Op("batch %s %s", patTok(1, 12, 1), patTok(1, 400, 2))
	// E. default capacity
	newCase(o, "default-cap")
	o.Op("cfg 1024 1024 - 1.1.1 1.0")
	o.Op("batch %s %s", patTok(1, 3000, 1), patTok(1, 65536, 2))
	// F. gated schedules: deterministic contention between channels
	newCase(o, "gated-empty-lost")
	o.Op("cfg 8 8 - 1.1.1,2.1.1 1.100,2.100")
	o.Op("gbatch %s %s %s", patTok(1, 10, 1), patTok(1, 0, 0), patTok(2, 30, 2))
	newCase(o, "gated-empty-kept")
	o.Op("cfg 8 8 - 1.1.1,2.1.1 1.100,2.100")
	o.Op("gbatch %s %s %s", patTok(1, 10, 1), patTok(2, 0, 0), patTok(1, 20, 5))
	newCase(o, "gated-qcap")
	o.Op("cfg 8 8 3 1.1.1,2.4.2 1.100,2.100")
	o.Op("gbatch %s %s %s %s %s %s", patTok(1, 10, 1), msgTok(1, []byte{0xaa}), msgTok(1, []byte{0xbb}), patTok(2, 20, 1), patTok(2, 21, 2), patTok(2, 22, 3))
	o.Op("batch %s", patTok(1, 1, 1))
	newCase(o, "gated-empty-overwritten")
	o.Op("cfg 4 4 - 1.1.2,2.1.1 1.100,2.100")
	o.Op("gbatch %s %s %s %s", patTok(1, 9, 1), patTok(1, 0, 0), patTok(1, 5, 7), patTok(2, 30, 2))
	// G. raw streams
	newCase(o, "raw")
	o.Op("cfg 8 8 - 1.1.1 1.20,2.20")
	p := msgFrame(1, 1, []byte("abc"))
	q := msgFrame(1, 0, []byte("abc"))
	ping := amino.MustMarshalAnySized(conn.PacketPing{})
	pong := amino.MustMarshalAnySized(conn.PacketPong{})
	raws := []struct {
		k string
		b []byte
	}{
		{"-", nil},
		{"-", cat(p, p)},
		{"1", cat(p, ping, q, pong, p)},
		{"7,2", cat(q, msgFrame(2, 0, []byte("xy")), q, msgFrame(2, 1, []byte("z")), p)},
		{"22,0,5", cat(p, p)},                   // zero-length read between two frames
		{"0,5", cat(p)},                         // zero-length read first
		{"23,0,100", cat(msgFrame(1, 1, bytes.Repeat([]byte{7}, 8)), p)}, // zero-length read inside a body: harmless
		{"-", frameOf(anyOf("/p2p.Msg", cat(msgValue(1, 1, nil), []byte{0x1a}), true))},    // dangling field-3 key
		{"-", cat(q, frameOf(anyOf("/p2p.Msg", cat(msgValue(1, 1, nil), []byte{0x1a}), true)))},
		{"-", cat([]byte{0xff, 0xff, 0xff, 0xff, 0xff, 0xff, 0xff, 0xff, 0xff, 0x7f}, p)}, // overflowing length prefix
		{"-", cat([]byte{0xff, 0xff, 0xff, 0xff, 0xff, 0xff, 0xff, 0xff, 0xff, 0xff, 0x01}, p)},
		{"-", cat([]byte{0x00}, p)},
		{"-", cat(msgFrame(1, 2, []byte("ab")), p)}, // EOF=2 is "not the end"
		{"-", p[:5]},
		{"-", []byte{0x80}},
		{"-", []byte{0x05}},
		{"-", cat(p, p[:len(p)-1])},
		{"-", frameOf(anyOf("/p2p.Msg", nil, true))},               // explicit empty value = zero packet (channel 0 unknown)
		{"-", frameOf(anyOf("x/y/p2p.Msg", msgValue(1, 1, []byte("a")), true))},
		{"-", frameOf(anyOf("p2p.Msg", msgValue(1, 1, []byte("a")), true))},  // no slash
		{"-", frameOf(anyOf("/p2p.Nope", msgValue(1, 1, []byte("a")), true))},
		{"-", frameOf(anyOf("/p2p.Ping", []byte{0x08, 0x01}, true))},
		{"-", cat(msgFrame(1, 0, make([]byte, 8)), msgFrame(1, 0, make([]byte, 8)), msgFrame(1, 0, make([]byte, 8)))}, // over capacity
		{"-", cat(msgFrame(1, 0, make([]byte, 8)), msgFrame(1, 0, make([]byte, 8)), msgFrame(1, 1, make([]byte, 4)))}, // exactly capacity
		{"-", msgFrame(3, 1, []byte("x"))},          // unknown channel
		{"-", msgFrame(1, 1, make([]byte, 40))},     // frame larger than maxPacketMsgSize
		{"-", frameOf(anyOf("/p2p.Msg", cat([]byte{0x10, 0x01}, []byte{0x08, 0x01}), true))},             // fields out of order
		{"-", frameOf(anyOf("/p2p.Msg", cat([]byte{0x08, 0x01}, []byte{0x08, 0x01}, []byte{0x10, 0x01}), true))}, // duplicate field
		{"-", frameOf(anyOf("/p2p.Msg", cat(msgValue(1, 1, []byte("a")), []byte{0x20, 0x01}), true))},  // unknown field 4
		{"-", frameOf(anyOf("/p2p.Msg", []byte{0x0a, 0x01, 0x01, 0x10, 0x01}, true))},                    // wrong wire type for field 1
		{"-", frameOf(anyOf("/p2p.Msg", []byte{0x08, 0x80, 0x02, 0x10, 0x01}, true))},                    // channel 256
		{"-", frameOf(anyOf("/p2p.Msg", []byte{0x08, 0x81, 0x00, 0x10, 0x01, 0x1a, 0x81, 0x00, 0x61}, true))}, // overlong varints
		{"-", cat([]byte{0x95, 0x00}, p[1:])},                                                            // overlong length prefix
		{"-", frameOf(cat(anyOf("/p2p.Msg", msgValue(1, 1, []byte("a")), true), []byte{0x18, 0x01}))},  // trailing field in Any
		{"-", frameOf(cat([]byte{0x12, 0x02, 0x08, 0x01}, anyOf("/p2p.Msg", nil, false)))},              // Any fields swapped
	}
	for _, r := range raws {
		o.Op("raw %s %s", r.k, hexs(r.b))
	}
}

func sizeNear(r *kit.Rand, P, cp int) int {
	cands := []int{1, P - 1, P, P + 1, 2*P - 1, 2 * P, 2*P + 1, 3 * P, cp - 1, cp, r.Range(1, cp), r.Range(1, cp)}
	for {
		n := kit.Pick(r, cands)
		if n >= 1 && n <= cp {
			return n
		}
	}
}

func randPattern(r *kit.Rand) string {
	if r.Chance(30) {
		return "-"
	}
	n := r.Range(1, 4)
	var s []string
	for i := 0; i < n; i++ {
		s = append(s, strconv.Itoa(kit.Pick(r, []int{1, 1, 2, 3, 5, 8, 13, 64, 1000, 2000})))
	}
	return strings.Join(s, ",")
}

func randIDs(r *kit.Rand, n int) []int {
	seen := map[int]bool{}
	var ids []int
	for len(ids) < n {
		id := kit.Pick(r, []int{0, 1, 2, 3, 32, 48, 64, 127, 128, 200, 255, r.Intn(256)})
		if !seen[id] {
			seen[id] = true
			ids = append(ids, id)
		}
	}
	return ids
}

type genCfg struct {
	P   int
	ids []int
	cp  map[int]int
}

func randCfg(o *kit.Out, r *kit.Rand, gated bool) genCfg {
	P := kit.Pick(r, []int{1, 2, 3, 4, 5, 7, 8, 8, 16, 16, 64, 1024})
	nch := r.Range(1, 4)
	if gated {
		P = kit.Pick(r, []int{2, 4, 8, 16})
		nch = r.Range(2, 4)
	}
	ids := randIDs(r, nch)
	g := genCfg{P: P, ids: ids, cp: map[int]int{}}
	var sd, rd []string
	for _, id := range ids {
		cp := kit.Pick(r, []int{3*P + 1, 4 * P, 50, 100})
		if P == 1024 {
			cp = kit.Pick(r, []int{2048, 3000, 4097})
		}
		g.cp[id] = cp
		sd = append(sd, fmt.Sprintf("%d.%d.%d", id, kit.Pick(r, []int{1, 1, 2, 4, 8, 16}), kit.Pick(r, []int{0, 1, 1, 2, 3})))
		rd = append(rd, fmt.Sprintf("%d.%d", id, cp))
	}
	K := randPattern(r)
	if gated {
		K = "-"
	}
	o.Op("cfg %d %d %s %s %s", P, P, K, strings.Join(sd, ","), strings.Join(rd, ","))
	return g
}

func randomPairCase(o *kit.Out, r *kit.Rand) {
	newCase(o, "pair")
	g := randCfg(o, r, false)
	nb := r.Range(1, 5)
	for b := 0; b < nb; b++ {
		nm := r.Range(1, 8)
		single := r.Chance(30)
		ch0 := kit.Pick(r, g.ids)
		var toks []string
		for i := 0; i < nm; i++ {
			ch := ch0
			if !single {
				ch = kit.Pick(r, g.ids)
			}
			n := sizeNear(r, g.P, g.cp[ch])
			if single && r.Chance(15) {
				n = 0
			}
			toks = append(toks, patTok(ch, n, r.Intn(256)))
		}
		o.Op("batch %s", strings.Join(toks, " "))
	}
	switch r.Intn(10) {
	case 0: // over capacity
		ch := kit.Pick(r, g.ids)
		o.Op("batch %s", patTok(ch, g.cp[ch]+r.Range(1, 3), r.Intn(256)))
		o.Op("batch %s", patTok(ch, 1, 1))
	case 1: // unknown channel at the sender: refused, connection unaffected
		id := 0
		for ; ; id++ {
			if _, ok := g.cp[id]; !ok {
				break
			}
		}
		o.Op("batch %s", patTok(id, 3, 1))
		ch := kit.Pick(r, g.ids)
		o.Op("batch %s", patTok(ch, 2, 2))
	}
}

func randomGatedCase(o *kit.Out, r *kit.Rand) {
	newCase(o, "gated")
	g := randCfg(o, r, true)
	primer := kit.Pick(r, g.ids)
	toks := []string{patTok(primer, r.Range(1, min(8*g.P, g.cp[primer])), r.Intn(256))}
	nm := r.Range(1, 7)
	for i := 0; i < nm; i++ {
		ch := kit.Pick(r, g.ids)
		n := sizeNear(r, g.P, g.cp[ch])
		if r.Chance(30) {
			n = 0
		}
		toks = append(toks, patTok(ch, n, r.Intn(256)))
	}
	o.Op("gbatch %s", strings.Join(toks, " "))
}

// a valid stream of frames for the receiver channels 1,2,3 (cap 40), payload 8
func validStream(r *kit.Rand) (frames [][]byte) {
	nm := r.Range(1, 6)
	pending := map[int][][]byte{} // per channel: remaining frames, in order
	for i := 0; i < nm; i++ {
		ch := r.Range(1, 3)
		n := kit.Pick(r, []int{0, 1, 7, 8, 9, 16, 17, 24, 39, 40, r.Range(0, 40)})
		m := r.Bytes(n)
		for {
			k := min(8, len(m))
			if r.Chance(20) && k > 1 {
				k = r.Range(1, k) // a sender may cut anywhere below the payload limit
			}
			eof := byte(0)
			if k == len(m) {
				eof = 1
			}
			pending[ch] = append(pending[ch], msgFrame(byte(ch), eof, m[:k]))
			m = m[k:]
			if eof == 1 {
				break
			}
		}
	}
	for len(pending) > 0 {
		var chs []int
		for ch := range pending {
			chs = append(chs, ch)
		}
		sort.Ints(chs)
		ch := kit.Pick(r, chs)
		frames = append(frames, pending[ch][0])
		pending[ch] = pending[ch][1:]
		if len(pending[ch]) == 0 {
			delete(pending, ch)
		}
		if r.Chance(10) {
			if r.Bool() {
				frames = append(frames, amino.MustMarshalAnySized(conn.PacketPing{}))
			} else {
				frames = append(frames, amino.MustMarshalAnySized(conn.PacketPong{}))
			}
		}
	}
	return
}

func randRawPattern(r *kit.Rand, zeros bool) string {
	if r.Chance(30) && !zeros {
		return "-"
	}
	n := r.Range(1, 5)
	var s []string
	for i := 0; i < n; i++ {
		s = append(s, strconv.Itoa(kit.Pick(r, []int{1, 1, 2, 3, 5, 8, 13, 21, 30, 64})))
	}
	if zeros {
		s[r.Intn(len(s))] = "0"
		s = append(s, strconv.Itoa(r.Range(1, 40)))
	}
	return strings.Join(s, ",")
}

func mutate(r *kit.Rand, frames [][]byte) []byte {
	i := r.Intn(len(frames))
	f := append([]byte{}, frames[i]...)
	switch r.Intn(12) {
	case 0: // flip one bit
		j := r.Intn(len(f))
		f[j] ^= 1 << uint(r.Intn(8))
	case 1: // replace one byte
		f[r.Intn(len(f))] = byte(r.U64())
	case 2: // delete one byte
		j := r.Intn(len(f))
		f = append(f[:j], f[j+1:]...)
	case 3: // insert one byte
		j := r.Intn(len(f) + 1)
		f = append(f[:j], append([]byte{byte(r.U64())}, f[j:]...)...)
	case 4: // truncate the whole stream inside this frame
		frames = frames[:i+1]
		f = f[:r.Intn(len(f))]
	case 5: // dangling key appended to the value (lengths fixed up)
		ch := byte(r.Range(1, 3))
		f = frameOf(anyOf("/p2p.Msg", cat(msgValue(uint64(ch), uint64(r.Intn(2)), nil), []byte{0x1a}), true))
	case 6: // EOF byte other than 0/1
		f = msgFrame(byte(r.Range(1, 3)), byte(r.Range(2, 255)), r.Bytes(r.Intn(8)))
	case 7: // unknown channel
		f = msgFrame(byte(r.Range(4, 255)), 1, r.Bytes(r.Intn(8)))
	case 8: // type url variants
		url := kit.Pick(r, []string{"/p2p.Msg", "a/p2p.Msg", "//p2p.Msg", "p2p.Msg", "/p2p.msg", "/tm.Msg", "/p2p.Msg/", "/p2p.Ping", "/google.protobuf.Timestamp", "/\x01p2p.Msg", ""})
		f = frameOf(anyOf(url, msgValue(uint64(r.Range(1, 3)), 1, r.Bytes(r.Intn(6))), r.Chance(80)))
	case 9: // field order / duplicates / unknown fields / wire types
		parts := [][]byte{{0x08, byte(r.Range(1, 3))}, {0x10, 0x01}, cat([]byte{0x1a, 0x02}, r.Bytes(2)), {0x20, 0x01}, {0x0d, 1, 2, 3, 4}, {0x08, 0x80, 0x02}, {0x10, 0x81, 0x00}}
		var v []byte
		for k := r.Range(1, 4); k > 0; k-- {
			v = cat(v, kit.Pick(r, parts))
		}
		f = frameOf(anyOf("/p2p.Msg", v, true))
	case 10: // length prefix games
		body := f[protoVarintLen(f):]
		switch r.Intn(4) {
		case 0:
			f = cat(uv(uint64(len(body)+r.Range(1, 3))), body)
		case 1:
			f = cat(uv(uint64(max(0, len(body)-r.Range(1, 3)))), body)
		case 2:
			f = cat([]byte{byte(len(body)) | 0x80, 0x00}, body) // overlong prefix (bodies are < 128 bytes)
		case 3:
			f = cat(bytes.Repeat([]byte{0xff}, r.Range(9, 11)), []byte{byte(r.Intn(3))}, body)
		}
	case 11: // oversize / over capacity
		if r.Bool() {
			f = msgFrame(byte(r.Range(1, 3)), 1, r.Bytes(r.Range(30, 60)))
		} else {
			ch := byte(r.Range(1, 3))
			f = cat(msgFrame(ch, 0, r.Bytes(8)), msgFrame(ch, 0, r.Bytes(8)), msgFrame(ch, 0, r.Bytes(8)), msgFrame(ch, 0, r.Bytes(8)), msgFrame(ch, 0, r.Bytes(8)), msgFrame(ch, 1, r.Bytes(1)))
		}
	}
	frames = append(append([][]byte{}, frames[:i]...), append([][]byte{f}, frames[i+1:]...)...)
	return cat(frames...)
}

func protoVarintLen(b []byte) int {
	_, n := protowire.ConsumeVarint(b)
	if n < 0 {
		return 0
	}
	return n
}

func rawCases(o *kit.Out, r *kit.Rand, n int) {
	for c := 0; c < n; c++ {
		newCase(o, "raw")
		o.Op("cfg 8 8 - 1.1.1 1.40,2.40,3.40")
		for k := 0; k < 6; k++ {
			frames := validStream(r)
			switch {
			case k < 2: // valid stream, non-empty reads
				o.Op("raw %s %s", randRawPattern(r, false), hexs(cat(frames...)))
			case k == 2 && c%4 == 0: // valid stream with a zero-length read somewhere
				o.Op("raw %s %s", randRawPattern(r, true), hexs(cat(frames...)))
			default:
				o.Op("raw %s %s", randRawPattern(r, false), hexs(mutate(r, frames)))
			}
		}
	}
}

func generate(o *kit.Out, r *kit.Rand, tier string) {
	boundary(o)
	nPair, nGated, nRaw := 400, 150, 200
	if tier == "thorough" {
		nPair, nGated, nRaw = 10000, 4000, 6000
	}
	rp, rg, rr := r.Fork(), r.Fork(), r.Fork()
	for i := 0; i < nPair; i++ {
		randomPairCase(o, rp)
	}
	for i := 0; i < nGated; i++ {
		randomGatedCase(o, rg)
	}
	rawCases(o, rr, nRaw)
}
