// Harness for C37: proposer selection fairness and validator-set updates
// (tm2/pkg/bft/types/validator_set.go, validator.go) on the REAL types.ValidatorSet.
//
// Validators live in numbered slots; slot i has the mock pubkey {hi(i+1), lo(i+1)},
// whose address is that number left-padded with zeros, so slot order = address order.
//
// op lines (tokens `slot:power`, or a bare `power` meaning slot = its position):
//
//	new <tok…>        NewValidatorSet (which already performs one IncrementProposerPriority(1))
//	inc <times>       one call IncrementProposerPriority(times)
//	run <k>           k calls IncrementProposerPriority(1), every proposer logged
//	update <tok…>     UpdateWithChangeSet; power 0 = removal; unknown slot = new validator
//	window            fairness summary of the proposer log (counts per window of length T)
//
// output:  ok <state> [extras]  |  err:<class> <state>  |  panic:<class>
//
//	<state> = P=<proposer slot|-> T=<cached total> n=<size> <slot>:<power>:<priority> …
//	          (the validator list is replaced by H<h1>.<h2> when longer than 200 bytes)
//
// oracle (independent of the Lean model; math/big and plain maps):
//
//	set-unsorted / power-nonpositive / total-mismatch / total-over-max   structure after every op
//	priority-spread        max − min priority > 3·T after an op
//	reject-changed         an update returned an error but the receiver changed
//	bad-update-accepted    an update with duplicates / negative / > Max power / unknown
//	                       removal / empty result / total over Max returned nil
//	proposer-window-unfair on a set unchanged since `new`, a window of T consecutive
//	                       logged proposers in which some validator's count ≠ its power
package main

import (
	"fmt"
	"math/big"
	"os"
	"strconv"
	"strings"

	"github.com/gnolang/gno/tm2/pkg/bft/types"
	"github.com/gnolang/gno/tm2/pkg/crypto/mock"
	"gnoverif/kit"
)

const maxSlots = 60000

var maxTotal = types.MaxTotalVotingPower

// fairness windows are only evaluated when T is at most this (runtime cap)
const fairCapT = 6000

// ---------------------------------------------------------------- state

type state struct {
	vs     *types.ValidatorSet
	log    []int // proposer slots, one per height, since the log was (re)started
	stable bool  // the set has not changed since `new`
	dead   bool  // a panic left the set in an unknown state; remaining ops answer err:dead
}

var st state

func reset() { st = state{} }

func pubOf(slot int) mock.PubKeyMock {
	v := slot + 1
	return mock.PubKeyMock{byte(v >> 8), byte(v)}
}

func slotOf(v *types.Validator) int {
	a := v.Address
	return (int(a[17])<<16 | int(a[18])<<8 | int(a[19])) - 1
}

type tok struct {
	slot  int
	power int64
}

func parseToks(ts []string) ([]tok, bool) {
	out := make([]tok, 0, len(ts))
	for i, t := range ts {
		var s, p string
		if k := strings.IndexByte(t, ':'); k >= 0 {
			s, p = t[:k], t[k+1:]
		} else {
			s, p = strconv.Itoa(i), t
		}
		sl, err := strconv.ParseInt(s, 10, 64)
		if err != nil || sl < 0 || sl >= maxSlots || !canonInt(s) {
			return nil, false
		}
		pw, err := strconv.ParseInt(p, 10, 64)
		if err != nil || !canonInt(p) {
			return nil, false
		}
		out = append(out, tok{int(sl), pw})
	}
	return out, true
}

// canonInt: optional '-', digits only (what Lean's String.toInt? accepts, minus '+' and '_').
func canonInt(s string) bool {
	if strings.HasPrefix(s, "-") {
		s = s[1:]
	}
	if s == "" {
		return false
	}
	for _, c := range s {
		if c < '0' || c > '9' {
			return false
		}
	}
	return true
}

func mkVals(ts []tok) []*types.Validator {
	out := make([]*types.Validator, len(ts))
	for i, t := range ts {
		pk := pubOf(t.slot)
		out[i] = &types.Validator{Address: pk.Address(), PubKey: pk, VotingPower: t.power}
	}
	return out
}

// ---------------------------------------------------------------- canonical output

func hash2(s string) string {
	var h1, h2 uint64
	for i := 0; i < len(s); i++ {
		h1 = (h1*65599 + uint64(s[i])) % 4294967291
		h2 = (h2*31337 + uint64(s[i])) % 4294967279
	}
	return fmt.Sprintf("H%d.%d", h1, h2)
}

func short(s string, lim int) string {
	if len(s) <= lim {
		return s
	}
	return hash2(s)
}

func dump(vs *types.ValidatorSet) string {
	p := "-"
	if vs.Proposer != nil {
		p = strconv.Itoa(slotOf(vs.Proposer))
	}
	var sb strings.Builder
	for i, v := range vs.Validators {
		if i > 0 {
			sb.WriteByte(' ')
		}
		fmt.Fprintf(&sb, "%d:%d:%d", slotOf(v), v.VotingPower, v.ProposerPriority)
	}
	total := int64(0)
	if len(vs.Validators) > 0 {
		total = vs.TotalVotingPower()
	}
	body := short(sb.String(), 200)
	if body == "" {
		return fmt.Sprintf("P=%s T=%d n=%d", p, total, len(vs.Validators))
	}
	return fmt.Sprintf("P=%s T=%d n=%d %s", p, total, len(vs.Validators), body)
}

func errClass(msg string) string {
	switch {
	case strings.Contains(msg, "duplicate entry"):
		return "dup"
	case strings.Contains(msg, "voting power can't be negative"):
		return "neg"
	case strings.Contains(msg, "to prevent clipping"):
		return "toobig"
	case strings.Contains(msg, "cannot process validators with voting power 0"):
		return "zero"
	case strings.Contains(msg, "failed to find validator"):
		return "unknown"
	case strings.Contains(msg, "total voting power would exceed"):
		return "overflow"
	case strings.Contains(msg, "result in empty set"):
		return "empty"
	case strings.Contains(msg, "address cannot be zero"):
		return "zeroaddr"
	case strings.Contains(msg, "pubkey cannot be nil"):
		return "nilpub"
	case strings.Contains(msg, "doesn't match pubkey"):
		return "mismatch"
	}
	return "other"
}

// ---------------------------------------------------------------- oracle (independent)

type snapV struct {
	addr  [20]byte
	power int64
	prio  int64
}

type snap struct {
	vals []snapV
	prop *snapV
}

func snapshot(vs *types.ValidatorSet) snap {
	var s snap
	for _, v := range vs.Validators {
		s.vals = append(s.vals, snapV{v.Address, v.VotingPower, v.ProposerPriority})
	}
	if vs.Proposer != nil {
		s.prop = &snapV{vs.Proposer.Address, vs.Proposer.VotingPower, vs.Proposer.ProposerPriority}
	}
	return s
}

func (a snap) equal(b snap) bool {
	if len(a.vals) != len(b.vals) || (a.prop == nil) != (b.prop == nil) {
		return false
	}
	for i := range a.vals {
		if a.vals[i] != b.vals[i] {
			return false
		}
	}
	return a.prop == nil || *a.prop == *b.prop
}

// structure + spread, evaluated on the set as it is after an op.
func oracleState(vs *types.ValidatorSet) string {
	if vs == nil || len(vs.Validators) == 0 {
		return "ok"
	}
	sum := new(big.Int)
	var mx, mn *big.Int
	for i, v := range vs.Validators {
		if i > 0 {
			prev := vs.Validators[i-1].Address
			if string(prev[:]) >= string(v.Address[:]) {
				return fmt.Sprintf("VIOL:set-unsorted index %d", i)
			}
		}
		if v.VotingPower <= 0 {
			return fmt.Sprintf("VIOL:power-nonpositive index %d power %d", i, v.VotingPower)
		}
		sum.Add(sum, big.NewInt(v.VotingPower))
		p := big.NewInt(v.ProposerPriority)
		if mx == nil || p.Cmp(mx) > 0 {
			mx = p
		}
		if mn == nil || p.Cmp(mn) < 0 {
			mn = p
		}
	}
	if sum.Cmp(big.NewInt(maxTotal)) > 0 {
		return "VIOL:total-over-max " + sum.String()
	}
	if sum.Cmp(big.NewInt(vs.TotalVotingPower())) != 0 {
		return fmt.Sprintf("VIOL:total-mismatch cached %d sum %s", vs.TotalVotingPower(), sum)
	}
	spread := new(big.Int).Sub(mx, mn)
	lim := new(big.Int).Mul(sum, big.NewInt(3))
	if spread.Cmp(lim) > 0 {
		return fmt.Sprintf("VIOL:priority-spread spread %s > 3*%s", spread, sum)
	}
	return "ok"
}

// must the statement's rejection clause fire?  plain maps, no sorting.
func mustReject(vs *types.ValidatorSet, ts []tok, allowDeletes bool) string {
	if len(ts) == 0 {
		return ""
	}
	seen := map[int]bool{}
	for _, t := range ts {
		if seen[t.slot] {
			return "duplicate"
		}
		seen[t.slot] = true
	}
	for _, t := range ts {
		if t.power < 0 {
			return "negative"
		}
		if t.power > maxTotal {
			return "excessive"
		}
	}
	cur := map[int]int64{}
	for _, v := range vs.Validators {
		cur[slotOf(v)] = v.VotingPower
	}
	for _, t := range ts {
		if t.power == 0 {
			if !allowDeletes {
				return "zero-power"
			}
			if _, ok := cur[t.slot]; !ok {
				return "unknown-removal"
			}
		}
	}
	for _, t := range ts {
		if t.power == 0 {
			delete(cur, t.slot)
		} else {
			cur[t.slot] = t.power
		}
	}
	if len(cur) == 0 {
		return "empty-result"
	}
	sum := new(big.Int)
	for _, p := range cur {
		sum.Add(sum, big.NewInt(p))
	}
	if sum.Cmp(big.NewInt(maxTotal)) > 0 {
		return "total-excessive"
	}
	return ""
}

// fairness on the window ending at the current end of the log (length T),
// counted from scratch with a map.
func oracleWindowAt(end int) string {
	if !st.stable || st.vs == nil || len(st.vs.Validators) == 0 {
		return ""
	}
	T := st.vs.TotalVotingPower()
	if T > fairCapT || int64(end) < T {
		return ""
	}
	cnt := map[int]int64{}
	for _, s := range st.log[end-int(T) : end] {
		cnt[s]++
	}
	for _, v := range st.vs.Validators {
		if cnt[slotOf(v)] != v.VotingPower {
			return fmt.Sprintf("VIOL:proposer-window-unfair window [%d,%d) slot %d power %d proposed %d times",
				end-int(T), end, slotOf(v), v.VotingPower, cnt[slotOf(v)])
		}
	}
	return ""
}

func first(vs ...string) string {
	for _, v := range vs {
		if v != "" && v != "ok" {
			return v
		}
	}
	return "ok"
}

// ---------------------------------------------------------------- ops

func logProposer() {
	st.log = append(st.log, slotOf(st.vs.Proposer))
}

func seqString(xs []int) string {
	var sb strings.Builder
	for i, x := range xs {
		if i > 0 {
			sb.WriteByte(',')
		}
		sb.WriteString(strconv.Itoa(x))
	}
	return short(sb.String(), 60)
}

func opNew(ts []tok) (impl, oracle string) {
	vals := mkVals(ts)
	var vs *types.ValidatorSet
	var pmsg string
	func() {
		defer func() {
			if v := recover(); v != nil {
				pmsg = fmt.Sprint(v)
			}
		}()
		vs = types.NewValidatorSet(vals)
	}()
	empty := &types.ValidatorSet{}
	why := mustReject(empty, ts, false)
	if pmsg != "" {
		st = state{}
		if !strings.HasPrefix(pmsg, "cannot create validator set: ") {
			return "panic:" + pmsg, "-"
		}
		return "panic:new:" + errClass(pmsg), "ok"
	}
	st = state{vs: vs, stable: true}
	if why != "" {
		return "ok " + dump(vs), "VIOL:bad-update-accepted NewValidatorSet accepted " + why
	}
	o := oracleState(vs)
	if len(vs.Validators) > 0 {
		logProposer()
		o = first(o, oracleWindowAt(len(st.log)))
	}
	return "ok " + dump(vs), o
}

// incReal calls the real IncrementProposerPriority and classifies its two documented panics.
func incReal(times int) (pclass string) {
	defer func() {
		if v := recover(); v != nil {
			msg := fmt.Sprint(v)
			switch {
			case strings.Contains(msg, "empty validator set"):
				pclass = "panic:empty"
			case strings.Contains(msg, "non-positive times"):
				pclass = "panic:times"
			default:
				panic(v)
			}
		}
	}()
	st.vs.IncrementProposerPriority(times)
	return ""
}

func opInc(times int64) (impl, oracle string) {
	if st.vs == nil {
		return "err:noset", "-"
	}
	if pc := incReal(int(times)); pc != "" {
		return pc, "-"
	}
	if times != 1 {
		st.log = st.log[:0] // intermediate proposers are not observable
	}
	logProposer()
	return "ok " + dump(st.vs), first(oracleState(st.vs), oracleWindowAt(len(st.log)))
}

func opRun(k int64) (impl, oracle string) {
	if st.vs == nil {
		return "err:noset", "-"
	}
	if k <= 0 {
		return "err:badop", "-"
	}
	o := "ok"
	start := len(st.log)
	for i := int64(0); i < k; i++ {
		if pc := incReal(1); pc != "" {
			return pc, "-"
		}
		logProposer()
		if o == "ok" {
			o = first(oracleState(st.vs), oracleWindowAt(len(st.log)))
		}
	}
	return "ok " + dump(st.vs) + " seq=" + seqString(st.log[start:]), o
}

func opUpdate(ts []tok) (impl, oracle string) {
	if st.vs == nil {
		return "err:noset", "-"
	}
	before := snapshot(st.vs)
	why := mustReject(st.vs, ts, true)
	err := st.vs.UpdateWithChangeSet(mkVals(ts))
	after := snapshot(st.vs)
	if err != nil {
		o := "ok"
		if !before.equal(after) {
			o = "VIOL:reject-changed receiver differs after err:" + errClass(err.Error())
		}
		return "err:" + errClass(err.Error()) + " " + dump(st.vs), first(o, oracleState(st.vs))
	}
	if len(ts) > 0 {
		// accepted, non-empty change set: the set is no longer the one built by `new`
		st.stable = false
		st.log = st.log[:0]
	}
	o := oracleState(st.vs)
	if why != "" {
		o = "VIOL:bad-update-accepted accepted although " + why
	}
	return "ok " + dump(st.vs), o
}

// window: summary of the whole proposer log. Sliding counts (the oracle
// recounts every window from scratch instead).
func opWindow() (impl, oracle string) {
	if st.vs == nil {
		return "err:noset", "-"
	}
	n := len(st.vs.Validators)
	L := len(st.log)
	var T int64
	if n > 0 {
		T = st.vs.TotalVotingPower()
	}
	if n == 0 || T > fairCapT || int64(L) < T {
		return fmt.Sprintf("ok L=%d T=%d bad=- c=-", L, T), "ok"
	}
	idx := map[int]int{}
	pw := make([]int64, n)
	for i, v := range st.vs.Validators {
		idx[slotOf(v)] = i
		pw[i] = v.VotingPower
	}
	cnt := make([]int64, n)
	w := int(T)
	mism := 0
	bump := func(i int, d int64) {
		was := cnt[i] != pw[i]
		cnt[i] += d
		now := cnt[i] != pw[i]
		if was && !now {
			mism--
		} else if !was && now {
			mism++
		}
	}
	for i := range cnt {
		if cnt[i] != pw[i] {
			mism++
		}
	}
	bad := -1
	firstC := ""
	for e := 0; e < L; e++ {
		if i, ok := idx[st.log[e]]; ok {
			bump(i, 1)
		}
		if e >= w {
			if i, ok := idx[st.log[e-w]]; ok {
				bump(i, -1)
			}
		}
		if e == w-1 {
			parts := make([]string, n)
			for i := range cnt {
				parts[i] = strconv.FormatInt(cnt[i], 10)
			}
			firstC = short(strings.Join(parts, ","), 80)
		}
		if e >= w-1 && mism != 0 && bad < 0 {
			bad = e - w + 1
		}
	}
	bs := "-"
	if bad >= 0 {
		bs = strconv.Itoa(bad)
	}
	// oracle: recount every window from scratch
	o := "ok"
	if st.stable {
		for e := w; e <= L; e++ {
			if v := oracleWindowAt(e); v != "" {
				o = v
				break
			}
		}
	}
	return fmt.Sprintf("ok L=%d T=%d bad=%s c=%s", L, T, bs, firstC), o
}

func exec(t []string) (string, string) {
	if len(t) == 0 {
		return "err:badop", "-"
	}
	if st.dead {
		return "err:dead", "-"
	}
	switch t[0] {
	case "new":
		ts, ok := parseToks(t[1:])
		if !ok {
			return "err:badop", "-"
		}
		return opNew(ts)
	case "update":
		ts, ok := parseToks(t[1:])
		if !ok {
			return "err:badop", "-"
		}
		return opUpdate(ts)
	case "inc", "run":
		if len(t) != 2 || !canonInt(t[1]) {
			return "err:badop", "-"
		}
		k, err := strconv.ParseInt(t[1], 10, 64)
		if err != nil || k > 1<<31 || k < -(1<<31) {
			return "err:badop", "-"
		}
		if t[0] == "inc" {
			return opInc(k)
		}
		return opRun(k)
	case "window":
		if len(t) != 1 {
			return "err:badop", "-"
		}
		return opWindow()
	}
	return "err:badop", "-"
}

func panicOracle(t []string, v any) (string, string) {
	st.dead = true
	if os.Getenv("VERIF_TRACE") != "" {
		fmt.Fprintf(os.Stderr, "panic in %v: %v\n", t, v)
	}
	return "panic:" + strings.SplitN(fmt.Sprint(v), "\n", 2)[0], "-"
}

func main() {
	if len(os.Args) > 1 && os.Args[1] == "search" {
		searchMain(os.Args[2:])
		return
	}
	kit.Main(&kit.Harness{Gen: gen, Reset: reset, Exec: exec, PanicOracle: panicOracle})
}
