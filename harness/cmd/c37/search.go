package main

import (
	"fmt"
	"math/big"

	"github.com/gnolang/gno/tm2/pkg/bft/types"
	"gnoverif/kit"
)

func realSet(ps []int64) *types.ValidatorSet {
	ts := make([]tok, len(ps))
	for i, p := range ps {
		ts[i] = tok{i, p}
	}
	return types.NewValidatorSet(mkVals(ts))
}

// firstWindowUnfair runs the real set for T heights and reports whether some
// validator's count differs from its power (slot, count).
func firstWindowUnfair(ps []int64) (bool, int, int64) {
	vs := realSet(ps)
	T := vs.TotalVotingPower()
	cnt := make([]int64, len(ps))
	cnt[slotOf(vs.Proposer)]++
	for k := int64(1); k < T; k++ {
		vs.IncrementProposerPriority(1)
		cnt[slotOf(vs.Proposer)]++
	}
	for i, p := range ps {
		if cnt[i] != p {
			return true, i, cnt[i]
		}
	}
	return false, 0, 0
}

func spreadRatio(vs *types.ValidatorSet) float64 {
	mx, mn := vs.Validators[0].ProposerPriority, vs.Validators[0].ProposerPriority
	for _, v := range vs.Validators {
		if v.ProposerPriority > mx {
			mx = v.ProposerPriority
		}
		if v.ProposerPriority < mn {
			mn = v.ProposerPriority
		}
	}
	d := new(big.Float).SetInt(new(big.Int).Sub(big.NewInt(mx), big.NewInt(mn)))
	t := new(big.Float).SetInt64(vs.TotalVotingPower())
	f, _ := new(big.Float).Quo(d, t).Float64()
	return f
}

func sumOf(ps []int64) (t int64) {
	for _, p := range ps {
		t += p
	}
	return
}

func mutate(r *kit.Rand, p []int64, maxN int) []int64 {
	q := append([]int64{}, p...)
	var mx int64
	for _, x := range q {
		if x > mx {
			mx = x
		}
	}
	switch r.Intn(6) {
	case 0:
		i := r.Intn(len(q))
		q[i] += int64(r.Intn(5) - 2)
		if q[i] < 1 {
			q[i] = 1
		}
	case 1:
		i, j := r.Intn(len(q)), r.Intn(len(q))
		q[i], q[j] = q[j], q[i]
	case 2:
		if len(q) < maxN {
			i := r.Intn(len(q) + 1)
			q = append(q[:i], append([]int64{int64(1 + r.Intn(3))}, q[i:]...)...)
		}
	case 3:
		if len(q) > 3 {
			i := r.Intn(len(q))
			q = append(q[:i], q[i+1:]...)
		}
	case 4:
		d := int64(r.Intn(7) - 3)
		for i := range q {
			if q[i] == mx && mx+d >= 2 {
				q[i] = mx + d
			}
		}
	default:
		q[r.Intn(len(q))] = mx
	}
	return q
}

// pure (no rescale, no clipping) maximum spread over one period, used only to steer the search.
func pureMaxSpread(p []int64) (int64, int64) {
	T := sumOf(p)
	v := make([]int64, len(p))
	var best int64
	for k := int64(0); k < T; k++ {
		m := 0
		for i := range v {
			v[i] += p[i]
			if v[i] > v[m] {
				m = i
			}
		}
		v[m] -= T
		mx, mn := v[0], v[0]
		for _, x := range v {
			if x > mx {
				mx = x
			}
			if x < mn {
				mn = x
			}
		}
		if mx-mn > best {
			best = mx - mn
		}
	}
	return best, T
}

func searchUnfair(seed uint64, maxT int64, maxN int) {
	r := kit.NewRand(seed).Fork()
	for restart := 0; restart < 2000; restart++ {
		n := 5 + r.Intn(maxN-4)
		m := 2 + r.Intn(6)
		if m > n-1 {
			m = n - 1
		}
		p := make([]int64, n)
		for i := range p {
			p[i] = 1
		}
		P := (maxT - int64(n-m)) / int64(m)
		if P < 3 {
			continue
		}
		P = 2 + int64(r.Intn(int(P-1)))
		for _, i := range permN(r, n)[:m] {
			p[i] = P
		}
		s, T := pureMaxSpread(p)
		cur := float64(s) / float64(T)
		for it := 0; it < 3000; it++ {
			q := mutate(r, p, maxN)
			if sumOf(q) > maxT {
				continue
			}
			s, T := pureMaxSpread(q)
			if f := float64(s) / float64(T); f >= cur {
				cur, p = f, q
				if s > 2*T {
					bad, slot, c := firstWindowUnfair(p)
					fmt.Printf("spread>2T: %v n=%d T=%d pure-spread=%d real-first-window-unfair=%v slot=%d count=%d\n", p, len(p), T, s, bad, slot, c)
					if bad {
						return
					}
				}
			}
		}
	}
}

// searchSpread: random scripts on the real set; reports the largest spread/T seen
// after any call (IncrementProposerPriority with times ≥ 1, UpdateWithChangeSet).
func searchSpread(seed uint64, iters int) {
	r := kit.NewRand(seed).Fork()
	best := 0.0
	for it := 0; it < iters; it++ {
		var ms []member
		if r.Bool() {
			ms = heavyLight(r, 30, 200)
		} else {
			ms = randomSet(r, 12)
		}
		ps := make([]int64, len(ms))
		script := fmt.Sprintf("new %s", toks(ms))
		for i, m := range ms {
			ps[i] = m.power
		}
		ts := make([]tok, len(ms))
		for i, m := range ms {
			ts[i] = tok{m.slot, m.power}
		}
		vs := types.NewValidatorSet(mkVals(ts))
		nops := 1 + r.Intn(8)
		for j := 0; j < nops; j++ {
			T := vs.TotalVotingPower()
			if r.Chance(75) {
				lim := int64(20000)
				if 3*T < lim {
					lim = 3 * T
				}
				k := 1 + r.Intn(int(lim))
				vs.IncrementProposerPriority(k)
				script += fmt.Sprintf(" ; inc %d", k)
			} else {
				var ch []tok
				if r.Bool() || len(vs.Validators) < 2 {
					room := maxTotal - T
					if room < 1 {
						continue
					}
					p := kit.Pick(r, []int64{1, 2, 300, T, 8 * T, 100 * T})
					if p > room {
						p = room
					}
					if p < 1 {
						p = 1
					}
					ch = []tok{{slotOf(vs.Validators[len(vs.Validators)-1]) + 1 + r.Intn(2), p}}
				} else {
					ch = []tok{{slotOf(vs.Validators[r.Intn(len(vs.Validators))]), int64(r.Intn(3))}}
				}
				if err := vs.UpdateWithChangeSet(mkVals(ch)); err != nil {
					continue
				}
				script += fmt.Sprintf(" ; update %d:%d", ch[0].slot, ch[0].power)
			}
			if f := spreadRatio(vs); f > best {
				best = f
				fmt.Printf("ratio %.4f  %s\n", best, script)
			}
		}
	}
	fmt.Printf("best spread/T = %.4f\n", best)
}
