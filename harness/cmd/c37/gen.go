package main

import (
	"fmt"
	"strings"

	"gnoverif/kit"
)

// ---------------------------------------------------------------- generator

func powerTable() []int64 {
	M := maxTotal
	return []int64{1, 2, 3, 10, 300, M / 8, M/8 - 1, M / 3, M / 2, M - 1, M}
}

type member struct {
	slot  int
	power int64
}

// genCtx mirrors (only for generation purposes) which slots are in the set, so
// that most generated updates are valid.  It is NOT used by exec or the oracle.
type genCtx struct {
	set map[int]int64
}

func (g *genCtx) total() int64 {
	var t int64
	for _, p := range g.set {
		t += p // generator keeps the sum ≤ Max, no overflow
	}
	return t
}

func (g *genCtx) slots() []int {
	out := []int{}
	for s := 0; s < 400; s++ {
		if _, ok := g.set[s]; ok {
			out = append(out, s)
		}
	}
	return out
}

func toks(ms []member) string {
	parts := make([]string, len(ms))
	for i, m := range ms {
		parts[i] = fmt.Sprintf("%d:%d", m.slot, m.power)
	}
	return strings.Join(parts, " ")
}

func shuffle(r *kit.Rand, ms []member) {
	for i := len(ms) - 1; i > 0; i-- {
		j := r.Intn(i + 1)
		ms[i], ms[j] = ms[j], ms[i]
	}
}

// steps to run for a set of total power T: up to 3T, capped.
func stepsFor(r *kit.Rand, T int64, cap int) int {
	lim := int64(cap)
	if 3*T < lim && T > 0 {
		lim = 3 * T
	}
	switch r.Intn(4) {
	case 0:
		return int(lim)
	case 1:
		if T > 0 && T <= lim {
			return int(T)
		}
		return int(lim)
	default:
		return 1 + r.Intn(int(lim))
	}
}

func boundary(w *kit.Out) {
	M := maxTotal
	// singletons
	for i, p := range powerTable() {
		w.Case(fmt.Sprintf("b-single-%d", i))
		w.Op("new 5:%d", p)
		w.Op("run 3")
		w.Op("inc 2")
		w.Op("window")
	}
	// empty set
	w.Case("b-empty")
	w.Op("new")
	w.Op("update")
	w.Op("window")
	w.Op("update 3:0")
	w.Op("update 3:5 1:7")
	w.Op("inc 1")
	w.Op("run 4")
	w.Case("b-empty-inc")
	w.Op("new")
	w.Op("inc 1")
	w.Case("b-empty-inc0")
	w.Op("new")
	w.Op("inc 0")
	// NewValidatorSet rejections
	for i, l := range []string{
		"new 1:5 1:6", "new 1:-1", fmt.Sprintf("new 1:%d", M+1), "new 1:5 2:0",
		fmt.Sprintf("new 1:%d 2:1", M), fmt.Sprintf("new 1:%d 2:%d 3:2", M/2, M/2),
		"new 3:-1 3:-1", "new 3:1 3:-1", "new 3:-1 3:1", fmt.Sprintf("new 4:0 4:%d", M+1),
		"new 9223372036854775807", "new -9223372036854775808",
	} {
		w.Case(fmt.Sprintf("b-newrej-%d", i))
		w.Op("%s", l)
		w.Op("inc 1")
	}
	// totals exactly at the cap
	w.Case("b-cap-exact")
	w.Op("new 1:%d 2:%d", M/2, M/2+1)
	w.Op("run 5")
	w.Op("inc 7")
	w.Op("update 3:1")
	w.Op("update 1:%d", M/2-1)
	w.Op("update 3:1")
	w.Op("run 5")
	w.Case("b-cap-eighths")
	w.Op("new %d %d %d %d %d %d %d %d", M/8, M/8, M/8, M/8, M/8, M/8, M/8, M/8)
	w.Op("run 20")
	w.Op("inc 1000")
	w.Op("update 9:7")
	w.Op("update 9:8")
	w.Op("update 0:0 9:8")
	w.Op("run 20")
	// update rejection classes and the order of checks
	base := "new 2:10 4:20 6:30"
	for i, l := range []string{
		"update 4:5 4:6", "update 4:-1", fmt.Sprintf("update 4:%d", M+1), "update 3:0",
		"update 2:0 4:0 6:0", fmt.Sprintf("update 8:%d", M), fmt.Sprintf("update 2:0 8:%d", M-50),
		fmt.Sprintf("update 2:%d 4:1", M-40), fmt.Sprintf("update 4:1 2:%d", M-40),
		fmt.Sprintf("update 2:1 4:%d", M-40), fmt.Sprintf("update 4:%d 6:0 2:0", M),
		"update 4:-1 4:-1", "update 9:0 4:-1", "update 1:0 4:-1", "update 3:0 3:0", "update 5:-2 3:0 5:1",
		fmt.Sprintf("update 3:0 8:%d", M), "update 2:0 4:0 6:0 8:1", "update 2:0 4:0 6:0 8:0",
		"update", "update 2:10 4:20 6:30", fmt.Sprintf("update 2:%d 4:1 6:1", M-2),
		fmt.Sprintf("update 2:%d 4:1 6:1", M-1),
	} {
		w.Case(fmt.Sprintf("b-updrej-%d", i))
		w.Op("%s", base)
		w.Op("run 7")
		w.Op("%s", l)
		w.Op("run 3")
		w.Op("window")
	}
	// add / re-add / remove with priorities in play
	w.Case("b-readd")
	w.Op("new 2:10 4:20 6:30")
	w.Op("run 25")
	w.Op("update 4:0")
	w.Op("run 5")
	w.Op("update 4:20")
	w.Op("run 60")
	w.Op("update 1:1000 3:1")
	w.Op("run 10")
	w.Op("update 1:0")
	w.Op("run 10")
	w.Op("window")
	// full windows on small stable sets
	for i, l := range []string{"new 1 1", "new 1 2 3", "new 3 2 1", "new 5 5 5 5", "new 10 1 1 1 10", "new 7 3 1 1 1 1 9 9"} {
		w.Case(fmt.Sprintf("b-fair-%d", i))
		w.Op("%s", l)
		w.Op("run 150")
		w.Op("window")
	}
}

// equal heavy validators interleaved with many light ones: the shape that
// drives the priority spread towards (and past) 2·T.
func heavyLight(r *kit.Rand, nmax int, pmax int64) []member {
	n := 5 + r.Intn(nmax-4)
	m := 2 + r.Intn(5)
	if m > n-1 {
		m = n - 1
	}
	P := 5 + int64(r.Intn(int(pmax)))
	ms := make([]member, n)
	for i := range ms {
		ms[i] = member{i, kit.Pick(r, []int64{1, 1, 1, 3, 2})}
	}
	for _, i := range permN(r, n)[:m] {
		ms[i].power = P
	}
	return ms
}

func permN(r *kit.Rand, n int) []int {
	p := make([]int, n)
	for i := range p {
		p[i] = i
	}
	for i := n - 1; i > 0; i-- {
		j := r.Intn(i + 1)
		p[i], p[j] = p[j], p[i]
	}
	return p
}

func randomSet(r *kit.Rand, nmax int) []member {
	n := 1 + r.Intn(nmax)
	small := []int64{1, 2, 3, 10, 300}
	M := maxTotal
	big := []int64{M / 8, M/8 - 1, M / 16, M / 40, M/40 - 1}
	mode := r.Intn(10)
	ms := make([]member, 0, n)
	slot := r.Intn(3)
	var total int64
	for i := 0; i < n; i++ {
		var p int64
		switch {
		case mode < 6:
			p = kit.Pick(r, small)
		case mode < 8:
			p = kit.Pick(r, big)
			if int64(n) > 8 {
				p = M/int64(n) - int64(r.Intn(3))
			}
		default:
			if r.Bool() {
				p = kit.Pick(r, small)
			} else {
				p = kit.Pick(r, big)
				if int64(n) > 8 {
					p = M/int64(n) - int64(r.Intn(3))
				}
			}
		}
		if total+p > M {
			p = 1
		}
		total += p
		ms = append(ms, member{slot, p})
		slot += 1 + r.Intn(3)
	}
	return ms
}

func genUpdate(r *kit.Rand, g *genCtx, w *kit.Out, validPct int) {
	M := maxTotal
	slots := g.slots()
	if len(slots) == 0 {
		w.Op("update %d:%d", r.Intn(20), 1+r.Intn(5))
		return
	}
	pick := func() int { return slots[r.Intn(len(slots))] }
	fresh := func() int {
		for {
			s := r.Intn(slots[len(slots)-1] + 6)
			if _, ok := g.set[s]; !ok {
				return s
			}
		}
	}
	smallOrBig := func() int64 {
		room := M - g.total()
		if room < 1 {
			return 1
		}
		c := []int64{1, 2, 3, 10, 300, room, room / 2, room/8 + 1}
		p := kit.Pick(r, c)
		if p < 1 {
			p = 1
		}
		if p > room {
			p = room
		}
		return p
	}
	if r.Chance(validPct) {
		// a valid change set: k distinct slots; change / add / remove
		k := 1 + r.Intn(3)
		used := map[int]bool{}
		var ms []member
		next := map[int]int64{}
		for s, p := range g.set {
			next[s] = p
		}
		for i := 0; i < k; i++ {
			switch r.Intn(4) {
			case 0: // add
				s := fresh()
				if used[s] {
					continue
				}
				used[s] = true
				// keep verifyUpdates' (removal-blind) running total within Max: only add
				// what fits on top of the current total.
				p := smallOrBig()
				var cur int64
				for _, q := range next {
					cur += q
				}
				var removed int64
				for s2, q := range g.set {
					if _, ok := next[s2]; !ok {
						removed += q
					}
				}
				if p > M-cur-removed {
					p = 1
					if M-cur-removed < 1 {
						continue
					}
				}
				next[s] = p
				ms = append(ms, member{s, p})
			case 1: // remove
				s := pick()
				if used[s] || len(next) <= 1 {
					continue
				}
				if _, ok := next[s]; !ok {
					continue
				}
				used[s] = true
				delete(next, s)
				ms = append(ms, member{s, 0})
			default: // change power
				s := pick()
				if used[s] {
					continue
				}
				if _, ok := next[s]; !ok {
					continue
				}
				used[s] = true
				p := kit.Pick(r, []int64{1, 2, 3, 10, 300, g.set[s], g.set[s]/2 + 1})
				next[s] = p
				ms = append(ms, member{s, p})
			}
		}
		if len(ms) == 0 {
			w.Op("update")
			return
		}
		shuffle(r, ms)
		w.Op("update %s", toks(ms))
		// Only adopt the result if the generator's own (simple) reasoning says it is
		// accepted; if it is wrong the next updates are just less often valid.
		g.set = next
		return
	}
	// an invalid change set of a chosen class (the list stays ≤ 12 entries, where
	// Go's sort.Sort is an insertion sort and hence stable)
	ms := []member{}
	for i := 0; i < r.Intn(3); i++ {
		ms = append(ms, member{pick(), int64(1 + r.Intn(9))})
	}
	switch r.Intn(7) {
	case 0:
		s := pick()
		ms = append(ms, member{s, int64(1 + r.Intn(5))}, member{s, int64(r.Intn(5))})
	case 1:
		ms = append(ms, member{pick(), -int64(1 + r.Intn(5))})
	case 2:
		ms = append(ms, member{fresh(), M + 1 + int64(r.Intn(3))})
	case 3:
		ms = append(ms, member{fresh(), 0})
	case 4:
		for _, s := range slots {
			ms = append(ms, member{s, 0})
		}
		if len(ms) > 12 {
			ms = ms[len(ms)-12:]
		}
	case 5:
		ms = append(ms, member{fresh(), M - g.total() + 1 + int64(r.Intn(2))})
	default:
		s := pick()
		ms = append(ms, member{s, -1}, member{s, 0}, member{fresh(), M + 1})
	}
	shuffle(r, ms)
	w.Op("update %s", toks(ms))
}

func randomCase(r *kit.Rand, w *kit.Out, id string, nmax, stepCap int, validPct int) {
	w.Case(id)
	var ms []member
	if r.Chance(25) {
		ms = heavyLight(r, max(nmax, 6), 60)
	} else {
		ms = randomSet(r, nmax)
	}
	g := &genCtx{set: map[int]int64{}}
	for _, m := range ms {
		g.set[m.slot] = m.power
	}
	shuffle(r, ms)
	w.Op("new %s", toks(ms))
	nops := 2 + r.Intn(6)
	budget := stepCap
	for i := 0; i < nops; i++ {
		T := g.total()
		switch c := r.Intn(10); {
		case c < 4:
			k := stepsFor(r, T, budget)
			if k < 1 {
				k = 1
			}
			w.Op("run %d", k)
			budget -= k
		case c < 6:
			k := stepsFor(r, T, max(budget, 1)*4)
			w.Op("inc %d", k)
		case c < 9:
			genUpdate(r, g, w, validPct)
		default:
			w.Op("window")
		}
		if budget < 1 {
			budget = 1
		}
	}
	w.Op("window")
}

func malformed(r *kit.Rand, w *kit.Out, n int) {
	lines := []string{
		"inc 1", "run 1", "window", "update 1:1", "frob", "new 1:x", "new x:1", "new 1:", "new :1", "new 1:2:3",
		"new 70000:1", "new -1:1", "inc", "inc 1 2", "inc x", "run 0", "run -1", "inc -1", "inc 0", "window 1",
		"new +1", "new 1_0", "new 0x10", "update 1:+1", "inc 99999999999999999999", "new 99999999999999999999",
	}
	for i := 0; i < n; i++ {
		w.Case(fmt.Sprintf("m-%d", i))
		if r.Bool() {
			w.Op("new 1:3 2:4")
		}
		for j := 0; j < 1+r.Intn(4); j++ {
			w.Op("%s", kit.Pick(r, lines))
		}
		w.Op("inc 1")
	}
}

func gen(w *kit.Out, r *kit.Rand, tier string) {
	boundary(w)
	rs, rm := r.Fork(), r.Fork()
	if tier == "quick" {
		for i := 0; i < 220; i++ {
			randomCase(rs, w, fmt.Sprintf("r-%d", i), 8, 2500, 80)
		}
		malformed(rm, w, 20)
		return
	}
	for i := 0; i < 500; i++ {
		randomCase(rs, w, fmt.Sprintf("r-%d", i), 8, 8000, 80)
	}
	for i := 0; i < 250; i++ {
		randomCase(rs, w, fmt.Sprintf("w-%d", i), 40, 12000, 85)
	}
	malformed(rm, w, 60)
}

// ---------------------------------------------------------------- search helpers (not part of the check)

// `gvh_C37 search unfair <seed> <maxT> <maxN>` : hill-climb over stable sets for a
// small total power whose first window is unfair, confirmed on the real ValidatorSet.
// `gvh_C37 search spread <seed> <iters>`     : random scripts with times > 1 trying
// to push the spread beyond 3·T on the real ValidatorSet.
func searchMain(args []string) {
	if len(args) < 1 {
		fmt.Println("usage: search unfair <seed> <maxT> <maxN> | search spread <seed> <iters>")
		return
	}
	switch args[0] {
	case "unfair":
		searchUnfair(uint64(kit.Atoi(args[1])), int64(kit.Atoi(args[2])), kit.Atoi(args[3]))
	case "spread":
		searchSpread(uint64(kit.Atoi(args[1])), kit.Atoi(args[2]))
	}
}
