// Harness for C34: "a validator never double-signs, even across crashes".
//
// The REAL private validator (tm2/pkg/bft/privval.PrivValidator with a
// signer/local ed25519 FileKey and a state/FileState persisted through
// tm2/pkg/os.WriteFileAtomic) runs over a scratch directory
// /tmp/c34-<pid>/case<N>/ (removed at exit).
//
// op lines (ints decimal):
//
//	vote <h> <r> <step> <body> <ts>    SignVote; step 2 = prevote, 3 = precommit, anything else = bad vote type
//	prop <h> <r> <body> <ts>           SignProposal (step 1)
//	crash                              drop the object; reload key + state from the files with the package's
//	                                   own constructors (LoadOrMakeLocalSigner + NewPrivValidator)
//	failsave on|open|off               make persisting fail / work again (see failOn below)
//	cut <where> vote|prop <args…>      drop the object (as crash), serve ONE request in a NEW child process that loads the
//	                                   files and is really killed by the kernel inside WriteFileAtomic, then restart
//	                                   from the directory it left behind; where ∈ open | write | rename | after (see worker())
//
// body abstracts everything in the sign-bytes except the timestamp (BlockID,
// POLRound, chain id are derived injectively from it); ts = unix seconds.
//
// impl output:
//
//	sig:<id> ts:<returned unix ts> disk:<h>/<r>/<s>   signature returned with a nil error; <id> = index of first
//	                                                  appearance of that signature in the case (signatures are
//	                                                  deterministic ed25519, so equal sign-bytes ⇔ equal id);
//	                                                  disk = HRS found in the state FILE right after the call
//	err:<class>[ sig:<id>]                            height|round|step|nosignbytes|conflict|validate|save;
//	                                                  "sig:<id>" when the request object nevertheless had its
//	                                                  Signature field filled in (the code assigns it before saving)
//	panic:votetype | killed | ok disk:<h>/<r>/<s> | err:badop | err:unsupported
//
// oracle (independent of the model): the log of every signature the harness
// ever RECEIVED with a nil error, as (H,R,S, sign-bytes-with-timestamp-zeroed,
// returned timestamp, signature); after every op the property statement is
// evaluated over that log:
//
//	VIOL:double-sign  two log entries with the same H/R/S whose sign-bytes differ beyond the timestamp,
//	                  or equal up to the timestamp but NOT the original signature+timestamp
//	VIOL:regression   an entry was received for an H/R/S lower than an earlier entry's
package main

import (
	"bufio"
	"bytes"
	"crypto/sha256"
	"encoding/hex"
	"encoding/json"
	"errors"
	"fmt"
	"os"
	"os/exec"
	"path/filepath"
	"runtime"
	"strconv"
	"strings"
	"syscall"
	"time"
	"unsafe"

	"github.com/gnolang/gno/tm2/pkg/bft/privval"
	"github.com/gnolang/gno/tm2/pkg/bft/privval/signer/local"
	"github.com/gnolang/gno/tm2/pkg/bft/types"
	"gnoverif/kit"
)

const (
	maxTS   = 1 << 31
	maxBody = 1 << 32
)

// ---------------------------------------------------------------- request → real objects

type req struct {
	prop      bool
	h         int64
	r         int
	step      int // votes only
	body      uint64
	ts        int64
	malformed bool
}

func sha(tag string, body uint64) []byte {
	x := sha256.Sum256([]byte(tag + strconv.FormatUint(body, 10)))
	return x[:]
}

func blockID(body uint64) types.BlockID {
	if body == 0 {
		return types.BlockID{} // nil vote / empty proposal block id
	}
	return types.BlockID{Hash: sha("c34-block-", body), PartsHeader: types.PartSetHeader{Total: int(body%5) + 1, Hash: sha("c34-parts-", body)}}
}

func chainID(body uint64) string {
	if body%7 == 6 {
		return "c34-chain-b"
	}
	return "c34-chain"
}

func voteType(step int) types.SignedMsgType {
	switch step {
	case 2:
		return types.PrevoteType
	case 3:
		return types.PrecommitType
	case 1:
		return types.ProposalType // not a vote type
	}
	return types.SignedMsgType(0x40 + byte(step&0x3f))
}

func (q req) vote() *types.Vote {
	return &types.Vote{Type: voteType(q.step), Height: q.h, Round: q.r, BlockID: blockID(q.body),
		Timestamp: time.Unix(q.ts, 0).UTC(), ValidatorAddress: types.Address{}, ValidatorIndex: 0}
}

func (q req) proposal() *types.Proposal {
	return &types.Proposal{Type: types.ProposalType, Height: q.h, Round: q.r, POLRound: int(q.body%3) - 1,
		BlockID: blockID(q.body), Timestamp: time.Unix(q.ts, 0).UTC()}
}

func parseReq(t []string) (q req, ok bool) {
	defer func() {
		if recover() != nil {
			ok = false
		}
	}()
	switch {
	case len(t) == 6 && t[0] == "vote":
		q = req{h: kit.Atoi64(t[1]), r: int(kit.Atoi64(t[2])), step: kit.Atoi(t[3]), body: kit.Atou64(t[4]), ts: kit.Atoi64(t[5])}
		if q.step < 0 || q.step > 255 {
			return q, false
		}
	case len(t) == 5 && t[0] == "prop":
		q = req{prop: true, h: kit.Atoi64(t[1]), r: int(kit.Atoi64(t[2])), step: 1, body: kit.Atou64(t[3]), ts: kit.Atoi64(t[4])}
	default:
		return q, false
	}
	if q.ts < 0 || q.ts >= maxTS || q.body >= maxBody {
		return q, false
	}
	return q, true
}

// ---------------------------------------------------------------- one call into the real code

// result of one SignVote / SignProposal call, as the caller observes it.
type result struct {
	class string // "" = nil error; else err class; "panic:votetype"
	sig   []byte // Signature field of the request object after the call
	ts    int64  // Timestamp field of the request object after the call
	nanos int
	// what the oracle needs (computed from the returned object, not from the model)
	h       int64
	r       int
	step    int
	bodyKey string // sign-bytes of the returned object with the timestamp zeroed
	valid   bool   // signature verifies against the returned object's sign-bytes
}

func errClass(err error) string {
	s := err.Error()
	switch {
	case strings.Contains(s, "height regression"):
		return "height"
	case strings.Contains(s, "round regression"):
		return "round"
	case strings.Contains(s, "step regression"):
		return "step"
	case strings.Contains(s, "no SignBytes set"):
		return "nosignbytes"
	case strings.Contains(s, "same HRS with conflicting data"):
		return "conflict"
	case strings.Contains(s, "invalid sign state"), strings.Contains(s, "signature should not be set"), strings.Contains(s, "filePath not set"):
		return "validate"
	}
	var pe *os.PathError
	var le *os.LinkError
	var en syscall.Errno
	if errors.As(err, &pe) || errors.As(err, &le) || errors.As(err, &en) || strings.Contains(s, "atomic write file") || strings.Contains(s, "short write") {
		return "save"
	}
	return "other(" + s + ")"
}

func call(pv *privval.PrivValidator, q req) (res result) {
	defer func() {
		if v := recover(); v != nil {
			if strings.Contains(fmt.Sprint(v), "Unknown vote type") {
				res = result{class: "panic:votetype"}
				return
			}
			panic(v)
		}
	}()
	var err error
	if q.prop {
		p := q.proposal()
		err = pv.SignProposal(chainID(q.body), p)
		res.sig, res.ts, res.nanos = p.Signature, p.Timestamp.Unix(), p.Timestamp.Nanosecond()
		res.h, res.r, res.step = p.Height, p.Round, 1
		if p.Signature != nil {
			res.valid = pv.PubKey().VerifyBytes(p.SignBytes(chainID(q.body)), p.Signature)
			z := *p
			z.Timestamp = time.Unix(0, 0).UTC()
			res.bodyKey = string(z.SignBytes(chainID(q.body)))
		}
	} else {
		v := q.vote()
		err = pv.SignVote(chainID(q.body), v)
		res.sig, res.ts, res.nanos = v.Signature, v.Timestamp.Unix(), v.Timestamp.Nanosecond()
		res.h, res.r = v.Height, v.Round
		switch v.Type {
		case types.PrevoteType:
			res.step = 2
		case types.PrecommitType:
			res.step = 3
		}
		if v.Signature != nil {
			res.valid = pv.PubKey().VerifyBytes(v.SignBytes(chainID(q.body)), v.Signature)
			z := *v
			z.Timestamp = time.Unix(0, 0).UTC()
			res.bodyKey = string(z.SignBytes(chainID(q.body)))
		}
	}
	if err != nil {
		res.class = errClass(err)
	}
	return res
}

func load(dir, key string) (*privval.PrivValidator, error) {
	signer, err := local.LoadOrMakeLocalSigner(key)
	if err != nil {
		return nil, err
	}
	return privval.NewPrivValidator(signer, statePath(dir))
}

func statePath(dir string) string { return filepath.Join(dir, "data", "priv_validator_state.json") }

// ---------------------------------------------------------------- harness state

type entry struct {
	h       int64
	r       int
	step    int
	bodyKey string
	ts      int64
	sig     string
}

type harness struct {
	root   string
	shm    string
	key    string
	caseN  int
	dir    string
	pv     *privval.PrivValidator
	fail   string // "", "on", "open"
	sigIDs map[string]int
	log    []entry
}

var H = &harness{}

// Scratch root: /tmp/c34-<pid>.  Every persisted sign state is written with
// O_SYNC; on a journalling file system that costs ~5 ms per request and makes
// the thorough tier take hours when eight harness processes run in parallel.
// Durability of the medium is an assumption of C34, not something the check
// observes, so when /dev/shm is a usable tmpfs the root is a symlink
// /tmp/c34-<pid> -> /dev/shm/c34-<pid> (same system calls, same rename
// semantics, no journal).  C34_SCRATCH=disk forces a plain directory.
func (x *harness) init() {
	if x.root != "" {
		return
	}
	x.root = fmt.Sprintf("/tmp/c34-%d", os.Getpid())
	os.RemoveAll(x.root)
	x.shm = ""
	if os.Getenv("C34_SCRATCH") != "disk" {
		shm := fmt.Sprintf("/dev/shm/c34-%d", os.Getpid())
		os.RemoveAll(shm)
		if err := os.MkdirAll(shm, 0o700); err == nil {
			if err := os.Symlink(shm, x.root); err == nil {
				x.shm = shm
			} else {
				os.RemoveAll(shm)
			}
		}
	}
	if x.shm == "" {
		if err := os.MkdirAll(x.root, 0o700); err != nil {
			panic(err)
		}
	}
	x.key = filepath.Join(x.root, "priv_validator_key.json")
}

func (x *harness) cleanup() {
	if x.shm != "" {
		os.RemoveAll(x.shm)
	}
	if x.root != "" {
		os.RemoveAll(x.root)
	}
}

func (x *harness) reset() {
	x.init()
	if x.dir != "" {
		os.RemoveAll(x.dir)
	}
	x.caseN++
	x.dir = filepath.Join(x.root, fmt.Sprintf("case%d", x.caseN))
	if err := os.MkdirAll(filepath.Join(x.dir, "data"), 0o700); err != nil {
		panic(err)
	}
	x.fail = ""
	x.sigIDs = map[string]int{}
	x.log = nil
	pv, err := load(x.dir, x.key)
	if err != nil {
		panic(err)
	}
	x.pv = pv
}

// failOn makes FileState.save fail while leaving the persisted content intact.
// The harness runs as root, so removing write permission from the directory
// does not work (root bypasses DAC).  Two tricks that work for every uid:
//
//	on:   the real state file is moved aside and a DIRECTORY is put at its
//	      path, so WriteFileAtomic creates + writes its temp file and then
//	      fails in the final rename (EISDIR) and removes the temp file;
//	open: the data directory is moved aside, so WriteFileAtomic fails in the
//	      very first OpenFile (ENOENT).
//
// "The disk" is then the moved-aside file; crash() puts it back for the
// duration of the reload (a restart can read its state file).
func (x *harness) failOn(mode string) {
	x.failOff()
	sp := statePath(x.dir)
	switch mode {
	case "on":
		must(os.Rename(sp, sp+".real"))
		must(os.Mkdir(sp, 0o700))
	case "open":
		must(os.Rename(filepath.Join(x.dir, "data"), filepath.Join(x.dir, "data.real")))
	}
	x.fail = mode
}

func (x *harness) failOff() {
	sp := statePath(x.dir)
	switch x.fail {
	case "on":
		must(os.Remove(sp))
		must(os.Rename(sp+".real", sp))
	case "open":
		must(os.Rename(filepath.Join(x.dir, "data.real"), filepath.Join(x.dir, "data")))
	}
	x.fail = ""
}

func must(err error) {
	if err != nil {
		panic(err)
	}
}

func (x *harness) diskFile() string {
	switch x.fail {
	case "on":
		return statePath(x.dir) + ".real"
	case "open":
		return filepath.Join(x.dir, "data.real", "priv_validator_state.json")
	}
	return statePath(x.dir)
}

func num(v any) string {
	switch t := v.(type) {
	case string:
		return t
	case float64:
		return strconv.FormatInt(int64(t), 10)
	case nil:
		return "0"
	}
	return "?"
}

// disk reads the persisted state file directly (plain JSON, no gno code).
func (x *harness) disk() string {
	bz, err := os.ReadFile(x.diskFile())
	if err != nil {
		return "disk:unreadable"
	}
	var m map[string]any
	if err := json.Unmarshal(bz, &m); err != nil {
		return "disk:torn"
	}
	return "disk:" + num(m["height"]) + "/" + num(m["round"]) + "/" + num(m["step"])
}

func (x *harness) sigID(sig []byte) int {
	k := string(sig)
	if id, ok := x.sigIDs[k]; ok {
		return id
	}
	id := len(x.sigIDs)
	x.sigIDs[k] = id
	return id
}

func hrsLess(h1 int64, r1, s1 int, h2 int64, r2, s2 int) bool {
	if h1 != h2 {
		return h1 < h2
	}
	if r1 != r2 {
		return r1 < r2
	}
	return s1 < s2
}

// record appends a received signature to the log and evaluates the property
// statement for the new entry against every earlier entry.
func (x *harness) record(res result) string {
	e := entry{res.h, res.r, res.step, res.bodyKey, res.ts, hex.EncodeToString(res.sig)}
	verdict := "ok"
	for i, o := range x.log {
		if o.h == e.h && o.r == e.r && o.step == e.step {
			if o.bodyKey != e.bodyKey {
				verdict = fmt.Sprintf("VIOL:double-sign %d/%d/%d entries %d and %d differ beyond the timestamp", e.h, e.r, e.step, i, len(x.log))
				break
			}
			if o.sig != e.sig || o.ts != e.ts {
				verdict = fmt.Sprintf("VIOL:double-sign %d/%d/%d entries %d and %d: same message, not the original signature+timestamp (ts %d vs %d)", e.h, e.r, e.step, i, len(x.log), o.ts, e.ts)
				break
			}
		}
	}
	if verdict == "ok" {
		for i, o := range x.log {
			if hrsLess(e.h, e.r, e.step, o.h, o.r, o.step) {
				verdict = fmt.Sprintf("VIOL:regression %d/%d/%d received after entry %d at %d/%d/%d", e.h, e.r, e.step, i, o.h, o.r, o.step)
				break
			}
		}
	}
	x.log = append(x.log, e)
	return verdict
}

func (x *harness) render(res result) (string, string) {
	switch {
	case strings.HasPrefix(res.class, "panic:"):
		return res.class, "-"
	case res.class != "":
		out := "err:" + res.class
		if res.sig != nil {
			out += fmt.Sprintf(" sig:%d", x.sigID(res.sig))
		}
		return out, "ok"
	}
	out := fmt.Sprintf("sig:%d ts:%d", x.sigID(res.sig), res.ts)
	if res.nanos != 0 {
		out += fmt.Sprintf(".%09d", res.nanos)
	}
	if !res.valid {
		out += " BADSIG"
	}
	verdict := x.record(res)
	return out + " " + x.disk(), verdict
}

func (x *harness) crash() error {
	x.pv = nil
	mode := x.fail
	x.failOff()
	pv, err := load(x.dir, x.key)
	if mode != "" {
		x.failOn(mode)
	}
	if err != nil {
		return err
	}
	x.pv = pv
	return nil
}

func exec1(t []string) (string, string) {
	x := H
	if len(t) == 0 {
		return "err:badop", "-"
	}
	switch t[0] {
	case "vote", "prop":
		q, ok := parseReq(t)
		if !ok {
			return "err:badop", "-"
		}
		return x.render(call(x.pv, q))
	case "crash":
		if len(t) != 1 {
			return "err:badop", "-"
		}
		if err := x.crash(); err != nil {
			return "err:restart(" + err.Error() + ")", "-"
		}
		return "ok " + x.disk(), "ok"
	case "failsave":
		if len(t) != 2 || (t[1] != "on" && t[1] != "open" && t[1] != "off") {
			return "err:badop", "-"
		}
		if t[1] == "off" {
			x.failOff()
		} else {
			x.failOn(t[1])
		}
		return "ok", "-"
	case "cut":
		if len(t) < 3 || cutSet(t[1]) == nil {
			return "err:badop", "-"
		}
		q, ok := parseReq(t[2:])
		if !ok {
			return "err:badop", "-"
		}
		if x.fail != "" {
			return "err:unsupported", "-"
		}
		return x.cut(t[1], q, t[2:])
	}
	return "err:badop", "-"
}

// ---------------------------------------------------------------- real kill inside WriteFileAtomic

// cut runs the request in a child process (this binary, mode "worker") that
// loads the validator from the same directory, arms a seccomp filter and
// calls SignVote/SignProposal.  The kernel kills the child (SIGSYS) at the
// chosen system call inside WriteFileAtomic; nothing the child computed
// leaves the process.  Then the parent restarts the validator from whatever
// the directory contains (including a stray write-file-atomic-* temp file).
// If the request never reaches WriteFileAtomic the child reports its result
// and exits; that too ends the process, so a restart follows.
func (x *harness) cut(where string, q req, toks []string) (string, string) {
	x.pv = nil
	cmd := exec.Command(os.Args[0], append([]string{"worker", x.dir, x.key, where}, toks...)...)
	var stdout, stderr bytes.Buffer
	cmd.Stdout, cmd.Stderr = &stdout, &stderr
	err := cmd.Run()
	out, verdict := "", "ok"
	if err != nil {
		ee, ok := err.(*exec.ExitError)
		if !ok {
			return "err:spawn(" + err.Error() + ")", "-"
		}
		ws := ee.Sys().(syscall.WaitStatus)
		if !ws.Signaled() || ws.Signal() != syscall.SIGSYS {
			return "err:worker(" + err.Error() + " " + strings.TrimSpace(stderr.String()) + ")", "-"
		}
		out = "killed"
	} else {
		var res result
		var sigHex, bodyHex string
		f := strings.Fields(stdout.String())
		if len(f) != 10 || f[0] != "R" {
			return "err:worker-output(" + stdout.String() + ")", "-"
		}
		res.class = strings.TrimPrefix(f[1], "=")
		sigHex = f[2]
		res.ts = kit.Atoi64(f[3])
		res.nanos = kit.Atoi(f[4])
		res.h, res.r, res.step = kit.Atoi64(f[5]), kit.Atoi(f[6]), kit.Atoi(f[7])
		bodyHex = f[8]
		res.valid = f[9] == "true"
		if sigHex != "-" {
			res.sig, _ = hex.DecodeString(sigHex)
		}
		bk, _ := hex.DecodeString(bodyHex)
		res.bodyKey = string(bk)
		out, verdict = x.render(res)
	}
	if err := x.crash(); err != nil {
		return "err:restart(" + err.Error() + ")", "-"
	}
	if strings.HasPrefix(out, "sig:") {
		// the disk column was read before the restart; nothing changed since.
		return out, verdict
	}
	return out, verdict
}

type sockFilter struct {
	Code uint16
	Jt   uint8
	Jf   uint8
	K    uint32
}

type sockFprog struct {
	Len    uint16
	_      [6]byte
	Filter *sockFilter
}

type cutSpec struct {
	nrs      []uint32 // syscall numbers (x86-64)
	exclOpen bool     // openat with O_EXCL
	bigWrite bool     // write(fd>=3, len>16)
}

// The four system calls WriteFileAtomic performs on the state directory, in
// order: openat(O_EXCL) of the temp file, write of the JSON, renameat onto the
// state file, and (deferred) unlinkat of the already-renamed temp file.
func cutSet(where string) *cutSpec {
	switch where {
	case "open": // before the temp file exists
		return &cutSpec{exclOpen: true}
	case "write": // temp file exists, empty
		return &cutSpec{bigWrite: true}
	case "rename": // temp file complete, state file still the old one
		return &cutSpec{nrs: []uint32{82, 264, 316}}
	case "after": // state file is the new one; the signature never left the process
		return &cutSpec{nrs: []uint32{87, 263}}
	}
	return nil
}

const (
	bpfLdAbs = 0x20
	bpfJeq   = 0x15
	bpfJgt   = 0x25
	bpfJset  = 0x45
	bpfRet   = 0x06
	retAllow = 0x7fff0000
	retKill  = 0x80000000 // SECCOMP_RET_KILL_PROCESS
	offNr    = 0
	offArg0  = 16
	offArg2  = 32
)

func armSeccomp(c *cutSpec) error {
	if runtime.GOARCH != "amd64" {
		return fmt.Errorf("cut points need linux/amd64")
	}
	var f []sockFilter
	switch {
	case c.exclOpen:
		f = []sockFilter{
			{bpfLdAbs, 0, 0, offNr},
			{bpfJeq, 0, 3, 257}, // openat? else allow
			{bpfLdAbs, 0, 0, offArg2},
			{bpfJset, 0, 1, 0x80}, // O_EXCL
			{bpfRet, 0, 0, retKill},
			{bpfRet, 0, 0, retAllow},
		}
	case c.bigWrite:
		f = []sockFilter{
			{bpfLdAbs, 0, 0, offNr},
			{bpfJeq, 0, 5, 1}, // write? else allow
			{bpfLdAbs, 0, 0, offArg0},
			{bpfJgt, 0, 3, 2}, // fd > 2
			{bpfLdAbs, 0, 0, offArg2},
			{bpfJgt, 0, 1, 16}, // more than an eventfd/pipe wake-up
			{bpfRet, 0, 0, retKill},
			{bpfRet, 0, 0, retAllow},
		}
	default:
		f = append(f, sockFilter{bpfLdAbs, 0, 0, offNr})
		n := len(c.nrs)
		for i, nr := range c.nrs {
			f = append(f, sockFilter{bpfJeq, uint8(n - i), 0, nr})
		}
		f = append(f, sockFilter{bpfRet, 0, 0, retAllow}, sockFilter{bpfRet, 0, 0, retKill})
	}
	prog := sockFprog{Len: uint16(len(f)), Filter: &f[0]}
	runtime.LockOSThread()
	if _, _, e := syscall.RawSyscall6(syscall.SYS_PRCTL, 38 /*PR_SET_NO_NEW_PRIVS*/, 1, 0, 0, 0, 0); e != 0 {
		return fmt.Errorf("prctl: %v", e)
	}
	if _, _, e := syscall.RawSyscall(317 /*seccomp*/, 1 /*SET_MODE_FILTER*/, 1 /*TSYNC*/, uintptr(unsafe.Pointer(&prog))); e != 0 {
		return fmt.Errorf("seccomp: %v", e)
	}
	runtime.KeepAlive(f)
	return nil
}

// worker <dir> <key> <where> vote|prop …
func worker(args []string) {
	if len(args) < 4 {
		os.Exit(2)
	}
	dir, key, where := args[0], args[1], args[2]
	q, ok := parseReq(args[3:])
	if !ok {
		fmt.Fprintln(os.Stderr, "bad request")
		os.Exit(2)
	}
	syscall.Setrlimit(syscall.RLIMIT_CORE, &syscall.Rlimit{})
	pv, err := load(dir, key)
	if err != nil {
		fmt.Fprintln(os.Stderr, "load:", err)
		os.Exit(3)
	}
	w := bufio.NewWriter(os.Stdout)
	if err := armSeccomp(cutSet(where)); err != nil {
		fmt.Fprintln(os.Stderr, err)
		os.Exit(4)
	}
	res := call(pv, q)
	sig := "-"
	if res.sig != nil {
		sig = hex.EncodeToString(res.sig)
	}
	body := hex.EncodeToString([]byte(res.bodyKey))
	if body == "" {
		body = "-"
	}
	fmt.Fprintf(w, "R =%s %s %d %d %d %d %d %s %v\n", res.class, sig, res.ts, res.nanos, res.h, res.r, res.step, body, res.valid)
	w.Flush()
}

// ---------------------------------------------------------------- generator

type gen struct {
	w    *kit.Out
	r    *kit.Rand
	n    int
	tier string
}

func (g *gen) cse(tag string, ops ...string) {
	g.n++
	g.w.Case(fmt.Sprintf("%s-%d", tag, g.n))
	for _, o := range ops {
		g.w.Op("%s", o)
	}
}

func boundary(g *gen) {
	// every branch of CheckHRS and of the same-HRS path, with and without restart
	g.cse("b", "vote 1 0 2 1 10", "vote 1 0 2 1 10", "vote 1 0 2 1 11", "vote 1 0 2 2 10", "vote 1 0 2 0 10")
	g.cse("b", "vote 1 0 2 1 10", "crash", "vote 1 0 2 1 10", "vote 1 0 2 1 99", "vote 1 0 2 2 10", "crash", "vote 1 0 2 2 10")
	g.cse("b", "prop 1 0 1 10", "prop 1 0 1 10", "prop 1 0 1 12", "prop 1 0 2 10", "prop 1 0 4 10", "vote 1 0 2 1 10", "prop 1 0 1 10", "vote 1 0 3 1 10", "vote 1 0 2 1 10")
	g.cse("b", "vote 5 3 3 7 100", "vote 4 9 3 7 100", "vote 5 2 3 7 100", "vote 5 3 2 7 100", "prop 5 3 7 100", "vote 5 3 3 7 100", "vote 5 4 2 7 100", "vote 6 0 2 7 100", "crash", "vote 5 9 3 1 1", "vote 6 0 2 7 5")
	g.cse("b", "vote 0 0 2 0 0", "vote 0 0 2 0 5", "vote 0 0 3 0 0", "crash", "vote 0 0 3 0 7", "vote 0 0 3 1 0")
	g.cse("b", "vote 1 0 1 1 10", "vote 1 0 0 1 10", "vote 1 0 4 1 10", "vote 1 0 255 1 10", "vote 1 0 2 1 10")
	g.cse("b", "vote -1 0 2 1 10", "vote 1 -1 2 1 10", "vote 1 -1 2 1 10", "vote 1 -1 2 2 10", "crash", "vote 1 -1 2 2 10", "vote 1 0 2 1 1")
	g.cse("b", "vote 9223372036854775807 9223372036854775807 3 1 2147483647", "vote 9223372036854775807 9223372036854775807 3 1 0", "vote 9223372036854775807 9223372036854775807 3 4294967295 0", "crash", "prop 9223372036854775807 9223372036854775807 1 1")
	g.cse("b", "vote -9223372036854775808 -9223372036854775808 2 1 1", "prop 0 -9223372036854775808 1 1", "prop 0 0 1 1")
	// save failures: error returned, memory rolled back (fd7d3fbcc7), request object keeps the signature
	g.cse("b", "vote 1 0 2 1 10", "failsave on", "vote 1 0 3 1 10", "vote 1 0 2 1 10", "crash", "failsave off", "vote 1 0 3 2 10")
	g.cse("b", "failsave open", "vote 2 0 2 1 10", "crash", "vote 2 0 2 5 10", "failsave off", "vote 2 0 2 5 10", "vote 2 0 2 5 11")
	g.cse("b", "failsave on", "prop 3 1 1 10", "failsave off", "crash", "prop 3 1 2 10", "prop 3 1 2 11", "prop 3 1 1 10")
	g.cse("b", "failsave on", "vote 1 0 2 1 10", "vote 2 0 2 1 10", "failsave off", "vote 1 5 2 1 10", "vote 2 0 3 1 10", "crash", "vote 2 0 3 1 12")
	g.cse("b", "failsave on", "cut rename vote 1 0 2 1 10", "failsave off", "cut rename vote 1 0 2 1 10")
	// real kills inside WriteFileAtomic
	g.cse("b", "vote 7 2 2 1 1", "cut rename vote 7 1 2 1 1", "cut open vote 7 2 1 1 1", "cut after vote 7 2 2 1 5", "cut write vote 7 2 2 2 5")
	for _, wh := range []string{"open", "write", "rename", "after"} {
		g.cse("b", "vote 1 0 2 1 10", "cut "+wh+" vote 1 0 3 1 10", "vote 1 0 3 2 11", "vote 1 0 3 1 12", "crash", "vote 1 0 3 1 10")
		g.cse("b", "cut "+wh+" prop 7 2 3 10", "prop 7 2 4 10", "prop 7 2 3 10", "cut "+wh+" prop 7 2 3 11")
	}
}

// structured random: a frontier (h,r,s) that mostly advances; each request is
// drawn relative to the last request.
func random(g *gen, maxOps int, failPct, cutPct, crashPct int) {
	r := g.r
	n := r.Range(1, maxOps)
	var ops []string
	h, rd, st := int64(r.Range(0, 3)), r.Range(0, 2), 0
	body, ts := uint64(r.Range(0, 9)), int64(r.Range(0, 50))
	failing := false
	useFail := r.Chance(failPct)
	emit := func(h int64, rd, st int, body uint64, ts int64) string {
		if st == 1 {
			return fmt.Sprintf("prop %d %d %d %d", h, rd, body, ts)
		}
		return fmt.Sprintf("vote %d %d %d %d %d", h, rd, st, body, ts)
	}
	for i := 0; i < n; i++ {
		if r.Chance(crashPct) {
			ops = append(ops, "crash")
			continue
		}
		if useFail && r.Chance(12) {
			if failing {
				ops = append(ops, "failsave off")
			} else {
				ops = append(ops, "failsave "+kit.Pick(r, []string{"on", "open"}))
			}
			failing = !failing
			continue
		}
		qh, qr, qs, qb, qt := h, rd, st, body, ts
		if qs == 0 {
			qs = r.Range(1, 3)
		}
		switch k := r.Intn(100); {
		case k < 40: // advance
			switch r.Intn(4) {
			case 0:
				qh, qr, qs = h+int64(r.Range(1, 2)), r.Range(0, 1), r.Range(1, 3)
			case 1:
				qr, qs = rd+r.Range(1, 2), r.Range(1, 3)
			default:
				if st < 3 {
					qs = st + 1
				} else {
					qr, qs = rd+1, r.Range(1, 2)
				}
			}
			qb, qt = uint64(r.Range(0, 9)), ts+int64(r.Range(0, 5))
			h, rd, st, body, ts = qh, qr, qs, qb, qt
		case k < 55: // same again
		case k < 70: // timestamp only
			qt = ts + int64(r.Range(1, 9))
		case k < 80: // conflicting body
			qb = body + uint64(r.Range(1, 3))
		case k < 84: // conflicting body and timestamp
			qb, qt = body+1, ts+1
		case k < 92: // lower
			switch r.Intn(3) {
			case 0:
				qh = h - int64(r.Range(1, 2))
			case 1:
				qr = rd - r.Range(1, 2)
			default:
				qs = r.Range(1, 3)
			}
			if r.Bool() {
				qb = uint64(r.Range(0, 9))
			}
		default: // vote vs proposal at the same height/round
			qs = r.Range(1, 3)
			if r.Bool() {
				qb = uint64(r.Range(0, 9))
			}
		}
		if qt < 0 {
			qt = 0
		}
		line := emit(qh, qr, qs, qb, qt)
		if !failing && r.Chance(cutPct) {
			line = "cut " + kit.Pick(r, []string{"open", "write", "rename", "after"}) + " " + line
		}
		ops = append(ops, line)
	}
	g.cse("r", ops...)
}

func malformed(g *gen) {
	r := g.r
	n := r.Range(1, 12)
	var ops []string
	ints := []string{"0", "1", "-1", "2", "9223372036854775807", "-9223372036854775808", "9223372036854775808", "x", "", "3"}
	for i := 0; i < n; i++ {
		switch r.Intn(8) {
		case 0:
			ops = append(ops, "crash "+kit.Pick(r, ints))
		case 1:
			ops = append(ops, "failsave "+kit.Pick(r, []string{"", "maybe", "on off", "1"}))
		case 2:
			ops = append(ops, "cut "+kit.Pick(r, []string{"nowhere", "open", "rename vote", "after prop 1"}))
		case 3:
			ops = append(ops, fmt.Sprintf("vote %s %s %s %s %s", kit.Pick(r, ints), kit.Pick(r, ints), kit.Pick(r, []string{"2", "3", "0", "1", "256", "-1", "7"}), kit.Pick(r, []string{"0", "1", "4294967295", "4294967296", "-1"}), kit.Pick(r, []string{"0", "5", "2147483647", "2147483648", "-1"})))
		case 4:
			ops = append(ops, fmt.Sprintf("prop %s %s %s %s", kit.Pick(r, ints), kit.Pick(r, ints), kit.Pick(r, []string{"0", "1", "4294967296"}), kit.Pick(r, []string{"0", "5", "2147483648"})))
		case 5:
			ops = append(ops, kit.Pick(r, []string{"sign 1 0 2 1 1", "vote", "prop 1", "vote 1 0 2 1", "vote 1 0 2 1 1 1", "VOTE 1 0 2 1 1"}))
		default:
			ops = append(ops, fmt.Sprintf("vote %d %d %d %d %d", r.Range(-1, 2), r.Range(-1, 1), r.Range(0, 4), r.Range(0, 2), r.Range(0, 3)))
		}
	}
	g.cse("m", ops...)
}

func generate(w *kit.Out, r *kit.Rand, tier string) {
	g := &gen{w: w, r: r, tier: tier}
	boundary(g)
	if tier == "thorough" {
		for i := 0; i < 900; i++ {
			random(g, 40, 25, 0, 12)
		}
		for i := 0; i < 100; i++ {
			random(g, 200, 25, 0, 8)
		}
		for i := 0; i < 50; i++ {
			random(g, 30, 15, 12, 8) // with real kills inside WriteFileAtomic (each one spawns a process: ~0.3 s CPU)
		}
		for i := 0; i < 100; i++ {
			malformed(g)
		}
		return
	}
	for i := 0; i < 600; i++ {
		random(g, 40, 25, 0, 12)
	}
	for i := 0; i < 4; i++ { // few: each real kill spawns a process (~0.3 s CPU)
		random(g, 20, 15, 15, 8)
	}
	for i := 0; i < 100; i++ {
		malformed(g)
	}
}

func main() {
	if len(os.Args) > 1 && os.Args[1] == "worker" {
		worker(os.Args[2:])
		return
	}
	runtime.GOMAXPROCS(2) // several harness processes run side by side; the work is sequential
	defer H.cleanup()
	kit.Main(&kit.Harness{
		Gen:   generate,
		Reset: H.reset,
		Exec:  exec1,
	})
}
