// Harness for C42: secret connections (tm2/pkg/p2p/conn/secret_connection.go).
//
// Two REAL SecretConnections A and B over an in-memory pipe that a man in the
// middle can edit, and a REAL SecretConnection A against a scripted peer.
// crypto/rand.Reader is replaced while a handshake runs, so the ephemeral keys
// are the ones named on the op line.
//
// ops (bytes hex, `e` empty, `-` absent; dir = ab | ba):
//
//	hs  <ephA> <seedA> <ephB> <seedB> | <ephPubA> <ephPubB> <dh|-> <okm> <pubA> <pubB> <sigA> <sigB>
//	      handshake of A and B (ephemeral private keys, static key secrets).  The
//	      tokens after `|` are the values of X25519 / HKDF / ed25519 for this line,
//	      computed by the generator with x/crypto + the standard library; the Lean
//	      driver uses them as its abstract primitives, this harness re-derives
//	      them (err:badclaims if they differ).
//	      -> ok remA=<key A authenticated> remB=<..> ab=<frames>:<digest> ba=<..> | err:A=<cls>,B=<cls>
//	hsx <ephA> <seedA> <incoming> | <ephPubA> <dh|-> <okm|-> <pubA> <sigA> <v>
//	      handshake of A alone: <incoming> is everything the peer will ever send
//	      (then EOF); v = ed25519 verdict for the (key, signature) the peer presents.
//	      -> ok rem=<key> w=<bytes A wrote> rest=<unread> | err:<cls>
//	w <dir> <data>          sender.Write(data)     -> ok n=<n> fr=<frames> d=<digest of the RAW bytes put on the wire>
//	                        (err:wire if they do not open under the derived key and the expected counters)
//	r <dir> <size>          receiver.Read(buf[:size]) -> ok <summ> | err:eof|short|decrypt|toolong
//	flip <dir> <off> <bit> | swap <dir> <i> <j> | dup <dir> <i> | drop <dir> <i> | trunc <dir> <n>
//	replay <dir> <k> | cross <dir> <k> | inject <dir> <bytes>
//	      man-in-the-middle edits of the bytes in flight (frames are 1044 bytes)
//	      -> ok q=<bytes in flight> | err:range
//
// Oracle (independent of the model): after `hs`, each side's RemotePubKey must be
// the other's public key (VIOL:wrong-remote-key); per direction the bytes returned
// by Read must always be a prefix of the bytes accepted by Write (VIOL:altered); a
// Read that consumes a frame must succeed iff that frame is, byte for byte, the
// next frame the sender produced (VIOL:tamper-accepted / VIOL:honest-frame-rejected);
// without tampering nothing is lost (VIOL:lost); `hsx` may succeed only with a key
// whose signature over A's challenge verifies (VIOL:unauthenticated-key) and must
// succeed for a fully honest peer (VIOL:honest-rejected); every frame a real
// connection writes, decrypted with the independently derived key, must carry
// nothing but the chunk — zero padding (VIOL:padding-leak; regression of the stale
// pool memory fixed by /repo commit 90b41c9888).
package main

import (
	"bytes"
	"crypto/ed25519"
	crand "crypto/rand"
	"crypto/sha256"
	"encoding/binary"
	"encoding/hex"
	"errors"
	"fmt"
	"io"
	"strings"
	"sync"
	"time"

	"golang.org/x/crypto/chacha20poly1305"
	"golang.org/x/crypto/curve25519"
	"golang.org/x/crypto/hkdf"

	gnoed "github.com/gnolang/gno/tm2/pkg/crypto/ed25519"
	"github.com/gnolang/gno/tm2/pkg/p2p/conn"
	"gnoverif/kit"
)

const (
	frameSize  = 1028
	sealedSize = 1044
	dataMax    = 1024
)

// ---------------------------------------------------------------- wire

type wire struct {
	mu       sync.Mutex
	c        *sync.Cond
	buf      []byte
	log      []byte
	blocking bool
	closed   bool
}

func newWire(blocking bool) *wire {
	w := &wire{blocking: blocking}
	w.c = sync.NewCond(&w.mu)
	return w
}

func (w *wire) read(p []byte) (int, error) {
	w.mu.Lock()
	defer w.mu.Unlock()
	for w.blocking && len(w.buf) == 0 && !w.closed {
		w.c.Wait()
	}
	if len(w.buf) == 0 {
		return 0, io.EOF
	}
	n := copy(p, w.buf)
	w.buf = w.buf[n:]
	return n, nil
}

func (w *wire) write(p []byte) (int, error) {
	w.mu.Lock()
	defer w.mu.Unlock()
	w.buf = append(w.buf, p...)
	w.log = append(w.log, p...)
	w.c.Broadcast()
	return len(p), nil
}

func (w *wire) close() {
	w.mu.Lock()
	w.closed = true
	w.c.Broadcast()
	w.mu.Unlock()
}

func (w *wire) setBlocking(b bool) {
	w.mu.Lock()
	w.blocking = b
	w.c.Broadcast()
	w.mu.Unlock()
}

func (w *wire) logLen() int {
	w.mu.Lock()
	defer w.mu.Unlock()
	return len(w.log)
}

type duplex struct{ r, w *wire }

func (d duplex) Read(p []byte) (int, error)  { return d.r.read(p) }
func (d duplex) Write(p []byte) (int, error) { return d.w.write(p) }
func (d duplex) Close() error                { d.w.close(); return nil }

// ---------------------------------------------------------------- deterministic randomness

type seqReader struct {
	mu sync.Mutex
	b  []byte
}

func (s *seqReader) Read(p []byte) (int, error) {
	s.mu.Lock()
	defer s.mu.Unlock()
	if len(s.b) == 0 {
		return 0, io.ErrUnexpectedEOF
	}
	n := copy(p, s.b)
	s.b = s.b[n:]
	return n, nil
}

// ---------------------------------------------------------------- independent derivations

const hkdfInfo = "TENDERMINT_SECRET_CONNECTION_KEY_AND_CHALLENGE_GEN"

func ephPub(priv []byte) []byte {
	p, err := curve25519.X25519(priv, curve25519.Basepoint)
	if err != nil {
		panic(err)
	}
	return p
}

func dhOf(priv, pub []byte) []byte {
	s, err := curve25519.X25519(priv, pub)
	if err != nil {
		return nil
	}
	return s
}

func okmOf(dh []byte) []byte {
	r := hkdf.New(sha256.New, dh, nil, []byte(hkdfInfo))
	out := make([]byte, 96)
	if _, err := io.ReadFull(r, out); err != nil {
		panic(err)
	}
	return out
}

func staticKey(seed []byte) ed25519.PrivateKey {
	h := sha256.Sum256(seed)
	return ed25519.NewKeyFromSeed(h[:])
}

func pubOf(seed []byte) []byte { return []byte(staticKey(seed).Public().(ed25519.PublicKey)) }

// keys of a party whose ephemeral public key is loc, talking to rem
func splitKeys(okm, loc, rem []byte) (recv, send, challenge []byte) {
	least := bytes.Compare(loc, rem) < 0
	if !least && bytes.Equal(loc, rem) {
		least = true // sort32 returns bar as lo when equal; bytes.Equal(loc, lo) is then true
	}
	if least {
		return okm[0:32], okm[32:64], okm[64:96]
	}
	return okm[32:64], okm[0:32], okm[64:96]
}

func nonceOf(ctr uint64) []byte {
	n := make([]byte, 12)
	binary.LittleEndian.PutUint64(n[4:], ctr)
	return n
}

func sealFrame(key []byte, ctr uint64, declared uint32, payload []byte) []byte {
	a, _ := chacha20poly1305.New(key)
	fr := make([]byte, frameSize)
	binary.LittleEndian.PutUint32(fr, declared)
	copy(fr[4:], payload)
	return a.Seal(nil, nonceOf(ctr), fr, nil)
}

// material of sealed frames from counter ctr on; ok=false if a frame does not open;
// dirty = number of non-zero padding bytes found behind the chunks
func frameMaterial(key []byte, wire []byte, ctr uint64) (mat []byte, frames int, ok bool, dirty int) {
	a, _ := chacha20poly1305.New(key)
	for len(wire) >= sealedSize {
		fr, err := a.Open(nil, nonceOf(ctr), wire[:sealedSize], nil)
		if err != nil {
			return nil, frames, false, dirty
		}
		l := binary.LittleEndian.Uint32(fr)
		if l > dataMax {
			return nil, frames, false, dirty
		}
		for _, b := range fr[4+l:] {
			if b != 0 {
				dirty++
			}
		}
		var c [8]byte
		binary.LittleEndian.PutUint64(c[:], ctr)
		mat = append(mat, c[:]...)
		mat = append(mat, fr[:4+l]...)
		wire = wire[sealedSize:]
		ctr++
		frames++
	}
	return mat, frames, true, dirty
}

func digest8(b []byte) string {
	h := sha256.Sum256(b)
	return hex.EncodeToString(h[:8])
}

func summ(b []byte) string {
	if len(b) <= 40 {
		return fmt.Sprintf("%d:%s", len(b), kit.Hex(append([]byte{}, b...)))
	}
	h := sha256.Sum256(b)
	return fmt.Sprintf("%d:#%s", len(b), hex.EncodeToString(h[:16]))
}

func wsum(key, w []byte) (string, int) {
	if len(w) < 35 {
		return "undecryptable", 0
	}
	_, n, ok, dirty := frameMaterial(key, w[35:], 0)
	if !ok {
		return "undecryptable", dirty
	}
	return fmt.Sprintf("%d:%s", n, digest8(w)), dirty
}

func encEph(pub []byte) []byte { return append([]byte{0x22, 0x0a, 0x20}, pub...) }

func encAuth(key, sig []byte) []byte {
	body := append([]byte{0x0a, byte(len(key))}, key...)
	body = append(body, 0x12, byte(len(sig)))
	body = append(body, sig...)
	return append([]byte{byte(len(body))}, body...)
}

// ---------------------------------------------------------------- error classes

func readCls(err error) string {
	s := err.Error()
	switch {
	case errors.Is(err, io.EOF):
		return "eof"
	case errors.Is(err, io.ErrUnexpectedEOF):
		return "short"
	case strings.Contains(s, "failed to decrypt SecretConnection"):
		return "decrypt"
	case strings.Contains(s, "chunkLength is greater than dataMaxSize"):
		return "toolong"
	case strings.Contains(s, "read overflow"):
		return "overflow"
	}
	return ""
}

// The stage (ephemeral-key exchange or auth-signature exchange) is NOT part of the
// class: async.Parallel returns at the first aborting task without waiting for the
// other one, so what the failing side had written by then is a race.
func hsCls(err error) string {
	s := err.Error()
	switch {
	case errors.Is(err, conn.ErrSmallOrderRemotePubKey):
		return "smallorder"
	case strings.Contains(s, "challenge verification failed"):
		return "challenge"
	case strings.Contains(s, "low order point"):
		return "dh"
	}
	if c := readCls(err); c != "" {
		return c
	}
	return "decode"
}

// ---------------------------------------------------------------- state

type dirState struct {
	w *wire
	// oracle bookkeeping
	sent      [][]byte // sealed frames the sender produced, in order (handshake frame first)
	written   []byte   // bytes accepted by Write
	delivered []byte   // bytes returned by Read
	accepted  int      // frames the receiver accepted so far
	tampered  bool
	sendKey   []byte
	sendCtr   uint64
}

type state struct {
	a, b   *conn.SecretConnection
	ab, ba *dirState
}

var st *state

func reset() { st = nil }

// ---------------------------------------------------------------- handshakes

type hsResult struct {
	sc  *conn.SecretConnection
	err error
}

func runPair(ephA, seedA, ephB, seedB []byte) (ra, rb hsResult, wab, wba *wire, timedOut bool) {
	wab, wba = newWire(true), newWire(true)
	old := crand.Reader
	crand.Reader = &seqReader{b: append(append([]byte{}, ephA...), ephB...)}
	defer func() { crand.Reader = old }()
	ka := gnoed.GenPrivKeyFromSecret(seedA)
	kb := gnoed.GenPrivKeyFromSecret(seedB)
	ca, cb := make(chan hsResult, 1), make(chan hsResult, 1)
	go func() {
		// no close on failure: async.Parallel returns at the first failing task, the
		// sibling task may still be about to write; closing here would race with it
		sc, err := conn.MakeSecretConnection(duplex{r: wba, w: wab}, ka)
		ca <- hsResult{sc, err}
	}()
	// A draws its ephemeral key before it writes: wait for its first message
	deadline := time.Now().Add(60 * time.Second)
	for wab.logLen() < 35 && time.Now().Before(deadline) {
		time.Sleep(20 * time.Microsecond)
	}
	go func() {
		sc, err := conn.MakeSecretConnection(duplex{r: wab, w: wba}, kb)
		cb <- hsResult{sc, err}
	}()
	got := 0
	to := time.After(90 * time.Second)
	for got < 2 {
		select {
		case ra = <-ca:
			got++
		case rb = <-cb:
			got++
		case <-to:
			wab.close()
			wba.close()
			return ra, rb, wab, wba, true
		}
	}
	wab.setBlocking(false)
	wba.setBlocking(false)
	return
}

type claims struct {
	ephPubA, ephPubB, dh, okm, pubA, pubB, sigA, sigB []byte
}

func deriveHs(ephA, seedA, ephB, seedB []byte) claims {
	var c claims
	c.ephPubA, c.ephPubB = ephPub(ephA), ephPub(ephB)
	c.dh = dhOf(ephA, c.ephPubB)
	if c.dh != nil {
		c.okm = okmOf(c.dh)
	} else {
		c.okm = make([]byte, 96)
	}
	c.pubA, c.pubB = pubOf(seedA), pubOf(seedB)
	c.sigA = ed25519.Sign(staticKey(seedA), c.okm[64:96])
	c.sigB = ed25519.Sign(staticKey(seedB), c.okm[64:96])
	return c
}

func hsLine(ephA, seedA, ephB, seedB []byte) string {
	c := deriveHs(ephA, seedA, ephB, seedB)
	return fmt.Sprintf("hs %s %s %s %s | %s %s %s %s %s %s %s %s", kit.Hex(ephA), kit.Hex(seedA), kit.Hex(ephB), kit.Hex(seedB),
		kit.Hex(c.ephPubA), kit.Hex(c.ephPubB), kit.Hex(c.dh), kit.Hex(c.okm), kit.Hex(c.pubA), kit.Hex(c.pubB), kit.Hex(c.sigA), kit.Hex(c.sigB))
}

func execHs(t []string) (string, string) {
	st = nil
	if len(t) != 14 || t[5] != "|" {
		return "err:badop", "-"
	}
	ephA, seedA, ephB, seedB := kit.MustUnHex(t[1]), kit.MustUnHex(t[2]), kit.MustUnHex(t[3]), kit.MustUnHex(t[4])
	if len(ephA) != 32 || len(ephB) != 32 {
		return "err:badop", "-"
	}
	if hsLine(ephA, seedA, ephB, seedB) != strings.Join(t, " ") {
		return "err:badclaims", "-"
	}
	c := deriveHs(ephA, seedA, ephB, seedB)
	ra, rb, wab, wba, timedOut := runPair(ephA, seedA, ephB, seedB)
	if timedOut {
		return "err:timeout", "-"
	}
	if ra.err != nil || rb.err != nil {
		f := func(r hsResult) string {
			if r.err == nil {
				return "ok"
			}
			return hsCls(r.err)
		}
		return fmt.Sprintf("err:A=%s,B=%s", f(ra), f(rb)), "ok"
	}
	_, sendA, _ := splitKeys(c.okm, c.ephPubA, c.ephPubB)
	_, sendB, _ := splitKeys(c.okm, c.ephPubB, c.ephPubA)
	remA := ra.sc.RemotePubKey()
	remB := rb.sc.RemotePubKey()
	sumA, dirtyA := wsum(sendA, wab.log)
	sumB, dirtyB := wsum(sendB, wba.log)
	out := fmt.Sprintf("ok remA=%s remB=%s ab=%s ba=%s", hex.EncodeToString(remA[:]), hex.EncodeToString(remB[:]), sumA, sumB)
	st = &state{a: ra.sc, b: rb.sc,
		ab: &dirState{w: wab, sendKey: sendA, sendCtr: 1, accepted: 1},
		ba: &dirState{w: wba, sendKey: sendB, sendCtr: 1, accepted: 1}}
	if len(wab.log) >= 35+sealedSize {
		st.ab.sent = [][]byte{append([]byte{}, wab.log[35:35+sealedSize]...)}
	}
	if len(wba.log) >= 35+sealedSize {
		st.ba.sent = [][]byte{append([]byte{}, wba.log[35:35+sealedSize]...)}
	}
	orc := "ok"
	if !bytes.Equal(remA[:], c.pubB) || !bytes.Equal(remB[:], c.pubA) {
		orc = "VIOL:wrong-remote-key after a successful handshake a side holds a key that is not its peer's"
	} else if dirtyA+dirtyB > 0 {
		orc = fmt.Sprintf("VIOL:padding-leak %d non-zero padding bytes in the handshake frames", dirtyA+dirtyB)
	}
	return out, orc
}

// what a scripted peer presents, as the oracle reads it (independent parser)
type presented struct {
	honest bool   // every stage canonical and the signature verifies
	key    []byte // the key it claims (nil if it never got that far)
	valid  bool   // ed25519 verdict for (key, challenge, sig)
}

func parsePeer(ephA []byte, incoming []byte) (p presented, dh, okm []byte) {
	if len(incoming) < 35 || incoming[0] != 0x22 || incoming[1] != 0x0a || incoming[2] != 0x20 {
		return
	}
	remEph := incoming[3:35]
	dh = dhOf(ephA, remEph)
	if dh == nil {
		return
	}
	okm = okmOf(dh)
	recv, _, challenge := splitKeys(okm, ephPub(ephA), remEph)
	a, _ := chacha20poly1305.New(recv)
	rest := incoming[35:]
	var stream []byte
	ctr := uint64(0)
	clean := true
	for len(rest) >= sealedSize {
		fr, err := a.Open(nil, nonceOf(ctr), rest[:sealedSize], nil)
		if err != nil {
			clean = false
			break
		}
		l := binary.LittleEndian.Uint32(fr)
		if l > dataMax {
			clean = false
			break
		}
		stream = append(stream, fr[4:4+l]...)
		rest = rest[sealedSize:]
		ctr++
	}
	// canonical auth message: 0x64 0a 20 key 12 40 sig
	if len(stream) >= 101 && stream[0] == 0x64 && stream[1] == 0x0a && stream[2] == 0x20 && stream[35] == 0x12 && stream[36] == 0x40 {
		p.key = stream[3:35]
		sig := stream[37:101]
		p.valid = ed25519.Verify(ed25519.PublicKey(p.key), challenge, sig)
		small := false
		for _, bl := range lowOrder {
			if bytes.Equal(bl, remEph) {
				small = true
			}
		}
		p.honest = clean && p.valid && !small && len(stream) == 101 && len(rest) == 0
	}
	return
}

func hsxLine(ephA, seedA, incoming []byte) string {
	pr, dh, okm := parsePeer(ephA, incoming)
	// the claims the model needs even when the oracle's strict parse stops early
	if dh == nil && len(incoming) >= 35 {
		dh = dhOf(ephA, incoming[3:35])
		if dh != nil {
			okm = okmOf(dh)
		}
	}
	sig := []byte{}
	if okm != nil {
		sig = ed25519.Sign(staticKey(seedA), okm[64:96])
	}
	v := 0
	if pr.valid {
		v = 1
	}
	okmTok := kit.Hex(okm)
	if okm == nil {
		okmTok = "e"
	}
	return fmt.Sprintf("hsx %s %s %s | %s %s %s %s %s %d", kit.Hex(ephA), kit.Hex(seedA), kit.Hex(incoming),
		kit.Hex(ephPub(ephA)), kit.Hex(dh), okmTok, kit.Hex(pubOf(seedA)), kit.Hex(sig), v)
}

func execHsx(t []string) (string, string) {
	st = nil
	if len(t) != 11 || t[4] != "|" {
		return "err:badop", "-"
	}
	ephA, seedA, incoming := kit.MustUnHex(t[1]), kit.MustUnHex(t[2]), kit.MustUnHex(t[3])
	if len(ephA) != 32 {
		return "err:badop", "-"
	}
	if hsxLine(ephA, seedA, incoming) != strings.Join(t, " ") {
		return "err:badclaims", "-"
	}
	in, out := newWire(false), newWire(false)
	in.buf = append([]byte{}, incoming...)
	old := crand.Reader
	crand.Reader = &seqReader{b: append([]byte{}, ephA...)}
	sc, err := conn.MakeSecretConnection(duplex{r: in, w: out}, gnoed.GenPrivKeyFromSecret(seedA))
	crand.Reader = old
	pr, _, _ := parsePeer(ephA, incoming)
	if err != nil {
		orc := "ok"
		if pr.honest {
			orc = "VIOL:honest-rejected a peer that followed the protocol was refused: " + err.Error()
		}
		return "err:" + hsCls(err), orc
	}
	rem := sc.RemotePubKey()
	orc := "ok"
	if pr.key == nil || !bytes.Equal(pr.key, rem[:]) || !pr.valid {
		orc = "VIOL:unauthenticated-key the handshake succeeded with a key whose signature over the challenge does not verify"
	}
	return fmt.Sprintf("ok rem=%s w=%d rest=%d", hex.EncodeToString(rem[:]), out.logLen(), len(in.buf)), orc
}

// ---------------------------------------------------------------- data phase

func (s *state) dir(d string) (*dirState, *conn.SecretConnection, *conn.SecretConnection, *dirState) {
	if d == "ab" {
		return s.ab, s.a, s.b, s.ba
	}
	return s.ba, s.b, s.a, s.ab
}

func frameAt(q []byte, i int) []byte {
	if i < 0 || (i+1)*sealedSize > len(q) {
		return nil
	}
	return q[i*sealedSize : (i+1)*sealedSize]
}

func execData(t []string) (string, string) {
	if len(t) < 3 || (t[1] != "ab" && t[1] != "ba") {
		return "err:badop", "-"
	}
	known := map[string]int{"w": 3, "r": 3, "flip": 4, "swap": 4, "dup": 3, "drop": 3, "trunc": 3, "replay": 3, "cross": 3, "inject": 3}
	if n, ok := known[t[0]]; !ok || n != len(t) {
		return "err:badop", "-"
	}
	if st == nil {
		return "err:nohs", "-"
	}
	d, snd, rcv, other := st.dir(t[1])
	w := d.w
	switch t[0] {
	case "w":
		data, err := kit.UnHex(t[2])
		if err != nil || data == nil {
			return "err:badop", "-"
		}
		before := len(w.log)
		n, werr := snd.Write(data)
		added := w.log[before:]
		for i := 0; i+sealedSize <= len(added); i += sealedSize {
			d.sent = append(d.sent, append([]byte{}, added[i:i+sealedSize]...))
		}
		d.written = append(d.written, data[:n]...)
		orc := "ok"
		if werr != nil || n != len(data) {
			orc = fmt.Sprintf("VIOL:short-write Write accepted %d of %d bytes, err=%v", n, len(data), werr)
		}
		mat, frames, ok, dirty := frameMaterial(d.sendKey, added, d.sendCtr)
		if !ok || len(added)%sealedSize != 0 {
			return "err:wire", orc
		}
		d.sendCtr += uint64(frames)
		// the frames carry exactly the data, in 1024-byte chunks under consecutive counters
		var chunks []byte
		for m := mat; len(m) >= 12; {
			l := int(binary.LittleEndian.Uint32(m[8:12]))
			chunks = append(chunks, m[12:12+l]...)
			m = m[12+l:]
		}
		if orc == "ok" && !bytes.Equal(chunks, data[:n]) {
			orc = "VIOL:wire-content the frames written do not carry the data written"
		}
		if orc == "ok" && dirty > 0 {
			orc = fmt.Sprintf("VIOL:padding-leak %d non-zero padding bytes behind the chunk(s) of this Write", dirty)
		}
		return fmt.Sprintf("ok n=%d fr=%d d=%s", n, frames, digest8(added)), orc
	case "r":
		size, err := parseNat(t[2])
		if err {
			return "err:badop", "-"
		}
		if size > 1<<20 {
			return "err:badop", "-"
		}
		before := append([]byte{}, w.buf...)
		buf := make([]byte, size)
		n, rerr := rcv.Read(buf)
		consumed := len(before) - len(w.buf)
		var viol []string
		if rerr == nil {
			d.delivered = append(d.delivered, buf[:n]...)
		} else if n != 0 {
			d.delivered = append(d.delivered, buf[:n]...)
		}
		if !bytes.HasPrefix(d.written, d.delivered) {
			viol = append(viol, "VIOL:altered the bytes returned by Read are not a prefix of the bytes written")
		}
		switch {
		case consumed == sealedSize:
			f := before[:sealedSize]
			next := d.accepted < len(d.sent) && bytes.Equal(d.sent[d.accepted], f)
			if next && rerr != nil {
				viol = append(viol, "VIOL:honest-frame-rejected the next untouched frame was refused: "+rerr.Error())
			}
			if !next && rerr == nil {
				viol = append(viol, "VIOL:tamper-accepted a frame that is not the sender's next frame was accepted")
			}
			if rerr == nil {
				d.accepted++
			}
		case consumed > 0:
			if rerr == nil {
				viol = append(viol, "VIOL:tamper-accepted a truncated frame was accepted")
			}
		default:
			if rerr != nil && !d.tampered && !bytes.Equal(d.written, d.delivered) {
				viol = append(viol, "VIOL:lost an untampered connection reports "+rerr.Error()+" before all written bytes were read")
			}
		}
		orc := "ok"
		if len(viol) > 0 {
			orc = viol[0]
		}
		if rerr != nil {
			c := readCls(rerr)
			if c == "" {
				c = "other"
			}
			return "err:" + c, orc
		}
		return "ok " + summ(buf[:n]), orc
	}
	// man-in-the-middle edits
	num := func(i int) (int, bool) {
		v, bad := parseNat(t[i])
		return v, bad
	}
	q := w.buf
	var nq []byte
	switch t[0] {
	case "flip":
		off, b1 := num(2)
		bit, b2 := num(3)
		if b1 || b2 {
			return "err:badop", "-"
		}
		if off >= len(q) || bit >= 8 {
			return "err:range", "-"
		}
		nq = append([]byte{}, q...)
		nq[off] ^= 1 << uint(bit)
	case "swap":
		i, b1 := num(2)
		j, b2 := num(3)
		if b1 || b2 {
			return "err:badop", "-"
		}
		fi, fj := frameAt(q, i), frameAt(q, j)
		if fi == nil || fj == nil {
			return "err:range", "-"
		}
		nq = append([]byte{}, q...)
		ci, cj := append([]byte{}, fi...), append([]byte{}, fj...)
		copy(nq[i*sealedSize:], cj)
		copy(nq[j*sealedSize:], ci)
	case "dup":
		i, b1 := num(2)
		if b1 {
			return "err:badop", "-"
		}
		f := frameAt(q, i)
		if f == nil {
			return "err:range", "-"
		}
		nq = append([]byte{}, q[:(i+1)*sealedSize]...)
		nq = append(nq, f...)
		nq = append(nq, q[(i+1)*sealedSize:]...)
	case "drop":
		i, b1 := num(2)
		if b1 {
			return "err:badop", "-"
		}
		if frameAt(q, i) == nil {
			return "err:range", "-"
		}
		nq = append([]byte{}, q[:i*sealedSize]...)
		nq = append(nq, q[(i+1)*sealedSize:]...)
	case "trunc":
		n, b1 := num(2)
		if b1 {
			return "err:badop", "-"
		}
		if n > len(q) {
			return "err:range", "-"
		}
		nq = append([]byte{}, q[:n]...)
	case "replay", "cross":
		k, b1 := num(2)
		if b1 {
			return "err:badop", "-"
		}
		src := d.sent
		if t[0] == "cross" {
			src = other.sent
		}
		if k >= len(src) {
			return "err:range", "-"
		}
		nq = append(append([]byte{}, q...), src[k]...)
	case "inject":
		bs, err := kit.UnHex(t[2])
		if err != nil || bs == nil {
			return "err:badop", "-"
		}
		nq = append(append([]byte{}, q...), bs...)
	}
	w.buf = nq
	d.tampered = true
	return fmt.Sprintf("ok q=%d", len(nq)), "-"
}

func parseNat(s string) (int, bool) {
	if s == "" || len(s) > 9 {
		return 0, true
	}
	n := 0
	for _, c := range s {
		if c < '0' || c > '9' {
			return 0, true
		}
		n = n*10 + int(c-'0')
	}
	return n, false
}

func exec(t []string) (impl, oracle string) {
	defer func() {
		if v := recover(); v != nil {
			if s, ok := v.(string); ok && strings.HasPrefix(s, "bad hex token") {
				impl, oracle = "err:badop", "-"
				return
			}
			panic(v)
		}
	}()
	if len(t) == 0 {
		return "err:badop", "-"
	}
	switch t[0] {
	case "hs":
		return execHs(t)
	case "hsx":
		return execHsx(t)
	}
	return execData(t)
}

// ---------------------------------------------------------------- generator

var lowOrder = [][]byte{
	mustHex("0000000000000000000000000000000000000000000000000000000000000000"),
	mustHex("0100000000000000000000000000000000000000000000000000000000000000"),
	mustHex("e0eb7a7c3b41b8ae1656e3faf19fc46ada098deb9c32b1fd866205165f49b800"),
	mustHex("5f9c95bca3508c24b1d0b1559c83ef5b04445cc4581c8e86d8224eddd09f1157"),
	mustHex("ecffffffffffffffffffffffffffffffffffffffffffffffffffffffffffff7f"),
	mustHex("edffffffffffffffffffffffffffffffffffffffffffffffffffffffffffff7f"),
	mustHex("eeffffffffffffffffffffffffffffffffffffffffffffffffffffffffffff7f"),
}

func mustHex(s string) []byte {
	b, err := hex.DecodeString(s)
	if err != nil {
		panic(err)
	}
	return b
}

func genHs(w *kit.Out, r *kit.Rand) {
	w.Op("%s", hsLine(r.Bytes(32), r.Bytes(1+r.Intn(8)), r.Bytes(32), r.Bytes(1+r.Intn(8))))
}

func payload(r *kit.Rand, n int) []byte {
	switch r.Intn(4) {
	case 0:
		return bytes.Repeat([]byte{byte(r.Intn(256))}, n)
	case 1:
		b := make([]byte, n)
		for i := range b {
			b[i] = byte(i * 7)
		}
		return b
	}
	return r.Bytes(n)
}

var writeSizes = []int{0, 1, 2, 1023, 1024, 1025, 2047, 2048, 2049, 3072, 3073}
var readSizes = []int{0, 1, 2, 7, 100, 1023, 1024, 1025, 2048, 5000}

// drain reads dir until eof/err shows up or max reads
func drain(w *kit.Out, r *kit.Rand, dir string, reads int) {
	for i := 0; i < reads; i++ {
		w.Op("r %s %d", dir, kit.Pick(r, readSizes[1:]))
	}
}

// peer script: what a scripted peer sends to A
type peerOpt struct {
	eph        []byte // peer's ephemeral private key (nil: use rawEphPub)
	rawEphPub  []byte
	seed       []byte // peer's static key secret
	claimKey   []byte // key put into the auth message (nil: own)
	signWith   []byte // secret of the signing key (nil: own)
	wrongChal  bool   // sign a different challenge
	flipSig    bool
	split      int    // split the auth message into two frames at this offset (0: one frame)
	useSendKey bool   // seal with A's SEND key (reflection-like)
	startCtr   uint64 // first frame counter
	cutAt      int    // truncate the whole script to this many bytes (-1: no)
	emptyFirst bool   // a zero-length frame before the auth message
	declared   int    // declared chunk length of the first frame (-1: real)
	extra      []byte // bytes appended after the script
}

func peerScript(ephA []byte, o peerOpt) []byte {
	var remEph []byte
	if o.eph != nil {
		remEph = ephPub(o.eph)
	} else {
		remEph = o.rawEphPub
	}
	out := encEph(remEph)
	dh := dhOf(ephA, remEph)
	if dh == nil {
		dh = make([]byte, 32) // A will fail before using it
	}
	okm := okmOf(dh)
	recvA, sendA, challenge := splitKeys(okm, ephPub(ephA), remEph)
	key := recvA
	if o.useSendKey {
		key = sendA
	}
	signSeed := o.seed
	if o.signWith != nil {
		signSeed = o.signWith
	}
	ch := challenge
	if o.wrongChal {
		ch = append([]byte{}, challenge...)
		ch[0] ^= 1
	}
	sig := ed25519.Sign(staticKey(signSeed), ch)
	if o.flipSig {
		sig[5] ^= 0x10
	}
	claim := pubOf(o.seed)
	if o.claimKey != nil {
		claim = o.claimKey
	}
	msg := encAuth(claim, sig)
	ctr := o.startCtr
	if o.emptyFirst {
		out = append(out, sealFrame(key, ctr, 0, nil)...)
		ctr++
	}
	parts := [][]byte{msg}
	if o.split > 0 && o.split < len(msg) {
		parts = [][]byte{msg[:o.split], msg[o.split:]}
	}
	for i, p := range parts {
		decl := uint32(len(p))
		if i == 0 && o.declared >= 0 {
			decl = uint32(o.declared)
		}
		out = append(out, sealFrame(key, ctr, decl, p)...)
		ctr++
	}
	out = append(out, o.extra...)
	if o.cutAt >= 0 && o.cutAt < len(out) {
		out = out[:o.cutAt]
	}
	return out
}

func genHsx(w *kit.Out, r *kit.Rand, o peerOpt) {
	ephA, seedA := r.Bytes(32), r.Bytes(1+r.Intn(8))
	if o.eph == nil && o.rawEphPub == nil {
		o.eph = r.Bytes(32)
	}
	if o.seed == nil {
		o.seed = r.Bytes(1 + r.Intn(8))
	}
	w.Op("%s", hsxLine(ephA, seedA, peerScript(ephA, o)))
}

func base() peerOpt { return peerOpt{cutAt: -1, declared: -1} }

func gen(w *kit.Out, r *kit.Rand, tier string) {
	scale := 1
	if tier == "thorough" {
		scale = 10
	}
	// ---- boundary table: stream sizes and chunkings
	w.Case("sizes")
	genHs(w, r)
	for _, n := range writeSizes {
		w.Op("w ab %s", kit.Hex(payload(r, n)))
		for _, s := range []int{0, 1, 1023, 1024, 1025} {
			w.Op("r ab %d", s)
		}
		drain(w, r, "ab", 5)
		w.Op("r ab 10")
	}
	for _, rs := range readSizes {
		w.Case(fmt.Sprintf("chunking-%d", rs))
		genHs(w, r)
		w.Op("w ba %s", kit.Hex(payload(r, 2500)))
		w.Op("w ba %s", kit.Hex(payload(r, 1)))
		w.Op("w ba %s", kit.Hex(payload(r, 1024)))
		k := 8
		if rs > 0 && rs < 100 {
			k = 40
		}
		for i := 0; i < k; i++ {
			w.Op("r ba %d", rs)
		}
		drain(w, r, "ba", 6)
	}
	// ---- every kind of tampering, each followed by reads
	tampers := []string{"flip ab 0 0", "flip ab 1043 7", "flip ab 500 3", "flip ab 1044 0", "swap ab 0 1", "swap ab 1 2", "dup ab 0", "dup ab 2",
		"drop ab 0", "drop ab 1", "trunc ab 1043", "trunc ab 1044", "trunc ab 1", "trunc ab 0", "trunc ab 2087", "replay ab 0", "replay ab 1",
		"cross ab 0", "cross ab 1", "inject ab 00", "inject ab " + kit.Hex(make([]byte, 1044)), "inject ab " + kit.Hex(r.Bytes(1044))}
	for i, tm := range tampers {
		w.Case(fmt.Sprintf("tamper-%d", i))
		genHs(w, r)
		w.Op("w ab %s", kit.Hex(payload(r, 700)))
		w.Op("w ab %s", kit.Hex(payload(r, 1500)))
		w.Op("w ba %s", kit.Hex(payload(r, 30)))
		if i%2 == 1 {
			w.Op("r ab 100") // the receiver is in the middle of a chunk when the tampering happens
		}
		w.Op("%s", tm)
		drain(w, r, "ab", 12)
		w.Op("w ab %s", kit.Hex(payload(r, 10)))
		drain(w, r, "ab", 4)
		w.Op("r ba 100")
		w.Op("r ba 100")
	}
	// replay of an already delivered frame, later
	w.Case("replay-delivered")
	genHs(w, r)
	w.Op("w ab %s", kit.Hex(payload(r, 5)))
	w.Op("r ab 10")
	w.Op("replay ab 1")
	w.Op("r ab 10")
	w.Op("w ab %s", kit.Hex(payload(r, 6)))
	w.Op("r ab 10")
	w.Op("r ab 10")
	// equal ephemeral keys: both sides believe they are "least"
	w.Case("equal-eph")
	{
		e := r.Bytes(32)
		w.Op("%s", hsLine(e, []byte("a"), e, []byte("b")))
		w.Op("w ab 00")
	}
	// ---- scripted peers
	w.Case("peer-honest")
	genHsx(w, r, base())
	for _, sp := range []int{1, 2, 50, 100} {
		o := base()
		o.split = sp
		genHsx(w, r, o)
	}
	{
		o := base()
		o.extra = r.Bytes(10)
		genHsx(w, r, o)
	}
	w.Case("peer-substituted")
	{
		o := base()
		o.claimKey = pubOf([]byte("someone else"))
		genHsx(w, r, o)
		o = base()
		o.signWith = []byte("someone else")
		genHsx(w, r, o)
		o = base()
		o.wrongChal = true
		genHsx(w, r, o)
		o = base()
		o.flipSig = true
		genHsx(w, r, o)
		o = base()
		o.useSendKey = true
		genHsx(w, r, o)
		o = base()
		o.startCtr = 1
		genHsx(w, r, o)
		o = base()
		o.claimKey = make([]byte, 32)
		genHsx(w, r, o)
	}
	w.Case("peer-loworder")
	for _, lo := range lowOrder {
		o := base()
		o.rawEphPub = lo
		genHsx(w, r, o)
		hi := append([]byte{}, lo...)
		hi[31] ^= 0x80
		o.rawEphPub = hi
		genHsx(w, r, o)
	}
	w.Case("peer-truncated")
	for _, cut := range []int{0, 1, 2, 3, 34, 35, 36, 35 + 1043, 35 + 1044} {
		o := base()
		o.cutAt = cut
		genHsx(w, r, o)
	}
	{
		o := base()
		o.declared = 1025
		genHsx(w, r, o)
		o = base()
		o.declared = 100
		genHsx(w, r, o)
		o = base()
		o.declared = 1024
		genHsx(w, r, o)
	}
	// reflection: the peer echoes A's own bytes
	w.Case("peer-reflect")
	{
		ephA, seedA := r.Bytes(32), []byte("a")
		pa := ephPub(ephA)
		okm := okmOf(dhOf(ephA, pa))
		_, sendA, challenge := splitKeys(okm, pa, pa)
		sig := ed25519.Sign(staticKey(seedA), challenge)
		inc := append(encEph(pa), sealFrame(sendA, 0, 101, encAuth(pubOf(seedA), sig))...)
		w.Op("%s", hsxLine(ephA, seedA, inc))
	}
	// ---- structured random sessions
	for c := 0; c < 12*scale; c++ {
		w.Case(fmt.Sprintf("random-%d", c))
		genHs(w, r)
		tamperRate := []int{0, 0, 3, 10}[r.Intn(4)]
		for i := 0; i < 60; i++ {
			dir := kit.Pick(r, []string{"ab", "ab", "ba"})
			switch {
			case r.Chance(tamperRate):
				switch r.Intn(8) {
				case 0:
					w.Op("flip %s %d %d", dir, r.Intn(3000), r.Intn(8))
				case 1:
					w.Op("swap %s %d %d", dir, r.Intn(3), r.Intn(3))
				case 2:
					w.Op("dup %s %d", dir, r.Intn(3))
				case 3:
					w.Op("drop %s %d", dir, r.Intn(3))
				case 4:
					w.Op("trunc %s %d", dir, r.Intn(3200))
				case 5:
					w.Op("replay %s %d", dir, r.Intn(6))
				case 6:
					w.Op("cross %s %d", dir, r.Intn(6))
				case 7:
					w.Op("inject %s %s", dir, kit.Hex(r.Bytes(1+r.Intn(1100))))
				}
			case r.Chance(40):
				n := r.Intn(1500)
				if r.Chance(25) {
					n = kit.Pick(r, writeSizes)
				}
				w.Op("w %s %s", dir, kit.Hex(payload(r, n)))
			default:
				s := 1 + r.Intn(1500)
				if r.Chance(25) {
					s = kit.Pick(r, readSizes)
				}
				w.Op("r %s %d", dir, s)
			}
		}
	}
	for c := 0; c < 6*scale; c++ {
		w.Case(fmt.Sprintf("random-peer-%d", c))
		o := base()
		switch r.Intn(8) {
		case 0:
			o.split = 1 + r.Intn(100)
		case 1:
			o.flipSig = true
		case 2:
			o.wrongChal = true
		case 3:
			o.claimKey = r.Bytes(32)
		case 4:
			o.cutAt = r.Intn(35 + 1044)
		case 5:
			o.rawEphPub = r.Bytes(32)
		case 6:
			o.signWith = r.Bytes(4)
		}
		genHsx(w, r, o)
	}
	// ---- malformed stream
	w.Case("malformed")
	w.Op("w ab 00")
	w.Op("r ab 1")
	w.Op("flip ab 0 0")
	genHs(w, r)
	w.Op("w xx 00")
	w.Op("w ab zz")
	w.Op("r ab -1")
	w.Op("r ab x")
	w.Op("flip ab 0 9")
	w.Op("flip ab 99999 0")
	w.Op("swap ab 0 1")
	w.Op("dup ab 0")
	w.Op("drop ab 0")
	w.Op("trunc ab 1")
	w.Op("replay ab 7")
	w.Op("cross ab 7")
	w.Op("bogus")
	w.Op("hs 00 00")
	w.Op("w ab 00")
	for i := 0; i < 4*scale; i++ {
		w.Case(fmt.Sprintf("malformed-peer-%d", i))
		ephA := r.Bytes(32)
		var inc []byte
		switch i % 4 {
		case 0:
			inc = r.Bytes(r.Intn(40))
			if len(inc) > 0 {
				inc[0] |= 0x80 // a long length prefix
			}
		case 1:
			inc = append([]byte{0xff, 0xff, 0xff, 0xff, 0x0f}, r.Bytes(10)...) // > 1 MiB
		case 2:
			inc = append(encEph(ephPub(r.Bytes(32))), r.Bytes(1044)...) // garbage frame
		case 3:
			inc = append(encEph(ephPub(r.Bytes(32))), r.Bytes(500)...) // partial garbage frame
		}
		w.Op("%s", hsxLine(ephA, []byte("a"), inc))
	}
}

func main() {
	kit.Main(&kit.Harness{Gen: gen, Exec: exec, Reset: reset})
}
