// Harness for C02: transactions are atomic (BaseApp.runTx).
//
// A real sdk.BaseApp over memdb with a scripted ante handler and a scripted
// message handler (package gnoverif/runtxkit).  Every op is executed on TWO
// independent apps; their outputs must agree (determinism).
//
// Oracle (plain-map overlay, evaluated on what the real app shows — it never
// looks at the Lean model):
//
//	tx    failed  ⇒ deliver' = deliver ⊕ ante-writes (deliver if the ante did not complete),
//	                side cache unchanged, endTxHook never saw OK
//	      ok      ⇒ deliver' = deliver ⊕ ante-writes ⊕ all message writes, side cache ⊕ message writes
//	      check state and committed state untouched
//	check ok ⇒ check' = check ⊕ ante-writes, else unchanged; nothing else changes
//	sim   nothing changes
package main

import (
	"fmt"

	"gnoverif/kit"
	rk "gnoverif/runtxkit"
)

var wa, wb *rk.World

func reset() { wa, wb = nil, nil; vmReset() }

func oracle(o *rk.Obs) string {
	b, a := o.Before, o.After
	tx := o.Tx
	var ante, msgs []rk.Write
	if tx.Raw == nil {
		ante, msgs = tx.AnteWrites(), tx.MsgWrites()
	}
	viol := func(cls string, exp map[string]string, got map[string]string) string {
		return fmt.Sprintf("VIOL:%s res=%s expected=%s got=%s", cls, o.Res, rk.ShowMap(exp), rk.ShowMap(got))
	}
	if !rk.SameMap(b.Committed, a.Committed) {
		return viol("touched-committed", b.Committed, a.Committed)
	}
	switch o.Op {
	case "tx":
		if !rk.SameMap(b.Check, a.Check) {
			return viol("tx-touched-check", b.Check, a.Check)
		}
		if o.Res == "ok" {
			exp := rk.Overlay(rk.Overlay(b.Deliver, ante), msgs)
			if !rk.SameMap(a.Deliver, exp) {
				return viol("ok-tx-effects-missing", exp, a.Deliver)
			}
			expVM := rk.Overlay(b.VM, msgs)
			if !rk.SameMap(a.VM, expVM) || o.Hook != "ok" {
				return viol("ok-tx-cache-missing", expVM, a.VM)
			}
			return "ok"
		}
		exp := b.Deliver
		if o.AnteDone {
			exp = rk.Overlay(b.Deliver, ante)
		}
		if !rk.SameMap(a.Deliver, exp) {
			return viol("failed-tx-effects", exp, a.Deliver)
		}
		if !rk.SameMap(b.VM, a.VM) || o.Hook == "ok" {
			return viol("failed-tx-cache-trace", b.VM, a.VM)
		}
		return "ok"
	case "check":
		if !rk.SameMap(b.Deliver, a.Deliver) || b.HasBlock != a.HasBlock {
			return viol("check-touched-deliver", b.Deliver, a.Deliver)
		}
		if !rk.SameMap(b.VM, a.VM) || o.Hook != "none" || o.MsgsRan != 0 {
			return viol("check-ran-msgs", b.VM, a.VM)
		}
		exp := b.Check
		if o.Res == "ok" {
			exp = rk.Overlay(b.Check, ante)
		}
		if !rk.SameMap(a.Check, exp) {
			return viol("check-effects", exp, a.Check)
		}
		return "ok"
	case "sim":
		if !rk.SameMap(b.Deliver, a.Deliver) || !rk.SameMap(b.Check, a.Check) || !rk.SameMap(b.VM, a.VM) || o.Hook != "none" {
			return viol("sim-wrote", b.Deliver, a.Deliver)
		}
		return "ok"
	}
	return "-"
}

func exec(t []string) (string, string) {
	if len(t) > 0 {
		switch t[0] {
		case "vtx", "vsim", "vq", "vrestart":
			// second stream: differential replay through the real gno.land app (vm.go)
			return vmExec(t)
		}
	}
	if len(t) > 0 && t[0] == "init" {
		if len(t) != 2 {
			return "err:badop", "-"
		}
		mg, ok := rk.ParseI64(t[1])
		if !ok {
			return "err:badop", "-"
		}
		wa, wb = rk.NewWorld(mg), rk.NewWorld(mg)
		return "ok", "-"
	}
	outA, obs := wa.Exec(t)
	outB, _ := wb.Exec(t)
	if outA != outB {
		return outA, "VIOL:nondeterministic second run: " + outB
	}
	if obs == nil {
		return outA, "-"
	}
	return outA, oracle(obs)
}

// ---------------------------------------------------------------- generator

type g struct {
	o *kit.Out
	r *kit.Rand
	n int
}

func (x *g) caseHdr(name string) {
	x.n++
	x.o.Case(fmt.Sprintf("%s-%d", name, x.n))
}

// okMsg(i): a message that writes key i and burns 5 gas.
func okMsg(i int) string {
	return rk.MsgTok("M", rk.Steps(rk.W(rk.GenKeys[i%len(rk.GenKeys)], rk.GenVals[i%len(rk.GenVals)]), rk.C(5)))
}

const feeAnte = "A:b::w.x.66.01,w.y.73.01,c.10"

func (x *g) boundary() {
	o := x.o
	// 1–4 messages × failure kind × failure position, with a preceding
	// successful tx and a follow-up tx that depends on the resulting state.
	for n := 1; n <= 4; n++ {
		for pos := 0; pos < n; pos++ {
			for _, fk := range rk.FailKinds {
				x.caseHdr("fail-" + fk.Name)
				o.Op("init 0")
				o.Op("begin")
				o.Op(rk.TxLine("tx", 100, feeAnte, okMsg(0), okMsg(3)))
				msgs := []string{}
				for i := 0; i < n; i++ {
					if i == pos {
						msgs = append(msgs, rk.MsgTok("M", rk.Steps(rk.W("x.62", "04"), rk.D("x.61"), rk.C(3), fk.Steps, rk.W("y.62", "04"))))
					} else {
						msgs = append(msgs, okMsg(i+1))
					}
				}
				o.Op(rk.TxLine("tx", 100, "A:b::w.x.66.02,w.y.73.02,c.10", msgs...))
				// follow-up: succeeds only on the exact rolled-back state
				o.Op(rk.TxLine("tx", 100, "A:b::q.y.73.02,w.y.73.03", rk.MsgTok("M", rk.Steps(rk.Q("x.61", "01"), rk.Q("x.62", "-"), rk.W("x.63", "01")))))
				o.Op("end")
			}
			// unroutable / invalid message at pos
			for _, kind := range []string{"U", "V"} {
				x.caseHdr("msgkind-" + kind)
				o.Op("init 0")
				o.Op("begin")
				msgs := []string{}
				for i := 0; i < n; i++ {
					if i == pos {
						msgs = append(msgs, rk.MsgTok(kind, rk.W("x.62", "04")))
					} else {
						msgs = append(msgs, okMsg(i+1))
					}
				}
				o.Op(rk.TxLine("tx", 100, feeAnte, msgs...))
				o.Op(rk.TxLine("check", 100, feeAnte, msgs...))
				o.Op(rk.TxLine("sim", 100, feeAnte, msgs...))
				o.Op("end")
			}
		}
		// all messages succeed
		x.caseHdr("allok")
		o.Op("init 0")
		o.Op("begin")
		msgs := []string{}
		for i := 0; i < n; i++ {
			msgs = append(msgs, okMsg(i))
		}
		o.Op(rk.TxLine("tx", 100, feeAnte, msgs...))
		o.Op(rk.TxLine("check", 100, feeAnte, msgs...))
		o.Op(rk.TxLine("sim", 100, feeAnte, msgs...))
		o.Op("end")
		o.Op(rk.TxLine("sim", 100, feeAnte, msgs...))
		o.Op(rk.TxLine("check", 100, "A:b::q.x.66.01,w.x.66.05", msgs...))
		o.Op(rk.TxLine("sim", 100, "A:b::q.x.66.05", msgs...))
	}
	// ante variants
	antes := []string{
		"A:b::w.x.66.01,e",            // abort after a write
		"A:b::w.x.66.01,q.x.7a7a.01",  // abort by a failed requirement
		"A:bR::w.x.66.01,c.1000",      // out of gas, recovered by the ante → abort
		"A:b::w.x.66.01,c.1000",       // out of gas, not recovered → runTx's recover
		"A:b::w.x.66.01,p",            // panic
		"A:b::w.x.66.01,o",            // OutOfGasError panic
		"A:bR::w.x.66.01,o",           // the same, recovered
		"A:b::w.x.66.01,z",            // zero context
		"A:b::w.x.66.01,n",            // abort without error
		"A:b:w.x.66.01,e:",            // fails before installing the meter
		"A:b:w.x.66.01,c.7:w.x.66.02", // consumes on the incoming meter, then fine
		"A:b:c.7,p:",                  // panics before installing the meter
		"A:p::w.x.66.01,c.10",
		"A:k::w.x.66.01,c.10",
		"A:i::w.x.66.01,c.10",
		"A:p::w.x.66.01,c.1000",
		"A:pR::w.x.66.01,c.1000",
		"A:k::w.x.66.01,c.1000",
		"A:i::w.x.66.01,c.1000",
		"A:b::",
	}
	for _, a := range antes {
		for _, mg := range []int64{0, 500} {
			x.caseHdr("ante")
			o.Op(fmt.Sprintf("init %d", mg))
			o.Op("begin")
			o.Op(rk.TxLine("tx", 100, feeAnte, okMsg(0)))
			o.Op(rk.TxLine("tx", 100, a, okMsg(1), okMsg(2)))
			o.Op(rk.TxLine("check", 100, a, okMsg(1), okMsg(2)))
			o.Op(rk.TxLine("sim", 100, a, okMsg(1), okMsg(2)))
			o.Op(rk.TxLine("tx", 100, "A:b::q.x.66.01", rk.MsgTok("M", rk.Q("x.62", "-"))))
			o.Op("end")
		}
	}
	for _, gw := range []int64{-1, 0, 1} {
		x.caseHdr("gw")
		o.Op("init 100")
		o.Op("begin")
		o.Op(rk.TxLine("tx", gw, "A:b::w.x.66.01", rk.MsgTok("M", rk.Steps(rk.W("x.61", "01"), rk.C(1)))))
		o.Op(rk.TxLine("tx", gw, "A:p::w.x.66.02", rk.MsgTok("M", rk.Steps(rk.W("x.61", "02"), rk.C(1)))))
		o.Op("end")
	}
	// tx gas limit hit exactly / by one, at each message position
	for n := 1; n <= 4; n++ {
		for pos := 0; pos < n; pos++ {
			for _, extra := range []int64{0, 1} {
				x.caseHdr("txgas")
				o.Op("init 0")
				o.Op("begin")
				msgs := []string{}
				for i := 0; i < n; i++ {
					c := int64(10)
					if i == pos {
						c += extra
					}
					msgs = append(msgs, rk.MsgTok("M", rk.Steps(rk.W(rk.GenKeys[i], "01"), rk.C(c), rk.W(rk.GenKeys[i], "02"))))
				}
				o.Op(rk.TxLine("tx", 10+int64(n)*10, feeAnte, msgs...))
				o.Op("end")
			}
		}
	}
	// block gas: the pinned witness and its neighbours
	type bt struct {
		max    int64
		first  int64
		second int64
		tail   string // last step of the second tx's message
	}
	for _, c := range []bt{
		{100, 60, 61, ""}, {100, 60, 40, ""}, {100, 60, 41, ""}, {100, 60, 39, ""},
		{100, 60, 61, "e"}, {100, 60, 61, "p"}, {100, 60, 61, "o"}, {100, 60, 40, "e"}, {100, 60, 40, "p"},
		{100, 100, 1, ""}, {100, 101, 1, ""}, {1, 1, 1, ""}, {1, 0, 1, ""},
	} {
		x.caseHdr("blockgas")
		o.Op(fmt.Sprintf("init %d", c.max))
		o.Op("begin")
		o.Op(rk.TxLine("tx", 200, "A:b::w.x.66.01", rk.MsgTok("M", rk.Steps(rk.W("x.61", "01"), rk.C(c.first)))))
		st := []string{rk.W("x.62", "02"), rk.C(c.second)}
		if c.tail != "" {
			st = append(st, c.tail)
		}
		o.Op(rk.TxLine("tx", 200, "A:b::w.x.66.02", rk.MsgTok("M", rk.Steps(st...)), rk.MsgTok("M", rk.W("y.61", "03"))))
		o.Op(rk.TxLine("tx", 200, "A:b::w.x.66.03", rk.MsgTok("M", rk.W("x.63", "03"))))
		o.Op(rk.TxLine("check", 200, "A:b::w.x.66.04", rk.MsgTok("M", rk.W("x.63", "04"))))
		o.Op("end")
		o.Op("begin")
		o.Op(rk.TxLine("tx", 200, "A:b::w.x.66.05", rk.MsgTok("M", rk.Steps(rk.Q("x.62", "-"), rk.W("x.63", "05")))))
		o.Op("end")
	}
	// undecodable bytes, empty message list, bad max gas, ops out of order
	x.caseHdr("misc")
	o.Op("begin")
	o.Op("init 100")
	o.Op("tx 10 A:b:: M:")
	o.Op("end")
	o.Op("begin")
	o.Op("begin")
	o.Op("tx raw ff")
	o.Op("tx raw 00")
	o.Op("check raw ff")
	o.Op("sim raw ff")
	o.Op("tx 10 A:b::w.x.66.01")
	o.Op("check 10 A:b::w.x.66.01")
	o.Op("sim 10 A:b::w.x.66.01")
	o.Op("end")
	o.Op("end")
	x.caseHdr("badmaxgas")
	o.Op("init -2")
	o.Op("check 10 A:b::w.x.66.01 M:")
	o.Op("begin")
	o.Op("tx 10 A:b:: M:")
	o.Op("end")
	x.caseHdr("maxgas-1")
	o.Op("init -1")
	o.Op("begin")
	o.Op(rk.TxLine("tx", 1000000, feeAnte, rk.MsgTok("M", rk.C(999990))))
	o.Op("end")
}

func (x *g) randomTx(op string, seq *int) string {
	r := x.r
	gw := kit.Pick(r, []int64{10, 20, 50, 70, 100, 100, 100})
	kind := "b"
	switch v := r.Intn(100); {
	case v < 6:
		kind = "p"
	case v < 9:
		kind = "k"
	case v < 12:
		kind = "i"
	}
	if r.Chance(15) {
		kind += "R"
	}
	var as []string
	if r.Chance(70) {
		cur := "-"
		if *seq > 0 {
			cur = fmt.Sprintf("%02x", *seq)
		}
		as = append(as, rk.Q("y.73", cur), rk.W("y.73", fmt.Sprintf("%02x", *seq+1)))
	}
	as = append(as, rk.W("x.66", kit.Pick(r, rk.GenVals)), rk.C(int64(r.Intn(int(gw/5)+1))))
	anteFails := false
	if r.Chance(10) {
		as = append(as, kit.Pick(r, []string{"e", "p", "o", "c.100000", "z", "n", "q.x.7a7a.01"}))
		anteFails = true
	}
	pre := ""
	if r.Chance(8) {
		pre = kit.Pick(r, []string{"c.3", "w.y.61.04", "c.2,w.y.61.04", "e", "p"})
		if pre == "e" || pre == "p" {
			anteFails = true
		}
	}
	if !anteFails && op == "tx" && len(as) > 2 {
		*seq++
	}
	n := r.Range(1, 4)
	var msgs []string
	failAt := -1
	if r.Chance(25) {
		failAt = r.Intn(n)
	}
	for i := 0; i < n; i++ {
		st := rk.RandMsgSteps(r, gw/int64(n+1))
		kind := "M"
		if i == failAt {
			f := kit.Pick(r, rk.FailKinds)
			st = rk.Steps(st, f.Steps, rk.W(kit.Pick(r, rk.GenKeys), "04"))
			if r.Chance(10) {
				kind = kit.Pick(r, []string{"U", "V"})
			}
		}
		msgs = append(msgs, rk.MsgTok(kind, st))
	}
	return rk.TxLine(op, gw, rk.AnteTok(kind, pre, rk.Steps(as...)), msgs...)
}

func (x *g) random(cases int) {
	r, o := x.r, x.o
	for c := 0; c < cases; c++ {
		x.caseHdr("rand")
		o.Op(fmt.Sprintf("init %d", kit.Pick(r, []int64{0, -1, 60, 100, 150, 300, 1000})))
		seq := 0
		blocks := r.Range(1, 3)
		for b := 0; b < blocks; b++ {
			if r.Chance(15) {
				o.Op(x.randomTx(kit.Pick(r, []string{"check", "sim"}), &seq))
			}
			o.Op("begin")
			n := r.Range(1, 6)
			for i := 0; i < n; i++ {
				switch v := r.Intn(100); {
				case v < 72:
					o.Op(x.randomTx("tx", &seq))
				case v < 86:
					o.Op(x.randomTx("check", &seq))
				default:
					o.Op(x.randomTx("sim", &seq))
				}
			}
			o.Op("end")
		}
	}
}

func (x *g) malformed() {
	x.caseHdr("malformed")
	x.o.Op("init 100")
	x.o.Op("begin")
	for _, l := range rk.Malformed {
		x.o.Op("%s", l)
	}
	x.o.Op(rk.TxLine("tx", 100, feeAnte, okMsg(0)))
	x.o.Op("end")
	x.caseHdr("malformed-noapp")
	for _, l := range rk.Malformed {
		x.o.Op("%s", l)
	}
}

func gen(o *kit.Out, r *kit.Rand, tier string) {
	x := &g{o: o, r: r}
	x.boundary()
	if tier == "thorough" {
		x.random(2500)
	} else {
		x.random(250)
	}
	x.malformed()
	// second stream (vm.go, vmgen.go); forked last, so the lines above do not depend on it
	vmGen(o, r.Fork(), tier)
}

func main() {
	kit.Main(&kit.Harness{Gen: gen, Reset: reset, Exec: exec})
}
