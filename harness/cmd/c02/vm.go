// C02, second stream: differential replay through the REAL gno.land app.
//
// Two instances of gnoland.NewAppWithOptions over memdb live in the process:
//
//	A  receives the history as written: every tx (really signed, through
//	   DeliverTx, one tx per block), every Simulate / Query, every restart
//	   (a NEW app instance over the same memdb: fresh keeper caches);
//	B  the "ideal" run: every tx the generator constructed to fail (mark F) is
//	   replaced by a tx with the same signers and fee whose messages do
//	   nothing (one self-send per signer), and Simulate / Query / restart
//	   lines are skipped.
//
// Oracle (class failed-tx-trace), evaluated on real results and real store
// dumps, never on the Lean model:
//
//	(1) a tx that FAILED in A changed, in the full logical dump of both
//	    stores, exactly: fee payer -fee, fee collector +fee, every signer's
//	    sequence +1 (and the block header);
//	(2) after every op the full logical dump of A equals that of B;
//	(3) every tx delivered to both worlds (mark S) has the same error type,
//	    data, events, gas wanted and gas used in A and in B;
//	(4) Simulate, Query and restart leave A's dump unchanged.
//
// A failed tx, a failed Simulate or a Query that left anything behind — in the
// stores or in the keeper's in-memory caches — shows up as (1)/(4) directly or
// as (2)/(3) on a later tx; a result that only holds with warm caches shows up
// after a restart.
//
// The impl-output column is a summary read back from A through ABCI queries
// (result class, the counters of the two counter realms, the deployed
// packages with their version, token balance and sequence deltas); the Lean
// model Model/C02Vm.lean computes the same line from the op text with the rule
// "failed ⇒ only the sequence moves".
//
// op lines (anything else answers err:badop):
//
//	vtx <F|S> <lo|hi> <fee> <msg> [<msg>...]
//	vsim <hi> <fee> <msg> [<msg>...]
//	vq get|bad|poke <ca|cb>          (bad: mutates, then panics; poke: mutates and returns)
//	vrestart
//	msg:  dep;<acct>;<ca|cb|lib|use|ip|ipw|bad>;<1|2>;<d|s>
//	      call;<acct>;<ca|cb>;<inc|incpanic|grow|spin>;<n>;<d|s>
//	      run;<acct>;<inc|incpanic|loop>;<n>
//	      send;<acct>;<acct>;<amount>
package main

import (
	"bytes"
	"fmt"
	"hash/maphash"
	"os"
	"reflect"
	"sort"
	"strconv"
	"strings"
	"time"
	"unsafe"

	"github.com/gnolang/gno/gno.land/pkg/gnoland"
	"github.com/gnolang/gno/gno.land/pkg/sdk/vm"
	"github.com/gnolang/gno/gnovm/pkg/gnolang"
	"github.com/gnolang/gno/tm2/pkg/amino"
	abci "github.com/gnolang/gno/tm2/pkg/bft/abci/types"
	bft "github.com/gnolang/gno/tm2/pkg/bft/types"
	"github.com/gnolang/gno/tm2/pkg/crypto"
	"github.com/gnolang/gno/tm2/pkg/crypto/secp256k1"
	"github.com/gnolang/gno/tm2/pkg/db/memdb"
	"github.com/gnolang/gno/tm2/pkg/sdk"
	"github.com/gnolang/gno/tm2/pkg/sdk/auth"
	"github.com/gnolang/gno/tm2/pkg/sdk/bank"
	"github.com/gnolang/gno/tm2/pkg/std"
	stypes "github.com/gnolang/gno/tm2/pkg/store/types"
)

const (
	vChainID = "verif"
	vT0      = int64(1_000_000)
	vGasLo   = int64(8_000_000)
	vGasHi   = int64(100_000_000)
	vNAcct   = 3
	vTokInit = int64(1_000_000_000_000)
	vTokMax  = int64(1_000_000_000_000_000) // the one "too much" amount is twice this; others are <= 1000
	vSpinN   = "1000000000"
)

// ---------------------------------------------------------------- ops

type vmsg struct {
	kind string // dep call run send
	from int
	to   int    // send
	pkg  string // dep: ca cb lib use ip ipw bad; call: ca cb
	ver  int    // dep
	fn   string // call: inc incpanic grow spin; run: inc incpanic loop
	n    int64  // call/run argument, send amount
	tiny bool   // max deposit 1ugnot
}

type vop struct {
	kind string // vtx vsim vq vrestart
	mark byte   // F S
	gas  int64
	fee  int64
	msgs []vmsg
	q    string // get bad poke
	rlm  string
}

func vAcct(s string) (int, bool) {
	if len(s) == 2 && s[0] == 'a' && s[1] >= '0' && s[1] < '0'+vNAcct {
		return int(s[1] - '0'), true
	}
	return 0, false
}

// strict decimal: [1-9][0-9]{0,17} or "0"
func vNum(s string) (int64, bool) {
	if s == "" || len(s) > 18 || (len(s) > 1 && s[0] == '0') {
		return 0, false
	}
	for _, c := range s {
		if c < '0' || c > '9' {
			return 0, false
		}
	}
	n, err := strconv.ParseInt(s, 10, 64)
	return n, err == nil
}

func vDep(s string) (bool, bool) {
	switch s {
	case "d":
		return false, true
	case "s":
		return true, true
	}
	return false, false
}

func vParseMsg(s string) (m vmsg, ok bool) {
	f := strings.Split(s, ";")
	if len(f) < 2 {
		return m, false
	}
	m.kind = f[0]
	if m.from, ok = vAcct(f[1]); !ok {
		return m, false
	}
	switch m.kind {
	case "dep":
		if len(f) != 5 {
			return m, false
		}
		m.pkg = f[2]
		switch m.pkg {
		case "ca", "cb", "lib", "use", "ip", "ipw", "bad":
		default:
			return m, false
		}
		switch f[3] {
		case "1":
			m.ver = 1
		case "2":
			m.ver = 2
		default:
			return m, false
		}
		if m.ver == 2 && m.pkg != "lib" && m.pkg != "use" {
			return m, false
		}
		m.tiny, ok = vDep(f[4])
		return m, ok
	case "call":
		if len(f) != 6 {
			return m, false
		}
		m.pkg, m.fn = f[2], f[3]
		if m.pkg != "ca" && m.pkg != "cb" {
			return m, false
		}
		switch m.fn {
		case "inc", "incpanic", "grow", "spin":
		default:
			return m, false
		}
		if m.n, ok = vNum(f[4]); !ok || m.n > 999 {
			return m, false
		}
		if m.tiny, ok = vDep(f[5]); !ok {
			return m, false
		}
		// a tiny deposit is only meaningful where the storage growth is certain
		if m.tiny && (m.fn != "grow" || m.n == 0) {
			return m, false
		}
		return m, true
	case "run":
		if len(f) != 4 {
			return m, false
		}
		m.fn = f[2]
		switch m.fn {
		case "inc", "incpanic", "loop":
		default:
			return m, false
		}
		if m.n, ok = vNum(f[3]); !ok || m.n > 999 {
			return m, false
		}
		return m, true
	case "send":
		if len(f) != 4 {
			return m, false
		}
		if m.to, ok = vAcct(f[2]); !ok {
			return m, false
		}
		if m.n, ok = vNum(f[3]); !ok || m.n == 0 || (m.n > 1000 && m.n != 2*vTokMax) {
			return m, false
		}
		return m, true
	}
	return m, false
}

func (m vmsg) burnsAllGas() bool {
	return (m.kind == "call" && m.fn == "spin") || (m.kind == "run" && m.fn == "loop")
}

func (m vmsg) cheap() bool {
	return m.kind == "send" || (m.kind == "call" && m.fn == "inc")
}

// gasRule: a tx holding a spin/loop message must run with the low gas limit and
// reach that message at position 0, or at position 1 behind a cheap message;
// every other tx runs with the high limit.  (Keeps "out of gas" the certain
// outcome of exactly these txs, without modelling gas.)
func vGasRule(lo bool, msgs []vmsg) bool {
	burn := -1
	for i, m := range msgs {
		if m.burnsAllGas() {
			burn = i
			break
		}
	}
	if !lo {
		return burn < 0
	}
	return burn == 0 || (burn == 1 && msgs[0].cheap())
}

func vParse(t []string) (*vop, bool) {
	op := &vop{kind: t[0]}
	switch t[0] {
	case "vrestart":
		return op, len(t) == 1
	case "vq":
		if len(t) != 3 || (t[1] != "get" && t[1] != "bad" && t[1] != "poke") || (t[2] != "ca" && t[2] != "cb") {
			return nil, false
		}
		op.q, op.rlm = t[1], t[2]
		return op, true
	case "vtx", "vsim":
		rest := t[1:]
		if op.kind == "vtx" {
			if len(rest) < 1 || (rest[0] != "F" && rest[0] != "S") {
				return nil, false
			}
			op.mark = rest[0][0]
			rest = rest[1:]
		}
		if len(rest) < 3 || len(rest) > 2+6 {
			return nil, false
		}
		lo := false
		switch rest[0] {
		case "lo":
			lo, op.gas = true, vGasLo
		case "hi":
			op.gas = vGasHi
		default:
			return nil, false
		}
		var ok bool
		if op.fee, ok = vNum(rest[1]); !ok || op.fee == 0 || op.fee > 1_000_000_000 {
			return nil, false
		}
		for _, s := range rest[2:] {
			m, ok := vParseMsg(s)
			if !ok {
				return nil, false
			}
			op.msgs = append(op.msgs, m)
		}
		if !vGasRule(lo, op.msgs) || (op.kind == "vsim" && lo) {
			return nil, false
		}
		return op, true
	}
	return nil, false
}

func (op *vop) signers() []int {
	var out []int
	seen := map[int]bool{}
	for _, m := range op.msgs {
		if !seen[m.from] {
			seen[m.from] = true
			out = append(out, m.from)
		}
	}
	return out
}

// ---------------------------------------------------------------- gno sources

func vCtrSrc(name string) string {
	return "package " + name + `

import "strconv"

var n int
var log []string

func Inc(cur realm, d int) int { n += d; return n }

func IncPanic(cur realm, d int) {
	n += d
	log = append(log, "x")
	panic("boom")
}

func Grow(cur realm, k int) {
	for i := 0; i < k; i++ {
		log = append(log, "a string that takes some storage")
	}
}

func Spin(cur realm, k int) {
	n += 1
	log = append(log, "spin")
	for i := 0; i < k; i++ {
		n += i
	}
}

func Get() int { return n }

func Bad() int {
	n += 1000
	panic("bad query")
}

func Poke() int {
	n += 1000
	log = append(log, "poke")
	return n
}

func Render(path string) string { return strconv.Itoa(n) + ":" + strconv.Itoa(len(log)) }
`
}

func vLibSrc(ver int) string {
	if ver == 1 {
		return "package lib\n\ntype T struct{ A int }\n\nfunc V() int { return 1 }\n\nfunc Ver() int { return 1 }\n"
	}
	return "package lib\n\ntype T struct{ B string }\n\nfunc V() string { return \"two\" }\n\nfunc Ver() int { return 2 }\n"
}

func vUseSrc(ns string, ver int) string {
	imp := "package use\n\nimport \"gno.land/p/" + ns + "/lib\"\n\n"
	if ver == 1 {
		return imp + "var X = lib.V() + 1\n\nvar Y = lib.T{A: 1}\n\nfunc Ver() int { return X - 1 }\n\nfunc Get(cur realm) int { return X + Y.A }\n"
	}
	return imp + "var X = lib.V() + \"x\"\n\nvar Y = lib.T{B: \"b\"}\n\nfunc Ver() int { return len(X) - 2 }\n\nfunc Get(cur realm) string { return X + Y.B }\n"
}

func vPkgPath(ns, pkg string) string {
	if pkg == "lib" {
		return "gno.land/p/" + ns + "/lib"
	}
	return "gno.land/r/" + ns + "/" + pkg
}

func vPkgFiles(ns, pkg string, ver int) []*std.MemFile {
	path := vPkgPath(ns, pkg)
	var body string
	switch pkg {
	case "ca", "cb":
		body = vCtrSrc(pkg)
	case "lib":
		body = vLibSrc(ver)
	case "use":
		body = vUseSrc(ns, ver)
	case "ip":
		body = "package ip\n\nvar A = 3\n\nvar B []string\n\nfunc init() {\n\tA = 4\n\tB = append(B, \"x\")\n\tpanic(\"init boom\")\n}\n"
	case "ipw":
		body = "package ipw\n\nimport \"gno.land/r/" + ns + "/ca\"\n\nvar A = 3\n\nfunc init(cur realm) {\n\tA = ca.Inc(cross(cur), 50)\n\tpanic(\"init boom\")\n}\n"
	case "bad":
		body = "package bad\n\nvar A int = \"not an int\"\n"
	}
	fs := []*std.MemFile{
		{Name: "gnomod.toml", Body: gnolang.GenGnoModLatest(path)},
		{Name: pkg + ".gno", Body: body},
	}
	sort.Slice(fs, func(i, j int) bool { return fs[i].Name < fs[j].Name })
	return fs
}

func vRunFiles(ns, script string, n int64) []*std.MemFile {
	var body string
	switch script {
	case "inc":
		body = fmt.Sprintf("package main\n\nimport \"gno.land/r/%s/ca\"\n\nfunc main(cur realm) {\n\tprintln(ca.Inc(cross(cur), %d))\n}\n", ns, n)
	case "incpanic":
		body = fmt.Sprintf("package main\n\nimport \"gno.land/r/%s/ca\"\n\nfunc main(cur realm) {\n\tca.Inc(cross(cur), %d)\n\tpanic(\"run boom\")\n}\n", ns, n)
	case "loop":
		body = fmt.Sprintf("package main\n\nfunc main() {\n\tx := %d\n\tfor {\n\t\tx++\n\t}\n}\n", n)
	}
	return []*std.MemFile{{Name: "main.gno", Body: body}}
}

// ---------------------------------------------------------------- a world

type vworld struct {
	db     *memdb.MemDB
	app    *sdk.BaseApp
	height int64
	keys   map[string]stypes.StoreKey
}

var (
	vKeys      [vNAcct]crypto.PrivKey
	vAddrs     [vNAcct]crypto.Address
	vCollector = crypto.AddressFromPreimage([]byte(auth.DefaultFeeCollectorName))
)

func init() {
	for i := range vKeys {
		vKeys[i] = secp256k1.GenPrivKeySecp256k1([]byte(fmt.Sprintf("c02-vm-a%d", i)))
		vAddrs[i] = vKeys[i].PubKey().Address()
	}
}

func vNewApp(db *memdb.MemDB) *sdk.BaseApp {
	opts := gnoland.TestAppOptions(db)
	opts.PruneStrategy = stypes.PruneEverythingStrategy
	app, err := gnoland.NewAppWithOptions(opts)
	if err != nil {
		panic(err)
	}
	return app.(*sdk.BaseApp)
}

// privField reads an unexported struct field (the multistore's store keys are
// created inside NewAppWithOptions and not exposed; the dump needs them).
func privField(v reflect.Value, name string) reflect.Value {
	f := v.FieldByName(name)
	if !f.IsValid() {
		panic("c02 harness: field " + name + " not found in " + v.Type().String())
	}
	return reflect.NewAt(f.Type(), unsafe.Pointer(f.UnsafeAddr())).Elem()
}

func (w *vworld) loadKeys() {
	cms := privField(reflect.ValueOf(w.app).Elem(), "cms").Interface()
	w.keys = privField(reflect.ValueOf(cms).Elem(), "keysByName").Interface().(map[string]stypes.StoreKey)
	if w.keys["main"] == nil || w.keys["base"] == nil || len(w.keys) != 2 {
		panic("c02 harness: expected exactly the stores main and base")
	}
}

func (w *vworld) block(txs ...std.Tx) []abci.ResponseDeliverTx {
	w.app.BeginBlock(abci.RequestBeginBlock{Header: &bft.Header{ChainID: vChainID, Height: w.height, Time: time.Unix(vT0+w.height, 0)}})
	var out []abci.ResponseDeliverTx
	for _, tx := range txs {
		out = append(out, w.app.DeliverTx(abci.RequestDeliverTx{Tx: amino.MustMarshal(tx)}))
	}
	w.app.EndBlock(abci.RequestEndBlock{Height: w.height})
	w.app.Commit()
	w.height++
	return out
}

func vNewWorld() *vworld {
	w := &vworld{db: memdb.NewMemDB(), height: 1}
	w.app = vNewApp(w.db)
	w.loadKeys()
	gs := gnoland.DefaultGenState()
	for _, a := range vAddrs {
		gs.Balances = append(gs.Balances, gnoland.Balance{Address: a, Amount: std.Coins{
			{Denom: "tok", Amount: vTokInit}, {Denom: "ugnot", Amount: 1 << 55}}})
	}
	resp := w.app.InitChain(abci.RequestInitChain{
		Time: time.Unix(vT0, 0), ChainID: vChainID,
		ConsensusParams: &abci.ConsensusParams{Block: &abci.BlockParams{MaxTxBytes: 1e6, MaxDataBytes: 2e6, MaxGas: 3e10, TimeIotaMS: 100}},
		AppState:        gs,
	})
	if resp.Error != nil {
		panic(resp.Error)
	}
	// Block 1 commits the genesis state (queries read committed state only).
	w.block()
	// Warm-up blocks: every account signs once, so that its public key is stored
	// and the fee collector account exists (both are one-time ante effects).
	for i := range vAddrs {
		op := &vop{fee: 1, gas: vGasHi, msgs: []vmsg{{kind: "send", from: i, to: i, n: 1}}}
		if r := w.block(w.sign(w.noopMsgs(op), op))[0]; r.Error != nil {
			panic("c02 harness: warm-up tx failed: " + r.Log)
		}
	}
	return w
}

// restart: a new application instance over the same database.
func (w *vworld) restart() {
	w.app = vNewApp(w.db)
	w.loadKeys()
}

func (w *vworld) query(path string, data []byte) ([]byte, bool) {
	r := w.app.Query(abci.RequestQuery{Path: path, Data: data})
	if r.Error != nil {
		return nil, false
	}
	return r.Data, true
}

func (w *vworld) account(addr crypto.Address) (num, seq uint64) {
	bz, ok := w.query("auth/accounts/"+addr.String(), nil)
	if !ok || string(bz) == "null" {
		panic("c02 harness: account query failed")
	}
	var acc gnoland.GnoAccount
	amino.MustUnmarshalJSON(bz, &acc)
	return acc.GetAccountNumber(), acc.GetSequence()
}

func (w *vworld) tok(addr crypto.Address) int64 {
	bz, ok := w.query("bank/balances/"+addr.String(), nil)
	if !ok {
		panic("c02 harness: balance query failed")
	}
	var s string
	amino.MustUnmarshalJSON(bz, &s)
	coins, err := std.ParseCoins(s)
	if err != nil {
		panic(err)
	}
	return coins.AmountOf("tok")
}

// sign builds the tx for op's fee/gas over msgs, signed by op's signers with
// the sequence numbers the world currently holds.
func (w *vworld) sign(msgs []std.Msg, op *vop) std.Tx {
	fee := std.Fee{GasWanted: op.gas, GasFee: std.Coin{Denom: "ugnot", Amount: op.fee}}
	ss := op.signers()
	var tx std.Tx
	amino.MustUnmarshal(amino.MustMarshal(std.NewTx(msgs, fee, make([]std.Signature, len(ss)), "")), &tx)
	sigs := make([]std.Signature, len(ss))
	for i, s := range ss {
		num, seq := w.account(vAddrs[s])
		sb, err := std.GetSignaturePayload(std.SignDoc{ChainID: vChainID, AccountNumber: num, Sequence: seq, Fee: tx.Fee, Msgs: tx.Msgs})
		if err != nil {
			panic(err)
		}
		sig, err := vKeys[s].Sign(sb)
		if err != nil {
			panic(err)
		}
		sigs[i] = std.Signature{PubKey: vKeys[s].PubKey(), Signature: sig}
	}
	return std.NewTx(tx.Msgs, tx.Fee, sigs, "")
}

func (w *vworld) realMsgs(ns string, op *vop) []std.Msg {
	tiny := std.Coins{{Denom: "ugnot", Amount: 1}}
	var out []std.Msg
	for _, m := range op.msgs {
		from := vAddrs[m.from]
		switch m.kind {
		case "dep":
			am := vm.NewMsgAddPackage(from, vPkgPath(ns, m.pkg), vPkgFiles(ns, m.pkg, m.ver))
			if m.tiny {
				am.MaxDeposit = tiny
			}
			out = append(out, am)
		case "call":
			fn := map[string]string{"inc": "Inc", "incpanic": "IncPanic", "grow": "Grow", "spin": "Spin"}[m.fn]
			arg := strconv.FormatInt(m.n, 10)
			if m.fn == "spin" {
				arg = vSpinN
			}
			mc := vm.NewMsgCall(from, nil, vPkgPath(ns, m.pkg), fn, []string{arg})
			if m.tiny {
				mc.MaxDeposit = tiny
			}
			out = append(out, mc)
		case "run":
			out = append(out, vm.NewMsgRun(from, nil, vRunFiles(ns, m.fn, m.n)))
		case "send":
			out = append(out, bank.NewMsgSend(from, vAddrs[m.to], std.Coins{{Denom: "tok", Amount: m.n}}))
		}
	}
	return out
}

// noopMsgs: the messages of the tx that replaces a failing tx in world B: the
// same signers in the same order, each sending one token to itself.
func (w *vworld) noopMsgs(op *vop) []std.Msg {
	var out []std.Msg
	for _, s := range op.signers() {
		out = append(out, bank.NewMsgSend(vAddrs[s], vAddrs[s], std.Coins{{Denom: "tok", Amount: 1}}))
	}
	return out
}

// ---------------------------------------------------------------- store dump

// A dump is the logical content of both stores: key -> digest of the value.
// Both stores of the gno.land app are mounted on the SAME database prefix, so
// iterating the dbadapter store `base` also shows the physical records of the
// B+tree behind `main` (node, value, root, meta, orphan and fast-index records,
// first byte B V R M O F — tm2/pkg/bptree/const.go); their layout depends on
// the write history, not only on the content, and `main` is dumped logically
// through its own iterator, so those records are skipped.  Every key the gno
// store and baseapp write to `base` starts with a lower-case letter.
type vdump struct {
	st  [2]map[string]vdigest // main, base
	acc map[string][]byte     // raw account records (main, prefix /a/)
}

var vStoreNames = [2]string{"main", "base"}

// vdigest: length and a 64-bit keyed hash of a value (dumps are only ever
// compared within one process).
type vdigest struct {
	n int
	h uint64
}

var vSeed = maphash.MakeSeed()

func digest(v []byte) vdigest { return vdigest{len(v), maphash.Bytes(vSeed, v)} }

func physical(k []byte) bool {
	if len(k) == 0 {
		return false
	}
	switch k[0] {
	case 'B', 'V', 'R', 'M', 'O', 'F':
		return true
	}
	return false
}

// the block header baseapp stores at every Commit: not transaction state
const vHeaderKey = "last_header"

// scan visits every logical record of the committed state.
func (w *vworld) scan(fn func(si int, k, v []byte)) {
	ms := w.app.GetCacheMultiStore()
	for si, name := range vStoreNames {
		it := ms.GetStore(w.keys[name]).Iterator(nil, nil, nil)
		for ; it.Valid(); it.Next() {
			k := it.Key()
			if si == 1 && (physical(k) || string(k) == vHeaderKey) {
				continue
			}
			fn(si, k, it.Value())
		}
		it.Close()
	}
}

func (w *vworld) dump() *vdump {
	d := &vdump{acc: map[string][]byte{}}
	d.st[0], d.st[1] = make(map[string]vdigest, 1024), make(map[string]vdigest, 16384)
	w.scan(func(si int, k, v []byte) {
		d.st[si][string(k)] = digest(v)
		if si == 0 && bytes.HasPrefix(k, []byte("/a/")) {
			d.acc[string(k)] = append([]byte(nil), v...)
		}
	})
	return d
}

// diffWorld: the keys ("<store>/<key>") on which the committed state of w
// differs from the dump d, sorted.
func (w *vworld) diffWorld(d *vdump) []string {
	var out []string
	var seen [2]int
	w.scan(func(si int, k, v []byte) {
		if dg, ok := d.st[si][string(k)]; ok {
			seen[si]++
			if dg != digest(v) {
				out = append(out, vStoreNames[si]+"/"+string(k))
			}
		} else {
			out = append(out, vStoreNames[si]+"/"+string(k))
		}
	})
	for si := range d.st {
		if seen[si] != len(d.st[si]) {
			// some key of d is absent in w: find it the slow way
			have := map[string]bool{}
			w.scan(func(sj int, k, v []byte) {
				if sj == si {
					have[string(k)] = true
				}
			})
			for k := range d.st[si] {
				if !have[k] {
					out = append(out, vStoreNames[si]+"/"+k)
				}
			}
		}
	}
	sort.Strings(out)
	return out
}

// diffKeys: the keys ("<store>/<key>") whose presence or value differs, sorted.
func diffKeys(a, b *vdump) []string {
	var out []string
	for si := range a.st {
		for k, v := range a.st[si] {
			if w, ok := b.st[si][k]; !ok || w != v {
				out = append(out, vStoreNames[si]+"/"+k)
			}
		}
		for k := range b.st[si] {
			if _, ok := a.st[si][k]; !ok {
				out = append(out, vStoreNames[si]+"/"+k)
			}
		}
	}
	sort.Strings(out)
	return out
}

func showKeys(ks []string) string {
	var b strings.Builder
	for i, k := range ks {
		if i == 4 {
			fmt.Fprintf(&b, ",+%d", len(ks)-4)
			break
		}
		if i > 0 {
			b.WriteByte(',')
		}
		for _, c := range []byte(k) {
			if c > 0x20 && c < 0x7f && c != '%' {
				b.WriteByte(c)
			} else {
				fmt.Fprintf(&b, "%%%02x", c)
			}
		}
	}
	return b.String()
}

// ---------------------------------------------------------------- process / case state

var (
	vA, vB   *vworld
	vDirty   bool // the worlds are known (or suspected) to differ: rebuild before the next case
	vEpoch   int  // namespace counter: case k of this process deploys under gno.land/{r,p}/c<k>
	vCase    *vcase
	vStarted time.Time
)

type vcase struct {
	ns       string
	seq0     [vNAcct]uint64
	tok0     [vNAcct]int64
	lastA    *vdump
	desync   bool // an F-marked tx succeeded (generator / shrinker artefact): no verdicts any more
	verdicts bool
}

func vmReset() {
	if vCase != nil && os.Getenv("C02_VMLOG") != "" {
		vlog("c02vm: prof sign+deliverA=%v dumpA=%v deliverB=%v dumpB=%v summary=%v", vProf[0], vProf[1], vProf[2], vProf[3], vProf[4])
	}
	vCase = nil
}

var vProf [5]time.Duration

func vTick(i int, t *time.Time) {
	now := time.Now()
	vProf[i] += now.Sub(*t)
	*t = now
}

func vlog(format string, a ...any) {
	if os.Getenv("C02_VMLOG") != "" {
		fmt.Fprintf(os.Stderr, format+"\n", a...)
	}
}

func vEnsureCase() *vcase {
	if vCase != nil {
		return vCase
	}
	if vA == nil || vB == nil || vDirty {
		t := time.Now()
		vA, vB = vNewWorld(), vNewWorld()
		vDirty = false
		vlog("c02vm: two worlds built in %v", time.Since(t))
	}
	vEpoch++
	c := &vcase{ns: "c" + strconv.Itoa(vEpoch), verdicts: true}
	for i, a := range vAddrs {
		_, c.seq0[i] = vA.account(a)
		c.tok0[i] = vA.tok(a)
	}
	c.lastA = vA.dump()
	if ks := vB.diffWorld(c.lastA); len(ks) > 0 {
		// cannot happen after a clean case; start over rather than judge on a bad base
		vA, vB = vNewWorld(), vNewWorld()
		c.lastA = vA.dump()
		for i, a := range vAddrs {
			_, c.seq0[i] = vA.account(a)
			c.tok0[i] = vA.tok(a)
		}
	}
	vCase = c
	return c
}

// ---------------------------------------------------------------- summary (impl output)

func vErrClass(r abci.ResponseBase) string {
	if r.Error == nil {
		return "ok"
	}
	name := reflect.TypeOf(r.Error).String()
	if i := strings.LastIndexByte(name, '.'); i >= 0 {
		name = name[i+1:]
	}
	if name == "StringError" {
		// errors without an ABCI type of their own: told apart by the fixed
		// prefix the keeper puts in front (never by the user's message)
		switch {
		case strings.Contains(r.Log, "VM panic: "):
			return "err:panic"
		case strings.Contains(r.Log, "storage deposit processing encountered"):
			return "err:deposit"
		}
	}
	return "err:" + name
}

func parseIntResult(bz []byte) (string, bool) {
	// "(5 int)"
	s := string(bz)
	if !strings.HasPrefix(s, "(") || !strings.HasSuffix(s, " int)") {
		return "", false
	}
	return s[1 : len(s)-5], true
}

func (c *vcase) summary(w *vworld) string {
	have := map[string]bool{}
	for _, pre := range []string{"gno.land/r/" + c.ns + "/", "gno.land/p/" + c.ns + "/"} {
		bz, ok := w.query("vm/qpaths", []byte(pre))
		if !ok {
			panic("c02 harness: qpaths failed")
		}
		for _, p := range strings.Split(string(bz), "\n") {
			if p != "" {
				have[p] = true
			}
		}
	}
	var b strings.Builder
	for _, r := range []string{"ca", "cb"} {
		v := "-"
		if have[vPkgPath(c.ns, r)] {
			bz, ok := w.query("vm/qeval", []byte(vPkgPath(c.ns, r)+".Get()"))
			if s, ok2 := parseIntResult(bz); ok && ok2 {
				v = s
			} else {
				v = "?"
			}
		}
		fmt.Fprintf(&b, "%s=%s ", r, v)
	}
	var ds []string
	for _, p := range []string{"lib", "use"} {
		if have[vPkgPath(c.ns, p)] {
			v := "?"
			bz, ok := w.query("vm/qeval", []byte(vPkgPath(c.ns, p)+".Ver()"))
			if s, ok2 := parseIntResult(bz); ok && ok2 {
				v = s
			}
			ds = append(ds, p+":"+v)
		}
	}
	for p := range have {
		known := false
		for _, q := range []string{"ca", "cb", "lib", "use"} {
			if p == vPkgPath(c.ns, q) {
				known = true
			}
		}
		if !known {
			ds = append(ds, "stray:"+p)
		}
	}
	sort.Strings(ds)
	if len(ds) == 0 {
		ds = []string{"-"}
	}
	fmt.Fprintf(&b, "d=%s t=", strings.Join(ds, ","))
	for i, a := range vAddrs {
		if i > 0 {
			b.WriteByte(',')
		}
		fmt.Fprintf(&b, "%d", w.tok(a)-c.tok0[i])
	}
	b.WriteString(" s=")
	for i, a := range vAddrs {
		if i > 0 {
			b.WriteByte(',')
		}
		_, seq := w.account(a)
		fmt.Fprintf(&b, "%d", seq-c.seq0[i])
	}
	return b.String()
}

// ---------------------------------------------------------------- oracle

const vClass = "VIOL:failed-tx-trace "

// anteOnly: the statement for a failed tx, evaluated on A's dumps.
func anteOnly(before, after *vdump, op *vop) string {
	exp := map[string]string{} // account key -> expected amino JSON
	bump := func(addr crypto.Address, dSeq uint64, dCoins int64) string {
		k := "/a/" + string(addr[:])
		raw, ok := before.acc[k]
		if !ok {
			return "account " + addr.String() + " missing before the tx"
		}
		var acc std.Account
		if err := amino.Unmarshal(raw, &acc); err != nil {
			return "undecodable account record"
		}
		if err := acc.SetSequence(acc.GetSequence() + dSeq); err != nil {
			return err.Error()
		}
		coins := acc.GetCoins()
		if dCoins >= 0 {
			coins = coins.Add(std.Coins{{Denom: "ugnot", Amount: dCoins}})
		} else {
			coins = coins.Sub(std.Coins{{Denom: "ugnot", Amount: -dCoins}})
		}
		if err := acc.SetCoins(coins); err != nil {
			return err.Error()
		}
		exp[k] = string(amino.MustMarshalJSON(acc))
		return ""
	}
	for i, s := range op.signers() {
		fee := int64(0)
		if i == 0 {
			fee = -op.fee
		}
		if e := bump(vAddrs[s], 1, fee); e != "" {
			return e
		}
	}
	if e := bump(vCollector, 0, op.fee); e != "" {
		return e
	}
	var stray []string
	for _, k := range diffKeys(before, after) {
		if strings.HasPrefix(k, "main//a/") {
			if _, ok := exp[k[len("main/"):]]; ok {
				continue
			}
		}
		stray = append(stray, k)
	}
	if len(stray) > 0 {
		return "failed tx changed keys other than fee/sequence: " + showKeys(stray)
	}
	for k, want := range exp {
		var acc std.Account
		raw, ok := after.acc[k]
		if !ok || amino.Unmarshal(raw, &acc) != nil {
			return "account record gone after the failed tx"
		}
		if got := string(amino.MustMarshalJSON(acc)); got != want {
			return "account after a failed tx is not before+fee/sequence: want " + want + " got " + got
		}
	}
	return ""
}

func sameResult(a, b abci.ResponseDeliverTx) string {
	ca, cb := vErrClass(a.ResponseBase), vErrClass(b.ResponseBase)
	switch {
	case ca != cb:
		return fmt.Sprintf("result %s, in the run without the failed txs %s", ca, cb)
	case !bytes.Equal(a.Data, b.Data):
		return fmt.Sprintf("data %q, in the run without the failed txs %q", a.Data, b.Data)
	case !bytes.Equal(amino.MustMarshalJSON(a.Events), amino.MustMarshalJSON(b.Events)):
		return "events differ from the run without the failed txs"
	case a.GasWanted != b.GasWanted || a.GasUsed != b.GasUsed:
		return fmt.Sprintf("gas %d/%d, in the run without the failed txs %d/%d", a.GasUsed, a.GasWanted, b.GasUsed, b.GasWanted)
	}
	return ""
}

// ---------------------------------------------------------------- exec

func vmExec(t []string) (string, string) {
	op, ok := vParse(t)
	if !ok {
		return "err:badop", "-"
	}
	c := vEnsureCase()
	viol := func(detail string) string {
		vDirty = true
		c.verdicts = false // one verdict per case: what follows a violation is not judged
		return vClass + detail
	}
	verdict := "ok"
	if !c.verdicts {
		verdict = "-"
	}
	switch op.kind {
	case "vrestart":
		vA.restart()
		after := vA.dump()
		if ks := diffKeys(c.lastA, after); len(ks) > 0 && c.verdicts {
			verdict = viol("restart changed the state: " + showKeys(ks))
		}
		c.lastA = after
		return "ok", verdict

	case "vq":
		expr := map[string]string{"get": ".Get()", "bad": ".Bad()", "poke": ".Poke()"}[op.q]
		out := "q:err"
		if bz, ok := vA.query("vm/qeval", []byte(vPkgPath(c.ns, op.rlm)+expr)); ok {
			if s, ok := parseIntResult(bz); ok {
				out = "q:" + s
			} else {
				out = "q:?"
			}
		}
		after := vA.dump()
		if ks := diffKeys(c.lastA, after); len(ks) > 0 && c.verdicts {
			verdict = viol("a query changed the state: " + showKeys(ks))
		}
		c.lastA = after
		return out, verdict

	case "vsim":
		tx := vA.sign(vA.realMsgs(c.ns, op), op)
		qr := vA.app.Query(abci.RequestQuery{Path: ".app/simulate", Data: amino.MustMarshal(tx)})
		if qr.Error != nil {
			return "sim:queryerr", "-"
		}
		var res sdk.Result
		amino.MustUnmarshal(qr.Value, &res)
		after := vA.dump()
		if ks := diffKeys(c.lastA, after); len(ks) > 0 && c.verdicts {
			verdict = viol("a simulated tx changed the state: " + showKeys(ks))
		}
		c.lastA = after
		return "sim:" + vErrClass(res.ResponseBase), verdict
	}

	// vtx
	before := c.lastA
	tick := time.Now()
	txA := vA.sign(vA.realMsgs(c.ns, op), op)
	rA := vA.block(txA)[0]
	vTick(0, &tick)
	after := vA.dump()
	vTick(1, &tick)
	c.lastA = after
	cls := vErrClass(rA.ResponseBase)
	if os.Getenv("C02_VMLOG") != "" && rA.Error != nil {
		vlog("c02vm: %s => %s\n%s", strings.Join(t, " "), cls, rA.Log)
	}
	failed := rA.Error != nil

	// world B
	var rB abci.ResponseDeliverTx
	if op.mark == 'F' {
		rB = vB.block(vB.sign(vB.noopMsgs(op), op))[0]
		if rB.Error != nil {
			panic("c02 harness: the fee-only replacement tx failed: " + rB.Log)
		}
	} else {
		rB = vB.block(vB.sign(vB.realMsgs(c.ns, op), op))[0]
	}
	vTick(2, &tick)
	diffB := vB.diffWorld(after)
	vTick(3, &tick)
	out := cls + " " + c.summary(vA)
	vTick(4, &tick)
	if op.mark == 'F' && !failed {
		// The tx was announced as failing but succeeded: the two worlds now differ
		// by construction.  Not a statement about the property.
		c.desync, c.verdicts, vDirty = true, false, true
		return "desync " + out, "-"
	}
	if !c.verdicts {
		return out, "-"
	}
	if failed {
		if e := anteOnly(before, after, op); e != "" {
			return out, viol(e)
		}
	}
	if op.mark == 'S' {
		if e := sameResult(rA, rB); e != "" {
			return out, viol("a later tx depends on a failed tx / simulation / query / restart: " + e)
		}
	}
	if len(diffB) > 0 {
		return out, viol("state differs from the run without the failed txs: " + showKeys(diffB))
	}
	return out, "ok"
}
