// Generator of the second C02 stream: histories of real gno.land transactions.
//
// The generator tracks which of the case's packages are deployed, so that it
// can build transactions that are valid up to a chosen point of failure and
// mark each transaction F (constructed to fail) or S.  The mark is part of the
// input: world B of the harness replaces exactly the F-marked transactions.
// (The harness checks the mark against the real outcome; the Lean model
// computes the class on its own.)
package main

import (
	"fmt"
	"strings"

	"gnoverif/kit"
)

type vgState struct {
	ca, cb   bool
	lib, use int // deployed version, 0 = absent
}

func (s *vgState) deployed(pkg string) bool {
	switch pkg {
	case "ca":
		return s.ca
	case "cb":
		return s.cb
	case "lib":
		return s.lib != 0
	case "use":
		return s.use != 0
	}
	return false
}

// apply returns whether msg fails in state s, and applies its effect otherwise.
func (s *vgState) apply(m vmsg) (fails bool) {
	switch m.kind {
	case "dep":
		switch {
		case s.deployed(m.pkg), m.pkg == "bad", m.pkg == "ip", m.pkg == "ipw", m.tiny:
			return true
		case m.pkg == "use" && s.lib != m.ver:
			return true
		}
		switch m.pkg {
		case "ca":
			s.ca = true
		case "cb":
			s.cb = true
		case "lib":
			s.lib = m.ver
		case "use":
			s.use = m.ver
		}
		return false
	case "call":
		return !s.deployed(m.pkg) || m.fn == "incpanic" || m.fn == "spin" || m.tiny
	case "run":
		return m.fn != "inc" || !s.ca
	case "send":
		return m.n > vTokMax
	}
	return true
}

func (m vmsg) String() string {
	a := func(i int) string { return fmt.Sprintf("a%d", i) }
	d := "d"
	if m.tiny {
		d = "s"
	}
	switch m.kind {
	case "dep":
		return fmt.Sprintf("dep;%s;%s;%d;%s", a(m.from), m.pkg, m.ver, d)
	case "call":
		return fmt.Sprintf("call;%s;%s;%s;%d;%s", a(m.from), m.pkg, m.fn, m.n, d)
	case "run":
		return fmt.Sprintf("run;%s;%s;%d", a(m.from), m.fn, m.n)
	}
	return fmt.Sprintf("send;%s;%s;%d", a(m.from), a(m.to), m.n)
}

type vgen struct {
	o  *kit.Out
	r  *kit.Rand
	n  int
	st vgState
}

func (g *vgen) caseHdr(name string) {
	g.n++
	g.o.Case(fmt.Sprintf("vm-%s-%d", name, g.n))
	g.st = vgState{}
}

// tx emits a vtx line; the mark and the gas class follow from the messages.
func (g *vgen) tx(fee int64, msgs ...vmsg) {
	tmp := g.st
	failed := false
	for _, m := range msgs {
		if tmp.apply(m) {
			failed = true
			break
		}
	}
	mark := "S"
	if failed {
		mark = "F"
	} else {
		g.st = tmp
	}
	g.o.Op("vtx %s %s %d %s", mark, gasClass(msgs), fee, joinMsgs(msgs))
}

func (g *vgen) sim(fee int64, msgs ...vmsg) {
	g.o.Op("vsim hi %d %s", fee, joinMsgs(msgs))
}

func gasClass(msgs []vmsg) string {
	for _, m := range msgs {
		if m.burnsAllGas() {
			return "lo"
		}
	}
	return "hi"
}

func joinMsgs(msgs []vmsg) string {
	p := make([]string, len(msgs))
	for i, m := range msgs {
		p[i] = m.String()
	}
	return strings.Join(p, " ")
}

// message constructors
func dep(a int, pkg string, ver int) vmsg { return vmsg{kind: "dep", from: a, pkg: pkg, ver: ver} }
func depTiny(a int, pkg string, ver int) vmsg {
	return vmsg{kind: "dep", from: a, pkg: pkg, ver: ver, tiny: true}
}
func call(a int, rlm, fn string, n int64) vmsg {
	return vmsg{kind: "call", from: a, pkg: rlm, fn: fn, n: n}
}
func growTiny(a int, rlm string, n int64) vmsg {
	return vmsg{kind: "call", from: a, pkg: rlm, fn: "grow", n: n, tiny: true}
}
func run(a int, fn string, n int64) vmsg { return vmsg{kind: "run", from: a, fn: fn, n: n} }
func send(a, b int, n int64) vmsg        { return vmsg{kind: "send", from: a, to: b, n: n} }
func sendTooMuch(a, b int) vmsg          { return send(a, b, 2*vTokMax) }

// ---------------------------------------------------------------- boundary table

// every way a tx of this stream can fail once `ca` is deployed, each after
// real VM work in the same tx
func (g *vgen) failingTails(a int) [][]vmsg {
	return [][]vmsg{
		{call(a, "ca", "inc", 3), sendTooMuch(a, (a+1)%vNAcct)}, // message error behind a state change
		{call(a, "ca", "incpanic", 4)},                          // Gno panic after mutating the realm
		{call(a, "ca", "inc", 5), call(a, "ca", "incpanic", 6)}, //   … in the second call
		{dep(a, "ip", 1)},                            // panic in a package init
		{dep(a, "ipw", 1)},                           // init mutates another realm, then panics
		{call(a, "ca", "spin", 0)},                   // out of gas inside a called function
		{call(a, "ca", "inc", 7), run(a, "loop", 1)}, // out of gas inside a script
		{growTiny(a, "ca", 40)},                      // storage deposit refused (call)
		{depTiny(a, "cb", 1)},                        // storage deposit refused (deploy)
		{dep(a, "cb", 1), dep(a, "bad", 1)},          // type check failure behind a deploy
		{dep(a, "cb", 1), dep(a, "cb", 1)},           // path taken by the same tx
		{run(a, "incpanic", 8)},                      // script mutates the realm, then panics
		{dep(a, "lib", 1), dep(a, "use", 1), call(a, "ca", "incpanic", 1)},          // package + importer, then panic
		{dep(a, "lib", 2), dep(a, "use", 2), sendTooMuch(a, a)},                     // package + importer, then message error
		{dep(a, "lib", 1), dep(a, "use", 1), dep(a, "cb", 1), growTiny(a, "cb", 9)}, // … then a refused deposit
		{dep(a, "lib", 1), dep(a, "use", 2)},                                        // importer of the other version
		{call(a, "cb", "inc", 1)},                                                   // realm does not exist
	}
}

// follow-up txs that only succeed with the stated results if nothing of the
// failed tx survived: both versions of package + importer at the paths the
// failed tx used, the counter realm, a script.
func (g *vgen) followUp(ver int) {
	g.tx(1000, dep(1, "lib", ver), dep(1, "use", ver))
	g.tx(1000, call(2, "ca", "inc", 1), run(2, "inc", 2))
	g.tx(1000, dep(0, "cb", 1), call(0, "cb", "inc", 9))
	g.o.Op("vq get ca")
}

func (g *vgen) boundary(full bool) {
	tails := g.failingTails(0)
	if !full {
		// quick: four failure kinds in one history (the rest is in corpus/C02/vm-*.ops)
		g.caseHdr("kinds")
		g.tx(1000, dep(0, "ca", 1))
		for i, k := range []int{1, 5, 7, 12} {
			g.tx(int64(1000+i), tails[k]...)
		}
		g.followUp(2)
		return
	}
	// each failure kind alone, with the follow-up in the other package version
	for i, tail := range tails {
		g.caseHdr("kind")
		g.tx(1000, dep(0, "ca", 1), call(0, "ca", "inc", 10))
		g.tx(int64(2000+i), tail...)
		g.followUp(2 - i%2)
	}
	// the same with a query, a failing query and a failing simulation of the tail in between
	for i, tail := range tails {
		if gasClass(tail) == "lo" {
			continue
		}
		g.caseHdr("sim")
		g.tx(1000, dep(1, "ca", 1), call(1, "ca", "inc", 10))
		g.sim(1000, tail...)
		g.o.Op("vq bad ca")
		g.o.Op("vq poke ca")
		if i%3 == 0 {
			g.tx(3000, tail...)
		}
		g.followUp(2 - i%2)
	}
	// successful simulations must not leave anything either
	g.caseHdr("simok")
	g.sim(1000, dep(0, "ca", 1), dep(0, "lib", 1), dep(0, "use", 1))
	g.tx(1000, dep(0, "ca", 1))
	g.sim(1000, call(0, "ca", "inc", 100), dep(0, "lib", 1), dep(0, "use", 1))
	g.o.Op("vq get ca")
	g.followUp(2)
	// several signers in the failing tx
	g.caseHdr("signers")
	g.tx(1000, dep(0, "ca", 1))
	g.tx(5000, send(1, 2, 10), call(2, "ca", "inc", 5), dep(0, "lib", 1), dep(0, "use", 1), call(1, "ca", "incpanic", 1))
	g.tx(5000, send(2, 0, 10), call(0, "ca", "spin", 0))
	g.followUp(2)
	// restarts: behind a failed tx, behind a deploy, behind nothing
	g.caseHdr("restart")
	g.tx(1000, dep(0, "ca", 1), call(0, "ca", "inc", 10))
	g.tx(1000, dep(0, "lib", 1), dep(0, "use", 1), call(0, "ca", "incpanic", 1))
	g.o.Op("vrestart")
	g.followUp(2)
	g.caseHdr("restart")
	g.tx(1000, dep(0, "ca", 1), dep(0, "lib", 1))
	g.o.Op("vrestart")
	g.tx(1000, dep(0, "use", 1), call(0, "ca", "inc", 3))
	g.tx(1000, run(0, "incpanic", 3))
	g.tx(1000, run(0, "inc", 3), dep(1, "cb", 1))
}

// ---------------------------------------------------------------- random histories

func (g *vgen) okMsg(a int, st *vgState) vmsg {
	r := g.r
	var c []vmsg
	if !st.ca {
		c = append(c, dep(a, "ca", 1), dep(a, "ca", 1))
	} else {
		c = append(c, call(a, "ca", "inc", int64(r.Range(0, 999))), run(a, "inc", int64(r.Range(0, 50))),
			call(a, "ca", "grow", int64(r.Range(0, 20))))
	}
	if !st.cb {
		c = append(c, dep(a, "cb", 1))
	} else {
		c = append(c, call(a, "cb", "inc", int64(r.Range(0, 999))))
	}
	if st.lib == 0 {
		v := r.Range(1, 2)
		c = append(c, dep(a, "lib", v), dep(a, "lib", v))
	} else if st.use == 0 {
		c = append(c, dep(a, "use", st.lib), dep(a, "use", st.lib))
	}
	c = append(c, send(a, r.Intn(vNAcct), int64(r.Range(1, 1000))))
	return kit.Pick(r, c)
}

func (g *vgen) failMsg(a int, st *vgState) vmsg {
	r := g.r
	c := []vmsg{sendTooMuch(a, r.Intn(vNAcct)), dep(a, "ip", 1), dep(a, "bad", 1), run(a, "incpanic", int64(r.Range(0, 9)))}
	for _, rlm := range []string{"ca", "cb"} {
		if st.deployed(rlm) {
			c = append(c, call(a, rlm, "incpanic", int64(r.Range(0, 99))), growTiny(a, rlm, int64(r.Range(1, 30))), dep(a, rlm, 1))
		} else {
			c = append(c, call(a, rlm, "inc", 1), depTiny(a, rlm, 1))
		}
	}
	if st.ca {
		c = append(c, dep(a, "ipw", 1), dep(a, "ipw", 1))
	}
	if st.lib == 0 {
		c = append(c, depTiny(a, "lib", r.Range(1, 2)), dep(a, "use", r.Range(1, 2)))
	} else if st.use == 0 {
		c = append(c, dep(a, "use", 3-st.lib), dep(a, "lib", 3-st.lib))
	} else {
		c = append(c, dep(a, "use", r.Range(1, 2)))
	}
	return kit.Pick(r, c)
}

func (g *vgen) acct() int {
	if g.r.Chance(70) {
		return 0
	}
	return g.r.Intn(vNAcct)
}

func (g *vgen) randomMsgs(wantFail bool) []vmsg {
	r := g.r
	st := g.st
	a := g.acct()
	pick := func() int {
		if r.Chance(80) {
			return a
		}
		return r.Intn(vNAcct)
	}
	var msgs []vmsg
	if wantFail && r.Chance(25) {
		// out of gas: at most one cheap message in front
		if r.Chance(50) {
			if st.ca && r.Bool() {
				msgs = append(msgs, call(pick(), "ca", "inc", int64(r.Range(0, 99))))
			} else {
				msgs = append(msgs, send(pick(), r.Intn(vNAcct), int64(r.Range(1, 100))))
			}
		}
		if st.ca && r.Bool() {
			msgs = append(msgs, call(pick(), "ca", "spin", 0))
		} else {
			msgs = append(msgs, run(pick(), "loop", int64(r.Range(0, 9))))
		}
		if r.Chance(30) {
			msgs = append(msgs, g.okMsg(pick(), &st))
		}
		return msgs
	}
	n := r.Range(1, 3)
	if wantFail {
		n = r.Range(0, 3)
		if st.lib == 0 && st.use == 0 && r.Chance(40) {
			// the package + importer pair, deployed by a tx that then fails
			v := r.Range(1, 2)
			msgs = append(msgs, dep(a, "lib", v), dep(a, "use", v))
			st.lib, st.use = v, v
			n = r.Range(0, 1)
		}
	}
	for i := 0; i < n; i++ {
		m := g.okMsg(pick(), &st)
		st.apply(m)
		msgs = append(msgs, m)
	}
	if wantFail {
		msgs = append(msgs, g.failMsg(pick(), &st))
		if r.Chance(25) {
			msgs = append(msgs, g.okMsg(pick(), &st))
		}
	}
	return msgs
}

func (g *vgen) random(cases int, restarts bool) {
	r := g.r
	for c := 0; c < cases; c++ {
		g.caseHdr("rand")
		if r.Chance(70) {
			g.tx(1000, dep(0, "ca", 1))
		}
		n := r.Range(5, 10)
		restartAt := -1
		if restarts && r.Chance(12) {
			restartAt = r.Intn(n)
		}
		for i := 0; i < n; i++ {
			if i == restartAt {
				g.o.Op("vrestart")
			}
			fee := int64(r.Range(1, 5000))
			switch v := r.Intn(100); {
			case v < 50:
				g.tx(fee, g.randomMsgs(false)...)
			case v < 85:
				g.tx(fee, g.randomMsgs(true)...)
			case v < 93:
				msgs := g.randomMsgs(r.Bool())
				if gasClass(msgs) == "hi" {
					g.sim(fee, msgs...)
				}
			default:
				g.o.Op("vq %s %s", kit.Pick(r, []string{"get", "bad", "poke"}), kit.Pick(r, []string{"ca", "cb"}))
			}
		}
		// the closing txs exercise everything a failed tx may have touched
		g.followUpRandom()
	}
}

func (g *vgen) followUpRandom() {
	st := &g.st
	if st.lib == 0 {
		v := g.r.Range(1, 2)
		g.tx(1000, dep(1, "lib", v), dep(1, "use", v))
	} else if st.use == 0 {
		g.tx(1000, dep(1, "use", st.lib))
	}
	if !st.ca {
		g.tx(1000, dep(2, "ca", 1), call(2, "ca", "inc", 1))
	} else {
		g.tx(1000, call(2, "ca", "inc", 1), run(2, "inc", 2))
	}
	if !st.cb {
		g.tx(1000, dep(0, "cb", 1), call(0, "cb", "inc", 9))
	}
}

var vMalformed = []string{
	"vtx",
	"vtx S",
	"vtx S hi",
	"vtx S hi 1000",
	"vtx X hi 1000 send;a0;a1;1",
	"vtx S mid 1000 send;a0;a1;1",
	"vtx S hi 0 send;a0;a1;1",
	"vtx S hi 01 send;a0;a1;1",
	"vtx S hi 1000000001 send;a0;a1;1",
	"vtx S hi 1000 send;a0;a3;1",
	"vtx S hi 1000 send;a0;a1;0",
	"vtx S hi 1000 send;a0;a1;1001",
	"vtx S hi 1000 send;a0;a1",
	"vtx S lo 1000 send;a0;a1;1",
	"vtx F hi 1000 call;a0;ca;spin;0;d",
	"vtx F lo 1000 dep;a0;ca;1;d call;a0;ca;spin;0;d",
	"vtx F lo 1000 send;a0;a1;1 send;a0;a1;1 run;a0;loop;1",
	"vtx S hi 1000 dep;a0;ca;2;d",
	"vtx S hi 1000 dep;a0;ca;1;x",
	"vtx S hi 1000 dep;a0;zz;1;d",
	"vtx S hi 1000 call;a0;lib;inc;1;d",
	"vtx S hi 1000 call;a0;ca;inc;1000;d",
	"vtx S hi 1000 call;a0;ca;inc;1;s",
	"vtx S hi 1000 call;a0;ca;grow;0;s",
	"vtx S hi 1000 call;a0;ca;get;1;d",
	"vtx S hi 1000 run;a0;main;1",
	"vtx S hi 1000 mint;a0;1",
	"vtx S hi 1000 send;a0;a1;1 send;a0;a1;1 send;a0;a1;1 send;a0;a1;1 send;a0;a1;1 send;a0;a1;1 send;a0;a1;1",
	"vsim lo 1000 run;a0;loop;1",
	"vsim S hi 1000 send;a0;a1;1",
	"vq",
	"vq get",
	"vq get lib",
	"vq put ca",
	"vq poke",
	"vrestart now",
}

func vmGen(o *kit.Out, r *kit.Rand, tier string) {
	g := &vgen{o: o, r: r}
	if tier == "thorough" {
		g.boundary(true)
		g.random(40, true)
	} else {
		g.boundary(false)
		g.random(3, false)
	}
	// malformed lines never start the application
	o.Case("vm-malformed")
	for _, l := range vMalformed {
		o.Op("%s", l)
	}
}
