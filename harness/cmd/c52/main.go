// Harness for C52: gnoweb never turns realm output into executable web content.
//
// Real code under test (in-process):
//
//	gnoweb.NewHTMLRenderer(NewDefaultRenderConfig()).RenderRealm / RenderDocumentation
//	    (the renderer NewRouter builds when AppConfig.UnsafeHTML is false — the default)
//	gnoweb/markdown.HTMLEscapeString, ExtLinks' renderGnoLink on hand-built GnoLink nodes
//	html.EscapeString, goldmark util.EscapeHTML / UnescapePunctuations / ResolveNumericReferences /
//	    ResolveEntityNames / URLEscape, goldmark renderer/html.IsDangerousURL
//
// op lines (bytes as hex, `e` empty, `-` absent): see lean/GnoVerif/Drive/C52.lean.
//
// Oracle (independent of the Lean model; golang.org/x/net/html does the parsing):
//   - the HTML produced for a document (`md`, `doc`), a link (`link`) or an image (`img`)
//     must contain no script-like element, no on* attribute, no URL attribute whose value —
//     read as a browser reads it — has a script-capable scheme, and no element or attribute
//     copied from raw HTML of the input;
//   - an escaper's output, placed in text / double- and single-quoted attribute / comment /
//     textarea context, must tokenize to exactly the context's own skeleton and decode back
//     to the input.
package main

import (
	"bytes"
	"context"
	"errors"
	"fmt"
	stdhtml "html"
	"io"
	"log/slog"
	"net/http"
	"net/http/httptest"
	"net/url"
	"sort"
	"strings"
	"time"

	"github.com/gnolang/gno/gno.land/pkg/gnoweb"
	md "github.com/gnolang/gno/gno.land/pkg/gnoweb/markdown"
	"github.com/gnolang/gno/gno.land/pkg/gnoweb/weburl"
	"github.com/gnolang/gno/gnovm/pkg/doc"
	"github.com/yuin/goldmark"
	"github.com/yuin/goldmark/ast"
	ghtml "github.com/yuin/goldmark/renderer/html"
	gutil "github.com/yuin/goldmark/util"
	"gnoverif/kit"
	xhtml "golang.org/x/net/html"
)

// ------------------------------------------------------------------ real renderer

var (
	renderer *gnoweb.HTMLRenderer
	realmURL *weburl.GnoURL
	linkGM   goldmark.Markdown
)

func setup() {
	if renderer != nil {
		return
	}
	logger := slog.New(slog.NewTextHandler(io.Discard, nil))
	renderer = gnoweb.NewHTMLRenderer(logger, gnoweb.NewDefaultRenderConfig(), nil)
	u, err := weburl.Parse("/r/demo/foo")
	if err != nil {
		panic(err)
	}
	realmURL = u
	linkGM = goldmark.New()
	md.ExtLinks.Extend(linkGM)
}

func renderRealm(src []byte) []byte {
	setup()
	var buf bytes.Buffer
	_, err := renderer.RenderRealm(&buf, realmURL, src, gnoweb.RealmRenderContext{ChainId: "dev", Remote: "127.0.0.1:26657", Domain: "gno.land"})
	if err != nil {
		return []byte("<!--render-error-->")
	}
	return buf.Bytes()
}

func renderDoc(src []byte) []byte {
	setup()
	var buf bytes.Buffer
	if err := renderer.RenderDocumentation(&buf, src); err != nil {
		return []byte("<!--render-error-->")
	}
	return buf.Bytes()
}

func renderLink(ty int, untrusted, help bool, dest, title []byte) []byte {
	setup()
	doc := ast.NewDocument()
	link := ast.NewLink()
	link.Destination = dest
	link.Title = title
	link.AppendChild(link, ast.NewString([]byte("x")))
	gl := &md.GnoLink{Link: link, LinkType: md.GnoLinkType(ty), Untrusted: untrusted}
	if help {
		gl.GnoURL = &weburl.GnoURL{Path: "/r/demo/foo", WebQuery: url.Values{"help": {""}}}
	}
	doc.AppendChild(doc, gl)
	var buf bytes.Buffer
	if err := linkGM.Renderer().Render(&buf, nil, doc); err != nil {
		panic(err)
	}
	return buf.Bytes()
}

// ------------------------------------------------------------------ the served page (real HTTP handler)

// realmClient is a gnoweb.ClientAdapter whose only realm renders the document under test.
type realmClient struct{ body []byte }

var errNope = errors.New("not available in the harness")

func (c *realmClient) Realm(ctx context.Context, path, args string) ([]byte, error) {
	if path != "/r/demo/foo" {
		return nil, gnoweb.ErrClientPackageNotFound
	}
	return c.body, nil
}
func (c *realmClient) File(ctx context.Context, path, filename string, height int64) ([]byte, gnoweb.FileMeta, error) {
	return nil, gnoweb.FileMeta{}, gnoweb.ErrClientPackageNotFound
}
func (c *realmClient) ListFiles(ctx context.Context, path string, height int64) ([]string, error) {
	return nil, gnoweb.ErrClientPackageNotFound
}
func (c *realmClient) ListPaths(ctx context.Context, prefix string, limit int) ([]string, error) {
	return nil, nil
}
func (c *realmClient) Doc(ctx context.Context, path string, height int64) (*doc.JSONDocumentation, error) {
	return nil, errNope
}
func (c *realmClient) StatePkg(ctx context.Context, path string, height int64) ([]byte, error) {
	return nil, errNope
}
func (c *realmClient) StateObject(ctx context.Context, oid string, height int64) ([]byte, error) {
	return nil, errNope
}
func (c *realmClient) StateType(ctx context.Context, typeId string, height int64) ([]byte, error) {
	return nil, errNope
}

var (
	pageClient  *realmClient
	pageHandler http.Handler
)

// servePage returns status and body of GET /r/demo/foo with the realm rendering `src`,
// through the real gnoweb.HTTPHandler built around the default renderer.
func servePage(src []byte) (int, []byte) {
	setup()
	if pageHandler == nil {
		logger := slog.New(slog.NewTextHandler(io.Discard, nil))
		pageClient = &realmClient{}
		h, err := gnoweb.NewHTTPHandler(logger, &gnoweb.HTTPHandlerConfig{
			ClientAdapter: pageClient,
			Renderer:      renderer,
			Aliases:       map[string]gnoweb.AliasTarget{},
			Timeout:       time.Minute,
			Meta: gnoweb.StaticMetadata{Domain: "gno.land", AssetsPath: "/public/", ChromaPath: "/public/_chroma/style.css",
				RemoteHelp: "127.0.0.1:26657", ChainId: "dev", BuildTime: "0"},
		})
		if err != nil {
			panic(err)
		}
		pageHandler = h
	}
	pageClient.body = src
	rec := httptest.NewRecorder()
	req := httptest.NewRequest(http.MethodGet, "/r/demo/foo", nil)
	pageHandler.ServeHTTP(rec, req)
	return rec.Code, rec.Body.Bytes()
}

// inventory lists what the property forbids, as found in one page: script-like elements,
// event-handler attributes, script-capable URL attributes, and the element names used.
func inventory(page []byte) (danger []string, tags map[string]bool) {
	tags = map[string]bool{}
	z := xhtml.NewTokenizer(bytes.NewReader(page))
	for {
		tt := z.Next()
		if tt == xhtml.ErrorToken {
			break
		}
		if tt != xhtml.StartTagToken && tt != xhtml.SelfClosingTagToken {
			continue
		}
		tok := z.Token()
		tags[tok.Data] = true
		if forbiddenTags[tok.Data] {
			danger = append(danger, "element:"+tok.Data)
		}
		for _, at := range tok.Attr {
			if len(at.Key) > 2 && strings.HasPrefix(at.Key, "on") {
				danger = append(danger, "event:"+tok.Data+"."+at.Key)
			}
			if urlAttrs[at.Key] && scriptCapableURL(at.Val) {
				danger = append(danger, "url:"+tok.Data+"."+at.Key+"="+shortStr(at.Val))
			}
			if at.Key == "data-cnry" {
				danger = append(danger, "canary:"+tok.Data)
			}
		}
	}
	sort.Strings(danger)
	return danger, tags
}

var (
	baseDanger []string
	baseTags   map[string]bool
)

// pageOracle: the page served for `src` must forbid-wise look like the page served for an
// empty realm (gnoweb's own layout has its own <script>/<link>/<meta>: those are the baseline).
func pageOracle(src []byte) (string, string) {
	if baseTags == nil {
		_, b := servePage([]byte("hello"))
		baseDanger, baseTags = inventory(b)
	}
	code, page := servePage(src)
	danger, tags := inventory(page)
	impl := fmt.Sprintf("status=%d", code)
	// multiset difference danger − baseline
	count := map[string]int{}
	for _, d := range baseDanger {
		count[d]--
	}
	for _, d := range danger {
		count[d]++
	}
	keys := []string{}
	for k, v := range count {
		if v > 0 {
			keys = append(keys, k)
		}
	}
	sort.Strings(keys)
	if len(keys) > 0 {
		k := keys[0]
		switch {
		case strings.HasPrefix(k, "element:"):
			return impl, "VIOL:script-element served page gains " + k
		case strings.HasPrefix(k, "event:"):
			return impl, "VIOL:event-attr served page gains " + k
		case strings.HasPrefix(k, "canary:"):
			return impl, "VIOL:raw-html served page gains " + k
		default:
			return impl, "VIOL:script-url served page gains " + k
		}
	}
	low := bytes.ToLower(src)
	names := []string{}
	for tname := range tags {
		if !baseTags[tname] && !knownTags[tname] && bytes.Contains(low, []byte("<"+tname)) {
			names = append(names, tname)
		}
	}
	sort.Strings(names)
	if len(names) > 0 {
		return impl, "VIOL:raw-html served page has element <" + names[0] + "> copied from the document"
	}
	return impl, "ok"
}

// ------------------------------------------------------------------ output shortening (same as the Lean driver)

func fnv(b []byte) uint64 {
	h := uint64(0xcbf29ce484222325)
	for _, c := range b {
		h = (h ^ uint64(c)) * 0x100000001b3
	}
	return h
}

func short(b []byte) string {
	if len(b) <= 100 {
		return kit.Hex(append([]byte{}, b...))
	}
	return fmt.Sprintf("#%d.%016x.%s", len(b), fnv(b), kit.Hex(b[:40]))
}

// ------------------------------------------------------------------ oracle: the served HTML as a browser reads it

var forbiddenTags = map[string]bool{"script": true, "iframe": true, "object": true, "embed": true, "applet": true,
	"frame": true, "frameset": true, "base": true, "meta": true, "link": true, "style": true}

var urlAttrs = map[string]bool{"href": true, "src": true, "action": true, "formaction": true, "xlink:href": true,
	"data": true, "poster": true, "background": true, "cite": true, "longdesc": true, "codebase": true,
	"manifest": true, "ping": true}

// elements goldmark (CommonMark + GFM table/strikethrough/tasklist/footnote), chroma's
// class-based formatter and gnoweb's own extensions / templates can produce
var knownTags = map[string]bool{"p": true, "a": true, "em": true, "strong": true, "code": true, "pre": true,
	"blockquote": true, "ul": true, "ol": true, "li": true, "h1": true, "h2": true, "h3": true, "h4": true,
	"h5": true, "h6": true, "hr": true, "br": true, "img": true, "del": true, "table": true, "thead": true,
	"tbody": true, "tr": true, "th": true, "td": true, "input": true, "sup": true, "div": true, "span": true,
	"svg": true, "use": true, "details": true, "summary": true, "form": true, "label": true, "select": true,
	"option": true, "textarea": true, "button": true}

// browserScheme is the WHATWG URL parser's view: strip leading/trailing C0-control-or-space,
// drop every tab/LF/CR, then `alpha (alnum|+|-|.)* ':'`, compared ASCII-case-insensitively.
func browserScheme(v string) (scheme, rest string) {
	b := []byte(v)
	for len(b) > 0 && b[0] <= 0x20 {
		b = b[1:]
	}
	for len(b) > 0 && b[len(b)-1] <= 0x20 {
		b = b[:len(b)-1]
	}
	clean := make([]byte, 0, len(b))
	for _, c := range b {
		if c == '\t' || c == '\n' || c == '\r' {
			continue
		}
		clean = append(clean, c)
	}
	for i, c := range clean {
		switch {
		case c >= 'a' && c <= 'z', c >= 'A' && c <= 'Z':
		case i > 0 && (c >= '0' && c <= '9' || c == '+' || c == '-' || c == '.'):
		case c == ':' && i > 0:
			return strings.ToLower(string(clean[:i])), strings.ToLower(string(clean))
		default:
			return "", ""
		}
	}
	return "", ""
}

func scriptCapableURL(v string) bool {
	scheme, whole := browserScheme(v)
	switch scheme {
	case "javascript", "vbscript":
		return true
	case "data":
		for _, ok := range []string{"data:image/png;", "data:image/gif;", "data:image/jpeg;", "data:image/webp;", "data:image/svg+xml;"} {
			if strings.HasPrefix(whole, ok) {
				return false
			}
		}
		return true
	}
	return false
}

type analysis struct {
	tags    int
	canon   []byte
	problem int    // first problem in document order: 1 element, 2 event attribute, 3 script URL, 0 none
	verdict string // oracle verdict
}

// analyze tokenizes the produced HTML and evaluates the property statement on it.
// `input` is the document the HTML was produced from (for "originating from the input").
func analyze(htmlBytes, input []byte, docCtx bool) analysis {
	var a analysis
	z := xhtml.NewTokenizer(bytes.NewReader(htmlBytes))
	lowIn := bytes.ToLower(input)
	viol := ""
	setViol := func(s string) {
		if viol == "" {
			viol = s
		}
	}
	for {
		tt := z.Next()
		if tt == xhtml.ErrorToken {
			break
		}
		if tt != xhtml.StartTagToken && tt != xhtml.SelfClosingTagToken && tt != xhtml.EndTagToken {
			continue
		}
		tok := z.Token()
		a.tags++
		if tt == xhtml.EndTagToken {
			a.canon = append(a.canon, '/')
			a.canon = append(a.canon, tok.Data...)
			a.canon = append(a.canon, '\n')
			continue
		}
		a.canon = append(a.canon, '<')
		a.canon = append(a.canon, tok.Data...)
		tagProblem := 0
		if forbiddenTags[tok.Data] {
			tagProblem = 1
			setViol("VIOL:script-element <" + tok.Data + ">")
		} else if !knownTags[tok.Data] && bytes.Contains(lowIn, []byte("<"+tok.Data)) {
			setViol("VIOL:raw-html element <" + tok.Data + "> copied from the document")
		}
		for _, at := range tok.Attr {
			a.canon = append(a.canon, ' ')
			a.canon = append(a.canon, at.Key...)
			if urlAttrs[at.Key] {
				a.canon = append(a.canon, '=')
				a.canon = append(a.canon, at.Val...)
			}
			p := 0
			switch {
			case len(at.Key) > 2 && strings.HasPrefix(at.Key, "on"):
				p = 2
				setViol("VIOL:event-attr " + at.Key + " on <" + tok.Data + ">")
			case urlAttrs[at.Key] && scriptCapableURL(at.Val):
				p = 3
				scheme, _ := browserScheme(at.Val)
				if bytes.Contains(lowIn, []byte(scheme+":")) {
					setViol("VIOL:script-url " + at.Key + "=" + shortStr(at.Val) + " on <" + tok.Data + ">")
				} else {
					setViol("VIOL:script-url-obfuscated " + at.Key + "=" + shortStr(at.Val) + " on <" + tok.Data + "> (scheme not literally in the input)")
				}
			case !docCtx && at.Key == "data-cnry":
				// the canary attribute only ever occurs inside raw HTML of generated documents
				// (the documentation context enables goldmark's `{…}` heading attributes, which
				// legitimately emit data-* attributes)
				setViol("VIOL:raw-html attribute " + at.Key + " copied from the document")
			}
			if tagProblem == 0 && p != 0 {
				tagProblem = p
			}
		}
		a.canon = append(a.canon, '\n')
		if a.problem == 0 {
			a.problem = tagProblem
		}
	}
	if viol == "" {
		viol = "ok"
	}
	a.verdict = viol
	return a
}

func shortStr(s string) string {
	if len(s) > 60 {
		s = s[:60] + "…"
	}
	return fmt.Sprintf("%q", s)
}

func (a analysis) summary() string {
	return fmt.Sprintf("t=%d h=%016x v=%d", a.tags, fnv(a.canon), a.problem)
}

// ------------------------------------------------------------------ oracle: an escaper's output in context

type ctxSpec struct {
	name        string
	pre, post   string
	want        []xhtml.TokenType
	quoteSingle bool // the context is delimited by ' (only escapers that escape ' are placed there)
}

var escCtxs = []ctxSpec{
	{"text", "<p>", "</p>", []xhtml.TokenType{xhtml.StartTagToken, xhtml.TextToken, xhtml.EndTagToken}, false},
	{"attr-dq", `<a title="`, `">`, []xhtml.TokenType{xhtml.StartTagToken}, false},
	{"attr-sq", `<a title='`, `'>`, []xhtml.TokenType{xhtml.StartTagToken}, true},
	{"comment", "<!-- ", " -->", []xhtml.TokenType{xhtml.CommentToken}, false},
	{"textarea", "<textarea>", "</textarea>", []xhtml.TokenType{xhtml.StartTagToken, xhtml.TextToken, xhtml.EndTagToken}, false},
}

// escOracle: does `out` stay inside each context, and does it read back as `in`?
func escOracle(in, out []byte, escapesSingle bool) string {
	want := strings.ReplaceAll(string(in), "\x00", "�")
	for _, c := range escCtxs {
		if c.quoteSingle && !escapesSingle {
			continue
		}
		z := xhtml.NewTokenizer(strings.NewReader(c.pre + string(out) + c.post))
		var types []xhtml.TokenType
		got := ""
		for {
			tt := z.Next()
			if tt == xhtml.ErrorToken {
				break
			}
			tok := z.Token()
			if tt == xhtml.TextToken && len(out) == 0 {
				continue
			}
			types = append(types, tt)
			switch {
			case tt == xhtml.TextToken:
				got += tok.Data
			case tt == xhtml.StartTagToken && strings.HasPrefix(c.name, "attr"):
				if len(tok.Attr) != 1 || tok.Attr[0].Key != "title" {
					return "VIOL:escape-breakout " + c.name + ": attributes changed"
				}
				got = tok.Attr[0].Val
			}
		}
		exp := c.want
		if len(out) == 0 && len(exp) == 3 {
			exp = []xhtml.TokenType{exp[0], exp[2]}
		}
		if fmt.Sprint(types) != fmt.Sprint(exp) {
			return fmt.Sprintf("VIOL:escape-breakout %s: tokens %v", c.name, types)
		}
		if c.name == "comment" {
			continue
		}
		// x/net/html replaces CR and NUL while reading text; compare modulo that
		norm := func(s string) string {
			s = strings.ReplaceAll(s, "\r\n", "\n")
			s = strings.ReplaceAll(s, "\r", "\n")
			return strings.ReplaceAll(s, "\x00", "�")
		}
		if c.name == "textarea" {
			// a newline right after <textarea> is dropped by the tokenizer
			if strings.TrimPrefix(norm(want), "\n") != strings.TrimPrefix(norm(got), "\n") {
				return "VIOL:escape-roundtrip " + c.name
			}
			continue
		}
		if norm(got) != norm(want) {
			return "VIOL:escape-roundtrip " + c.name
		}
	}
	return "ok"
}

// ------------------------------------------------------------------ exec

func imgStructural(d []byte) bool {
	for _, c := range d {
		if c == '<' || c == '>' || c == '\n' || c == '\r' || c == '\\' || c == 0 {
			return true
		}
	}
	return false
}

func exec(t []string) (string, string) {
	if len(t) == 0 {
		return "err:badop", "-"
	}
	arg := func(i int) ([]byte, bool) {
		if i >= len(t) {
			return nil, false
		}
		b, err := kit.UnHex(t[i])
		if err != nil || b == nil {
			return nil, false
		}
		return b, true
	}
	switch t[0] {
	case "tesc", "hesc", "gesc":
		b, ok := arg(1)
		if !ok || len(t) != 2 {
			return "err:badop", "-"
		}
		var out []byte
		switch t[0] {
		case "tesc":
			out = []byte(md.HTMLEscapeString(string(b)))
		case "hesc":
			out = []byte(stdhtml.EscapeString(string(b)))
		default:
			out = gutil.EscapeHTML(b)
		}
		return short(out), escOracle(b, out, t[0] != "gesc")
	case "unp", "rnum", "rent", "uesc0", "uesc":
		b, ok := arg(1)
		if !ok || len(t) != 2 {
			return "err:badop", "-"
		}
		var out []byte
		switch t[0] {
		case "unp":
			out = gutil.UnescapePunctuations(b)
		case "rnum":
			out = gutil.ResolveNumericReferences(b)
		case "rent":
			out = gutil.ResolveEntityNames(b)
		case "uesc0":
			out = gutil.URLEscape(b, false)
		default:
			out = gutil.URLEscape(b, true)
		}
		return short(out), "-"
	case "dang":
		b, ok := arg(1)
		if !ok || len(t) != 2 {
			return "err:badop", "-"
		}
		return fmt.Sprint(ghtml.IsDangerousURL(b)), "-"
	case "link":
		if len(t) != 6 {
			return "err:badop", "-"
		}
		ty := -1
		fmt.Sscanf(t[1], "%d", &ty)
		dest, ok := arg(4)
		title, err := kit.UnHex(t[5])
		if !ok || err != nil || ty < 0 || ty > 4 || (t[2] != "0" && t[2] != "1") || (t[3] != "0" && t[3] != "1") {
			return "err:badop", "-"
		}
		out := renderLink(ty, t[2] == "1", t[3] == "1", dest, title)
		return short(out), analyze(out, dest, false).verdict
	case "img":
		d, ok := arg(1)
		if !ok || len(t) != 2 || imgStructural(d) {
			return "err:badop", "-"
		}
		src := append(append([]byte("![a](<"), d...), ">)"...)
		out := renderRealm(src)
		i := bytes.Index(out, []byte(`<img src="`))
		if i < 0 {
			return "err:noparse", "-"
		}
		rest := out[i+len(`<img src="`):]
		j := bytes.IndexByte(rest, '"')
		if j < 0 {
			return "err:noparse", "-"
		}
		return short(rest[:j]), analyze(out, src, false).verdict
	case "url":
		b, ok := arg(1)
		if !ok || len(t) != 2 {
			return "err:badop", "-"
		}
		return fmt.Sprint(scriptCapableURL(string(b))), "-"
	case "dec":
		b, ok := arg(1)
		if !ok || len(t) != 2 {
			return "err:badop", "-"
		}
		return short([]byte(stdhtml.UnescapeString(string(b)))), "-"
	case "page":
		m, ok := arg(1)
		if !ok || len(t) != 2 {
			return "err:badop", "-"
		}
		return pageOracle(m)
	case "md", "doc":
		m, ok := arg(1)
		if !ok || len(t) != 3 {
			return "err:badop", "-"
		}
		var out []byte
		if t[0] == "md" {
			out = renderRealm(m)
		} else {
			out = renderDoc(m)
		}
		a := analyze(out, m, t[0] == "doc")
		if t[2] == "-" {
			return "nohtml", a.verdict
		}
		if _, err := kit.UnHex(t[2]); err != nil {
			return "err:badop", "-"
		}
		return a.summary(), a.verdict
	}
	return "err:badop", "-"
}

func main() {
	kit.Main(&kit.Harness{
		Gen:   gen,
		Reset: func() {},
		Exec:  exec,
	})
}
